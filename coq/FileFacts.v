(* FileFacts.v — the slice stream of a file: slices until the end marker (C01, C04), and what a
   reading session makes of every strict prefix of it (C06). *)
From Sbdf Require Import File BaseFacts PrimFacts ObjFacts VaFacts SliceFacts MdFacts TmFacts NormFacts.
From Coq Require Import ZifyBool.

Section FileFacts.
Variable swp : bool.
Notation cap0 := (@None Z).

Definition enc_end : list Z := [223; 91; 5].
Definition enc_slices (sls : list (list (cs va))) : list Z := concat (map (enc_ts swp) sls) ++ enc_end.

Definition slices_ok (ncols : Z) (sls : list (list (cs va))) : Prop :=
  forall cols, In cols sls -> wf_ts cols /\ zlen cols = ncols.

Lemma wspec_end : wspec ts_write_end (Ok tt) enc_end.
Proof. apply (wspec_sec SBDF_TABLEEND_SECTIONID). Qed.

(* the writer side: slices followed by the end marker, under every budget *)
Theorem wspec_slices sls ncols : slices_ok ncols sls ->
  wspec (wfor (map (fun cols => {| tscols := map Some cols; tsowned := false |}) sls) (ts_write swp) ;;w ts_write_end)
        (Ok tt) (enc_slices sls).
Proof.
  intros W. unfold enc_slices. eapply wspec_bind; [|apply wspec_end].
  induction sls as [|cols sls IH]; cbn [map wfor concat]; [apply wspec_ret|].
  eapply wspec_bind; [apply wspec_ts; apply W; now left|].
  apply IH. intros c Hc. apply W. now right.
Qed.

Lemma ts_read_end_marker ncols subset tail : ts_read swp cap0 ncols subset (enc_end ++ tail) = Err SBDF_TABLEEND.
Proof. reflexivity. Qed.

(* C01/C04: a session reads exactly the slices that were written, in order, and then reports
   end-of-table exactly at the end marker *)
Theorem read_slices_exact sls : forall ncols fuel tail,
  slices_ok ncols sls -> (length sls <= length fuel)%nat ->
  read_slices swp cap0 fuel ncols None (enc_slices sls ++ tail)
  = (map (owned_ts) sls, SBDF_TABLEEND, enc_end ++ tail).
Proof.
  induction sls as [|cols sls IH]; intros ncols fuel tail W Hf.
  - unfold enc_slices. cbn [map concat app]. destruct fuel; cbn [read_slices]; now rewrite ts_read_end_marker.
  - destruct fuel as [|b fuel]; [cbn in Hf; lia|].
    destruct (W cols (or_introl eq_refl)) as (Wc & Hn).
    unfold enc_slices. cbn [map concat]. rewrite <- !app_assoc. cbn [read_slices].
    rewrite <- Hn. rewrite (ts_read_exact swp cols None _ Wc). rewrite mask_none.
    rewrite Hn. fold (enc_slices sls). rewrite app_assoc.
    change ((concat (map (enc_ts swp) sls) ++ enc_end) ++ tail) with (enc_slices sls ++ tail).
    rewrite IH; [reflexivity| |cbn in Hf; lia].
    intros c Hc. apply W. now right.
Qed.

(* C06: on every strict prefix of the slice stream the session ends with a hard error (never OK,
   never end-of-table), and the slices delivered before it are the first slices of the full stream *)
Theorem read_slices_truncated sls : forall ncols fuel n,
  slices_ok ncols sls -> 0 <= n < zlen (enc_slices sls) ->
  let '(l, st, _) := read_slices swp cap0 fuel ncols None (ztake n (enc_slices sls)) in
  hard st /\ exists k, l = map owned_ts (firstn k sls).
Proof.
  induction sls as [|cols sls IH]; intros ncols fuel n W Hn.
  - unfold enc_slices in *. cbn [map concat app] in *.
    assert (E : exists e, ts_read swp cap0 ncols None (ztake n enc_end) = Err e /\ hard e).
    { destruct (rspec_sec_read SBDF_TABLEEND_SECTIONID) as [_ T]. destruct (T n Hn) as (e & Ee & He).
      exists e. split; [|exact He]. unfold ts_read, rd_bind.
      change enc_end with [223; 91; SBDF_TABLEEND_SECTIONID]. now rewrite Ee. }
    destruct E as (e & Ee & He). destruct fuel; cbn [read_slices]; rewrite Ee; (split; [exact He|exists 0%nat; reflexivity]).
  - destruct (W cols (or_introl eq_refl)) as (Wc & Hc).
    unfold enc_slices in *. cbn [map concat] in *. rewrite <- app_assoc in *. rewrite zlen_app in Hn.
    destruct (Z_lt_le_dec n (zlen (enc_ts swp cols))) as [L|L].
    + rewrite ztake_app_le by lia. destruct (rspec_ts swp cols Wc) as [_ T]. rewrite Hc in T.
      destruct (T n) as (e & Ee & He); [lia|].
      destruct fuel; cbn [read_slices]; rewrite Ee; (split; [exact He|exists 0%nat; reflexivity]).
    + rewrite ztake_app_ge by lia.
      destruct fuel as [|b fuel]; cbn [read_slices]; rewrite <- Hc; rewrite (ts_read_exact swp cols None _ Wc); rewrite mask_none.
      * split; [apply hard_io|]. exists 1%nat. reflexivity.
      * rewrite Hc. specialize (IH ncols fuel (n - zlen (enc_ts swp cols))).
        fold (enc_slices sls) in *.
        destruct (read_slices swp cap0 fuel ncols None (ztake (n - zlen (enc_ts swp cols)) (enc_slices sls))) as [[l st] s'].
        destruct IH as (Hs & k & Hl); [intros c Hin; apply W; now right|lia|].
        split; [exact Hs|]. exists (S k). cbn [firstn map]. now rewrite Hl.
Qed.


(* ---- whole files ---- *)
Definition caller_ts (cols : list (cs va)) : ts (cs va) := {| tscols := map Some cols; tsowned := false |}.

Record wf_file (meta : tm) (sls : list (list (cs va))) (names : list mdent) : Prop := {
  wf_meta : tm_ok meta;
  wf_dflts : cols_dflt_wf (tcols meta);
  wf_fold : fold_columns (tcols meta) = Ok names;
  wf_names : zlen names < 2147483648;
  wf_slices : slices_ok (zlen (tcols meta)) sls }.

Definition enc_file (meta : tm) (sls : list (list (cs va))) (names : list mdent) : list Z :=
  enc_header ++ enc_tm swp meta names ++ enc_slices sls.

Definition read_back (meta : tm) (sls : list (list (cs va))) (names : list mdent) : table :=
  {| t_meta := {| tmeta := {| ments := ments (tmeta meta); mmod := false |}; tcols := map (norm names) (tcols meta) |};
     t_slices := map owned_ts sls |}.

Lemma length_enc_slices_ge sls tail : (length sls <= length (enc_slices sls ++ tail))%nat.
Proof.
  unfold enc_slices. rewrite !app_length.
  assert (length sls <= length (concat (map (enc_ts swp) sls)))%nat; [|lia].
  apply (length_concat_ge (enc_ts swp)). intros c _. unfold enc_ts. discriminate.
Qed.

(* C03/C13 at file level: the writers emit exactly enc_file, under every budget *)
Theorem wspec_file meta sls names : wf_file meta sls names ->
  wspec (write_table swp {| t_meta := meta; t_slices := map caller_ts sls |}) (Ok tt) (enc_file meta sls names).
Proof.
  intros [Wm Wd Wf Wn Ws]. unfold write_table, enc_file. cbn [t_meta t_slices].
  destruct (fold_gives_names_ok (tcols meta) names) as (Hn & _); [destruct Wm as (_ & _ & Wc & _); exact Wc|exact Wd|exact Wf|].
  eapply wspec_bind; [apply wspec_fh|]. eapply wspec_bind; [now apply wspec_tm|].
  exact (wspec_slices sls (zlen (tcols meta)) Ws).
Qed.

(* C01: conflicting column metadata is refused; nothing but the header and the head of the
   metadata section has been written *)
Theorem wspec_file_conflict meta (slices : list (ts (cs va))) st : tm_ok meta -> fold_columns (tcols meta) = Err st ->
  wspec (write_table swp {| t_meta := meta; t_slices := slices |}) (Err SBDF_ERROR_INCORRECT_METADATA) (enc_header ++ enc_tm_head swp meta).
Proof.
  intros Wm F. unfold write_table. cbn [t_meta t_slices].
  destruct (wspec_tm_conflict swp meta st Wm F) as (_ & H).
  eapply wspec_bind; [apply wspec_fh|]. apply wspec_bind_err; [discriminate|exact H].
Qed.

(* C01/C04: reading the file back gives the table metadata (columns in the file-wide name order),
   every slice, and then end-of-table exactly at the end marker *)
Theorem read_file_exact meta sls names tail : wf_file meta sls names ->
  read_table swp cap0 None (enc_file meta sls names ++ tail) = (Some (read_back meta sls names), SBDF_TABLEEND, enc_end ++ tail).
Proof.
  intros [Wm Wd Wf Wn Ws]. unfold read_table, enc_file. rewrite <- !app_assoc.
  destruct rspec_fh as [E0 _]. rewrite E0.
  destruct (fold_gives_names_ok (tcols meta) names) as (Hn & Hc); [destruct Wm as (_ & _ & Wc & _); exact Wc|exact Wd|exact Wf|].
  rewrite (tm_read_exact swp meta names _ Wm Hn Wn Hc).
  cbn [tcols]. rewrite zlen_map.
  rewrite read_slices_exact; [reflexivity|exact Ws|apply length_enc_slices_ge].
Qed.

(* C06 at file level: on every strict prefix of a well-formed file the session ends with a hard
   error - never OK, never end-of-table - and what was delivered before it is the table metadata of
   the full file (or nothing) and the first slices of the full file, unchanged *)
Theorem read_file_truncated meta sls names n : wf_file meta sls names ->
  0 <= n < zlen (enc_file meta sls names) ->
  let '(t, st, _) := read_table swp cap0 None (ztake n (enc_file meta sls names)) in
  hard st /\
  match t with
  | None => True
  | Some T => t_meta T = t_meta (read_back meta sls names) /\ exists k, t_slices T = map owned_ts (firstn k sls)
  end.
Proof.
  intros [Wm Wd Wf Wn Ws] Hn. unfold read_table, enc_file in *. rewrite !zlen_app in Hn.
  destruct (fold_gives_names_ok (tcols meta) names) as (Hnm & Hc); [destruct Wm as (_ & _ & Wc & _); exact Wc|exact Wd|exact Wf|].
  destruct rspec_fh as [E0 T0].
  destruct (rspec_tm swp meta names Wm Hnm Wn Hc) as [E1 T1].
  destruct (Z_lt_le_dec n (zlen enc_header)) as [L0|L0].
  - rewrite ztake_app_le by lia. destruct (T0 n) as (e & Ee & He); [lia|]. rewrite Ee. split; [exact He|exact I].
  - rewrite ztake_app_ge by lia. rewrite E0.
    destruct (Z_lt_le_dec (n - zlen enc_header) (zlen (enc_tm swp meta names))) as [L1|L1].
    + rewrite ztake_app_le by lia. destruct (T1 (n - zlen enc_header)) as (e & Ee & He); [lia|]. rewrite Ee. split; [exact He|exact I].
    + rewrite ztake_app_ge by lia. rewrite E1. cbn [tcols]. rewrite zlen_map.
      pose proof (read_slices_truncated sls (zlen (tcols meta))
                    (ztake (n - zlen enc_header - zlen (enc_tm swp meta names)) (enc_slices sls))
                    (n - zlen enc_header - zlen (enc_tm swp meta names)) Ws) as H.
      destruct (read_slices swp cap0 _ (zlen (tcols meta)) None (ztake (n - zlen enc_header - zlen (enc_tm swp meta names)) (enc_slices sls))) as [[l st] s'].
      destruct H as (Hs & k & Hl); [lia|]. split; [exact Hs|]. cbn [t_meta t_slices read_back]. split; [reflexivity|]. now exists k.
Qed.

(* C08: writing back what was read reproduces the file byte for byte.  The re-expanded column
   metadata folds to the same name list (NormFacts.fold_norm); the reader-owned slices are written
   like the caller's. *)
Lemma ts_write_owned cols : ts_write swp (owned_ts cols) = ts_write swp (caller_ts (map owned_cs cols)).
Proof. unfold ts_write, owned_ts, caller_ts. cbn [tscols]. now rewrite map_map. Qed.

Lemma enc_ts_owned cols : enc_ts swp (map owned_cs cols) = enc_ts swp cols.
Proof. unfold enc_ts. rewrite zlen_map, map_map. reflexivity. Qed.

Theorem wspec_slices_owned sls ncols : slices_ok ncols sls ->
  wspec (wfor (map owned_ts sls) (ts_write swp) ;;w ts_write_end) (Ok tt) (enc_slices sls).
Proof.
  intros W. unfold enc_slices. eapply wspec_bind; [|apply wspec_end].
  induction sls as [|cols sls IH]; cbn [map wfor concat]; [apply wspec_ret|].
  eapply wspec_bind.
  - rewrite ts_write_owned, <- enc_ts_owned. apply wspec_ts. destruct (W cols (or_introl eq_refl)) as ((Hn & Hc) & _).
    split; [now rewrite zlen_map|]. intros c Hin. apply in_map_iff in Hin. destruct Hin as (c0 & <- & Hin). exact (Hc c0 Hin).
  - apply IH. intros c Hc. apply W. now right.
Qed.

Theorem wf_file_read_back meta sls names : wf_file meta sls names ->
  wf_file (t_meta (read_back meta sls names)) sls (map cn names).
Proof.
  intros [Wm Wd Wf Wn Ws]. destruct Wm as (W1 & W2 & W3 & W4). cbn [read_back t_meta].
  destruct (fold_columns_spec (tcols meta) names Wf Wd) as (Hnd & Hsub & Hcov).
  constructor; cbn [tmeta tcols ments].
  - unfold tm_ok. cbn [tmeta tcols ments]. split; [exact W1|]. split; [exact W2|]. split; [|now rewrite zlen_map].
    apply Forall_forall. intros c Hc. apply in_map_iff in Hc. destruct Hc as (c0 & <- & Hc0). now apply (col_ok_norm (tcols meta)).
  - unfold cols_dflt_wf. apply Forall_forall. intros a Ha. apply in_concat in Ha. destruct Ha as (l & Hl & Ha).
    apply in_map_iff in Hl. destruct Hl as (c & <- & Hc). apply in_map_iff in Hc. destruct Hc as (c0 & <- & Hc0).
    cbn [norm ments] in Ha. apply in_picked in Ha. destruct Ha as (n & e & Hn & _ & ->). intros d Hd. cbn [edflt] in Hd.
    unfold cols_dflt_wf in Wd. rewrite Forall_forall in Wd. exact (Wd n (Hsub n Hn) d Hd).
  - now apply fold_norm.
  - now rewrite zlen_map.
  - now rewrite zlen_map.
Qed.

Theorem enc_file_read_back meta sls names : wf_file meta sls names -> names_plain (tcols meta) ->
  map cn names = names /\ enc_file (t_meta (read_back meta sls names)) sls names = enc_file meta sls names.
Proof.
  intros [Wm Wd Wf Wn Ws] Hp. destruct Wm as (W1 & W2 & W3 & W4).
  destruct (fold_columns_spec (tcols meta) names Wf Wd) as (Hnd & Hsub & Hcov).
  split.
  - rewrite <- (map_id names) at 2. apply map_ext_in. intros n Hn. apply cn_plain.
    apply Hsub in Hn. apply in_concat in Hn. destruct Hn as (l & Hl & Hn). apply in_map_iff in Hl. destruct Hl as (c & <- & Hc). now apply (Hp c).
  - unfold enc_file, enc_tm, read_back. cbn [t_meta tmeta tcols ments md_cnt]. unfold md_cnt. cbn [ments]. rewrite zlen_map.
    do 7 f_equal. rewrite map_map. do 2 f_equal. apply map_ext_in. intros c Hc. now apply (enc_colvals_norm swp (tcols meta)).
Qed.

Theorem rewrite_file_exact meta sls names : wf_file meta sls names -> names_plain (tcols meta) ->
  wspec (write_table swp (read_back meta sls names)) (Ok tt) (enc_file meta sls names).
Proof.
  intros Wf Hp. destruct (enc_file_read_back meta sls names Wf Hp) as (Ecn & Eenc).
  pose proof (wf_file_read_back meta sls names Wf) as Wf'. rewrite Ecn in Wf'. rewrite <- Eenc.
  destruct Wf' as [Wm Wd Wfo Wn Ws]. unfold write_table, enc_file. cbn [t_meta t_slices read_back tcols] in *.
  destruct (fold_gives_names_ok (map (norm names) (tcols meta)) names) as (Hn & _); [destruct Wm as (_ & _ & Wc & _); exact Wc|exact Wd|exact Wfo|].
  eapply wspec_bind; [apply wspec_fh|]. eapply wspec_bind; [now apply wspec_tm|].
  rewrite zlen_map in Ws. exact (wspec_slices_owned sls (zlen (tcols meta)) Ws).
Qed.

(* and so: read a well-formed file, write what was read: the same bytes (any budget that suffices) *)
Corollary read_then_write_identity meta sls names budget : wf_file meta sls names -> names_plain (tcols meta) ->
  zlen (enc_file meta sls names) <= budget ->
  match read_table swp cap0 None (enc_file meta sls names) with
  | (Some T, st, _) => st = SBDF_TABLEEND /\ wrun (write_table swp T) budget = (SBDF_OK, enc_file meta sls names)
  | _ => False
  end.
Proof.
  intros Wf Hp Hb. pose proof (read_file_exact meta sls names [] Wf) as E. rewrite app_nil_r in E. rewrite E.
  split; [reflexivity|]. pose proof (zlen_nonneg (enc_file meta sls names)).
  destruct (wspec_run _ _ _ budget (rewrite_file_exact meta sls names Wf Hp) ltac:(lia)) as [H1 _]. now apply H1.
Qed.

End FileFacts.
