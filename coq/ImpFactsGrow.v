(* ImpFactsGrow.v - growing arrays of pointers, from the source: sbdf_alloc (src/internals.c: malloc for an empty
   slot, realloc otherwise) and sbdf_ts_add (src/tableslice.c). *)
From Sbdf Require Import ImpCall Gen.Prog Gen.Consts Base Prim BaseFacts ImpBase ImpFactsCap ImpFactsCells.
From Coq Require Import ZifyBool.
Local Open Scope Z_scope.
Ltac Zify.zify_post_hook ::= Z.div_mod_to_equations.

Ltac evg := cbn [prog_env eval_args callee_init finish_call copy_in copy_out try_update update lookup combine map app String.append
                 String.eqb Ascii.eqb Bool.eqb fparams flocals fbody vars inb outb budget_var fail_var strm_var cells_var cell_token List.length Nat.eqb eval set_var cast
                 prog_sbdf_alloc prog_sbdf_ts_add prog_sbdf_calculate_array_capacity truth binop_int b2z negb heap_of as_ptr storable fst snd];
  change (0 =? 0) with true; change (1 =? 0) with false; cbn [negb b2z].

Opaque array_capacity.

(* like cellrw, but leaves additions that are part of the data alone *)
Ltac cellrw1 H := unfold cell_get, cell_set; rewrite H;
  change (0 + 0) with 0; change (0 + 1) with 1; change (0 + 2) with 2; change (0 + 3) with 3;
  cbn [Z.leb Z.compare Z.to_nat Pos.compare Pos.compare_cont];
  change (Pos.to_nat 1) with 1%nat; change (Pos.to_nat 2) with 2%nat; change (Pos.to_nat 3) with 3%nat;
  cbn [nth_error set_nth_v].

Section Grow.
Variables (bv : val) (k : Z) (sx : list Z) (m o : list Z).

(* sbdf_alloc on a slot that is still empty: malloc *)
Lemma alloc_fresh_bs h b i cur z t0 : cell_get h b i = Some cur -> as_ptr cur = VNull -> 0 < z <= int_max -> z mod 8 = 0 ->
  exists h', cell_set (h ++ [Some (repeat VUndef (Z.to_nat (z / 8)))]) b i (VCell (List.length h) 0) = Some h' /\
  bsE prog_env (fbody prog_sbdf_alloc) (fr [("inout"%string, VCell b i); ("sz"%string, VInt z); ("t"%string, t0)] bv k sx h m o)
    (if k =? 0 then OReturn (VInt SBDF_ERROR_OUT_OF_MEMORY) (fr [("inout"%string, VCell b i); ("sz"%string, VInt z); ("t"%string, VNull)] bv (-1) sx h m o)
     else OReturn (VInt SBDF_OK) (fr [("inout"%string, VCell b i); ("sz"%string, VInt z); ("t"%string, VCell (List.length h) 0)] bv (next_fail k) sx h' m o)).
Proof.
  intros Hc Hn Hz Hm. unfold int_max in Hz.
  assert (Hc' : cell_get (h ++ [Some (repeat VUndef (Z.to_nat (z / 8)))]) b i = Some cur).
  { unfold cell_get in *. destruct (nth_error h b) as [[blk|]|] eqn:E; try discriminate. rewrite nth_error_app1 by (apply nth_error_Some; congruence). rewrite E. exact Hc. }
  assert (E : exists h', cell_set (h ++ [Some (repeat VUndef (Z.to_nat (z / 8)))]) b i (VCell (List.length h) 0) = Some h').
  { unfold cell_get in Hc'. unfold cell_set. destruct (nth_error (h ++ _) b) as [[blk|]|] eqn:E1; try discriminate.
    destruct (0 <=? i); [|discriminate]. destruct (set_nth_v_some blk (Z.to_nat i) cur (VCell (List.length h) 0) Hc') as (blk' & ->).
    apply (set_nth_v_some _ b (Some blk) (Some blk') E1). }
  destruct E as (h' & E). exists h'. split; [exact E|].
  cbn [fbody prog_sbdf_alloc]. unfold fr.
  eapply bsE_seq; [eapply bsE_decl0; evg; reflexivity|].
  eapply bsE_seq; [eapply bsE_if; [evg; chk7; evg; replace (z <=? 0) with false by lia; reflexivity|reflexivity|apply bsE_skip]|].
  eapply bsE_seq; [eapply bsE_if; [evg; reflexivity|reflexivity|apply bsE_skip]|].
  destruct (k =? 0) eqn:Ek.
  - eapply bsE_seq.
    + eapply bsE_if; [evg; chk7; evg; replace (i + 0) with i by lia; rewrite Hc; rewrite Hn; reflexivity|reflexivity|].
      eapply bsE_expr. evg. replace (0 <=? z) with true by lia. evg. replace ((0 <=? z) && (z mod 8 =? 0)) with true by lia. rewrite Ek. evg. reflexivity.
    + eapply bsE_if; [evg; reflexivity|reflexivity|]. eapply bsE_return. evg. chk7. reflexivity.
  - eapply bsE_seq.
    + eapply bsE_if; [evg; chk7; evg; replace (i + 0) with i by lia; rewrite Hc; rewrite Hn; reflexivity|reflexivity|].
      eapply bsE_expr. evg. replace (0 <=? z) with true by lia. evg. replace ((0 <=? z) && (z mod 8 =? 0)) with true by lia. rewrite Ek. evg. reflexivity.
    + eapply bsE_if; [evg; reflexivity|reflexivity|].
      eapply bsE_seq; [eapply bsE_expr; evg; chk7; evg; replace (i + 0) with i by lia; rewrite E; evg; reflexivity|].
      eapply bsE_return. evg. chk7. unfold next_fail. reflexivity.
Qed.


(* sbdf_alloc on a slot that holds an array already: realloc - the cells that fit are kept, the old block is released *)
Lemma alloc_grow_bs h b i cur ob oblk z t0 : cell_get h b i = Some cur -> as_ptr cur = VCell ob 0 -> nth_error h ob = Some (Some oblk) -> b <> ob ->
  0 < z <= int_max -> z mod 8 = 0 ->
  let newblk := firstn (Z.to_nat (z / 8)) oblk ++ repeat VUndef (Z.to_nat (z / 8) - List.length oblk) in
  exists h', cell_set (kill ob h ++ [Some newblk]) b i (VCell (List.length h) 0) = Some h' /\
  bsE prog_env (fbody prog_sbdf_alloc) (fr [("inout"%string, VCell b i); ("sz"%string, VInt z); ("t"%string, t0)] bv k sx h m o)
    (if k =? 0 then OReturn (VInt SBDF_ERROR_OUT_OF_MEMORY) (fr [("inout"%string, VCell b i); ("sz"%string, VInt z); ("t"%string, VNull)] bv (-1) sx h m o)
     else OReturn (VInt SBDF_OK) (fr [("inout"%string, VCell b i); ("sz"%string, VInt z); ("t"%string, VCell (List.length h) 0)] bv (next_fail k) sx h' m o)).
Proof.
  intros Hc Hn Hob Hne Hz Hm newblk. unfold int_max in Hz.
  destruct (set_nth_v_some h ob _ None Hob) as (h1 & E1).
  assert (Hk : kill ob h = h1) by (unfold kill; rewrite E1; reflexivity). rewrite Hk.
  assert (Hl1 : List.length h1 = List.length h).
  { clear -E1. revert ob h1 E1. induction h as [|x h IH]; intros [|ob] h1 E1; cbn [set_nth_v] in E1; try discriminate; [injection E1 as <-; reflexivity|].
    destruct (set_nth_v ob None h) eqn:E; [|discriminate]. injection E1 as <-. cbn [List.length]. now rewrite (IH ob l E). }
  assert (Hc1 : cell_get (h1 ++ [Some newblk]) b i = Some cur).
  { unfold cell_get in *. destruct (nth_error h b) as [[blk|]|] eqn:E; try discriminate.
    rewrite nth_error_app1 by (rewrite Hl1; apply nth_error_Some; congruence). rewrite (set_nth_v_other h ob b None h1 E1) by congruence. rewrite E. exact Hc. }
  assert (E : exists h', cell_set (h1 ++ [Some newblk]) b i (VCell (List.length h) 0) = Some h').
  { unfold cell_get in Hc1. unfold cell_set. destruct (nth_error (h1 ++ _) b) as [[blk|]|] eqn:E2; try discriminate.
    destruct (0 <=? i); [|discriminate]. destruct (set_nth_v_some blk (Z.to_nat i) cur (VCell (List.length h) 0) Hc1) as (blk' & ->).
    apply (set_nth_v_some _ b (Some blk) (Some blk') E2). }
  destruct E as (h' & E). exists h'. split; [exact E|].
  cbn [fbody prog_sbdf_alloc]. unfold fr.
  eapply bsE_seq; [eapply bsE_decl0; evg; reflexivity|].
  eapply bsE_seq; [eapply bsE_if; [evg; chk7; evg; replace (z <=? 0) with false by lia; reflexivity|reflexivity|apply bsE_skip]|].
  eapply bsE_seq; [eapply bsE_if; [evg; reflexivity|reflexivity|apply bsE_skip]|].
  destruct (k =? 0) eqn:Ek.
  - eapply bsE_seq.
    + eapply bsE_if; [evg; chk7; evg; replace (i + 0) with i by lia; rewrite Hc; rewrite Hn; reflexivity|reflexivity|].
      eapply bsE_expr. evg. chk7. evg. replace (i + 0) with i by lia. rewrite Hc. rewrite Hn. evg. replace (0 <=? z) with true by lia. evg. rewrite Hob.
      replace (z mod 8 =? 0) with true by lia. replace (0 <=? z) with true by lia. cbn [andb]. rewrite Ek. evg. reflexivity.
    + eapply bsE_if; [evg; reflexivity|reflexivity|]. eapply bsE_return. evg. chk7. reflexivity.
  - eapply bsE_seq.
    + eapply bsE_if; [evg; chk7; evg; replace (i + 0) with i by lia; rewrite Hc; rewrite Hn; reflexivity|reflexivity|].
      eapply bsE_expr. evg. chk7. evg. replace (i + 0) with i by lia. rewrite Hc. rewrite Hn. evg. replace (0 <=? z) with true by lia. evg. rewrite Hob.
      replace (z mod 8 =? 0) with true by lia. replace (0 <=? z) with true by lia. cbn [andb]. rewrite Ek. rewrite E1. evg. reflexivity.
    + eapply bsE_if; [evg; reflexivity|reflexivity|].
      eapply bsE_seq; [eapply bsE_expr; evg; chk7; evg; replace (i + 0) with i by lia; fold newblk; rewrite E; evg; reflexivity|].
      eapply bsE_return. evg. chk7. unfold next_fail. reflexivity.
Qed.


(* ---- sbdf_ts_add ---- *)
(* the common prefix: argument checks and the capacity of the current count *)
Definition ts_add_rest (st : stmt) : stmt := match st with SSeq _ (SSeq _ (SSeq _ r)) => r | _ => SSkip end.

Lemma ts_add_pre h tb meta n cols owned cb c0 e0 nc0 t0 oo : ts_block h tb meta n cols owned -> int_min <= n <= 715827882 ->
  bsE prog_env (ts_add_rest (fbody prog_sbdf_ts_add))
    (fr [("col"%string, VCell cb 0); ("table"%string, VCell tb 0); ("cap"%string, VInt (array_capacity n)); ("error"%string, VUndef); ("new_cap"%string, nc0); ("$c1"%string, t0)] bv k sx h m o) oo ->
  bsE prog_env (fbody prog_sbdf_ts_add)
    (fr [("col"%string, VCell cb 0); ("table"%string, VCell tb 0); ("cap"%string, c0); ("error"%string, e0); ("new_cap"%string, nc0); ("$c1"%string, t0)] bv k sx h m o) oo.
Proof.
  intros Ht Hn B. unfold ts_block in Ht. cbn [ts_add_rest fbody prog_sbdf_ts_add] in *. unfold fr in *. cbn [app] in B.
  eapply bsE_seq; [eapply bsE_seq; [eapply bsE_decl0; evg; reflexivity|eapply bsE_decl0; evg; reflexivity]|].
  eapply bsE_seq; [eapply bsE_if; [evg; reflexivity|reflexivity|apply bsE_skip]|].
  eapply bsE_seq; [|exact B].
  eapply bsE_call; [reflexivity|evg; chk7; evg; cellrw Ht; evg; reflexivity|reflexivity|evg; apply (capacity_bs _ m o n VUndef Hn)|unfold cap_st; evg; reflexivity].
Qed.

(* there is room: the column goes into the next slot, the count grows by one, nothing else changes *)
Lemma ts_add_room_bs h tb meta n cols owned colb ccells cb h1 h2 c0 e0 nc0 t0 : ts_block h tb meta n cols owned -> 0 <= n <= 715827881 ->
  array_capacity n <> n -> as_ptr cols = VCell colb 0 -> nth_error h colb = Some (Some ccells) ->
  cell_set h tb 1 (VInt (n + 1)) = Some h1 -> cell_set h1 colb n (VCell cb 0) = Some h2 ->
  bsE prog_env (fbody prog_sbdf_ts_add)
    (fr [("col"%string, VCell cb 0); ("table"%string, VCell tb 0); ("cap"%string, c0); ("error"%string, e0); ("new_cap"%string, nc0); ("$c1"%string, t0)] bv k sx h m o)
    (OReturn (VInt SBDF_OK) (fr [("col"%string, VCell cb 0); ("table"%string, VCell tb 0); ("cap"%string, VInt (array_capacity n)); ("error"%string, VUndef); ("new_cap"%string, nc0); ("$c1"%string, t0)] bv k sx h2 m o)).
Proof.
  intros Ht Hn Hcap Hcol Hcb E1 E2. apply (ts_add_pre h tb meta n cols owned cb c0 e0 nc0 t0 _ Ht ltac:(unfold int_min; lia)).
  unfold ts_block in Ht. cbn [ts_add_rest fbody prog_sbdf_ts_add]. unfold fr.
  eapply bsE_seq; [eapply bsE_if; [evg; chk7; evg; cellrw Ht; evg; replace (array_capacity n =? n) with false by lia; reflexivity|reflexivity|apply bsE_skip]|].
  eapply bsE_seq.
  - eapply bsE_expr. evg. chk7. evg. unfold cell_get at 1. rewrite Ht. cbn [Z.add Z.leb Z.compare Z.to_nat]. change (Pos.to_nat 2) with 2%nat. cbn [nth_error]. evg. rewrite Hcol. evg.
    chk7. evg. unfold cell_get. rewrite Ht. cbn [Z.add Z.leb Z.compare Z.to_nat]. change (Pos.to_nat 1) with 1%nat. cbn [nth_error]. chk7. replace (0 + 1) with 1 by lia. rewrite E1. evg.
    replace (0 + n) with n by lia. rewrite E2. evg. reflexivity.
  - eapply bsE_return. evg. chk7. reflexivity.
Qed.


Ltac evcal := cbn [prog_env eval_args callee_init finish_call copy_in copy_out try_update update lookup combine map app String.append
                 String.eqb Ascii.eqb Bool.eqb fparams flocals fbody vars inb outb budget_var fail_var strm_var cells_var cell_token List.length Nat.eqb];
  unfold fr; cbn [app].

(* the array is full (or not there yet): it is grown through sbdf_alloc first.  ha = the heap sbdf_alloc leaves (the table's
   columns cell pointing at the fresh block nb), then the store as above. *)
Lemma ts_add_grow_bs h tb meta n cols owned cb ha h1 h2 c0 e0 nc0 t0 :
  ts_block h tb meta n cols owned -> 0 <= n <= 715827881 -> array_capacity n = n -> array_capacity (n + 1) * 8 <= int_max ->
  (* what sbdf_alloc does with the columns cell, for this oracle *)
  (forall tt, bsE prog_env (fbody prog_sbdf_alloc) (fr [("inout"%string, VCell tb 2); ("sz"%string, VInt (array_capacity (n + 1) * 8)); ("t"%string, tt)] bv k sx h m o)
     (if k =? 0 then OReturn (VInt SBDF_ERROR_OUT_OF_MEMORY) (fr [("inout"%string, VCell tb 2); ("sz"%string, VInt (array_capacity (n + 1) * 8)); ("t"%string, VNull)] bv (-1) sx h m o)
      else OReturn (VInt SBDF_OK) (fr [("inout"%string, VCell tb 2); ("sz"%string, VInt (array_capacity (n + 1) * 8)); ("t"%string, VCell (List.length h) 0)] bv (next_fail k) sx ha m o))) ->
  (k <> 0 -> nth_error ha tb = Some (Some [meta; VInt n; VCell (List.length h) 0; VInt owned]) /\
             cell_set ha tb 1 (VInt (n + 1)) = Some h1 /\ cell_set h1 (List.length h) n (VCell cb 0) = Some h2) ->
  bsE prog_env (fbody prog_sbdf_ts_add)
    (fr [("col"%string, VCell cb 0); ("table"%string, VCell tb 0); ("cap"%string, c0); ("error"%string, e0); ("new_cap"%string, nc0); ("$c1"%string, t0)] bv k sx h m o)
    (if k =? 0
     then OReturn (VInt SBDF_ERROR_OUT_OF_MEMORY) (fr [("col"%string, VCell cb 0); ("table"%string, VCell tb 0); ("cap"%string, VInt n); ("error"%string, VInt SBDF_ERROR_OUT_OF_MEMORY);
                                                      ("new_cap"%string, VInt (array_capacity (n + 1))); ("$c1"%string, VInt (array_capacity (n + 1)))] bv (-1) sx h m o)
     else OReturn (VInt SBDF_OK) (fr [("col"%string, VCell cb 0); ("table"%string, VCell tb 0); ("cap"%string, VInt n); ("error"%string, VInt SBDF_OK);
                                      ("new_cap"%string, VInt (array_capacity (n + 1))); ("$c1"%string, VInt (array_capacity (n + 1)))] bv (next_fail k) sx h2 m o)).
Proof.
  intros Ht Hn Hcap Hsz AL Hafter.
  assert (PRE := ts_add_pre h tb meta n cols owned cb c0 e0 nc0 t0). rewrite Hcap in PRE.
  unfold ts_block in Ht. unfold int_max in Hsz.
  assert (Hn1 : n + 1 <= 715827882) by (clear -Hn; lia). pose proof (cap_loop_enough (n + 1) Hn1) as Hge.
  specialize (AL VUndef). unfold fr in AL. cbn [app] in AL.
  destruct (k =? 0) eqn:Ek.
  - clear Hafter. apply PRE; [exact Ht|unfold int_min; clear -Hn; lia|]. clear PRE. cbn [ts_add_rest fbody prog_sbdf_ts_add]. unfold fr.
    eapply bsE_seq_ret. eapply bsE_if; [evg; chk7; evg; cellrw Ht; evg; rewrite Z.eqb_refl; reflexivity|reflexivity|].
    eapply bsE_seq.
    + eapply bsE_seq; [eapply bsE_call; [reflexivity|evg; chk7; evg; cellrw1 Ht; evg; chk7; reflexivity|reflexivity
                                         |evg; replace (1 + n) with (n + 1) by lia; apply (capacity_bs _ m o (n + 1) VUndef ltac:(unfold int_min; lia))|unfold cap_st; evg; reflexivity]|].
      eapply bsE_decl1; [evg; reflexivity|evg; reflexivity].
    + eapply bsE_seq.
      * eapply bsE_call; [reflexivity|evg; chk7; evg; cellrw Ht; evg; replace (0 <=? array_capacity (n + 1)) with true by lia; evg; chk7; evg; chk7; replace (0 + 2) with 2 by lia; reflexivity
                         |reflexivity|evg; exact AL|evg; reflexivity].
      * eapply bsE_if; [evg; reflexivity|reflexivity|]. eapply bsE_return. evg. reflexivity.
  - assert (Hk0 : k <> 0) by (clear -Ek; lia). destruct (Hafter Hk0) as (Hta & E1 & E2). clear Hafter.
    apply PRE; [exact Ht|unfold int_min; clear -Hn; lia|]. clear PRE. cbn [ts_add_rest fbody prog_sbdf_ts_add]. unfold fr.
    eapply bsE_seq.
    + eapply bsE_if; [evg; chk7; evg; cellrw Ht; evg; rewrite Z.eqb_refl; reflexivity|reflexivity|].
      eapply bsE_seq.
      * eapply bsE_seq; [eapply bsE_call; [reflexivity|evg; chk7; evg; cellrw1 Ht; evg; chk7; reflexivity|reflexivity
                                         |evg; replace (1 + n) with (n + 1) by lia; apply (capacity_bs _ m o (n + 1) VUndef ltac:(unfold int_min; lia))|unfold cap_st; evg; reflexivity]|].
        eapply bsE_decl1; [evg; reflexivity|evg; reflexivity].
      * eapply bsE_seq.
        -- eapply bsE_call; [reflexivity|evg; chk7; evg; cellrw Ht; evg; replace (0 <=? array_capacity (n + 1)) with true by lia; evg; chk7; evg; chk7; replace (0 + 2) with 2 by lia; reflexivity
                         |reflexivity|evg; exact AL|evg; reflexivity].
        -- eapply bsE_if; [evg; reflexivity|reflexivity|apply bsE_skip].
    + eapply bsE_seq.
      * eapply bsE_expr. evg. chk7. evg. unfold cell_get at 1. rewrite Hta. cbn [Z.add Z.leb Z.compare Z.to_nat]. change (Pos.to_nat 2) with 2%nat. cbn [nth_error]. evg.
        chk7. evg. unfold cell_get. rewrite Hta. cbn [Z.add Z.leb Z.compare Z.to_nat]. change (Pos.to_nat 1) with 1%nat. cbn [nth_error]. chk7. replace (0 + 1) with 1 by lia. rewrite E1. evg.
        replace (0 + n) with n by lia. rewrite E2. evg. reflexivity.
      * eapply bsE_return. evg. chk7. reflexivity.
Qed.

End Grow.

(* ---- cell stores on known blocks ---- *)
Lemma cell_set_ok (h : heap) b blk i v old : nth_error h b = Some (Some blk) -> 0 <= i -> nth_error blk (Z.to_nat i) = Some old ->
  exists h' blk', cell_set h b i v = Some h' /\ set_nth_v (Z.to_nat i) v blk = Some blk' /\ nth_error h' b = Some (Some blk') /\
                  (forall c, b <> c -> nth_error h' c = nth_error h c).
Proof.
  intros Hb Hi Ho. destruct (set_nth_v_some blk (Z.to_nat i) old v Ho) as (blk' & E1).
  destruct (set_nth_v_some h b (Some blk) (Some blk') Hb) as (h' & E2).
  exists h', blk'. unfold cell_set. rewrite Hb. replace (0 <=? i) with true by lia. rewrite E1. split; [exact E2|]. split; [reflexivity|].
  split; [apply (set_nth_v_same h b _ h' E2)|]. intros c Hc. apply (set_nth_v_other h b c _ h' E2 Hc).
Qed.

Lemma nth_error_app_new {A} (h : list A) x : nth_error (h ++ [x]) (List.length h) = Some x.
Proof. rewrite nth_error_app2 by lia. rewrite Nat.sub_diag. reflexivity. Qed.

(* ---- sbdf_ts_add as top-level calls ---- *)
Theorem ts_add_room_source k sx m h tb meta n cols owned colb ccells cb old : ts_block h tb meta n cols owned -> 0 <= n <= 715827881 ->
  array_capacity n <> n -> as_ptr cols = VCell colb 0 -> nth_error h colb = Some (Some ccells) -> nth_error ccells (Z.to_nat n) = Some old -> tb <> colb ->
  exists h2 ccells', set_nth_v (Z.to_nat n) (VCell cb 0) ccells = Some ccells' /\
    nth_error h2 tb = Some (Some [meta; VInt (n + 1); cols; VInt owned]) /\ nth_error h2 colb = Some (Some ccells') /\
    (forall c, c <> tb -> c <> colb -> nth_error h2 c = nth_error h c) /\
  exists f0, forall f, (f0 <= f)%nat -> exists fin,
    callC prog_env f prog_sbdf_ts_add [VCell cb 0; VCell tb 0] m k sx h = OReturn (VInt SBDF_OK) fin /\ inb fin = m /\ lookup cells_var (vars fin) = Some (VHeap h2).
Proof.
  intros Ht Hn Hcap Hcol Hcb Hold Hne. unfold ts_block in Ht.
  destruct (cell_set_ok h tb _ 1 (VInt (n + 1)) (VInt n) Ht ltac:(lia) eq_refl) as (h1 & blk1 & E1 & B1 & T1 & O1). cbn in B1. injection B1 as <-.
  assert (Hcb1 : nth_error h1 colb = Some (Some ccells)) by (rewrite O1 by exact Hne; exact Hcb).
  destruct (cell_set_ok h1 colb ccells n (VCell cb 0) old Hcb1 ltac:(lia) Hold) as (h2 & cc' & E2 & B2 & T2 & O2).
  exists h2, cc'. split; [exact B2|]. split; [rewrite O2 by congruence; exact T1|]. split; [exact T2|].
  split; [intros c H1 H2; rewrite O2 by congruence; apply O1; congruence|].
  destruct (bsE_sound _ _ _ _ (ts_add_room_bs (VInt 0) k sx m [] h tb meta n cols owned colb ccells cb h1 h2 VUndef VUndef VUndef VUndef Ht Hn Hcap Hcol Hcb E1 E2)) as (f0 & F).
  exists f0. intros f Hf. eexists. split; [apply F; exact Hf|]. split; reflexivity.
Qed.

Lemma set_nth_v_app {A} (a : list A) x v r : set_nth_v (List.length a) v (a ++ x :: r) = Some (a ++ v :: r).
Proof. induction a as [|y a IH]; cbn [List.length app set_nth_v]; [reflexivity|]. now rewrite IH. Qed.

(* the first column of a fresh slice (no array yet), and every later growth step *)
Theorem ts_add_first_source k sx m h tb meta n cols owned cb : ts_block h tb meta n cols owned -> 0 <= n <= 715827881 ->
  array_capacity n = n -> array_capacity (n + 1) * 8 <= int_max -> as_ptr cols = VNull ->
  let L := List.length h in let c := Z.to_nat (array_capacity (n + 1)) in
  exists h2 blk', set_nth_v (Z.to_nat n) (VCell cb 0) (repeat VUndef c) = Some blk' /\
    nth_error h2 tb = Some (Some [meta; VInt (n + 1); VCell L 0; VInt owned]) /\ nth_error h2 L = Some (Some blk') /\
    (forall x, x <> tb -> x <> L -> nth_error h2 x = nth_error (h ++ [Some (repeat VUndef c)]) x) /\
  exists f0, forall f, (f0 <= f)%nat -> exists fin,
    callC prog_env f prog_sbdf_ts_add [VCell cb 0; VCell tb 0] m k sx h =
      OReturn (VInt (if k =? 0 then SBDF_ERROR_OUT_OF_MEMORY else SBDF_OK)) fin /\ inb fin = m /\
    lookup cells_var (vars fin) = Some (VHeap (if k =? 0 then h else h2)).
Proof.
  intros Ht Hn Hcap Hsz Hnull L c. unfold ts_block in Ht.
  assert (Hn1 : n + 1 <= 715827882) by lia. pose proof (cap_loop_enough (n + 1) Hn1) as Hge. unfold int_max in Hsz.
  assert (Hz : array_capacity (n + 1) * 8 / 8 = array_capacity (n + 1)) by lia.
  assert (HtbL : (tb < L)%nat) by (apply nth_error_Some; unfold L; congruence).
  set (h0 := h ++ [Some (repeat VUndef c)]).
  assert (Ht0 : nth_error h0 tb = Some (Some [meta; VInt n; cols; VInt owned])) by (unfold h0; rewrite nth_error_app1 by exact HtbL; exact Ht).
  destruct (cell_set_ok h0 tb _ 2 (VCell L 0) cols Ht0 ltac:(lia) eq_refl) as (ha & blka & Ea & Ba & Ta & Oa). cbn in Ba. injection Ba as <-.
  destruct (cell_set_ok ha tb _ 1 (VInt (n + 1)) (VInt n) Ta ltac:(lia) eq_refl) as (h1 & blk1 & E1 & B1 & T1 & O1). cbn in B1. injection B1 as <-.
  assert (HL1 : nth_error h1 L = Some (Some (repeat VUndef c))).
  { rewrite O1 by lia. rewrite Oa by lia. unfold h0, L. apply nth_error_app_new. }
  assert (Hold : nth_error (repeat VUndef c) (Z.to_nat n) = Some VUndef).
  { apply nth_error_repeat. unfold c. lia. }
  destruct (cell_set_ok h1 L _ n (VCell cb 0) VUndef HL1 ltac:(lia) Hold) as (h2 & blk' & E2 & B2 & T2 & O2).
  exists h2, blk'. split; [exact B2|]. split; [rewrite O2 by lia; exact T1|]. split; [exact T2|].
  split; [intros x H1 H2; rewrite O2 by congruence; rewrite O1 by congruence; apply Oa; congruence|].
  destruct (alloc_fresh_bs (VInt 0) k sx m [] h tb 2 cols (array_capacity (n + 1) * 8) VUndef) as (ha' & Ea' & AL).
  { unfold cell_get. rewrite Ht. reflexivity. } { exact Hnull. } { unfold int_max. lia. } { lia. }
  rewrite Hz in Ea'. fold c h0 L in Ea'. rewrite Ea in Ea'. injection Ea' as <-.
  pose proof (ts_add_grow_bs (VInt 0) k sx m [] h tb meta n cols owned cb ha h1 h2 VUndef VUndef VUndef VUndef Ht Hn Hcap ltac:(unfold int_max; lia)) as G.
  assert (ALL : forall tt, bsE prog_env (fbody prog_sbdf_alloc)
     (fr [("inout"%string, VCell tb 2); ("sz"%string, VInt (array_capacity (n + 1) * 8)); ("t"%string, tt)] (VInt 0) k sx h m [])
     (if k =? 0 then OReturn (VInt SBDF_ERROR_OUT_OF_MEMORY) (fr [("inout"%string, VCell tb 2); ("sz"%string, VInt (array_capacity (n + 1) * 8)); ("t"%string, VNull)] (VInt 0) (-1) sx h m [])
      else OReturn (VInt SBDF_OK) (fr [("inout"%string, VCell tb 2); ("sz"%string, VInt (array_capacity (n + 1) * 8)); ("t"%string, VCell (List.length h) 0)] (VInt 0) (next_fail k) sx ha m []))).
  { intros tt. destruct (alloc_fresh_bs (VInt 0) k sx m [] h tb 2 cols (array_capacity (n + 1) * 8) tt) as (hx & Ex & ALx).
    { unfold cell_get. rewrite Ht. reflexivity. } { exact Hnull. } { unfold int_max. lia. } { lia. }
    rewrite Hz in Ex. fold c h0 L in Ex. rewrite Ea in Ex. injection Ex as <-. exact ALx. }
  specialize (G ALL (fun _ => conj Ta (conj E1 E2))).
  destruct (k =? 0); destruct (bsE_sound _ _ _ _ G) as (f0 & F); exists f0; intros f Hf; eexists; (split; [apply F; exact Hf|]); split; reflexivity.
Qed.

Theorem ts_add_regrow_source k sx m h tb meta n cols owned colb ccells cb : ts_block h tb meta n cols owned -> 0 <= n <= 715827881 ->
  array_capacity n = n -> array_capacity (n + 1) * 8 <= int_max -> as_ptr cols = VCell colb 0 -> nth_error h colb = Some (Some ccells) ->
  zlen ccells = n -> tb <> colb ->
  let L := List.length h in let c := Z.to_nat (array_capacity (n + 1)) in
  (* the columns so far, the new one, and the slack of the new capacity *)
  exists h2, nth_error h2 tb = Some (Some [meta; VInt (n + 1); VCell L 0; VInt owned]) /\
    nth_error h2 L = Some (Some (ccells ++ VCell cb 0 :: repeat VUndef (c - S (List.length ccells)))) /\ nth_error h2 colb = Some None /\
    (forall x, x <> tb -> x <> L -> x <> colb -> (x < L)%nat -> nth_error h2 x = nth_error h x) /\
  exists f0, forall f, (f0 <= f)%nat -> exists fin,
    callC prog_env f prog_sbdf_ts_add [VCell cb 0; VCell tb 0] m k sx h =
      OReturn (VInt (if k =? 0 then SBDF_ERROR_OUT_OF_MEMORY else SBDF_OK)) fin /\ inb fin = m /\
    lookup cells_var (vars fin) = Some (VHeap (if k =? 0 then h else h2)).
Proof.
  intros Ht Hn Hcap Hsz Hcol Hcb Hlen Hne L c. unfold ts_block in Ht.
  assert (Hn1 : n + 1 <= 715827882) by lia. pose proof (cap_loop_enough (n + 1) Hn1) as Hge. unfold int_max in Hsz.
  assert (Hz : array_capacity (n + 1) * 8 / 8 = array_capacity (n + 1)) by lia.
  assert (HtbL : (tb < L)%nat) by (apply nth_error_Some; unfold L; congruence).
  assert (HcbL : (colb < L)%nat) by (apply nth_error_Some; unfold L; congruence).
  assert (Hc : (List.length ccells < c)%nat) by (unfold c, zlen in *; lia).
  set (newblk := firstn c ccells ++ repeat VUndef (c - List.length ccells)).
  assert (Hnew : newblk = ccells ++ VUndef :: repeat VUndef (c - S (List.length ccells))).
  { unfold newblk. rewrite firstn_all2 by lia. f_equal. replace (c - List.length ccells)%nat with (S (c - S (List.length ccells))) by lia. reflexivity. }
  destruct (set_nth_v_some h colb _ None Hcb) as (hk & Ek).
  assert (Hkill : kill colb h = hk) by (unfold kill; rewrite Ek; reflexivity).
  assert (Hlk : List.length hk = L).
  { clear -Ek. unfold L. revert colb hk Ek. induction h as [|x h IH]; intros [|cb'] hk Ek; cbn [set_nth_v] in Ek; try discriminate; [injection Ek as <-; reflexivity|].
    destruct (set_nth_v cb' None h) eqn:E; [|discriminate]. injection Ek as <-. cbn [List.length]. now rewrite (IH cb' l E). }
  set (h0 := hk ++ [Some newblk]).
  assert (Ht0 : nth_error h0 tb = Some (Some [meta; VInt n; cols; VInt owned])).
  { unfold h0. rewrite nth_error_app1 by lia. rewrite (set_nth_v_other h colb tb None hk Ek) by congruence. exact Ht. }
  destruct (cell_set_ok h0 tb _ 2 (VCell L 0) cols Ht0 ltac:(lia) eq_refl) as (ha & blka & Ea & Ba & Ta & Oa). cbn in Ba. injection Ba as <-.
  destruct (cell_set_ok ha tb _ 1 (VInt (n + 1)) (VInt n) Ta ltac:(lia) eq_refl) as (h1 & blk1 & E1 & B1 & T1 & O1). cbn in B1. injection B1 as <-.
  assert (HL1 : nth_error h1 L = Some (Some newblk)).
  { rewrite O1 by lia. rewrite Oa by lia. unfold h0. rewrite <- Hlk. apply nth_error_app_new. }
  assert (Hold : nth_error newblk (Z.to_nat n) = Some VUndef).
  { rewrite Hnew. replace (Z.to_nat n) with (List.length ccells) by (unfold zlen in Hlen; lia). rewrite nth_error_app2 by lia. rewrite Nat.sub_diag. reflexivity. }
  destruct (cell_set_ok h1 L _ n (VCell cb 0) VUndef HL1 ltac:(lia) Hold) as (h2 & blk' & E2 & B2 & T2 & O2).
  assert (Hblk' : blk' = ccells ++ VCell cb 0 :: repeat VUndef (c - S (List.length ccells))).
  { rewrite Hnew in B2. replace (Z.to_nat n) with (List.length ccells) in B2 by (unfold zlen in Hlen; lia).
    rewrite set_nth_v_app in B2. injection B2 as <-. reflexivity. }
  exists h2. split; [rewrite O2 by lia; exact T1|]. split; [rewrite T2, Hblk'; reflexivity|].
  split.
  { rewrite O2 by lia. rewrite O1 by congruence. rewrite Oa by congruence. unfold h0. rewrite nth_error_app1 by lia. apply (set_nth_v_same h colb None hk Ek). }
  split.
  { intros x H1 H2 H3 H4. rewrite O2 by congruence. rewrite O1 by congruence. rewrite Oa by congruence. unfold h0. rewrite nth_error_app1 by lia.
    apply (set_nth_v_other h colb x None hk Ek). congruence. }
  assert (ALL : forall tt, bsE prog_env (fbody prog_sbdf_alloc)
     (fr [("inout"%string, VCell tb 2); ("sz"%string, VInt (array_capacity (n + 1) * 8)); ("t"%string, tt)] (VInt 0) k sx h m [])
     (if k =? 0 then OReturn (VInt SBDF_ERROR_OUT_OF_MEMORY) (fr [("inout"%string, VCell tb 2); ("sz"%string, VInt (array_capacity (n + 1) * 8)); ("t"%string, VNull)] (VInt 0) (-1) sx h m [])
      else OReturn (VInt SBDF_OK) (fr [("inout"%string, VCell tb 2); ("sz"%string, VInt (array_capacity (n + 1) * 8)); ("t"%string, VCell (List.length h) 0)] (VInt 0) (next_fail k) sx ha m []))).
  { intros tt. destruct (alloc_grow_bs (VInt 0) k sx m [] h tb 2 cols colb ccells (array_capacity (n + 1) * 8) tt) as (hx & Ex & ALx).
    { unfold cell_get. rewrite Ht. reflexivity. } { exact Hcol. } { exact Hcb. } { exact Hne. } { unfold int_max. lia. } { lia. }
    cbv zeta in Ex. rewrite Hz, Hkill in Ex. fold c newblk h0 L in Ex. rewrite Ea in Ex. injection Ex as <-. exact ALx. }
  pose proof (ts_add_grow_bs (VInt 0) k sx m [] h tb meta n cols owned cb ha h1 h2 VUndef VUndef VUndef VUndef Ht Hn Hcap ltac:(unfold int_max; lia) ALL (fun _ => conj Ta (conj E1 E2))) as G.
  destruct (k =? 0); destruct (bsE_sound _ _ _ _ G) as (f0 & F); exists f0; intros f Hf; eexists; (split; [apply F; exact Hf|]); split; reflexivity.
Qed.
