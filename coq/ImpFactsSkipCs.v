(* ImpFactsSkipCs.v - sbdf_cs_skip from the source: the section marker, the values, then every (name, array) property,
   equal to the model's cs_skip on every byte stream. *)
From Sbdf Require Import ImpCall Gen.Prog Gen.Consts Base Prim Obj Va Slice BaseFacts ImpBase ImpFactsInt32 ImpFactsFrame ImpFactsSkip ImpFactsSkipVa SkipLaws.
From Coq Require Import ZifyBool.
Local Open Scope Z_scope.
Ltac Zify.zify_post_hook ::= Z.div_mod_to_equations.

Ltac evk := cbn [prog_env eval_args callee_init finish_call copy_in copy_out try_update update lookup combine map app String.append
                 String.eqb Ascii.eqb Bool.eqb fparams flocals vars inb outb budget_var fail_var cell_token List.length Nat.eqb eval set_var cast
                 truth binop_int b2z fst snd negb
                 prog_sbdf_sec_expect prog_sbdf_va_skip prog_sbdf_read_int32 prog_sbdf_skip_string].

Definition ck (fr : region) (fo : Z) (e v bv : val) (s o : list Z) : state :=
  {| vars := [("f", VPtr fr fo); ("error", e); ("v", v); (budget_var, bv)]%string; inb := s; outb := o |}.

Definition prop_stmt : stmt :=
  (SSeq (SSeq (SCall (Some "error") "sbdf_skip_string" [(AVal (EVar "f"))]) (SIf (EVar "error") (SReturn (EVar "error")) SSkip))
        (SSeq (SCall (Some "error") "sbdf_va_skip" [(AVal (EVar "f"))]) (SIf (EVar "error") (SReturn (EVar "error")) SSkip)))%string.

Ltac iferr N := eapply bsE_if; [evk; reflexivity|cbn [truth]; replace (_ =? 0) with false by (pose proof N; lia); reflexivity|].

(* one property: its name, its array *)
Lemma prop_bs fr fo e v bv s o : Forall byte s ->
  match skip_prop false s with
  | Ok (_, s') => bsE prog_env prop_stmt (ck fr fo e v bv s o) (ONormal (ck fr fo (VInt 0) v bv s' o))
  | Err st => exists e' s', bsE prog_env prop_stmt (ck fr fo e v bv s o) (OReturn (VInt st) (ck fr fo e' v bv s' o))
  end.
Proof.
  intros Hs. unfold skip_prop, rd_bind, prop_stmt, ck.
  pose proof (skip_string_bs fr fo VUndef VUndef bv s o Hs) as S1.
  destruct (skip_string false s) as [[u s1]|st] eqn:E1.
  - destruct S1 as (e1 & l1 & S1). destruct (shr1_skip_string s u s1 Hs E1) as (Hb1 & _).
    pose proof (va_skip_bs fr fo VUndef bv s1 o Hb1) as S2.
    destruct (va_skip false s1) as [[u2 s2]|st] eqn:E2.
    + destruct S2 as (r2 & S2).
      eapply bsE_seq; [eapply bsE_seq; [eapply bsE_call; [reflexivity|evk; reflexivity|reflexivity|exact S1|unfold sk; evk; reflexivity]|eapply bsE_if; [evk; reflexivity|reflexivity|apply bsE_skip]]|].
      eapply bsE_seq; [eapply bsE_call; [reflexivity|evk; reflexivity|reflexivity|exact S2|unfold vs; evk; reflexivity]|eapply bsE_if; [evk; reflexivity|reflexivity|apply bsE_skip]].
    + destruct S2 as (r2 & s' & S2). pose proof (neg_va_skip s1 st E2) as N. do 2 eexists.
      eapply bsE_seq; [eapply bsE_seq; [eapply bsE_call; [reflexivity|evk; reflexivity|reflexivity|exact S1|unfold sk; evk; reflexivity]|eapply bsE_if; [evk; reflexivity|reflexivity|apply bsE_skip]]|].
      eapply bsE_seq; [eapply bsE_call; [reflexivity|evk; reflexivity|reflexivity|exact S2|unfold vs; evk; reflexivity]|]. iferr N. eapply bsE_return. evk. reflexivity.
  - destruct S1 as (e1 & l1 & s' & S1). pose proof (neg_skip_string s st E1) as N. do 2 eexists.
    eapply bsE_seq_ret. eapply bsE_seq; [eapply bsE_call; [reflexivity|evk; reflexivity|reflexivity|exact S1|unfold sk; evk; reflexivity]|]. iferr N. eapply bsE_return. evk. reflexivity.
Qed.

(* the loop over the properties: while (v-- > 0) *)
Lemma props_loop fr fo bv o : forall fuel n s e, Forall byte s -> 0 <= n <= int_max -> (List.length s <= List.length fuel)%nat ->
  match rrep fuel n (skip_prop false) s with
  | Ok (_, s') => exists e', bsE prog_env (SWhile (EBin Gt (EPostDec "v") (EConst 0)) prop_stmt) (ck fr fo e (VInt n) bv s o) (ONormal (ck fr fo e' (VInt (-1)) bv s' o))
  | Err st => exists e' n' s', bsE prog_env (SWhile (EBin Gt (EPostDec "v") (EConst 0)) prop_stmt) (ck fr fo e (VInt n) bv s o) (OReturn (VInt st) (ck fr fo e' (VInt n') bv s' o))
  end.
Proof.
  induction fuel as [|b fuel IH]; intros n s e Hs Hn Hl.
  - destruct s; [|cbn [List.length] in Hl; lia]. cbn [rrep]. destruct (n <=? 0) eqn:En.
    + assert (n = 0) by lia. subst n. eexists. eapply bsE_while_f; [unfold ck; evk; unfold decr; chk7; evk; chk7; evk; reflexivity|reflexivity].
    + pose proof (prop_bs fr fo e (VInt (n - 1)) bv [] o Hs) as P. change (skip_prop false []) with (@Err (unit * ist) SBDF_ERROR_IO) in P.
      destruct P as (e' & s' & B). do 3 eexists.
      eapply bsE_while_ret; [unfold ck; evk; unfold decr; chk7; evk; chk7; evk; reflexivity|cbn [truth b2z]; replace (n >? 0) with true by lia; reflexivity|exact B].
  - cbn [rrep]. destruct (n <=? 0) eqn:En.
    + assert (n = 0) by lia. subst n. eexists. eapply bsE_while_f; [unfold ck; evk; unfold decr; chk7; evk; chk7; evk; reflexivity|reflexivity].
    + pose proof (prop_bs fr fo e (VInt (n - 1)) bv s o Hs) as P.
      destruct (skip_prop false s) as [[u s1]|st] eqn:E1.
      * destruct (shr1_skip_prop s u s1 Hs E1) as (Hb1 & Hl1).
        specialize (IH (n - 1) s1 (VInt 0) Hb1 ltac:(lia) ltac:(cbn [List.length] in Hl; lia)).
        destruct (rrep fuel (n - 1) (skip_prop false) s1) as [[l s2]|st].
        -- destruct IH as (e' & B2). eexists.
           eapply bsE_while_t; [unfold ck; evk; unfold decr; chk7; evk; chk7; evk; reflexivity|cbn [truth b2z]; replace (n >? 0) with true by lia; reflexivity|exact P|exact B2].
        -- destruct IH as (e' & n' & s' & B2). do 3 eexists.
           eapply bsE_while_t; [unfold ck; evk; unfold decr; chk7; evk; chk7; evk; reflexivity|cbn [truth b2z]; replace (n >? 0) with true by lia; reflexivity|exact P|exact B2].
      * destruct P as (e' & s' & B). do 3 eexists.
        eapply bsE_while_ret; [unfold ck; evk; unfold decr; chk7; evk; chk7; evk; reflexivity|cbn [truth b2z]; replace (n >? 0) with true by lia; reflexivity|exact B].
Qed.

Lemma cs_skip_bs fr fo e v bv s o : Forall byte s ->
  match cs_skip false s with
  | Ok (_, s') => exists e' v', bsE prog_env (fbody prog_sbdf_cs_skip) (ck fr fo e v bv s o) (OReturn (VInt SBDF_OK) (ck fr fo e' v' bv s' o))
  | Err st => exists e' v' s', bsE prog_env (fbody prog_sbdf_cs_skip) (ck fr fo e v bv s o) (OReturn (VInt st) (ck fr fo e' v' bv s' o))
  end.
Proof.
  intros Hs. unfold cs_skip, rd_bind. cbn [fbody prog_sbdf_cs_skip]. fold prop_stmt. unfold ck.
  pose proof (sec_expect_bs fr fo SBDF_COLUMNSLICE_SECTIONID VUndef VUndef bv s o Hs ltac:(unfold SBDF_COLUMNSLICE_SECTIONID, int_min, int_max; lia)) as S0.
  destruct (sec_expect SBDF_COLUMNSLICE_SECTIONID s) as [[u0 s0]|st] eqn:E0.
  2: { destruct S0 as (e' & v' & s' & S0). pose proof (neg_sec_expect _ s st E0) as N. do 3 eexists.
       eapply bsE_seq; [eapply bsE_seq; [eapply bsE_decl0; evk; reflexivity|eapply bsE_decl0; evk; reflexivity]|].
       eapply bsE_seq_ret. eapply bsE_seq; [eapply bsE_call; [reflexivity|evk; reflexivity|reflexivity|exact S0|unfold se; evk; reflexivity]|]. iferr N. eapply bsE_return. evk. reflexivity. }
  destruct S0 as (e0' & v0' & S0). destruct (shr_sec_expect _ s u0 s0 Hs E0) as (Hb0 & _).
  pose proof (va_skip_bs fr fo VUndef bv s0 o Hb0) as S1.
  destruct (va_skip false s0) as [[u1 s1]|st] eqn:E1.
  2: { destruct S1 as (r' & s' & S1). pose proof (neg_va_skip s0 st E1) as N. do 3 eexists.
       eapply bsE_seq; [eapply bsE_seq; [eapply bsE_decl0; evk; reflexivity|eapply bsE_decl0; evk; reflexivity]|].
       eapply bsE_seq; [eapply bsE_seq; [eapply bsE_call; [reflexivity|evk; reflexivity|reflexivity|exact S0|unfold se; evk; reflexivity]|eapply bsE_if; [evk; reflexivity|reflexivity|apply bsE_skip]]|].
       eapply bsE_seq_ret. eapply bsE_seq; [eapply bsE_call; [reflexivity|evk; reflexivity|reflexivity|exact S1|unfold vs; evk; reflexivity]|]. iferr N. eapply bsE_return. evk. reflexivity. }
  destruct S1 as (r1 & S1). destruct (shr_va_skip s0 u1 s1 Hb0 E1) as (Hb1 & _).
  pose proof (read_int32_bs fr ROut fo 0 VUndef bv s1 o Hb1) as R.
  destruct (read_int32 false s1) as [[n s2]|st] eqn:ER.
  2: { destruct R as (c' & s' & R). pose proof (neg_read_int32 s1 st ER) as N. do 3 eexists.
       eapply bsE_seq; [eapply bsE_seq; [eapply bsE_decl0; evk; reflexivity|eapply bsE_decl0; evk; reflexivity]|].
       eapply bsE_seq; [eapply bsE_seq; [eapply bsE_call; [reflexivity|evk; reflexivity|reflexivity|exact S0|unfold se; evk; reflexivity]|eapply bsE_if; [evk; reflexivity|reflexivity|apply bsE_skip]]|].
       eapply bsE_seq; [eapply bsE_seq; [eapply bsE_call; [reflexivity|evk; reflexivity|reflexivity|exact S1|unfold vs; evk; reflexivity]|eapply bsE_if; [evk; reflexivity|reflexivity|apply bsE_skip]]|].
       eapply bsE_seq_ret. eapply bsE_seq; [eapply bsE_call; [reflexivity|evk; reflexivity|reflexivity|exact R|unfold ri; evk; reflexivity]|]. iferr N. eapply bsE_return. evk. reflexivity. }
  destruct (shr1_read_int32 s1 n s2 Hb1 ER) as (Hb2 & _).
  assert (Hn : int_min <= n <= int_max).
  { pose proof (read_int32_model s1) as M. rewrite ER in M. destruct s1 as [|b0 [|b1 [|b2 [|b3 r]]]]; try discriminate. inversion M. subst.
    apply de32_range; [|reflexivity]. inversion Hb1 as [|? ? G0 Q0]. inversion Q0 as [|? ? G1 Q1]. inversion Q1 as [|? ? G2 Q2]. inversion Q2 as [|? ? G3 Q3].
    subst. constructor; [exact G0|]. constructor; [exact G1|]. constructor; [exact G2|]. constructor; [exact G3|constructor]. }
  assert (HEAD : forall X oo, bsE prog_env X (ck fr fo (VInt 0) (VInt n) bv s2 o) oo ->
     bsE prog_env (SSeq (SSeq (SDecl "error" None) (SDecl "v" None))
       (SSeq (SSeq (SCall (Some "error"%string) "sbdf_sec_expect" [(AVal (EVar "f")); (AVal (EConst (4)))]) (SIf (EVar "error") (SReturn (EVar "error")) SSkip))
       (SSeq (SSeq (SCall (Some "error"%string) "sbdf_va_skip" [(AVal (EVar "f"))]) (SIf (EVar "error") (SReturn (EVar "error")) SSkip))
       (SSeq (SSeq (SCall (Some "error"%string) "sbdf_read_int32" [(AVal (EVar "f")); (AAddr "v")]) (SIf (EVar "error") (SReturn (EVar "error")) SSkip)) X))))
       {| vars := [("f"%string, VPtr fr fo); ("error"%string, e); ("v"%string, v); (budget_var, bv)]; inb := s; outb := o |} oo).
  { intros X oo B. unfold ck in B.
    eapply bsE_seq; [eapply bsE_seq; [eapply bsE_decl0; evk; reflexivity|eapply bsE_decl0; evk; reflexivity]|].
    eapply bsE_seq; [eapply bsE_seq; [eapply bsE_call; [reflexivity|evk; reflexivity|reflexivity|exact S0|unfold se; evk; reflexivity]|eapply bsE_if; [evk; reflexivity|reflexivity|apply bsE_skip]]|].
    eapply bsE_seq; [eapply bsE_seq; [eapply bsE_call; [reflexivity|evk; reflexivity|reflexivity|exact S1|unfold vs; evk; reflexivity]|eapply bsE_if; [evk; reflexivity|reflexivity|apply bsE_skip]]|].
    eapply bsE_seq; [eapply bsE_seq; [eapply bsE_call; [reflexivity|evk; reflexivity|reflexivity|exact R|unfold ri; evk; reflexivity]|eapply bsE_if; [evk; reflexivity|reflexivity|apply bsE_skip]]|].
    exact B. }
  destruct (n <? 0) eqn:En.
  { unfold rfail. do 3 eexists. apply HEAD. unfold ck. eapply bsE_seq_ret. eapply bsE_if; [evk; chk7; evk; rewrite En; reflexivity|reflexivity|]. eapply bsE_return. evk. chk7. reflexivity. }
  unfold rrepeat, rret.
  pose proof (props_loop fr fo bv o s2 n s2 (VInt 0) Hb2 ltac:(lia) ltac:(lia)) as L.
  destruct (rrep s2 n (skip_prop false) s2) as [[l s3]|st].
  - destruct L as (e' & L). do 2 eexists. apply HEAD. unfold ck in *.
    eapply bsE_seq; [eapply bsE_if; [evk; chk7; evk; rewrite En; reflexivity|reflexivity|apply bsE_skip]|].
    eapply bsE_seq; [exact L|]. eapply bsE_return. evk. reflexivity.
  - destruct L as (e' & n' & s' & L). do 3 eexists. apply HEAD. unfold ck in *.
    eapply bsE_seq; [eapply bsE_if; [evk; chk7; evk; rewrite En; reflexivity|reflexivity|apply bsE_skip]|].
    eapply bsE_seq_ret. exact L.
Qed.

(* ---- as top-level calls ---- *)
Theorem cs_skip_source s B : Forall byte s ->
  exists f0, forall f, (f0 <= f)%nat ->
  match cs_skip false s with
  | Ok (_, s') => exists fin, callE prog_env f prog_sbdf_cs_skip [tok] s B = OReturn (VInt SBDF_OK) fin /\ inb fin = s' /\ outb fin = []
  | Err st => exists fin, callE prog_env f prog_sbdf_cs_skip [tok] s B = OReturn (VInt st) fin /\ outb fin = []
  end.
Proof.
  intros Hs. pose proof (cs_skip_bs ROut 0 VUndef VUndef (VInt B) s [] Hs) as H.
  destruct (cs_skip false s) as [[x s']|st].
  - destruct H as (e' & v' & Bs). destruct (bsE_sound _ _ _ _ Bs) as (f0 & F). exists f0. intros f Hf. eexists. split; [apply F; exact Hf|]. split; reflexivity.
  - destruct H as (e' & v' & s1 & Bs). destruct (bsE_sound _ _ _ _ Bs) as (f0 & F). exists f0. intros f Hf. eexists. split; [apply F; exact Hf|]. reflexivity.
Qed.
