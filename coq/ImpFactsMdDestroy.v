(* ImpFactsMdDestroy.v - sbdf_md_destroy of src/metadata.c from the source: every entry, front to back, has its
   value and default destroyed, its name handed to sbdf_str_destroy and its block released (the next pointer is
   read before the block goes); then the head is released. *)
From Sbdf Require Import ImpCall Gen.Prog Gen.Consts Base BaseFacts ImpBase ImpFactsCells ImpFactsStrDestroy ImpFactsDestroy.
From Coq Require Import ZifyBool.
Local Open Scope Z_scope.
Ltac Zify.zify_post_hook ::= Z.div_mod_to_equations.

Ltac evd := cbn [prog_env eval_args callee_init finish_call copy_in copy_out try_update update lookup combine map app String.append
                 String.eqb Ascii.eqb Bool.eqb fparams flocals fbody vars inb outb budget_var fail_var strm_var cells_var cell_token List.length Nat.eqb eval set_var cast
                 prog_sbdf_md_destroy prog_sbdf_obj_destroy prog_sbdf_str_destroy truth binop_int b2z negb heap_of as_ptr storable fst snd];
  change (0 =? 0) with true; change (1 =? 0) with false; cbn [negb b2z].

(* the effect of releasing the entries linked from p, in list order *)
Inductive md_destroys (m : list Z) : heap -> val -> heap -> Prop :=
| mdd_nil h : md_destroys m h VNull h
| mdd_cons h b nx np vv dv h1 h2 h' :
    nth_error h b = Some (Some [nx; VPtr RIn np; vv; dv]) -> 4 <= np <= zlen m ->
    destroys_opt m h vv h1 -> nth_error h1 b = Some (Some [nx; VPtr RIn np; vv; dv]) ->
    destroys_opt m h1 dv h2 -> nth_error h2 b = Some (Some [nx; VPtr RIn np; vv; dv]) ->
    md_destroys m (kill b h2) (as_ptr nx) h' ->
    md_destroys m h (VCell b 0) h'.

Section MdDestroy.
Variables (bv : val) (k : Z) (sx : list Z) (m o : list Z).

Lemma obj_destroy_opt_bs2 h ov h' : destroys_opt m h ov h' ->
  exists iv pv, bsE prog_env (fbody prog_sbdf_obj_destroy) (fr [("object"%string, as_ptr ov); ("i"%string, VUndef); ("ptr"%string, VUndef)] bv k sx h m o)
    (ONormal (fr [("object"%string, as_ptr ov); ("i"%string, iv); ("ptr"%string, pv)] bv k sx h' m o)).
Proof.
  intros [(N & ->)|(ob & P & D)].
  - rewrite N. exists VUndef, VUndef. cbn [fbody prog_sbdf_obj_destroy]. unfold fr. eapply bsE_if; [evd; reflexivity|reflexivity|apply bsE_skip].
  - rewrite P. apply (obj_destroy_bs bv k sx m o h ob h' D).
Qed.

Definition loop_of (st : stmt) : stmt :=
  match st with SSeq _ (SIf _ (SSeq _ (SSeq w _)) _) => w | _ => SSkip end.

Lemma md_destroy_loop outv : forall h p h', md_destroys m h p h' -> forall n0,
  exists nv, bsE prog_env (loop_of (fbody prog_sbdf_md_destroy))
    (fr [("out"%string, outv); ("head"%string, p); ("next"%string, n0)] bv k sx h m o)
    (ONormal (fr [("out"%string, outv); ("head"%string, VNull); ("next"%string, nv)] bv k sx h' m o)).
Proof.
  induction 1 as [h|h b nx np vv dv h1 h2 h' Hb Hnp D1 Hb1 D2 Hb2 Hrest IH]; intros n0.
  - exists n0. cbn [loop_of fbody prog_sbdf_md_destroy]. unfold fr. eapply bsE_while_f; [evd; reflexivity|reflexivity].
  - destruct (IH (as_ptr nx)) as (nv & B). exists nv.
    destruct (obj_destroy_opt_bs2 h vv h1 D1) as (iv1 & pv1 & O1). destruct (obj_destroy_opt_bs2 h1 dv h2 D2) as (iv2 & pv2 & O2).
    pose proof (str_destroy_fr bv k sx m o h2 np Hnp) as SD. unfold fr in O1, O2, SD. cbn [app] in O1, O2, SD.
    destruct (set_nth_v_some h2 b _ None Hb2) as (h3 & E3).
    assert (Hk : kill b h2 = h3) by (unfold kill; rewrite E3; reflexivity). rewrite Hk in B.
    cbn [loop_of fbody prog_sbdf_md_destroy] in *. unfold fr in *. cbn [app] in B.
    assert (Hq : as_ptr nx = VNull \/ exists b', as_ptr nx = VCell b' 0).
    { clear -Hrest. remember (as_ptr nx) as q eqn:Eq. destruct Hrest; [left; reflexivity|right; eexists; reflexivity]. }
    destruct Hq as [E | (b' & E)]; rewrite E in B.
    all: (eapply bsE_while_t; [evd; reflexivity|reflexivity| |exact B]);
      (eapply bsE_seq; [eapply bsE_decl1; [evd; chk7; evd; cellrw Hb; evd; rewrite E; reflexivity|evd; reflexivity]|]);
      (eapply bsE_seq; [eapply bsE_call_void; [reflexivity|evd; chk7; evd; cellrw Hb; evd; reflexivity|reflexivity|evd; exact O1|evd; reflexivity]|]);
      (eapply bsE_seq; [eapply bsE_call_void; [reflexivity|evd; chk7; evd; cellrw Hb1; evd; reflexivity|reflexivity|evd; exact O2|evd; reflexivity]|]);
      (eapply bsE_seq; [eapply bsE_call_void; [reflexivity|evd; chk7; evd; cellrw Hb2; evd; reflexivity|reflexivity|evd; exact SD|evd; reflexivity]|]);
      (eapply bsE_seq; [eapply bsE_expr; evd; rewrite Hb2; evd; rewrite E3; evd; reflexivity|]);
      eapply bsE_expr; evd; reflexivity.
Qed.


Lemma md_destroy_bs h hb first modif h2 h0 n0 : nth_error h hb = Some (Some [first; VInt modif]) ->
  md_destroys m h (as_ptr first) h2 -> nth_error h2 hb = Some (Some [first; VInt modif]) ->
  exists nv, bsE prog_env (fbody prog_sbdf_md_destroy) (fr [("out"%string, VCell hb 0); ("head"%string, h0); ("next"%string, n0)] bv k sx h m o)
    (ONormal (fr [("out"%string, VCell hb 0); ("head"%string, VNull); ("next"%string, nv)] bv k sx (kill hb h2) m o)).
Proof.
  intros Hh D Hh2. destruct (md_destroy_loop (VCell hb 0) h (as_ptr first) h2 D n0) as (nv & LOOP). exists nv.
  cbn [loop_of fbody prog_sbdf_md_destroy] in *. unfold fr in *. cbn [app] in LOOP.
  destruct (set_nth_v_some h2 hb _ None Hh2) as (h3 & E3).
  assert (Hk : kill hb h2 = h3) by (unfold kill; rewrite E3; reflexivity). rewrite Hk.
  eapply bsE_seq; [eapply bsE_decl0; evd; reflexivity|].
  eapply bsE_if; [evd; reflexivity|reflexivity|].
  eapply bsE_seq; [eapply bsE_expr; evd; chk7; evd; cellrw Hh; evd; reflexivity|].
  eapply bsE_seq; [exact LOOP|].
  eapply bsE_expr. evd. rewrite Hh2. evd. rewrite E3. evd. reflexivity.
Qed.

End MdDestroy.

Theorem md_destroy_source k sx m h hb first modif h2 : nth_error h hb = Some (Some [first; VInt modif]) ->
  md_destroys m h (as_ptr first) h2 -> nth_error h2 hb = Some (Some [first; VInt modif]) ->
  exists f0, forall f, (f0 <= f)%nat -> exists fin,
    callC prog_env f prog_sbdf_md_destroy [VCell hb 0] m k sx h = ONormal fin /\ inb fin = m /\ lookup cells_var (vars fin) = Some (VHeap (kill hb h2)).
Proof.
  intros Hh D Hh2. destruct (md_destroy_bs (VInt 0) k sx m [] h hb first modif h2 VUndef VUndef Hh D Hh2) as (nv & B).
  destruct (bsE_sound _ _ _ _ B) as (f0 & F). exists f0. intros f Hf. eexists. split; [apply F; exact Hf|]. split; reflexivity.
Qed.
