(* ImpFactsCsAddFirst.v - sbdf_cs_add_property on a slice that has no property yet: the two pointer arrays are allocated
   (sbdf_alloc, one slot each), the name is copied, name and array go into slot 0 and the count becomes 1 - or the call stops
   at the first allocation that fails, and the count is still 0. *)
From Sbdf Require Import ImpCall Gen.Prog Gen.Consts Base Prim BaseFacts ImpBase ImpFactsCap ImpFactsCells ImpFactsSlice ImpFactsHeap ImpFactsHeap2 ImpFactsGrow ImpFactsCsAdd.
From Coq Require Import ZifyBool.
Local Open Scope Z_scope.
Ltac Zify.zify_post_hook ::= Z.div_mod_to_equations.

Lemma cap0 : array_capacity 0 = 0.  Proof. vm_compute. reflexivity. Qed.
Lemma cap1 : array_capacity 1 = 1.  Proof. vm_compute. reflexivity. Qed.

Lemma set_nth_v_length {A} (l : list A) : forall n x l', set_nth_v n x l = Some l' -> List.length l' = List.length l.
Proof. induction l as [|c l IH]; intros [|n] x l' H; cbn [set_nth_v] in H; try discriminate; [injection H as <-; reflexivity|].
  destruct (set_nth_v n x l) eqn:E; [|discriminate]. injection H as <-. cbn [List.length]. now rewrite (IH n x l0 E). Qed.
Lemma cell_set_length (h : heap) b i v h' : cell_set h b i v = Some h' -> List.length h' = List.length h.
Proof. unfold cell_set. destruct (nth_error h b) as [[blk|]|]; try discriminate. destruct (0 <=? i); [|discriminate].
  destruct (set_nth_v (Z.to_nat i) v blk); [|discriminate]. apply set_nth_v_length. Qed.

Section First.
Variables (bv : val) (k : Z) (sx : list Z) (o : list Z).

Lemma cs_add_first_tail h cb values names0 props0 owned pre bytes post ab nc c1 c2 c3 :
  let m := pre ++ bytes ++ 0 :: post in
  cs_block h cb values 0 names0 props0 owned -> as_ptr names0 = VNull -> as_ptr props0 = VNull ->
  Forall (fun b => b <> 0) bytes -> zlen bytes + 1 <= int_max ->
  let L := List.length h in
  let k1 := next_fail k in let k2 := next_fail k1 in
  exists fin, bsE prog_env (after_rows (fbody prog_sbdf_cs_add_property)) (af bv sx o cb (zlen pre) (VCell ab 0) VUndef VUndef VUndef nc VUndef c1 c2 c3 k h m)
    (OReturn (VInt (if (k =? 0) || (k1 =? 0) || (k2 =? 0) then SBDF_ERROR_OUT_OF_MEMORY else SBDF_OK)) fin) /\
    inb fin = (if (k =? 0) || (k1 =? 0) || (k2 =? 0) then m else str_mem m bytes []) /\
    exists hf, lookup cells_var (vars fin) = Some (VHeap hf) /\
      (if k =? 0 then hf = h
       else if k1 =? 0 then nth_error hf cb = Some (Some [values; VInt 0; names0; VCell L 0; VInt owned]) /\ List.length hf = S L
       else if k2 =? 0 then nth_error hf cb = Some (Some [values; VInt 0; VCell (S L) 0; VCell L 0; VInt owned]) /\ List.length hf = S (S L)
       else nth_error hf cb = Some (Some [values; VInt 1; VCell (S L) 0; VCell L 0; VInt owned]) /\
            nth_error hf L = Some (Some [VCell ab 0]) /\ nth_error hf (S L) = Some (Some [VPtr RIn (zlen m + 4)]) /\ List.length hf = S (S L)) /\
      (forall x, x <> cb -> (x < L)%nat -> nth_error hf x = nth_error h x).
Proof.
  intros m Hc Hn0 Hp0 Hnz Hbl L k1 k2. unfold cs_block in Hc.
  assert (HcbL : (cb < L)%nat) by (apply nth_error_Some; unfold L; congruence).
  pose proof (capacity_bs [(budget_var, bv); (fail_var, VInt k); (strm_var, VBytes sx); (cells_var, VHeap h)] m o 0 VUndef ltac:(unfold int_min; lia)) as CAP0.
  rewrite cap0 in CAP0. unfold cap_st in CAP0.
  pose proof (capacity_bs [(budget_var, bv); (fail_var, VInt k); (strm_var, VBytes sx); (cells_var, VHeap h)] m o 1 VUndef ltac:(unfold int_min; lia)) as CAP1.
  rewrite cap1 in CAP1. unfold cap_st in CAP1.
  (* the properties array *)
  set (h0 := h ++ [Some (repeat VUndef (Z.to_nat (8 / 8)))]).
  assert (Hc0 : nth_error h0 cb = Some (Some [values; VInt 0; names0; props0; VInt owned])) by (unfold h0; rewrite nth_error_app1 by exact HcbL; exact Hc).
  destruct (cell_set_ok h0 cb _ 3 (VCell L 0) props0 Hc0 ltac:(lia) eq_refl) as (h1 & blk1 & E1 & B1 & T1 & O1). cbn in B1. injection B1 as <-.
  destruct (alloc_fresh_bs bv k sx m o h cb 3 props0 8 VUndef ltac:(unfold cell_get; rewrite Hc; reflexivity) Hp0 ltac:(unfold int_max; lia) eq_refl) as (h1' & E1' & AL1).
  fold h0 L in E1'. rewrite E1 in E1'. injection E1' as <-.
  assert (HL1 : List.length h1 = S L) by (rewrite (cell_set_length _ _ _ _ _ E1); unfold h0, L; rewrite app_length; cbn; lia).
  (* the names array *)
  set (h1b := h1 ++ [Some (repeat VUndef (Z.to_nat (8 / 8)))]).
  assert (Hc1b : nth_error h1b cb = Some (Some [values; VInt 0; names0; VCell L 0; VInt owned])) by (unfold h1b; rewrite nth_error_app1 by lia; exact T1).
  destruct (cell_set_ok h1b cb _ 2 (VCell (S L) 0) names0 Hc1b ltac:(lia) eq_refl) as (h2 & blk2 & E2 & B2 & T2 & O2). cbn in B2. injection B2 as <-.
  destruct (alloc_fresh_bs bv k1 sx m o h1 cb 2 names0 8 VUndef ltac:(unfold cell_get; rewrite T1; reflexivity) Hn0 ltac:(unfold int_max; lia) eq_refl) as (h2' & E2' & AL2).
  rewrite HL1 in E2', AL2. fold h1b in E2'. rewrite E2 in E2'. injection E2' as <-.
  assert (HL2 : List.length h2 = S (S L)) by (rewrite (cell_set_length _ _ _ _ _ E2); unfold h1b; rewrite app_length, HL1; cbn; lia).
  assert (N1L : nth_error h1 L = Some (Some [VUndef])) by (rewrite O1 by lia; unfold h0, L; apply nth_error_app_new).
  assert (N2L : nth_error h2 L = Some (Some [VUndef])) by (rewrite O2 by lia; unfold h1b; rewrite nth_error_app1 by lia; exact N1L).
  assert (N2S : nth_error h2 (S L) = Some (Some [VUndef])) by (rewrite O2 by lia; unfold h1b; rewrite <- HL1; apply nth_error_app_new).
  (* the three stores *)
  destruct (cell_set_ok h2 (S L) _ 0 (VPtr RIn (zlen m + 4)) VUndef N2S ltac:(lia) eq_refl) as (h3 & blk3 & E3 & B3 & T3 & O3). cbn in B3. injection B3 as <-.
  assert (T3c : nth_error h3 cb = Some (Some [values; VInt 0; VCell (S L) 0; VCell L 0; VInt owned])) by (rewrite O3 by lia; exact T2).
  destruct (cell_set_ok h3 cb _ 1 (VInt 1) (VInt 0) T3c ltac:(lia) eq_refl) as (h4 & blk4 & E4 & B4 & T4 & O4). cbn in B4. injection B4 as <-.
  assert (N4L : nth_error h4 L = Some (Some [VUndef])) by (rewrite O4 by lia; rewrite O3 by lia; exact N2L).
  destruct (cell_set_ok h4 L _ 0 (VCell ab 0) VUndef N4L ltac:(lia) eq_refl) as (h5 & blk5 & E5 & B5 & T5 & O5). cbn in B5. injection B5 as <-.
  pose proof (str_create_bs sx h2 pre bytes post VUndef bv k2 o Hnz Hbl) as SC. cbv zeta in SC. fold m in SC. unfold sc1 in SC.
  cbn [after_rows loop_of fbody prog_sbdf_cs_add_property]. unfold af, fr. cbn [app].
  unfold fr in AL1, AL2. cbn [app] in AL1, AL2.
  assert (K1 : k <> 0 -> (k =? 0) = false) by lia.
  destruct (k =? 0) eqn:Ek; cbn [orb].
  { (* the first array cannot be allocated *)
    eexists. split.
    { eapply bsE_seq; [eapply bsE_seq; [eapply bsE_expr; eva; chk7; eva; reflexivity|eapply bsE_while_f; [eva; chk7; eva; cellrw1 Hc; eva; reflexivity|reflexivity]]|].
      eapply bsE_seq; [eapply bsE_call; [reflexivity|eva; chk7; eva; cellrw1 Hc; eva; reflexivity|reflexivity|eva; exact CAP0|eva; reflexivity]|].
      eapply bsE_seq_ret. eapply bsE_if; [eva; chk7; eva; cellrw1 Hc; eva; reflexivity|reflexivity|].
      eapply bsE_seq; [eapply bsE_seq; [eapply bsE_call; [reflexivity|eva; chk7; eva; cellrw1 Hc; eva; chk7; reflexivity|reflexivity|eva; exact CAP1|eva; reflexivity]|eapply bsE_decl1; [eva; reflexivity|eva; reflexivity]]|].
      eapply bsE_seq_ret. eapply bsE_seq; [eapply bsE_call; [reflexivity|eva; chk7; eva; cellrw1 Hc; eva; change (0 <=? 1) with true; cbv iota; eva; change (1 * 8) with 8; chk7; eva; chk7; reflexivity|reflexivity|eva; exact AL1|eva; reflexivity]|].
      eapply bsE_if; [eva; reflexivity|reflexivity|]. eapply bsE_return. eva. reflexivity. }
    split; [reflexivity|exists h; split; [reflexivity|split; [reflexivity|intros; reflexivity]]]. }
  assert (Hk0 : k <> 0) by lia. fold k1 in AL1. fold k2 in AL2.
  destruct (k1 =? 0) eqn:Ek1; cbn [orb].
  { (* the second array cannot be allocated: the first one stays *)
    eexists. split.
    { eapply bsE_seq; [eapply bsE_seq; [eapply bsE_expr; eva; chk7; eva; reflexivity|eapply bsE_while_f; [eva; chk7; eva; cellrw1 Hc; eva; reflexivity|reflexivity]]|].
      eapply bsE_seq; [eapply bsE_call; [reflexivity|eva; chk7; eva; cellrw1 Hc; eva; reflexivity|reflexivity|eva; exact CAP0|eva; reflexivity]|].
      eapply bsE_seq_ret. eapply bsE_if; [eva; chk7; eva; cellrw1 Hc; eva; reflexivity|reflexivity|].
      eapply bsE_seq; [eapply bsE_seq; [eapply bsE_call; [reflexivity|eva; chk7; eva; cellrw1 Hc; eva; chk7; reflexivity|reflexivity|eva; exact CAP1|eva; reflexivity]|eapply bsE_decl1; [eva; reflexivity|eva; reflexivity]]|].
      eapply bsE_seq; [eapply bsE_seq; [eapply bsE_call; [reflexivity|eva; chk7; eva; cellrw1 Hc; eva; change (0 <=? 1) with true; cbv iota; eva; change (1 * 8) with 8; chk7; eva; chk7; reflexivity|reflexivity|eva; exact AL1|eva; reflexivity]
                                   |eapply bsE_if; [eva; reflexivity|reflexivity|apply bsE_skip]]|].
      eapply bsE_seq; [eapply bsE_call; [reflexivity|eva; chk7; eva; cellrw1 T1; eva; change (0 <=? 1) with true; cbv iota; eva; change (1 * 8) with 8; chk7; eva; chk7; reflexivity|reflexivity|eva; exact AL2|eva; reflexivity]|].
      eapply bsE_if; [eva; reflexivity|reflexivity|]. eapply bsE_return. eva. reflexivity. }
    split; [reflexivity|]. exists h1. split; [reflexivity|]. split; [split; [exact T1|exact HL1]|].
    intros x Hx1 Hx2. rewrite O1 by congruence. unfold h0. rewrite nth_error_app1 by exact Hx2. reflexivity. }
  assert (OTH : forall hz, (forall x, x <> cb -> x <> L -> x <> S L -> nth_error hz x = nth_error h2 x) -> forall x, x <> cb -> (x < L)%nat -> nth_error hz x = nth_error h x).
  { intros hz Hz x Hx1 Hx2. rewrite Hz by lia. rewrite O2 by congruence. unfold h1b. rewrite nth_error_app1 by lia. rewrite O1 by congruence. unfold h0. rewrite nth_error_app1 by exact Hx2. reflexivity. }
  assert (GROWN : forall X oo,
     bsE prog_env X {| vars := [("out"%string, VCell cb 0); ("name"%string, VPtr RIn (zlen pre)); ("values"%string, VCell ab 0); ("cap"%string, VInt 0); ("error"%string, VInt SBDF_OK); ("i"%string, VInt 0);
                                ("new_cap"%string, VInt 1); ("nm"%string, VUndef); ("$c1"%string, c1); ("$c2"%string, c2); ("$c3"%string, VInt 1);
                                (budget_var, bv); (fail_var, VInt k2); (strm_var, VBytes sx); (cells_var, VHeap h2)]; inb := m; outb := o |} oo ->
     bsE prog_env (SSeq (SSeq (SExpr (EAssign "i" (EConst (0)))) (SWhile (EBin Lt (EVar "i") (ECellLoad (EVar "out") (EConst 1) false)) (SSeq (SIf (ELNot (EStrcmp (EVar "name") (ECellLoad (ECellLoad (EVar "out") (EConst 2) true) (EVar "i") true))) (SReturn (EBin Sub (EConst 0) (EConst (14)))) SSkip) (SExpr (EPreInc "i")))))
       (SSeq (SCall (Some "cap") "sbdf_calculate_array_capacity" [(AVal (ECellLoad (EVar "out") (EConst 1) false))])
       (SSeq (SIf (EBin Eq (EVar "cap") (ECellLoad (EVar "out") (EConst 1) false))
                  (SSeq (SSeq (SCall (Some "$c3") "sbdf_calculate_array_capacity" [(AVal (EBin Imp.Add (EConst (1)) (ECellLoad (EVar "out") (EConst 1) false)))]) (SDecl "new_cap" (Some (EVar "$c3"))))
                  (SSeq (SSeq (SCall (Some "error") "sbdf_alloc" [(AVal (EFieldAddr (EVar "out") (EConst 3))); (AVal (ECast TInt (EBin Mul (ECast TSizeT (EVar "new_cap")) (EConst 8))))]) (SIf (EVar "error") (SReturn (EVar "error")) SSkip))
                        (SSeq (SCall (Some "error") "sbdf_alloc" [(AVal (EFieldAddr (EVar "out") (EConst 2))); (AVal (ECast TInt (EBin Mul (ECast TSizeT (EVar "new_cap")) (EConst 8))))]) (SIf (EVar "error") (SReturn (EVar "error")) SSkip)))) SSkip) X)))%string
       {| vars := [("out"%string, VCell cb 0); ("name"%string, VPtr RIn (zlen pre)); ("values"%string, VCell ab 0); ("cap"%string, VUndef); ("error"%string, VUndef); ("i"%string, VUndef);
                   ("new_cap"%string, nc); ("nm"%string, VUndef); ("$c1"%string, c1); ("$c2"%string, c2); ("$c3"%string, c3);
                   (budget_var, bv); (fail_var, VInt k); (strm_var, VBytes sx); (cells_var, VHeap h)]; inb := m; outb := o |} oo).
  { intros X oo B.
    eapply bsE_seq; [eapply bsE_seq; [eapply bsE_expr; eva; chk7; eva; reflexivity|eapply bsE_while_f; [eva; chk7; eva; cellrw1 Hc; eva; reflexivity|reflexivity]]|].
    eapply bsE_seq; [eapply bsE_call; [reflexivity|eva; chk7; eva; cellrw1 Hc; eva; reflexivity|reflexivity|eva; exact CAP0|eva; reflexivity]|].
    eapply bsE_seq; [|exact B]. eapply bsE_if; [eva; chk7; eva; cellrw1 Hc; eva; reflexivity|reflexivity|].
    eapply bsE_seq; [eapply bsE_seq; [eapply bsE_call; [reflexivity|eva; chk7; eva; cellrw1 Hc; eva; chk7; reflexivity|reflexivity|eva; exact CAP1|eva; reflexivity]|eapply bsE_decl1; [eva; reflexivity|eva; reflexivity]]|].
    eapply bsE_seq; [eapply bsE_seq; [eapply bsE_call; [reflexivity|eva; chk7; eva; cellrw1 Hc; eva; change (0 <=? 1) with true; cbv iota; eva; change (1 * 8) with 8; chk7; eva; chk7; reflexivity|reflexivity|eva; exact AL1|eva; reflexivity]
                                 |eapply bsE_if; [eva; reflexivity|reflexivity|apply bsE_skip]]|].
    eapply bsE_seq; [eapply bsE_call; [reflexivity|eva; chk7; eva; cellrw1 T1; eva; change (0 <=? 1) with true; cbv iota; eva; change (1 * 8) with 8; chk7; eva; chk7; reflexivity|reflexivity|eva; exact AL2|eva; reflexivity]|].
    eapply bsE_if; [eva; reflexivity|reflexivity|apply bsE_skip]. }
  destruct (k2 =? 0) eqn:Ek2.
  { (* the name cannot be copied: both arrays stay, the count is still 0 *)
    eexists. split.
    { apply GROWN. eapply bsE_seq; [eapply bsE_call; [reflexivity|eva; reflexivity|reflexivity|eva; exact SC|eva; reflexivity]|].
      eapply bsE_seq_ret. eapply bsE_if; [eva; reflexivity|reflexivity|]. eapply bsE_return. eva. chk7. reflexivity. }
    split; [reflexivity|]. exists h2. split; [reflexivity|]. split; [split; [exact T2|exact HL2]|]. apply OTH. intros; reflexivity. }
  (* everything is there *)
  eexists. split.
  { apply GROWN. eapply bsE_seq; [eapply bsE_call; [reflexivity|eva; reflexivity|reflexivity|eva; exact SC|eva; reflexivity]|].
    eapply bsE_seq; [eapply bsE_if; [eva; reflexivity|reflexivity|apply bsE_skip]|].
    eapply bsE_seq.
    { eapply bsE_expr. eva. chk7. eva. unfold cell_get at 1. rewrite T2. change (0 + 2) with 2. cbn [Z.leb Z.compare Z.to_nat]. change (Pos.to_nat 2) with 2%nat. cbn [nth_error]. eva. chk7. eva.
      unfold cell_get. rewrite T2. change (0 + 1) with 1. cbn [Z.leb Z.compare Z.to_nat]. change (Pos.to_nat 1) with 1%nat. cbn [nth_error]. eva.
      change (0 + 0) with 0. rewrite E3. eva. reflexivity. }
    eapply bsE_seq.
    { eapply bsE_expr. eva. chk7. eva. unfold cell_get at 1. rewrite T3c. cbn [Z.add Z.leb Z.compare Z.to_nat]. change (Pos.to_nat 3) with 3%nat. cbn [nth_error]. eva.
      chk7. eva. unfold cell_get. rewrite T3c. cbn [Z.add Z.leb Z.compare Z.to_nat]. change (Pos.to_nat 1) with 1%nat. cbn [nth_error]. chk7. change (0 + 1) with 1. rewrite E4. eva.
      change (0 + 0) with 0. rewrite E5. eva. reflexivity. }
    eapply bsE_return. eva. chk7. reflexivity. }
  split; [reflexivity|]. exists h5. split; [reflexivity|]. split.
  - split; [rewrite O5 by lia; exact T4|]. split; [exact T5|]. split; [rewrite O5 by lia; rewrite O4 by lia; exact T3|].
    rewrite (cell_set_length _ _ _ _ _ E5), (cell_set_length _ _ _ _ _ E4), (cell_set_length _ _ _ _ _ E3). exact HL2.
  - apply OTH. intros x H1 H2 H3. rewrite O5 by congruence. rewrite O4 by congruence. apply O3. congruence.
Qed.
End First.

(* as a top-level call: the first property of a column slice *)
Theorem cs_add_first_source k sx h cb values names0 props0 owned vb ty1 enc1 v11 o11 o12 ob1 oty1 cnt1 data1 ab ty2 enc2 v21 o21 o22 ob2 oty2 cnt2 data2 pre bytes post :
  let m := pre ++ bytes ++ 0 :: post in
  cs_block h cb values 0 names0 props0 owned -> as_ptr names0 = VNull -> as_ptr props0 = VNull ->
  as_ptr values = VCell vb 0 -> va_block h vb ty1 enc1 v11 o11 o12 -> int_min <= enc1 <= int_max ->
  (enc1 = SBDF_PLAINARRAYENCODINGTYPEID -> as_ptr o11 = VCell ob1 0 /\ obj_block h ob1 oty1 cnt1 data1) ->
  va_block h ab ty2 enc2 v21 o21 o22 -> int_min <= enc2 <= int_max ->
  (enc2 = SBDF_PLAINARRAYENCODINGTYPEID -> as_ptr o21 = VCell ob2 0 /\ obj_block h ob2 oty2 cnt2 data2) ->
  int_min <= row_cnt_of enc1 v11 cnt1 <= int_max -> int_min <= row_cnt_of enc2 v21 cnt2 <= int_max ->
  row_cnt_of enc1 v11 cnt1 = row_cnt_of enc2 v21 cnt2 ->
  Forall (fun b => b <> 0) bytes -> zlen bytes + 1 <= int_max ->
  let L := List.length h in let k1 := next_fail k in let k2 := next_fail k1 in
  exists f0, forall f, (f0 <= f)%nat -> exists fin,
    callC prog_env f prog_sbdf_cs_add_property [VCell cb 0; VPtr RIn (zlen pre); VCell ab 0] m k sx h =
      OReturn (VInt (if (k =? 0) || (k1 =? 0) || (k2 =? 0) then SBDF_ERROR_OUT_OF_MEMORY else SBDF_OK)) fin /\
    inb fin = (if (k =? 0) || (k1 =? 0) || (k2 =? 0) then m else str_mem m bytes []) /\
    exists hf, lookup cells_var (vars fin) = Some (VHeap hf) /\
      (if k =? 0 then hf = h
       else if k1 =? 0 then nth_error hf cb = Some (Some [values; VInt 0; names0; VCell L 0; VInt owned]) /\ List.length hf = S L
       else if k2 =? 0 then nth_error hf cb = Some (Some [values; VInt 0; VCell (S L) 0; VCell L 0; VInt owned]) /\ List.length hf = S (S L)
       else nth_error hf cb = Some (Some [values; VInt 1; VCell (S L) 0; VCell L 0; VInt owned]) /\
            nth_error hf L = Some (Some [VCell ab 0]) /\ nth_error hf (S L) = Some (Some [VPtr RIn (zlen m + 4)]) /\ List.length hf = S (S L)) /\
      (forall x, x <> cb -> (x < L)%nat -> nth_error hf x = nth_error h x).
Proof.
  intros m Hc Hn0 Hp0 Hvals Hv1 He1 Hp1 Hv2 He2 Hp2 Hr1 Hr2 Heq Hnz Hbl L k1 k2.
  destruct (cs_add_rows (VInt 0) k sx m [] h cb values 0 names0 props0 owned vb ty1 enc1 v11 o11 o12 ob1 oty1 cnt1 data1 (zlen pre) ab ty2 enc2 v21 o21 o22 ob2 oty2 cnt2 data2
              VUndef VUndef VUndef VUndef VUndef VUndef VUndef VUndef Hc Hvals Hv1 He1 Hp1 Hv2 He2 Hp2 Hr1 Hr2) as (_ & A).
  destruct (cs_add_first_tail (VInt 0) k sx [] h cb values names0 props0 owned pre bytes post ab VUndef (VInt (row_cnt_of enc1 v11 cnt1)) (VInt (row_cnt_of enc2 v21 cnt2)) VUndef Hc Hn0 Hp0 Hnz Hbl)
    as (fin & B & P1 & P2).
  destruct (bsE_sound _ _ _ _ (A Heq _ B)) as (f0 & F). exists f0. intros f Hf. exists fin. split; [apply F; exact Hf|]. split; [exact P1|exact P2].
Qed.
