(* EqFacts.v — equality and ordering helpers agree with content (C15). *)
From Sbdf Require Import Obj BaseFacts VaFacts.
From Coq Require Import ZifyBool.

(* well-formed object: fixed-size elements have exactly the size of their type *)
Definition obj_wf (o : obj) : Prop :=
  is_arr (oty o) = true \/ (0 < usize (oty o) /\ forall e, In e (oelems o) -> zlen e = usize (oty o)).

Lemma list_eqb_str_cmp a b : list_eqb (fun x y => str_cmp x y =? 0) a b = true <-> a = b.
Proof.
  revert b. induction a as [|x a IH]; intros [|y b]; cbn [list_eqb]; try (split; [discriminate|discriminate]); [split; reflexivity|].
  rewrite andb_true_iff, IH. unfold str_cmp. split.
  - intros [H1 H2]. f_equal; [|exact H2]. apply lex_cmp_eq. lia.
  - intros H. inversion H. subst. split; [|reflexivity]. rewrite lex_cmp_refl. reflexivity.
Qed.

Lemma concat_inj_fixed (sz : Z) (a b : list (list Z)) :
  0 < sz -> (forall e, In e a -> zlen e = sz) -> (forall e, In e b -> zlen e = sz) -> length a = length b ->
  concat a = concat b -> a = b.
Proof.
  intros Hsz. revert b. induction a as [|x a IH]; intros [|y b] Ha Hb Hl E; cbn in Hl; try lia; [reflexivity|].
  cbn [concat] in E.
  assert (Hx : zlen x = sz) by (apply Ha; now left). assert (Hy : zlen y = sz) by (apply Hb; now left).
  assert (x = y /\ concat a = concat b).
  { assert (E1 : ztake (zlen x) (x ++ concat a) = ztake (zlen x) (y ++ concat b)) by now rewrite E.
    rewrite ztake_app_exact in E1. rewrite Hx, <- Hy, ztake_app_exact in E1. subst y. split; [reflexivity|].
    now apply app_inv_head in E. }
  destruct H as [-> E2]. f_equal. apply IH; try assumption; try lia; intros e He; [apply Ha|apply Hb]; now right.
Qed.

(* object equality is true exactly when type, element count and every element coincide *)
Theorem obj_eq_iff a b : obj_wf a -> obj_wf b -> (obj_eq a b = 1 <-> a = b).
Proof.
  intros Wa Wb. unfold obj_eq. split.
  - destruct (oty a =? oty b) eqn:Et; cbn [negb]; [|discriminate]. assert (Ht : oty a = oty b) by lia.
    destruct (ocount a =? ocount b) eqn:Ec; cbn [negb]; [|discriminate].
    destruct (is_arr (oty a)) eqn:A.
    + destruct (list_eqb _ (oelems a) (oelems b)) eqn:El; [|discriminate]. intros _.
      apply list_eqb_str_cmp in El. destruct a, b. cbn in *. congruence.
    + destruct (usize (oty a) <? 0) eqn:C; [discriminate|].
      destruct (bytes_eqb (concat (oelems a)) (concat (oelems b))) eqn:Eb; [|discriminate]. intros _.
      apply bytes_eqb_eq in Eb.
      destruct Wa as [Wa|[Sa Wa]]; [congruence|]. destruct Wb as [Wb|[Sb Wb]]; [rewrite <- Ht in Wb; congruence|].
      assert (oelems a = oelems b).
      { apply (concat_inj_fixed (usize (oty a))); try assumption.
        - intros e He. rewrite Ht. now apply Wb.
        - unfold ocount, zlen in Ec. lia. }
      destruct a, b. cbn in *. congruence.
  - intros <-. rewrite !Z.eqb_refl. cbn [negb]. destruct (is_arr (oty a)) eqn:A.
    + assert (list_eqb (fun x y => str_cmp x y =? 0) (oelems a) (oelems a) = true) by now apply list_eqb_str_cmp.
      now rewrite H.
    + destruct Wa as [Wa|[Sa _]]; [congruence|]. destruct (usize (oty a) <? 0) eqn:C; [lia|].
      now rewrite bytes_eqb_refl.
Qed.

(* hence it is an equivalence relation on well-formed objects, and its only values are 0 and 1 *)
Theorem obj_eq_equivalence :
  (forall a, obj_wf a -> obj_eq a a = 1) /\
  (forall a b, obj_wf a -> obj_wf b -> obj_eq a b = 1 -> obj_eq b a = 1) /\
  (forall a b c, obj_wf a -> obj_wf b -> obj_wf c -> obj_eq a b = 1 -> obj_eq b c = 1 -> obj_eq a c = 1).
Proof.
  split; [|split].
  - intros a W. now apply obj_eq_iff.
  - intros a b Wa Wb H. apply obj_eq_iff in H; try assumption. subst. now apply obj_eq_iff.
  - intros a b c Wa Wb Wc H1 H2. apply obj_eq_iff in H1; try assumption. apply obj_eq_iff in H2; try assumption. subst. now apply obj_eq_iff.
Qed.

Theorem obj_eq_boolean a b : obj_wf a -> obj_eq a b = 0 \/ obj_eq a b = 1.
Proof.
  intros Wa. unfold obj_eq. destruct (negb (oty a =? oty b)); [now left|]. destruct (negb (ocount a =? ocount b)); [now left|].
  destruct (is_arr (oty a)) eqn:A; [destruct (list_eqb _ _ _); auto|].
  destruct Wa as [Wa|[Sa _]]; [congruence|]. destruct (usize (oty a) <? 0) eqn:C; [lia|]. destruct (bytes_eqb _ _); auto.
Qed.

(* a copy is equal to its source *)
Theorem obj_copy_equal o : obj_ok o -> obj_wf o -> exists c, obj_copy o = Ok c /\ obj_eq o c = 1.
Proof. intros H W. exists o. split; [now apply obj_copy_ok|now apply obj_eq_iff]. Qed.
