(* ImpFactsWriteStr.v - sbdf_write_string from the source. *)
From Sbdf Require Import ImpCall Gen.Prog Gen.Consts Base Prim BaseFacts ImpBase ImpFactsInt32W ImpFactsStr.
From Coq Require Import ZifyBool.
Local Open Scope Z_scope.
Ltac Zify.zify_post_hook ::= Z.div_mod_to_equations.

Ltac evs2 := cbn [prog_env eval_args callee_init finish_call copy_in copy_out try_update update lookup combine map app String.append
                 String.eqb Ascii.eqb Bool.eqb fparams flocals fbody vars inb outb budget_var fail_var cell_token List.length Nat.eqb eval set_var cast
                 prog_sbdf_get_array_length prog_sbdf_str_len prog_sbdf_write_string prog_sbdf_write_int32 truth binop_int b2z negb].

Definition ws (fr : region) (fo p : Z) (e l : val) (B : Z) (m o : list Z) : state :=
  {| vars := [("f"%string, VPtr fr fo); ("s"%string, VPtr RIn p); ("error"%string, e); ("l"%string, l); (budget_var, VInt B)]; inb := m; outb := o |}.

Lemma write_string_bs fr fo pre bytes post e l B o : zlen bytes + 1 < 2147483648 -> 0 <= B ->
  exists e' B', bsE prog_env (fbody prog_sbdf_write_string) (ws fr fo (zlen pre + 4) e l B (str_mem pre bytes post) o)
      (OReturn (VInt (if 4 + zlen bytes <=? B then SBDF_OK else SBDF_ERROR_IO))
               (ws fr fo (zlen pre + 4) e' (VInt (zlen bytes)) B' (str_mem pre bytes post) (o ++ ztake B (le32 (zlen bytes) ++ bytes)))).
Proof.
  intros Hl HB. cbn [fbody prog_sbdf_write_string]. unfold ws. pose proof (zlen_nonneg bytes) as Pb. pose proof (zlen_nonneg pre) as Pp.
  pose proof (write_int32_bs fr fo (zlen bytes) B (str_mem pre bytes post) o ltac:(unfold int_min, int_max; lia) HB) as W.
  assert (Hskip : skipn (Z.to_nat (zlen pre + 4)) (str_mem pre bytes post) = bytes ++ [0] ++ post).
  { unfold str_mem. rewrite app_assoc. replace (zlen pre + 4) with (zlen (pre ++ le32 (zlen bytes + 1))) by (rewrite zlen_app; reflexivity).
    apply skipn_app_zlen. }
  assert (Hmem : zlen (str_mem pre bytes post) = zlen pre + 4 + zlen bytes + 1 + zlen post).
  { unfold str_mem. rewrite !zlen_app. change (zlen (le32 (zlen bytes + 1))) with 4. change (zlen [0]) with 1. lia. }
  pose proof (zlen_nonneg post) as Pq.
  set (m := Z.min (zlen bytes) (B - 4)).
  assert (Hw : 4 <= B -> eval (EBin Ne (EWriteBuf (EVar "s") (ECast TSizeT (EVar "l"))) (ECast TSizeT (EVar "l")))
        {| vars := [("f"%string, VPtr fr fo); ("s"%string, VPtr RIn (zlen pre + 4)); ("error"%string, VInt SBDF_OK); ("l"%string, VInt (zlen bytes)); (budget_var, VInt (B - 4))];
           inb := str_mem pre bytes post; outb := o ++ le32 (zlen bytes) |}
      = Some (VInt (b2z (negb (m =? zlen bytes))), {| vars := [("f"%string, VPtr fr fo); ("s"%string, VPtr RIn (zlen pre + 4)); ("error"%string, VInt SBDF_OK); ("l"%string, VInt (zlen bytes)); (budget_var, VInt (B - 4 - m))];
           inb := str_mem pre bytes post; outb := (o ++ le32 (zlen bytes)) ++ ztake m bytes |})).
  { intros H4. cbn [eval lookup String.eqb Ascii.eqb Bool.eqb vars cast inb outb budget_var].
    replace (0 <=? zlen bytes) with true by lia. cbn [inb vars].
    rewrite zlen_length, Hmem. replace ((0 <=? zlen pre + 4) && (0 <=? zlen bytes) && (zlen pre + 4 + zlen bytes <=? zlen pre + 4 + zlen bytes + 1 + zlen post)) with true by lia.
    cbn [lookup String.eqb Ascii.eqb Bool.eqb budget_var set_var update vars inb outb]. fold m. rewrite Hskip.
    assert (Hf : firstn (Z.to_nat m) (bytes ++ [0] ++ post) = ztake m bytes).
    { unfold ztake. rewrite firstn_app. replace (Z.to_nat m - List.length bytes)%nat with 0%nat by (unfold m, zlen in *; lia). cbn [firstn]. now rewrite app_nil_r. }
    rewrite Hf. cbn [lookup String.eqb Ascii.eqb Bool.eqb vars cast]. replace (0 <=? zlen bytes) with true by lia. cbn [binop_int]. reflexivity. }
  Ltac ws_prefix pre bytes post B o Hl :=
    (eapply bsE_seq; [eapply bsE_decl0; evs2; reflexivity|]); (eapply bsE_seq; [eapply bsE_decl0; evs2; reflexivity|]);
    (eapply bsE_seq; [eapply bsE_if; [evs2; reflexivity|reflexivity|apply bsE_skip]|]);
    (eapply bsE_seq; [eapply bsE_call; [reflexivity|evs2; reflexivity|reflexivity|apply (str_len_bs pre bytes post VUndef (VInt B) o Hl)|unfold sl; evs2; reflexivity]|]).
  destruct (4 <=? B) eqn:E4; [destruct (4 + zlen bytes <=? B) eqn:EA|].
  - rewrite (ztake_all (le32 (zlen bytes)) B) in W by (change (zlen (le32 (zlen bytes))) with 4; lia). change (zlen (le32 (zlen bytes))) with 4 in W.
    assert (Hm : m = zlen bytes) by (unfold m; lia). specialize (Hw ltac:(lia)).
    do 2 eexists. ws_prefix pre bytes post B o Hl.
    eapply bsE_seq; [eapply bsE_seq; [eapply bsE_call; [reflexivity|evs2; reflexivity|reflexivity|exact W|unfold wi; evs2; reflexivity]|no_err]|].
    eapply bsE_seq; [eapply bsE_if; [exact Hw|rewrite Hm, Z.eqb_refl; reflexivity|apply bsE_skip]|].
    eapply bsE_cast_o; [eapply bsE_return; evs2; chk7; reflexivity|].
    rewrite (ztake_all (le32 (zlen bytes) ++ bytes) B) by (rewrite zlen_app; change (zlen (le32 (zlen bytes))) with 4; lia).
    rewrite Hm, (ztake_all bytes (zlen bytes)) by lia. rewrite <- app_assoc. reflexivity.
  - rewrite (ztake_all (le32 (zlen bytes)) B) in W by (change (zlen (le32 (zlen bytes))) with 4; lia). change (zlen (le32 (zlen bytes))) with 4 in W.
    assert (Hm : m = B - 4) by (unfold m; lia). specialize (Hw ltac:(lia)).
    do 2 eexists. ws_prefix pre bytes post B o Hl.
    eapply bsE_seq; [eapply bsE_seq; [eapply bsE_call; [reflexivity|evs2; reflexivity|reflexivity|exact W|unfold wi; evs2; reflexivity]|no_err]|].
    eapply bsE_seq_ret. eapply bsE_if; [exact Hw|replace (m =? zlen bytes) with false by lia; reflexivity|].
    eapply bsE_cast_o; [eapply bsE_return; evs2; chk7; reflexivity|].
    rewrite ztake_app_ge by (change (zlen (le32 (zlen bytes))) with 4; lia). change (zlen (le32 (zlen bytes))) with 4. rewrite Hm, <- app_assoc. reflexivity.
  - (* the length itself did not fit *)
    do 2 eexists. ws_prefix pre bytes post B o Hl.
    eapply bsE_seq_ret. eapply bsE_seq; [eapply bsE_call; [reflexivity|evs2; reflexivity|reflexivity|exact W|unfold wi; evs2; reflexivity]|].
    eapply bsE_cast_o; [ret_err|]. replace (4 + zlen bytes <=? B) with false by lia.
    rewrite ztake_app_le by (change (zlen (le32 (zlen bytes))) with 4; lia). reflexivity.
Qed.

Theorem write_string_source bytes B : zlen bytes + 1 < 2147483648 -> 0 <= B ->
  exists f0, forall f, (f0 <= f)%nat -> exists fin,
    callE prog_env f prog_sbdf_write_string [tok; VPtr RIn 4] (str_mem [] bytes []) B
      = OReturn (VInt (if 4 + zlen bytes <=? B then SBDF_OK else SBDF_ERROR_IO)) fin /\
    outb fin = ztake B (le32 (zlen bytes) ++ bytes).
Proof.
  intros Hl HB. destruct (write_string_bs ROut 0 [] bytes [] VUndef VUndef B [] Hl HB) as (e' & B' & Bs).
  destruct (bsE_sound _ _ _ _ Bs) as (f0 & F). exists f0. intros f Hf. eexists. split; [apply F; exact Hf|]. reflexivity.
Qed.
