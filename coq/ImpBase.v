(* ImpBase.v - what the proofs about translated functions share and that mentions none of them: the big-step
   presentation of the call-free interpreter, arithmetic side conditions, list / memory lemmas, the layouts
   of stored strings and byte arrays.  Each ImpFacts*.v file imports this and only the files of functions
   its own functions call, so that a change to one function breaks the proofs about that function and its
   callers only. *)
From Sbdf Require Import Imp ImpCall Gen.Consts Base Prim BaseFacts.
From Coq Require Import ZifyBool.
Local Open Scope Z_scope.
Ltac Zify.zify_post_hook ::= Z.div_mod_to_equations.

(* ---- big-step presentation of exec (no fuel) and its soundness ---- *)
Inductive bs : stmt -> state -> outcome -> Prop :=
| bs_skip s : bs SSkip s (ONormal s)
| bs_expr e s v s1 : eval e s = Some (v, s1) -> bs (SExpr e) s (ONormal s1)
| bs_decl0 x s s1 : set_var x VUndef s = Some s1 -> bs (SDecl x None) s (ONormal s1)
| bs_decl1 x e s v s1 s2 : eval e s = Some (v, s1) -> set_var x v s1 = Some s2 -> bs (SDecl x (Some e)) s (ONormal s2)
| bs_seq a b s s1 o : bs a s (ONormal s1) -> bs b s1 o -> bs (SSeq a b) s o
| bs_seq_ret a b s v s1 : bs a s (OReturn v s1) -> bs (SSeq a b) s (OReturn v s1)
| bs_if c a b s vc s1 t o : eval c s = Some (vc, s1) -> truth vc = Some t -> bs (if t then a else b) s1 o -> bs (SIf c a b) s o
| bs_while_f c body s vc s1 : eval c s = Some (vc, s1) -> truth vc = Some false -> bs (SWhile c body) s (ONormal s1)
| bs_while_t c body s vc s1 s2 o : eval c s = Some (vc, s1) -> truth vc = Some true ->
    bs body s1 (ONormal s2) -> bs (SWhile c body) s2 o -> bs (SWhile c body) s o
| bs_while_ret c body s vc s1 v s2 : eval c s = Some (vc, s1) -> truth vc = Some true ->
    bs body s1 (OReturn v s2) -> bs (SWhile c body) s (OReturn v s2)
| bs_return e s v s1 : eval e s = Some (v, s1) -> bs (SReturn e) s (OReturn v s1)
| bs_break s : bs SBreak s (OBreak s)
| bs_seq_brk a b s s1 : bs a s (OBreak s1) -> bs (SSeq a b) s (OBreak s1)
| bs_while_brk c body s vc s1 s2 : eval c s = Some (vc, s1) -> truth vc = Some true ->
    bs body s1 (OBreak s2) -> bs (SWhile c body) s (ONormal s2).

Definition from (f0 : nat) (st : stmt) (s : state) (o : outcome) : Prop := forall f, (f0 <= f)%nat -> exec f st s = o.

Theorem bs_sound st s o : bs st s o -> exists f0, from f0 st s o.
Proof.
  induction 1.
  - exists 1%nat. intros f Hf. destruct f; [lia|reflexivity].
  - exists 1%nat. intros f Hf. destruct f; [lia|]. cbn [exec]. now rewrite H.
  - exists 1%nat. intros f Hf. destruct f; [lia|]. cbn [exec]. now rewrite H.
  - exists 1%nat. intros f Hf. destruct f; [lia|]. cbn [exec]. now rewrite H, H0.
  - destruct IHbs1 as (f1 & H1), IHbs2 as (f2 & H2). exists (S (Nat.max f1 f2)). intros f Hf. destruct f; [lia|]. cbn [exec].
    rewrite H1 by lia. apply H2. lia.
  - destruct IHbs as (f1 & H1). exists (S f1). intros f Hf. destruct f; [lia|]. cbn [exec]. rewrite H1 by lia. reflexivity.
  - destruct IHbs as (f1 & H2). exists (S f1). intros f Hf. destruct f; [lia|]. cbn [exec]. rewrite H, H0.
    destruct t; apply H2; lia.
  - exists 1%nat. intros f Hf. destruct f; [lia|]. cbn [exec]. now rewrite H, H0.
  - destruct IHbs1 as (f1 & H3), IHbs2 as (f2 & H4). exists (S (Nat.max f1 f2)). intros f Hf. destruct f; [lia|]. cbn [exec].
    rewrite H, H0, H3 by lia. apply H4. lia.
  - destruct IHbs as (f1 & H3). exists (S f1). intros f Hf. destruct f; [lia|]. cbn [exec]. rewrite H, H0, H3 by lia. reflexivity.
  - exists 1%nat. intros f Hf. destruct f; [lia|]. cbn [exec]. now rewrite H.
  - exists 1%nat. intros f Hf. destruct f; [lia|reflexivity].
  - destruct IHbs as (f1 & H1). exists (S f1). intros f Hf. destruct f; [lia|]. cbn [exec]. rewrite H1 by lia. reflexivity.
  - destruct IHbs as (f1 & H3). exists (S f1). intros f Hf. destruct f; [lia|]. cbn [exec]. rewrite H, H0, H3 by lia. reflexivity.
Qed.

(* ---- helpers ---- *)
Lemma nth_app_mid {A} (pre : list A) x rest d : nth (Z.to_nat (zlen pre)) (pre ++ x :: rest) d = x.
Proof. unfold zlen. rewrite Nat2Z.id. rewrite app_nth2 by lia. now rewrite Nat.sub_diag. Qed.

Lemma zlen_length {A} (l : list A) : Z.of_nat (List.length l) = zlen l.
Proof. reflexivity. Qed.

Lemma signed_unsigned b : 0 <= b <= 255 -> (if b <? 128 then b else b - 256) mod 256 = b.
Proof. intros H. destruct (b <? 128) eqn:E; lia. Qed.

Lemma chk_ok z : int_min <= z <= int_max -> chk z = Some (VInt z).
Proof. intros H. unfold chk, Imp.in_int. replace ((int_min <=? z) && (z <=? int_max)) with true by lia. reflexivity. Qed.

Lemma wrap_id z : int_min <= z <= int_max -> (z + 2147483648) mod u32 - 2147483648 = z.
Proof. unfold int_min, int_max, u32. intros H. lia. Qed.

Lemma char_byte x : 0 <= x <= 255 -> ((x + 128) mod 256 - 128) mod 256 = x.
Proof. intros H. lia. Qed.

Lemma bs_cast st s s' o o' : bs st s o -> s = s' -> o = o' -> bs st s' o'.
Proof. now intros H <- <-. Qed.

Ltac chks := rewrite ?chk_ok by (unfold int_min, int_max in *; lia); rewrite ?wrap_id by (unfold int_min, int_max in *; lia).

(* ---- bit facts ---- *)
Lemma testbit_small a n : 0 <= a < 2 ^ n -> 0 <= n -> Z.testbit a n = false.
Proof.
  intros Ha Hn. destruct (Z.eq_dec a 0) as [->|Ne]; [apply Z.bits_0|].
  apply Z.bits_above_log2; [lia|]. apply Z.log2_lt_pow2; lia.
Qed.

Lemma land_low_mul a c k : 0 <= a < 2 ^ k -> 0 <= k -> Z.land a (c * 2 ^ k) = 0.
Proof.
  intros Ha Hk. apply Z.bits_inj'. intros n Hn. rewrite Z.land_spec, Z.bits_0.
  destruct (Z_lt_le_dec n k) as [L|L].
  - rewrite Z.mul_pow2_bits_low by lia. apply andb_false_r.
  - rewrite (testbit_small a n); [reflexivity| |lia]. split; [lia|]. apply Z.lt_le_trans with (2 ^ k); [lia|]. apply Z.pow_le_mono_r; lia.
Qed.

Lemma lor_disjoint_add a c k : 0 <= a < 2 ^ k -> 0 <= k -> Z.lor a (c * 2 ^ k) = a + c * 2 ^ k.
Proof.
  intros Ha Hk. pose proof (land_low_mul a c k Ha Hk) as H.
  rewrite <- Z.lxor_lor by exact H. symmetry. now apply Z.add_nocarry_lxor.
Qed.

Definition byte (b : Z) : Prop := 0 <= b <= 255.

Ltac chk7 := rewrite ?chk_ok by (unfold int_min, int_max in *; lia); rewrite ?wrap_id by (unfold int_min, int_max in *; lia).

Lemma ztake_cons_pos {A} (b : A) l n : 0 < n -> ztake n (b :: l) = b :: ztake (n - 1) l.
Proof. intros H. unfold ztake. replace (Z.to_nat n) with (S (Z.to_nat (n - 1))) by lia. reflexivity. Qed.

Lemma bsE_cast env st s s' o o' : bsE env st s o -> s = s' -> o = o' -> bsE env st s' o'.
Proof. now intros H <- <-. Qed.

Lemma bsE_cast_o env st s o o' : bsE env st s o -> o = o' -> bsE env st s o'.
Proof. now intros H <-. Qed.

Ltac small := unfold int_min, int_max; lia.

Definition tok : val := cell_token.

Lemma skipn_app_zlen {A} (a b : list A) : skipn (Z.to_nat (zlen a)) (a ++ b) = b.
Proof. unfold zlen. rewrite Nat2Z.id. induction a; cbn; auto. Qed.

Lemma le32_decode n : 0 <= n < 2147483648 ->
  match le32 n with
  | [b0; b1; b2; b3] => (b0 + 256 * b1 + 65536 * b2 + 16777216 * b3 + 2147483648) mod u32 - 2147483648 = n
  | _ => False
  end.
Proof. intros H. unfold le32, to_u32, u32. cbv zeta. lia. Qed.

Definition str_mem (pre bytes post : list Z) : list Z := pre ++ le32 (zlen bytes + 1) ++ bytes ++ [0] ++ post.

Lemma drop_z_skipn {A} (s : list A) : forall k, 0 <= k -> drop_z s k = skipn (Z.to_nat k) s.
Proof.
  induction s as [|x s IH]; intros k Hk.
  - cbn [drop_z]. destruct (k <=? 0); now rewrite skipn_nil.
  - cbn [drop_z]. destruct (k <=? 0) eqn:E.
    + assert (k = 0) by lia. subst. reflexivity.
    + rewrite IH by lia. replace (Z.to_nat k) with (S (Z.to_nat (k - 1))) by lia. reflexivity.
Qed.

Lemma de32_range bs : Forall byte bs -> List.length bs = 4%nat -> int_min <= de32 bs <= int_max.
Proof.
  intros Hb Hl. destruct bs as [|b0 [|b1 [|b2 [|b3 [|]]]]]; try discriminate.
  inversion Hb as [|? ? G0 Q0]. inversion Q0 as [|? ? G1 Q1]. inversion Q1 as [|? ? G2 Q2]. inversion Q2 as [|? ? G3 Q3]. unfold byte in *.
  unfold de32, to_i32, int_min, int_max. cbn [le_dec]. destruct (b0 + 256 * (b1 + 256 * (b2 + 256 * (b3 + 256 * 0))) <? 2147483648) eqn:E; lia.
Qed.

Lemma read_int32_model s : read_int32 false s =
  match s with
  | b0 :: b1 :: b2 :: b3 :: r => Ok (de32 [b0; b1; b2; b3], r)
  | _ => Err SBDF_ERROR_IO
  end.
Proof.
  unfold read_int32, rd_bind, fread_bytes, rret, swapb. change (4 <? 0) with false. cbv iota.
  destruct s as [|b0 [|b1 [|b2 [|b3 r]]]]; try reflexivity.
  cbn [take_z]. change (4 =? 0) with false. change (4 - 1 =? 0) with false. change (4 - 1 - 1 =? 0) with false. change (4 - 1 - 1 - 1 =? 0) with false.
  change (4 - 1 - 1 - 1 - 1 =? 0) with true. cbv iota. destruct r; reflexivity.
Qed.

(* memcmp over the common prefix decides, else the lengths: that is lex_cmp *)
Lemma lex_cmp_memcmp a : forall b,
  let k := Z.min (zlen a) (zlen b) in
  let c := memcmp_l (ztake k a) (ztake k b) in
  lex_cmp a b = if c =? 0 then Z.sgn (zlen a - zlen b) else c.
Proof.
  induction a as [|x a IH]; intros b; cbn zeta.
  - destruct b as [|y b]; [reflexivity|]. cbn [lex_cmp]. rewrite zlen_cons. pose proof (zlen_nonneg b).
    change (zlen (@nil Z)) with 0. replace (Z.min 0 (1 + zlen b)) with 0 by lia. cbn [ztake Z.to_nat firstn memcmp_l Z.eqb]. rewrite Z.sgn_neg by lia. reflexivity.
  - destruct b as [|y b].
    + cbn [lex_cmp]. rewrite zlen_cons. pose proof (zlen_nonneg a). change (zlen (@nil Z)) with 0. replace (Z.min (1 + zlen a) 0) with 0 by lia. cbn [ztake Z.to_nat firstn memcmp_l Z.eqb]. rewrite Z.sgn_pos by lia. reflexivity.
    + cbn [lex_cmp]. rewrite !zlen_cons. pose proof (zlen_nonneg a). pose proof (zlen_nonneg b).
      replace (Z.min (1 + zlen a) (1 + zlen b)) with (1 + Z.min (zlen a) (zlen b)) by lia.
      rewrite !(ztake_cons_pos _ _ (1 + Z.min (zlen a) (zlen b))) by lia. replace (1 + Z.min (zlen a) (zlen b) - 1) with (Z.min (zlen a) (zlen b)) by lia.
      cbn [memcmp_l]. destruct (x <? y) eqn:E1; [reflexivity|]. destruct (y <? x) eqn:E2; [reflexivity|].
      rewrite IH. cbn zeta. replace (1 + zlen a - (1 + zlen b)) with (zlen a - zlen b) by lia. reflexivity.
Qed.

Lemma memcmp_l_range a : forall b, -1 <= memcmp_l a b <= 1.
Proof. induction a as [|x a IH]; intros [|y b]; cbn [memcmp_l]; try lia. destruct (x <? y); [lia|]. destruct (y <? x); [lia|apply IH]. Qed.

Definition ba_mem (pre bytes post : list Z) : list Z := pre ++ le32 (zlen bytes) ++ bytes ++ post.

(* ---- list facts ---- *)
Lemma upd_nth_at (m : list Z) y ys x : upd_nth (List.length m) x (m ++ y :: ys) = m ++ x :: ys.
Proof. induction m as [|a m IH]; cbn [List.length upd_nth app]; [reflexivity|]. now rewrite IH. Qed.

Lemma upd_range_at xs : forall m ys rest, List.length ys = List.length xs ->
  upd_range (List.length m) xs (m ++ ys ++ rest) = m ++ xs ++ rest.
Proof.
  induction xs as [|x xs IH]; intros m ys rest H.
  - destruct ys; [reflexivity|discriminate].
  - destruct ys as [|y ys]; [discriminate|]. cbn [upd_range app]. rewrite upd_nth_at.
    replace (m ++ x :: ys ++ rest) with ((m ++ [x]) ++ ys ++ rest) by (rewrite <- app_assoc; reflexivity).
    replace (S (List.length m)) with (List.length (m ++ [x])) by (rewrite app_length; cbn; lia).
    rewrite IH by (cbn in H; lia). rewrite <- app_assoc. reflexivity.
Qed.

Lemma repeat_app_z {A} (x : A) a b : 0 <= a -> 0 <= b -> repeat x (Z.to_nat (a + b)) = repeat x (Z.to_nat a) ++ repeat x (Z.to_nat b).
Proof. intros Ha Hb. rewrite Z2Nat.inj_add by lia. apply repeat_app. Qed.

Lemma zlen_repeat {A} (x : A) n : 0 <= n -> zlen (repeat x (Z.to_nat n)) = n.
Proof. intros H. unfold zlen. rewrite repeat_length. lia. Qed.

Definition next_fail (k : Z) : Z := if 0 <? k then k - 1 else k.

Lemma firstn_skipn_prefix {A} (m rest : list A) q n : 0 <= q -> 0 <= n -> q + n <= zlen m ->
  firstn (Z.to_nat n) (skipn (Z.to_nat q) (m ++ rest)) = firstn (Z.to_nat n) (skipn (Z.to_nat q) m).
Proof.
  intros Hq Hn H. rewrite skipn_app. rewrite firstn_app.
  replace (Z.to_nat n - List.length (skipn (Z.to_nat q) m))%nat with 0%nat by (rewrite skipn_length; unfold zlen in H; lia).
  cbn [firstn]. now rewrite app_nil_r.
Qed.

Definition is_ptr (v : val) : Prop := match v with VPtr _ _ => True | _ => False end.

Lemma upd_nth_length i x : forall l, List.length (upd_nth i x l) = List.length l.
Proof. induction i as [|i IH]; intros [|y l]; cbn [upd_nth List.length]; try reflexivity. now rewrite IH. Qed.

Lemma upd_range_length xs : forall i l, List.length (upd_range i xs l) = List.length l.
Proof. induction xs as [|x xs IH]; intros i l; cbn [upd_range]; [reflexivity|]. now rewrite IH, upd_nth_length. Qed.

Lemma upd_nth_app_r (m : list Z) i x X : upd_nth (List.length m + i) x (m ++ X) = m ++ upd_nth i x X.
Proof. induction m as [|y m IH]; cbn [List.length app upd_nth Nat.add]; [reflexivity|]. now rewrite IH. Qed.

Lemma upd_range_app_r (m : list Z) xs : forall i X, upd_range (List.length m + i) xs (m ++ X) = m ++ upd_range i xs X.
Proof.
  induction xs as [|x xs IH]; intros i X; cbn [upd_range]; [reflexivity|].
  rewrite upd_nth_app_r. replace (S (List.length m + i)) with (List.length m + S i)%nat by lia. apply IH.
Qed.

Ltac evf := cbn [eval lookup update set_var String.eqb Ascii.eqb Bool.eqb vars inb outb truth cast binop_int binop_uint is_shift b2z fst snd negb budget_var];
  change (0 =? 0) with true; change (1 =? 0) with false; cbn [negb b2z].

Ltac evsf := evf; chk7; evf; chk7; evf; chk7; evf.

Definition loop3 (st : stmt) : stmt := match st with SSeq _ (SSeq _ (SSeq w _)) => w | _ => SSkip end.

Definition tail3 (st : stmt) : stmt := match st with SSeq _ (SSeq _ (SSeq _ t)) => t | _ => SSkip end.

(* byte facts, checked for all 256 byte values by computation and lifted *)
Definition sgn (b : Z) : Z := if b <? 128 then b else b - 256.

Lemma sgn_mod b : 0 <= b <= 255 -> sgn b mod 256 = b.
Proof. intros H. unfold sgn. destruct (b <? 128) eqn:E; lia. Qed.

Lemma sgn_range b : 0 <= b <= 255 -> -128 <= sgn b <= 127.
Proof. intros H. unfold sgn. destruct (b <? 128) eqn:E; lia. Qed.

Definition body_of (st : stmt) : stmt := match st with SWhile _ b => b | _ => SSkip end.

Definition loop2 (st : stmt) : stmt := match st with SSeq _ (SSeq w _) => w | _ => SSkip end.

Ltac ret_err := eapply bsE_if; [evf; reflexivity | reflexivity | eapply bsE_return; evf; reflexivity].

Ltac no_err := eapply bsE_if; [evf; reflexivity | reflexivity | apply bsE_skip].

Lemma load_mid vs pre b rest outp :
  load (VPtr RIn (zlen pre)) {| vars := vs; inb := pre ++ b :: rest; outb := outp |} = Some (VInt (sgn b)).
Proof.
  cbn [load inb]. rewrite zlen_length, zlen_app, zlen_cons. pose proof (zlen_nonneg pre). pose proof (zlen_nonneg rest).
  replace ((0 <=? zlen pre) && (zlen pre <? zlen pre + (1 + zlen rest))) with true by lia. now rewrite nth_app_mid.
Qed.

Lemma incr_mid vs pre b rest outp :
  incr (VPtr RIn (zlen pre)) {| vars := vs; inb := pre ++ b :: rest; outb := outp |} = Some (VPtr RIn (zlen pre + 1)).
Proof.
  cbn [incr inb]. rewrite zlen_length, zlen_app, zlen_cons. pose proof (zlen_nonneg rest).
  replace (zlen pre <? zlen pre + (1 + zlen rest)) with true by lia. reflexivity.
Qed.

Lemma load_mid1 vs pre a b rest outp :
  load (VPtr RIn (zlen pre + 1)) {| vars := vs; inb := pre ++ a :: b :: rest; outb := outp |} = Some (VInt (sgn b)).
Proof.
  pose proof (load_mid vs (pre ++ [a]) b rest outp) as H. rewrite zlen_app, zlen_cons in H. change (zlen (@nil Z)) with 0 in H.
  rewrite Z.add_0_r, <- app_assoc in H. exact H.
Qed.

Lemma incr_mid1 vs pre a b rest outp :
  incr (VPtr RIn (zlen pre + 1)) {| vars := vs; inb := pre ++ a :: b :: rest; outb := outp |} = Some (VPtr RIn (zlen pre + 1 + 1)).
Proof.
  pose proof (incr_mid vs (pre ++ [a]) b rest outp) as H. rewrite zlen_app, zlen_cons in H. change (zlen (@nil Z)) with 0 in H.
  rewrite Z.add_0_r, <- app_assoc in H. exact H.
Qed.

Ltac evi := cbn [eval lookup update set_var String.eqb Ascii.eqb Bool.eqb vars inb outb truth cast binop_int binop_uint is_shift b2z fst snd negb budget_var];
  change (0 =? 0) with true; change (1 =? 0) with false; cbn [negb b2z].

Definition byte7_ok (b : Z) : bool := (Z.land b 127 =? b mod 128) && Bool.eqb (Z.land b 128 =? 128) (128 <=? b) && (0 <=? Z.land b 128) && (Z.land b 128 <=? 128).

Lemma byte7_all : forallb byte7_ok (map Z.of_nat (seq 0 256)) = true.
Proof. vm_compute. reflexivity. Qed.

Lemma byte7 b : 0 <= b <= 255 -> Z.land b 127 = b mod 128 /\ (Z.land b 128 =? 128) = (128 <=? b) /\ 0 <= Z.land b 128 <= 128.
Proof.
  intros H. pose proof byte7_all as A. rewrite forallb_forall in A.
  assert (S : byte7_ok b = true) by (apply A; apply in_map_iff; exists (Z.to_nat b); split; [lia|apply in_seq; lia]).
  unfold byte7_ok in S. repeat (apply andb_true_iff in S; destruct S as [S ?]). match goal with H : Bool.eqb _ _ = true |- _ => apply Bool.eqb_prop in H end. repeat split; try assumption; lia.
Qed.

Ltac ev7 := cbn [eval lookup update set_var String.eqb Ascii.eqb Bool.eqb vars inb outb truth cast binop_int binop_uint is_shift b2z fst snd negb budget_var];
  change (0 =? 0) with true; change (1 =? 0) with false; cbn [negb b2z].

Ltac evs7 := ev7; chk7; ev7; chk7; ev7; chk7; ev7.

Lemma pow7_bounds j : (j <= 4)%nat -> 1 <= 2 ^ (7 * Z.of_nat j) <= 268435456.
Proof.
  intros H. assert (C : (j = 0 \/ j = 1 \/ j = 2 \/ j = 3 \/ j = 4)%nat) by lia.
  destruct C as [->|[->|[->|[->| ->]]]]; cbn; lia.
Qed.

Lemma guard_ok x y sh : 0 <= x < u32 -> (0 <= y < u32 \/ sh = true) ->
  (0 <=? x) && (x <? u32) && ((0 <=? y) && (y <? u32) || sh) = true.
Proof. intros Hx [Hy| ->]; [|rewrite orb_true_r]; lia. Qed.

Lemma shguard_ok k : 0 <= k < 32 -> (0 <=? k) && (k <? 32) = true.
Proof. lia. Qed.

Definition io_init (f : func) (args : list val) (input : list Z) (budget : Z) : state :=
  {| vars := combine (fparams f) args ++ map (fun x => (x, VUndef)) (flocals f) ++ [(budget_var, VInt budget)]; inb := input; outb := [] |}.
