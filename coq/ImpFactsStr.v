(* ImpFactsStr.v - strings as stored (length header): sbdf_get_array_length, sbdf_str_len from the source (sbdf_write_string: ImpFactsWriteStr.v). *)
From Sbdf Require Import ImpCall Gen.Prog Gen.Consts Base Prim BaseFacts ImpBase.
From Coq Require Import ZifyBool.
Local Open Scope Z_scope.
Ltac Zify.zify_post_hook ::= Z.div_mod_to_equations.

Ltac evs2 := cbn [prog_env eval_args callee_init finish_call copy_in copy_out try_update update lookup combine map app String.append
                 String.eqb Ascii.eqb Bool.eqb fparams flocals fbody vars inb outb budget_var fail_var cell_token List.length Nat.eqb eval set_var cast
                 prog_sbdf_get_array_length prog_sbdf_str_len truth binop_int b2z negb].

(* ================================================================== strings as stored (length header) and their writer *)
(* an sbdf string in memory: the int header (length + 1 for the terminator, little-endian on this host),
   the bytes, the terminator; the char* the API hands around points at the first byte *)




Definition ga (p : Z) (bv : val) (m o : list Z) : state :=
  {| vars := [("array"%string, VPtr RIn p); (budget_var, bv)]; inb := m; outb := o |}.

Lemma get_array_length_bs pre bytes post bv o : zlen bytes + 1 < 2147483648 ->
  bsE prog_env (fbody prog_sbdf_get_array_length) (ga (zlen pre + 4) bv (str_mem pre bytes post) o)
      (OReturn (VInt (zlen bytes + 1)) (ga (zlen pre + 4) bv (str_mem pre bytes post) o)).
Proof.
  intros Hl. cbn [fbody prog_sbdf_get_array_length]. unfold ga. pose proof (zlen_nonneg bytes) as Pb. pose proof (zlen_nonneg pre) as Pp.
  eapply bsE_return. cbn [eval lookup String.eqb Ascii.eqb Bool.eqb vars binop_int]. chk7. cbn [inb].
  replace (zlen pre + 4 + 4 * (0 - 1)) with (zlen pre) by lia.
  unfold str_mem. rewrite skipn_app_zlen.
  assert (Hlen : (0 <=? zlen pre) && (zlen pre + 4 <=? Z.of_nat (List.length (pre ++ le32 (zlen bytes + 1) ++ bytes ++ [0] ++ post))) = true).
  { rewrite zlen_length, !zlen_app. change (zlen (le32 (zlen bytes + 1))) with 4. pose proof (zlen_nonneg (bytes ++ [0] ++ post)). rewrite <- !zlen_app. lia. }
  rewrite Hlen. pose proof (le32_decode (zlen bytes + 1) ltac:(lia)) as D.
  unfold le32 in *. cbv zeta in *. cbn [app]. rewrite D. reflexivity.
Qed.

Definition sl (p : Z) (c bv : val) (m o : list Z) : state :=
  {| vars := [("str"%string, VPtr RIn p); ("$c1"%string, c); (budget_var, bv)]; inb := m; outb := o |}.

Lemma str_len_bs pre bytes post c bv o : zlen bytes + 1 < 2147483648 ->
  bsE prog_env (fbody prog_sbdf_str_len) (sl (zlen pre + 4) c bv (str_mem pre bytes post) o)
      (OReturn (VInt (zlen bytes)) (sl (zlen pre + 4) (VInt (zlen bytes + 1)) bv (str_mem pre bytes post) o)).
Proof.
  intros Hl. cbn [fbody prog_sbdf_str_len]. unfold sl. pose proof (zlen_nonneg bytes) as Pb.
  eapply bsE_seq.
  - eapply bsE_call; [reflexivity|evs2; reflexivity|reflexivity|apply (get_array_length_bs pre bytes post bv o Hl)|unfold ga; evs2; reflexivity].
  - eapply bsE_return. evs2. chk7. replace (zlen bytes + 1 - 1) with (zlen bytes) by lia. reflexivity.
Qed.



