(* NormFacts.v — the file-wide name list is stable under read-back (C08 at file level): folding the
   re-expanded columns `norm names c` gives the same names in the same order, so the table
   metadata that tm_read returns is written back as the very same bytes. *)
From Sbdf Require Import Tm BaseFacts PrimFacts SevenBit ObjFacts VaFacts EqFacts MdFacts TmFacts.
From Coq Require Import ZifyBool.

Definition has (seen : list mdent) (e : mdent) : bool := existsb (fun p => name_eqb (ename p) (ename e)) seen.

(* first occurrences (by name) of the entries of es not already in seen *)
Fixpoint nub (seen es : list mdent) : list mdent :=
  match es with
  | [] => []
  | e :: r => if has seen e then nub (e :: seen) r else e :: nub (e :: seen) r
  end.

Lemma has_in seen e : has seen e = true <-> In (key e) (map key seen).
Proof.
  unfold has. rewrite existsb_exists. split.
  - intros (p & Hp & E). apply name_eqb_true in E. apply in_map_iff. exists p. split; [exact E|exact Hp].
  - intros H. apply in_map_iff in H. destruct H as (p & E & Hp). exists p. split; [exact Hp|]. now apply name_eqb_true.
Qed.

Lemma has_false seen e : has seen e = false <-> ~ In (key e) (map key seen).
Proof. rewrite <- has_in. destruct (has seen e); split; congruence. Qed.

Lemma find_first_has seen e : find_first (fun p => name_eqb (ename p) (ename e)) seen = None <-> has seen e = false.
Proof.
  rewrite find_first_none. unfold has. split.
  - intros H. destruct (existsb _ seen) eqn:E; [|reflexivity]. apply existsb_exists in E. destruct E as (p & Hp & E). rewrite (H p Hp) in E. discriminate.
  - intros H x Hx. destruct (name_eqb (ename x) (ename e)) eqn:E; [|reflexivity].
    assert (existsb (fun p => name_eqb (ename p) (ename e)) seen = true) by (apply existsb_exists; eauto). congruence.
Qed.

(* ---- fold_loop is nub, when it succeeds; and it succeeds on compatible entries ---- *)
Lemma fold_loop_nub es : forall seen keep names, fold_loop es seen keep = Ok names -> names = rev keep ++ nub seen es.
Proof.
  induction es as [|e es IH]; intros seen keep names H; cbn [fold_loop nub] in *.
  - inversion H. now rewrite app_nil_r.
  - destruct (find_first (fun p => name_eqb (ename p) (ename e)) seen) as [p|] eqn:F.
    + assert (Hh : has seen e = true).
      { destruct (has seen e) eqn:Hh; [reflexivity|]. apply find_first_has in Hh. congruence. }
      rewrite Hh. destruct (negb (ent_type p - ent_type e =? 0)); [discriminate|].
      destruct (obj_eq_opt (edflt p) (edflt e) =? 0); [discriminate|]. now apply IH.
    + apply find_first_has in F. rewrite F. apply IH in H. rewrite H. cbn [rev]. now rewrite <- app_assoc.
Qed.

Definition compat (l : list mdent) : Prop :=
  forall a b, In a l -> In b l -> same_name a b -> ent_type a = ent_type b /\ obj_eq_opt (edflt a) (edflt b) <> 0.

Lemma fold_loop_ok es : forall seen keep, compat (seen ++ es) -> fold_loop es seen keep = Ok (rev keep ++ nub seen es).
Proof.
  induction es as [|e es IH]; intros seen keep C; cbn [fold_loop nub].
  - now rewrite app_nil_r.
  - assert (C' : compat ((e :: seen) ++ es)).
    { intros a b Ha Hb. apply C; apply in_or_app; cbn [app In] in *.
      - destruct Ha as [<-|Ha]; [right; now left|]. apply in_app_or in Ha. destruct Ha; [now left|right; now right].
      - destruct Hb as [<-|Hb]; [right; now left|]. apply in_app_or in Hb. destruct Hb; [now left|right; now right]. }
    destruct (find_first (fun p => name_eqb (ename p) (ename e)) seen) as [p|] eqn:F.
    + assert (Hh : has seen e = true).
      { destruct (has seen e) eqn:Hh; [reflexivity|]. apply find_first_has in Hh. congruence. }
      rewrite Hh. apply find_first_some in F. destruct F as (Hp & Np).
      destruct (C p e) as (Ht & Hd); [apply in_or_app; now left|apply in_or_app; right; now left|exact Np|].
      replace (ent_type p - ent_type e =? 0) with true by lia. cbn [negb].
      replace (obj_eq_opt (edflt p) (edflt e) =? 0) with false by lia. now apply IH.
    + apply find_first_has in F. rewrite F. rewrite IH by exact C'. cbn [rev]. now rewrite <- app_assoc.
Qed.

(* ---- list facts about nub ---- *)
Lemma has_cons x seen e : has (x :: seen) e = name_eqb (ename x) (ename e) || has seen e.
Proof. reflexivity. Qed.

Lemma nub_ext es : forall s1 s2, (forall k, In k (map key s1) <-> In k (map key s2)) -> nub s1 es = nub s2 es.
Proof.
  induction es as [|e es IH]; intros s1 s2 H; cbn [nub]; [reflexivity|].
  assert (E : has s1 e = has s2 e).
  { destruct (has s1 e) eqn:A, (has s2 e) eqn:B; try reflexivity.
    - apply has_in in A. apply H in A. apply has_in in A. congruence.
    - apply has_in in B. apply H in B. apply has_in in B. congruence. }
  rewrite E. rewrite (IH (e :: s1) (e :: s2)); [reflexivity|].
  intros k. cbn [map In]. rewrite (H k). tauto.
Qed.

Lemma nub_app a : forall seen b, nub seen (a ++ b) = nub seen a ++ nub (rev a ++ seen) b.
Proof.
  induction a as [|x a IH]; intros seen b; cbn [app nub rev]; [reflexivity|].
  rewrite IH. rewrite <- app_assoc. cbn [app]. destruct (has seen x); reflexivity.
Qed.

Lemma nub_all_seen l : forall seen, (forall x, In x l -> In (key x) (map key seen)) -> nub seen l = [].
Proof.
  induction l as [|x l IH]; intros seen H; cbn [nub]; [reflexivity|].
  assert (E : has seen x = true) by (apply has_in; apply H; now left). rewrite E.
  apply IH. intros y Hy. cbn [map In]. right. apply H. now right.
Qed.

Lemma nub_none_seen l : forall seen, NoDup (map key l) -> (forall x, In x l -> ~ In (key x) (map key seen)) -> nub seen l = l.
Proof.
  induction l as [|x l IH]; intros seen Hnd H; cbn [nub]; [reflexivity|].
  cbn [map] in Hnd. inversion Hnd as [|k ks Hnin Hnd']. subst.
  assert (E : has seen x = false) by (apply has_false; apply H; now left). rewrite E. f_equal.
  apply IH; [exact Hnd'|]. intros y Hy [Ey|Hin]; [|apply (H y); [now right|exact Hin]].
  apply Hnin. rewrite Ey. now apply in_map.
Qed.

Lemma nub_sub l : forall seen x, In x (nub seen l) -> In x l /\ ~ In (key x) (map key seen).
Proof.
  induction l as [|y l IH]; intros seen x H; cbn [nub] in H; [contradiction|].
  destruct (has seen y) eqn:E.
  - apply IH in H. destruct H as (A & B). split; [now right|]. intros C. apply B. cbn [map In]. now right.
  - destruct H as [<-|H]; [split; [now left|now apply has_false]|].
    apply IH in H. destruct H as (A & B). split; [now right|]. intros C. apply B. cbn [map In]. now right.
Qed.

Lemma nub_keys l : forall seen k, In k (map key l) -> In k (map key seen) \/ In k (map key (nub seen l)).
Proof.
  induction l as [|y l IH]; intros seen k H; cbn [map In nub] in *; [contradiction|].
  destruct H as [<-|H].
  - destruct (has seen y) eqn:E; [left; now apply has_in|right; now left].
  - destruct (IH (y :: seen) k H) as [[<-|A]|A].
    + destruct (has seen y) eqn:E; [left; now apply has_in|right; now left].
    + now left.
    + right. destruct (has seen y); [exact A|now right].
Qed.

Lemma nub_nodup l : forall seen, NoDup (map key (nub seen l)).
Proof.
  induction l as [|y l IH]; intros seen; cbn [nub map]; [constructor|].
  destruct (has seen y); [apply IH|]. cbn [map]. constructor; [|apply IH].
  intros H. apply in_map_iff in H. destruct H as (x & Ex & Hx). apply nub_sub in Hx. destruct Hx as (_ & Hx).
  apply Hx. cbn [map In]. left. now symmetry.
Qed.

(* ---- lookups in a column with unique names ---- *)
Lemma md_find_self c n : NoDup (map key (ments c)) -> In n (ments c) -> md_find (ename n) c = Some n.
Proof.
  unfold md_find. induction (ments c) as [|x l IH]; intros Hnd Hin; [contradiction|]. cbn [find_first].
  cbn [map] in Hnd. inversion Hnd as [|k ks Hnin Hnd']. subst. destruct Hin as [->|Hin]; [now rewrite name_eqb_refl|].
  destruct (name_eqb (ename n) (ename x)) eqn:E; [|now apply IH].
  exfalso. apply Hnin. apply name_eqb_true in E. apply in_map_iff. exists n. split; [unfold key; exact E|exact Hin].
Qed.

Lemma md_find_some_iff name c : md_find name c <> None <-> In (cstr name) (map key (ments c)).
Proof.
  pose proof (md_find_none_iff name c) as H. destruct (md_find name c) eqn:E.
  - split; [intros _|congruence]. destruct (in_dec (list_eq_dec Z.eq_dec) (cstr name) (map key (ments c))) as [I|I]; [exact I|].
    apply H in I. discriminate.
  - split; [congruence|]. intros I. exfalso. now apply (proj1 H).
Qed.

Definition cn (n : mdent) : mdent := {| ename := cstr (ename n); evalue := evalue n; edflt := edflt n |}.

Lemma key_cn n : key (cn n) = key n.
Proof. unfold key, cn. cbn [ename]. apply cstr_idem. Qed.

Lemma map_key_cn l : map key (map cn l) = map key l.
Proof. rewrite map_map. apply map_ext. exact key_cn. Qed.

Lemma picked_app a b c : picked (a ++ b) c = picked a c ++ picked b c.
Proof. unfold picked. apply flat_map_app. Qed.

Lemma picked_none l c : (forall n, In n l -> ~ In (key n) (map key (ments c))) -> picked l c = [].
Proof.
  induction l as [|n l IH]; intros H; [reflexivity|]. cbn [picked flat_map]. fold (picked l c).
  assert (E : md_find (ename n) c = None) by (apply md_find_none_iff; apply H; now left).
  rewrite E. apply IH. intros x Hx. apply H. now right.
Qed.

Lemma picked_self l c : NoDup (map key (ments c)) -> (forall n, In n l -> In n (ments c)) -> picked l c = map cn l.
Proof.
  intros Hnd. induction l as [|n l IH]; intros H; [reflexivity|]. cbn [picked flat_map map]. fold (picked l c).
  rewrite (md_find_self c n Hnd (H n (or_introl eq_refl))). cbn [app]. f_equal. apply IH. intros x Hx. apply H. now right.
Qed.

Lemma picked_keys l c k : In k (map key (picked l c)) <-> In k (map key l) /\ In k (map key (ments c)).
Proof.
  induction l as [|n l IH]; [cbn; tauto|]. cbn [picked flat_map]. fold (picked l c). rewrite map_app, in_app_iff, IH. cbn [map In].
  destruct (md_find (ename n) c) as [e|] eqn:F.
  - cbn [map In].
    assert (Kk : key {| ename := cstr (ename n); evalue := evalue e; edflt := edflt n |} = key n) by (unfold key; cbn [ename]; apply cstr_idem).
    rewrite Kk.
    assert (In (key n) (map key (ments c))) by (apply md_find_some_iff; congruence).
    split; [intros [[<-|[]]|(A & B)]; tauto|intros ([<-|A] & B); tauto].
  - cbn [map In]. assert (~ In (key n) (map key (ments c))) by (now apply md_find_none_iff).
    split; [intros [[]|(A & B)]; tauto|intros ([<-|A] & B); tauto].
Qed.

Lemma NoDup_app_disjoint {A} (a b : list A) : NoDup (a ++ b) -> forall x, In x a -> In x b -> False.
Proof.
  induction a as [|y a IH]; intros H x Ha Hb; [contradiction|]. cbn [app] in H. inversion H as [|? ? Hn Hd]. subst.
  destruct Ha as [->|Ha]; [apply Hn; apply in_or_app; now right|now apply (IH Hd x)].
Qed.

(* ---- the main list fact ---- *)
Lemma nub_norm cols : forall seen seen' P K,
  K = P ++ nub seen (concat (map ments cols)) ->
  NoDup (map key K) ->
  (forall k, In k (map key seen) <-> In k (map key P)) ->
  (forall k, In k (map key seen') <-> In k (map key P)) ->
  Forall (fun c => NoDup (map key (ments c))) cols ->
  nub seen' (concat (map (fun c => picked K c) cols)) = map cn (nub seen (concat (map ments cols))).
Proof.
  induction cols as [|c cols IH]; intros seen seen' P K HK Hnd Hs Hs' Hc; cbn [map concat]; [reflexivity|].
  inversion Hc as [|? ? Hc1 Hc2]. subst x l.
  cbn [map concat] in HK. rewrite nub_app in HK.
  set (R := nub seen (ments c)) in *. set (rest := nub (rev (ments c) ++ seen) (concat (map ments cols))) in *.
  rewrite !nub_app, map_app. fold R. fold rest.
  (* keys of R: those of c not in seen; R is part of c *)
  assert (HR : forall x, In x R -> In x (ments c) /\ ~ In (key x) (map key P)).
  { intros x Hx. apply nub_sub in Hx. destruct Hx as (A & B). split; [exact A|]. intros C. apply B. now apply Hs. }
  assert (HcK : forall k, In k (map key (ments c)) -> In k (map key (P ++ R))).
  { intros k Hk. rewrite map_app, in_app_iff. destruct (nub_keys (ments c) seen k Hk) as [A|A]; [left; now apply Hs|now right]. }
  assert (HKnd : NoDup (map key P ++ map key R ++ map key rest)) by (rewrite HK, !map_app in Hnd; exact Hnd).
  (* the three parts of picked K c *)
  assert (E1 : nub seen' (picked P c) = []).
  { apply nub_all_seen. intros x Hx. apply Hs'. assert (In (key x) (map key (picked P c))) by now apply in_map.
    now apply picked_keys in H. }
  assert (E3 : picked rest c = []).
  { apply picked_none. intros n Hn Hin. apply HcK in Hin. rewrite map_app in Hin.
    rewrite app_assoc in HKnd. apply (NoDup_app_disjoint _ _ HKnd (key n)); [exact Hin|now apply in_map]. }
  assert (E2 : picked R c = map cn R) by (apply picked_self; [exact Hc1|intros n Hn; now apply HR]).
  subst K. rewrite !picked_app, E2, E3, app_nil_r. rewrite nub_app, E1. cbn [app].
  assert (E4 : nub (rev (picked P c) ++ seen') (map cn R) = map cn R).
  { apply nub_none_seen; [rewrite map_key_cn; apply nub_nodup|].
    intros x Hx Hin. apply in_map_iff in Hx. destruct Hx as (n & <- & Hn). rewrite key_cn in Hin.
    rewrite map_app, in_app_iff, map_rev, <- in_rev in Hin.
    apply (proj2 (HR n Hn)). destruct Hin as [A|A]; [now apply picked_keys in A|now apply Hs']. }
  rewrite E4. f_equal.
  subst rest.
  apply (IH (rev (ments c) ++ seen) (rev (picked P c ++ map cn R) ++ seen') (P ++ R)).
  - now rewrite <- app_assoc.
  - rewrite !map_app. exact HKnd.
  - intros k. rewrite !map_app, !in_app_iff, map_rev, <- in_rev. split.
    + intros [A|A]; [apply HcK in A; now rewrite map_app, in_app_iff in A|left; now apply Hs].
    + intros [A|A]; [right; now apply Hs|left]. apply in_map_iff in A. destruct A as (x & <- & Hx). apply in_map. now apply HR.
  - intros k. rewrite (map_app key (rev _) seen'), in_app_iff, map_rev, <- in_rev, (map_app key (picked P c)), in_app_iff, map_key_cn.
    rewrite (map_app key P R), in_app_iff. split.
    + intros [[A|A]|A]; [apply picked_keys in A; now left|now right|left; now apply Hs'].
    + intros [A|A]; [right; now apply Hs'|left; now right].
  - exact Hc2.
Qed.

(* ---- the read-back columns fold to the same name list ---- *)
Lemma in_picked names c a : In a (picked names c) ->
  exists n e, In n names /\ md_find (ename n) c = Some e /\ a = {| ename := cstr (ename n); evalue := evalue e; edflt := edflt n |}.
Proof.
  induction names as [|n names IH]; cbn [picked flat_map]; [contradiction|]. fold (picked names c). intros H. apply in_app_or in H.
  destruct H as [H|H].
  - destruct (md_find (ename n) c) as [e|] eqn:F; [|contradiction]. destruct H as [<-|[]]. exists n, e. split; [now left|]. split; [exact F|reflexivity].
  - destruct (IH H) as (n' & e & A & B & C). exists n', e. split; [now right|]. split; assumption.
Qed.

Lemma obj_eq_opt_refl d : (forall x, d = Some x -> obj_wf x) -> obj_eq_opt d d <> 0.
Proof.
  intros W. destruct d as [x|]; cbn [obj_eq_opt]; [|discriminate].
  assert (obj_eq x x = 1) by (apply obj_eq_iff; auto). lia.
Qed.

Lemma zlen_cstr_le s : zlen (cstr s) <= zlen s.
Proof.
  induction s as [|b s IH]; cbn [cstr]; [lia|]. destruct (b =? 0); rewrite ?zlen_cons; pose proof (zlen_nonneg s); cbn [zlen length] in *; try lia.
  unfold zlen. cbn [length]. lia.
Qed.

Lemma picked_nodup names c : NoDup (map key names) -> NoDup (map key (picked names c)).
Proof.
  induction names as [|n names IH]; intros H; cbn [picked flat_map]; [constructor|]. fold (picked names c).
  cbn [map] in H. inversion H as [|k ks Hnin Hnd]. subst. specialize (IH Hnd).
  destruct (md_find (ename n) c) as [e|]; [|exact IH]. cbn [app map]. constructor; [|exact IH].
  intros Hin. assert (Kk : key {| ename := cstr (ename n); evalue := evalue e; edflt := edflt n |} = key n) by (unfold key; cbn [ename]; apply cstr_idem).
  rewrite Kk in Hin. apply picked_keys in Hin. now apply Hnin.
Qed.

Theorem fold_norm cols names : Forall col_ok cols -> cols_dflt_wf cols -> fold_columns cols = Ok names ->
  fold_columns (map (norm names) cols) = Ok (map cn names).
Proof.
  intros Wc Wd F. destruct (fold_columns_spec cols names F Wd) as (Hnd & Hsub & Hcov).
  destruct (fold_gives_names_ok cols names Wc Wd F) as (Hn & Hok).
  pose proof (fold_loop_nub _ _ _ _ F) as EN. cbn [rev app] in EN.
  unfold fold_columns. rewrite map_map.
  assert (Em : map (fun c => ments (norm names c)) cols = map (fun c => picked names c) cols) by reflexivity. rewrite Em.
  rewrite fold_loop_ok.
  - cbn [rev app]. f_equal. transitivity (map cn (nub [] (concat (map ments cols)))); [|now rewrite <- EN].
    apply (nub_norm cols [] [] [] names).
    + exact EN.
    + exact Hnd.
    + intros k; tauto.
    + intros k; tauto.
    + rewrite Forall_forall in *. intros c Hc. now destruct (Wc c Hc).
  - cbn [app]. intros a b Ha Hb Sab.
    apply in_concat in Ha. destruct Ha as (la & Hla & Ha). apply in_map_iff in Hla. destruct Hla as (ca & <- & Hca).
    apply in_concat in Hb. destruct Hb as (lb & Hlb & Hb). apply in_map_iff in Hlb. destruct Hlb as (cb & <- & Hcb).
    apply in_picked in Ha. destruct Ha as (na & ea & Hna & Fa & ->). apply in_picked in Hb. destruct Hb as (nb & eb & Hnb & Fb & ->).
    unfold same_name in Sab. cbn [ename] in Sab. rewrite name_eqb_cstr_l, name_eqb_cstr_r in Sab. apply name_eqb_true in Sab.
    assert (na = nb) by (apply (NoDup_map_inj key names); assumption). subst nb.
    destruct (Hok ca Hca) as (_ & _ & Ta). destruct (Hok cb Hcb) as (_ & _ & Tb).
    split.
    + pose proof (Ta na ea Hna Fa) as A. pose proof (Tb na eb Hnb Fb) as B. unfold ent_type in *. cbn [evalue]. congruence.
    + cbn [edflt]. apply obj_eq_opt_refl. intros x Hx.
      unfold cols_dflt_wf in Wd. rewrite Forall_forall in Wd. exact (Wd na (Hsub na Hna) x Hx).
Qed.

(* names that came through the API (sbdf_md_add stores strlen-many bytes) have no embedded NUL *)
Definition names_plain (cols : list md) : Prop := forall c e, In c cols -> In e (ments c) -> cstr (ename e) = ename e.

Lemma cn_plain n : cstr (ename n) = ename n -> cn n = n.
Proof. intros H. unfold cn. rewrite H. now destruct n. Qed.

Theorem fold_norm_plain cols names : Forall col_ok cols -> cols_dflt_wf cols -> names_plain cols -> fold_columns cols = Ok names ->
  fold_columns (map (norm names) cols) = Ok names.
Proof.
  intros Wc Wd Hp F. rewrite (fold_norm cols names Wc Wd F). f_equal.
  destruct (fold_columns_spec cols names F Wd) as (_ & Hsub & _).
  rewrite <- (map_id names) at 2. apply map_ext_in. intros n Hn. apply cn_plain.
  apply Hsub in Hn. apply in_concat in Hn. destruct Hn as (l & Hl & Hn). apply in_map_iff in Hl. destruct Hl as (c & <- & Hc). now apply (Hp c).
Qed.

Section NormEnc.
Variable swp : bool.

Lemma md_find_cstr name c : md_find (cstr name) c = md_find name c.
Proof. unfold md_find. apply find_first_ext. intros x _. apply name_eqb_cstr_l. Qed.

Lemma enc_colvals_norm cols names c : Forall col_ok cols -> cols_dflt_wf cols -> fold_columns cols = Ok names -> In c cols ->
  enc_colvals swp names (norm names c) = enc_colvals swp names c.
Proof.
  intros Wc Wd F Hc. unfold enc_colvals. f_equal. apply map_ext. intros n. unfold enc_colval.
  pose proof (norm_same_content cols names c (ename n) Wc Wd F Hc) as H.
  destruct (md_find (ename n) c) as [e|], (md_find (ename n) (norm names c)) as [e'|]; try contradiction; [|reflexivity].
  destruct H as (-> & _). reflexivity.
Qed.

Lemma col_ok_norm cols names c : Forall col_ok cols -> cols_dflt_wf cols -> fold_columns cols = Ok names -> In c cols ->
  col_ok (norm names c).
Proof.
  intros Wc Wd F Hc. destruct (fold_columns_spec cols names F Wd) as (Hnd & Hsub & Hcov).
  destruct (fold_gives_names_ok cols names Wc Wd F) as (Hn & Hok). destruct (Hok c Hc) as (_ & _ & Tc).
  rewrite Forall_forall in Wc. destruct (Wc c Hc) as (We & _). rewrite Forall_forall in We.
  split; [|apply picked_nodup; exact Hnd]. apply Forall_forall. intros a Ha. cbn [norm ments] in Ha.
  apply in_picked in Ha. destruct Ha as (n & e & Hin & Fe & ->).
  destruct (md_find_in _ _ _ Fe) as (He & _). pose proof (We e He) as (Le & Ve). pose proof (Hn n Hin) as Wn. pose proof Wn as (Ln & _).
  split.
  - cbn [ename]. pose proof (zlen_cstr_le (ename n)). lia.
  - cbn [evalue edflt]. destruct (evalue e) as [v|] eqn:Ev; [|contradiction]. destruct Ve as (V1 & V2 & _). split; [exact V1|]. split; [exact V2|].
    destruct (edflt n) as [d|] eqn:Ed; [|exact I]. destruct (tentry_dflt n d Wn Ed) as (D1 & D2). split; [exact D1|].
    rewrite D2, <- (Tc n e Hin Fe). unfold ent_type. now rewrite Ev.
Qed.
End NormEnc.

(* every way the API builds a metadata list keeps names plain: md_add stores strlen-many bytes,
   md_remove only removes, md_copy copies entries *)
Definition md_plain (m : md) : Prop := forall e, In e (ments m) -> cstr (ename e) = ename e.

Lemma md_create_plain : md_plain md_create.
Proof. intros e []. Qed.

Lemma md_add_plain name v d m m' : md_plain m -> md_add name v d m = Ok m' -> md_plain m'.
Proof.
  unfold md_add. intros Hp H.
  destruct (negb (mmod m)); [discriminate|].
  destruct (match d with Some d0 => negb (oty v - oty d0 =? 0) | None => false end); [discriminate|].
  destruct (negb (ocount v =? 1) || match d with Some d0 => negb (ocount d0 =? 1) | None => false end); [discriminate|].
  destruct (md_find name m); [discriminate|].
  destruct (obj_copy v) as [v'|]; cbn in H; [|discriminate].
  destruct (match d with Some d0 => _ | None => Ok None end) as [d'|]; cbn in H; [|discriminate].
  inversion H. subst m'. intros e He. cbn [ments] in He. apply in_app_or in He. destruct He as [He|[<-|[]]]; [now apply Hp|].
  cbn [ename]. apply cstr_idem.
Qed.
