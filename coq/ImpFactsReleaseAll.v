(* ImpFactsReleaseAll.v - column slices that own what they hold (built by the reader), from the source:
   sbdf_cs_destroy_all / sbdf_cs_destroy with owned <> 0 hand the values and every property array to
   sbdf_va_destroy exactly once, in order, then release the slice's own blocks. *)
From Sbdf Require Import ImpCall Gen.Prog Gen.Consts Base BaseFacts ImpBase ImpFactsCells ImpFactsStrDestroy ImpFactsDestroy ImpFactsRelease.
From Coq Require Import ZifyBool.
Local Open Scope Z_scope.
Ltac Zify.zify_post_hook ::= Z.div_mod_to_equations.

Ltac eva := cbn [prog_env eval_args callee_init finish_call copy_in copy_out try_update update lookup combine map app String.append
                 String.eqb Ascii.eqb Bool.eqb fparams flocals fbody vars inb outb budget_var fail_var strm_var cells_var cell_token List.length Nat.eqb eval set_var cast
                 prog_sbdf_va_destroy prog_sbdf_cs_destroy prog_sbdf_cs_destroy_all truth binop_int b2z negb heap_of as_ptr storable fst snd];
  change (0 =? 0) with true; change (1 =? 0) with false; cbn [negb b2z].

(* what one sbdf_va_destroy does to the cell heap *)
Definition va_destroys (m : list Z) (h : heap) (vb : nat) (h' : heap) : Prop :=
  exists ty enc v1 o1 o2 h1 h2, va_block h vb ty enc v1 o1 o2 /\ destroys_opt m h o1 h1 /\ destroys_opt m h1 o2 h2 /\
     nth_error h1 vb = nth_error h vb /\ nth_error h2 vb = nth_error h vb /\ h' = kill vb h2.
Definition va_destroys_opt (m : list Z) (h : heap) (v : val) (h' : heap) : Prop :=
  (as_ptr v = VNull /\ h' = h) \/ (exists vb, as_ptr v = VCell vb 0 /\ va_destroys m h vb h').
(* ... to a list of arrays, one after the other, leaving the blocks in keep as they are *)
Fixpoint va_destroys_list (m : list Z) (keep : list nat) (h : heap) (cells : list val) (h' : heap) : Prop :=
  match cells with
  | [] => h' = h
  | c :: r => exists h1, va_destroys_opt m h c h1 /\ (forall b, In b keep -> nth_error h1 b = nth_error h b) /\ va_destroys_list m keep h1 r h'
  end.

Section ReleaseAll.
Variables (bv : val) (k : Z) (sx : list Z) (m o : list Z).

Lemma va_destroy_opt_bs h v h' : va_destroys_opt m h v h' ->
  bsE prog_env (fbody prog_sbdf_va_destroy) (fr [("handle"%string, as_ptr v)] bv k sx h m o) (ONormal (fr [("handle"%string, as_ptr v)] bv k sx h' m o)).
Proof.
  intros [(N & ->)|(vb & P & (ty & enc & v1 & o1 & o2 & h1 & h2 & Hv & D1 & D2 & K1 & K2 & ->))].
  - rewrite N. cbn [fbody prog_sbdf_va_destroy]. unfold fr. eapply bsE_if; [eva; reflexivity|reflexivity|apply bsE_skip].
  - rewrite P. apply (va_destroy_bs bv k sx m o h vb ty enc v1 o1 o2 h1 h2 Hv D1 D2 K1 K2).
Qed.

Lemma cs_props_loop cb pb n values names props owned pcells slack :
  forall rest done h h', pcells = done ++ rest ++ slack -> zlen done + zlen rest = n -> n < int_max ->
  cs_block h cb values n names props owned -> as_ptr props = VCell pb 0 -> nth_error h pb = Some (Some pcells) ->
  va_destroys_list m [cb; pb] h rest h' ->
  bsE prog_env
    (SWhile (EBin Lt (EVar "i") (ECellLoad (EVar "cs") (EConst 1) false))
       (SSeq (SCall None "sbdf_va_destroy" [(AVal (ECellLoad (ECellLoad (EVar "cs") (EConst 3) true) (EVar "i") true))]) (SExpr (EPreInc "i"))))
    (fr [("cs"%string, VCell cb 0); ("i"%string, VInt (zlen done))] bv k sx h m o)
    (ONormal (fr [("cs"%string, VCell cb 0); ("i"%string, VInt n)] bv k sx h' m o)).
Proof.
  induction rest as [|c rest IH]; intros done h h' Hp Hn Hmax Hc Hpr Hpb L; unfold fr; unfold cs_block in Hc; unfold int_max in Hmax.
  - cbn [va_destroys_list] in L. subst h'. change (zlen (@nil val)) with 0 in Hn. replace (zlen done) with n by lia.
    eapply bsE_while_f; [eva; chk7; eva; cellrw Hc; eva; rewrite Z.ltb_irrefl; reflexivity|reflexivity].
  - cbn [va_destroys_list] in L. destruct L as (h1 & D & K & L).
    pose proof (zlen_nonneg done) as Pd.
    assert (Hz : zlen (c :: rest) = 1 + zlen rest) by (unfold zlen; cbn [List.length]; lia). pose proof (zlen_nonneg rest) as Pr.
    assert (Hd : zlen done < n) by lia.
    assert (Hnth : nth_error pcells (Z.to_nat (0 + zlen done)) = Some c).
    { rewrite Hp. replace (Z.to_nat (0 + zlen done)) with (List.length done) by (unfold zlen; lia). rewrite nth_error_app2 by lia. rewrite Nat.sub_diag. reflexivity. }
    pose proof (va_destroy_opt_bs h c h1 D) as VD. unfold fr in VD. cbn [app] in VD.
    eapply bsE_while_t; [eva; chk7; eva; cellrw Hc; eva; replace (zlen done <? n) with true by lia; reflexivity|reflexivity| |].
    + eapply bsE_seq.
      * eapply bsE_call_void; [reflexivity
          |eva; chk7; eva; cellrw Hc; eva; rewrite Hpr; eva; unfold cell_get; rewrite Hpb; replace (0 <=? 0 + zlen done) with true by lia; rewrite Hnth; eva; reflexivity
          |reflexivity|eva; exact VD|eva; reflexivity].
      * eapply bsE_expr. eva. unfold incr. chk7. eva. reflexivity.
    + replace (zlen done + 1) with (zlen (done ++ [c])) by (rewrite zlen_app; reflexivity).
      apply (IH (done ++ [c]) h1 h'); [rewrite <- app_assoc; exact Hp|rewrite zlen_app; change (zlen [c]) with 1; lia|unfold int_max; exact Hmax| | |  |exact L].
      * unfold cs_block. rewrite (K cb) by (left; reflexivity). exact Hc.
      * exact Hpr.
      * rewrite (K pb) by (right; left; reflexivity). exact Hpb.
Qed.


Lemma cs_destroy_all_bs h cb values n names props owned pb pcells pused pslack h1 h2 h3 nb ncells used i0 :
  cs_block h cb values n names props owned -> n < int_max ->
  va_destroys_opt m h values h1 -> (forall b, In b [cb; pb] -> nth_error h1 b = nth_error h b) ->
  as_ptr props = VCell pb 0 -> nth_error h pb = Some (Some pcells) -> pcells = pused ++ pslack -> zlen pused = n ->
  va_destroys_list m [cb; pb] h1 pused h2 ->
  cell_set h2 cb 4 (VInt 0) = Some h3 ->
  (* what is left is a slice that does not own anything: sbdf_cs_destroy's business *)
  cs_block h3 cb values (zlen used) names props 0 -> as_ptr names = VCell nb 0 -> nth_error h3 nb = Some (Some ncells) ->
  elem_ptrs m used -> (exists slack, ncells = used ++ slack) -> zlen used < int_max ->
  nth_error h3 pb = Some (Some pcells) -> cb <> nb -> cb <> pb -> nb <> pb ->
  bsE prog_env (fbody prog_sbdf_cs_destroy_all) (fr [("cs"%string, VCell cb 0); ("i"%string, i0)] bv k sx h m o)
    (ONormal (fr [("cs"%string, VCell cb 0); ("i"%string, VInt n)] bv k sx (kill cb (kill pb (kill nb h3))) m o)).
Proof.
  intros Hc Hmax D1 K1 Hpr Hpb Hsplit Hn L E3 Hc3 Hnm Hnb3 Hel Hsl Hmax2 Hpb3 N1 N2 N3.
  assert (Hc1 : cs_block h1 cb values n names props owned) by (unfold cs_block in *; rewrite (K1 cb) by (left; reflexivity); exact Hc).
  assert (Hpb1 : nth_error h1 pb = Some (Some pcells)) by (rewrite (K1 pb) by (right; left; reflexivity); exact Hpb).
  pose proof (cs_props_loop cb pb n values names props owned pcells pslack pused [] h1 h2 (eq_trans Hsplit eq_refl) ltac:(change (zlen (@nil val)) with 0; lia) Hmax Hc1 Hpr Hpb1 L) as LOOP.
  change (zlen (@nil val)) with 0 in LOOP. unfold fr in LOOP. cbn [app] in LOOP.
  pose proof (va_destroy_opt_bs h values h1 D1) as VD. unfold fr in VD. cbn [app] in VD.
  pose proof (cs_destroy_bs bv k sx m o h3 cb values names props nb ncells used pb pcells VUndef Hc3 Hnm Hnb3 Hel Hsl Hmax2 Hpr Hpb3 N1 N2 N3) as CD. unfold fr in CD. cbn [app] in CD.
  unfold cs_block in Hc, Hc1. cbn [fbody prog_sbdf_cs_destroy_all]. unfold fr.
  (* the cs block after the property loop *)
  assert (Hc2 : exists blk, nth_error h2 cb = Some (Some blk)).
  { unfold cell_set in E3. destruct (nth_error h2 cb) as [[blk|]|]; try discriminate. eexists; reflexivity. }
  eapply bsE_seq.
  - eapply bsE_if; [eva; reflexivity|reflexivity|].
    eapply bsE_seq; [eapply bsE_decl0; eva; reflexivity|].
    eapply bsE_seq; [eapply bsE_call_void; [reflexivity|eva; chk7; eva; cellrw Hc; eva; reflexivity|reflexivity|eva; exact VD|eva; reflexivity]|].
    eapply bsE_seq.
    + eapply bsE_if; [eva; chk7; eva; cellrw Hc1; eva; rewrite Hpr; reflexivity|reflexivity|].
      eapply bsE_seq; [eapply bsE_expr; eva; chk7; eva; reflexivity|exact LOOP].
    + eapply bsE_expr. eva. chk7. eva. chk7. eva. replace (0 + 4) with 4 by lia. rewrite E3. eva. reflexivity.
  - eapply bsE_call_void; [reflexivity|eva; reflexivity|reflexivity|eva; exact CD|eva; reflexivity].
Qed.


(* sbdf_cs_destroy on a slice that owns its arrays: everything goes through sbdf_cs_destroy_all *)
Lemma cs_destroy_owned_bs h cb values n names props owned pb pcells pused pslack h1 h2 h3 nb ncells used i0 : owned <> 0 ->
  cs_block h cb values n names props owned -> n < int_max ->
  va_destroys_opt m h values h1 -> (forall b, In b [cb; pb] -> nth_error h1 b = nth_error h b) ->
  as_ptr props = VCell pb 0 -> nth_error h pb = Some (Some pcells) -> pcells = pused ++ pslack -> zlen pused = n ->
  va_destroys_list m [cb; pb] h1 pused h2 ->
  cell_set h2 cb 4 (VInt 0) = Some h3 ->
  cs_block h3 cb values (zlen used) names props 0 -> as_ptr names = VCell nb 0 -> nth_error h3 nb = Some (Some ncells) ->
  elem_ptrs m used -> (exists slack, ncells = used ++ slack) -> zlen used < int_max ->
  nth_error h3 pb = Some (Some pcells) -> cb <> nb -> cb <> pb -> nb <> pb ->
  bsE prog_env (fbody prog_sbdf_cs_destroy) (fr [("cs"%string, VCell cb 0); ("i"%string, i0)] bv k sx h m o)
    (OReturn (VInt 0) (fr [("cs"%string, VCell cb 0); ("i"%string, VUndef)] bv k sx (kill cb (kill pb (kill nb h3))) m o)).
Proof.
  intros Hown Hc Hmax D1 K1 Hpr Hpb Hsplit Hn L E3 Hc3 Hnm Hnb3 Hel Hsl Hmax2 Hpb3 N1 N2 N3.
  pose proof (cs_destroy_all_bs h cb values n names props owned pb pcells pused pslack h1 h2 h3 nb ncells used VUndef Hc Hmax D1 K1 Hpr Hpb Hsplit Hn L E3 Hc3 Hnm Hnb3 Hel Hsl Hmax2 Hpb3 N1 N2 N3) as ALL.
  unfold fr in ALL. cbn [app] in ALL. unfold cs_block in Hc. cbn [fbody prog_sbdf_cs_destroy]. unfold fr.
  eapply bsE_if; [eva; reflexivity|reflexivity|].
  eapply bsE_seq; [eapply bsE_decl0; eva; reflexivity|].
  eapply bsE_seq_ret. eapply bsE_if; [eva; chk7; eva; cellrw Hc; eva; reflexivity|cbn [truth]; destruct (owned =? 0) eqn:Z0; [lia|reflexivity]|].
  eapply bsE_seq; [eapply bsE_call_void; [reflexivity|eva; reflexivity|reflexivity|eva; exact ALL|eva; reflexivity]|].
  eapply bsE_return. eva. chk7. reflexivity.
Qed.

End ReleaseAll.

Theorem cs_destroy_owned_source k sx m h cb values n names props owned pb pcells pused pslack h1 h2 h3 nb ncells used : owned <> 0 ->
  cs_block h cb values n names props owned -> n < int_max ->
  va_destroys_opt m h values h1 -> (forall b, In b [cb; pb] -> nth_error h1 b = nth_error h b) ->
  as_ptr props = VCell pb 0 -> nth_error h pb = Some (Some pcells) -> pcells = pused ++ pslack -> zlen pused = n ->
  va_destroys_list m [cb; pb] h1 pused h2 ->
  cell_set h2 cb 4 (VInt 0) = Some h3 ->
  cs_block h3 cb values (zlen used) names props 0 -> as_ptr names = VCell nb 0 -> nth_error h3 nb = Some (Some ncells) ->
  elem_ptrs m used -> (exists slack, ncells = used ++ slack) -> zlen used < int_max ->
  nth_error h3 pb = Some (Some pcells) -> cb <> nb -> cb <> pb -> nb <> pb ->
  exists f0, forall f, (f0 <= f)%nat -> exists fin,
    callC prog_env f prog_sbdf_cs_destroy [VCell cb 0] m k sx h = OReturn (VInt 0) fin /\ inb fin = m /\
    lookup cells_var (vars fin) = Some (VHeap (kill cb (kill pb (kill nb h3)))).
Proof.
  intros. destruct (bsE_sound _ _ _ _ (cs_destroy_owned_bs (VInt 0) k sx m [] h cb values n names props owned pb pcells pused pslack h1 h2 h3 nb ncells used VUndef
     H H0 H1 H2 H3 H4 H5 H6 H7 H8 H9 H10 H11 H12 H13 H14 H15 H16 H17 H18 H19)) as (f0 & F).
  exists f0. intros f Hf. eexists. split; [apply F; exact Hf|]. split; reflexivity.
Qed.
