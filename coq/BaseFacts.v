(* BaseFacts.v — lemmas about Base.v: lengths, take/drop, little-endian 32-bit codec, comparisons. *)
From Sbdf Require Import Base.
From Coq Require Import ZifyBool.
Ltac Zify.zify_post_hook ::= Z.div_mod_to_equations.

Lemma zlen_nil {A} : zlen (@nil A) = 0.
Proof. reflexivity. Qed.

Lemma zlen_cons {A} (x : A) l : zlen (x :: l) = 1 + zlen l.
Proof. unfold zlen. cbn [length]. lia. Qed.

Lemma zlen_app {A} (a b : list A) : zlen (a ++ b) = zlen a + zlen b.
Proof. unfold zlen. rewrite app_length. lia. Qed.

Lemma zlen_nonneg {A} (l : list A) : 0 <= zlen l.
Proof. unfold zlen. lia. Qed.

Lemma zlen_map {A B} (f : A -> B) l : zlen (map f l) = zlen l.
Proof. unfold zlen. now rewrite map_length. Qed.

Lemma zlen_rev {A} (l : list A) : zlen (rev l) = zlen l.
Proof. unfold zlen. now rewrite rev_length. Qed.

Lemma zlen_repeat {A} (x : A) n : zlen (repeat x n) = Z.of_nat n.
Proof. unfold zlen. now rewrite repeat_length. Qed.

Lemma zlen_zero_nil {A} (l : list A) : zlen l = 0 -> l = [].
Proof. destruct l; [reflexivity|]. rewrite zlen_cons. pose proof (zlen_nonneg l). lia. Qed.

Lemma ztake_app_exact {A} (a b : list A) : ztake (zlen a) (a ++ b) = a.
Proof.
  unfold ztake, zlen. rewrite Nat2Z.id. rewrite firstn_app, Nat.sub_diag, firstn_all. cbn. apply app_nil_r.
Qed.

Lemma zdrop_app_exact {A} (a b : list A) : zdrop (zlen a) (a ++ b) = b.
Proof.
  unfold zdrop, zlen. rewrite Nat2Z.id. rewrite skipn_app, Nat.sub_diag, skipn_all. reflexivity.
Qed.

Lemma ztake_all {A} (l : list A) n : zlen l <= n -> ztake n l = l.
Proof. unfold ztake, zlen. intros H. apply firstn_all2. lia. Qed.

Lemma zlen_ztake {A} (l : list A) n : 0 <= n <= zlen l -> zlen (ztake n l) = n.
Proof. unfold ztake, zlen. intros H. rewrite firstn_length. lia. Qed.

Lemma zlen_zdrop {A} (l : list A) n : 0 <= n <= zlen l -> zlen (zdrop n l) = zlen l - n.
Proof. unfold zdrop, zlen. intros H. rewrite skipn_length. lia. Qed.

Lemma ztake_zdrop {A} (l : list A) n : ztake n l ++ zdrop n l = l.
Proof. unfold ztake, zdrop. apply firstn_skipn. Qed.

Lemma ztake_app_le {A} (a b : list A) n : n <= zlen a -> ztake n (a ++ b) = ztake n a.
Proof.
  unfold ztake, zlen. intros H. rewrite firstn_app.
  replace (Z.to_nat n - length a)%nat with 0%nat by lia. cbn. apply app_nil_r.
Qed.

Lemma ztake_app_ge {A} (a b : list A) n : zlen a <= n -> ztake n (a ++ b) = a ++ ztake (n - zlen a) b.
Proof.
  unfold ztake, zlen. intros H. rewrite firstn_app. rewrite firstn_all2 by lia.
  f_equal. f_equal. lia.
Qed.

Lemma ztake_neg {A} (l : list A) n : n <= 0 -> ztake n l = [].
Proof. unfold ztake. intros H. replace (Z.to_nat n) with 0%nat by lia. reflexivity. Qed.

Lemma zdrop_app_le {A} (a b : list A) n : 0 <= n <= zlen a -> zdrop n (a ++ b) = zdrop n a ++ b.
Proof.
  unfold zdrop, zlen. intros H. rewrite skipn_app.
  replace (Z.to_nat n - length a)%nat with 0%nat by lia. reflexivity.
Qed.

(* ---- list_eqb ---- *)

Lemma bytes_eqb_refl l : bytes_eqb l l = true.
Proof. unfold bytes_eqb. induction l as [|x l IH]; cbn [list_eqb]; [reflexivity|]. rewrite Z.eqb_refl, IH. reflexivity. Qed.

Lemma bytes_eqb_eq a b : bytes_eqb a b = true <-> a = b.
Proof.
  split.
  - unfold bytes_eqb. revert b. induction a as [|x a IH]; intros [|y b] H; cbn [list_eqb] in H; try discriminate; [reflexivity|].
    apply andb_true_iff in H. destruct H as [H1 H2]. apply Z.eqb_eq in H1. subst y. f_equal. apply IH. exact H2.
  - intros ->. apply bytes_eqb_refl.
Qed.

Lemma bytes_eqb_neq a b : bytes_eqb a b = false <-> a <> b.
Proof.
  split.
  - intros H E. apply bytes_eqb_eq in E. congruence.
  - intros H. destruct (bytes_eqb a b) eqn:E; [|reflexivity]. apply bytes_eqb_eq in E. contradiction.
Qed.

(* ---- little-endian 32-bit ---- *)

Lemma zlen_le32 v : zlen (le32 v) = 4.
Proof. reflexivity. Qed.

Lemma all_bytes_le32 v : all_bytes (le32 v) = true.
Proof.
  unfold le32, all_bytes, is_byte. cbn [forallb].
  repeat (apply andb_true_iff; split); try reflexivity; lia.
Qed.

Lemma de32_le32 v : -2147483648 <= v < 2147483648 -> de32 (le32 v) = v.
Proof.
  intros H. unfold de32, le32, to_i32, to_u32, le_dec.
  set (u := v mod 4294967296).
  assert (Hu : 0 <= u < 4294967296) by (subst u; lia).
  assert (E : u mod 256 + 256 * ((u / 256) mod 256 + 256 * ((u / 65536) mod 256 + 256 * ((u / 16777216) mod 256 + 256 * 0))) = u) by lia.
  rewrite E. subst u.
  destruct (v mod 4294967296 <? 2147483648) eqn:C; lia.
Qed.

Lemma le32_inj a b : -2147483648 <= a < 2147483648 -> -2147483648 <= b < 2147483648 -> le32 a = le32 b -> a = b.
Proof. intros Ha Hb E. rewrite <- (de32_le32 a Ha), <- (de32_le32 b Hb). now rewrite E. Qed.

Lemma le32_de32 b0 b1 b2 b3 :
  0 <= b0 < 256 -> 0 <= b1 < 256 -> 0 <= b2 < 256 -> 0 <= b3 < 256 ->
  le32 (de32 [b0; b1; b2; b3]) = [b0; b1; b2; b3].
Proof.
  intros H0 H1 H2 H3. unfold de32, le32, to_i32, to_u32, le_dec.
  set (u := b0 + 256 * (b1 + 256 * (b2 + 256 * (b3 + 256 * 0)))).
  assert (Hu : 0 <= u < 4294967296) by (subst u; lia).
  assert (E : (if u <? 2147483648 then u else u - 4294967296) mod 4294967296 = u)
    by (destruct (u <? 2147483648) eqn:C; lia).
  rewrite E. subst u.
  repeat f_equal; lia.
Qed.

Lemma de32_range bs : all_bytes bs = true -> zlen bs = 4 -> -2147483648 <= de32 bs < 2147483648.
Proof.
  intros Hb Hl.
  destruct bs as [|b0 [|b1 [|b2 [|b3 [|? ?]]]]]; try (cbn in Hl; discriminate).
  2:{ rewrite !zlen_cons in Hl. pose proof (zlen_nonneg l). lia. }
  unfold all_bytes, is_byte in Hb. cbn [forallb] in Hb.
  repeat match goal with H : _ && _ = true |- _ => apply andb_true_iff in H; destruct H end.
  unfold de32, to_i32, le_dec.
  destruct (_ <? 2147483648) eqn:C; lia.
Qed.

(* ---- cstr ---- *)

Lemma cstr_idem s : cstr (cstr s) = cstr s.
Proof.
  induction s as [|b s IH]; cbn [cstr]; [reflexivity|].
  destruct (b =? 0) eqn:E; cbn [cstr]; [reflexivity|]. rewrite E. now rewrite IH.
Qed.

Lemma cstr_nul_free s : forallb (fun b => negb (b =? 0)) s = true -> cstr s = s.
Proof.
  induction s as [|b s IH]; cbn; [reflexivity|]. intros H. apply andb_true_iff in H. destruct H as [H1 H2].
  destruct (b =? 0); [discriminate|]. now rewrite IH.
Qed.

(* ---- lex_cmp ---- *)

Lemma lex_cmp_refl a : lex_cmp a a = 0.
Proof. induction a as [|x a IH]; cbn; [reflexivity|]. rewrite Z.ltb_irrefl. exact IH. Qed.

Lemma lex_cmp_eq a b : lex_cmp a b = 0 <-> a = b.
Proof.
  split.
  - revert b. induction a as [|x a IH]; intros [|y b]; cbn; try discriminate; [reflexivity|].
    destruct (x <? y) eqn:C1; [discriminate|]. destruct (y <? x) eqn:C2; [discriminate|].
    intros H. assert (x = y) by lia. subst. f_equal. now apply IH.
  - intros ->. apply lex_cmp_refl.
Qed.

Lemma lex_cmp_antisym a b : lex_cmp b a = - lex_cmp a b.
Proof.
  revert b. induction a as [|x a IH]; intros [|y b]; cbn; try reflexivity.
  destruct (x <? y) eqn:C1; destruct (y <? x) eqn:C2; try reflexivity; try lia; try apply IH.
Qed.

Lemma lex_cmp_range a b : lex_cmp a b = -1 \/ lex_cmp a b = 0 \/ lex_cmp a b = 1.
Proof.
  revert b. induction a as [|x a IH]; intros [|y b]; cbn; auto.
  destruct (x <? y); auto. destruct (y <? x); auto.
Qed.

(* a proper prefix orders first *)
Lemma lex_cmp_prefix a b : b <> [] -> lex_cmp a (a ++ b) = -1.
Proof.
  intros Hb. induction a as [|x a IH]; cbn.
  - destruct b; [contradiction|reflexivity].
  - rewrite Z.ltb_irrefl. exact IH.
Qed.

Lemma lex_cmp_trans_lt a b c : lex_cmp a b = -1 -> lex_cmp b c = -1 -> lex_cmp a c = -1.
Proof.
  revert b c. induction a as [|x a IH]; intros [|y b] [|z c]; cbn; try discriminate; try reflexivity.
  destruct (x <? y) eqn:C1.
  - intros _. destruct (y <? z) eqn:C2.
    + intros _. assert (x <? z = true) by lia. now rewrite H.
    + destruct (z <? y) eqn:C3; [discriminate|]. intros _. assert (x <? z = true) by lia. now rewrite H.
  - destruct (y <? x) eqn:C2; [discriminate|]. intros H1.
    assert (x = y) by lia. subst y.
    destruct (x <? z) eqn:C3; [reflexivity|]. destruct (z <? x) eqn:C4; [discriminate|].
    intros H2. eapply IH; eassumption.
Qed.

(* ---- split_at ---- *)
Lemma split_at_app {A} (a b : list A) : split_at (length a) (a ++ b) = Some (a, b).
Proof. induction a as [|x a IH]; cbn [length split_at app]; [reflexivity|]. now rewrite IH. Qed.

Lemma split_at_short {A} (n : nat) (s : list A) : (length s < n)%nat -> split_at n s = None.
Proof.
  revert s. induction n as [|n IH]; intros s H; [lia|]. destruct s as [|x s]; [reflexivity|].
  cbn [split_at]. rewrite IH; [reflexivity|]. cbn in H. lia.
Qed.

Lemma split_at_firstn_skipn {A} (n : nat) (s : list A) a t : split_at n s = Some (a, t) -> a = firstn n s /\ t = skipn n s /\ length a = n.
Proof.
  revert s a t. induction n as [|n IH]; intros s a t H; cbn in H.
  - inversion H. subst. repeat split.
  - destruct s as [|x s]; [discriminate|]. destruct (split_at n s) as [[a' t']|] eqn:E; [|discriminate].
    inversion H. subst. destruct (IH s a' t E) as (E1 & E2 & E3). subst. cbn. repeat split; congruence.
Qed.

(* ---- take_z / drop_z ---- *)
Lemma take_z_app {A} (a b : list A) : take_z (a ++ b) (zlen a) = Some (a, b).
Proof.
  induction a as [|x a IH].
  - cbn [app zlen length Z.of_nat]. destruct b; reflexivity.
  - rewrite zlen_cons. cbn [app take_z]. pose proof (zlen_nonneg a).
    destruct (1 + zlen a =? 0) eqn:C; [lia|]. replace (1 + zlen a - 1) with (zlen a) by lia. now rewrite IH.
Qed.

Lemma take_z_short {A} (s : list A) : forall n, zlen s < n -> take_z s n = None.
Proof.
  induction s as [|x s IH]; intros n H.
  - cbn in H. cbn [take_z]. destruct (n =? 0) eqn:C; [lia|reflexivity].
  - rewrite zlen_cons in H. pose proof (zlen_nonneg s). cbn [take_z]. destruct (n =? 0) eqn:C; [lia|].
    rewrite IH by lia. reflexivity.
Qed.

Lemma drop_z_zdrop {A} (s : list A) : forall n, 0 <= n -> drop_z s n = zdrop n s.
Proof.
  induction s as [|x s IH]; intros n H.
  - unfold zdrop. rewrite skipn_nil. cbn [drop_z]. destruct (n <=? 0); reflexivity.
  - cbn [drop_z]. destruct (n <=? 0) eqn:C.
    + assert (n = 0) by lia. subst. reflexivity.
    + rewrite IH by lia. unfold zdrop. replace (Z.to_nat n) with (S (Z.to_nat (n - 1))) by lia. reflexivity.
Qed.

Lemma drop_z_app {A} (a b : list A) : drop_z (a ++ b) (zlen a) = b.
Proof. rewrite drop_z_zdrop by apply zlen_nonneg. apply zdrop_app_exact. Qed.

Lemma NoDup_app_single {A} (l : list A) x : NoDup l -> ~ In x l -> NoDup (l ++ [x]).
Proof.
  induction l as [|y l IH]; intros Hnd Hx; cbn [app].
  - constructor; [intros []|constructor].
  - inversion Hnd as [|? ? Hy Hl]. subst. constructor.
    + intros Hin. apply in_app_or in Hin. destruct Hin as [Hin|[<-|[]]]; [contradiction|]. apply Hx. now left.
    + apply IH; [exact Hl|]. intros Hin. apply Hx. now right.
Qed.
