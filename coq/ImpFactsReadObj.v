(* ImpFactsReadObj.v - sbdf_read_objects (src/object.c) from the source, elements of fixed size: the header struct, the
   data block, one bulk read, on every stream, count, memory, heap and allocation oracle. *)
From Sbdf Require Import ImpCall Gen.Prog Gen.Consts Base Prim BaseFacts LeafTie ImpBase ImpFactsCells ImpFactsDestroy ImpFactsSwapNoop.
From Coq Require Import ZifyBool.
Local Open Scope Z_scope.
Ltac Zify.zify_post_hook ::= Z.div_mod_to_equations.

Ltac evo := cbn [prog_env eval_args callee_init finish_call copy_in copy_out try_update update lookup combine map app String.append
                 String.eqb Ascii.eqb Bool.eqb fparams flocals vars inb outb budget_var fail_var strm_var cells_var cell_token List.length Nat.eqb eval set_var cast
                 truth binop_int b2z negb heap_of as_ptr storable fst snd leaf_call prog_sbdf_obj_destroy prog_sbdf_swap_le].

(* an object header whose data pointer is still null: sbdf_obj_destroy releases the header and nothing else *)
Section NoData.
Variables (bv : val) (k : Z) (sx : list Z) (m o : list Z).
Lemma obj_destroy_nodata_bs h ob ty cnt data i0 p0 : obj_block h ob ty cnt data -> as_ptr data = VNull ->
  bsE prog_env (fbody prog_sbdf_obj_destroy) (fr [("object"%string, VCell ob 0); ("i"%string, i0); ("ptr"%string, p0)] bv k sx h m o)
    (ONormal (fr [("object"%string, VCell ob 0); ("i"%string, i0); ("ptr"%string, p0)] bv k sx (kill ob h) m o)).
Proof.
  intros Hob Hd. unfold obj_block in Hob. cbn [fbody prog_sbdf_obj_destroy]. unfold fr.
  destruct (set_nth_v_some h ob _ None Hob) as (h3 & E3).
  assert (Hfin : kill ob h = h3) by (unfold kill; rewrite E3; reflexivity). rewrite Hfin.
  eapply bsE_if; [evc; reflexivity|reflexivity|].
  eapply bsE_seq.
  - eapply bsE_if; [evc; chk7; evc; cellrw Hob; evc; rewrite Hd; reflexivity|reflexivity|apply bsE_skip].
  - eapply bsE_expr. evc. rewrite Hob. evc. rewrite E3. evc. reflexivity.
Qed.
End NoData.

From Sbdf Require Import ImpFactsGrow.

Record rol := { o_dest : val; o_err : val; o_i : val; o_iss : val; o_len : val; o_sz : val; o_t : val; o_c1 : val; o_c2 : val }.
Definition rof (fv : val) (v cnt : Z) (ov : val) (pk : Z) (l : rol) (so bv : val) (k : Z) (sx : list Z) (h : heap) (m o : list Z) : state :=
  fr [("f", fv); ("v", VInt v); ("count", VInt cnt); ("object", ov); ("packed_array", VInt pk);
      ("dest", o_dest l); ("err", o_err l); ("i", o_i l); ("is_string", o_iss l); ("length", o_len l); ("sz", o_sz l); ("t", o_t l); ("$c1", o_c1 l); ("$c2", o_c2 l);
      ("*object", so)]%string bv k sx h m o.
Definition rol0 : rol := Build_rol VUndef VUndef VUndef VUndef VUndef VUndef VUndef VUndef VUndef.
Definition with_t (l : rol) (t : val) : rol := Build_rol (o_dest l) (o_err l) (o_i l) (o_iss l) (o_len l) (o_sz l) t (o_c1 l) (o_c2 l).
Definition with_sz (l : rol) (z : val) : rol := Build_rol (o_dest l) (o_err l) (o_i l) (o_iss l) (o_len l) z (o_t l) (o_c1 l) (o_c2 l).

Definition dec (k : Z) : Z := if 0 <? k then k - 1 else k.

Ltac unro := unfold rof, fr, with_t, with_sz, rol0; cbn [o_dest o_err o_i o_iss o_len o_sz o_t o_c1 o_c2 app].

Lemma cell_set_new (h : heap) blk i v blk' : 0 <= i -> set_nth_v (Z.to_nat i) v blk = Some blk' ->
  cell_set (h ++ [Some blk]) (List.length h) i v = Some (h ++ [Some blk']).
Proof. intros Hi E. unfold cell_set. rewrite nth_error_app_new. replace (0 <=? i) with true by lia. rewrite E. apply set_nth_v_app. Qed.
Lemma cell_get_new (h : heap) blk i : cell_get (h ++ [Some blk]) (List.length h) i = if 0 <=? i then nth_error blk (Z.to_nat i) else None.
Proof. unfold cell_get. rewrite nth_error_app_new. reflexivity. Qed.
Lemma kill_new (h : heap) x : kill (List.length h) (h ++ [x]) = h ++ [None].
Proof. unfold kill. rewrite set_nth_v_app. reflexivity. Qed.

Lemma cg0 (h : heap) a b c : cell_get (h ++ [Some [a; b; c]]) (List.length h) (0 + 0) = Some a.  Proof. rewrite cell_get_new. reflexivity. Qed.
Lemma cg1 (h : heap) a b c : cell_get (h ++ [Some [a; b; c]]) (List.length h) (0 + 1) = Some b.  Proof. rewrite cell_get_new. reflexivity. Qed.
Lemma cg2 (h : heap) a b c : cell_get (h ++ [Some [a; b; c]]) (List.length h) (0 + 2) = Some c.  Proof. rewrite cell_get_new. reflexivity. Qed.
Ltac cg := rewrite ?cg0, ?cg1, ?cg2.

Lemma fill_part (m : list Z) n got : (List.length got <= n)%nat ->
  upd_range (Z.to_nat (zlen m)) got (m ++ repeat junk n) = m ++ got ++ repeat junk (n - List.length got).
Proof.
  intros H. unfold zlen. rewrite Nat2Z.id. replace n with (List.length got + (n - List.length got))%nat at 1 by lia. rewrite repeat_app.
  apply upd_range_at. apply repeat_length.
Qed.
Lemma fill_all (m : list Z) n got : List.length got = n -> upd_range (Z.to_nat (zlen m)) got (m ++ repeat junk n) = m ++ got.
Proof. intros H. rewrite fill_part by lia. rewrite H, Nat.sub_diag. cbn [repeat]. now rewrite app_nil_r. Qed.

Lemma usize_range v : -3 <= usize v <= 16.
Proof. unfold usize, SBDF_ERROR_UNKNOWN_TYPEID. repeat match goal with |- context [if ?b then _ else _] => destruct b end; lia. Qed.

Section ReadObj.
Variables (bv : val) (sx : list Z) (m o : list Z) (rf rp : region) (fo po : Z).
Notation fv := (VPtr rf fo).
Notation ov := (VPtr rp po).

(* the function after the header struct has been allocated and filled *)
Definition body_of (b : stmt) : stmt := match b with SSeq _ (SSeq _ (SSeq _ (SSeq _ (SSeq _ (SSeq _ (SSeq _ (SSeq _ d))))))) => d | _ => SSkip end.

(* a negative count: refused before anything is allocated *)
Lemma read_objects_negative k h v cnt pk l so : cnt < 0 -> int_min <= cnt ->
  bsE prog_env (fbody prog_sbdf_read_objects) (rof fv v cnt ov pk l so bv k sx h m o)
    (OReturn (VInt SBDF_ERROR_INVALID_SIZE) (rof fv v cnt ov pk (with_t l VUndef) VNull bv k sx h m o)).
Proof.
  intros Hc Hc2. destruct l. cbn [fbody prog_sbdf_read_objects]. unro.
  eapply bsE_seq; [eapply bsE_decl0; evo; reflexivity|]. eapply bsE_seq; [eapply bsE_expr; evo; reflexivity|].
  eapply bsE_seq; [eapply bsE_if; [evo; reflexivity|reflexivity|apply bsE_skip]|].
  eapply bsE_seq_ret. eapply bsE_if; [evo; chk7; evo; replace (cnt <? 0) with true by lia; reflexivity|reflexivity|]. eapply bsE_return. evo. chk7. reflexivity.
Qed.

(* the header allocation fails: nothing has changed but the oracle *)
Lemma read_objects_oom0 h v cnt pk l so : 0 <= cnt <= int_max ->
  bsE prog_env (fbody prog_sbdf_read_objects) (rof fv v cnt ov pk l so bv 0 sx h m o)
    (OReturn (VInt SBDF_ERROR_OUT_OF_MEMORY) (rof fv v cnt ov pk (with_t l VNull) VNull bv (-1) sx h m o)).
Proof.
  intros Hc. destruct l. cbn [fbody prog_sbdf_read_objects]. unro.
  eapply bsE_seq; [eapply bsE_decl0; evo; reflexivity|]. eapply bsE_seq; [eapply bsE_expr; evo; reflexivity|].
  eapply bsE_seq; [eapply bsE_if; [evo; reflexivity|reflexivity|apply bsE_skip]|].
  eapply bsE_seq; [eapply bsE_if; [evo; chk7; evo; replace (cnt <? 0) with false by lia; reflexivity|reflexivity|apply bsE_skip]|].
  eapply bsE_seq; [eapply bsE_expr; evo; chk7; evo; reflexivity|].
  eapply bsE_seq_ret. eapply bsE_if; [evo; reflexivity|reflexivity|]. eapply bsE_return. evo. chk7. reflexivity.
Qed.

(* the header allocated and filled: what remains to be run *)
Lemma read_objects_pre k h v cnt pk l so oo : 0 <= cnt <= int_max -> k <> 0 ->
  bsE prog_env (body_of (fbody prog_sbdf_read_objects))
      (rof fv v cnt ov pk (with_t l (VCell (List.length h) 0)) VNull bv (dec k) sx (h ++ [Some [VInt v; VInt cnt; VInt 0]]) m o) oo ->
  bsE prog_env (fbody prog_sbdf_read_objects) (rof fv v cnt ov pk l so bv k sx h m o) oo.
Proof.
  intros Hc Hk B. destruct l. cbn [fbody prog_sbdf_read_objects body_of] in *. unfold dec in B. revert B. unro. intros B.
  eapply bsE_seq; [eapply bsE_decl0; evo; reflexivity|]. eapply bsE_seq; [eapply bsE_expr; evo; reflexivity|].
  eapply bsE_seq; [eapply bsE_if; [evo; reflexivity|reflexivity|apply bsE_skip]|].
  eapply bsE_seq; [eapply bsE_if; [evo; chk7; evo; replace (cnt <? 0) with false by lia; reflexivity|reflexivity|apply bsE_skip]|].
  eapply bsE_seq; [eapply bsE_expr; evo; chk7; evo; replace (k =? 0) with false by lia; evo; reflexivity|].
  eapply bsE_seq; [eapply bsE_if; [evo; reflexivity|reflexivity|apply bsE_skip]|].
  eapply bsE_seq; [eapply bsE_expr; evo; chk7; evo; erewrite cell_set_new; [|lia|reflexivity]; evo; reflexivity|].
  eapply bsE_seq; [eapply bsE_expr; evo; chk7; evo; erewrite cell_set_new; [|lia|reflexivity]; evo; reflexivity|].
  exact B.
Qed.

Lemma not_arr_usize v : is_arr v = false -> usize v <> 0.
Proof.
  unfold is_arr, usize, SBDF_STRINGTYPEID, SBDF_BINARYTYPEID, SBDF_ERROR_UNKNOWN_TYPEID. intros H.
  repeat match goal with |- context [if ?b then _ else _] => destruct b eqn:? end; lia.
Qed.

Ltac destroy_call D := eapply bsE_call_void; [reflexivity|evo; reflexivity|reflexivity|exact D|unfold fr; evo; reflexivity].

(* an unknown element type: the header is released again, the status is the leaf function's *)
Lemma read_objects_unknown_type k h v cnt pk l so : 0 <= cnt <= int_max -> k <> 0 -> is_arr v = false -> usize v < 0 ->
  exists l', bsE prog_env (fbody prog_sbdf_read_objects) (rof fv v cnt ov pk l so bv k sx h m o)
    (OReturn (VInt (usize v)) (rof fv v cnt ov pk l' VNull bv (dec k) sx (h ++ [None]) m o)).
Proof.
  intros Hc Hk Ha Hu. pose proof (tie_is_arr v) as TA. rewrite Ha in TA. pose proof (tie_packed_size v) as TP.
  pose proof (obj_destroy_nodata_bs bv (dec k) sx m o (h ++ [Some [VInt v; VInt cnt; VInt 0]]) (List.length h) v cnt (VInt 0) VUndef VUndef
                ltac:(unfold obj_block; apply nth_error_app_new) eq_refl) as D. rewrite kill_new in D.
  destruct l. eexists (Build_rol _ _ _ _ _ _ _ _ _). apply read_objects_pre; [exact Hc|exact Hk|].
  cbn [fbody prog_sbdf_read_objects body_of]. unro.
  eapply bsE_seq_ret. eapply bsE_if; [evo; chk7; evo; cg; evo; rewrite TA; reflexivity|reflexivity|].
  eapply bsE_seq; [eapply bsE_decl1; [evo; rewrite TP; reflexivity|evo; reflexivity]|].
  eapply bsE_seq_ret. eapply bsE_if; [evo; chk7; evo; replace (usize v <? 0) with true by lia; reflexivity|reflexivity|].
  eapply bsE_seq; [destroy_call D|]. eapply bsE_return. evo. reflexivity.
Qed.

(* the data block cannot be allocated: the header is released again *)
Lemma read_objects_oom1 h v cnt pk l so : 0 <= cnt <= int_max -> is_arr v = false -> 0 < usize v ->
  exists l', bsE prog_env (fbody prog_sbdf_read_objects) (rof fv v cnt ov pk l so bv 1 sx h m o)
    (OReturn (VInt SBDF_ERROR_OUT_OF_MEMORY) (rof fv v cnt ov pk l' VNull bv (-1) sx (h ++ [None]) m o)).
Proof.
  intros Hc Ha Hu. pose proof (tie_is_arr v) as TA. rewrite Ha in TA. pose proof (tie_packed_size v) as TP. pose proof (usize_range v) as UR.
  pose proof (obj_destroy_nodata_bs bv (-1) sx m o (h ++ [Some [VInt v; VInt cnt; VNull]]) (List.length h) v cnt VNull VUndef VUndef
                ltac:(unfold obj_block; apply nth_error_app_new) eq_refl) as D. rewrite kill_new in D.
  destruct l. eexists (Build_rol _ _ _ _ _ _ _ _ _). apply read_objects_pre; [exact Hc|lia|].
  cbn [fbody prog_sbdf_read_objects body_of]. unro. change (dec 1) with 0.
  eapply bsE_seq_ret. eapply bsE_if; [evo; chk7; evo; cg; evo; rewrite TA; reflexivity|reflexivity|].
  eapply bsE_seq; [eapply bsE_decl1; [evo; rewrite TP; reflexivity|evo; reflexivity]|].
  eapply bsE_seq; [eapply bsE_if; [evo; chk7; evo; replace (usize v <? 0) with false by lia; reflexivity|reflexivity|
                   eapply bsE_if; [evo; chk7; evo; replace (usize v =? 0) with false by lia; reflexivity|reflexivity|apply bsE_skip]]|].
  eapply bsE_seq.
  { eapply bsE_expr. evo. chk7. evo. replace (0 <=? usize v) with true by lia. evo. replace (0 <=? cnt) with true by lia. evo.
    replace (0 <=? usize v) with true by lia. replace (0 <=? cnt) with true by lia. cbn [andb]. evo.
    rewrite (Z.mod_small (usize v * cnt)) by (unfold int_max in *; nia). replace (0 <=? usize v * cnt) with true by nia. evo. change (0 =? 0) with true. cbv iota. evo.
    erewrite cell_set_new; [|lia|reflexivity]. evo. reflexivity. }
  eapply bsE_seq_ret. eapply bsE_if; [evo; chk7; evo; cg; evo; reflexivity|reflexivity|].
  eapply bsE_seq; [destroy_call D|]. eapply bsE_return. evo. chk7. reflexivity.
Qed.

(* what is left to run once the data block exists: the bulk read and the byte-order pass *)
Definition fixed_rest : stmt :=
  (SSeq (SIf (ELNot (ECellLoad (EVar "t") (EConst 2) true)) (SSeq (SCall None "sbdf_obj_destroy" [AVal (EVar "t")]) (SReturn (EBin Sub (EConst 0) (EConst 2)))) SSkip)
     (SSeq (SIf (EBin Ne (EReadItems (ECellLoad (EVar "t") (EConst 2) true) (ECast TSizeT (EVar "sz")) (ECast TSizeT (EVar "count"))) (ECast TSizeT (EVar "count")))
                (SSeq (SCall None "sbdf_obj_destroy" [AVal (EVar "t")]) (SReturn (EBin Sub (EConst 0) (EConst 4)))) SSkip)
           (SCall None "sbdf_swap" [AVal (ECellLoad (EVar "t") (EConst 2) true); AVal (EVar "sz"); AVal (EVar "count")])))%string.

Definition st_alloc (k : Z) (h : heap) (v cnt pk : Z) (l : rol) : state :=
  rof fv v cnt ov pk (with_sz (with_t l (VCell (List.length h) 0)) (VInt (usize v))) VNull bv (dec (dec k)) sx
      (h ++ [Some [VInt v; VInt cnt; VPtr RIn (zlen m)]]) (m ++ repeat junk (Z.to_nat (usize v * cnt))) o.

Ltac to_alloc TA TP T HT Hk1 :=
  eapply bsE_seq; [eapply bsE_decl1; [evo; rewrite TP; reflexivity|evo; reflexivity]|];
  eapply bsE_seq; [eapply bsE_if; [evo; chk7; evo; replace (usize _ <? 0) with false by lia; reflexivity|reflexivity|
                   eapply bsE_if; [evo; chk7; evo; replace (usize _ =? 0) with false by lia; reflexivity|reflexivity|apply bsE_skip]]|];
  eapply bsE_seq; [eapply bsE_expr; evo; chk7; evo; replace (0 <=? usize _) with true by lia; evo; replace (0 <=? _) with true by lia; evo;
    replace (0 <=? usize _) with true by lia; replace (0 <=? _) with true by lia; cbn [andb]; evo; fold T;
    rewrite (Z.mod_small T) by lia; replace (0 <=? T) with true by lia; evo; replace (dec _ =? 0) with false by lia;
    match goal with |- context [0 <? dec ?k] => let E0 := fresh "E0" in let K2 := fresh "K2" in destruct (0 <? dec k) eqn:E0;
      [assert (K2 : dec (dec k) = dec k - 1) by (unfold dec at 1; rewrite E0; reflexivity)|assert (K2 : dec (dec k) = dec k) by (unfold dec at 1; rewrite E0; reflexivity)];
      rewrite <- K2; clear K2 E0 end; rewrite zlen_length; evo; (erewrite cell_set_new; [|lia|reflexivity]); evo; reflexivity|].

Lemma read_objects_fixed_ret k h v cnt pk l so rv s' : 0 <= cnt <= int_max -> is_arr v = false -> 0 < usize v -> k <> 0 -> dec k <> 0 ->
  bsE prog_env fixed_rest (st_alloc k h v cnt pk l) (OReturn rv s') ->
  bsE prog_env (fbody prog_sbdf_read_objects) (rof fv v cnt ov pk l so bv k sx h m o) (OReturn rv s').
Proof.
  intros Hc Ha Hu Hk Hk1 B. pose proof (tie_is_arr v) as TA. rewrite Ha in TA. pose proof (tie_packed_size v) as TP. pose proof (usize_range v) as UR.
  unfold st_alloc in B. set (T := usize v * cnt) in *. assert (HT : 0 <= T < 18446744073709551616) by (unfold T, int_max in *; nia).
  destruct l. apply read_objects_pre; [exact Hc|exact Hk|].
  cbn [fbody prog_sbdf_read_objects body_of]. revert B. unro. intros B.
  eapply bsE_seq_ret. eapply bsE_if; [evo; chk7; evo; cg; evo; rewrite TA; reflexivity|reflexivity|].
  to_alloc TA TP T HT Hk1. exact B.
Qed.

Lemma read_objects_fixed_norm k h v cnt pk l so l' k' sx' h' m' : 0 <= cnt <= int_max -> is_arr v = false -> 0 < usize v -> k <> 0 -> dec k <> 0 ->
  bsE prog_env fixed_rest (st_alloc k h v cnt pk l) (ONormal (rof fv v cnt ov pk l' VNull bv k' sx' h' m' o)) -> storable (o_t l') = true ->
  bsE prog_env (fbody prog_sbdf_read_objects) (rof fv v cnt ov pk l so bv k sx h m o) (OReturn (VInt SBDF_OK) (rof fv v cnt ov pk l' (o_t l') bv k' sx' h' m' o)).
Proof.
  intros Hc Ha Hu Hk Hk1 B St. pose proof (tie_is_arr v) as TA. rewrite Ha in TA. pose proof (tie_packed_size v) as TP. pose proof (usize_range v) as UR.
  unfold st_alloc in B. set (T := usize v * cnt) in *. assert (HT : 0 <= T < 18446744073709551616) by (unfold T, int_max in *; nia).
  destruct l, l'. cbn [o_t] in *. apply read_objects_pre; [exact Hc|exact Hk|].
  cbn [fbody prog_sbdf_read_objects body_of]. revert B. unro. intros B.
  eapply bsE_seq; [eapply bsE_if; [evo; chk7; evo; cg; evo; rewrite TA; reflexivity|reflexivity|]|].
  - to_alloc TA TP T HT Hk1. exact B.
  - eapply bsE_seq; [eapply bsE_expr; evo; destruct o_t1; try discriminate St; evo; reflexivity|]. eapply bsE_return. evo. chk7. reflexivity.
Qed.

Lemma fixed_rest_ok k h v cnt pk l : 0 <= cnt <= int_max -> 0 < usize v -> usize v * cnt <= zlen sx ->
  bsE prog_env fixed_rest (st_alloc k h v cnt pk l)
    (ONormal (rof fv v cnt ov pk (with_sz (with_t l (VCell (List.length h) 0)) (VInt (usize v))) VNull bv (dec (dec k)) (skipn (Z.to_nat (usize v * cnt)) sx)
                  (h ++ [Some [VInt v; VInt cnt; VPtr RIn (zlen m)]]) (m ++ firstn (Z.to_nat (usize v * cnt)) sx) o)).
Proof.
  intros Hc Hu Hlen. pose proof (usize_range v) as UR. unfold st_alloc, fixed_rest.
  set (T := usize v * cnt) in *. assert (HT : 0 <= T < 18446744073709551616) by (unfold T, int_max in *; nia).
  destruct l. unro.
  eapply bsE_seq; [eapply bsE_if; [evo; chk7; evo; cg; evo; reflexivity|reflexivity|apply bsE_skip]|].
  eapply bsE_seq.
  { eapply bsE_if.
    - evo. chk7. evo. cg. evo. replace (0 <=? usize v) with true by lia. evo. replace (0 <=? cnt) with true by lia. evo.
      fold T. rewrite app_length, repeat_length, Nat2Z.inj_add, zlen_length, Z2Nat.id by lia.
      replace ((0 <? usize v) && (0 <=? cnt) && (T <? 18446744073709551616) && (0 <=? zlen m) && (zlen m + T <=? zlen m + T)) with true by (pose proof (zlen_nonneg m); lia).
      assert (HL : List.length (firstn (Z.to_nat T) sx) = Z.to_nat T) by (rewrite firstn_length; unfold zlen in Hlen; lia).
      rewrite HL, Z2Nat.id by lia. rewrite (fill_all m (Z.to_nat T) _ HL).
      replace (T / usize v) with cnt by (unfold T; rewrite Z.mul_comm, Z.div_mul by lia; reflexivity).
      evo. replace (0 <=? cnt) with true by lia. evo. rewrite Z.eqb_refl. reflexivity.
    - reflexivity.
    - apply bsE_skip. }
  eapply swap_noop_call; [evo; chk7; evo; cg; evo; reflexivity|reflexivity|evo; reflexivity].
Qed.

(* the stream ends inside the elements: header and data block are released, the status is the I/O error *)
Lemma fixed_rest_short k h v cnt pk l : 0 <= cnt <= int_max -> is_arr v = false -> 0 < usize v -> zlen sx < usize v * cnt ->
  exists l' m', bsE prog_env fixed_rest (st_alloc k h v cnt pk l)
    (OReturn (VInt SBDF_ERROR_IO) (rof fv v cnt ov pk l' VNull bv (dec (dec k)) [] (h ++ [None]) (m ++ m') o)).
Proof.
  intros Hc Ha Hu Hlen. pose proof (usize_range v) as UR. pose proof (tie_is_arr v) as TA. rewrite Ha in TA. unfold st_alloc, fixed_rest.
  set (T := usize v * cnt) in *. assert (HT : 0 <= T < 18446744073709551616) by (unfold T, int_max in *; nia).
  assert (HL : List.length (firstn (Z.to_nat T) sx) = List.length sx) by (rewrite firstn_length; unfold zlen in Hlen; lia).
  assert (HG : firstn (Z.to_nat T) sx = sx) by (apply firstn_all2; unfold zlen in Hlen; lia).
  assert (HS : skipn (Z.to_nat T) sx = []) by (apply skipn_all2; unfold zlen in Hlen; lia).
  set (m2 := m ++ sx ++ repeat junk (Z.to_nat T - List.length sx)).
  pose proof (obj_destroy_fixed_bs bv (dec (dec k)) [] m2 o (h ++ [Some [VInt v; VInt cnt; VPtr RIn (zlen m)]]) (List.length h) v cnt (VPtr RIn (zlen m)) (zlen m) VUndef VUndef
                ltac:(unfold obj_block; apply nth_error_app_new) eq_refl ltac:(unfold m2; rewrite zlen_app; pose proof (zlen_nonneg m); pose proof (zlen_nonneg (sx ++ repeat junk (Z.to_nat T - List.length sx))); lia) TA) as D.
  rewrite kill_new in D.
  destruct l. eexists (Build_rol _ _ _ _ _ _ _ _ _), _. unro.
  eapply bsE_seq; [eapply bsE_if; [evo; chk7; evo; cg; evo; reflexivity|reflexivity|apply bsE_skip]|].
  eapply bsE_seq_ret. eapply bsE_if.
  - evo. chk7. evo. cg. evo. replace (0 <=? usize v) with true by lia. evo. replace (0 <=? cnt) with true by lia. evo.
    fold T. rewrite app_length, repeat_length, Nat2Z.inj_add, zlen_length, Z2Nat.id by lia.
    replace ((0 <? usize v) && (0 <=? cnt) && (T <? 18446744073709551616) && (0 <=? zlen m) && (zlen m + T <=? zlen m + T)) with true by (pose proof (zlen_nonneg m); lia).
    rewrite HS, HG. rewrite (fill_part m (Z.to_nat T) sx) by (unfold zlen in Hlen; lia). fold m2.
    evo. replace (0 <=? cnt) with true by lia. evo. reflexivity.
  - cbn [truth b2z]. rewrite zlen_length. replace (zlen sx / usize v =? cnt) with false by (pose proof (zlen_nonneg sx); unfold T in Hlen; nia). reflexivity.
  - eapply bsE_seq; [destroy_call D|]. eapply bsE_return. evo. chk7. reflexivity.
Qed.
End ReadObj.

(* ---- as a top-level call: every outcome of reading an array of fixed-size elements ---- *)
Definition fixed_status (k : Z) (sx : list Z) (v cnt : Z) : Z :=
  if cnt <? 0 then SBDF_ERROR_INVALID_SIZE else if k =? 0 then SBDF_ERROR_OUT_OF_MEMORY else if usize v <? 0 then usize v
  else if k =? 1 then SBDF_ERROR_OUT_OF_MEMORY else if zlen sx <? usize v * cnt then SBDF_ERROR_IO else SBDF_OK.

Lemma read_objects_fixed_bs bv o rf rp fo po k sx m h v cnt pk so : int_min <= cnt <= int_max -> is_arr v = false ->
  exists l' so' k' sx' h' m',
    bsE prog_env (fbody prog_sbdf_read_objects) (rof (VPtr rf fo) v cnt (VPtr rp po) pk rol0 so bv k sx h m o)
      (OReturn (VInt (fixed_status k sx v cnt)) (rof (VPtr rf fo) v cnt (VPtr rp po) pk l' so' bv k' sx' h' m' o)) /\ storable so' = true /\
    (fixed_status k sx v cnt = SBDF_OK ->
       so' = VCell (List.length h) 0 /\ h' = h ++ [Some [VInt v; VInt cnt; VPtr RIn (zlen m)]] /\
       m' = m ++ firstn (Z.to_nat (usize v * cnt)) sx /\ sx' = skipn (Z.to_nat (usize v * cnt)) sx /\ k' = dec (dec k)) /\
    (fixed_status k sx v cnt <> SBDF_OK -> so' = VNull /\ (h' = h \/ h' = h ++ [None]) /\ exists mm, m' = m ++ mm).
Proof.
  intros Hc Ha. unfold fixed_status.
  destruct (cnt <? 0) eqn:E0.
  { do 6 eexists. split; [apply (read_objects_negative bv sx m o rf rp fo po k h v cnt pk rol0 so ltac:(lia) ltac:(lia))|].
    split; [reflexivity|]. split; [discriminate|]. intros _. split; [reflexivity|]. split; [left; reflexivity|exists []; now rewrite app_nil_r]. }
  destruct (k =? 0) eqn:E1.
  { assert (k = 0) by lia. subst k. do 6 eexists. split; [apply (read_objects_oom0 bv sx m o rf rp fo po h v cnt pk rol0 so ltac:(lia))|].
    split; [reflexivity|]. split; [discriminate|]. intros _. split; [reflexivity|]. split; [left; reflexivity|exists []; now rewrite app_nil_r]. }
  destruct (usize v <? 0) eqn:E2.
  { destruct (read_objects_unknown_type bv sx m o rf rp fo po k h v cnt pk rol0 so ltac:(lia) ltac:(lia) Ha ltac:(lia)) as (l' & B).
    do 6 eexists. split; [exact B|]. split; [reflexivity|]. split; [intros E; unfold SBDF_OK in E; lia|]. intros _. split; [reflexivity|]. split; [right; reflexivity|exists []; now rewrite app_nil_r]. }
  pose proof (not_arr_usize v Ha) as Hnz. assert (Hu : 0 < usize v) by lia.
  destruct (k =? 1) eqn:E3.
  { assert (k = 1) by lia. subst k.
    destruct (read_objects_oom1 bv sx m o rf rp fo po h v cnt pk rol0 so ltac:(lia) Ha Hu) as (l' & B).
    do 6 eexists. split; [exact B|]. split; [reflexivity|]. split; [discriminate|]. intros _. split; [reflexivity|]. split; [right; reflexivity|exists []; now rewrite app_nil_r]. }
  assert (Hk : k <> 0) by lia. assert (Hk1 : dec k <> 0) by (unfold dec; destruct (0 <? k) eqn:?; lia).
  destruct (zlen sx <? usize v * cnt) eqn:E4.
  { destruct (fixed_rest_short bv sx m o rf rp fo po k h v cnt pk rol0 ltac:(lia) Ha Hu ltac:(lia)) as (l' & mm & B).
    pose proof (read_objects_fixed_ret bv sx m o rf rp fo po k h v cnt pk rol0 so _ _ ltac:(lia) Ha Hu Hk Hk1 B) as B2.
    do 6 eexists. split; [exact B2|]. split; [reflexivity|]. split; [discriminate|]. intros _. split; [reflexivity|]. split; [right; reflexivity|exists mm; reflexivity]. }
  pose proof (fixed_rest_ok bv sx m o rf rp fo po k h v cnt pk rol0 ltac:(lia) Hu ltac:(lia)) as B.
  pose proof (read_objects_fixed_norm bv sx m o rf rp fo po k h v cnt pk rol0 so _ _ _ _ _ ltac:(lia) Ha Hu Hk Hk1 B eq_refl) as B2.
  do 6 eexists. split; [exact B2|]. split; [reflexivity|]. split; [|intros E; exfalso; apply E; reflexivity]. intros _. repeat split; reflexivity.
Qed.

Theorem read_objects_fixed_source rf rp fo po k sx m h v cnt pk : int_min <= cnt <= int_max -> is_arr v = false ->
  exists f0, forall f, (f0 <= f)%nat -> exists fin,
    callC prog_env f prog_sbdf_read_objects [VPtr rf fo; VInt v; VInt cnt; VPtr rp po; VInt pk] m k sx h = OReturn (VInt (fixed_status k sx v cnt)) fin /\
    (fixed_status k sx v cnt = SBDF_OK ->
       lookup "*object" (vars fin) = Some (VCell (List.length h) 0) /\
       lookup cells_var (vars fin) = Some (VHeap (h ++ [Some [VInt v; VInt cnt; VPtr RIn (zlen m)]])) /\
       inb fin = m ++ firstn (Z.to_nat (usize v * cnt)) sx /\
       lookup strm_var (vars fin) = Some (VBytes (skipn (Z.to_nat (usize v * cnt)) sx))) /\
    (fixed_status k sx v cnt <> SBDF_OK ->
       lookup "*object" (vars fin) = Some VNull /\
       (lookup cells_var (vars fin) = Some (VHeap h) \/ lookup cells_var (vars fin) = Some (VHeap (h ++ [None]))) /\
       exists m', inb fin = m ++ m').
Proof.
  intros Hc Ha. destruct (read_objects_fixed_bs (VInt 0) [] rf rp fo po k sx m h v cnt pk VUndef Hc Ha) as (l' & so' & k' & sx' & h' & m' & B & _ & P1 & P2).
  destruct (bsE_sound _ _ _ _ B) as (f0 & F). exists f0. intros f Hf. eexists. split; [apply F; exact Hf|]. split.
  - intros E. destruct (P1 E) as (-> & -> & -> & -> & _). repeat split; reflexivity.
  - intros E. destruct (P2 E) as (-> & Hh & mm & ->). split; [reflexivity|]. split; [destruct Hh as [->| ->]; [left|right]; reflexivity|exists mm; reflexivity].
Qed.

(* ---- the same outcomes in the L1 model: without allocation failures the source's status is the model's, and a
   successful read leaves the stream where the model leaves it ---- *)
From Sbdf Require Import Obj.
Lemma fixed_status_model k sx v cnt p : k < 0 -> is_arr v = false ->
  match read_objects false None v cnt p sx with
  | Ok (ob, s') => fixed_status k sx v cnt = SBDF_OK /\ s' = skipn (Z.to_nat (usize v * cnt)) sx /\ oty ob = v
  | Err st => fixed_status k sx v cnt = st
  end.
Proof.
  intros Hk Ha. unfold read_objects, fixed_status. rewrite Ha. destruct (cnt <? 0) eqn:E0; [reflexivity|].
  replace (k =? 0) with false by lia. cbv zeta. destruct (usize v <? 0) eqn:E1; [reflexivity|].
  pose proof (not_arr_usize v Ha) as Hnz. replace (usize v =? 0) with false by lia. replace (k =? 1) with false by lia.
  unfold rd_bind, ralloc, alloc_ok, fread_bytes, rret. replace (usize v * cnt <? 0) with false by nia.
  destruct (zlen sx <? usize v * cnt) eqn:E2.
  - rewrite take_z_short by lia. reflexivity.
  - assert (Hs : sx = firstn (Z.to_nat (usize v * cnt)) sx ++ skipn (Z.to_nat (usize v * cnt)) sx) by (symmetry; apply firstn_skipn).
    assert (Hl : zlen (firstn (Z.to_nat (usize v * cnt)) sx) = usize v * cnt) by (unfold zlen; rewrite firstn_length; unfold zlen in E2; lia).
    pose proof (take_z_app (firstn (Z.to_nat (usize v * cnt)) sx) (skipn (Z.to_nat (usize v * cnt)) sx)) as TK. rewrite <- Hs, Hl in TK. rewrite TK.
    split; [reflexivity|]. split; reflexivity.
Qed.

(* ================================================================== sbdf_obj_read_arr: the count, then the elements *)
From Sbdf Require Import ImpFactsInt32 ImpFactsRead.
Ltac evoa := cbn [prog_env eval_args callee_init finish_call copy_in copy_out try_update update lookup combine map app String.append
                 String.eqb Ascii.eqb Bool.eqb fparams flocals vars inb outb budget_var fail_var strm_var cells_var cell_token List.length Nat.eqb eval set_var cast
                 truth binop_int b2z negb heap_of as_ptr storable fst snd prog_sbdf_read_int32 prog_sbdf_read_objects prog_sbdf_swap_le].

Definition ora (fv : val) (v : Z) (av cn e r sa bv : val) (k : Z) (sx : list Z) (h : heap) (m o : list Z) : state :=
  fr [("f", fv); ("v", VInt v); ("array", av); ("count", cn); ("err", e); ("$ret", r); ("*array", sa)]%string bv k sx h m o.

Lemma obj_read_arr_bs rf rp fo po v sa bv k sx h m o : Forall byte sx ->
  match read_int32 false sx with
  | Err st => exists cn e r sx', bsE prog_env (fbody prog_sbdf_obj_read_arr) (ora (VPtr rf fo) v (VPtr rp po) VUndef VUndef VUndef sa bv k sx h m o)
                 (OReturn (VInt st) (ora (VPtr rf fo) v (VPtr rp po) cn e r sa bv k sx' h m o))
  | Ok (cnt, s1) => forall st l' so' k' sx' h' m',
      bsE prog_env (fbody prog_sbdf_read_objects) (rof (VPtr rf fo) v cnt (VPtr rp po) 1 rol0 sa bv k s1 h m o) (OReturn (VInt st) (rof (VPtr rf fo) v cnt (VPtr rp po) 1 l' so' bv k' sx' h' m' o)) ->
      storable so' = true ->
      exists cn e, bsE prog_env (fbody prog_sbdf_obj_read_arr) (ora (VPtr rf fo) v (VPtr rp po) VUndef VUndef VUndef sa bv k sx h m o)
                 (OReturn (VInt st) (ora (VPtr rf fo) v (VPtr rp po) cn e (VInt st) so' bv k' sx' h' m' o))
  end.
Proof.
  intros Hs. pose proof (read_int32_bs2 h (VPtr rf fo) (VPtr ROut 0) VUndef bv k sx m o I I Hs) as R.
  cbn [fbody prog_sbdf_obj_read_arr]. unfold ora, fr. cbn [app].
  destruct (read_int32 false sx) as [[cnt s1]|st] eqn:ER.
  - intros st l' so' k' sx' h' m' B St. destruct l'. revert B. unro. intros B. do 2 eexists.
    eapply bsE_seq; [eapply bsE_seq; [eapply bsE_decl0; evoa; reflexivity|eapply bsE_decl0; evoa; reflexivity]|].
    eapply bsE_seq; [eapply bsE_seq; [eapply bsE_call; [reflexivity|evoa; reflexivity|reflexivity|exact R|unfold ri2; evoa; reflexivity]|eapply bsE_if; [evoa; reflexivity|reflexivity|apply bsE_skip]]|].
    eapply bsE_seq; [eapply bsE_call; [reflexivity|evoa; reflexivity|reflexivity|exact B|evoa; destruct so'; try discriminate St; evoa; reflexivity]|].
    eapply bsE_return. evoa. reflexivity.
  - destruct R as (c' & s' & R). pose proof (read_int32_err sx st ER). subst st. do 4 eexists.
    eapply bsE_seq; [eapply bsE_seq; [eapply bsE_decl0; evoa; reflexivity|eapply bsE_decl0; evoa; reflexivity]|].
    eapply bsE_seq_ret. eapply bsE_seq; [eapply bsE_call; [reflexivity|evoa; reflexivity|reflexivity|exact R|unfold ri2; evoa; reflexivity]|].
    eapply bsE_if; [evoa; reflexivity|reflexivity|]. eapply bsE_return. evoa. reflexivity.
Qed.

(* reading a packed array of fixed-size elements: the count from the stream, then sbdf_read_objects *)
Theorem obj_read_arr_fixed_source rf rp fo po k sx m h v : Forall byte sx -> is_arr v = false ->
  exists f0, forall f, (f0 <= f)%nat ->
  match read_int32 false sx with
  | Err st => exists fin, callC prog_env f prog_sbdf_obj_read_arr [VPtr rf fo; VInt v; VPtr rp po] m k sx h = OReturn (VInt st) fin /\
                inb fin = m /\ lookup cells_var (vars fin) = Some (VHeap h)
  | Ok (cnt, s1) => exists fin, callC prog_env f prog_sbdf_obj_read_arr [VPtr rf fo; VInt v; VPtr rp po] m k sx h = OReturn (VInt (fixed_status k s1 v cnt)) fin /\
      (fixed_status k s1 v cnt = SBDF_OK ->
         lookup "*array" (vars fin) = Some (VCell (List.length h) 0) /\
         lookup cells_var (vars fin) = Some (VHeap (h ++ [Some [VInt v; VInt cnt; VPtr RIn (zlen m)]])) /\
         inb fin = m ++ firstn (Z.to_nat (usize v * cnt)) s1 /\
         lookup strm_var (vars fin) = Some (VBytes (skipn (Z.to_nat (usize v * cnt)) s1))) /\
      (fixed_status k s1 v cnt <> SBDF_OK ->
         lookup "*array" (vars fin) = Some VNull /\
         (lookup cells_var (vars fin) = Some (VHeap h) \/ lookup cells_var (vars fin) = Some (VHeap (h ++ [None]))) /\
         exists m', inb fin = m ++ m')
  end.
Proof.
  intros Hs Ha. pose proof (obj_read_arr_bs rf rp fo po v VUndef (VInt 0) k sx h m [] Hs) as A.
  destruct (read_int32 false sx) as [[cnt s1]|st] eqn:ER.
  - assert (Hc : int_min <= cnt <= int_max).
    { pose proof (read_int32_model sx) as M. rewrite ER in M. destruct sx as [|b0 [|b1 [|b2 [|b3 r]]]]; try discriminate. inversion M. subst.
      apply de32_range; [|reflexivity]. inversion Hs as [|? ? G0 Q0]. inversion Q0 as [|? ? G1 Q1]. inversion Q1 as [|? ? G2 Q2]. inversion Q2 as [|? ? G3 Q3].
      subst. constructor; [exact G0|]. constructor; [exact G1|]. constructor; [exact G2|]. constructor; [exact G3|constructor]. }
    destruct (read_objects_fixed_bs (VInt 0) [] rf rp fo po k s1 m h v cnt 1 VUndef Hc Ha) as (l' & so' & k' & sx' & h' & m' & B & St & P1 & P2).
    destruct (A _ _ _ _ _ _ _ B St) as (cn & e & B2).
    destruct (bsE_sound _ _ _ _ B2) as (f0 & F). exists f0. intros f Hf. eexists. split; [apply F; exact Hf|]. split.
    + intros E. destruct (P1 E) as (-> & -> & -> & -> & _). repeat split; reflexivity.
    + intros E. destruct (P2 E) as (-> & Hh & mm & ->). split; [reflexivity|]. split; [destruct Hh as [->| ->]; [left|right]; reflexivity|exists mm; reflexivity].
  - destruct A as (cn & e & r & sx' & B). destruct (bsE_sound _ _ _ _ B) as (f0 & F). exists f0. intros f Hf. eexists. split; [apply F; exact Hf|]. split; reflexivity.
Qed.

(* the elements of the model's object are exactly the bytes that went into the data block, in order *)
Lemma concat_chunks sz : 0 < sz -> forall n l, zlen l = sz * Z.of_nat n -> concat (chunks n sz l) = l.
Proof.
  intros Hsz. induction n as [|n IH]; intros l Hl; cbn [chunks concat].
  - destruct l; [reflexivity|]. rewrite zlen_cons in Hl. pose proof (zlen_nonneg l). lia.
  - rewrite IH; [apply ztake_zdrop|]. unfold zdrop, zlen in *. rewrite skipn_length. lia.
Qed.

Lemma fixed_content_model k sx v cnt p ob s' : k < 0 -> is_arr v = false -> read_objects false None v cnt p sx = Ok (ob, s') ->
  concat (oelems ob) = firstn (Z.to_nat (usize v * cnt)) sx /\ oty ob = v.
Proof.
  intros Hk Ha. unfold read_objects. rewrite Ha. destruct (cnt <? 0) eqn:E0; [discriminate|]. cbv zeta.
  destruct (usize v <? 0) eqn:E1; [discriminate|]. pose proof (not_arr_usize v Ha) as Hnz. replace (usize v =? 0) with false by lia.
  unfold rd_bind, ralloc, alloc_ok, fread_bytes, rret. replace (usize v * cnt <? 0) with false by nia.
  destruct (zlen sx <? usize v * cnt) eqn:E2; [rewrite take_z_short by lia; discriminate|].
  assert (Hs : sx = firstn (Z.to_nat (usize v * cnt)) sx ++ skipn (Z.to_nat (usize v * cnt)) sx) by (symmetry; apply firstn_skipn).
  assert (Hl : zlen (firstn (Z.to_nat (usize v * cnt)) sx) = usize v * cnt) by (unfold zlen; rewrite firstn_length; unfold zlen in E2; lia).
  pose proof (take_z_app (firstn (Z.to_nat (usize v * cnt)) sx) (skipn (Z.to_nat (usize v * cnt)) sx)) as TK. rewrite <- Hs, Hl in TK. rewrite TK.
  intros [= <- _]. cbn [oelems oty]. split; [|reflexivity].
  assert (Hid : forall l : list (list Z), map (swapb false) l = l) by (intros l; induction l as [|x l IHl]; cbn [map]; [reflexivity|now rewrite IHl]).
  rewrite Hid. apply concat_chunks; [lia|]. rewrite Hl. rewrite Z2Nat.id by lia. reflexivity.
Qed.
