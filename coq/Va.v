(* Va.v — valuearray.c: the five fields of struct sbdf_valuearray and every function on it. *)
From Sbdf Require Export Obj.

Record va := { vty : Z; venc : Z; value1 : Z; o1 : option obj; o2 : option obj }.

Definition byte_obj (bs : list Z) : obj := {| oty := SBDF_BYTETYPEID; oelems := map (fun b => [b]) bs |}.

Definition va_create_plain (o : obj) : res va :=
  c <-e obj_copy o ;;
  Ok {| vty := oty o; venc := SBDF_PLAINARRAYENCODINGTYPEID; value1 := 0; o1 := Some c; o2 := None |}.

(* the loop of sbdf_va_create_rle: run = length of the pending run, prev = its value;
   runs and values are accumulated newest first *)
Fixpoint rle_loop (elems : list (list Z)) (run : Z) (prev : list Z)
                  (runs : list Z) (vals : list (list Z)) : list Z * list (list Z) :=
  match elems with
  | [] => if run =? 0 then (rev runs, rev vals) else (rev ((run - 1) :: runs), rev (prev :: vals))
  | cur :: rest =>
    if (run =? 256) || (negb (run =? 0) && negb (bytes_eqb prev cur))
    then rle_loop rest 1 cur ((run - 1) :: runs) (prev :: vals)
    else rle_loop rest (run + 1) cur runs vals
  end.

Definition rle_encode (elems : list (list Z)) : list Z * list (list Z) := rle_loop elems 0 [] [] [].

Definition va_create_rle (o : obj) : res va :=
  let sz := if is_arr (oty o) then 8 else usize (oty o) in
  if sz <? 0 then Err sz
  else if sz =? 0 then Err SBDF_ERROR_UNKNOWN_TYPEID
  else
    let '(runs, vals) := rle_encode (oelems o) in
    Ok {| vty := oty o; venc := SBDF_RUNLENGTHENCODINGTYPEID; value1 := ocount o;
          o1 := Some (byte_obj runs); o2 := Some {| oty := oty o; oelems := vals |} |}.

(* element is "set": strings and binaries always (a non-null pointer), others iff some byte is non-zero *)
Definition elem_nonzero (ty : Z) (e : list Z) : bool :=
  if is_arr ty then true else existsb (fun b => negb (b =? 0)) e.

(* most significant bit first; the last byte is padded with zero bits *)
Fixpoint bits_byte (fuel : nat) (acc : Z) (bs : list bool) : Z * list bool :=
  match fuel with
  | O => (acc, bs)
  | S f =>
    match bs with
    | [] => bits_byte f (2 * acc) []
    | b :: r => bits_byte f (2 * acc + (if b then 1 else 0)) r
    end
  end.
Fixpoint pack_bits (fuel : nat) (bs : list bool) : list Z :=
  match fuel with
  | O => []
  | S f =>
    match bs with
    | [] => []
    | _ :: _ => let '(v, r) := bits_byte 8 0 bs in v :: pack_bits f r
    end
  end.

Definition va_create_bit (o : obj) : res va :=
  let sz := if is_arr (oty o) then 8 else usize (oty o) in
  if sz <? 0 then Err sz
  else if sz =? 0 then Err SBDF_ERROR_UNKNOWN_TYPEID
  else
    let bits := map (elem_nonzero (oty o)) (oelems o) in
    Ok {| vty := SBDF_BOOLTYPEID; venc := SBDF_BITARRAYENCODINGTYPEID; value1 := ocount o;
          o1 := Some {| oty := SBDF_BINARYTYPEID; oelems := [pack_bits (length bits) bits] |};
          o2 := None |}.

Definition va_create (enc : Z) (o : obj) : res va :=
  if enc =? SBDF_PLAINARRAYENCODINGTYPEID then va_create_plain o
  else if enc =? SBDF_RUNLENGTHENCODINGTYPEID then va_create_rle o
  else if enc =? SBDF_BITARRAYENCODINGTYPEID then va_create_bit o
  else Err SBDF_ERROR_UNKNOWN_VALUEARRAY_ENCODING.

Definition va_create_dflt (o : obj) : res va :=
  if oty o =? SBDF_BOOLTYPEID then va_create_bit o else va_create_plain o.

(* expand runs (stored as length-1) over the values; both lists have the same length here *)
Fixpoint rle_expand (runs : list Z) (vals : list (list Z)) : list (list Z) :=
  match runs, vals with
  | r :: runs', v :: vals' => repeat v (Z.to_nat (r + 1)) ++ rle_expand runs' vals'
  | _, _ => []
  end.

Definition run_of (e : list Z) : Z := match e with b :: _ => b | [] => 0 end.

Definition rle_total (runs : list Z) : Z := fold_left (fun acc r => acc + (r + 1)) runs 0.

Definition get_rle_values (v : va) : res obj :=
  match o1 v, o2 v with
  | Some ob1, Some ob2 =>
    let sz := if is_arr (vty v) then 8 else usize (vty v) in
    if sz <? 0 then Err sz
    else if sz =? 0 then Err SBDF_ERROR_UNKNOWN_TYPEID
    else
      let runs := map run_of (oelems ob1) in
      if negb (ocount ob1 =? ocount ob2) then Err SBDF_ERROR_INVALID_SIZE
      else if negb (rle_total runs =? value1 v) then Err SBDF_ERROR_INVALID_SIZE
      else Ok {| oty := oty ob2; oelems := rle_expand runs (oelems ob2) |}
  | _, _ => Err SBDF_ERROR_ARGUMENT_NULL
  end.

(* bit i (0 = most significant) of byte b *)
Definition bit_of (b : Z) (i : Z) : Z := (b / 2 ^ (7 - i)) mod 2.

Fixpoint unpack_bits (n : nat) (ofs : Z) (bytes : list Z) : list (list Z) :=
  match n with
  | O => []
  | S n' =>
    match bytes with
    | [] => [0] :: unpack_bits n' ofs []      (* not reached: the packed bytes cover value1 bits *)
    | b :: r =>
      if ofs =? 7 then [bit_of b 7] :: unpack_bits n' 0 r
      else [bit_of b ofs] :: unpack_bits n' (ofs + 1) bytes
    end
  end.

Definition get_bit_values (v : va) : res obj :=
  match o1 v with
  | Some {| oty := _; oelems := bytes :: _ |} =>
    Ok {| oty := SBDF_BOOLTYPEID; oelems := unpack_bits (Z.to_nat (value1 v)) 0 bytes |}
  | _ => Err SBDF_ERROR_ARGUMENT_NULL
  end.

Definition va_get_values (v : va) : res obj :=
  if venc v =? SBDF_PLAINARRAYENCODINGTYPEID then obj_copy_opt (o1 v)
  else if venc v =? SBDF_RUNLENGTHENCODINGTYPEID then get_rle_values v
  else if venc v =? SBDF_BITARRAYENCODINGTYPEID then get_bit_values v
  else Err SBDF_ERROR_UNKNOWN_VALUEARRAY_ENCODING.

Definition va_row_cnt (v : va) : Z :=
  if venc v =? SBDF_PLAINARRAYENCODINGTYPEID then match o1 v with Some o => ocount o | None => 0 end
  else if venc v =? SBDF_RUNLENGTHENCODINGTYPEID then value1 v
  else if venc v =? SBDF_BITARRAYENCODINGTYPEID then value1 v
  else SBDF_ERROR_UNKNOWN_VALUEARRAY_ENCODING.

Section VaIO.
Variable swp : bool.
Variable cap : option Z.

Definition wobj_arr_opt (o : option obj) : W unit :=
  match o with Some o => obj_write_arr swp o | None => wfail SBDF_ERROR_ARGUMENT_NULL end.

Definition va_write (v : va) : W unit :=
  write_int8 (venc v) ;;w
  vt_write (vty v) ;;w
  if venc v =? SBDF_PLAINARRAYENCODINGTYPEID then wobj_arr_opt (o1 v)
  else if venc v =? SBDF_RUNLENGTHENCODINGTYPEID then
    write_int32 swp (value1 v) ;;w wobj_arr_opt (o1 v) ;;w wobj_arr_opt (o2 v)
  else if venc v =? SBDF_BITARRAYENCODINGTYPEID then
    write_int32 swp (value1 v) ;;w
    match o1 v with
    | Some {| oty := _; oelems := bytes :: _ |} => put bytes SBDF_ERROR_IO
    | _ => wfail SBDF_ERROR_ARGUMENT_NULL
    end
  else wfail SBDF_ERROR_UNKNOWN_VALUEARRAY_ENCODING.

Definition bit_packed_size (v : Z) : Z := v / 8 + (if v mod 8 =? 0 then 0 else 1).

(* sbdf_read_valuearray_int with a handle *)
Definition va_read : R va :=
  e <-r read_int8 ;;
  vt <-r vt_read ;;
  if e =? SBDF_PLAINARRAYENCODINGTYPEID then
    ob <-r obj_read_arr swp cap vt ;;
    rret {| vty := vt; venc := e; value1 := 0; o1 := Some ob; o2 := None |}
  else if e =? SBDF_RUNLENGTHENCODINGTYPEID then
    v <-r read_int32 swp ;;
    if v <? 0 then rfail SBDF_ERROR_INVALID_SIZE else
    ob1 <-r obj_read_arr swp cap SBDF_BYTETYPEID ;;
    ob2 <-r obj_read_arr swp cap vt ;;
    rret {| vty := vt; venc := e; value1 := v; o1 := Some ob1; o2 := Some ob2 |}
  else if e =? SBDF_BITARRAYENCODINGTYPEID then
    v <-r read_int32 swp ;;
    if v <? 0 then rfail SBDF_ERROR_INVALID_SIZE else
    ralloc cap (bit_packed_size v) ;;r
    bytes <-r fread_bytes (bit_packed_size v) ;;
    rret {| vty := vt; venc := e; value1 := v;
            o1 := Some {| oty := SBDF_BINARYTYPEID; oelems := [bytes] |}; o2 := None |}
  else rfail SBDF_ERROR_UNKNOWN_VALUEARRAY_ENCODING.

(* sbdf_read_valuearray_int without a handle *)
Definition va_skip : R unit :=
  e <-r read_int8 ;;
  vt <-r vt_read ;;
  if e =? SBDF_PLAINARRAYENCODINGTYPEID then obj_skip_arr swp vt
  else if e =? SBDF_RUNLENGTHENCODINGTYPEID then
    v <-r read_int32 swp ;;
    if v <? 0 then rfail SBDF_ERROR_INVALID_SIZE else
    obj_skip_arr swp SBDF_BYTETYPEID ;;r
    obj_skip_arr swp vt
  else if e =? SBDF_BITARRAYENCODINGTYPEID then
    v <-r read_int32 swp ;;
    if v <? 0 then rfail SBDF_ERROR_INVALID_SIZE else
    fseek_cur (bit_packed_size v)
  else rfail SBDF_ERROR_UNKNOWN_VALUEARRAY_ENCODING.

End VaIO.
