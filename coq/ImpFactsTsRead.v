(* ImpFactsTsRead.v - sbdf_ts_read from the source, for a read of all columns (no column subset): the section marker, the
   column count against the table metadata, the struct and the columns array, then one sbdf_cs_read per column; a failure
   in any column ends in sbdf_ts_destroy releasing the columns read so far, the array and the struct. *)
From Sbdf Require Import ImpCall Gen.Prog Gen.Consts Base Prim Obj Va BaseFacts LeafTie ImpBase ImpFactsCells ImpFactsCap ImpFactsGrow ImpFactsDestroy
  ImpFactsInt32 ImpFactsRead ImpFactsReadObj ImpFactsReadArr ImpFactsSkipObj SkipLaws ImpFactsFrame ImpFactsRelease ImpFactsReleaseAll ImpFactsReleaseTs ImpFactsReadVa ImpFactsCsRead ImpFactsCsReadProps ImpFactsSkipS Slice.
From Coq Require Import ZifyBool.
Local Open Scope Z_scope.
Ltac Zify.zify_post_hook ::= Z.div_mod_to_equations.

Ltac evs := cbn [prog_env eval_args callee_init finish_call copy_in copy_out try_update update lookup combine map app String.append
                 String.eqb Ascii.eqb Bool.eqb fparams flocals vars inb outb budget_var fail_var strm_var cells_var cell_token List.length Nat.eqb eval set_var cast
                 truth binop_int b2z negb heap_of as_ptr storable fst snd stream_of set_stream
                 prog_sbdf_cs_destroy prog_sbdf_ts_destroy prog_sbdf_ts_read prog_sbdf_cs_read prog_sbdf_cs_skip prog_sbdf_sec_read prog_sbdf_read_int32 prog_sbdf_calculate_array_capacity];
  change (0 =? 0) with true; change (1 =? 0) with false; cbn [negb b2z].


(* ================================================================== the model's readers along the columns *)
Definition cs_nobit (sx : list Z) : Prop :=
  (forall s1, sec_expect SBDF_COLUMNSLICE_SECTIONID sx = Ok (tt, s1) -> forall t s2, s1 <> 3 :: t :: s2) /\
  (forall s1 va s2 v s3, sec_expect SBDF_COLUMNSLICE_SECTIONID sx = Ok (tt, s1) -> Va.va_read false None s1 = Ok (va, s2) -> read_int32 false s2 = Ok (v, s3) -> props_nobit (Z.to_nat v) s3).
Definition cs_end (sx : list Z) : option (list Z) :=
  match sec_expect SBDF_COLUMNSLICE_SECTIONID sx with
  | Ok (_, s1) => match Va.va_read false None s1 with
                  | Ok (_, s2) => match read_int32 false s2 with
                                  | Ok (v, s3) => if (v <? 0) || (134217727 <? v) then None else props_end (Z.to_nat v) s3
                                  | Err _ => None end
                  | Err _ => None end
  | Err _ => None
  end.
Fixpoint cols_nobit (n : nat) (s : list Z) : Prop :=
  match n with O => True | S n' => cs_nobit s /\ match cs_end s with Some s' => cols_nobit n' s' | None => True end end.
Fixpoint cols_end (n : nat) (s : list Z) : option (list Z) :=
  match n with O => Some s | S n' => match cs_end s with Some s' => cols_end n' s' | None => None end end.


Lemma bsE_seq_inner env c S X s s1 oo : bsE env c s (ONormal s1) -> bsE env (SSeq S X) s1 oo -> bsE env (SSeq (SSeq c S) X) s oo.
Proof.
  intros H1 H2. inversion H2; subst.
  - eapply bsE_seq; [eapply bsE_seq; eassumption|eassumption].
  - eapply bsE_seq_ret. eapply bsE_seq; eassumption.
  - eapply bsE_seq_brk. eapply bsE_seq; eassumption.
Qed.

Lemma bsE_seq_assoc6 env a b c d e f w t s s1 oo : bsE env (SSeq a (SSeq b (SSeq c (SSeq d (SSeq e f))))) s (ONormal s1) -> bsE env (SSeq w t) s1 oo ->
  bsE env (SSeq a (SSeq b (SSeq c (SSeq d (SSeq e (SSeq (SSeq f w) t)))))) s oo.
Proof.
  intros H1 H2. inversion H1; subst.
  repeat match goal with H : bsE env (SSeq _ _) _ (ONormal _) |- _ => inversion H; subst; clear H end.
  repeat (eapply bsE_seq; [eassumption|]). eapply bsE_seq_inner; eassumption.
Qed.

Lemma nth_zeros' (a : list val) n i : zlen a = i -> nth_error (a ++ zeros (S n)) (Z.to_nat i) = Some (VInt 0).
Proof. intros <-. unfold zlen. rewrite Nat2Z.id. rewrite nth_error_app2 by (apply Nat.le_refl). rewrite Nat.sub_diag. reflexivity. Qed.

Section TsRead.
Variables (bv : val) (o : list Z).

(* ================================================================== the columns of a table slice, one behind the other in the heap *)
Inductive cols_sem (m : list Z) : nat -> list val -> heap -> Prop :=
| cols_nil b : cols_sem m b [] []
| cols_cons b hnew hs rest : (1 <= List.length hnew)%nat -> cs_sem bv o m b hnew -> cols_sem m (b + List.length hnew) hs rest ->
    cols_sem m b (VCell b 0 :: hs) (hnew ++ rest)
| cols_skip b c hs rest : as_ptr c = VNull -> cols_sem m b hs rest -> cols_sem m b (c :: hs) rest.        (* a column the subset leaves out: an empty slot *)

Lemma cs_sem_mono m m2 b hnew : zlen m <= zlen m2 -> cs_sem bv o m b hnew -> cs_sem bv o m2 b hnew.
Proof. intros Hm C pre x m3 kk sxx Hp Hm3. apply C; [exact Hp|lia]. Qed.

Lemma cols_mono m m2 : zlen m <= zlen m2 -> forall b hs blocks, cols_sem m b hs blocks -> cols_sem m2 b hs blocks.
Proof. intros Hm b hs blocks C. induction C as [b|b hnew hs rest Hn Cs C IH|b c hs rest Hc C IH]; [apply cols_nil|apply cols_cons; [exact Hn|apply (cs_sem_mono m m2); assumption|exact IH]|apply cols_skip; assumption]. Qed.

Lemma cols_snoc m : forall b hs blocks, cols_sem m b hs blocks -> forall hnew, (1 <= List.length hnew)%nat -> cs_sem bv o m (b + List.length blocks) hnew ->
  cols_sem m b (hs ++ [VCell (b + List.length blocks) 0]) (blocks ++ hnew).
Proof.
  intros b hs blocks C. induction C as [b|b hnew0 hs rest Hn0 Cs0 C IH|b c hs rest Hc C IH]; intros hnew Hn Cs.
  - cbn [app List.length] in *. rewrite Nat.add_0_r in *. rewrite <- (app_nil_r hnew). apply cols_cons; [exact Hn|exact Cs|apply cols_nil].
  - cbn [app]. rewrite <- app_assoc. apply cols_cons; [exact Hn0|exact Cs0|].
    replace (b + List.length (hnew0 ++ rest))%nat with (b + List.length hnew0 + List.length rest)%nat in * by (rewrite app_length; lia).
    apply IH; assumption.
  - cbn [app]. apply cols_skip; [exact Hc|]. apply IH; assumption.
Qed.

Lemma cols_snoc_skip m : forall b hs blocks, cols_sem m b hs blocks -> forall c, as_ptr c = VNull -> cols_sem m b (hs ++ [c]) blocks.
Proof.
  intros b hs blocks C. induction C as [b|b hnew0 hs rest Hn0 Cs0 C IH|b c0 hs rest Hc C IH]; intros c Hc'.
  - cbn [app]. apply cols_skip; [exact Hc'|apply cols_nil].
  - cbn [app]. apply cols_cons; [exact Hn0|exact Cs0|apply IH; exact Hc'].
  - cbn [app]. apply cols_skip; [exact Hc|apply IH; exact Hc'].
Qed.

(* ================================================================== sbdf_ts_destroy on a table slice that owns its columns, some slots still empty *)
Lemma ts_sem_loop k sx m tb colb n meta cols ccells : forall b hs blocks, cols_sem m b hs blocks ->
  forall done nulls slack (hp x : heap), ccells = done ++ hs ++ nulls ++ slack -> zlen done + zlen hs + zlen nulls = n -> n < int_max ->
  Forall (fun c => as_ptr c = VNull) nulls -> List.length hp = b ->
  nth_error hp tb = Some (Some [meta; VInt n; cols; VInt 1]) -> as_ptr cols = VCell colb 0 -> nth_error hp colb = Some (Some ccells) ->
  bsE prog_env
    (SWhile (EBin Lt (EVar "i") (ECellLoad (EVar "slice") (EConst 1) false))
       (SSeq (SCall None "sbdf_cs_destroy" [(AVal (ECellLoad (ECellLoad (EVar "slice") (EConst 2) true) (EVar "i") true))]) (SExpr (EPreInc "i"))))%string
    (fr [("slice"%string, VCell tb 0); ("i"%string, VInt (zlen done))] bv k sx (hp ++ blocks ++ x) m o)
    (ONormal (fr [("slice"%string, VCell tb 0); ("i"%string, VInt n)] bv k sx (hp ++ nones (List.length blocks) ++ x) m o)).
Proof.
  intros b hs blocks C. induction C as [b|b hnew hs rest Hn Cs C IH|b c hs rest Hc C IH]; intros done nulls slack hp x Hp Hz Hmax Hnl Hhp Ht Hcol Hcb; unfold int_max in Hmax.
  - (* only empty slots are left *)
    cbn [app List.length nones repeat]. revert done Hp Hz Hnl. induction nulls as [|c nulls IHn]; intros done Hp Hz Hnl; unfold fr.
    + change (zlen (@nil val)) with 0 in Hz. replace (zlen done) with n by lia.
      assert (Ht' : nth_error (hp ++ x) tb = Some (Some [meta; VInt n; cols; VInt 1])) by (rewrite nth_error_app1 by (apply nth_error_Some; congruence); exact Ht).
      eapply bsE_while_f; [evs; chk7; evs; cellrw Ht'; evs; rewrite Z.ltb_irrefl; reflexivity|reflexivity].
    + pose proof (Forall_inv Hnl) as Hc. pose proof (Forall_inv_tail Hnl) as Hnl'. cbv beta in Hc.
      pose proof (zlen_nonneg done) as Pd. pose proof (zlen_nonneg nulls) as Pn. rewrite zlen_cons in Hz. change (zlen (@nil val)) with 0 in Hz.
      assert (Ht' : nth_error (hp ++ x) tb = Some (Some [meta; VInt n; cols; VInt 1])) by (rewrite nth_error_app1 by (apply nth_error_Some; congruence); exact Ht).
      assert (Hcb' : nth_error (hp ++ x) colb = Some (Some (done ++ [] ++ (c :: nulls) ++ slack))) by (rewrite nth_error_app1 by (apply nth_error_Some; congruence); rewrite <- Hp; exact Hcb).
      assert (Hnth : nth_error (done ++ [] ++ (c :: nulls) ++ slack) (Z.to_nat (0 + zlen done)) = Some c).
      { replace (Z.to_nat (0 + zlen done)) with (List.length done) by (unfold zlen; lia). rewrite nth_error_app2 by lia. rewrite Nat.sub_diag. reflexivity. }
      eapply bsE_while_t; [evs; chk7; evs; cellrw Ht'; evs; replace (zlen done <? n) with true by lia; reflexivity|reflexivity| |].
      * eapply bsE_seq.
        -- eapply bsE_call_void; [reflexivity
             |evs; chk7; evs; cellrw Ht'; evs; rewrite Hcol; evs; unfold cell_get; rewrite Hcb'; replace (0 <=? 0 + zlen done) with true by lia; rewrite Hnth; evs; rewrite Hc; reflexivity
             |reflexivity|evs; cbn [fbody prog_sbdf_cs_destroy]; eapply bsE_if; [evs; reflexivity|reflexivity|apply bsE_skip]|evs; reflexivity].
        -- eapply bsE_expr. evs. unfold incr. chk7. evs. reflexivity.
      * replace (zlen done + 1) with (zlen (done ++ [c])) by (rewrite zlen_app; reflexivity).
        apply (IHn (done ++ [c])); [rewrite Hp, <- app_assoc; reflexivity|rewrite zlen_app; change (zlen [c]) with 1; change (zlen (@nil val)) with 0; lia|exact Hnl'].
  - (* a column that was read *)
    pose proof (zlen_nonneg done) as Pd. pose proof (zlen_nonneg hs) as Ph. pose proof (zlen_nonneg nulls) as Pn. rewrite zlen_cons in Hz.
    assert (Lt : (tb < List.length hp)%nat) by (apply nth_error_Some; congruence).
    assert (Lc : (colb < List.length hp)%nat) by (apply nth_error_Some; congruence).
    set (H0 := hp ++ (hnew ++ rest) ++ x).
    assert (Ht' : nth_error H0 tb = Some (Some [meta; VInt n; cols; VInt 1])) by (unfold H0; rewrite nth_error_app1 by lia; exact Ht).
    assert (Hcb' : nth_error H0 colb = Some (Some ccells)) by (unfold H0; rewrite nth_error_app1 by lia; exact Hcb).
    assert (Hnth : nth_error ccells (Z.to_nat (0 + zlen done)) = Some (VCell b 0)).
    { rewrite Hp. replace (Z.to_nat (0 + zlen done)) with (List.length done) by (unfold zlen; lia). rewrite nth_error_app2 by lia. rewrite Nat.sub_diag. reflexivity. }
    pose proof (Cs hp (rest ++ x) m k sx Hhp ltac:(lia)) as D. unfold fr in D. cbn [app] in D.
    replace (hp ++ hnew ++ rest ++ x) with H0 in D by (unfold H0; rewrite <- !app_assoc; reflexivity).
    unfold fr. fold H0.
    eapply bsE_while_t; [evs; chk7; evs; cellrw Ht'; evs; replace (zlen done <? n) with true by lia; reflexivity|reflexivity| |].
    + eapply bsE_seq.
      * eapply bsE_call; [reflexivity
           |evs; chk7; evs; cellrw Ht'; evs; rewrite Hcol; evs; unfold cell_get; rewrite Hcb'; replace (0 <=? 0 + zlen done) with true by lia; rewrite Hnth; evs; reflexivity
           |reflexivity|evs; exact D|evs; reflexivity].
      * eapply bsE_expr. evs. unfold incr. chk7. evs. reflexivity.
    + replace (zlen done + 1) with (zlen (done ++ [VCell b 0])) by (rewrite zlen_app; reflexivity).
      pose proof (IH (done ++ [VCell b 0]) nulls slack (hp ++ nones (List.length hnew)) x
                    ltac:(rewrite Hp, <- app_assoc; reflexivity) ltac:(rewrite zlen_app; change (zlen [VCell b 0]) with 1; lia) ltac:(unfold int_max; lia) Hnl
                    ltac:(rewrite app_length, nones_length; lia) ltac:(rewrite nth_error_app1 by lia; exact Ht) Hcol ltac:(rewrite nth_error_app1 by lia; exact Hcb)) as R.
      unfold fr in R. 
      replace ((hp ++ nones (List.length hnew)) ++ rest ++ x) with (hp ++ nones (List.length hnew) ++ rest ++ x) in R by (rewrite <- app_assoc; reflexivity).
      replace ((hp ++ nones (List.length hnew)) ++ nones (List.length rest) ++ x) with (hp ++ nones (List.length (hnew ++ rest)) ++ x) in R
        by (rewrite app_length, <- nones_app, <- !app_assoc; reflexivity).
      exact R.
  - (* an empty slot among the columns *)
    pose proof (zlen_nonneg done) as Pd. pose proof (zlen_nonneg hs) as Ph. pose proof (zlen_nonneg nulls) as Pn. rewrite zlen_cons in Hz.
    assert (Lt : (tb < List.length hp)%nat) by (apply nth_error_Some; congruence).
    assert (Lc : (colb < List.length hp)%nat) by (apply nth_error_Some; congruence).
    set (H0 := hp ++ rest ++ x).
    assert (Ht' : nth_error H0 tb = Some (Some [meta; VInt n; cols; VInt 1])) by (unfold H0; rewrite nth_error_app1 by lia; exact Ht).
    assert (Hcb' : nth_error H0 colb = Some (Some ccells)) by (unfold H0; rewrite nth_error_app1 by lia; exact Hcb).
    assert (Hnth : nth_error ccells (Z.to_nat (0 + zlen done)) = Some c).
    { rewrite Hp. replace (Z.to_nat (0 + zlen done)) with (List.length done) by (unfold zlen; lia). rewrite nth_error_app2 by lia. rewrite Nat.sub_diag. reflexivity. }
    unfold fr. fold H0.
    eapply bsE_while_t; [evs; chk7; evs; cellrw Ht'; evs; replace (zlen done <? n) with true by lia; reflexivity|reflexivity| |].
    + eapply bsE_seq.
      * eapply bsE_call_void; [reflexivity
           |evs; chk7; evs; cellrw Ht'; evs; rewrite Hcol; evs; unfold cell_get; rewrite Hcb'; replace (0 <=? 0 + zlen done) with true by lia; rewrite Hnth; evs; rewrite Hc; reflexivity
           |reflexivity|evs; cbn [fbody prog_sbdf_cs_destroy]; eapply bsE_if; [evs; reflexivity|reflexivity|apply bsE_skip]|evs; reflexivity].
      * eapply bsE_expr. evs. unfold incr. chk7. evs. reflexivity.
    + replace (zlen done + 1) with (zlen (done ++ [c])) by (rewrite zlen_app; reflexivity).
      pose proof (IH (done ++ [c]) nulls slack hp x ltac:(rewrite Hp, <- app_assoc; reflexivity) ltac:(rewrite zlen_app; change (zlen [c]) with 1; lia) ltac:(unfold int_max; lia) Hnl Hhp Ht Hcol Hcb) as R.
      exact R.
Qed.

Lemma ts_destroy_read_bs k sx m (h : heap) meta n hs nulls slack blocks (x : heap) i0 :
  let L := List.length h in
  cols_sem m (S (S L)) hs blocks -> zlen hs + zlen nulls = n -> n < int_max -> Forall (fun c => as_ptr c = VNull) nulls ->
  bsE prog_env (fbody prog_sbdf_ts_destroy)
    (fr [("slice"%string, VCell L 0); ("i"%string, i0)] bv k sx (h ++ Some [meta; VInt n; VCell (S L) 0; VInt 1] :: Some (hs ++ nulls ++ slack) :: blocks ++ x) m o)
    (ONormal (fr [("slice"%string, VCell L 0); ("i"%string, VInt n)] bv k sx (h ++ None :: None :: nones (List.length blocks) ++ x) m o)).
Proof.
  intros L C Hz Hmax Hnl.
  set (tsl := [meta; VInt n; VCell (S L) 0; VInt 1]). set (ccells := hs ++ nulls ++ slack).
  set (hp := h ++ [Some tsl; Some ccells]).
  assert (Lhp : List.length hp = S (S L)) by (unfold hp; rewrite app_length; cbn; lia).
  assert (Ht : nth_error hp L = Some (Some tsl)) by (unfold hp; apply nth_at).
  assert (Hcb : nth_error hp (S L) = Some (Some ccells)).
  { unfold hp. replace (h ++ [Some tsl; Some ccells]) with ((h ++ [Some tsl]) ++ Some ccells :: []) by (rewrite <- app_assoc; reflexivity). apply nth_at'. rewrite app_length. cbn. lia. }
  pose proof (ts_sem_loop k sx m L (S L) n meta (VCell (S L) 0) ccells (S (S L)) hs blocks C [] nulls slack hp x eq_refl ltac:(change (zlen (@nil val)) with 0; lia) Hmax Hnl Lhp Ht eq_refl Hcb) as LOOP.
  change (zlen (@nil val)) with 0 in LOOP. unfold fr in LOOP. cbn [app] in LOOP.
  assert (E0 : h ++ Some tsl :: Some ccells :: blocks ++ x = hp ++ blocks ++ x) by (unfold hp; rewrite <- app_assoc; reflexivity). rewrite E0.
  set (H2 := hp ++ nones (List.length blocks) ++ x) in *.
  assert (Ht0 : nth_error (hp ++ blocks ++ x) L = Some (Some tsl)) by (rewrite nth_error_app1 by lia; exact Ht).
  assert (Ht2 : nth_error H2 L = Some (Some tsl)) by (unfold H2; rewrite nth_error_app1 by lia; exact Ht).
  assert (Hcb2 : nth_error H2 (S L) = Some (Some ccells)) by (unfold H2; rewrite nth_error_app1 by lia; exact Hcb).
  set (H3 := h ++ Some tsl :: None :: nones (List.length blocks) ++ x).
  assert (E3 : set_nth_v (S L) None H2 = Some H3).
  { unfold H2, H3, hp. replace ((h ++ [Some tsl; Some ccells]) ++ nones (List.length blocks) ++ x) with ((h ++ [Some tsl]) ++ Some ccells :: nones (List.length blocks) ++ x) by (rewrite <- !app_assoc; reflexivity).
    replace (S L) with (List.length (h ++ [Some tsl])) by (rewrite app_length; cbn; lia). rewrite set_nth_v_app. rewrite <- app_assoc. reflexivity. }
  assert (Ht3 : nth_error H3 L = Some (Some tsl)) by (unfold H3; apply nth_at).
  assert (E4 : set_nth_v L None H3 = Some (h ++ None :: None :: nones (List.length blocks) ++ x)) by (unfold H3, L; apply set_nth_v_app).
  unfold tsl in Ht0, Ht2, Ht3.
  cbn [fbody prog_sbdf_ts_destroy]. unfold fr. cbn [app].
  eapply bsE_if; [evs; reflexivity|reflexivity|].
  eapply bsE_seq.
  { eapply bsE_if; [evs; chk7; evs; cellrw Ht0; evs; reflexivity|reflexivity|].
    eapply bsE_if; [evs; chk7; evs; cellrw Ht0; evs; reflexivity|reflexivity|].
    eapply bsE_seq; [eapply bsE_decl0; evs; reflexivity|]. eapply bsE_seq; [eapply bsE_expr; evs; chk7; evs; reflexivity|exact LOOP]. }
  eapply bsE_seq.
  { eapply bsE_if; [evs; chk7; evs; cellrw Ht2; evs; reflexivity|reflexivity|].
    eapply bsE_expr. evs. chk7. evs. cellrw Ht2. evs. rewrite Hcb2. evs. rewrite E3. evs. reflexivity. }
  eapply bsE_expr. evs. rewrite Ht3. evs. rewrite E4. evs. reflexivity.
Qed.

(* ================================================================== sbdf_ts_read *)
Section Main.
Variables (rf rp : region) (fo po : Z) (so : val) (h : heap) (tmb : nat) (n : Z) (sub : option (Z * list Z)).
Notation fv := (VPtr rf fo).
Notation ov := (VPtr rp po).
Notation L := (List.length h).
Notation cap := (array_capacity n).
Hypothesis Hn : 0 <= n <= 715827882.
Hypothesis Htm : cell_get h tmb 1 = Some (VInt n).

(* the column subset: none (every column is read), or a flag per column in the caller's memory at offset q *)
Definition sv : val := match sub with None => VNull | Some (q, _) => VPtr RIn q end.
Definition sel (i : Z) : bool := match sub with None => true | Some (_, fl) => negb (nth (Z.to_nat i) fl 0 =? 0) end.
Definition flags_in (m : list Z) : Prop :=
  match sub with None => True | Some (q, fl) => exists mp mq, m = mp ++ fl ++ mq /\ zlen mp = q /\ n <= zlen fl /\ Forall byte fl end.
Lemma flags_in_app m x : flags_in m -> flags_in (m ++ x).
Proof. unfold flags_in. destruct sub as [[q fl]|]; [|trivial]. intros (mp & mq & -> & H1 & H2 & H3). exists mp, (mq ++ x). rewrite <- !app_assoc. repeat split; assumption. Qed.
Lemma flags_load m vs oo i q fl : sub = Some (q, fl) -> flags_in m -> 0 <= i < n ->
  zlen m >= q + i /\ 0 <= q /\ load (VPtr RIn (q + i)) {| vars := vs; inb := m; outb := oo |} = Some (VInt (sgn (nth (Z.to_nat i) fl 0))) /\ 0 <= nth (Z.to_nat i) fl 0 <= 255.
Proof.
  intros E F Hi. unfold flags_in in F. rewrite E in F. destruct F as (mp & mq & -> & H1 & H2 & H3).
  pose proof (zlen_nonneg mp). pose proof (zlen_nonneg mq). pose proof (zlen_nonneg fl).
  assert (Hl : (Z.to_nat i < List.length fl)%nat) by (unfold zlen in *; lia).
  assert (Hsp : fl = firstn (Z.to_nat i) fl ++ nth (Z.to_nat i) fl 0 :: skipn (S (Z.to_nat i)) fl).
  { rewrite <- (firstn_skipn (Z.to_nat i) fl) at 1. f_equal. clear -Hl. revert fl Hl. induction (Z.to_nat i) as [|k IH]; intros [|a l] Hl; cbn [List.length] in Hl; try lia; [reflexivity|]. cbn [skipn nth]. apply IH. lia. }
  split; [rewrite !zlen_app; lia|]. split; [lia|]. split.
  - set (f := nth (Z.to_nat i) fl 0) in *.
    replace (mp ++ fl ++ mq) with ((mp ++ firstn (Z.to_nat i) fl) ++ f :: (skipn (S (Z.to_nat i)) fl ++ mq)) by (rewrite Hsp at 3; rewrite <- !app_assoc; reflexivity).
    replace (q + i) with (zlen (mp ++ firstn (Z.to_nat i) fl)) by (rewrite zlen_app; unfold zlen at 2; rewrite firstn_length; unfold zlen in *; lia).
    apply load_mid.
  - rewrite Forall_forall in H3. apply (H3 (nth (Z.to_nat i) fl 0)). apply nth_In. exact Hl.
Qed.

Record trl := { t_cc : val; t_err : val; t_i : val; t_t : val; t_v : val; t_a1 : val; t_c1 : val; t_so : val }.
Definition trf (l : trl) (k : Z) (sx : list Z) (hh : heap) (m : list Z) : state :=
  fr [("f", fv); ("meta", VCell tmb 0); ("subset", sv); ("out", ov); ("column_count", t_cc l); ("error", t_err l); ("i", t_i l); ("t", t_t l); ("v", t_v l);
      ("$a1", t_a1 l); ("$c1", t_c1 l); ("*out", t_so l)]%string bv k sx hh m o.
Ltac untr := unfold trf, fr; cbn [t_cc t_err t_i t_t t_v t_a1 t_c1 t_so app].

Definition tsl : list val := [VCell tmb 0; VInt n; VCell (S L) 0; VInt 1].
Definition HT (cc : list val) (T : heap) : heap := h ++ Some tsl :: Some cc :: T.
Lemma HT_len cc T : List.length (HT cc T) = (S (S L) + List.length T)%nat.
Proof. unfold HT. rewrite app_length. cbn [List.length]. lia. Qed.
Lemma HT_app cc T x : HT cc T ++ x = HT cc (T ++ x).
Proof. unfold HT. rewrite <- app_assoc. reflexivity. Qed.
Lemma HT_getT cc T j : 0 <= j -> cell_get (HT cc T) L j = nth_error tsl (Z.to_nat j).
Proof. intros Hj. unfold HT. apply cell_get_at; [reflexivity|exact Hj]. Qed.
Lemma HT_pre cc T : HT cc T = (h ++ [Some tsl]) ++ Some cc :: T.
Proof. unfold HT. rewrite <- app_assoc. reflexivity. Qed.
Lemma HT_getC cc T j : 0 <= j -> cell_get (HT cc T) (S L) j = nth_error cc (Z.to_nat j).
Proof. intros Hj. rewrite HT_pre. apply cell_get_at; [rewrite app_length; cbn; lia|exact Hj]. Qed.
Lemma HT_setC cc T j x cc' : 0 <= j -> set_nth_v (Z.to_nat j) x cc = Some cc' -> cell_set (HT cc T) (S L) j x = Some (HT cc' T).
Proof. intros Hj E. rewrite !HT_pre. apply cell_set_at; [rewrite app_length; cbn; lia|exact Hj|exact E]. Qed.
Lemma HT_inj cc T1 T2 : HT cc T1 = HT cc T2 -> T1 = T2.
Proof. unfold HT. intros E. apply app_inv_head in E. congruence. Qed.

Definition ts_loop : stmt :=
  match fbody prog_sbdf_ts_read with
  | SSeq _ (SSeq _ (SSeq _ (SSeq _ (SSeq _ (SSeq _ (SSeq _ (SSeq _ (SSeq _ (SSeq _ (SSeq _ (SSeq _ (SSeq _ (SSeq _ (SSeq _ (SSeq (SSeq _ w) _))))))))))))))) => w
  | _ => SSkip
  end.

Definition lts (i st : Z) (a1 : val) (cc : list val) (T : heap) (k : Z) (s m : list Z) : state :=
  trf (Build_trl (VInt n) (VInt st) (VInt i) (VCell L 0) (VInt 3) a1 (VInt cap) so) k s (HT cc T) m.

Ltac unlt := unfold lts; untr.

Lemma neg_cs_skip : neg (cs_skip false).
Proof.
  unfold cs_skip. apply neg_bind; [apply neg_sec_expect|intros _]. apply neg_bind; [apply neg_va_skip|intros _]. apply neg_bind; [apply neg_read_int32|intros v].
  destruct (v <? 0); [apply neg_fail; reflexivity|]. apply neg_bind; [apply neg_rrepeat, neg_skip_prop|intros; apply neg_ret].
Qed.
Lemma shr_cs_skip : shr (cs_skip false).
Proof.
  unfold cs_skip. apply shr_bind; [apply shr_sec_expect|intros _]. apply shr_bind; [apply shr_va_skip|intros _]. apply shr_bind; [apply shr1_shr, shr1_read_int32|intros v].
  destruct (v <? 0); [apply shr_fail|]. apply shr_bind; [apply shr_rrepeat, shr1_shr, shr1_skip_prop|intros; apply shr_ret].
Qed.

(* the model's readers along the columns, a column the subset leaves out being skipped *)
Definition csk_end (s : list Z) : option (list Z) := match cs_skip false s with Ok (_, s') => Some s' | Err _ => None end.
Fixpoint colsf_nobit (rem : nat) (i : Z) (s : list Z) : Prop :=
  match rem with
  | O => True
  | S r => (if sel i then cs_nobit s else True) /\ match (if sel i then cs_end s else csk_end s) with Some s' => colsf_nobit r (i + 1) s' | None => True end
  end.
Fixpoint colsf_end (rem : nat) (i : Z) (s : list Z) : option (list Z) :=
  match rem with
  | O => Some s
  | S r => match (if sel i then cs_end s else csk_end s) with Some s' => colsf_end r (i + 1) s' | None => None end
  end.

(* ... and the status of the first column that cannot be read or skipped *)
Fixpoint colsf_st (rem : nat) (i : Z) (s : list Z) : Z :=
  match rem with
  | O => SBDF_OK
  | S r => if sel i then (if cs_st s =? SBDF_OK then match cs_end s with Some s' => colsf_st r (i + 1) s' | None => cs_st s end else cs_st s)
           else match cs_skip false s with Ok (_, s') => colsf_st r (i + 1) s' | Err e => e end
  end.

Lemma ts_loop_bs : forall rem i hs blocks a1 k s m,
  Z.of_nat rem = n - i -> 0 <= i -> zlen hs = i -> cols_sem m (S (S L)) hs blocks -> Forall byte s -> colsf_nobit rem i s -> flags_in m ->
  (exists hs' blocks' a1' k' s' m',
     bsE prog_env ts_loop (lts i 0 a1 (hs ++ zeros (Z.to_nat (cap - i))) blocks k s m) (ONormal (lts n 0 a1' (hs' ++ zeros (Z.to_nat (cap - n))) blocks' k' s' m')) /\
     prefix_of m m' /\ zlen hs' = n /\ cols_sem m' (S (S L)) hs' blocks' /\ colsf_end rem i s = Some s' /\ (k < 0 -> k' = k /\ colsf_st rem i s = SBDF_OK))
  \/ (exists st i' a1' k' s' m' j, st < 0 /\ prefix_of m m' /\ (k < 0 -> st = colsf_st rem i s) /\
        bsE prog_env ts_loop (lts i 0 a1 (hs ++ zeros (Z.to_nat (cap - i))) blocks k s m)
          (OReturn (VInt st) (trf (Build_trl (VInt n) (VInt st) (VInt i') (VCell L 0) (VInt 3) a1' (VInt cap) so) k' s' (h ++ nones j) m'))).
Proof.
  assert (Hc1 : n <= cap) by (apply cap_loop_enough; lia).
  assert (COND : forall i st a1 cc T kk ss mm, eval (EBin Lt (EVar "i") (ECellLoad (EVar "t") (EConst 1) false))%string (lts i st a1 cc T kk ss mm) = Some (VInt (b2z (i <? n)), lts i st a1 cc T kk ss mm)).
  { intros. unlt. evs. chk7. evs. rewrite HT_getT by lia. unfold tsl. change (Z.to_nat (0 + 1)) with 1%nat. cbn [nth_error]. evs. reflexivity. }
  assert (SUB : forall i st a cc T kk ss mm, 0 <= i < n -> flags_in mm ->
            eval (ELOr (ELNot (EVar "subset")) (ECast TInt (EDeref (EPtrAdd (EVar "subset") (EVar "i")))))%string (lts i st a cc T kk ss mm) = Some (VInt (b2z (sel i)), lts i st a cc T kk ss mm)).
  { intros i st a cc T kk ss mm Hi F. unlt. unfold sel, sv. destruct sub as [[q fl]|] eqn:Esub; [|evs; reflexivity].
    destruct (flags_load mm [("f"%string, fv); ("meta"%string, VCell tmb 0); ("subset"%string, VPtr RIn q); ("out"%string, ov); ("column_count"%string, VInt n); ("error"%string, VInt st);
          ("i"%string, VInt i); ("t"%string, VCell L 0); ("v"%string, VInt 3); ("$a1"%string, a); ("$c1"%string, VInt cap); ("*out"%string, so); (budget_var, bv); (fail_var, VInt kk); (strm_var, VBytes ss);
          (cells_var, VHeap (HT cc T))] o i q fl Esub F Hi) as (Hlen & Hq & LD & Hf).
    evs. unfold ptr_add. cbn [inb]. rewrite zlen_length. replace ((0 <=? q + i) && (q + i <=? zlen mm)) with true by lia. evs. rewrite LD. evs.
    unfold sgn. destruct (nth (Z.to_nat i) fl 0 <? 128) eqn:E8; chk7; evs; cbn [truth];
      [destruct (nth (Z.to_nat i) fl 0 =? 0) eqn:E0; reflexivity|replace (nth (Z.to_nat i) fl 0 - 256 =? 0) with false by lia; replace (nth (Z.to_nat i) fl 0 =? 0) with false by lia; reflexivity]. }
  induction rem as [|rem IH]; intros i hs blocks a1 k s m Hrem Hi Hhs C Hs NBC Fl.
  - left. assert (Ei : i = n) by lia. rewrite Ei in *. clear Ei.
    exists hs, blocks, a1, k, s, m. split; [|split; [exists []; now rewrite app_nil_r|split; [exact Hhs|split; [exact C|split; [reflexivity|intros _; split; reflexivity]]]]].
    unfold ts_loop. cbn [fbody prog_sbdf_ts_read]. eapply bsE_while_f; [apply COND|rewrite Z.ltb_irrefl; reflexivity].
  - assert (Hin : i < n) by lia.
    assert (Hz : Z.to_nat (cap - i) = S (Z.to_nat (cap - (i + 1)))) by lia. rewrite Hz.
    set (n1 := Z.to_nat (cap - (i + 1))).
    set (cc0 := hs ++ zeros (S n1)).
    set (a := Z.to_nat (n - i - 1)). set (b := Z.to_nat (cap - n)).
    assert (Hn1 : n1 = (a + b)%nat) by (unfold n1, a, b; lia).
    assert (Zs : forall x y, zeros (x + y) = zeros x ++ zeros y) by (intros; unfold zeros; apply repeat_app).
    assert (ZN : forall x, Forall (fun c => as_ptr c = VNull) (zeros x)) by (intros x; unfold zeros; apply Forall_forall; intros c Hc; apply repeat_spec in Hc; subst c; reflexivity).
    cbn [colsf_nobit colsf_end colsf_st] in NBC |- *.
    destruct (sel i) eqn:Esel.
    + (* the column is read *)
      destruct NBC as ((NB1 & NBP1) & NBC).
      destruct (cs_read_gen bv o rf ROut fo 0 VNull k s (HT cc0 blocks) m Hs NB1 NBP1 (props_ok bv o rf ROut fo 0 VNull (HT cc0 blocks)))
        as (st1 & l1 & k1 & s1 & h1 & m1 & CR & (x1 & Hm1) & Out1 & CST1).
      rewrite HT_len in Out1.
      assert (Htl : exists X, h1 = HT cc0 (blocks ++ X)) by (destruct Out1 as [(_ & _ & (hnew & -> & _) & _)|(_ & _ & j & ->)]; eexists; apply HT_app).
      destruct Htl as (X & Htl).
      assert (So1 : storable (c_so l1) = true) by (destruct Out1 as [(_ & -> & _)|(_ & -> & _)]; reflexivity).
      assert (Hmm1 : zlen m <= zlen m1) by (rewrite Hm1, zlen_app; pose proof (zlen_nonneg x1); lia).
      assert (Fl1 : flags_in m1) by (rewrite Hm1; apply flags_in_app; exact Fl).
      assert (C3 : bsE prog_env (SSeq (SExpr (EAssign "$a1" (ECellLoad (ECellLoad (EVar "t") (EConst 2) true) (EVar "i") true))) (SSeq (SCall (Some "error") "sbdf_cs_read" [(AVal (EVar "f")); (AAddr "$a1")]) (SExpr (ECellStore (ECellLoad (EVar "t") (EConst 2) true) (EVar "i") (EVar "$a1")))))%string
                     (lts i 0 a1 cc0 blocks k s m) (ONormal (lts i st1 (c_so l1) (hs ++ c_so l1 :: zeros n1) (blocks ++ X) k1 s1 m1))).
      { revert CR So1. rewrite Htl. destruct l1 as [q1 q2 q3 q4 q5 q6 q7 q8 q9 q10]. unfold crf, crl0, fr. cbn [c_cap c_err c_i c_t c_v c_a1 c_a2 c_a3 c_goto c_so app]. unlt. intros CR So1.
        eapply bsE_seq; [eapply bsE_expr; evs; chk7; evs; rewrite HT_getT by lia; unfold tsl; change (Z.to_nat (0 + 2)) with 2%nat; cbn [nth_error]; evs; replace (0 + i) with i by lia;
                         rewrite HT_getC by lia; unfold cc0; rewrite (nth_zeros' hs n1 i Hhs); evs; reflexivity|].
        eapply bsE_seq; [eapply bsE_call; [reflexivity|evs; reflexivity|reflexivity|exact CR|evs; reflexivity]|].
        eapply bsE_expr. evs. chk7. evs. rewrite HT_getT by lia. unfold tsl. change (Z.to_nat (0 + 2)) with 2%nat. cbn [nth_error]. evs. replace (0 + i) with i by lia.
        destruct q10; try discriminate So1; evs; (erewrite HT_setC; [|lia|unfold cc0; apply (set_zeros hs n1 i _ Hhs)]); evs; reflexivity. }
      pose proof (SUB i 0 a1 cc0 blocks k s m ltac:(lia) Fl) as SB. rewrite Esel in SB.
      destruct Out1 as [(-> & Ho1 & (hnew & Hh1 & Hnn & CS) & s1' & va & s2 & v & s3 & E1 & E2 & E3 & E4 & E5 & Hs1)|(Hneg1 & Ho1 & j & Hh1)].
      2: { (* the column cannot be read: the table slice is released *)
        right. assert (X = nones j) by (rewrite Htl, HT_app in Hh1; apply HT_inj in Hh1; apply app_inv_head in Hh1; exact Hh1). subst X.
        rewrite Ho1 in C3.
        pose proof (ts_destroy_read_bs k1 s1 m1 h (VCell tmb 0) n hs (VNull :: zeros a) (zeros b) blocks (nones j) VUndef (cols_mono m m1 Hmm1 _ _ _ C)
                      ltac:(rewrite zlen_cons, zlen_zeros; unfold a; lia) ltac:(unfold int_max; lia) ltac:(constructor; [reflexivity|apply ZN])) as D.
        replace (hs ++ (VNull :: zeros a) ++ zeros b) with (hs ++ VNull :: zeros n1) in D by (cbn [app]; rewrite <- Zs, Hn1; reflexivity).
        fold tsl in D. unfold fr in D. cbn [app] in D.
        exists st1, i, VNull, k1, s1, m1, (2 + List.length blocks + j)%nat. split; [exact Hneg1|]. split; [exists x1; exact Hm1|].
        split; [intros Hk0; destruct (CST1 Hk0) as (Q1 & _); rewrite <- Q1; replace (st1 =? SBDF_OK) with false by (unfold SBDF_OK; lia); reflexivity|].
        replace (h ++ nones (2 + List.length blocks + j)) with (h ++ None :: None :: nones (List.length blocks) ++ nones j) by (rewrite nones_app; reflexivity).
        unfold ts_loop. cbn [fbody prog_sbdf_ts_read].
        eapply bsE_while_ret; [apply COND|replace (i <? n) with true by lia; reflexivity|].
        eapply bsE_seq_ret. eapply bsE_seq; [eapply bsE_if; [exact SB|reflexivity|exact C3]|].
        unlt. eapply bsE_if; [evs; reflexivity|cbn [truth]; replace (st1 =? 0) with false by lia; reflexivity|].
        eapply bsE_seq; [eapply bsE_call_void; [reflexivity|evs; reflexivity|reflexivity|evs; exact D|evs; reflexivity]|].
        eapply bsE_return. evs. reflexivity. }
      assert (X = hnew) by (rewrite Htl, HT_app in Hh1; apply HT_inj in Hh1; apply app_inv_head in Hh1; exact Hh1). subst X.
      rewrite Ho1 in C3. rewrite HT_len in CS.
      assert (CE : cs_end s = Some s1) by (unfold cs_end; rewrite E1, E2, E3; replace ((v <? 0) || (134217727 <? v)) with false by lia; exact E5).
      rewrite CE in NBC |- *.
      set (hb := VCell (S (S L) + List.length blocks) 0) in *.
      assert (C1 : cols_sem m1 (S (S L)) (hs ++ [hb]) (blocks ++ hnew)) by (apply cols_snoc; [apply (cols_mono m m1 Hmm1); exact C|exact Hnn|exact CS]).
      destruct (IH (i + 1) (hs ++ [hb]) (blocks ++ hnew) hb k1 s1 m1 ltac:(lia) ltac:(lia) ltac:(rewrite zlen_app; change (zlen [hb]) with 1; lia) C1 Hs1 NBC Fl1)
        as [(hs' & blocks' & a1' & k' & s' & m' & BL & (x3 & Hm') & R1 & R2 & R3 & R4)|(st & i' & a1' & k' & s' & m' & j & Hneg & (x3 & Hm') & RS & BL)].
      * left. exists hs', blocks', a1', k', s', m'. split; [|split; [exists (x1 ++ x3); rewrite Hm', Hm1, app_assoc; reflexivity|split; [exact R1|split; [exact R2|split; [exact R3|]]]]].
        2: { intros Hk0. destruct (CST1 Hk0) as (Q1 & Q2). rewrite <- Q1. change (SBDF_OK =? SBDF_OK) with true. cbv iota. specialize (Q2 eq_refl). rewrite Q2 in R4. destruct (R4 Hk0) as (R5 & R6). split; [exact R5|exact R6]. }
        rewrite <- app_assoc in BL. cbn [app] in BL. fold n1 in BL.
        unfold ts_loop in *. cbn [fbody prog_sbdf_ts_read] in *.
        eapply bsE_while_t; [apply COND|replace (i <? n) with true by lia; reflexivity| |exact BL].
        eapply bsE_seq; [eapply bsE_seq; [eapply bsE_if; [exact SB|reflexivity|exact C3]|unlt; eapply bsE_if; [evs; reflexivity|reflexivity|apply bsE_skip]]|].
        unlt. eapply bsE_expr. evs. unfold incr. chk7. evs. reflexivity.
      * right. exists st, i', a1', k', s', m', j. split; [exact Hneg|]. split; [exists (x1 ++ x3); rewrite Hm', Hm1, app_assoc; reflexivity|].
        split; [intros Hk0; destruct (CST1 Hk0) as (Q1 & Q2); rewrite <- Q1; change (SBDF_OK =? SBDF_OK) with true; cbv iota; specialize (Q2 eq_refl); rewrite Q2 in RS; exact (RS Hk0)|].
        rewrite <- app_assoc in BL. cbn [app] in BL. fold n1 in BL.
        unfold ts_loop in *. cbn [fbody prog_sbdf_ts_read] in *.
        eapply bsE_while_t; [apply COND|replace (i <? n) with true by lia; reflexivity| |exact BL].
        eapply bsE_seq; [eapply bsE_seq; [eapply bsE_if; [exact SB|reflexivity|exact C3]|unlt; eapply bsE_if; [evs; reflexivity|reflexivity|apply bsE_skip]]|].
        unlt. eapply bsE_expr. evs. unfold incr. chk7. evs. reflexivity.
    + (* the subset leaves the column out: it is skipped *)
      destruct NBC as (_ & NBC).
      pose proof (SUB i 0 a1 cc0 blocks k s m ltac:(lia) Fl) as SB. rewrite Esel in SB.
      pose proof (cs_skip_bsS k (HT cc0 blocks) m rf fo VUndef VUndef bv s o Hs) as CK. unfold csk_end in *.
      destruct (cs_skip false s) as [[u s1]|st1] eqn:ECK.
      * destruct CK as (e' & v' & CK). pose proof (proj1 (shr_cs_skip s u s1 Hs ECK)) as Hs1.
        assert (K3 : bsE prog_env (SCall (Some "error") "sbdf_cs_skip" [(AVal (EVar "f"))])%string (lts i 0 a1 cc0 blocks k s m) (ONormal (lts i 0 a1 cc0 blocks k s1 m))).
        { revert CK. unfold ckS. unlt. intros CK. eapply bsE_call; [reflexivity|evs; reflexivity|reflexivity|exact CK|evs; reflexivity]. }
        assert (C1 : cols_sem m (S (S L)) (hs ++ [VInt 0]) blocks) by (apply cols_snoc_skip; [exact C|reflexivity]).
        destruct (IH (i + 1) (hs ++ [VInt 0]) blocks a1 k s1 m ltac:(lia) ltac:(lia) ltac:(rewrite zlen_app; change (zlen [VInt 0]) with 1; lia) C1 Hs1 NBC Fl)
          as [(hs' & blocks' & a1' & k' & s' & m' & BL & Pf & R1 & R2 & R3 & R4)|(st & i' & a1' & k' & s' & m' & j & Hneg & Pf & RS & BL)].
        -- left. exists hs', blocks', a1', k', s', m'. split; [|split; [exact Pf|split; [exact R1|split; [exact R2|split; [exact R3|exact R4]]]]].
           rewrite <- app_assoc in BL. cbn [app] in BL. fold n1 in BL. change (VInt 0 :: zeros n1) with (zeros (S n1)) in BL. fold cc0 in BL.
           unfold ts_loop in *. cbn [fbody prog_sbdf_ts_read] in *.
           eapply bsE_while_t; [apply COND|replace (i <? n) with true by lia; reflexivity| |exact BL].
           eapply bsE_seq; [eapply bsE_seq; [eapply bsE_if; [exact SB|reflexivity|exact K3]|unlt; eapply bsE_if; [evs; reflexivity|reflexivity|apply bsE_skip]]|].
           unlt. eapply bsE_expr. evs. unfold incr. chk7. evs. reflexivity.
        -- right. exists st, i', a1', k', s', m', j. split; [exact Hneg|]. split; [exact Pf|]. split; [exact RS|].
           rewrite <- app_assoc in BL. cbn [app] in BL. fold n1 in BL. change (VInt 0 :: zeros n1) with (zeros (S n1)) in BL. fold cc0 in BL.
           unfold ts_loop in *. cbn [fbody prog_sbdf_ts_read] in *.
           eapply bsE_while_t; [apply COND|replace (i <? n) with true by lia; reflexivity| |exact BL].
           eapply bsE_seq; [eapply bsE_seq; [eapply bsE_if; [exact SB|reflexivity|exact K3]|unlt; eapply bsE_if; [evs; reflexivity|reflexivity|apply bsE_skip]]|].
           unlt. eapply bsE_expr. evs. unfold incr. chk7. evs. reflexivity.
      * (* the column cannot be skipped: the table slice is released *)
        destruct CK as (e' & v' & s1 & CK). pose proof (neg_cs_skip s st1 ECK) as Hneg1.
        assert (K3 : bsE prog_env (SCall (Some "error") "sbdf_cs_skip" [(AVal (EVar "f"))])%string (lts i 0 a1 cc0 blocks k s m) (ONormal (lts i st1 a1 cc0 blocks k s1 m))).
        { revert CK. unfold ckS. unlt. intros CK. eapply bsE_call; [reflexivity|evs; reflexivity|reflexivity|exact CK|evs; reflexivity]. }
        right.
        pose proof (ts_destroy_read_bs k s1 m h (VCell tmb 0) n hs (zeros (S a)) (zeros b) blocks [] VUndef C
                      ltac:(rewrite zlen_zeros; unfold a; lia) ltac:(unfold int_max; lia) (ZN _)) as D.
        replace (hs ++ zeros (S a) ++ zeros b) with cc0 in D by (unfold cc0; rewrite <- Zs; do 2 f_equal; lia).
        rewrite !app_nil_r in D. fold tsl in D. unfold fr in D. cbn [app] in D.
        exists st1, i, a1, k, s1, m, (2 + List.length blocks)%nat. split; [exact Hneg1|]. split; [exists []; now rewrite app_nil_r|]. split; [intros _; reflexivity|].
        replace (h ++ nones (2 + List.length blocks)) with (h ++ None :: None :: nones (List.length blocks)) by reflexivity.
        unfold ts_loop. cbn [fbody prog_sbdf_ts_read].
        eapply bsE_while_ret; [apply COND|replace (i <? n) with true by lia; reflexivity|].
        eapply bsE_seq_ret. eapply bsE_seq; [eapply bsE_if; [exact SB|reflexivity|exact K3]|].
        unlt. eapply bsE_if; [evs; reflexivity|cbn [truth]; replace (st1 =? 0) with false by lia; reflexivity|].
        eapply bsE_seq; [eapply bsE_call_void; [reflexivity|evs; reflexivity|reflexivity|evs; exact D|evs; reflexivity]|].
        eapply bsE_return. evs. reflexivity.
Qed.

(* the status of the whole call when no allocation fails *)
Definition ts_st (sx : list Z) : Z :=
  match sec_read sx with
  | Err e => e
  | Ok (x, s1) =>
    if x =? 5 then SBDF_TABLEEND else if negb (x =? 3) then SBDF_ERROR_UNEXPECTED_SECTION_ID else
    match read_int32 false s1 with
    | Err e => e
    | Ok (cnt, s2) => if cnt <? 0 then SBDF_ERROR_INVALID_SIZE else if negb (cnt =? n) then SBDF_ERROR_COLUMN_COUNT_MISMATCH else colsf_st (Z.to_nat n) 0 s2
    end
  end.

Definition trl0 : trl := Build_trl VUndef VUndef VUndef VUndef VUndef VUndef VUndef so.

(* the statuses of the table-slice framing (before anything is allocated) *)
Definition ts_frame_status (sx : list Z) (st : Z) : Prop :=
  match sec_read sx with
  | Err e => st = e
  | Ok (x, s1) =>
    if x =? 5 then st = SBDF_TABLEEND else if negb (x =? 3) then st = SBDF_ERROR_UNEXPECTED_SECTION_ID else
    match read_int32 false s1 with
    | Err e => st = e
    | Ok (cnt, _) => if cnt <? 0 then st = SBDF_ERROR_INVALID_SIZE else if negb (cnt =? n) then st = SBDF_ERROR_COLUMN_COUNT_MISMATCH else True
    end
  end.

Lemma ts_read_bs k sx m : Forall byte sx -> flags_in m ->
  (forall s1 s2, sec_read sx = Ok (3, s1) -> read_int32 false s1 = Ok (n, s2) -> colsf_nobit (Z.to_nat n) 0 s2) ->
  exists st l' k' s' h' m',
    bsE prog_env (fbody prog_sbdf_ts_read) (trf trl0 k sx h m) (OReturn (VInt st) (trf l' k' s' h' m')) /\ prefix_of m m' /\ ts_frame_status sx st /\
    ((st = SBDF_OK /\ t_so l' = VCell L 0 /\
        (exists hs blocks, h' = HT (hs ++ zeros (Z.to_nat (cap - n))) blocks /\ zlen hs = n /\ cols_sem m' (S (S L)) hs blocks) /\
        exists s1 s2, sec_read sx = Ok (3, s1) /\ read_int32 false s1 = Ok (n, s2) /\ colsf_end (Z.to_nat n) 0 s2 = Some s')
     \/ (st < 0 /\ t_so l' = so /\ exists j, h' = h ++ nones j)) /\
    (k < 0 -> st = ts_st sx).
Proof.
  intros Hs Fl NBC. unfold ts_frame_status, ts_st.
  assert (Hc1 : n <= cap) by (apply cap_loop_enough; lia).
  pose proof (sec_read_bs2 bv o fv (VPtr ROut 0) VUndef VUndef VUndef VUndef k sx h m I I Hs) as SR.
  (* the declarations and the argument check *)
  assert (HEAD : forall X oo, bsE prog_env X (trf (Build_trl VUndef VUndef VUndef VUndef VUndef VUndef VUndef so) k sx h m) oo ->
     bsE prog_env (SSeq (SDecl "t" None) (SSeq (SSeq (SDecl "error" None) (SSeq (SDecl "v" None) (SSeq (SDecl "i" None) (SDecl "column_count" None)))) (SSeq (SIf (ELOr (ELNot (EVar "meta")) (ELNot (EVar "out"))) (SReturn (EBin Sub (EConst 0) (EConst (1)))) SSkip) X)))%string
       (trf trl0 k sx h m) oo).
  { intros X oo B. revert B. unfold trl0. untr. intros B.
    eapply bsE_seq; [eapply bsE_decl0; evs; reflexivity|].
    eapply bsE_seq; [eapply bsE_seq; [eapply bsE_decl0; evs; reflexivity|eapply bsE_seq; [eapply bsE_decl0; evs; reflexivity|eapply bsE_seq; [eapply bsE_decl0; evs; reflexivity|eapply bsE_decl0; evs; reflexivity]]]|].
    eapply bsE_seq; [eapply bsE_if; [evs; reflexivity|reflexivity|apply bsE_skip]|]. exact B. }
  destruct (sec_read sx) as [[x s1]|st0] eqn:ESR.
  2: { (* no section marker *)
    destruct SR as (e' & v' & r' & s' & SR).
    assert (Hneg : st0 < 0) by (destruct (sec_read_err sx st0 ESR) as [-> | ->]; reflexivity).
    exists st0. eexists (Build_trl _ _ _ _ _ _ _ _). do 4 eexists. split; [|split; [exists []; now rewrite app_nil_r|split; [reflexivity|split; [right; split; [exact Hneg|split; [reflexivity|exists 0%nat; cbn; now rewrite app_nil_r]]|intros _; reflexivity]]]].
    cbn [fbody prog_sbdf_ts_read]. apply HEAD. untr.
    eapply bsE_seq_ret. eapply bsE_seq; [eapply bsE_call; [reflexivity|evs; reflexivity|reflexivity|exact SR|unfold sr2, fr; evs; reflexivity]|].
    eapply bsE_if; [evs; reflexivity|cbn [truth]; replace (st0 =? 0) with false by lia; reflexivity|]. eapply bsE_return. evs. reflexivity. }
  destruct SR as (e' & v' & r' & SR).
  assert (Hs1 : Forall byte s1).
  { assert (SE : sec_expect x sx = Ok (tt, s1)) by (unfold sec_expect, rd_bind, rret; rewrite ESR, Z.eqb_refl; reflexivity).
    exact (proj1 (shr_sec_expect x sx tt s1 Hs SE)). }
  (* ... the section marker has been read *)
  assert (HEAD2 : forall X oo, bsE prog_env X (trf (Build_trl VUndef (VInt SBDF_OK) VUndef VUndef (VInt x) VUndef VUndef so) k s1 h m) oo ->
     bsE prog_env (SSeq (SSeq (SCall (Some "error") "sbdf_sec_read" [(AVal (EVar "f")); (AAddr "v")]) (SIf (EVar "error") (SReturn (EVar "error")) SSkip)) X)%string
       (trf (Build_trl VUndef VUndef VUndef VUndef VUndef VUndef VUndef so) k sx h m) oo).
  { intros X oo B. revert B. untr. intros B.
    eapply bsE_seq; [|exact B]. eapply bsE_seq; [eapply bsE_call; [reflexivity|evs; reflexivity|reflexivity|exact SR|unfold sr2, fr; evs; reflexivity]|eapply bsE_if; [evs; reflexivity|reflexivity|apply bsE_skip]]. }
  destruct (x =? 5) eqn:E5.
  { (* the end of the table *)
    exists (-1000). eexists (Build_trl _ _ _ _ _ _ _ _). do 4 eexists. split; [|split; [exists []; now rewrite app_nil_r|split; [try reflexivity; exact I|split; [right; split; [reflexivity|split; [reflexivity|exists 0%nat; cbn; now rewrite app_nil_r]]|first [intros _; reflexivity|intros X; lia]]]]].
    cbn [fbody prog_sbdf_ts_read]. apply HEAD. apply HEAD2. untr.
    eapply bsE_seq_ret. eapply bsE_if; [evs; chk7; evs; rewrite E5; reflexivity|reflexivity|]. eapply bsE_return. evs. chk7. reflexivity. }
  destruct (x =? 3) eqn:E3.
  2: { (* some other section *)
    exists SBDF_ERROR_UNEXPECTED_SECTION_ID. eexists (Build_trl _ _ _ _ _ _ _ _). do 4 eexists. split; [|split; [exists []; now rewrite app_nil_r|split; [try reflexivity; exact I|split; [right; split; [reflexivity|split; [reflexivity|exists 0%nat; cbn; now rewrite app_nil_r]]|first [intros _; reflexivity|intros X; lia]]]]].
    cbn [fbody prog_sbdf_ts_read]. apply HEAD. apply HEAD2. untr.
    eapply bsE_seq_ret. eapply bsE_if; [evs; chk7; evs; rewrite E5; reflexivity|reflexivity|].
    eapply bsE_if; [evs; chk7; evs; rewrite E3; reflexivity|reflexivity|]. eapply bsE_return. evs. chk7. reflexivity. }
  assert (x = 3) by lia. subst x.
  pose proof (read_int32_bs2 h fv (VPtr ROut 0) VUndef bv k s1 m o I I Hs1) as RI.
  assert (HEAD3 : forall X oo, bsE prog_env X (trf (Build_trl VUndef (VInt SBDF_OK) VUndef VUndef (VInt 3) VUndef VUndef so) k s1 h m) oo ->
     bsE prog_env (SSeq (SIf (EBin Eq (EVar "v") (EConst (5))) (SReturn (EBin Sub (EConst 0) (EConst (1000)))) (SIf (EBin Ne (EVar "v") (EConst (3))) (SReturn (EBin Sub (EConst 0) (EConst (13)))) SSkip)) X)%string
       (trf (Build_trl VUndef (VInt SBDF_OK) VUndef VUndef (VInt 3) VUndef VUndef so) k s1 h m) oo).
  { intros X oo B. revert B. untr. intros B.
    eapply bsE_seq; [|exact B]. eapply bsE_if; [evs; chk7; evs; reflexivity|reflexivity|]. eapply bsE_if; [evs; chk7; evs; reflexivity|reflexivity|apply bsE_skip]. }
  destruct (read_int32 false s1) as [[cnt s2]|e] eqn:ER.
  2: { (* the column count cannot be read *)
    destruct RI as (c' & s' & RI). pose proof (read_int32_err s1 e ER). subst e.
    exists SBDF_ERROR_IO. eexists (Build_trl _ _ _ _ _ _ _ _). do 4 eexists. split; [|split; [exists []; now rewrite app_nil_r|split; [try reflexivity; exact I|split; [right; split; [reflexivity|split; [reflexivity|exists 0%nat; cbn; now rewrite app_nil_r]]|first [intros _; reflexivity|intros X; lia]]]]].
    cbn [fbody prog_sbdf_ts_read]. apply HEAD. apply HEAD2. apply HEAD3. untr.
    eapply bsE_seq_ret. eapply bsE_seq; [eapply bsE_call; [reflexivity|evs; reflexivity|reflexivity|exact RI|unfold ri2; evs; reflexivity]|].
    eapply bsE_if; [evs; reflexivity|reflexivity|]. eapply bsE_return. evs. reflexivity. }
  destruct (read_int32_range s1 cnt s2 Hs1 ER) as (Hcnt & _). pose proof (read_int32_bytes s1 cnt s2 Hs1 ER) as Hs2.
  assert (HEAD4 : forall X oo, bsE prog_env X (trf (Build_trl (VInt cnt) (VInt SBDF_OK) VUndef VUndef (VInt 3) VUndef VUndef so) k s2 h m) oo ->
     bsE prog_env (SSeq (SSeq (SCall (Some "error") "sbdf_read_int32" [(AVal (EVar "f")); (AAddr "column_count")]) (SIf (EVar "error") (SReturn (EVar "error")) SSkip)) X)%string
       (trf (Build_trl VUndef (VInt SBDF_OK) VUndef VUndef (VInt 3) VUndef VUndef so) k s1 h m) oo).
  { intros X oo B. revert B. untr. intros B.
    eapply bsE_seq; [|exact B]. eapply bsE_seq; [eapply bsE_call; [reflexivity|evs; reflexivity|reflexivity|exact RI|unfold ri2; evs; reflexivity]|eapply bsE_if; [evs; reflexivity|reflexivity|apply bsE_skip]]. }
  destruct (cnt <? 0) eqn:Eneg.
  { exists SBDF_ERROR_INVALID_SIZE. eexists (Build_trl _ _ _ _ _ _ _ _). do 4 eexists. split; [|split; [exists []; now rewrite app_nil_r|split; [try reflexivity; exact I|split; [right; split; [reflexivity|split; [reflexivity|exists 0%nat; cbn; now rewrite app_nil_r]]|first [intros _; reflexivity|intros X; lia]]]]].
    cbn [fbody prog_sbdf_ts_read]. apply HEAD. apply HEAD2. apply HEAD3. apply HEAD4. untr.
    eapply bsE_seq_ret. eapply bsE_if; [evs; chk7; evs; rewrite Eneg; reflexivity|reflexivity|]. eapply bsE_return. evs. chk7. reflexivity. }
  destruct (cnt =? n) eqn:Ecn.
  2: { (* not the number of columns of the table *)
    exists SBDF_ERROR_COLUMN_COUNT_MISMATCH. eexists (Build_trl _ _ _ _ _ _ _ _). do 4 eexists. split; [|split; [exists []; now rewrite app_nil_r|split; [try reflexivity; exact I|split; [right; split; [reflexivity|split; [reflexivity|exists 0%nat; cbn; now rewrite app_nil_r]]|first [intros _; reflexivity|intros X; lia]]]]].
    cbn [fbody prog_sbdf_ts_read]. apply HEAD. apply HEAD2. apply HEAD3. apply HEAD4. untr.
    eapply bsE_seq; [eapply bsE_if; [evs; chk7; evs; rewrite Eneg; reflexivity|reflexivity|apply bsE_skip]|].
    eapply bsE_seq_ret. eapply bsE_if; [evs; chk7; evs; replace (0 + 1) with 1 by lia; rewrite Htm; evs; rewrite Ecn; reflexivity|reflexivity|]. eapply bsE_return. evs. chk7. reflexivity. }
  assert (cnt = n) by lia. subst cnt.
  assert (HEAD5 : forall X oo, bsE prog_env X (trf (Build_trl (VInt n) (VInt SBDF_OK) VUndef VUndef (VInt 3) VUndef VUndef so) k s2 h m) oo ->
     bsE prog_env (SSeq (SIf (EBin Lt (EVar "column_count") (EConst (0))) (SReturn (EBin Sub (EConst 0) (EConst (21)))) SSkip)
                  (SSeq (SIf (EBin Ne (EVar "column_count") (ECellLoad (EVar "meta") (EConst 1) false)) (SReturn (EBin Sub (EConst 0) (EConst (19)))) SSkip) X))%string
       (trf (Build_trl (VInt n) (VInt SBDF_OK) VUndef VUndef (VInt 3) VUndef VUndef so) k s2 h m) oo).
  { intros X oo B. revert B. untr. intros B.
    eapply bsE_seq; [eapply bsE_if; [evs; chk7; evs; rewrite Eneg; reflexivity|reflexivity|apply bsE_skip]|].
    eapply bsE_seq; [eapply bsE_if; [evs; chk7; evs; replace (0 + 1) with 1 by lia; rewrite Htm; evs; rewrite Ecn; reflexivity|reflexivity|apply bsE_skip]|]. exact B. }
  destruct (k =? 0) eqn:Ek0.
  { (* the struct cannot be allocated *)
    exists SBDF_ERROR_OUT_OF_MEMORY. eexists (Build_trl _ _ _ _ _ _ _ _). do 4 eexists. split; [|split; [exists []; now rewrite app_nil_r|split; [try reflexivity; exact I|split; [right; split; [reflexivity|split; [reflexivity|exists 0%nat; cbn; now rewrite app_nil_r]]|first [intros _; reflexivity|intros X; lia]]]]].
    cbn [fbody prog_sbdf_ts_read]. apply HEAD. apply HEAD2. apply HEAD3. apply HEAD4. apply HEAD5. untr.
    eapply bsE_seq; [eapply bsE_expr; evs; chk7; evs; rewrite Ek0; evs; reflexivity|].
    eapply bsE_seq_ret. eapply bsE_if; [evs; reflexivity|reflexivity|]. eapply bsE_return. evs. chk7. reflexivity. }
  set (k1 := dec k).
  assert (ALLOC : forall S X oo, bsE prog_env (SSeq S X) (trf (Build_trl (VInt n) (VInt SBDF_OK) VUndef (VCell L 0) (VInt 3) VUndef (VInt cap) so) k1 s2 (h ++ [Some [VInt 0; VInt 0; VInt 0; VInt 0]]) m) oo ->
     bsE prog_env (SSeq (SExpr (EAssign "t" (ECalloc (EConst 4)))) (SSeq (SIf (ELNot (EVar "t")) (SReturn (EBin Sub (EConst 0) (EConst (2)))) SSkip)
                  (SSeq (SSeq (SCall (Some "$c1") "sbdf_calculate_array_capacity" [(AVal (EVar "column_count"))]) S) X)))%string
       (trf (Build_trl (VInt n) (VInt SBDF_OK) VUndef VUndef (VInt 3) VUndef VUndef so) k s2 h m) oo).
  { intros S X oo B. revert B. untr. intros B.
    eapply bsE_seq; [eapply bsE_expr; evs; chk7; evs; rewrite Ek0; evs; reflexivity|]. cbn [inb outb].
    change (repeat (VInt 0) (Z.to_nat 4)) with [VInt 0; VInt 0; VInt 0; VInt 0]. fold (dec k). fold k1.
    eapply bsE_seq; [eapply bsE_if; [evs; reflexivity|reflexivity|apply bsE_skip]|].
    eapply bsE_seq_inner; [|exact B].
    eapply bsE_call; [reflexivity|evs; reflexivity|reflexivity|evs; apply (capacity_bs _ m o n VUndef ltac:(unfold int_min; lia))|unfold cap_st; evs; reflexivity]. }
  set (blk0 := [VInt 0; VInt 0; VInt 0; VInt 0]) in *.
  assert (LH : List.length (h ++ [Some blk0]) = S L) by (rewrite app_length; cbn; lia).
  assert (G0 : forall (b : list val) (r : heap) j, 0 <= j -> cell_get (h ++ Some b :: r) L j = nth_error b (Z.to_nat j)) by (intros; apply cell_get_at; [reflexivity|assumption]).
  destruct (k1 =? 0) eqn:Ek1.
  { (* the columns array cannot be allocated: the struct is released again *)
    exists SBDF_ERROR_OUT_OF_MEMORY. eexists (Build_trl _ _ _ _ _ _ _ _). do 4 eexists. split; [|split; [exists []; now rewrite app_nil_r|split; [exact I|split; [right; split; [reflexivity|split; [reflexivity|exists 1%nat; reflexivity]]|intros X; unfold k1, dec in Ek1; destruct (0 <? k) eqn:E0; lia]]]].
    cbn [fbody prog_sbdf_ts_read]. apply HEAD. apply HEAD2. apply HEAD3. apply HEAD4. apply HEAD5. apply ALLOC. untr.
    eapply bsE_seq; [eapply bsE_expr; evs; chk7; evs; replace (0 <=? cap) with true by lia; evs; rewrite Ek1; evs; chk7; evs; replace (0 <=? cap) with true by lia; evs; change (0 + 2) with 2;
                     rewrite (cell_set_at h blk0 [] L 2 VNull [VInt 0; VInt 0; VNull; VInt 0] eq_refl ltac:(lia) eq_refl); evs; reflexivity|].
    eapply bsE_seq_ret. eapply bsE_if; [evs; chk7; evs; rewrite G0 by lia; change (Z.to_nat (0 + 2)) with 2%nat; cbn [nth_error]; evs; reflexivity|reflexivity|].
    eapply bsE_seq; [eapply bsE_expr; evs; rewrite nth_at; evs; rewrite (set_nth_v_app h (Some [VInt 0; VInt 0; VNull; VInt 0]) None []); evs; reflexivity|].
    eapply bsE_return. evs. chk7. reflexivity. }
  set (k2 := dec k1).
  assert (ARR : bsE prog_env (SSeq (SExpr (ECellStore (EVar "t") (EConst 2) (ECalloc (ECast TSizeT (EVar "$c1"))))) (SSeq (SIf (ELNot (ECellLoad (EVar "t") (EConst 2) true)) (SSeq (SExpr (EFree (EVar "t"))) (SReturn (EBin Sub (EConst 0) (EConst (2))))) SSkip)
                 (SSeq (SExpr (ECellStore (EVar "t") (EConst 3) (EConst (1)))) (SSeq (SExpr (ECellStore (EVar "t") (EConst 0) (EVar "meta"))) (SSeq (SExpr (ECellStore (EVar "t") (EConst 1) (EVar "column_count"))) (SExpr (EAssign "i" (EConst (0)))))))))%string
                  (trf (Build_trl (VInt n) (VInt SBDF_OK) VUndef (VCell L 0) (VInt 3) VUndef (VInt cap) so) k1 s2 (h ++ [Some blk0]) m)
                  (ONormal (lts 0 0 VUndef (zeros (Z.to_nat cap)) [] k2 s2 m))).
  { unlt.
    eapply bsE_seq; [eapply bsE_expr; evs; chk7; evs; replace (0 <=? cap) with true by lia; evs; rewrite Ek1; evs; chk7; evs; replace (0 <=? cap) with true by lia; evs; change (0 + 2) with 2; rewrite LH; rewrite <- app_assoc; cbn [app];
                     rewrite (cell_set_at h blk0 _ L 2 (VCell (S L) 0) [VInt 0; VInt 0; VCell (S L) 0; VInt 0] eq_refl ltac:(lia) eq_refl); evs; reflexivity|]. fold (dec k1). fold k2.
    eapply bsE_seq; [eapply bsE_if; [evs; chk7; evs; rewrite G0 by lia; change (Z.to_nat (0 + 2)) with 2%nat; cbn [nth_error]; evs; reflexivity|reflexivity|apply bsE_skip]|].
    eapply bsE_seq; [eapply bsE_expr; evs; chk7; evs; chk7; (erewrite (cell_set_at h); [|reflexivity|lia|reflexivity]); evs; reflexivity|].
    eapply bsE_seq; [eapply bsE_expr; evs; chk7; evs; (erewrite (cell_set_at h); [|reflexivity|lia|reflexivity]); evs; reflexivity|].
    eapply bsE_seq; [eapply bsE_expr; evs; chk7; evs; (erewrite (cell_set_at h); [|reflexivity|lia|reflexivity]); evs; reflexivity|].
    eapply bsE_expr. evs. chk7. unfold HT, zeros. reflexivity. }
  specialize (NBC s1 s2 eq_refl ER).
  destruct (ts_loop_bs (Z.to_nat n) 0 [] [] VUndef k2 s2 m ltac:(lia) ltac:(lia) eq_refl (cols_nil _ _) Hs2 NBC Fl)
    as [(hs' & blocks' & a1' & k' & s' & m' & BL & Pf & R1 & R2 & R3 & R4)|(st & i' & a1' & k' & s' & m' & j & Hneg & Pf & RS & BL)].
  - (* every column was read *)
    exists SBDF_OK. eexists (Build_trl _ _ _ _ _ _ _ _). do 4 eexists. split; [|split; [exact Pf|split; [exact I|split; [left|intros X; symmetry; apply R4; unfold k2, k1, dec; destruct (0 <? k) eqn:E0; [lia|]; rewrite E0; exact X]]]].
    + cbn [fbody prog_sbdf_ts_read]. apply HEAD. apply HEAD2. apply HEAD3. apply HEAD4. apply HEAD5. apply ALLOC.
      cbn [app] in BL. replace (Z.to_nat (cap - 0)) with (Z.to_nat cap) in BL by lia.
      unfold ts_loop in BL. cbn [fbody prog_sbdf_ts_read] in BL.
      eapply bsE_seq_assoc6; [exact ARR|]. eapply bsE_seq; [exact BL|]. unlt.
      eapply bsE_seq; [eapply bsE_expr; evs; reflexivity|]. eapply bsE_return. evs. chk7. reflexivity.
    + split; [reflexivity|]. split; [reflexivity|]. split; [exists hs', blocks'; split; [reflexivity|split; [exact R1|exact R2]]|].
      exists s1, s2. split; [reflexivity|]. split; [exact ER|exact R3].
  - (* a column could not be read *)
    exists st. eexists (Build_trl _ _ _ _ _ _ _ _). do 4 eexists. split; [|split; [exact Pf|split; [exact I|split; [right; split; [exact Hneg|split; [reflexivity|exists j; reflexivity]]|intros X; apply RS; unfold k2, k1, dec; destruct (0 <? k) eqn:E0; [lia|]; rewrite E0; exact X]]]].
    cbn [fbody prog_sbdf_ts_read]. apply HEAD. apply HEAD2. apply HEAD3. apply HEAD4. apply HEAD5. apply ALLOC.
    cbn [app] in BL. replace (Z.to_nat (cap - 0)) with (Z.to_nat cap) in BL by lia.
    unfold ts_loop in BL. cbn [fbody prog_sbdf_ts_read] in BL.
    eapply bsE_seq_assoc6; [exact ARR|]. eapply bsE_seq_ret. exact BL.
Qed.
End Main.
End TsRead.

(* ================================================================== as a top-level call *)
Theorem ts_read_sub_source rf rp fo po k sx m (h : heap) tmb n sub : Forall byte sx -> 0 <= n <= 715827882 -> cell_get h tmb 1 = Some (VInt n) -> flags_in n sub m ->
  (forall s1 s2, sec_read sx = Ok (3, s1) -> read_int32 false s1 = Ok (n, s2) -> colsf_nobit sub (Z.to_nat n) 0 s2) ->
  exists f0, forall f, (f0 <= f)%nat -> exists st fin,
    callC prog_env f prog_sbdf_ts_read [VPtr rf fo; VCell tmb 0; sv sub; VPtr rp po] m k sx h = OReturn (VInt st) fin /\ prefix_of m (inb fin) /\ ts_frame_status n sx st /\
    ((st = SBDF_OK /\ lookup "*out" (vars fin) = Some (VCell (List.length h) 0) /\
        (exists s1 s2 s', sec_read sx = Ok (3, s1) /\ read_int32 false s1 = Ok (n, s2) /\ colsf_end sub (Z.to_nat n) 0 s2 = Some s' /\ lookup strm_var (vars fin) = Some (VBytes s')) /\
        exists hnew, lookup cells_var (vars fin) = Some (VHeap (h ++ hnew)) /\ (2 <= List.length hnew)%nat /\
          (* one sbdf_ts_destroy releases everything the read allocated: every column, the columns array, the struct *)
          forall k' s', exists f1, forall g, (f1 <= g)%nat -> exists fin2,
            callC prog_env g prog_sbdf_ts_destroy [VCell (List.length h) 0] (inb fin) k' s' (h ++ hnew) = ONormal fin2 /\
            inb fin2 = inb fin /\ lookup cells_var (vars fin2) = Some (VHeap (h ++ nones (List.length hnew))))
     \/ (st < 0 /\ lookup "*out" (vars fin) = Some VUndef /\ exists j, lookup cells_var (vars fin) = Some (VHeap (h ++ nones j)))) /\
    (* without allocation failures: the status of the framing, then of the first column that cannot be read / skipped *)
    (k < 0 -> st = ts_st n sub sx).
Proof.
  intros Hs Hn Htm Fl NBC.
  destruct (ts_read_bs (VInt 0) [] rf rp fo po VUndef h tmb n sub Hn Htm k sx m Hs Fl NBC) as (st & l' & k' & s' & h' & m' & B & Pf & FS & Out & TST).
  destruct (bsE_sound _ _ _ _ B) as (f0 & F). exists f0. intros f Hf. exists st. eexists. split; [apply F; exact Hf|]. split; [exact Pf|]. split; [exact FS|]. split; [|exact TST].
  destruct l' as [q1 q2 q3 q4 q5 q6 q7 q8]. cbn [t_so] in Out.
  destruct Out as [(-> & -> & (hs & blocks & -> & Hz & C) & s1 & s2 & E1 & E2 & E3)|(Hneg & -> & j & ->)].
  - left. split; [reflexivity|]. split; [reflexivity|]. split; [exists s1, s2, s'; repeat split; assumption|].
    eexists. split; [unfold HT; reflexivity|]. split; [cbn [List.length]; lia|].
    intros k2 s2'.
    pose proof (ts_destroy_read_bs (VInt 0) [] k2 s2' m' h (VCell tmb 0) n hs [] (zeros (Z.to_nat (array_capacity n - n))) blocks [] VUndef C
                  ltac:(change (zlen (@nil val)) with 0; lia) ltac:(unfold int_max; lia) (Forall_nil _)) as D.
    cbn [app] in D. rewrite !app_nil_r in D.
    destruct (bsE_sound _ _ _ _ D) as (f1 & F1). exists f1. intros g Hg. eexists. split; [apply F1; exact Hg|]. split; [reflexivity|].
    cbn [vars lookup fr app String.eqb Ascii.eqb Bool.eqb cells_var]. unfold fr. cbn [vars app lookup String.eqb Ascii.eqb Bool.eqb]. do 3 f_equal.
    cbn [List.length]. reflexivity.
  - right. split; [exact Hneg|]. split; [reflexivity|]. exists j. reflexivity.
Qed.

Lemma colsf_end_none : forall rem i s, colsf_end None rem i s = cols_end rem s.
Proof. induction rem as [|r IH]; intros i s; cbn [colsf_end cols_end sel]; [reflexivity|]. destruct (cs_end s); [apply IH|reflexivity]. Qed.
Lemma colsf_nobit_none : forall rem i s, cols_nobit rem s -> colsf_nobit None rem i s.
Proof. induction rem as [|r IH]; intros i s; cbn [colsf_nobit cols_nobit sel]; [trivial|]. intros (A & B). split; [exact A|]. destruct (cs_end s); [apply IH; exact B|exact I]. Qed.

(* without a column subset *)
Theorem ts_read_source rf rp fo po k sx m (h : heap) tmb n : Forall byte sx -> 0 <= n <= 715827882 -> cell_get h tmb 1 = Some (VInt n) ->
  (forall s1 s2, sec_read sx = Ok (3, s1) -> read_int32 false s1 = Ok (n, s2) -> cols_nobit (Z.to_nat n) s2) ->
  exists f0, forall f, (f0 <= f)%nat -> exists st fin,
    callC prog_env f prog_sbdf_ts_read [VPtr rf fo; VCell tmb 0; VNull; VPtr rp po] m k sx h = OReturn (VInt st) fin /\ prefix_of m (inb fin) /\ ts_frame_status n sx st /\
    ((st = SBDF_OK /\ lookup "*out" (vars fin) = Some (VCell (List.length h) 0) /\
        (exists s1 s2 s', sec_read sx = Ok (3, s1) /\ read_int32 false s1 = Ok (n, s2) /\ cols_end (Z.to_nat n) s2 = Some s' /\ lookup strm_var (vars fin) = Some (VBytes s')) /\
        exists hnew, lookup cells_var (vars fin) = Some (VHeap (h ++ hnew)) /\ (2 <= List.length hnew)%nat /\
          forall k' s', exists f1, forall g, (f1 <= g)%nat -> exists fin2,
            callC prog_env g prog_sbdf_ts_destroy [VCell (List.length h) 0] (inb fin) k' s' (h ++ hnew) = ONormal fin2 /\
            inb fin2 = inb fin /\ lookup cells_var (vars fin2) = Some (VHeap (h ++ nones (List.length hnew))))
     \/ (st < 0 /\ lookup "*out" (vars fin) = Some VUndef /\ exists j, lookup cells_var (vars fin) = Some (VHeap (h ++ nones j)))).
Proof.
  intros Hs Hn Htm NBC.
  destruct (ts_read_sub_source rf rp fo po k sx m h tmb n None Hs Hn Htm I (fun s1 s2 A B => colsf_nobit_none _ _ _ (NBC s1 s2 A B))) as (f0 & F).
  exists f0. intros f Hf. destruct (F f Hf) as (st & fin & C & Pf & FS & Out & _). exists st, fin. split; [exact C|]. split; [exact Pf|]. split; [exact FS|].
  destruct Out as [(E & Ho & (s1 & s2 & s' & A1 & A2 & A3 & A4) & R)|R]; [left|right; exact R].
  split; [exact E|]. split; [exact Ho|]. split; [|exact R]. exists s1, s2, s'. rewrite colsf_end_none in A3. repeat split; assumption.
Qed.

(* ================================================================== cs_end / cols_end are where the L1 model's readers (Slice.v) end *)
From Sbdf Require Import Slice.
Lemma props_end_of_model : forall fuel n s ps s', rrep fuel n (read_prop false None) s = Ok (ps, s') -> props_end (Z.to_nat n) s = Some s'.
Proof.
  induction fuel as [|x fuel IH]; intros n s ps s' E; cbn [rrep] in E.
  - destruct (n <=? 0) eqn:En; [injection E as _ <-; replace (Z.to_nat n) with 0%nat by lia; reflexivity|].
    destruct (read_prop false None s) as [[a t]|e]; discriminate.
  - destruct (n <=? 0) eqn:En; [injection E as _ <-; replace (Z.to_nat n) with 0%nat by lia; reflexivity|].
    replace (Z.to_nat n) with (S (Z.to_nat (n - 1))) by lia. cbn [props_end].
    destruct (read_prop false None s) as [[a s2]|e1] eqn:EP; [|discriminate].
    destruct (rrep fuel (n - 1) (read_prop false None) s2) as [[l s3]|e3] eqn:ER; [|discriminate].
    injection E as _ <-.
    revert EP. unfold read_prop, rd_bind, rret.
    destruct (read_string false None s) as [[nm s1]|]; [|discriminate].
    destruct (Va.va_read false None s1) as [[va sV]|]; [|discriminate].
    intros [= _ <-]. apply (IH (n - 1) sV l s3 ER).
Qed.

Lemma cs_end_of_model sx c s' : Slice.cs_read false None sx = Ok (c, s') -> cs_end sx = Some s'.
Proof.
  unfold Slice.cs_read, cs_end, rd_bind, rfail, rret, ralloc, alloc_ok.
  destruct (sec_expect SBDF_COLUMNSLICE_SECTIONID sx) as [[u s1]|]; [|discriminate].
  destruct (Va.va_read false None s1) as [[va s2]|]; [|discriminate].
  destruct (read_int32 false s2) as [[v s3]|]; [|discriminate].
  destruct (v <? 0); [discriminate|]. change (INT_MAX / 16) with 134217727. destruct (134217727 <? v); [discriminate|]. cbn [orb].
  unfold rrepeat. destruct (rrep s3 v (read_prop false None) s3) as [[ps s4]|] eqn:ER; [|discriminate].
  intros [= _ <-]. apply (props_end_of_model s3 v s3 ps s4 ER).
Qed.

Lemma cols_end_of_model : forall n sx cs s', read_cols false None n None sx = Ok (cs, s') -> cols_end n sx = Some s'.
Proof.
  induction n as [|n IH]; intros sx cs s' E; cbn [read_cols cols_end] in *.
  - unfold rret in E. injection E as _ <-. reflexivity.
  - revert E. unfold rd_bind, rret. cbn [option_map].
    destruct (Slice.cs_read false None sx) as [[c s1]|] eqn:EC; [|discriminate].
    rewrite (cs_end_of_model sx c s1 EC).
    destruct (read_cols false None n None s1) as [[rest s2]|] eqn:ER; [|discriminate].
    intros [= _ <-]. apply (IH s1 rest s2 ER).
Qed.

Lemma cs_end_intro sx s1 va s2 v s3 s' : sec_expect SBDF_COLUMNSLICE_SECTIONID sx = Ok (tt, s1) -> Va.va_read false None s1 = Ok (va, s2) -> read_int32 false s2 = Ok (v, s3) -> 0 <= v <= 134217727 ->
  props_end (Z.to_nat v) s3 = Some s' -> cs_end sx = Some s'.
Proof. intros E1 E2 E3 Hv E5. unfold cs_end. rewrite E1, E2, E3. replace ((v <? 0) || (134217727 <? v)) with false by lia. exact E5. Qed.

(* whenever the source's sbdf_cs_read succeeds - under ANY allocation schedule - and the L1 model's cs_read accepts the stream,
   the two leave the stream at the same place *)
Theorem cs_read_position_is_the_models rf rp fo po k sx m h c sM : Forall byte sx -> cs_nobit sx -> Slice.cs_read false None sx = Ok (c, sM) ->
  exists f0, forall f, (f0 <= f)%nat -> exists st fin,
    callC prog_env f prog_sbdf_cs_read [VPtr rf fo; VPtr rp po] m k sx h = OReturn (VInt st) fin /\
    (st = SBDF_OK -> lookup strm_var (vars fin) = Some (VBytes sM)).
Proof.
  intros Hs (NB & NBP) EM. destruct (cs_read_full_source rf rp fo po k sx m h Hs NB NBP) as (f0 & F). exists f0. intros f Hf.
  destruct (F f Hf) as (st & fin & C & _ & Out & _). exists st, fin. split; [exact C|]. intros E.
  destruct Out as [(_ & _ & (s1 & va & s2 & v & s3 & s' & A1 & A2 & A3 & A4 & A5 & A6) & _)|(Hn & _)]; [|unfold SBDF_OK in E; lia].
  pose proof (cs_end_intro sx s1 va s2 v s3 s' A1 A2 A3 A4 A5) as CE. rewrite (cs_end_of_model sx c sM EM) in CE. assert (sM = s') by congruence. subst s'. exact A6.
Qed.

(* ================================================================== the model's readers on the encodings of well-formed slices (for the corollaries in Props/) *)
From Sbdf Require Import SliceFacts PrimFacts VaFacts.
Lemma props_of_encoding : forall (props : list (list Z * va)) tail, (forall p, In p props -> wf_prop p /\ venc (snd p) <> SBDF_BITARRAYENCODINGTYPEID) ->
  props_end (List.length props) (List.concat (map (enc_prop false) props) ++ tail) = Some tail /\
  props_nobit (List.length props) (List.concat (map (enc_prop false) props) ++ tail).
Proof.
  induction props as [|p props IH]; intros tail Hw; cbn [List.length map List.concat props_end props_nobit app]; [split; [reflexivity|exact I]|].
  destruct (Hw p (or_introl eq_refl)) as ((Hl & Wv & Bv) & Hne).
  destruct (rspec_string false (fst p) Hl) as [ES _]. destruct (rspec_va false (snd p) Wv Bv) as [EV _].
  unfold enc_prop at 1 3. rewrite <- !app_assoc.
  rewrite (ES (enc_va false (snd p) ++ List.concat (map (enc_prop false) props) ++ tail)).
  rewrite (EV (List.concat (map (enc_prop false) props) ++ tail)).
  destruct (IH tail (fun q Hq => Hw q (or_intror Hq))) as (I1 & I2).
  split; [exact I1|]. split; [|exact I2].
  intros t s2 X. unfold enc_va in X. cbn [app] in X. injection X as X _. destruct Wv; cbn [venc] in *; try discriminate X. apply Hne. reflexivity.
Qed.

Definition nobit_cs (c : cs va) : Prop := venc (csvals c) <> SBDF_BITARRAYENCODINGTYPEID /\ forall p, In p (csprops c) -> venc (snd p) <> SBDF_BITARRAYENCODINGTYPEID.

Lemma cs_of_encoding : forall c rest, wf_cs c -> nobit_cs c -> cs_end (enc_cs false c ++ rest) = Some rest /\ cs_nobit (enc_cs false c ++ rest).
Proof.
  intros c rest (Wv & Bv & Hn & Wp) (Hne & Hnp). pose proof (zlen_nonneg (csprops c)) as N0.
  assert (ESX : enc_cs false c ++ rest = [223; 91; SBDF_COLUMNSLICE_SECTIONID] ++ (enc_va false (csvals c) ++ enc32 false (zlen (csprops c)) ++ List.concat (map (enc_prop false) (csprops c)) ++ rest)).
  { unfold enc_cs. rewrite <- !app_assoc. reflexivity. }
  rewrite ESX. set (PT := List.concat (map (enc_prop false) (csprops c)) ++ rest).
  destruct (rspec_sec_expect SBDF_COLUMNSLICE_SECTIONID) as [E0 _].
  destruct (rspec_va false (csvals c) Wv Bv) as [EV _].
  destruct (rspec_int32 false (zlen (csprops c)) ltac:(unfold i32_range; lia)) as [E32 _].
  destruct (props_of_encoding (csprops c) rest (fun p Hp => conj (Wp p Hp) (Hnp p Hp))) as (PE & PN). fold PT in PE, PN.
  assert (Hlen : Z.to_nat (zlen (csprops c)) = List.length (csprops c)) by (unfold zlen; lia).
  split.
  - unfold cs_end. rewrite E0, (EV (enc32 false (zlen (csprops c)) ++ PT)), (E32 PT). replace ((zlen (csprops c) <? 0) || (134217727 <? zlen (csprops c))) with false by lia. rewrite Hlen. exact PE.
  - split.
    + intros s1 E. rewrite E0 in E. assert (Y : s1 = enc_va false (csvals c) ++ enc32 false (zlen (csprops c)) ++ PT) by congruence. subst s1. intros t s2 X. unfold enc_va in X. cbn [app] in X. injection X as X _. destruct Wv; cbn [venc] in *; try discriminate X. apply Hne. reflexivity.
    + intros s1 va s2 v s3 E A R. rewrite E0 in E. assert (Y : s1 = enc_va false (csvals c) ++ enc32 false (zlen (csprops c)) ++ PT) by congruence. subst s1.
      rewrite (EV (enc32 false (zlen (csprops c)) ++ PT)) in A. assert (Y : s2 = enc32 false (zlen (csprops c)) ++ PT) by congruence. subst s2.
      rewrite (E32 PT) in R. assert (Y : v = zlen (csprops c) /\ s3 = PT) by (split; congruence). destruct Y as (-> & ->). rewrite Hlen. exact PN.
Qed.

Lemma cols_of_encoding : forall (cols : list (cs va)) tail, (forall c, In c cols -> wf_cs c /\ nobit_cs c) ->
  cols_end (List.length cols) (List.concat (map (enc_cs false) cols) ++ tail) = Some tail /\ cols_nobit (List.length cols) (List.concat (map (enc_cs false) cols) ++ tail).
Proof.
  induction cols as [|c cols IH]; intros tail Hw; cbn [List.length map List.concat cols_end cols_nobit app]; [split; [reflexivity|exact I]|].
  destruct (Hw c (or_introl eq_refl)) as (Wc & Nc). rewrite <- app_assoc.
  destruct (cs_of_encoding c (List.concat (map (enc_cs false) cols) ++ tail) Wc Nc) as (CE & CN). rewrite CE.
  destruct (IH tail (fun q Hq => Hw q (or_intror Hq))) as (I1 & I2). split; [exact I1|]. split; [exact CN|exact I2].
Qed.


Lemma colsf_of_encoding sub : forall (cols : list (cs va)) i tail, (forall c, In c cols -> wf_cs c) ->
  (forall j c, nth_error cols j = Some c -> sel sub (i + Z.of_nat j) = true -> nobit_cs c) ->
  colsf_end sub (List.length cols) i (List.concat (map (enc_cs false) cols) ++ tail) = Some tail /\ colsf_nobit sub (List.length cols) i (List.concat (map (enc_cs false) cols) ++ tail).
Proof.
  induction cols as [|c cols IH]; intros i tail Hw Hnb; cbn [List.length map List.concat colsf_end colsf_nobit app]; [split; [reflexivity|exact I]|].
  rewrite <- app_assoc. set (rest := List.concat (map (enc_cs false) cols) ++ tail).
  assert (IHx : colsf_end sub (List.length cols) (i + 1) rest = Some tail /\ colsf_nobit sub (List.length cols) (i + 1) rest).
  { apply IH; [intros q Hq; apply Hw; right; exact Hq|]. intros j q Hj Hs. apply (Hnb (S j) q Hj). replace (i + Z.of_nat (S j)) with (i + 1 + Z.of_nat j) by lia. exact Hs. }
  destruct IHx as (I1 & I2).
  destruct (sel sub i) eqn:Es.
  - destruct (cs_of_encoding c rest (Hw c (or_introl eq_refl)) (Hnb 0%nat c eq_refl ltac:(rewrite Z.add_0_r; exact Es))) as (CE & CN).
    rewrite CE. split; [exact I1|]. split; [exact CN|exact I2].
  - unfold csk_end. rewrite (cs_skip_exact false c rest (Hw c (or_introl eq_refl))). split; [exact I1|]. split; [exact I|exact I2].
Qed.

(* ================================================================== the reading side of the model only ever shortens the stream;
   the status functions of ImpFactsCsRead.v are the statuses of the L1 model's cs_read *)
Lemma take_z_split : forall (s : list Z) n a t, take_z s n = Some (a, t) -> s = a ++ t.
Proof.
  induction s as [|x s IH]; intros n a t E; cbn [take_z] in E.
  - destruct (n =? 0); [injection E as <- <-; reflexivity|discriminate].
  - destruct (n =? 0); [injection E as <- <-; reflexivity|]. destruct (take_z s (n - 1)) as [[a' t']|] eqn:E2; [|discriminate].
    injection E as <- <-. cbn [app]. f_equal. apply (IH (n - 1) a' t' E2).
Qed.
Lemma shr_fread n : shr (fread_bytes n).
Proof.
  intros s a t Hs. unfold fread_bytes. destruct (n <? 0); [discriminate|]. destruct (take_z s n) as [[a' t']|] eqn:E; [|discriminate]. intros [= <- <-].
  pose proof (take_z_split s n a' t' E) as G. subst s. apply Forall_app in Hs. split; [exact (proj2 Hs)|rewrite app_length; lia].
Qed.
Lemma shr_ralloc b : shr (ralloc None b).
Proof. intros s a t Hs. unfold ralloc. destruct (alloc_ok None b); [|discriminate]. intros [= _ <-]. split; [exact Hs|lia]. Qed.
Lemma shr_read_elem ty packed : shr (read_elem false None ty packed).
Proof.
  unfold read_elem. apply shr_bind.
  - destruct packed; [apply shr1_shr; intros s a t Hs E; apply (ImpFacts7S.read7_loop_shr _ _ _ _ _ _ Hs E)|apply shr1_shr, shr1_read_int32].
  - intros len. destruct (len <? 0); [apply shr_fail|]. destruct ((ty =? SBDF_STRINGTYPEID) && (len =? INT_MAX)); [apply shr_fail|].
    apply shr_bind; [apply shr_ralloc|intros _; apply shr_fread].
Qed.
Lemma shr_read_objects ty cnt p : shr (read_objects false None ty cnt p).
Proof.
  unfold read_objects. destruct (cnt <? 0); [apply shr_fail|]. destruct (is_arr ty).
  - apply shr_bind; [apply shr_ralloc|]. intros _.
    apply shr_bind; [destruct p; [apply shr_bind; [apply shr1_shr, shr1_read_int32|intros; apply shr_ret]|apply shr_ret]|]. intros _.
    apply shr_bind; [apply shr_rrepeat, shr_read_elem|intros; apply shr_ret].
  - cbv zeta. destruct (usize ty <? 0); [apply shr_fail|]. destruct (usize ty =? 0); [apply shr_fail|].
    apply shr_bind; [apply shr_ralloc|]. intros u. apply shr_bind; [apply shr_fread|intros; apply shr_ret].
Qed.
Lemma shr_obj_read_arr ty : shr (Obj.obj_read_arr false None ty).
Proof. unfold Obj.obj_read_arr. apply shr_bind; [apply shr1_shr, shr1_read_int32|intros; apply shr_read_objects]. Qed.
Lemma shr1_va_read : shr1 (Va.va_read false None).
Proof.
  unfold Va.va_read. apply shr1_bind; [apply shr1_read_int8|]. intros e. apply shr_bind; [apply shr1_shr; unfold vt_read; apply shr1_read_int8|]. intros vt.
  destruct (e =? SBDF_PLAINARRAYENCODINGTYPEID); [apply shr_bind; [apply shr_obj_read_arr|intros; apply shr_ret]|].
  destruct (e =? SBDF_RUNLENGTHENCODINGTYPEID).
  { apply shr_bind; [apply shr1_shr, shr1_read_int32|]. intros v. destruct (v <? 0); [apply shr_fail|].
    apply shr_bind; [apply shr_obj_read_arr|]. intros ob1. apply shr_bind; [apply shr_obj_read_arr|intros; apply shr_ret]. }
  destruct (e =? SBDF_BITARRAYENCODINGTYPEID); [|apply shr_fail].
  apply shr_bind; [apply shr1_shr, shr1_read_int32|]. intros v. destruct (v <? 0); [apply shr_fail|].
  apply shr_bind; [apply shr_ralloc|]. intros u. apply shr_bind; [apply shr_fread|intros; apply shr_ret].
Qed.

Lemma shr1_read_string : shr1 (read_string false None).
Proof.
  unfold read_string. apply shr1_bind; [apply shr1_read_int32|]. intros l. destruct (l <? 0); [apply shr_fail|]. destruct (l =? INT_MAX); [apply shr_fail|].
  apply shr_bind; [apply shr_ralloc|intros u; apply shr_fread].
Qed.

Lemma props_st_model : forall fuel n s, (List.length s <= List.length fuel)%nat -> Forall byte s ->
  match rrep fuel n (read_prop false None) s with Ok _ => props_st (Z.to_nat n) s = SBDF_OK | Err e => props_st (Z.to_nat n) s = e end.
Proof.
  induction fuel as [|x fuel IH]; intros n s Hl Hs; cbn [rrep].
  - destruct s; [|cbn [List.length] in Hl; lia].
    destruct (n <=? 0) eqn:En; [replace (Z.to_nat n) with 0%nat by lia; reflexivity|].
    replace (Z.to_nat n) with (S (Z.to_nat (n - 1))) by lia. cbn [props_st].
    assert (E : read_string false None [] = Err SBDF_ERROR_IO) by reflexivity.
    unfold read_prop, rd_bind. rewrite E. reflexivity.
  - destruct (n <=? 0) eqn:En; [replace (Z.to_nat n) with 0%nat by lia; reflexivity|].
    replace (Z.to_nat n) with (S (Z.to_nat (n - 1))) by lia. cbn [props_st].
    unfold read_prop at 1. unfold rd_bind, rret.
    destruct (read_string false None s) as [[nm s1]|e1] eqn:E1; [|reflexivity].
    destruct (shr1_read_string s nm s1 Hs E1) as (Hs1 & Hl1).
    destruct (Va.va_read false None s1) as [[va s2]|e2] eqn:E2; [|reflexivity].
    destruct (shr1_va_read s1 va s2 Hs1 E2) as (Hs2 & Hl2).
    specialize (IH (n - 1) s2 ltac:(cbn [List.length] in Hl; lia) Hs2).
    destruct (rrep fuel (n - 1) (read_prop false None) s2) as [[l s3]|e3]; exact IH.
Qed.

(* cs_st is the status of the L1 model's cs_read, on every byte stream *)
Theorem cs_st_model sx : Forall byte sx -> match Slice.cs_read false None sx with Ok _ => cs_st sx = SBDF_OK | Err e => cs_st sx = e end.
Proof.
  intros Hs. unfold Slice.cs_read, cs_st, rd_bind, rfail, rret, ralloc, alloc_ok.
  destruct (sec_expect SBDF_COLUMNSLICE_SECTIONID sx) as [[u s1]|e0] eqn:E0; [|reflexivity].
  pose proof (proj1 (shr_sec_expect _ sx u s1 Hs E0)) as Hs1.
  destruct (Va.va_read false None s1) as [[va s2]|e1] eqn:E1; [|reflexivity].
  pose proof (proj1 (shr1_va_read s1 va s2 Hs1 E1)) as Hs2.
  destruct (read_int32 false s2) as [[v s3]|e2] eqn:E2; [|reflexivity].
  pose proof (proj1 (shr1_read_int32 s2 v s3 Hs2 E2)) as Hs3.
  destruct (v <? 0) eqn:Ev; [reflexivity|]. change (INT_MAX / 16) with 134217727.
  destruct (v =? 0) eqn:Ez.
  - assert (v = 0) by lia. subst v. change (134217727 <? 0) with false. cbv iota. unfold rrepeat. destruct s3; reflexivity.
  - destruct (134217727 <? v) eqn:Eb; [reflexivity|]. unfold rrepeat.
    pose proof (props_st_model s3 v s3 (Nat.le_refl _) Hs3) as P.
    destruct (rrep s3 v (read_prop false None) s3) as [[ps s4]|e3]; exact P.
Qed.

(* the source's sbdf_cs_read returns the status of the L1 model's cs_read whenever no allocation fails *)
Theorem cs_read_status_is_the_models rf rp fo po k sx m h : k < 0 -> Forall byte sx -> cs_nobit sx ->
  exists f0, forall f, (f0 <= f)%nat -> exists st fin,
    callC prog_env f prog_sbdf_cs_read [VPtr rf fo; VPtr rp po] m k sx h = OReturn (VInt st) fin /\
    match Slice.cs_read false None sx with Ok _ => st = SBDF_OK | Err e => st = e end.
Proof.
  intros Hk Hs (NB & NBP). destruct (cs_read_full_source rf rp fo po k sx m h Hs NB NBP) as (f0 & F). exists f0. intros f Hf.
  destruct (F f Hf) as (st & fin & C & _ & _ & CST). exists st, fin. split; [exact C|]. rewrite (CST Hk).
  exact (cs_st_model sx Hs).
Qed.

(* ================================================================== ts_st is the status of the L1 model's ts_read *)
Lemma neg_read_string : neg (read_string false None).
Proof.
  unfold read_string. apply neg_bind; [apply neg_read_int32|]. intros l. destruct (l <? 0); [apply neg_fail; reflexivity|]. destruct (l =? INT_MAX); [apply neg_fail; reflexivity|].
  apply neg_bind; [intros s st; unfold ralloc, alloc_ok; discriminate|intros _; apply neg_fread_bytes].
Qed.
Lemma neg_va_read : neg (Va.va_read false None).
Proof.
  unfold Va.va_read. apply neg_bind; [apply neg_read_int8|]. intros e. apply neg_bind; [unfold vt_read; apply neg_read_int8|]. intros vt.
  destruct (e =? SBDF_PLAINARRAYENCODINGTYPEID); [apply neg_bind; [apply neg_obj_read_arr|intros; apply neg_ret]|].
  destruct (e =? SBDF_RUNLENGTHENCODINGTYPEID).
  { apply neg_bind; [apply neg_read_int32|]. intros v. destruct (v <? 0); [apply neg_fail; reflexivity|].
    apply neg_bind; [apply neg_obj_read_arr|]. intros ob1. apply neg_bind; [apply neg_obj_read_arr|intros; apply neg_ret]. }
  destruct (e =? SBDF_BITARRAYENCODINGTYPEID); [|apply neg_fail; reflexivity].
  apply neg_bind; [apply neg_read_int32|]. intros v. destruct (v <? 0); [apply neg_fail; reflexivity|].
  apply neg_bind; [intros s st; unfold ralloc, alloc_ok; discriminate|]. intros u. apply neg_bind; [apply neg_fread_bytes|intros; apply neg_ret].
Qed.
Lemma neg_read_prop : neg (read_prop false None).
Proof. unfold read_prop. apply neg_bind; [apply neg_read_string|]. intros nm. apply neg_bind; [apply neg_va_read|intros; apply neg_ret]. Qed.
Lemma shr_read_prop : shr (read_prop false None).
Proof. unfold read_prop. apply shr_bind; [apply shr1_shr, shr1_read_string|]. intros nm. apply shr_bind; [apply shr1_shr, shr1_va_read|intros; apply shr_ret]. Qed.
Lemma neg_cs_read : neg (Slice.cs_read false None).
Proof.
  unfold Slice.cs_read. apply neg_bind; [apply neg_sec_expect|intros u]. apply neg_bind; [apply neg_va_read|intros va]. apply neg_bind; [apply neg_read_int32|intros v].
  destruct (v <? 0); [apply neg_fail; reflexivity|]. destruct (INT_MAX / 16 <? v); [apply neg_fail; reflexivity|].
  apply neg_bind; [intros s st; unfold ralloc, alloc_ok; discriminate|intros u2]. apply neg_bind; [apply neg_rrepeat, neg_read_prop|intros; apply neg_ret].
Qed.
Lemma shr_cs_read : shr (Slice.cs_read false None).
Proof.
  unfold Slice.cs_read. apply shr_bind; [apply shr_sec_expect|intros u]. apply shr_bind; [apply shr1_shr, shr1_va_read|intros va]. apply shr_bind; [apply shr1_shr, shr1_read_int32|intros v].
  destruct (v <? 0); [apply shr_fail|]. destruct (INT_MAX / 16 <? v); [apply shr_fail|].
  apply shr_bind; [apply shr_ralloc|intros u2]. apply shr_bind; [apply shr_rrepeat, shr_read_prop|intros; apply shr_ret].
Qed.

Definition msub (sub : option (Z * list Z)) (i : Z) : option (list Z) := match sub with None => None | Some (_, fl) => Some (skipn (Z.to_nat i) fl) end.
Lemma hd_skipn (l : list Z) : forall k, hd 0 (skipn k l) = nth k l 0.
Proof. induction l as [|x l IH]; intros [|k]; cbn [skipn hd nth]; try reflexivity. apply IH. Qed.
Lemma tl_skipn (l : list Z) : forall k, tl (skipn k l) = skipn (S k) l.
Proof. induction l as [|x l IH]; intros [|k]; cbn [skipn tl]; try reflexivity. apply IH. Qed.

Lemma colsf_st_model sub : forall rem i s, 0 <= i -> Forall byte s ->
  match read_cols false None rem (msub sub i) s with Ok _ => colsf_st sub rem i s = SBDF_OK | Err e => colsf_st sub rem i s = e end.
Proof.
  induction rem as [|r IH]; intros i s Hi Hs; cbn [read_cols colsf_st]; [reflexivity|].
  assert (SEL : (match msub sub i with None => true | Some l => negb (hd 0 l =? 0) end) = sel sub i) by (unfold msub, sel; destruct sub as [[q fl]|]; [rewrite hd_skipn; reflexivity|reflexivity]).
  assert (NXT : option_map (@tl Z) (msub sub i) = msub sub (i + 1)) by (unfold msub; destruct sub as [[q fl]|]; [cbn [option_map]; rewrite tl_skipn; do 2 f_equal; lia|reflexivity]).
  rewrite SEL, NXT. unfold rd_bind, rret. destruct (sel sub i).
  - pose proof (cs_st_model s Hs) as CM.
    destruct (Slice.cs_read false None s) as [[c s1]|e] eqn:EC.
    + rewrite CM. change (SBDF_OK =? SBDF_OK) with true. cbv iota. rewrite (cs_end_of_model s c s1 EC).
      specialize (IH (i + 1) s1 ltac:(lia) (proj1 (shr_cs_read s c s1 Hs EC))).
      destruct (read_cols false None r (msub sub (i + 1)) s1) as [[rest s2]|e2]; exact IH.
    + rewrite CM. pose proof (neg_cs_read s e EC) as Ne. replace (e =? SBDF_OK) with false by (unfold SBDF_OK; lia). reflexivity.
  - destruct (cs_skip false s) as [[u s1]|e] eqn:EK; [|reflexivity].
    specialize (IH (i + 1) s1 ltac:(lia) (proj1 (shr_cs_skip s u s1 Hs EK))).
    destruct (read_cols false None r (msub sub (i + 1)) s1) as [[rest s2]|e2]; exact IH.
Qed.

Theorem ts_st_model n sub sx : Forall byte sx -> 0 <= n ->
  match Slice.ts_read false None n (msub sub 0) sx with Ok _ => ts_st n sub sx = SBDF_OK | Err e => ts_st n sub sx = e end.
Proof.
  intros Hs Hn. unfold Slice.ts_read, ts_st, rd_bind, rfail, rret, ralloc, alloc_ok.
  destruct (sec_read sx) as [[x s1]|e0] eqn:E0; [|reflexivity].
  assert (Hs1 : Forall byte s1).
  { assert (SE : sec_expect x sx = Ok (tt, s1)) by (unfold sec_expect, rd_bind, rret; rewrite E0, Z.eqb_refl; reflexivity). exact (proj1 (shr_sec_expect x sx tt s1 Hs SE)). }
  change SBDF_TABLEEND_SECTIONID with 5. change SBDF_TABLESLICE_SECTIONID with 3.
  destruct (x =? 5); [reflexivity|]. destruct (negb (x =? 3)); [reflexivity|].
  destruct (read_int32 false s1) as [[cc s2]|e1] eqn:E1; [|reflexivity].
  pose proof (proj1 (shr1_read_int32 s1 cc s2 Hs1 E1)) as Hs2.
  destruct (cc <? 0); [reflexivity|]. destruct (cc =? n) eqn:Ec; cbn [negb]; [|reflexivity].
  assert (cc = n) by lia. subst cc.
  pose proof (colsf_st_model sub (Z.to_nat n) 0 s2 ltac:(lia) Hs2) as CM.
  destruct (read_cols false None (Z.to_nat n) (msub sub 0) s2) as [[cols s3]|e2]; exact CM.
Qed.

(* the source's sbdf_ts_read returns the status of the L1 model's ts_read whenever no allocation fails - for any column subset *)
Theorem ts_read_status_is_the_models rf rp fo po k sx m (h : heap) tmb n sub : k < 0 -> Forall byte sx -> 0 <= n <= 715827882 -> cell_get h tmb 1 = Some (VInt n) -> flags_in n sub m ->
  (forall s1 s2, sec_read sx = Ok (3, s1) -> read_int32 false s1 = Ok (n, s2) -> colsf_nobit sub (Z.to_nat n) 0 s2) ->
  exists f0, forall f, (f0 <= f)%nat -> exists st fin,
    callC prog_env f prog_sbdf_ts_read [VPtr rf fo; VCell tmb 0; sv sub; VPtr rp po] m k sx h = OReturn (VInt st) fin /\
    match Slice.ts_read false None n (msub sub 0) sx with Ok _ => st = SBDF_OK | Err e => st = e end.
Proof.
  intros Hk Hs Hn Htm Fl NBC. destruct (ts_read_sub_source rf rp fo po k sx m h tmb n sub Hs Hn Htm Fl NBC) as (f0 & F). exists f0. intros f Hf.
  destruct (F f Hf) as (st & fin & C & _ & _ & _ & TST). exists st, fin. split; [exact C|]. rewrite (TST Hk). apply ts_st_model; [exact Hs|lia].
Qed.

(* ================================================================== sbdf_ts_skip: a read with a subset that selects nothing, then the release of the (empty) table slice *)
Section TsSkip.
Variables (bv : val) (o : list Z) (rf : region) (fo : Z) (h : heap) (tmb : nat) (n : Z).
Notation fv := (VPtr rf fo).
Notation L := (List.length h).
Hypothesis Hn : 0 <= n <= 715827882.
Hypothesis Htm : cell_get h tmb 1 = Some (VInt n).

Definition tsk (e sl sb : val) (k : Z) (s : list Z) (hh : heap) (m : list Z) : state :=
  fr [("f", fv); ("meta", VCell tmb 0); ("error", e); ("slice", sl); ("subset", sb)]%string bv k s hh m o.
Definition allskip (m : list Z) : option (Z * list Z) := Some (zlen m, repeat 0 (Z.to_nat n)).

Lemma sel_allskip m i : sel (allskip m) i = false.
Proof.
  unfold sel, allskip. replace (nth (Z.to_nat i) (repeat 0 (Z.to_nat n)) 0) with 0; [reflexivity|].
  generalize (Z.to_nat i). generalize (Z.to_nat n). induction n0 as [|a IH]; intros [|b]; cbn [repeat nth]; try reflexivity. apply IH.
Qed.
Lemma nobit_allskip m : forall rem i s, colsf_nobit (allskip m) rem i s.
Proof. induction rem as [|r IH]; intros i s; cbn [colsf_nobit]; [exact I|]. rewrite sel_allskip. split; [exact I|]. destruct (csk_end s); [apply IH|exact I]. Qed.

Ltac evz := cbn [prog_env eval_args callee_init finish_call copy_in copy_out try_update update lookup combine map app String.append
                 String.eqb Ascii.eqb Bool.eqb fparams flocals vars inb outb budget_var fail_var strm_var cells_var cell_token List.length Nat.eqb eval set_var cast
                 truth binop_int b2z negb heap_of as_ptr storable fst snd stream_of set_stream
                 prog_sbdf_ts_destroy prog_sbdf_ts_read prog_sbdf_ts_skip];
  change (0 =? 0) with true; change (1 =? 0) with false; cbn [negb b2z].

Lemma ts_skip_bs k sx m : Forall byte sx ->
  exists st e' sl' sb' k' s' j m',
    bsE prog_env (fbody prog_sbdf_ts_skip) (tsk VUndef VUndef VUndef k sx h m) (OReturn (VInt st) (tsk e' sl' sb' k' s' (h ++ nones j) m')) /\ prefix_of m m' /\
    ((st = SBDF_OK /\ exists s1 s2, sec_read sx = Ok (3, s1) /\ read_int32 false s1 = Ok (n, s2) /\ colsf_end (allskip m) (Z.to_nat n) 0 s2 = Some s') \/ st < 0) /\
    (k < 0 -> st = ts_st n (allskip m) sx).
Proof.
  intros Hs. set (z := Z.to_nat n). set (m1 := m ++ repeat 0 z).
  assert (Fl : flags_in n (allskip m) m1).
  { unfold flags_in, allskip. exists m, []. split; [unfold m1; rewrite app_nil_r; reflexivity|]. split; [reflexivity|]. split; [unfold zlen; rewrite repeat_length; lia|].
    apply Forall_forall. intros x Hx. apply repeat_spec in Hx. subst x. unfold byte. lia. }
  assert (HEAD : forall X oo, bsE prog_env X (tsk VUndef VUndef VUndef k sx h m) oo ->
     bsE prog_env (SSeq (SDecl "error" None) (SSeq (SDecl "slice" None) (SSeq (SDecl "subset" None) (SSeq (SIf (ELNot (EVar "meta")) (SReturn (EBin Sub (EConst 0) (EConst (1)))) SSkip) X))))%string
       (tsk VUndef VUndef VUndef k sx h m) oo).
  { intros X oo B. revert B. unfold tsk, fr. cbn [app]. intros B.
    eapply bsE_seq; [eapply bsE_decl0; evz; reflexivity|]. eapply bsE_seq; [eapply bsE_decl0; evz; reflexivity|]. eapply bsE_seq; [eapply bsE_decl0; evz; reflexivity|].
    eapply bsE_seq; [eapply bsE_if; [evz; reflexivity|reflexivity|apply bsE_skip]|]. exact B. }
  destruct (k =? 0) eqn:Ek0.
  { (* the flag buffer cannot be allocated *)
    exists SBDF_ERROR_OUT_OF_MEMORY. do 3 eexists. exists (-1), sx, 0%nat, m. split; [|split; [exists []; now rewrite app_nil_r|split; [right; reflexivity|intros X; lia]]].
    unfold nones. cbn [repeat]. rewrite app_nil_r. cbn [fbody prog_sbdf_ts_skip]. apply HEAD. unfold tsk, fr. cbn [app].
    eapply bsE_seq; [eapply bsE_expr; evz; chk7; evz; replace (0 + 1) with 1 by lia; rewrite Htm; evz; replace (0 <=? n) with true by lia; evz; replace (0 <=? n) with true by lia; rewrite Ek0; evz; reflexivity|].
    eapply bsE_seq_ret. eapply bsE_if; [evz; reflexivity|reflexivity|]. eapply bsE_return. evz. chk7. reflexivity. }
  set (k1 := dec k).
  destruct (ts_read_bs bv o rf ROut fo 0 VUndef h tmb n (allskip m) Hn Htm k1 sx m1 Hs Fl (fun s1 s2 _ _ => nobit_allskip m _ _ _))
    as (st & l' & k' & s' & h' & m' & B & (x & Hm') & FS & Out & TST).
  assert (Pfm : prefix_of m m') by (exists (repeat 0 z ++ x); rewrite Hm'; unfold m1; rewrite app_assoc; reflexivity).
  assert (Hzl : 0 <= zlen m <= zlen m') by (pose proof (zlen_nonneg m); rewrite Hm'; unfold m1; rewrite !zlen_app; pose proof (zlen_nonneg x); pose proof (zlen_nonneg (repeat 0 z)); lia).
  assert (ALLOC : forall X oo, bsE prog_env X (tsk VUndef VUndef (VPtr RIn (zlen m)) k1 sx h m1) oo ->
     bsE prog_env (SSeq (SExpr (EAssign "subset" (ECallocBytes (ECast TSizeT (ECellLoad (EVar "meta") (EConst 1) false))))) (SSeq (SIf (ELNot (EVar "subset")) (SReturn (EBin Sub (EConst 0) (EConst (2)))) SSkip) X))%string
       (tsk VUndef VUndef VUndef k sx h m) oo).
  { intros X oo B0. revert B0. unfold tsk, fr, k1, dec. cbn [app]. destruct (0 <? k) eqn:Ep; intros B0.
    all: (eapply bsE_seq; [eapply bsE_expr; evz; chk7; evz; replace (0 + 1) with 1 by lia; rewrite Htm; evz; replace (0 <=? n) with true by lia; evz; replace (0 <=? n) with true by lia; rewrite Ek0; evz;
                     fold z; rewrite ?Ep; evz; rewrite zlen_length; reflexivity|]);
         (eapply bsE_seq; [eapply bsE_if; [evz; reflexivity|reflexivity|apply bsE_skip]|]); exact B0. }
  destruct l' as [q1 q2 q3 q4 q5 q6 q7 q8]. cbn [t_so] in Out.
  assert (CALL : bsE prog_env (SCall (Some "error") "sbdf_ts_read" [(AVal (EVar "f")); (AVal (EVar "meta")); (AVal (EVar "subset")); (AAddr "slice")])%string
                   (tsk VUndef VUndef (VPtr RIn (zlen m)) k1 sx h m1) (ONormal (tsk (VInt st) q8 (VPtr RIn (zlen m)) k' s' h' m'))).
  { revert B. unfold trf, trl0, tsk, fr, sv, allskip. cbn [t_cc t_err t_i t_t t_v t_a1 t_c1 t_so app]. intros B.
    eapply bsE_call; [reflexivity|evz; reflexivity|reflexivity|exact B|evz; reflexivity]. }
  destruct Out as [(-> & -> & (hs & blocks & -> & Hz & C) & s1 & s2 & E1 & E2 & E3)|(Hneg & -> & j & ->)].
  - (* the slice was read (every column skipped): it is released again *)
    pose proof (ts_destroy_read_bs bv o k' s' m' h (VCell tmb 0) n hs [] (zeros (Z.to_nat (array_capacity n - n))) blocks [] VUndef C
                  ltac:(change (zlen (@nil val)) with 0; lia) ltac:(unfold int_max; lia) (Forall_nil _)) as D.
    cbn [app] in D. rewrite !app_nil_r in D. unfold fr in D. cbn [app] in D.
    exists SBDF_OK. do 3 eexists. exists k', s', (2 + List.length blocks)%nat, m'. split; [|split; [exact Pfm|split; [left; split; [reflexivity|exists s1, s2; repeat split; assumption]|intros X; apply TST; unfold k1, dec; replace (0 <? k) with false by lia; exact X]]].
    cbn [fbody prog_sbdf_ts_skip]. apply HEAD. apply ALLOC.
    eapply bsE_seq; [eapply bsE_seq; [exact CALL|unfold tsk, fr; cbn [app]; eapply bsE_if; [evz; reflexivity|reflexivity|apply bsE_skip]]|].
    unfold tsk, fr. cbn [app].
    eapply bsE_seq; [eapply bsE_call_void; [reflexivity|evz; reflexivity|reflexivity|evz; unfold HT, tsl; exact D|evz; reflexivity]|].
    eapply bsE_seq; [eapply bsE_expr; evz; rewrite zlen_length; replace ((0 <=? zlen m) && (zlen m <=? zlen m')) with true by lia; reflexivity|].
    eapply bsE_return. evz. chk7. reflexivity.
  - (* the table slice could not be skipped *)
    exists st. do 3 eexists. exists k', s', j, m'. split; [|split; [exact Pfm|split; [right; exact Hneg|intros X; apply TST; unfold k1, dec; replace (0 <? k) with false by lia; exact X]]].
    cbn [fbody prog_sbdf_ts_skip]. apply HEAD. apply ALLOC.
    eapply bsE_seq_ret. eapply bsE_seq; [exact CALL|]. unfold tsk, fr. cbn [app].
    eapply bsE_if; [evz; reflexivity|cbn [truth]; replace (st =? 0) with false by lia; reflexivity|].
    eapply bsE_seq; [eapply bsE_expr; evz; rewrite zlen_length; replace ((0 <=? zlen m) && (zlen m <=? zlen m')) with true by lia; reflexivity|].
    eapply bsE_return. evz. reflexivity.
Qed.
End TsSkip.

Lemma colsf_end_of_model sub : forall rem i s cs s', 0 <= i -> read_cols false None rem (msub sub i) s = Ok (cs, s') -> colsf_end sub rem i s = Some s'.
Proof.
  induction rem as [|r IH]; intros i s cs s' Hi E; cbn [read_cols colsf_end] in *; [unfold rret in E; injection E as _ <-; reflexivity|].
  assert (SEL : (match msub sub i with None => true | Some l => negb (hd 0 l =? 0) end) = sel sub i) by (unfold msub, sel; destruct sub as [[q fl]|]; [rewrite hd_skipn; reflexivity|reflexivity]).
  assert (NXT : option_map (@tl Z) (msub sub i) = msub sub (i + 1)) by (unfold msub; destruct sub as [[q fl]|]; [cbn [option_map]; rewrite tl_skipn; do 2 f_equal; lia|reflexivity]).
  rewrite SEL, NXT in E. revert E. unfold rd_bind, rret. destruct (sel sub i).
  - destruct (Slice.cs_read false None s) as [[c s1]|] eqn:EC; [|discriminate]. rewrite (cs_end_of_model s c s1 EC).
    destruct (read_cols false None r (msub sub (i + 1)) s1) as [[rest s2]|] eqn:ER; [|discriminate]. intros [= _ <-]. apply (IH (i + 1) s1 rest s2 ltac:(lia) ER).
  - unfold csk_end. destruct (cs_skip false s) as [[u s1]|] eqn:EK; [|discriminate].
    destruct (read_cols false None r (msub sub (i + 1)) s1) as [[rest s2]|] eqn:ER; [|discriminate]. intros [= _ <-]. apply (IH (i + 1) s1 rest s2 ltac:(lia) ER).
Qed.

Lemma ts_pos_model n sub sx t sM : 0 <= n -> Slice.ts_read false None n (msub sub 0) sx = Ok (t, sM) ->
  exists s1 s2, sec_read sx = Ok (3, s1) /\ read_int32 false s1 = Ok (n, s2) /\ colsf_end sub (Z.to_nat n) 0 s2 = Some sM.
Proof.
  intros Hn. unfold Slice.ts_read, rd_bind, rfail, rret, ralloc, alloc_ok.
  destruct (sec_read sx) as [[x s1]|] eqn:E0; [|discriminate].
  change SBDF_TABLEEND_SECTIONID with 5. change SBDF_TABLESLICE_SECTIONID with 3.
  destruct (x =? 5); [discriminate|]. destruct (x =? 3) eqn:E3; cbn [negb]; [|discriminate]. assert (x = 3) by lia. subst x.
  destruct (read_int32 false s1) as [[cc s2]|] eqn:E1; [|discriminate].
  destruct (cc <? 0); [discriminate|]. destruct (cc =? n) eqn:Ec; cbn [negb]; [|discriminate]. assert (cc = n) by lia. subst cc.
  destruct (read_cols false None (Z.to_nat n) (msub sub 0) s2) as [[cols s3]|] eqn:ER; [|discriminate]. intros [= _ <-].
  exists s1, s2. split; [reflexivity|]. split; [exact E1|]. apply (colsf_end_of_model sub _ 0 s2 cols s3 ltac:(lia) ER).
Qed.

(* sbdf_ts_skip as a top-level call: every block it allocated is released again whatever happens; without allocation failures
   status and stream position are those of the L1 model's ts_skip *)
Theorem ts_skip_source rf fo k sx m (h : heap) tmb n : Forall byte sx -> 0 <= n <= 715827882 -> cell_get h tmb 1 = Some (VInt n) ->
  exists f0, forall f, (f0 <= f)%nat -> exists st fin,
    callC prog_env f prog_sbdf_ts_skip [VPtr rf fo; VCell tmb 0] m k sx h = OReturn (VInt st) fin /\ prefix_of m (inb fin) /\
    (exists j, lookup cells_var (vars fin) = Some (VHeap (h ++ nones j))) /\
    (k < 0 -> match Slice.ts_skip false None n sx with
              | Ok (_, sM) => st = SBDF_OK /\ lookup strm_var (vars fin) = Some (VBytes sM)
              | Err e => st = e end).
Proof.
  intros Hs Hn Htm.
  destruct (ts_skip_bs (VInt 0) [] rf fo h tmb n Hn Htm k sx m Hs) as (st & e' & sl' & sb' & k' & s' & j & m' & B & Pf & Out & TST).
  destruct (bsE_sound _ _ _ _ B) as (f0 & F). exists f0. intros f Hf. exists st. eexists. split; [apply F; exact Hf|]. split; [exact Pf|]. split; [exists j; reflexivity|].
  intros Hk. specialize (TST Hk).
  pose proof (ts_st_model n (allskip n m) sx Hs ltac:(lia)) as TM.
  unfold Slice.ts_skip, rd_bind, ralloc, alloc_ok, rret. change (msub (allskip n m) 0) with (Some (repeat 0 (Z.to_nat n))) in TM.
  destruct (Slice.ts_read false None n (Some (repeat 0 (Z.to_nat n))) sx) as [[t sM]|e] eqn:EM.
  - rewrite TM in TST. split; [exact TST|].
    destruct (ts_pos_model n (allskip n m) sx t sM ltac:(lia) EM) as (s1 & s2 & A1 & A2 & A3).
    destruct Out as [(_ & x1 & x2 & B1 & B2 & B3)|Hneg]; [|unfold SBDF_OK in TST; lia].
    assert (x1 = s1) by congruence. subst x1. assert (x2 = s2) by congruence. subst x2. assert (s' = sM) by congruence. subst s'. reflexivity.
  - rewrite TM in TST. exact TST.
Qed.

(* whenever the source's sbdf_ts_read succeeds - under ANY allocation schedule, with any column subset - and the L1 model's
   ts_read accepts the stream, the two leave the stream at the same place *)
Theorem ts_read_position_is_the_models rf rp fo po k sx m (h : heap) tmb n sub t sM : Forall byte sx -> 0 <= n <= 715827882 -> cell_get h tmb 1 = Some (VInt n) -> flags_in n sub m ->
  (forall s1 s2, sec_read sx = Ok (3, s1) -> read_int32 false s1 = Ok (n, s2) -> colsf_nobit sub (Z.to_nat n) 0 s2) ->
  Slice.ts_read false None n (msub sub 0) sx = Ok (t, sM) ->
  exists f0, forall f, (f0 <= f)%nat -> exists st fin,
    callC prog_env f prog_sbdf_ts_read [VPtr rf fo; VCell tmb 0; sv sub; VPtr rp po] m k sx h = OReturn (VInt st) fin /\
    (st = SBDF_OK -> lookup strm_var (vars fin) = Some (VBytes sM)).
Proof.
  intros Hs Hn Htm Fl NBC EM. destruct (ts_read_sub_source rf rp fo po k sx m h tmb n sub Hs Hn Htm Fl NBC) as (f0 & F). exists f0. intros f Hf.
  destruct (F f Hf) as (st & fin & C & _ & _ & Out & _). exists st, fin. split; [exact C|]. intros E.
  destruct Out as [(_ & _ & (s1 & s2 & s' & A1 & A2 & A3 & A4) & _)|(Hneg & _)]; [|unfold SBDF_OK in E; lia].
  destruct (ts_pos_model n sub sx t sM ltac:(lia) EM) as (x1 & x2 & B1 & B2 & B3).
  assert (x1 = s1) by congruence. subst x1. assert (x2 = s2) by congruence. subst x2. assert (s' = sM) by congruence. subst s'. exact A4.
Qed.

(* ================================================================== every successful read is one the L1 model accepts *)
Lemma props_end_rrep : forall fuel n s s', (List.length s <= List.length fuel)%nat -> Forall byte s -> 0 <= n -> props_end (Z.to_nat n) s = Some s' ->
  exists ps, rrep fuel n (read_prop false None) s = Ok (ps, s').
Proof.
  induction fuel as [|x fuel IH]; intros n s s' Hl Hs Hn E; cbn [rrep].
  - destruct (n <=? 0) eqn:En; [replace (Z.to_nat n) with 0%nat in E by lia; cbn [props_end] in E; injection E as <-; exists []; reflexivity|].
    destruct s; [|cbn [List.length] in Hl; lia]. replace (Z.to_nat n) with (S (Z.to_nat (n - 1))) in E by lia. cbn [props_end] in E.
    assert (X : read_string false None [] = Err SBDF_ERROR_IO) by reflexivity. rewrite X in E. discriminate E.
  - destruct (n <=? 0) eqn:En; [replace (Z.to_nat n) with 0%nat in E by lia; cbn [props_end] in E; injection E as <-; exists []; reflexivity|].
    replace (Z.to_nat n) with (S (Z.to_nat (n - 1))) in E by lia. cbn [props_end] in E. unfold read_prop at 1. unfold rd_bind, rret.
    destruct (read_string false None s) as [[nm s1]|] eqn:E1; [|discriminate]. destruct (shr1_read_string s nm s1 Hs E1) as (Hs1 & Hl1).
    destruct (Va.va_read false None s1) as [[va s2]|] eqn:E2; [|discriminate]. destruct (shr1_va_read s1 va s2 Hs1 E2) as (Hs2 & Hl2).
    destruct (IH (n - 1) s2 s' ltac:(cbn [List.length] in Hl; lia) Hs2 ltac:(lia) E) as (ps & R). rewrite R. eexists. reflexivity.
Qed.

Lemma cs_model_of_end sx s1 va s2 v s3 s' : Forall byte sx -> sec_expect SBDF_COLUMNSLICE_SECTIONID sx = Ok (tt, s1) -> Va.va_read false None s1 = Ok (va, s2) -> read_int32 false s2 = Ok (v, s3) ->
  0 <= v <= 134217727 -> props_end (Z.to_nat v) s3 = Some s' -> exists c, Slice.cs_read false None sx = Ok (c, s').
Proof.
  intros Hs E1 E2 E3 Hv E5. unfold Slice.cs_read, rd_bind, rfail, rret, ralloc, alloc_ok. rewrite E1, E2, E3.
  replace (v <? 0) with false by lia. change (INT_MAX / 16) with 134217727. replace (134217727 <? v) with false by lia. unfold rrepeat.
  pose proof (proj1 (shr_sec_expect _ sx tt s1 Hs E1)) as Hs1. pose proof (proj1 (shr1_va_read s1 va s2 Hs1 E2)) as Hs2. pose proof (proj1 (shr1_read_int32 s2 v s3 Hs2 E3)) as Hs3.
  destruct (props_end_rrep s3 v s3 s' (Nat.le_refl _) Hs3 ltac:(lia) E5) as (ps & R). rewrite R. eexists. reflexivity.
Qed.

(* whatever the allocation schedule: if the source's sbdf_cs_read succeeds, the L1 model's cs_read accepts the stream and ends
   where the source ended - no stream is read successfully by the code that the model refuses *)
Theorem cs_read_success_is_the_models rf rp fo po k sx m h : Forall byte sx -> cs_nobit sx ->
  exists f0, forall f, (f0 <= f)%nat -> exists st fin,
    callC prog_env f prog_sbdf_cs_read [VPtr rf fo; VPtr rp po] m k sx h = OReturn (VInt st) fin /\
    (st = SBDF_OK -> exists c sM, Slice.cs_read false None sx = Ok (c, sM) /\ lookup strm_var (vars fin) = Some (VBytes sM)).
Proof.
  intros Hs (NB & NBP). destruct (cs_read_full_source rf rp fo po k sx m h Hs NB NBP) as (f0 & F). exists f0. intros f Hf.
  destruct (F f Hf) as (st & fin & C & _ & Out & _). exists st, fin. split; [exact C|]. intros E.
  destruct Out as [(_ & _ & (s1 & va & s2 & v & s3 & s' & A1 & A2 & A3 & A4 & A5 & A6) & _)|(Hn & _)]; [|unfold SBDF_OK in E; lia].
  destruct (cs_model_of_end sx s1 va s2 v s3 s' Hs A1 A2 A3 A4 A5) as (c & CM). exists c, s'. split; [exact CM|exact A6].
Qed.

Lemma cs_model_of_cs_end sx s' : Forall byte sx -> cs_end sx = Some s' -> exists c, Slice.cs_read false None sx = Ok (c, s').
Proof.
  intros Hs. unfold cs_end.
  destruct (sec_expect SBDF_COLUMNSLICE_SECTIONID sx) as [[[] s1]|] eqn:E1; [|discriminate].
  destruct (Va.va_read false None s1) as [[va s2]|] eqn:E2; [|discriminate].
  destruct (read_int32 false s2) as [[v s3]|] eqn:E3; [|discriminate].
  destruct ((v <? 0) || (134217727 <? v)) eqn:Ev; [discriminate|]. intros E5.
  apply (cs_model_of_end sx s1 va s2 v s3 s' Hs E1 E2 E3 ltac:(lia) E5).
Qed.

Lemma cols_model_of_colsf_end sub : forall rem i s s', 0 <= i -> Forall byte s -> colsf_end sub rem i s = Some s' -> exists cs, read_cols false None rem (msub sub i) s = Ok (cs, s').
Proof.
  induction rem as [|r IH]; intros i s s' Hi Hs E; cbn [read_cols colsf_end] in *; [injection E as <-; eexists; reflexivity|].
  assert (SEL : (match msub sub i with None => true | Some l => negb (hd 0 l =? 0) end) = sel sub i) by (unfold msub, sel; destruct sub as [[q fl]|]; [rewrite hd_skipn; reflexivity|reflexivity]).
  assert (NXT : option_map (@tl Z) (msub sub i) = msub sub (i + 1)) by (unfold msub; destruct sub as [[q fl]|]; [cbn [option_map]; rewrite tl_skipn; do 2 f_equal; lia|reflexivity]).
  rewrite SEL, NXT. unfold rd_bind, rret. destruct (sel sub i).
  - destruct (cs_end s) as [s1|] eqn:CE; [|discriminate]. destruct (cs_model_of_cs_end s s1 Hs CE) as (c & CM). rewrite CM.
    destruct (IH (i + 1) s1 s' ltac:(lia) (proj1 (shr_cs_read s c s1 Hs CM)) E) as (cs & R). rewrite R. eexists. reflexivity.
  - unfold csk_end in E. destruct (cs_skip false s) as [[u s1]|] eqn:EK; [|discriminate].
    destruct (IH (i + 1) s1 s' ltac:(lia) (proj1 (shr_cs_skip s u s1 Hs EK)) E) as (cs & R). rewrite R. eexists. reflexivity.
Qed.

(* whatever the allocation schedule and the column subset: if the source's sbdf_ts_read succeeds, the L1 model's ts_read
   accepts the stream with that subset and ends where the source ended *)
Theorem ts_read_success_is_the_models rf rp fo po k sx m (h : heap) tmb n sub : Forall byte sx -> 0 <= n <= 715827882 -> cell_get h tmb 1 = Some (VInt n) -> flags_in n sub m ->
  (forall s1 s2, sec_read sx = Ok (3, s1) -> read_int32 false s1 = Ok (n, s2) -> colsf_nobit sub (Z.to_nat n) 0 s2) ->
  exists f0, forall f, (f0 <= f)%nat -> exists st fin,
    callC prog_env f prog_sbdf_ts_read [VPtr rf fo; VCell tmb 0; sv sub; VPtr rp po] m k sx h = OReturn (VInt st) fin /\
    (st = SBDF_OK -> exists t sM, Slice.ts_read false None n (msub sub 0) sx = Ok (t, sM) /\ lookup strm_var (vars fin) = Some (VBytes sM)).
Proof.
  intros Hs Hn Htm Fl NBC. destruct (ts_read_sub_source rf rp fo po k sx m h tmb n sub Hs Hn Htm Fl NBC) as (f0 & F). exists f0. intros f Hf.
  destruct (F f Hf) as (st & fin & C & _ & _ & Out & _). exists st, fin. split; [exact C|]. intros E.
  destruct Out as [(_ & _ & (s1 & s2 & s' & A1 & A2 & A3 & A4) & _)|(Hneg & _)]; [|unfold SBDF_OK in E; lia].
  assert (Hs1 : Forall byte s1).
  { assert (SE : sec_expect 3 sx = Ok (tt, s1)) by (unfold sec_expect, rd_bind, rret; rewrite A1; reflexivity). exact (proj1 (shr_sec_expect 3 sx tt s1 Hs SE)). }
  pose proof (proj1 (shr1_read_int32 s1 n s2 Hs1 A2)) as Hs2.
  destruct (cols_model_of_colsf_end sub (Z.to_nat n) 0 s2 s' ltac:(lia) Hs2 A3) as (cs & R).
  eexists. exists s'. split; [|exact A4].
  unfold Slice.ts_read, rd_bind, rfail, rret, ralloc, alloc_ok. rewrite A1. change SBDF_TABLEEND_SECTIONID with 5. change SBDF_TABLESLICE_SECTIONID with 3.
  change (3 =? 5) with false. change (negb (3 =? 3)) with false. cbv beta iota. rewrite A2. cbv beta iota. replace (n <? 0) with false by lia. rewrite Z.eqb_refl. cbn [negb]. cbv beta iota. rewrite R. reflexivity.
Qed.
