(* Prim.v — streams and the primitive readers/writers of internals.c, fileheader.c (section
   markers) and valuetype.c, as total functions.

   Input stream  : the list of bytes not yet consumed.  fread of k bytes succeeds iff k bytes
                   remain; fseek(SEEK_CUR, k >= 0) always succeeds (a position at or beyond EOF
                   behaves the same for every later call: reads of >= 1 byte fail, seeks succeed).
   Output stream : accepted chunks (newest first) and a byte budget; a write that does not fit
                   is accepted up to the budget and then fails, as an unbuffered stream on a full
                   device does.  Every fwrite site keeps its own comparison and error status.
   Parameters    : swp  — does sbdf_swap reverse (library compiled for a big-endian host)?
                   cap  — the largest allocation that succeeds (None: memory never runs out). *)
From Sbdf Require Export Base.
From Sbdf.Gen Require Export Consts.

Definition ist := list Z.
Definition R (A : Type) := ist -> res (A * ist).

Definition rret {A} (a : A) : R A := fun s => Ok (a, s).
Definition rfail {A} (e : Z) : R A := fun _ => Err e.
Definition rd_bind {A B} (m : R A) (f : A -> R B) : R B :=
  fun s => match m s with Ok (a, s') => f a s' | Err e => Err e end.

Notation "x <-r m ;; k" := (rd_bind m (fun x => k)) (at level 100, m at next level, right associativity).
Notation "m ;;r k" := (rd_bind m (fun _ => k)) (at level 100, right associativity).
Notation "x <-e m ;; k" := (rbind m (fun x => k)) (at level 100, m at next level, right associativity).

Record wst := { wchunks : list (list Z); wbud : Z }.
Definition wbytes (s : wst) : list Z := concat (rev (wchunks s)).
Definition W (A : Type) := wst -> res A * wst.
Definition wret {A} (a : A) : W A := fun s => (Ok a, s).
Definition wfail {A} (e : Z) : W A := fun s => (Err e, s).
Definition wbind {A B} (m : W A) (f : A -> W B) : W B :=
  fun s => match m s with (Ok a, s') => f a s' | (Err e, s') => (Err e, s') end.
Notation "x <-w m ;; k" := (wbind m (fun x => k)) (at level 100, m at next level, right associativity).
Notation "m ;;w k" := (wbind m (fun _ => k)) (at level 100, right associativity).

(* `if (fwrite(bs...) != n) return err;` *)
Definition put (bs : list Z) (err : Z) : W unit := fun s =>
  if zlen bs <=? wbud s
  then (Ok tt, {| wchunks := bs :: wchunks s; wbud := wbud s - zlen bs |})
  else (Err err, {| wchunks := ztake (wbud s) bs :: wchunks s; wbud := 0 |}).

Fixpoint wfor {A} (l : list A) (f : A -> W unit) : W unit :=
  match l with
  | [] => wret tt
  | x :: r => f x ;;w wfor r f
  end.

Definition wstart (budget : Z) : wst := {| wchunks := []; wbud := budget |}.
(* status (0 = OK) and bytes accepted by a writer run on a fresh stream with the given budget *)
Definition wrun (w : W unit) (budget : Z) : Z * list Z :=
  match w (wstart budget) with
  | (Ok _, s) => (SBDF_OK, wbytes s)
  | (Err e, s) => (e, wbytes s)
  end.
Definition unlimited : Z := 4611686018427387904.

(* ---- leaf functions of internals.c (hand model; tied to the translated source in Leaf/) ---- *)

Definition usize (id : Z) : Z :=
  if id =? SBDF_BYTETYPEID then 1
  else if id =? SBDF_FLOATTYPEID then 4
  else if id =? SBDF_DOUBLETYPEID then 8
  else if id =? SBDF_DATETIMETYPEID then 8
  else if id =? SBDF_DATETYPEID then 8
  else if id =? SBDF_TIMETYPEID then 8
  else if id =? SBDF_TIMESPANTYPEID then 8
  else if id =? SBDF_STRINGTYPEID then 0
  else if id =? SBDF_BINARYTYPEID then 0
  else if id =? SBDF_DECIMALTYPEID then 16
  else if id =? SBDF_BOOLTYPEID then 1
  else if id =? SBDF_INTTYPEID then 4
  else if id =? SBDF_LONGTYPEID then 8
  else SBDF_ERROR_UNKNOWN_TYPEID.

Definition is_arr (id : Z) : bool := (id =? SBDF_STRINGTYPEID) || (id =? SBDF_BINARYTYPEID).

Definition len7 (v : Z) : Z :=
  if v <? 128 then 1 else if v <? 16384 then 2 else if v <? 2097152 then 3
  else if v <? 268435456 then 4 else 5.

(* the byte-level loops of the packed-int routines in arithmetic form: x & 0x7f = x mod 128,
   x >> 7 = x / 128, x | 0x80 = x + 128 for x < 128, r |= g << s is r + g * 2^s when r < 2^s
   (the bit-level form is what Leaf/ translates from the source and ties to these) *)
Fixpoint enc7_loop (fuel : nat) (val : Z) : list Z :=
  match fuel with
  | O => []
  | S f => if 127 <? val then (val mod 128 + 128) :: enc7_loop f (val / 128)
           else [val]
  end.
Definition enc7 (v : Z) : list Z := enc7_loop 5 (to_u32 v).

(* sbdf_calculate_array_capacity: smallest member of 0,1,2,4,7,11,17,... that is >= size *)
Fixpoint cap_loop (fuel : nat) (c size : Z) : Z :=
  match fuel with
  | O => c
  | S f => if c <? size then cap_loop f (1 + c * 3 / 2) size else c
  end.
Definition array_capacity (size : Z) : Z := cap_loop 64 0 size.

Definition INT_MAX : Z := 2147483647.

Section Prim.
Variable swp : bool.
Variable cap : option Z.

Definition alloc_ok (bytes : Z) : bool :=
  match cap with None => true | Some c => bytes <=? c end.
Definition ralloc (bytes : Z) : R unit :=
  fun s => if alloc_ok bytes then Ok (tt, s) else Err SBDF_ERROR_OUT_OF_MEMORY.

Definition swapb (bs : list Z) : list Z := if swp then rev bs else bs.

(* fread(buf, 1, n, f) != n  ->  SBDF_ERROR_IO.  (take_z walks only the n bytes it takes: the
   model is run on files of a megabyte, so no primitive may measure the whole remaining stream) *)
Definition fread_bytes (n : Z) : R (list Z) := fun s =>
  if n <? 0 then Err SBDF_ERROR_IO else
  match take_z s n with
  | Some (a, t) => Ok (a, t)
  | None => Err SBDF_ERROR_IO
  end.

Definition fseek_cur (k : Z) : R unit := fun s =>
  if k <? 0 then Err SBDF_ERROR_IO else Ok (tt, drop_z s k).

Definition read_int8 : R Z := fun s =>
  match s with
  | [] => Err SBDF_ERROR_IO
  | b :: s' => Ok (b, s')
  end.

Definition read_int32 : R Z :=
  bs <-r fread_bytes 4 ;; rret (de32 (swapb bs)).

Fixpoint read7_loop (fuel : nat) (result shl : Z) (s : ist) : res (Z * ist) :=
  match fuel with
  | O => Err SBDF_ERROR_INVALID_SIZE
  | S f =>
    match s with
    | [] => Err SBDF_ERROR_IO
    | uch :: s' =>
      let result' := result + to_u32 ((uch mod 128) * 2 ^ shl) in
      if 128 <=? uch
      then (if 28 <? shl + 7 then Err SBDF_ERROR_INVALID_SIZE else read7_loop f result' (shl + 7) s')
      else Ok (to_i32 result', s')
    end
  end.
Definition read_7bit : R Z := read7_loop 6 0 0.

Definition write_int8 (v : Z) : W unit := put [v mod 256] SBDF_ERROR_IO.
Definition write_int32 (v : Z) : W unit := put (swapb (le32 v)) SBDF_ERROR_IO.
Definition write_7bit (v : Z) : W unit := put (enc7 v) SBDF_ERROR_IO.

Definition write_string (s : list Z) : W unit :=
  write_int32 (zlen s) ;;w put s SBDF_ERROR_IO.

Definition read_string : R (list Z) :=
  l <-r read_int32 ;;
  if l <? 0 then rfail SBDF_ERROR_INVALID_SIZE else
  if l =? INT_MAX then rfail SBDF_ERROR_OUT_OF_MEMORY else     (* no room for the terminator *)
  ralloc (l + 5) ;;r
  fread_bytes l.

Definition skip_string : R unit :=
  l <-r read_int32 ;;
  if l <? 0 then rfail SBDF_ERROR_INVALID_SIZE else fseek_cur l.

(* repeat `one` n times; the fuel is the unread input itself: every `one` used here consumes at
   least one byte when it succeeds, so the fuel cannot run out before the input does *)
Fixpoint rrep {A} (fuel : list Z) (n : Z) (one : R A) (s : ist) : res (list A * ist) :=
  if n <=? 0 then Ok ([], s) else
  match fuel with
  | [] => match one s with Err e => Err e | Ok _ => Err SBDF_ERROR_IO end
  | _ :: fuel' =>
    match one s with
    | Err e => Err e
    | Ok (a, s') =>
      match rrep fuel' (n - 1) one s' with
      | Err e => Err e
      | Ok (l, s'') => Ok (a :: l, s'')
      end
    end
  end.
Definition rrepeat {A} (n : Z) (one : R A) : R (list A) := fun s => rrep s n one s.

(* ---- section markers (fileheader.c) and value types (valuetype.c) ---- *)

Definition sec_write (id : Z) : W unit :=
  write_int8 223 ;;w write_int8 91 ;;w write_int8 id.

Definition sec_read : R Z :=
  v <-r read_int8 ;;
  if negb (v =? 223) then rfail SBDF_ERROR_MAGIC_NUMBER_MISSING else
  v <-r read_int8 ;;
  if negb (v =? 91) then rfail SBDF_ERROR_MAGIC_NUMBER_MISSING else
  read_int8.

Definition sec_expect (id : Z) : R unit :=
  v <-r sec_read ;;
  if negb (v =? id) then rfail SBDF_ERROR_UNEXPECTED_SECTION_ID else rret tt.

Definition fh_write_cur : W unit :=
  sec_write SBDF_FILEHEADER_SECTIONID ;;w
  write_int8 SBDF_MAJOR_VERSION ;;w
  write_int8 SBDF_MINOR_VERSION.

Definition fh_read : R (Z * Z) :=
  sec_expect SBDF_FILEHEADER_SECTIONID ;;r
  major <-r read_int8 ;;
  minor <-r read_int8 ;;
  rret (major, minor).

Definition vt_write (id : Z) : W unit := write_int8 id.
Definition vt_read : R Z := read_int8.

End Prim.
