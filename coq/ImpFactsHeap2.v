(* ImpFactsHeap2.v - the constructors and copies built on sbdf_allocate_array / sbdf_str_create_len (ImpFactsHeap.v):
   sbdf_str_create, sbdf_str_copy, sbdf_ba_create, sbdf_ba_destroy, sbdf_copy_array from the source. *)
From Sbdf Require Import ImpCall Gen.Prog Gen.Consts Base Prim BaseFacts ImpBase ImpFactsHeap.
From Coq Require Import ZifyBool.
Local Open Scope Z_scope.
Ltac Zify.zify_post_hook ::= Z.div_mod_to_equations.

Ltac evch := cbn [prog_env eval_args callee_init finish_call copy_in copy_out try_update update lookup combine map app String.append
                 String.eqb Ascii.eqb Bool.eqb fparams flocals fbody vars inb outb budget_var fail_var strm_var cells_var cell_token List.length Nat.eqb eval set_var cast
                 prog_sbdf_allocate_array prog_sbdf_dispose_array prog_sbdf_copy_array prog_sbdf_str_create_len prog_sbdf_str_create
                 prog_sbdf_str_destroy prog_sbdf_str_copy prog_sbdf_ba_create prog_sbdf_ba_destroy prog_sbdf_get_array_length prog_sbdf_str_len
                 truth binop_int b2z negb];
  change (0 =? 0) with true; change (1 =? 0) with false; cbn [negb b2z].

Section WithStream.
Variable sx : list Z.
(* ... nor the cell heap (structs): it is carried along so that functions working on structs can call these *)
Variable hc : list (option (list val)).

Lemma strlen_l_spec bytes post : Forall (fun b => b <> 0) bytes -> strlen_l (bytes ++ 0 :: post) = Some (zlen bytes).
Proof.
  induction 1 as [|b bytes Hb _ IH]; cbn [app strlen_l]; [reflexivity|].
  replace (b =? 0) with false by lia. rewrite IH, zlen_cons. reflexivity.
Qed.

Definition sc1 (q : Z) (r bv : val) (k : Z) (m o : list Z) : state :=
  {| vars := [("str"%string, VPtr RIn q); ("$ret"%string, r); (budget_var, bv); (fail_var, VInt k); (strm_var, VBytes sx); (cells_var, VHeap hc)]; inb := m; outb := o |}.

Lemma str_create_bs pre bytes post r bv k o : Forall (fun b => b <> 0) bytes -> zlen bytes + 1 <= int_max ->
  let m := pre ++ bytes ++ 0 :: post in
  bsE prog_env (fbody prog_sbdf_str_create) (sc1 (zlen pre) r bv k m o)
    (if k =? 0 then OReturn VNull (sc1 (zlen pre) VNull bv (-1) m o)
     else OReturn (VPtr RIn (zlen m + 4)) (sc1 (zlen pre) (VPtr RIn (zlen m + 4)) bv (next_fail k) (str_mem m bytes []) o)).
Proof.
  intros Hnz Hmax m. cbn [fbody prog_sbdf_str_create]. unfold sc1. pose proof (zlen_nonneg bytes) as Pb. pose proof (zlen_nonneg pre) as Pp. pose proof (zlen_nonneg post) as Pq.
  assert (Hlm : zlen m = zlen pre + zlen bytes + 1 + zlen post) by (unfold m; rewrite !zlen_app, zlen_cons; lia).
  assert (Hsk : skipn (Z.to_nat (zlen pre)) m = bytes ++ 0 :: post) by (unfold m; apply skipn_app_zlen).
  assert (Hsrc : src_ok (VPtr RIn (zlen pre)) (zlen bytes) m bytes).
  { split; [lia|]. split; [lia|]. rewrite Hsk. unfold zlen. rewrite Nat2Z.id. rewrite firstn_app, Nat.sub_diag, firstn_all. cbn [firstn]. now rewrite app_nil_r. }
  pose proof (str_create_len_bs sx hc (VPtr RIn (zlen pre)) (zlen bytes) VUndef bv k m o bytes Pb Hmax Hsrc) as CL.
  assert (Hargs : eval_args [AVal (EVar "str"); AVal (ECast TInt (EStrlen (EVar "str")))]
            {| vars := [("str"%string, VPtr RIn (zlen pre)); ("$ret"%string, r); (budget_var, bv); (fail_var, VInt k); (strm_var, VBytes sx); (cells_var, VHeap hc)]; inb := m; outb := o |}
          = Some ([VPtr RIn (zlen pre); VInt (zlen bytes)], [None; None],
                  {| vars := [("str"%string, VPtr RIn (zlen pre)); ("$ret"%string, r); (budget_var, bv); (fail_var, VInt k); (strm_var, VBytes sx); (cells_var, VHeap hc)]; inb := m; outb := o |})).
  { cbn [eval_args eval lookup String.eqb Ascii.eqb Bool.eqb vars inb]. rewrite zlen_length, Hlm.
    replace ((0 <=? zlen pre) && (zlen pre <=? zlen pre + zlen bytes + 1 + zlen post)) with true by lia.
    rewrite Hsk, (strlen_l_spec bytes post Hnz). cbn [cast]. unfold int_max in Hmax. rewrite wrap_id by (unfold int_min, int_max; lia). reflexivity. }
  destruct (k =? 0) eqn:Ek.
  - eapply bsE_seq; [eapply bsE_call; [reflexivity|exact Hargs|reflexivity|exact CL|unfold cl; evch; reflexivity]|]. eapply bsE_return. evh. reflexivity.
  - eapply bsE_seq; [eapply bsE_call; [reflexivity|exact Hargs|reflexivity|exact CL|unfold cl; evch; reflexivity]|]. eapply bsE_return. evh. reflexivity.
Qed.

(* sbdf_get_array_length / sbdf_str_len called from a frame that carries the failure oracle *)
Definition ga2 (p : Z) (bv : val) (k : Z) (m o : list Z) : state :=
  {| vars := [("array"%string, VPtr RIn p); (budget_var, bv); (fail_var, VInt k); (strm_var, VBytes sx); (cells_var, VHeap hc)]; inb := m; outb := o |}.

Lemma get_array_length_bs2 pre n rest bv k o : 0 <= n < 2147483648 ->
  bsE prog_env (fbody prog_sbdf_get_array_length) (ga2 (zlen pre + 4) bv k (pre ++ le32 n ++ rest) o)
      (OReturn (VInt n) (ga2 (zlen pre + 4) bv k (pre ++ le32 n ++ rest) o)).
Proof.
  intros Hn. cbn [fbody prog_sbdf_get_array_length]. unfold ga2. pose proof (zlen_nonneg pre) as Pp. pose proof (zlen_nonneg rest) as Pr.
  eapply bsE_return. cbn [eval lookup String.eqb Ascii.eqb Bool.eqb vars binop_int]. chk7. cbn [inb].
  replace (zlen pre + 4 + 4 * (0 - 1)) with (zlen pre) by lia. rewrite skipn_app_zlen.
  assert (Hlen : (0 <=? zlen pre) && (zlen pre + 4 <=? Z.of_nat (List.length (pre ++ le32 n ++ rest))) = true).
  { rewrite zlen_length, !zlen_app. change (zlen (le32 n)) with 4. lia. }
  rewrite Hlen. pose proof (le32_decode n Hn) as D. unfold le32 in *. cbv zeta in *. cbn [app]. rewrite D. reflexivity.
Qed.

Definition sl2 (p : Z) (c bv : val) (k : Z) (m o : list Z) : state :=
  {| vars := [("str"%string, VPtr RIn p); ("$c1"%string, c); (budget_var, bv); (fail_var, VInt k); (strm_var, VBytes sx); (cells_var, VHeap hc)]; inb := m; outb := o |}.

Lemma str_len_bs2 pre bytes post c bv k o : zlen bytes + 1 < 2147483648 ->
  bsE prog_env (fbody prog_sbdf_str_len) (sl2 (zlen pre + 4) c bv k (str_mem pre bytes post) o)
      (OReturn (VInt (zlen bytes)) (sl2 (zlen pre + 4) (VInt (zlen bytes + 1)) bv k (str_mem pre bytes post) o)).
Proof.
  intros Hl. cbn [fbody prog_sbdf_str_len]. unfold sl2, str_mem. pose proof (zlen_nonneg bytes) as Pb.
  eapply bsE_seq.
  - eapply bsE_call; [reflexivity|evch; reflexivity|reflexivity|apply (get_array_length_bs2 pre (zlen bytes + 1) (bytes ++ [0] ++ post) bv k o); lia|unfold ga2; evch; reflexivity].
  - eapply bsE_return. evch. chk7. replace (zlen bytes + 1 - 1) with (zlen bytes) by lia. reflexivity.
Qed.

Definition scp (p : Z) (c r bv : val) (k : Z) (m o : list Z) : state :=
  {| vars := [("inp"%string, VPtr RIn p); ("$c2"%string, c); ("$ret"%string, r); (budget_var, bv); (fail_var, VInt k); (strm_var, VBytes sx); (cells_var, VHeap hc)]; inb := m; outb := o |}.

Lemma str_copy_bs pre bytes post c r bv k o : zlen bytes + 1 <= int_max ->
  let m := str_mem pre bytes post in
  exists c', bsE prog_env (fbody prog_sbdf_str_copy) (scp (zlen pre + 4) c r bv k m o)
    (if k =? 0 then OReturn VNull (scp (zlen pre + 4) c' VNull bv (-1) m o)
     else OReturn (VPtr RIn (zlen m + 4)) (scp (zlen pre + 4) c' (VPtr RIn (zlen m + 4)) bv (next_fail k) (str_mem m bytes []) o)).
Proof.
  intros Hmax m. cbn [fbody prog_sbdf_str_copy]. unfold scp. unfold int_max in Hmax.
  pose proof (zlen_nonneg bytes) as Pb. pose proof (zlen_nonneg pre) as Pp. pose proof (zlen_nonneg post) as Pq.
  assert (Hlm : zlen m = zlen pre + 4 + zlen bytes + 1 + zlen post).
  { unfold m, str_mem. rewrite !zlen_app. change (zlen (le32 (zlen bytes + 1))) with 4. change (zlen [0]) with 1. lia. }
  assert (Hsk : skipn (Z.to_nat (zlen pre + 4)) m = bytes ++ [0] ++ post).
  { unfold m, str_mem. rewrite app_assoc. replace (zlen pre + 4) with (zlen (pre ++ le32 (zlen bytes + 1))) by (rewrite zlen_app; reflexivity). apply skipn_app_zlen. }
  assert (Hsrc : src_ok (VPtr RIn (zlen pre + 4)) (zlen bytes) m bytes).
  { split; [lia|]. split; [lia|]. rewrite Hsk. unfold zlen. rewrite Nat2Z.id. rewrite firstn_app, Nat.sub_diag, firstn_all. cbn [firstn]. now rewrite app_nil_r. }
  pose proof (str_len_bs2 pre bytes post VUndef bv k o ltac:(lia)) as SL2.
  pose proof (str_create_len_bs sx hc (VPtr RIn (zlen pre + 4)) (zlen bytes) VUndef bv k m o bytes Pb ltac:(unfold int_max; lia) Hsrc) as CL.
  eexists.
  eapply bsE_seq; [eapply bsE_call; [reflexivity|evch; reflexivity|reflexivity|exact SL2|unfold sl2; evch; reflexivity]|].
  destruct (k =? 0) eqn:Ek.
  - eapply bsE_seq; [eapply bsE_call; [reflexivity|evch; reflexivity|reflexivity|exact CL|unfold cl; evch; reflexivity]|]. eapply bsE_return. evh. reflexivity.
  - eapply bsE_seq; [eapply bsE_call; [reflexivity|evch; reflexivity|reflexivity|exact CL|unfold cl; evch; reflexivity]|]. eapply bsE_return. evh. reflexivity.
Qed.

Definition bc (sv : val) (n : Z) (p c bv : val) (k : Z) (m o : list Z) : state :=
  {| vars := [("str"%string, sv); ("length"%string, VInt n); ("ptr"%string, p); ("$c1"%string, c); (budget_var, bv); (fail_var, VInt k); (strm_var, VBytes sx); (cells_var, VHeap hc)]; inb := m; outb := o |}.

Lemma ba_create_bs sv n p c bv k m o payload : 0 <= n -> n <= int_max -> src_ok sv n m payload ->
  exists c', bsE prog_env (fbody prog_sbdf_ba_create) (bc sv n p c bv k m o)
    (if k =? 0 then OReturn VNull (bc sv n VNull c' bv (-1) m o)
     else OReturn (VPtr RIn (zlen m + 4)) (bc sv n (VPtr RIn (zlen m + 4)) c' bv (next_fail k) (ba_mem m payload []) o)).
Proof.
  intros Hn Hmax Hsrc. cbn [fbody prog_sbdf_ba_create]. unfold bc. unfold int_max in *.
  pose proof (src_len sv n m payload Hn Hsrc) as Hlen. pose proof (zlen_nonneg m) as Pm.
  pose proof (allocate_array_bs sx hc n VUndef bv k m o Hn ltac:(unfold int_max; lia)) as AL.
  destruct (k =? 0) eqn:Ek.
  - eexists. eapply bsE_seq.
    + eapply bsE_seq; [eapply bsE_call; [reflexivity|destruct sv as [z| [|] q | | |bs|cb ci|hh]; try contradiction; evch; reflexivity|reflexivity|exact AL|unfold aa; destruct sv as [z| [|] q | | |bs|cb ci|hh]; try contradiction; evch; reflexivity]|].
      eapply bsE_decl1; [evh; reflexivity|evh; reflexivity].
    + eapply bsE_seq; [eapply bsE_if; [evh; reflexivity|reflexivity|apply bsE_skip]|]. eapply bsE_return. evh. reflexivity.
  - eexists. set (pfx := m ++ le32 n).
    assert (Hpfx : zlen pfx = zlen m + 4) by (unfold pfx; rewrite zlen_app; reflexivity).
    assert (Hmem : ba_mem m payload [] = pfx ++ payload ++ []) by (unfold ba_mem, pfx; rewrite Hlen, <- !app_assoc; reflexivity).
    eapply bsE_seq.
    + eapply bsE_seq; [eapply bsE_call; [reflexivity|destruct sv as [z| [|] q | | |bs|cb ci|hh]; try contradiction; evch; reflexivity|reflexivity|exact AL|unfold aa; destruct sv as [z| [|] q | | |bs|cb ci|hh]; try contradiction; evch; reflexivity]|].
      eapply bsE_decl1; [evh; reflexivity|evh; reflexivity].
    + destruct sv as [z| [|] q | | |bs|cb ci|hh]; try contradiction.
      * destruct Hsrc as (Hq & Hb & Hp).
        eapply bsE_seq.
        -- eapply bsE_if; [evh; reflexivity|reflexivity|]. eapply bsE_expr. evh. replace (0 <=? n) with true by lia. evh.
           rewrite zlen_length. rewrite !zlen_app, zlen_repeat by lia. change (zlen (le32 n)) with 4.
           replace ((0 <=? n) && (0 <=? zlen m + 4) && (zlen m + 4 + n <=? zlen m + (4 + n)) && (0 <=? q) && (q + n <=? zlen m + (4 + n)) && ((zlen m + 4 + n <=? q) || (q + n <=? zlen m + 4))) with true by lia.
           assert (Hsrc2 : firstn (Z.to_nat n) (skipn (Z.to_nat q) (m ++ le32 n ++ repeat junk (Z.to_nat n))) = payload).
           { rewrite (firstn_skipn_prefix m _ q n Hq Hn Hb). symmetry. exact Hp. }
           rewrite Hsrc2. replace (Z.to_nat (zlen m + 4)) with (List.length pfx) by (unfold zlen in *; lia).
           rewrite (app_assoc m (le32 n)). fold pfx. rewrite <- (app_nil_r (repeat junk (Z.to_nat n))).
           rewrite (upd_range_at payload pfx (repeat junk (Z.to_nat n)) []) by (rewrite repeat_length; unfold zlen in Hlen; lia). reflexivity.
        -- eapply bsE_cast_o; [eapply bsE_return; evh; reflexivity|]. rewrite Hmem. reflexivity.
      * unfold src_ok in Hsrc. subst payload.
        eapply bsE_seq; [eapply bsE_if; [evh; reflexivity|reflexivity|apply bsE_skip]|].
        eapply bsE_cast_o; [eapply bsE_return; evh; reflexivity|]. rewrite Hmem. unfold pfx. rewrite <- !app_assoc, app_nil_r. reflexivity.
Qed.

Theorem str_create_source pre bytes post k : Forall (fun b => b <> 0) bytes -> zlen bytes + 1 <= int_max ->
  let m := pre ++ bytes ++ 0 :: post in
  exists f0, forall f, (f0 <= f)%nat -> exists fin,
    callC prog_env f prog_sbdf_str_create [VPtr RIn (zlen pre)] m k sx hc = OReturn (if k =? 0 then VNull else VPtr RIn (zlen m + 4)) fin /\
    inb fin = (if k =? 0 then m else str_mem m bytes []).
Proof.
  intros Hnz Hmax m. pose proof (str_create_bs pre bytes post VUndef (VInt 0) k [] Hnz Hmax) as B. cbn zeta in B. fold m in B.
  destruct (k =? 0); destruct (bsE_sound _ _ _ _ B) as (f0 & F); exists f0; intros f Hf; eexists; (split; [apply F; exact Hf|reflexivity]).
Qed.

Theorem str_copy_source pre bytes post k : zlen bytes + 1 <= int_max ->
  let m := str_mem pre bytes post in
  exists f0, forall f, (f0 <= f)%nat -> exists fin,
    callC prog_env f prog_sbdf_str_copy [VPtr RIn (zlen pre + 4)] m k sx hc = OReturn (if k =? 0 then VNull else VPtr RIn (zlen m + 4)) fin /\
    inb fin = (if k =? 0 then m else str_mem m bytes []).
Proof.
  intros Hmax m. destruct (str_copy_bs pre bytes post VUndef VUndef (VInt 0) k [] Hmax) as (c' & B). cbn zeta in B. fold m in B.
  destruct (k =? 0); destruct (bsE_sound _ _ _ _ B) as (f0 & F); exists f0; intros f Hf; eexists; (split; [apply F; exact Hf|reflexivity]).
Qed.

Theorem ba_create_source q n m k : 0 <= n -> n <= int_max -> 0 <= q -> q + n <= zlen m ->
  exists f0, forall f, (f0 <= f)%nat -> exists fin,
    callC prog_env f prog_sbdf_ba_create [VPtr RIn q; VInt n] m k sx hc = OReturn (if k =? 0 then VNull else VPtr RIn (zlen m + 4)) fin /\
    inb fin = (if k =? 0 then m else ba_mem m (firstn (Z.to_nat n) (skipn (Z.to_nat q) m)) []).
Proof.
  intros Hn Hmax Hq Hb.
  destruct (ba_create_bs (VPtr RIn q) n VUndef VUndef (VInt 0) k m [] _ Hn Hmax (conj Hq (conj Hb eq_refl))) as (c' & B).
  destruct (k =? 0); destruct (bsE_sound _ _ _ _ B) as (f0 & F); exists f0; intros f Hf; eexists; (split; [apply F; exact Hf|reflexivity]).
Qed.

Lemma ba_destroy_bs p bv k m o : 4 <= p <= zlen m ->
  bsE prog_env (fbody prog_sbdf_ba_destroy) (ds sx hc p bv k m o) (ONormal (ds sx hc p bv k m o)).
Proof.
  intros Hp. cbn [fbody prog_sbdf_ba_destroy]. unfold ds.
  eapply bsE_call_void; [reflexivity|evch; reflexivity|reflexivity|apply (dispose_array_bs sx hc p bv k m o Hp)|unfold da; evch; reflexivity].
Qed.

Theorem destroy_source p m k : 4 <= p <= zlen m ->
  exists f0, forall f, (f0 <= f)%nat ->
    (exists fin, callC prog_env f prog_sbdf_str_destroy [VPtr RIn p] m k sx hc = ONormal fin /\ inb fin = m) /\
    (exists fin, callC prog_env f prog_sbdf_ba_destroy [VPtr RIn p] m k sx hc = ONormal fin /\ inb fin = m).
Proof.
  intros Hp. destruct (bsE_sound _ _ _ _ (str_destroy_bs sx hc p (VInt 0) k m [] Hp)) as (f1 & F1).
  destruct (bsE_sound _ _ _ _ (ba_destroy_bs p (VInt 0) k m [] Hp)) as (f2 & F2).
  exists (Nat.max f1 f2). intros f Hf. split; eexists; (split; [first [apply F1|apply F2]; lia|reflexivity]).
Qed.

Definition ca (p : Z) (d l bv : val) (k : Z) (m o : list Z) : state :=
  {| vars := [("src"%string, VPtr RIn p); ("dst"%string, d); ("l"%string, l); (budget_var, bv); (fail_var, VInt k); (strm_var, VBytes sx); (cells_var, VHeap hc)]; inb := m; outb := o |}.

Lemma copy_array_bs pre payload post d l bv k o : zlen payload <= int_max ->
  let m := pre ++ le32 (zlen payload) ++ payload ++ post in
  bsE prog_env (fbody prog_sbdf_copy_array) (ca (zlen pre + 4) d l bv k m o)
    (if k =? 0 then OReturn VNull (ca (zlen pre + 4) VNull (VInt (zlen payload)) bv (-1) m o)
     else OReturn (VPtr RIn (zlen m + 4)) (ca (zlen pre + 4) (VPtr RIn (zlen m + 4)) (VInt (zlen payload)) bv (next_fail k) (ba_mem m payload []) o)).
Proof.
  intros Hmax m. cbn [fbody prog_sbdf_copy_array]. unfold ca. unfold int_max in Hmax.
  pose proof (zlen_nonneg payload) as Pl. pose proof (zlen_nonneg pre) as Pp. pose proof (zlen_nonneg post) as Pq.
  set (n := zlen payload) in *.
  assert (Hlm : zlen m = zlen pre + 4 + n + zlen post) by (unfold m; rewrite !zlen_app; change (zlen (le32 n)) with 4; fold n; lia).
  pose proof (get_array_length_bs2 pre n (payload ++ post) bv k o ltac:(lia)) as GL. fold m in GL.
  pose proof (allocate_array_bs sx hc n VUndef bv k m o Pl ltac:(unfold int_max; lia)) as AL.
  assert (Hsk : skipn (Z.to_nat (zlen pre + 4)) m = payload ++ post).
  { unfold m. rewrite app_assoc. replace (zlen pre + 4) with (zlen (pre ++ le32 n)) by (rewrite zlen_app; reflexivity). apply skipn_app_zlen. }
  eapply bsE_seq; [eapply bsE_decl0; evh; reflexivity|]. eapply bsE_seq; [eapply bsE_decl0; evh; reflexivity|].
  eapply bsE_seq; [eapply bsE_call; [reflexivity|evch; reflexivity|reflexivity|exact GL|unfold ga2; evch; reflexivity]|].
  destruct (k =? 0) eqn:Ek.
  - eapply bsE_seq; [eapply bsE_call; [reflexivity|evch; reflexivity|reflexivity|exact AL|unfold aa; evch; reflexivity]|].
    eapply bsE_seq; [eapply bsE_if; [evh; reflexivity|reflexivity|apply bsE_skip]|]. eapply bsE_return. evh. reflexivity.
  - set (pfx := m ++ le32 n).
    assert (Hpfx : zlen pfx = zlen m + 4) by (unfold pfx; rewrite zlen_app; reflexivity).
    eapply bsE_seq; [eapply bsE_call; [reflexivity|evch; reflexivity|reflexivity|exact AL|unfold aa; evch; reflexivity]|].
    eapply bsE_seq.
    + eapply bsE_if; [evh; reflexivity|reflexivity|]. eapply bsE_expr. evh. replace (0 <=? n) with true by lia. evh.
      rewrite zlen_length. rewrite !zlen_app, zlen_repeat by lia. change (zlen (le32 n)) with 4. rewrite Hlm.
      replace ((0 <=? n) && (0 <=? zlen pre + 4 + n + zlen post + 4) && (zlen pre + 4 + n + zlen post + 4 + n <=? zlen pre + 4 + n + zlen post + (4 + n)) && (0 <=? zlen pre + 4) &&
               (zlen pre + 4 + n <=? zlen pre + 4 + n + zlen post + (4 + n)) && ((zlen pre + 4 + n + zlen post + 4 + n <=? zlen pre + 4) || (zlen pre + 4 + n <=? zlen pre + 4 + n + zlen post + 4))) with true by lia.
      assert (Hsrc2 : firstn (Z.to_nat n) (skipn (Z.to_nat (zlen pre + 4)) (m ++ le32 n ++ repeat junk (Z.to_nat n))) = payload).
      { rewrite (firstn_skipn_prefix m _ (zlen pre + 4) n ltac:(lia) Pl ltac:(lia)). rewrite Hsk. unfold n, zlen. rewrite Nat2Z.id, firstn_app, Nat.sub_diag, firstn_all. cbn [firstn]. now rewrite app_nil_r. }
      rewrite Hsrc2. replace (Z.to_nat (zlen pre + 4 + n + zlen post + 4)) with (List.length pfx) by (unfold zlen in *; lia).
      rewrite (app_assoc m (le32 n)). fold pfx. rewrite <- (app_nil_r (repeat junk (Z.to_nat n))).
      rewrite (upd_range_at payload pfx (repeat junk (Z.to_nat n)) []) by (rewrite repeat_length; unfold n, zlen; lia). reflexivity.
    + eapply bsE_cast_o; [eapply bsE_return; evh; reflexivity|]. unfold ba_mem, pfx. fold n. rewrite <- !app_assoc, Hlm. reflexivity.
Qed.

Theorem copy_array_source pre payload post k : zlen payload <= int_max ->
  let m := pre ++ le32 (zlen payload) ++ payload ++ post in
  exists f0, forall f, (f0 <= f)%nat -> exists fin,
    callC prog_env f prog_sbdf_copy_array [VPtr RIn (zlen pre + 4)] m k sx hc = OReturn (if k =? 0 then VNull else VPtr RIn (zlen m + 4)) fin /\
    inb fin = (if k =? 0 then m else ba_mem m payload []).
Proof.
  intros Hmax m. pose proof (copy_array_bs pre payload post VUndef VUndef (VInt 0) k [] Hmax) as B. cbv zeta in B. fold m in B.
  destruct (k =? 0); destruct (bsE_sound _ _ _ _ B) as (f0 & F); exists f0; intros f Hf; eexists; (split; [apply F; exact Hf|reflexivity]).
Qed.

Definition fails_clean (f : func) (args : list val) (m : list Z) : Prop :=
  exists f0, forall fu, (f0 <= fu)%nat -> exists fin, callC prog_env fu f args m 0 sx hc = OReturn VNull fin /\ inb fin = m.

Theorem alloc_failure_source :
  (forall q n m, 0 <= n -> n + 1 <= int_max -> 0 <= q -> q + n <= zlen m -> fails_clean prog_sbdf_str_create_len [VPtr RIn q; VInt n] m) /\
  (forall pre bytes post, Forall (fun b => b <> 0) bytes -> zlen bytes + 1 <= int_max -> fails_clean prog_sbdf_str_create [VPtr RIn (zlen pre)] (pre ++ bytes ++ 0 :: post)) /\
  (forall pre bytes post, zlen bytes + 1 <= int_max -> fails_clean prog_sbdf_str_copy [VPtr RIn (zlen pre + 4)] (str_mem pre bytes post)) /\
  (forall q n m, 0 <= n -> n <= int_max -> 0 <= q -> q + n <= zlen m -> fails_clean prog_sbdf_ba_create [VPtr RIn q; VInt n] m) /\
  (forall pre payload post, zlen payload <= int_max -> fails_clean prog_sbdf_copy_array [VPtr RIn (zlen pre + 4)] (pre ++ le32 (zlen payload) ++ payload ++ post)).
Proof.
  repeat split; intros.
  - destruct (str_create_len_source sx hc q n m 0) as (f0 & F); auto. exists f0. exact F.
  - destruct (str_create_source pre bytes post 0) as (f0 & F); auto. exists f0. exact F.
  - destruct (str_copy_source pre bytes post 0) as (f0 & F); auto. exists f0. exact F.
  - destruct (ba_create_source q n m 0) as (f0 & F); auto. exists f0. exact F.
  - destruct (copy_array_source pre payload post 0) as (f0 & F); auto. exists f0. exact F.
Qed.


End WithStream.
