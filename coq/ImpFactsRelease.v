(* ImpFactsRelease.v - containers that refer to objects they do not own, from the source:
   sbdf_ts_create, and sbdf_cs_destroy / sbdf_ts_destroy on slices built by the caller (owned = 0):
   exactly the container's own blocks are released - the names, the two pointer arrays, the struct -
   and the value arrays / column slices it refers to are left alone. *)
From Sbdf Require Import ImpCall Gen.Prog Gen.Consts Base BaseFacts ImpBase ImpFactsCells ImpFactsStrDestroy.
From Coq Require Import ZifyBool.
Local Open Scope Z_scope.
Ltac Zify.zify_post_hook ::= Z.div_mod_to_equations.

Ltac evr := cbn [prog_env eval_args callee_init finish_call copy_in copy_out try_update update lookup combine map app String.append
                 String.eqb Ascii.eqb Bool.eqb fparams flocals fbody vars inb outb budget_var fail_var strm_var cells_var cell_token List.length Nat.eqb eval set_var cast
                 prog_sbdf_dispose_array prog_sbdf_str_destroy prog_sbdf_cs_destroy prog_sbdf_ts_destroy prog_sbdf_ts_create
                 truth binop_int b2z negb heap_of as_ptr storable fst snd];
  change (0 =? 0) with true; change (1 =? 0) with false; cbn [negb b2z].

(* the names of a slice: stored strings - or nothing yet (a slice a failing reader hands to sbdf_cs_destroy) *)
Definition elem_ptrs (m : list Z) (cells : list val) : Prop :=
  Forall (fun c => as_ptr c = VNull \/ exists p, c = VPtr RIn p /\ 4 <= p <= zlen m) cells.

Section Release.
Variables (bv : val) (k : Z) (sx : list Z) (m o : list Z).


(* ---- sbdf_cs_destroy on a slice that does not own its arrays ---- *)
Lemma cs_names_loop h cb values names props nb ncells used : 
  cs_block h cb values (zlen used) names props 0 -> as_ptr names = VCell nb 0 -> nth_error h nb = Some (Some ncells) ->
  elem_ptrs m used -> (exists slack, ncells = used ++ slack) -> zlen used < int_max ->
  forall rest done, used = done ++ rest ->
  bsE prog_env
    (SWhile (EBin Lt (EVar "i") (ECellLoad (EVar "cs") (EConst 1) false))
       (SSeq (SCall None "sbdf_str_destroy" [(AVal (ECellLoad (ECellLoad (EVar "cs") (EConst 2) true) (EVar "i") true))]) (SExpr (EPreInc "i"))))
    (fr [("cs"%string, VCell cb 0); ("i"%string, VInt (zlen done))] bv k sx h m o)
    (ONormal (fr [("cs"%string, VCell cb 0); ("i"%string, VInt (zlen used))] bv k sx h m o)).
Proof.
  intros Hc Hn Hnb Hel (slack & Hsl) Hmax. unfold cs_block in Hc. unfold int_max in Hmax.
  induction rest as [|c rest IH]; intros done Hu; unfold fr.
  - rewrite app_nil_r in Hu. subst done.
    eapply bsE_while_f; [evr; chk7; evr; cellrw Hc; evr; rewrite Z.ltb_irrefl; reflexivity|reflexivity].
  - assert (Hin : In c used) by (rewrite Hu; apply in_or_app; right; left; reflexivity).
    unfold elem_ptrs in Hel. rewrite Forall_forall in Hel.
    pose proof (zlen_nonneg done) as Pd.
    assert (Hd : zlen done < zlen used) by (rewrite Hu, zlen_app; unfold zlen; cbn [List.length]; lia).
    assert (Hnth : nth_error ncells (Z.to_nat (0 + zlen done)) = Some c).
    { rewrite Hsl, Hu. replace (Z.to_nat (0 + zlen done)) with (List.length done) by (unfold zlen; lia). rewrite <- app_assoc. rewrite nth_error_app2 by lia. rewrite Nat.sub_diag. reflexivity. }
    assert (SD : bsE prog_env (fbody prog_sbdf_str_destroy) (fr [("str"%string, as_ptr c)] bv k sx h m o) (ONormal (fr [("str"%string, as_ptr c)] bv k sx h m o))).
    { destruct (Hel c Hin) as [N|(p & -> & Hp)]; [apply str_destroy_null; exact N|apply (str_destroy_fr bv k sx m o h p Hp)]. }
    unfold fr in SD. cbn [app] in SD.
    eapply bsE_while_t; [evr; chk7; evr; cellrw Hc; evr; replace (zlen done <? zlen used) with true by lia; reflexivity|reflexivity| |].
    + eapply bsE_seq.
      * eapply bsE_call_void; [reflexivity
          |evr; chk7; evr; cellrw Hc; evr; rewrite Hn; evr; unfold cell_get; rewrite Hnb; replace (0 <=? 0 + zlen done) with true by lia; rewrite Hnth; evr; reflexivity
          |reflexivity|evr; exact SD|evr; reflexivity].
      * eapply bsE_expr. evr. unfold incr. chk7. evr. reflexivity.
    + replace (zlen done + 1) with (zlen (done ++ [c])) by (rewrite zlen_app; reflexivity).
      apply IH. rewrite <- app_assoc. exact Hu.
Qed.


Lemma cs_destroy_bs h cb values names props nb ncells used pb pcells i0 :
  cs_block h cb values (zlen used) names props 0 -> as_ptr names = VCell nb 0 -> nth_error h nb = Some (Some ncells) ->
  elem_ptrs m used -> (exists slack, ncells = used ++ slack) -> zlen used < int_max ->
  as_ptr props = VCell pb 0 -> nth_error h pb = Some (Some pcells) -> cb <> nb -> cb <> pb -> nb <> pb ->
  bsE prog_env (fbody prog_sbdf_cs_destroy) (fr [("cs"%string, VCell cb 0); ("i"%string, i0)] bv k sx h m o)
    (ONormal (fr [("cs"%string, VCell cb 0); ("i"%string, VInt (zlen used))] bv k sx (kill cb (kill pb (kill nb h))) m o)).
Proof.
  intros Hc Hn Hnb Hel Hsl Hmax Hp Hpb N1 N2 N3.
  pose proof (cs_names_loop h cb values names props nb ncells used Hc Hn Hnb Hel Hsl Hmax used [] eq_refl) as LOOP.
  change (zlen (@nil val)) with 0 in LOOP. unfold fr in LOOP. cbn [app] in LOOP.
  unfold cs_block in Hc. cbn [fbody prog_sbdf_cs_destroy]. unfold fr.
  destruct (set_nth_v_some h nb _ None Hnb) as (h1 & E1).
  assert (Hc1 : nth_error h1 cb = Some (Some [values; VInt (zlen used); names; props; VInt 0])) by (rewrite (set_nth_v_other h nb cb None h1 E1) by congruence; exact Hc).
  assert (Hpb1 : nth_error h1 pb = Some (Some pcells)) by (rewrite (set_nth_v_other h nb pb None h1 E1) by congruence; exact Hpb).
  destruct (set_nth_v_some h1 pb _ None Hpb1) as (h2 & E2).
  assert (Hc2 : nth_error h2 cb = Some (Some [values; VInt (zlen used); names; props; VInt 0])) by (rewrite (set_nth_v_other h1 pb cb None h2 E2) by congruence; exact Hc1).
  destruct (set_nth_v_some h2 cb _ None Hc2) as (h3 & E3).
  assert (Hfin : kill cb (kill pb (kill nb h)) = h3) by (unfold kill; rewrite E1, E2, E3; reflexivity). rewrite Hfin.
  eapply bsE_if; [evr; reflexivity|reflexivity|].
  eapply bsE_seq; [eapply bsE_decl0; evr; reflexivity|].
  eapply bsE_seq; [eapply bsE_if; [evr; chk7; evr; cellrw Hc; evr; reflexivity|reflexivity|apply bsE_skip]|].
  eapply bsE_seq.
  { eapply bsE_if; [evr; chk7; evr; cellrw Hc; evr; rewrite Hn; reflexivity|reflexivity|].
    eapply bsE_seq; [eapply bsE_seq; [eapply bsE_expr; evr; chk7; evr; reflexivity|exact LOOP]|].
    eapply bsE_expr. evr. chk7. evr. cellrw Hc. evr. rewrite Hn. evr. rewrite Hnb. evr. rewrite E1. evr. reflexivity. }
  eapply bsE_seq.
  { eapply bsE_if; [evr; chk7; evr; cellrw Hc1; evr; rewrite Hp; reflexivity|reflexivity|].
    eapply bsE_expr. evr. chk7. evr. cellrw Hc1. evr. rewrite Hp. evr. rewrite Hpb1. evr. rewrite E2. evr. reflexivity. }
  eapply bsE_expr. evr. rewrite Hc2. evr. rewrite E3. evr. reflexivity.
Qed.

(* a slice as sbdf_cs_create hands it out: no names, no properties *)
Lemma cs_destroy_empty_bs h cb values i0 : cs_block h cb values 0 (VInt 0) (VInt 0) 0 ->
  bsE prog_env (fbody prog_sbdf_cs_destroy) (fr [("cs"%string, VCell cb 0); ("i"%string, i0)] bv k sx h m o)
    (ONormal (fr [("cs"%string, VCell cb 0); ("i"%string, VUndef)] bv k sx (kill cb h) m o)).
Proof.
  intros Hc. unfold cs_block in Hc. cbn [fbody prog_sbdf_cs_destroy]. unfold fr.
  destruct (set_nth_v_some h cb _ None Hc) as (h3 & E3).
  assert (Hfin : kill cb h = h3) by (unfold kill; rewrite E3; reflexivity). rewrite Hfin.
  eapply bsE_if; [evr; reflexivity|reflexivity|].
  eapply bsE_seq; [eapply bsE_decl0; evr; reflexivity|].
  eapply bsE_seq; [eapply bsE_if; [evr; chk7; evr; cellrw Hc; evr; reflexivity|reflexivity|apply bsE_skip]|].
  eapply bsE_seq; [eapply bsE_if; [evr; chk7; evr; cellrw Hc; evr; reflexivity|reflexivity|apply bsE_skip]|].
  eapply bsE_seq; [eapply bsE_if; [evr; chk7; evr; cellrw Hc; evr; reflexivity|reflexivity|apply bsE_skip]|].
  eapply bsE_expr. evr. rewrite Hc. evr. rewrite E3. evr. reflexivity.
Qed.

(* ---- sbdf_ts_destroy on a slice built by the caller (not owning): the columns array and the struct, nothing else ---- *)
Lemma ts_destroy_bs h tb meta n cols colb ccells i0 : ts_block h tb meta n cols 0 ->
  as_ptr cols = VCell colb 0 -> nth_error h colb = Some (Some ccells) -> tb <> colb ->
  bsE prog_env (fbody prog_sbdf_ts_destroy) (fr [("slice"%string, VCell tb 0); ("i"%string, i0)] bv k sx h m o)
    (ONormal (fr [("slice"%string, VCell tb 0); ("i"%string, i0)] bv k sx (kill tb (kill colb h)) m o)).
Proof.
  intros Ht Hcol Hcb Hne. unfold ts_block in Ht. cbn [fbody prog_sbdf_ts_destroy]. unfold fr.
  destruct (set_nth_v_some h colb _ None Hcb) as (h1 & E1).
  assert (Ht1 : nth_error h1 tb = Some (Some [meta; VInt n; cols; VInt 0])) by (rewrite (set_nth_v_other h colb tb None h1 E1) by congruence; exact Ht).
  destruct (set_nth_v_some h1 tb _ None Ht1) as (h2 & E2).
  assert (Hfin : kill tb (kill colb h) = h2) by (unfold kill; rewrite E1, E2; reflexivity). rewrite Hfin.
  eapply bsE_if; [evr; reflexivity|reflexivity|].
  eapply bsE_seq; [eapply bsE_if; [evr; chk7; evr; cellrw Ht; evr; reflexivity|reflexivity|apply bsE_skip]|].
  eapply bsE_seq.
  { eapply bsE_if; [evr; chk7; evr; cellrw Ht; evr; rewrite Hcol; reflexivity|reflexivity|].
    eapply bsE_expr. evr. chk7. evr. cellrw Ht. evr. rewrite Hcol. evr. rewrite Hcb. evr. rewrite E1. evr. reflexivity. }
  eapply bsE_expr. evr. rewrite Ht1. evr. rewrite E2. evr. reflexivity.
Qed.

End Release.

Theorem cs_destroy_source k sx m h cb values names props nb ncells used pb pcells :
  cs_block h cb values (zlen used) names props 0 -> as_ptr names = VCell nb 0 -> nth_error h nb = Some (Some ncells) ->
  elem_ptrs m used -> (exists slack, ncells = used ++ slack) -> zlen used < int_max ->
  as_ptr props = VCell pb 0 -> nth_error h pb = Some (Some pcells) -> cb <> nb -> cb <> pb -> nb <> pb ->
  exists f0, forall f, (f0 <= f)%nat -> exists fin,
    callC prog_env f prog_sbdf_cs_destroy [VCell cb 0] m k sx h = ONormal fin /\ inb fin = m /\
    lookup cells_var (vars fin) = Some (VHeap (kill cb (kill pb (kill nb h)))).
Proof.
  intros. destruct (bsE_sound _ _ _ _ (cs_destroy_bs (VInt 0) k sx m [] h cb values names props nb ncells used pb pcells VUndef H H0 H1 H2 H3 H4 H5 H6 H7 H8 H9)) as (f0 & F).
  exists f0. intros f Hf. eexists. split; [apply F; exact Hf|]. split; reflexivity.
Qed.

Theorem cs_destroy_empty_source k sx m h cb values : cs_block h cb values 0 (VInt 0) (VInt 0) 0 ->
  exists f0, forall f, (f0 <= f)%nat -> exists fin,
    callC prog_env f prog_sbdf_cs_destroy [VCell cb 0] m k sx h = ONormal fin /\ inb fin = m /\ lookup cells_var (vars fin) = Some (VHeap (kill cb h)).
Proof.
  intros H. destruct (bsE_sound _ _ _ _ (cs_destroy_empty_bs (VInt 0) k sx m [] h cb values VUndef H)) as (f0 & F).
  exists f0. intros f Hf. eexists. split; [apply F; exact Hf|]. split; reflexivity.
Qed.

Theorem ts_destroy_source k sx m h tb meta n cols colb ccells : ts_block h tb meta n cols 0 ->
  as_ptr cols = VCell colb 0 -> nth_error h colb = Some (Some ccells) -> tb <> colb ->
  exists f0, forall f, (f0 <= f)%nat -> exists fin,
    callC prog_env f prog_sbdf_ts_destroy [VCell tb 0] m k sx h = ONormal fin /\ inb fin = m /\ lookup cells_var (vars fin) = Some (VHeap (kill tb (kill colb h))).
Proof.
  intros. destruct (bsE_sound _ _ _ _ (ts_destroy_bs (VInt 0) k sx m [] h tb meta n cols colb ccells VUndef H H0 H1 H2)) as (f0 & F).
  exists f0. intros f Hf. eexists. split; [apply F; exact Hf|]. split; reflexivity.
Qed.

(* ---- sbdf_ts_create: a fresh table slice that refers to the caller's table metadata: no columns, not owning ---- *)
Lemma ts_create_bs bv k sx m o h headv outv t0 c0 : is_ptr outv -> (headv = VNull \/ exists hb, headv = VCell hb 0) ->
  bsE prog_env (fbody prog_sbdf_ts_create) (fr [("head"%string, headv); ("out"%string, outv); ("t"%string, t0); ("*out"%string, c0)] bv k sx h m o)
    (if k =? 0 then OReturn (VInt SBDF_ERROR_OUT_OF_MEMORY) (fr [("head"%string, headv); ("out"%string, outv); ("t"%string, VNull); ("*out"%string, c0)] bv (-1) sx h m o)
     else OReturn (VInt SBDF_OK) (fr [("head"%string, headv); ("out"%string, outv); ("t"%string, VCell (List.length h) 0); ("*out"%string, VCell (List.length h) 0)] bv (next_fail k) sx
                                     (h ++ [Some [headv; VInt 0; VNull; VInt 0]]) m o)).
Proof.
  intros Ho Hh. destruct outv as [| pr po | | | | |]; try contradiction. cbn [fbody prog_sbdf_ts_create]. unfold fr.
  assert (Hn : forall blk, nth_error (h ++ [Some blk]) (List.length h) = Some (Some blk)) by (intros; rewrite nth_error_app2 by lia; rewrite Nat.sub_diag; reflexivity).
  assert (Hs : forall x y, set_nth_v (List.length h) (Some y) (h ++ [Some x]) = Some (h ++ [Some y])).
  { clear. intros x y. induction h as [|z h IH]; cbn [List.length app set_nth_v]; [reflexivity|]. now rewrite IH. }
  destruct Hh as [->|(hb & ->)].
  all: (eapply bsE_seq; [eapply bsE_decl0; evr; reflexivity|]);
       (eapply bsE_seq; [eapply bsE_if; [evr; reflexivity|reflexivity|apply bsE_skip]|]);
       destruct (k =? 0) eqn:Ek;
       [ (eapply bsE_seq; [eapply bsE_expr; evr; chk7; evr; rewrite Ek; evr; reflexivity|]);
         eapply bsE_seq_ret; (eapply bsE_if; [evr; reflexivity|reflexivity|]); eapply bsE_return; evr; chk7; reflexivity
       | (eapply bsE_seq; [eapply bsE_expr; evr; chk7; evr; rewrite Ek; evr; reflexivity|]);
         (eapply bsE_seq; [eapply bsE_if; [evr; reflexivity|reflexivity|apply bsE_skip]|]);
         change (repeat (VInt 0) (Z.to_nat 4)) with [VInt 0; VInt 0; VInt 0; VInt 0];
         (eapply bsE_seq; [eapply bsE_expr; evr; chk7; evr; cellrw (Hn [VInt 0; VInt 0; VInt 0; VInt 0]); rewrite Hs; evr; reflexivity|]);
         (eapply bsE_seq; [eapply bsE_expr; evr; chk7; evr; chk7; evr; unfold cell_set; rewrite Hn; cbn [Z.add Z.leb Z.compare Z.to_nat]; change (Pos.to_nat 1) with 1%nat; cbn [set_nth_v]; rewrite Hs; evr; reflexivity|]);
         (eapply bsE_seq; [eapply bsE_expr; evr; chk7; evr; chk7; evr; unfold cell_set; rewrite Hn; cbn [Z.add Z.leb Z.compare Z.to_nat]; change (Pos.to_nat 3) with 3%nat; cbn [set_nth_v]; rewrite Hs; evr; reflexivity|]);
         (eapply bsE_seq; [eapply bsE_expr; evr; chk7; evr; unfold cell_set; rewrite Hn; cbn [Z.add Z.leb Z.compare Z.to_nat]; change (Pos.to_nat 2) with 2%nat; cbn [set_nth_v]; rewrite Hs; evr; reflexivity|]);
         (eapply bsE_seq; [eapply bsE_expr; evr; reflexivity|]); eapply bsE_return; evr; chk7; unfold next_fail; reflexivity ].
Qed.

Theorem ts_create_source k sx m h hb :
  exists f0, forall f, (f0 <= f)%nat -> exists fin,
    callC prog_env f prog_sbdf_ts_create [VCell hb 0; tok] m k sx h =
      OReturn (VInt (if k =? 0 then SBDF_ERROR_OUT_OF_MEMORY else SBDF_OK)) fin /\ inb fin = m /\
    (if k =? 0 then lookup cells_var (vars fin) = Some (VHeap h)
     else lookup cells_var (vars fin) = Some (VHeap (h ++ [Some [VCell hb 0; VInt 0; VNull; VInt 0]])) /\
          lookup "*out" (vars fin) = Some (VCell (List.length h) 0)).
Proof.
  pose proof (ts_create_bs (VInt 0) k sx m [] h (VCell hb 0) tok VUndef VUndef I (or_intror (ex_intro _ hb eq_refl))) as B.
  destruct (k =? 0); destruct (bsE_sound _ _ _ _ B) as (f0 & F); exists f0; intros f Hf; eexists; (split; [apply F; exact Hf|]); (split; [reflexivity|]).
  - reflexivity.
  - split; reflexivity.
Qed.

(* whatever the released containers referred to is still there: value arrays, column slices, the table metadata *)
Theorem release_leaves_others b1 b2 b3 (h : heap) c : c <> b1 -> c <> b2 -> c <> b3 ->
  nth_error (kill b1 (kill b2 (kill b3 h))) c = nth_error h c.
Proof. intros. rewrite !kill_other by congruence. reflexivity. Qed.
