(* ImpFactsSlice.v - value arrays and column slices (src/valuearray.c, src/columnslice.c) from the source:
   sbdf_va_row_cnt, sbdf_cs_row_cnt, sbdf_cs_create, sbdf_cs_get_property. *)
From Sbdf Require Import ImpCall Gen.Prog Gen.Consts Base BaseFacts ImpBase ImpFactsCells.
From Coq Require Import ZifyBool.
Local Open Scope Z_scope.
Ltac Zify.zify_post_hook ::= Z.div_mod_to_equations.

Ltac evcc := cbn [prog_env eval_args callee_init finish_call copy_in copy_out try_update update lookup combine map app String.append
                 String.eqb Ascii.eqb Bool.eqb fparams flocals fbody vars inb outb budget_var fail_var strm_var cells_var cell_token List.length Nat.eqb eval set_var cast
                 prog_sbdf_va_row_cnt prog_sbdf_cs_row_cnt truth binop_int b2z negb heap_of as_ptr storable].

(* what sbdf_va_row_cnt answers *)
Definition row_cnt_of (enc v1 cnt : Z) : Z :=
  if enc =? SBDF_PLAINARRAYENCODINGTYPEID then cnt
  else if (enc =? SBDF_RUNLENGTHENCODINGTYPEID) || (enc =? SBDF_BITARRAYENCODINGTYPEID) then v1
  else SBDF_ERROR_UNKNOWN_VALUEARRAY_ENCODING.

Section Slices.
Variables (bv : val) (k : Z) (sx : list Z) (m o : list Z).

Lemma va_row_cnt_bs h vb ty enc v1 o1 o2 ob oty cnt data :
  va_block h vb ty enc v1 o1 o2 -> int_min <= enc <= int_max ->
  (enc = SBDF_PLAINARRAYENCODINGTYPEID -> as_ptr o1 = VCell ob 0 /\ obj_block h ob oty cnt data) ->
  bsE prog_env (fbody prog_sbdf_va_row_cnt) (fr [("in"%string, VCell vb 0)] bv k sx h m o)
    (OReturn (VInt (row_cnt_of enc v1 cnt)) (fr [("in"%string, VCell vb 0)] bv k sx h m o)).
Proof.
  intros Hv He Hp. unfold va_block in Hv. cbn [fbody prog_sbdf_va_row_cnt]. unfold fr, row_cnt_of.
  change SBDF_PLAINARRAYENCODINGTYPEID with 1 in *. change SBDF_RUNLENGTHENCODINGTYPEID with 2. change SBDF_BITARRAYENCODINGTYPEID with 3.
  eapply bsE_seq; [eapply bsE_if; [evc; reflexivity|reflexivity|apply bsE_skip]|].
  assert (L : forall c, 0 <= c <= 3 -> eval (EBin Eq (ECellLoad (EVar "in") (EConst 1) false) (EConst c))
      {| vars := [("in"%string, VCell vb 0); (budget_var, bv); (fail_var, VInt k); (strm_var, VBytes sx); (cells_var, VHeap h)]; inb := m; outb := o |}
      = Some (VInt (b2z (enc =? c)), {| vars := [("in"%string, VCell vb 0); (budget_var, bv); (fail_var, VInt k); (strm_var, VBytes sx); (cells_var, VHeap h)]; inb := m; outb := o |})).
  { intros c Hc. evc. chk7. evc. cellrw Hv. evc. chk7. reflexivity. }
  destruct (enc =? 1) eqn:E1.
  - destruct (Hp ltac:(lia)) as (Ho1 & Hob). unfold obj_block in Hob.
    eapply bsE_seq_ret. eapply bsE_if; [cbn [app]; rewrite L by lia; rewrite E1; reflexivity|reflexivity|].
    eapply bsE_return. evc. chk7. evc. cellrw Hv. evc. rewrite Ho1. chk7. evc. cellrw Hob. reflexivity.
  - destruct (enc =? 2) eqn:E2; [|destruct (enc =? 3) eqn:E3]; cbn [orb].
    + eapply bsE_seq_ret. eapply bsE_if; [cbn [app]; rewrite L by lia; rewrite E1; reflexivity|reflexivity|].
      eapply bsE_if; [rewrite L by lia; rewrite E2; reflexivity|reflexivity|]. eapply bsE_return. evc. chk7. evc. cellrw Hv. reflexivity.
    + eapply bsE_seq_ret. eapply bsE_if; [cbn [app]; rewrite L by lia; rewrite E1; reflexivity|reflexivity|].
      eapply bsE_if; [rewrite L by lia; rewrite E2; reflexivity|reflexivity|].
      eapply bsE_if; [rewrite L by lia; rewrite E3; reflexivity|reflexivity|]. eapply bsE_return. evc. chk7. evc. cellrw Hv. reflexivity.
    + eapply bsE_seq; [eapply bsE_if; [cbn [app]; rewrite L by lia; rewrite E1; reflexivity|reflexivity|]|].
      { eapply bsE_if; [rewrite L by lia; rewrite E2; reflexivity|reflexivity|].
        eapply bsE_if; [rewrite L by lia; rewrite E3; reflexivity|reflexivity|apply bsE_skip]. }
      eapply bsE_return. evc. chk7. reflexivity.
Qed.



Lemma cs_row_cnt_bs h cb values n names props owned vb ty enc v1 o1 o2 ob oty cnt data r0 :
  cs_block h cb values n names props owned -> as_ptr values = VCell vb 0 ->
  va_block h vb ty enc v1 o1 o2 -> int_min <= enc <= int_max ->
  (enc = SBDF_PLAINARRAYENCODINGTYPEID -> as_ptr o1 = VCell ob 0 /\ obj_block h ob oty cnt data) ->
  bsE prog_env (fbody prog_sbdf_cs_row_cnt) (fr [("in"%string, VCell cb 0); ("$ret"%string, r0)] bv k sx h m o)
    (OReturn (VInt (row_cnt_of enc v1 cnt)) (fr [("in"%string, VCell cb 0); ("$ret"%string, VInt (row_cnt_of enc v1 cnt))] bv k sx h m o)).
Proof.
  intros Hc Hvals Hv He Hp. unfold cs_block in Hc. cbn [fbody prog_sbdf_cs_row_cnt]. unfold fr.
  pose proof (va_row_cnt_bs h vb ty enc v1 o1 o2 ob oty cnt data Hv He Hp) as B. unfold fr in B. cbn [app] in B.
  eapply bsE_seq; [eapply bsE_if; [evc; reflexivity|reflexivity|apply bsE_skip]|].
  eapply bsE_seq; [eapply bsE_call; [reflexivity|evcc; chk7; evcc; cellrw Hc; evcc; rewrite Hvals; reflexivity|reflexivity|evcc; exact B|evcc; reflexivity]|].
  eapply bsE_return. evc. reflexivity.
Qed.

(* ---- sbdf_cs_create: a fresh slice referring to the caller's value array, no properties, not owning ---- *)
Lemma cs_create_bs h outv values t0 c0 : is_ptr outv -> storable values = true -> values <> VUndef ->
  bsE prog_env (fbody prog_sbdf_cs_create) (fr [("out"%string, outv); ("values"%string, values); ("t"%string, t0); ("*out"%string, c0)] bv k sx h m o)
    (if k =? 0 then OReturn (VInt SBDF_ERROR_OUT_OF_MEMORY) (fr [("out"%string, outv); ("values"%string, values); ("t"%string, VNull); ("*out"%string, c0)] bv (-1) sx h m o)
     else OReturn (VInt SBDF_OK) (fr [("out"%string, outv); ("values"%string, values); ("t"%string, VCell (List.length h) 0); ("*out"%string, VCell (List.length h) 0)] bv (next_fail k) sx
                                     (h ++ [Some [values; VInt 0; VInt 0; VInt 0; VInt 0]]) m o)).
Proof.
  intros Ho Hst Hu. destruct outv as [| pr po | | | | |]; try contradiction. cbn [fbody prog_sbdf_cs_create]. unfold fr.
  assert (Hn : nth_error (h ++ [Some [VInt 0; VInt 0; VInt 0; VInt 0; VInt 0]]) (List.length h) = Some (Some [VInt 0; VInt 0; VInt 0; VInt 0; VInt 0])) by (rewrite nth_error_app2 by lia; rewrite Nat.sub_diag; reflexivity).
  assert (Hs : forall x y, set_nth_v (List.length h) (Some y) (h ++ [Some x]) = Some (h ++ [Some y])).
  { clear. intros x y. induction h as [|z h IH]; cbn [List.length app set_nth_v]; [reflexivity|]. now rewrite IH. }
  destruct values as [z|r q| | | |cb ci|]; try discriminate; try congruence.
  all: (eapply bsE_seq; [eapply bsE_decl1; [evc; reflexivity|evc; reflexivity]|]);
       (eapply bsE_seq; [eapply bsE_if; [evc; reflexivity|reflexivity|apply bsE_skip]|]);
       destruct (k =? 0) eqn:Ek;
       [ (eapply bsE_seq; [eapply bsE_expr; evc; chk7; evc; rewrite Ek; evc; reflexivity|]);
         eapply bsE_seq_ret; (eapply bsE_if; [evc; reflexivity|reflexivity|]); eapply bsE_return; evc; chk7; reflexivity
       | (eapply bsE_seq; [eapply bsE_expr; evc; chk7; evc; rewrite Ek; evc; reflexivity|]);
         (eapply bsE_seq; [eapply bsE_if; [evc; reflexivity|reflexivity|apply bsE_skip]|]);
         (eapply bsE_seq; [eapply bsE_expr; evc; chk7; evc;
              change (repeat (VInt 0) (Z.to_nat 5)) with [VInt 0; VInt 0; VInt 0; VInt 0; VInt 0]; cellrw Hn; rewrite Hs; evc; reflexivity|]);
         (eapply bsE_seq; [eapply bsE_expr; evc; reflexivity|]); eapply bsE_return; evc; chk7; unfold next_fail; reflexivity ].
Qed.


(* ---- sbdf_cs_get_property: the first property with that name ---- *)
Fixpoint find_name (name : list Z) (pn : list (list Z)) (i : Z) : option Z :=
  match pn with
  | [] => None
  | nm :: rest => if list_eqb name nm then Some i else find_name name rest (i + 1)
  end.

(* cell j of the names array points at the NUL-terminated j-th name *)
Definition names_at (m : list Z) (cells : list val) (pn : list (list Z)) : Prop :=
  forall j nm, nth_error pn j = Some nm -> exists np, nth_error cells j = Some (VPtr RIn np) /\ cstr_at m np nm.

Lemma cs_get_loop h cb values names props owned nb ncells pb pcells q name outv pn :
  cs_block h cb values (zlen pn) names props owned ->
  as_ptr names = VCell nb 0 -> nth_error h nb = Some (Some ncells) -> names_at m ncells pn ->
  as_ptr props = VCell pb 0 -> nth_error h pb = Some (Some pcells) -> (List.length pn <= List.length pcells)%nat ->
  cstr_at m q name -> zlen pn < int_max ->
  forall rest done c0, pn = done ++ rest ->
  exists iv cv, bsE prog_env
    (SWhile (EBin Lt (EVar "i") (ECellLoad (EVar "in") (EConst 1) false))
       (SSeq (SIf (ELNot (EStrcmp (EVar "name") (ECellLoad (ECellLoad (EVar "in") (EConst 2) true) (EVar "i") true)))
                  (SSeq (SExpr (EAssign "*out" (ECellLoad (ECellLoad (EVar "in") (EConst 3) true) (EVar "i") true))) (SReturn (EConst (0)))) SSkip)
             (SExpr (EPreInc "i"))))
    (fr [("in"%string, VCell cb 0); ("name"%string, VPtr RIn q); ("out"%string, outv); ("i"%string, VInt (zlen done)); ("*out"%string, c0)] bv k sx h m o)
    (match find_name name rest (zlen done) with
     | Some j => OReturn (VInt 0) (fr [("in"%string, VCell cb 0); ("name"%string, VPtr RIn q); ("out"%string, outv); ("i"%string, VInt j);
                                       ("*out"%string, as_ptr (nth (Z.to_nat j) pcells VUndef))] bv k sx h m o)
     | None => ONormal (fr [("in"%string, VCell cb 0); ("name"%string, VPtr RIn q); ("out"%string, outv); ("i"%string, iv); ("*out"%string, cv)] bv k sx h m o)
     end) /\ (find_name name rest (zlen done) = None -> cv = c0).
Proof.
  intros Hc Hn Hnb Hna Hp Hpb Hlen (Hq0 & Hq1) Hmax. unfold cs_block in Hc. unfold int_max in Hmax.
  induction rest as [|nm rest IH]; intros done c0 Hpn; unfold fr.
  - cbn [find_name]. rewrite app_nil_r in Hpn. subst done. exists (VInt (zlen pn)), c0. split; [|reflexivity].
    eapply bsE_while_f; [evc; chk7; evc; cellrw Hc; evc; rewrite Z.ltb_irrefl; reflexivity|reflexivity].
  - cbn [find_name].
    assert (Hj : nth_error pn (List.length done) = Some nm) by (rewrite Hpn, nth_error_app2 by lia; rewrite Nat.sub_diag; reflexivity).
    destruct (Hna _ _ Hj) as (np & Hnc & Hs0 & Hs1).
    assert (Hd : zlen done < zlen pn) by (rewrite Hpn, zlen_app; unfold zlen; cbn [List.length]; lia).
    pose proof (zlen_nonneg done) as Pd.
    assert (Hi : 0 <=? 0 + zlen done = true) by lia.
    assert (Hidx : Z.to_nat (0 + zlen done) = List.length done) by (unfold zlen; lia).
    assert (COND : eval (EBin Lt (EVar "i") (ECellLoad (EVar "in") (EConst 1) false))
         {| vars := [("in"%string, VCell cb 0); ("name"%string, VPtr RIn q); ("out"%string, outv); ("i"%string, VInt (zlen done)); ("*out"%string, c0);
                     (budget_var, bv); (fail_var, VInt k); (strm_var, VBytes sx); (cells_var, VHeap h)]; inb := m; outb := o |}
         = Some (VInt 1, {| vars := [("in"%string, VCell cb 0); ("name"%string, VPtr RIn q); ("out"%string, outv); ("i"%string, VInt (zlen done)); ("*out"%string, c0);
                     (budget_var, bv); (fail_var, VInt k); (strm_var, VBytes sx); (cells_var, VHeap h)]; inb := m; outb := o |})).
    { evc. chk7. evc. cellrw Hc. evc. replace (zlen done <? zlen pn) with true by lia. reflexivity. }
    assert (CMP : eval (ELNot (EStrcmp (EVar "name") (ECellLoad (ECellLoad (EVar "in") (EConst 2) true) (EVar "i") true)))
         {| vars := [("in"%string, VCell cb 0); ("name"%string, VPtr RIn q); ("out"%string, outv); ("i"%string, VInt (zlen done)); ("*out"%string, c0);
                     (budget_var, bv); (fail_var, VInt k); (strm_var, VBytes sx); (cells_var, VHeap h)]; inb := m; outb := o |}
         = Some (VInt (b2z (negb (negb (lexcmp_l name nm =? 0)))),
                 {| vars := [("in"%string, VCell cb 0); ("name"%string, VPtr RIn q); ("out"%string, outv); ("i"%string, VInt (zlen done)); ("*out"%string, c0);
                     (budget_var, bv); (fail_var, VInt k); (strm_var, VBytes sx); (cells_var, VHeap h)]; inb := m; outb := o |})).
    { evc. chk7. evc. cellrw Hc. evc. rewrite Hn. evc. unfold cell_get. rewrite Hnb, Hi, Hidx, Hnc. evc. cbn [inb]. rewrite zlen_length.
      replace ((0 <=? q) && (q <=? zlen m) && (0 <=? np) && (np <=? zlen m)) with true by lia. rewrite Hq1, Hs1. reflexivity. }
    destruct (list_eqb name nm) eqn:E.
    + apply list_eqb_spec in E. subst nm. exists VUndef, VUndef. split; [|discriminate].
      assert (Hpc : exists pvv, nth_error pcells (List.length done) = Some pvv).
      { destruct (nth_error pcells (List.length done)) eqn:X; [eexists; reflexivity|]. apply nth_error_None in X. assert (List.length done < List.length pn)%nat by (apply nth_error_Some; congruence). lia. }
      destruct Hpc as (pvv & Hpc).
      eapply bsE_while_ret; [exact COND|reflexivity|].
      eapply bsE_seq_ret. eapply bsE_if; [exact CMP| |].
      * replace (lexcmp_l name name) with 0 by (symmetry; now apply lexcmp_l_eq). reflexivity.
      * eapply bsE_seq; [eapply bsE_expr; evc; chk7; evc; cellrw Hc; evc; rewrite Hp; evc; unfold cell_get; rewrite Hpb, Hi, Hidx, Hpc; evc; reflexivity|].
        eapply bsE_return. evc. chk7. replace (Z.to_nat (zlen done)) with (List.length done) by (unfold zlen; lia).
        rewrite (nth_error_nth _ _ VUndef Hpc). reflexivity.
    + assert (Hne : lexcmp_l name nm <> 0). { intros C. apply lexcmp_l_eq in C. subst nm. assert (list_eqb name name = true) by now apply list_eqb_spec. congruence. }
      destruct (IH (done ++ [nm]) c0) as (iv & cv & B & Hcv); [rewrite <- app_assoc; exact Hpn|].
      assert (Hz : zlen (done ++ [nm]) = zlen done + 1) by (rewrite zlen_app; reflexivity). rewrite Hz in *.
      exists iv, cv. split; [|exact Hcv].
      assert (STEP : bsE prog_env (SSeq (SIf (ELNot (EStrcmp (EVar "name") (ECellLoad (ECellLoad (EVar "in") (EConst 2) true) (EVar "i") true)))
                  (SSeq (SExpr (EAssign "*out" (ECellLoad (ECellLoad (EVar "in") (EConst 3) true) (EVar "i") true))) (SReturn (EConst (0)))) SSkip)
             (SExpr (EPreInc "i")))
         {| vars := [("in"%string, VCell cb 0); ("name"%string, VPtr RIn q); ("out"%string, outv); ("i"%string, VInt (zlen done)); ("*out"%string, c0);
                     (budget_var, bv); (fail_var, VInt k); (strm_var, VBytes sx); (cells_var, VHeap h)]; inb := m; outb := o |}
         (ONormal (fr [("in"%string, VCell cb 0); ("name"%string, VPtr RIn q); ("out"%string, outv); ("i"%string, VInt (zlen done + 1)); ("*out"%string, c0)] bv k sx h m o))).
      { eapply bsE_seq; [eapply bsE_if; [exact CMP|destruct (lexcmp_l name nm =? 0) eqn:Z0; [lia|reflexivity]|apply bsE_skip]|].
        eapply bsE_expr. evc. unfold incr. chk7. evc. reflexivity. }
      destruct (find_name name rest (zlen done + 1)); (eapply bsE_while_t; [exact COND|reflexivity|exact STEP|exact B]).
Qed.


Lemma cs_get_property_bs h cb values names props owned nb ncells pb pcells q name outv pn i0 c0 : is_ptr outv ->
  cs_block h cb values (zlen pn) names props owned ->
  as_ptr names = VCell nb 0 -> nth_error h nb = Some (Some ncells) -> names_at m ncells pn ->
  as_ptr props = VCell pb 0 -> nth_error h pb = Some (Some pcells) -> (List.length pn <= List.length pcells)%nat ->
  cstr_at m q name -> zlen pn < int_max ->
  exists iv cv, bsE prog_env (fbody prog_sbdf_cs_get_property)
    (fr [("in"%string, VCell cb 0); ("name"%string, VPtr RIn q); ("out"%string, outv); ("i"%string, i0); ("*out"%string, c0)] bv k sx h m o)
    (match find_name name pn 0 with
     | Some j => OReturn (VInt SBDF_OK) (fr [("in"%string, VCell cb 0); ("name"%string, VPtr RIn q); ("out"%string, outv); ("i"%string, VInt j);
                                       ("*out"%string, as_ptr (nth (Z.to_nat j) pcells VUndef))] bv k sx h m o)
     | None => OReturn (VInt SBDF_ERROR_PROPERTY_NOT_FOUND) (fr [("in"%string, VCell cb 0); ("name"%string, VPtr RIn q); ("out"%string, outv); ("i"%string, iv); ("*out"%string, cv)] bv k sx h m o)
     end) /\ (find_name name pn 0 = None -> cv = c0).
Proof.
  intros Ho Hc Hn Hnb Hna Hp Hpb Hlen Hq Hmax. destruct outv as [| pr po | | | | |]; try contradiction.
  destruct (cs_get_loop h cb values names props owned nb ncells pb pcells q name (VPtr pr po) pn Hc Hn Hnb Hna Hp Hpb Hlen Hq Hmax pn [] c0 eq_refl) as (iv & cv & B & Hcv).
  change (zlen (@nil (list Z))) with 0 in *. exists iv, cv. split; [|exact Hcv].
  cbn [fbody prog_sbdf_cs_get_property]. unfold fr in *.
  eapply bsE_seq; [eapply bsE_decl0; evc; reflexivity|].
  eapply bsE_seq; [eapply bsE_if; [evc; reflexivity|reflexivity|apply bsE_skip]|].
  destruct (find_name name pn 0).
  - eapply bsE_seq_ret. eapply bsE_seq; [eapply bsE_expr; evc; chk7; evc; reflexivity|]. exact B.
  - eapply bsE_seq; [eapply bsE_seq; [eapply bsE_expr; evc; chk7; evc; reflexivity|exact B]|].
    eapply bsE_return. evc. chk7. reflexivity.
Qed.

End Slices.

Theorem va_row_cnt_source k sx m h vb ty enc v1 o1 o2 ob oty cnt data :
  va_block h vb ty enc v1 o1 o2 -> int_min <= enc <= int_max ->
  (enc = SBDF_PLAINARRAYENCODINGTYPEID -> as_ptr o1 = VCell ob 0 /\ obj_block h ob oty cnt data) ->
  exists f0, forall f, (f0 <= f)%nat -> exists fin,
    callC prog_env f prog_sbdf_va_row_cnt [VCell vb 0] m k sx h = OReturn (VInt (row_cnt_of enc v1 cnt)) fin /\
    inb fin = m /\ lookup cells_var (vars fin) = Some (VHeap h).
Proof.
  intros Hv He Hp. destruct (bsE_sound _ _ _ _ (va_row_cnt_bs (VInt 0) k sx m [] h vb ty enc v1 o1 o2 ob oty cnt data Hv He Hp)) as (f0 & F).
  exists f0. intros f Hf. eexists. split; [apply F; exact Hf|]. split; reflexivity.
Qed.

Theorem cs_row_cnt_source k sx m h cb values n names props owned vb ty enc v1 o1 o2 ob oty cnt data :
  cs_block h cb values n names props owned -> as_ptr values = VCell vb 0 ->
  va_block h vb ty enc v1 o1 o2 -> int_min <= enc <= int_max ->
  (enc = SBDF_PLAINARRAYENCODINGTYPEID -> as_ptr o1 = VCell ob 0 /\ obj_block h ob oty cnt data) ->
  exists f0, forall f, (f0 <= f)%nat -> exists fin,
    callC prog_env f prog_sbdf_cs_row_cnt [VCell cb 0] m k sx h = OReturn (VInt (row_cnt_of enc v1 cnt)) fin /\
    inb fin = m /\ lookup cells_var (vars fin) = Some (VHeap h).
Proof.
  intros Hc Hvals Hv He Hp.
  destruct (bsE_sound _ _ _ _ (cs_row_cnt_bs (VInt 0) k sx m [] h cb values n names props owned vb ty enc v1 o1 o2 ob oty cnt data VUndef Hc Hvals Hv He Hp)) as (f0 & F).
  exists f0. intros f Hf. eexists. split; [apply F; exact Hf|]. split; reflexivity.
Qed.

Theorem cs_create_source k sx m h vb :
  exists f0, forall f, (f0 <= f)%nat -> exists fin,
    callC prog_env f prog_sbdf_cs_create [tok; VCell vb 0] m k sx h =
      OReturn (VInt (if k =? 0 then SBDF_ERROR_OUT_OF_MEMORY else SBDF_OK)) fin /\ inb fin = m /\
    (if k =? 0 then lookup cells_var (vars fin) = Some (VHeap h)
     else lookup cells_var (vars fin) = Some (VHeap (h ++ [Some [VCell vb 0; VInt 0; VInt 0; VInt 0; VInt 0]])) /\
          lookup "*out" (vars fin) = Some (VCell (List.length h) 0)).
Proof.
  pose proof (cs_create_bs (VInt 0) k sx m [] h tok (VCell vb 0) VUndef VUndef I eq_refl ltac:(discriminate)) as B.
  destruct (k =? 0); destruct (bsE_sound _ _ _ _ B) as (f0 & F); exists f0; intros f Hf; eexists; (split; [apply F; exact Hf|]); (split; [reflexivity|]).
  - reflexivity.
  - split; reflexivity.
Qed.

Theorem cs_get_property_source k sx m h cb values names props owned nb ncells pb pcells q name pn :
  cs_block h cb values (zlen pn) names props owned ->
  as_ptr names = VCell nb 0 -> nth_error h nb = Some (Some ncells) -> names_at m ncells pn ->
  as_ptr props = VCell pb 0 -> nth_error h pb = Some (Some pcells) -> (List.length pn <= List.length pcells)%nat ->
  cstr_at m q name -> zlen pn < int_max ->
  exists f0, forall f, (f0 <= f)%nat -> exists fin,
    callC prog_env f prog_sbdf_cs_get_property [VCell cb 0; VPtr RIn q; tok] m k sx h =
      OReturn (VInt (match find_name name pn 0 with Some _ => SBDF_OK | None => SBDF_ERROR_PROPERTY_NOT_FOUND end)) fin /\
    inb fin = m /\ lookup cells_var (vars fin) = Some (VHeap h) /\
    lookup "*out" (vars fin) = Some (match find_name name pn 0 with Some j => as_ptr (nth (Z.to_nat j) pcells VUndef) | None => VUndef end).
Proof.
  intros Hc Hn Hnb Hna Hp Hpb Hlen Hq Hmax.
  destruct (cs_get_property_bs (VInt 0) k sx m [] h cb values names props owned nb ncells pb pcells q name tok pn VUndef VUndef I Hc Hn Hnb Hna Hp Hpb Hlen Hq Hmax) as (iv & cv & B & Hcv).
  destruct (find_name name pn 0) eqn:Ef; destruct (bsE_sound _ _ _ _ B) as (f0 & F); exists f0; intros f Hf; eexists; (split; [apply F; exact Hf|]); (split; [reflexivity|]); (split; [reflexivity|]).
  - reflexivity.
  - cbn [fr vars app lookup String.eqb Ascii.eqb Bool.eqb]. rewrite (Hcv eq_refl). reflexivity.
Qed.

