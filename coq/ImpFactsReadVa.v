(* ImpFactsReadVa.v - sbdf_read_valuearray_int with a handle (the reading side of sbdf_va_read), plain and run-length
   arrays, from the source: the handle struct, the encoding and type bytes, then the object(s) through sbdf_obj_read_arr;
   on any failure sbdf_va_destroy releases what was built.  (The bit-array branch with a handle calls sbdf_obj_create,
   which is not translated: SFault, no statement.) *)
From Sbdf Require Import ImpCall Gen.Prog Gen.Consts Base Prim Obj BaseFacts LeafTie ImpBase ImpFactsCells ImpFactsGrow ImpFactsDestroy
  ImpFactsInt32 ImpFactsRead ImpFactsReadObj ImpFactsReadArr ImpFactsSkipObj SkipLaws.
From Coq Require Import ZifyBool.
Local Open Scope Z_scope.
Ltac Zify.zify_post_hook ::= Z.div_mod_to_equations.

Ltac evw := cbn [prog_env eval_args callee_init finish_call copy_in copy_out try_update update lookup combine map app String.append
                 String.eqb Ascii.eqb Bool.eqb fparams flocals vars inb outb budget_var fail_var strm_var cells_var cell_token List.length Nat.eqb eval set_var cast
                 truth binop_int b2z negb heap_of as_ptr storable fst snd stream_of set_stream
                 prog_sbdf_read_int8 prog_sbdf_vt_read prog_sbdf_read_int32 prog_sbdf_obj_read_arr prog_sbdf_va_destroy prog_sbdf_obj_destroy].

(* ---- single bytes with the stream kept apart from the memory ---- *)
Section Bytes.
Variables (bv : val) (k : Z) (h : heap) (m o : list Z).

Definition rd8s (fv pv c cell : val) (sx : list Z) : state :=
  fr [("f", fv); ("v", pv); ("c", c); ("*v", cell)]%string bv k sx h m o.

Lemma read_int8_bs2 fv pv c cell sx : is_ptr fv -> is_ptr pv -> Forall byte sx ->
  bsE prog_env (fbody prog_sbdf_read_int8) (rd8s fv pv c cell sx)
    (match sx with
     | [] => OReturn (VInt SBDF_ERROR_IO) (rd8s fv pv VUndef cell [])
     | b :: s' => OReturn (VInt SBDF_OK) (rd8s fv pv (VInt b) (VInt b) s')
     end).
Proof.
  intros Hf Hp Hs. destruct fv as [| fr0 fo | | | | |]; try contradiction. destruct pv as [| pr po | | | | |]; try contradiction.
  cbn [fbody prog_sbdf_read_int8]. unfold rd8s, fr. cbn [app].
  eapply bsE_seq; [eapply bsE_decl0; evw; reflexivity|].
  eapply bsE_seq; [eapply bsE_if; [evw; reflexivity|reflexivity|apply bsE_skip]|].
  destruct sx as [|b s'].
  - eapply bsE_seq_ret. eapply bsE_if; [evw; reflexivity|reflexivity|]. eapply bsE_return. evw. chk7. reflexivity.
  - inversion Hs as [|? ? Hb _]. subst. unfold byte in Hb.
    eapply bsE_seq; [eapply bsE_if; [evw; reflexivity|reflexivity|apply bsE_skip]|].
    eapply bsE_seq; [eapply bsE_expr; evw; chk7; evw; reflexivity|]. eapply bsE_return. evw. chk7. reflexivity.
Qed.

Definition vrs (fv pv e cell : val) (sx : list Z) : state :=
  fr [("f", fv); ("v", pv); ("err", e); ("*v", cell)]%string bv k sx h m o.

Lemma vt_read_bs2 fv pv e cell sx : is_ptr fv -> is_ptr pv -> Forall byte sx ->
  match sx with
  | [] => exists e' c', bsE prog_env (fbody prog_sbdf_vt_read) (vrs fv pv e cell sx) (OReturn (VInt SBDF_ERROR_IO) (vrs fv pv e' c' []))
  | b :: s' => exists e', bsE prog_env (fbody prog_sbdf_vt_read) (vrs fv pv e cell sx) (OReturn (VInt SBDF_OK) (vrs fv pv e' (VInt b) s'))
  end.
Proof.
  intros Hf Hp Hs. pose proof (read_int8_bs2 fv pv VUndef (VInt 0) sx Hf Hp Hs) as R.
  destruct fv as [| fr0 fo | | | | |]; try contradiction. destruct pv as [| pr po | | | | |]; try contradiction.
  cbn [fbody prog_sbdf_vt_read]. unfold vrs, rd8s, fr in *. cbn [app] in *. destruct sx as [|b s'].
  - do 2 eexists. eapply bsE_seq; [eapply bsE_decl0; evw; reflexivity|].
    eapply bsE_seq; [eapply bsE_if; [evw; reflexivity|reflexivity|apply bsE_skip]|].
    eapply bsE_seq; [eapply bsE_expr; evw; chk7; reflexivity|].
    eapply bsE_seq_ret. eapply bsE_seq; [eapply bsE_call; [reflexivity|evw; reflexivity|reflexivity|exact R|evw; reflexivity]|].
    eapply bsE_if; [evw; reflexivity|reflexivity|]. eapply bsE_return. evw. reflexivity.
  - eexists. eapply bsE_seq; [eapply bsE_decl0; evw; reflexivity|].
    eapply bsE_seq; [eapply bsE_if; [evw; reflexivity|reflexivity|apply bsE_skip]|].
    eapply bsE_seq; [eapply bsE_expr; evw; chk7; reflexivity|].
    eapply bsE_seq; [eapply bsE_seq; [eapply bsE_call; [reflexivity|evw; reflexivity|reflexivity|exact R|evw; reflexivity]|eapply bsE_if; [evw; reflexivity|reflexivity|apply bsE_skip]]|].
    eapply bsE_return. evw. chk7. reflexivity.
Qed.
End Bytes.

(* ---- the element pointers of a successful array read point into the memory it returns, which extends the caller's ---- *)
Lemma elem_block_len is_str (m e : list Z) : zlen (elem_block is_str m e) = zlen m + 4 + zlen e + (if is_str then 1 else 0).
Proof. unfold elem_block, str_mem, ba_mem. destruct is_str; rewrite !zlen_app; change (zlen (le32 _)) with 4; change (zlen [0]) with 1; change (zlen (@nil Z)) with 0; lia. Qed.

Lemma elems_spec_ptrs is_str packed : forall n k s m qs k' s' m', elems_spec is_str packed n k s m = EOk qs k' s' m' ->
  Forall (fun q => zlen m + 4 <= q <= zlen m') qs /\ zlen m <= zlen m' /\ prefix_of m m'.
Proof.
  induction n as [|n IH]; intros k s m qs k' s' m'; cbn [elems_spec].
  - intros [= <- <- <- <-]. split; [constructor|]. split; [lia|exists []; now rewrite app_nil_r].
  - destruct (if packed then read_7bit s else read_int32 false s) as [[len s1]|e]; [|discriminate].
    destruct (len <? 0) eqn:E1; [discriminate|]. destruct (is_str && (len =? int_max)); [discriminate|]. destruct (k =? 0); [discriminate|].
    destruct (zlen s1 <? len) eqn:E3; [discriminate|].
    destruct (elems_spec is_str packed n (next_fail k) (skipn (Z.to_nat len) s1) (elem_block is_str m (firstn (Z.to_nat len) s1))) as [ps k2 s2 m2|e] eqn:ES; [|discriminate].
    intros [= <- <- <- <-]. destruct (IH _ _ _ _ _ _ _ ES) as (F & L & (x & Hx)).
    pose proof (elem_block_len is_str m (firstn (Z.to_nat len) s1)) as EL. pose proof (zlen_nonneg (firstn (Z.to_nat len) s1)).
    split; [|split].
    + constructor; [destruct is_str; lia|]. eapply Forall_impl; [|exact F]. cbv beta. intros q Hq. destruct is_str; lia.
    + destruct is_str; lia.
    + rewrite Hx. unfold elem_block, str_mem, ba_mem. destruct is_str; rewrite <- app_assoc; eexists; reflexivity.
Qed.

Lemma elems_spec_bytes is_str packed : forall n k s m qs k' s' m', Forall byte s -> elems_spec is_str packed n k s m = EOk qs k' s' m' -> Forall byte s'.
Proof.
  induction n as [|n IH]; intros k s m qs k' s' m' Hs; cbn [elems_spec].
  - intros [= _ _ <- _]. exact Hs.
  - destruct (if packed then read_7bit s else read_int32 false s) as [[len s1]|e] eqn:ER; [|discriminate].
    assert (Hs1 : Forall byte s1) by (destruct packed; [exact (proj1 (ImpFacts7S.read7_loop_shr 6 0 0 s len s1 Hs ER))|exact (read_int32_bytes s len s1 Hs ER)]).
    destruct (len <? 0); [discriminate|]. destruct (is_str && (len =? int_max)); [discriminate|]. destruct (k =? 0); [discriminate|].
    destruct (zlen s1 <? len); [discriminate|].
    destruct (elems_spec is_str packed n (next_fail k) (skipn (Z.to_nat len) s1) (elem_block is_str m (firstn (Z.to_nat len) s1))) as [ps k2 s2 m2|e] eqn:ES; [|discriminate].
    intros [= _ _ <- _]. eapply IH; [|exact ES]. apply Forall_skipn_byte. exact Hs1.
Qed.

Lemma elems_spec_neg is_str packed : forall n k s m st, elems_spec is_str packed n k s m = EErr st -> st < 0.
Proof.
  induction n as [|n IH]; intros k s m st; cbn [elems_spec]; [discriminate|].
  destruct (if packed then read_7bit s else read_int32 false s) as [[len s1]|e] eqn:ER.
  - destruct (len <? 0); [intros [= <-]; reflexivity|]. destruct (is_str && (len =? int_max)); [intros [= <-]; reflexivity|]. destruct (k =? 0); [intros [= <-]; reflexivity|].
    destruct (zlen s1 <? len); [intros [= <-]; reflexivity|].
    destruct (elems_spec is_str packed n (next_fail k) (skipn (Z.to_nat len) s1) (elem_block is_str m (firstn (Z.to_nat len) s1))) as [ps k2 s2 m2|e] eqn:ES; [discriminate|].
    intros [= <-]. eapply IH. exact ES.
  - intros [= <-]. destruct packed; [eapply ImpFacts7S.read7_loop_neg; exact ER|rewrite (read_int32_err s e ER); reflexivity].
Qed.

Lemma arr_spec_neg k sx m v cnt pk st : arr_spec k sx m v cnt pk = EErr st -> st < 0.
Proof.
  unfold arr_spec. destruct (cnt <? 0); [intros [= <-]; reflexivity|]. destruct (k =? 0); [intros [= <-]; reflexivity|]. destruct (dec k =? 0); [intros [= <-]; reflexivity|].
  destruct (pk =? 0); [apply elems_spec_neg|]. destruct (read_int32 false sx) as [[x s1]|e] eqn:ER; [apply elems_spec_neg|].
  intros [= <-]. rewrite (read_int32_err sx e ER). reflexivity.
Qed.

Lemma fixed_status_sign k sx v cnt : fixed_status k sx v cnt = SBDF_OK \/ fixed_status k sx v cnt < 0.
Proof.
  unfold fixed_status. destruct (cnt <? 0); [right; reflexivity|]. destruct (k =? 0); [right; reflexivity|]. destruct (usize v <? 0) eqn:E; [right; lia|].
  destruct (k =? 1); [right; reflexivity|]. destruct (zlen sx <? usize v * cnt); [right; reflexivity|left; reflexivity].
Qed.

Definition nones (n : nat) : heap := repeat None n.

Lemma arr_spec_ok k sx m v cnt pk qs k' s' m' : Forall byte sx -> arr_spec k sx m v cnt pk = EOk qs k' s' m' ->
  Forall (fun q => 4 <= q <= zlen m') qs /\ prefix_of m m' /\ Forall byte s'.
Proof.
  intros Hs. unfold arr_spec. destruct (cnt <? 0); [discriminate|]. destruct (k =? 0); [discriminate|]. destruct (dec k =? 0); [discriminate|].
  pose proof (zlen_nonneg m) as Pm.
  assert (G : forall packed s0, Forall byte s0 -> elems_spec (v =? SBDF_STRINGTYPEID) packed (Z.to_nat cnt) (dec (dec k)) s0 m = EOk qs k' s' m' ->
                Forall (fun q => 4 <= q <= zlen m') qs /\ prefix_of m m' /\ Forall byte s').
  { intros packed s0 Hs0 E. destruct (elems_spec_ptrs _ _ _ _ _ _ _ _ _ _ E) as (F & _ & P). split; [eapply Forall_impl; [|exact F]; cbv beta; intros; lia|].
    split; [exact P|eapply elems_spec_bytes; [exact Hs0|exact E]]. }
  destruct (pk =? 0); [apply G; exact Hs|]. destruct (read_int32 false sx) as [[x s1]|e] eqn:ER; [|discriminate].
  apply G. eapply read_int32_bytes; [exact Hs|exact ER].
Qed.

(* the model's object reader reports failures with negative statuses *)
Lemma neg_fread_bytes n : neg (fread_bytes n).
Proof. intros s st. unfold fread_bytes. destruct (n <? 0); [intros [= <-]; reflexivity|]. destruct (take_z s n) as [[a t]|]; [discriminate|intros [= <-]; reflexivity]. Qed.
Lemma neg_read_elem ty packed : neg (read_elem false None ty packed).
Proof.
  unfold read_elem. apply neg_bind.
  - destruct packed; [intros s st; apply ImpFacts7S.read7_loop_neg|apply neg_read_int32].
  - intros len. destruct (len <? 0); [apply neg_fail; reflexivity|]. destruct ((ty =? SBDF_STRINGTYPEID) && (len =? INT_MAX)); [apply neg_fail; reflexivity|].
    apply neg_bind; [intros s st; unfold ralloc, alloc_ok; discriminate|intros _; apply neg_fread_bytes].
Qed.
Lemma neg_read_objects ty cnt p : neg (read_objects false None ty cnt p).
Proof.
  unfold read_objects. destruct (cnt <? 0); [apply neg_fail; reflexivity|]. destruct (is_arr ty).
  - apply neg_bind; [intros s st; unfold ralloc, alloc_ok; discriminate|]. intros _.
    apply neg_bind; [destruct p; [apply neg_bind; [apply neg_read_int32|intros; apply neg_ret]|apply neg_ret]|]. intros _.
    apply neg_bind; [apply neg_rrepeat, neg_read_elem|intros; apply neg_ret].
  - cbv zeta. destruct (usize ty <? 0) eqn:E; [apply neg_fail; lia|]. destruct (usize ty =? 0); [apply neg_fail; reflexivity|].
    apply neg_bind; [intros s st; unfold ralloc, alloc_ok; discriminate|]. intros _. apply neg_bind; [apply neg_fread_bytes|intros; apply neg_ret].
Qed.
Lemma neg_obj_read_arr ty : neg (Obj.obj_read_arr false None ty).
Proof. unfold Obj.obj_read_arr. apply neg_bind; [apply neg_read_int32|intros; apply neg_read_objects]. Qed.

(* ---- a read that succeeds under an allocation schedule is the read without failures: same elements, same rest of the stream ---- *)
Lemma elems_spec_mono is_str packed : forall n k s m qs k' s' m', elems_spec is_str packed n k s m = EOk qs k' s' m' ->
  elems_spec is_str packed n (-1) s m = EOk qs (-1) s' m'.
Proof.
  induction n as [|n IH]; intros k s m qs k' s' m' E; cbn [elems_spec] in *.
  - injection E as <- _ <- <-. reflexivity.
  - destruct (if packed then read_7bit s else read_int32 false s) as [[len s1]|e]; [|discriminate].
    destruct (len <? 0); [discriminate|]. destruct (is_str && (len =? int_max)); [discriminate|].
    destruct (k =? 0); [discriminate|]. change (-1 =? 0) with false. cbv iota. destruct (zlen s1 <? len); [discriminate|].
    change (next_fail (-1)) with (-1).
    destruct (elems_spec is_str packed n (next_fail k) (skipn (Z.to_nat len) s1) (elem_block is_str m (firstn (Z.to_nat len) s1))) as [ps k2 s2 m2|e] eqn:ER; [|discriminate].
    injection E as <- _ <- <-. rewrite (IH _ _ _ _ _ _ _ ER). reflexivity.
Qed.

Lemma arr_spec_mono k sx m v cnt pk qs k' s' m' : arr_spec k sx m v cnt pk = EOk qs k' s' m' -> arr_spec (-1) sx m v cnt pk = EOk qs (-1) s' m'.
Proof.
  unfold arr_spec. destruct (cnt <? 0); [discriminate|]. destruct (k =? 0); [discriminate|]. destruct (dec k =? 0); [discriminate|].
  change (-1 =? 0) with false. change (dec (-1)) with (-1). change (-1 =? 0) with false. cbv iota.
  destruct (pk =? 0).
  - apply elems_spec_mono.
  - destruct (read_int32 false sx) as [[x s1]|e]; [|discriminate]. apply elems_spec_mono.
Qed.

Lemma fixed_status_mono k sx v cnt : fixed_status k sx v cnt = SBDF_OK -> fixed_status (-1) sx v cnt = SBDF_OK.
Proof.
  unfold fixed_status. destruct (cnt <? 0); [discriminate|]. destruct (k =? 0); [discriminate|]. change (-1 =? 0) with false. cbv iota.
  destruct (usize v <? 0) eqn:E; [pose proof (Z.ltb_lt (usize v) 0) as [H _]; specialize (H E); unfold SBDF_OK; intros X; rewrite X in H; lia|].
  destruct (k =? 1); [discriminate|]. change (-1 =? 1) with false. cbv iota. exact (fun x => x).
Qed.

(* ---- sbdf_obj_read_arr for any element type: one statement for the callers ---- *)
Lemma obj_read_arr_any rf rp fo po v bv k sx h m o : Forall byte sx ->
  exists st cn e r so' k' sx' h' m',
    bsE prog_env (fbody prog_sbdf_obj_read_arr) (ora (VPtr rf fo) v (VPtr rp po) VUndef VUndef VUndef VNull bv k sx h m o)
      (OReturn (VInt st) (ora (VPtr rf fo) v (VPtr rp po) cn e r so' bv k' sx' h' m' o)) /\ prefix_of m m' /\
    (k < 0 -> match Obj.obj_read_arr false None v sx with Ok (_, s') => st = SBDF_OK /\ sx' = s' /\ k' = k | Err e => st = e end) /\
    ((st = SBDF_OK /\ so' = VCell (List.length h) 0 /\ Forall byte sx' /\
       exists newb, h' = h ++ newb /\ (1 <= List.length newb)%nat /\
         forall pre2 : heap, List.length pre2 = List.length h -> destroys m' (pre2 ++ newb) (List.length h) (pre2 ++ nones (List.length newb)))
     \/ (st < 0 /\ so' = VNull /\ exists j, h' = h ++ nones j)) /\
    (st = SBDF_OK -> match Obj.obj_read_arr false None v sx with Ok (_, s') => sx' = s' | Err _ => False end).
Proof.
  intros Hs. pose proof (obj_read_arr_bs rf rp fo po v VNull bv k sx h m o Hs) as A.
  destruct (read_int32 false sx) as [[cnt s1]|st] eqn:ER.
  2: { destruct A as (cn & e & r & sx' & B). pose proof (read_int32_err sx st ER). subst st.
       exists SBDF_ERROR_IO, cn, e, r, VNull, k, sx', h, m. split; [exact B|]. split; [exists []; now rewrite app_nil_r|].
       split; [intros _; unfold Obj.obj_read_arr, rd_bind; rewrite ER; reflexivity|].
       split; [|intros X; cbv in X; discriminate X].
       right. split; [reflexivity|]. split; [reflexivity|]. exists 0%nat. cbn. now rewrite app_nil_r. }
  assert (Hc : int_min <= cnt <= int_max) by (eapply read_int32_range; [exact Hs|exact ER]).
  pose proof (read_int32_bytes sx cnt s1 Hs ER) as Hs1.
  pose proof (tie_is_arr v) as TA.
  destruct (is_arr v) eqn:Ha.
  - (* strings / binaries *)
    pose proof (read_objects_arr_bs bv o rf rp fo po k s1 h m v cnt 1 VNull Hs1 Hc Ha) as B.
    destruct (arr_spec k s1 m v cnt 1) as [qs k' s' m'|st] eqn:ES.
    + destruct B as (l' & B & Hz). destruct (A _ _ _ _ _ _ _ B eq_refl) as (cn & e & B2).
      destruct (arr_spec_ok _ _ _ _ _ _ _ _ _ _ Hs1 ES) as (Fq & Pf & Hb').
      do 9 eexists. split; [exact B2|]. split; [exact Pf|].
      split; [intros Hk; unfold Obj.obj_read_arr, rd_bind; rewrite ER; pose proof (arr_spec_model k s1 m v cnt 1 Hk Ha Hs1) as MT; change (negb (1 =? 0)) with true in MT;
              destruct (Obj.read_objects false None v cnt true s1) as [[ob sM]|eM]; [destruct MT as (qs2 & MT & _); rewrite ES in MT; injection MT as _ <- <- _; repeat split; reflexivity|rewrite ES in MT; discriminate]|].
      split; [|intros _; unfold Obj.obj_read_arr, rd_bind; rewrite ER; pose proof (arr_spec_model (-1) s1 m v cnt 1 ltac:(lia) Ha Hs1) as MT; change (negb (1 =? 0)) with true in MT;
               rewrite (arr_spec_mono _ _ _ _ _ _ _ _ _ _ ES) in MT;
               destruct (Obj.read_objects false None v cnt true s1) as [[ob sM]|eM]; [destruct MT as (qs2 & MT & _); injection MT as _ Es _; exact Es|discriminate MT]].
      left. split; [reflexivity|]. split; [reflexivity|]. split; [exact Hb'|].
      exists [Some [VInt v; VInt cnt; VCell (S (List.length h)) 0]; Some (map (fun p => VPtr RIn p) qs ++ [])]. split; [reflexivity|]. split; [cbn; lia|].
      intros pre2 Hp2. rewrite <- Hp2.
      left. exists (S (List.length pre2)), v, (map (fun p => VPtr RIn p) qs), (VCell (S (List.length pre2)) 0).
      assert (Hzq : zlen (map (fun p : Z => VPtr RIn p) qs) = cnt) by (unfold zlen; rewrite map_length; exact Hz).
      split; [unfold obj_block; rewrite Hzq; apply (arr_heap_hdr pre2 v cnt qs [])|]. split; [reflexivity|]. split; [lia|]. split; [lia|].
      split; [pose proof (arr_heap_data pre2 v cnt qs []) as D; rewrite app_nil_r in D; unfold arr_heap in D; exact D|].
      split; [unfold elem_ptrs; rewrite Forall_map; eapply Forall_impl; [|exact Fq]; cbv beta; intros q Hq; exists q; split; [reflexivity|exact Hq]|].
      split; [rewrite Hzq; lia|]. symmetry. apply (arr_heap_kill pre2 v cnt qs []).
    + destruct B as (l' & k' & s' & h' & m' & B & Hh & Pf). destruct (A _ _ _ _ _ _ _ B eq_refl) as (cn & e & B2).
      do 9 eexists. split; [exact B2|]. split; [exact Pf|].
      split; [intros Hk; unfold Obj.obj_read_arr, rd_bind; rewrite ER; pose proof (arr_spec_model k s1 m v cnt 1 Hk Ha Hs1) as MT; change (negb (1 =? 0)) with true in MT;
              destruct (Obj.read_objects false None v cnt true s1) as [[ob sM]|eM]; [destruct MT as (qs2 & MT & _); rewrite ES in MT; discriminate|rewrite ES in MT; injection MT as <-; reflexivity]|].
      split; [|intros X; pose proof (arr_spec_neg _ _ _ _ _ _ _ ES) as Hng; unfold SBDF_OK in X; lia].
      right. split; [eapply arr_spec_neg; exact ES|]. split; [reflexivity|].
      destruct Hh as [->|[->| ->]]; [exists 0%nat; cbn; now rewrite app_nil_r|exists 1%nat; reflexivity|exists 2%nat; reflexivity].
  - (* fixed-size elements *)
    destruct (read_objects_fixed_bs bv o rf rp fo po k s1 m h v cnt 1 VNull Hc Ha) as (l' & so' & k' & sx' & h' & m' & B & St & P1 & P2).
    destruct (A _ _ _ _ _ _ _ B St) as (cn & e & B2).
    destruct (fixed_status_sign k s1 v cnt) as [E|E].
    + destruct (P1 E) as (-> & -> & -> & -> & ->). rewrite E in B2.
      do 9 eexists. split; [exact B2|]. split; [eexists; reflexivity|].
      split; [intros Hk; unfold Obj.obj_read_arr, rd_bind; rewrite ER; pose proof (fixed_status_model k s1 v cnt true Hk Ha) as MT;
              destruct (Obj.read_objects false None v cnt true s1) as [[ob sM]|eM]; [destruct MT as (_ & -> & _); (split; [reflexivity|split; [reflexivity|unfold dec; replace (0 <? k) with false by lia; replace (0 <? k) with false by lia; reflexivity]])|rewrite E in MT; subst eM; reflexivity]|].
      split; [|intros _; unfold Obj.obj_read_arr, rd_bind; rewrite ER; pose proof (fixed_status_model (-1) s1 v cnt true ltac:(lia) Ha) as MT; rewrite (fixed_status_mono _ _ _ _ E) in MT;
               pose proof (neg_read_objects v cnt true s1) as NG;
               destruct (Obj.read_objects false None v cnt true s1) as [[ob sM]|eM]; [destruct MT as (_ & -> & _); reflexivity|specialize (NG eM eq_refl); unfold SBDF_OK in MT; lia]].
      left. split; [reflexivity|]. split; [reflexivity|]. split; [apply Forall_skipn_byte; exact Hs1|].
      exists [Some [VInt v; VInt cnt; VPtr RIn (zlen m)]]. split; [reflexivity|]. split; [cbn; lia|].
      intros pre2 Hp2. rewrite <- Hp2.
      right. exists v, cnt, (zlen m). split; [unfold obj_block; apply nth_error_app_new|]. split; [rewrite zlen_app; pose proof (zlen_nonneg m); pose proof (zlen_nonneg (firstn (Z.to_nat (usize v * cnt)) s1)); lia|].
      split; [exact TA|]. symmetry. apply kill_new.
    + assert (E2 : fixed_status k s1 v cnt <> SBDF_OK) by (unfold SBDF_OK; lia). destruct (P2 E2) as (-> & Hh & mm & ->).
      do 9 eexists. split; [exact B2|]. split; [exists mm; reflexivity|].
      split; [intros Hk; unfold Obj.obj_read_arr, rd_bind; rewrite ER; pose proof (fixed_status_model k s1 v cnt true Hk Ha) as MT;
              destruct (Obj.read_objects false None v cnt true s1) as [[ob sM]|eM]; [destruct MT as (MT & _); rewrite MT in E; discriminate E|exact MT]|].
      split; [|intros X; unfold SBDF_OK in X; lia].
      right. split; [exact E|]. split; [reflexivity|].
      destruct Hh as [->| ->]; [exists 0%nat; cbn; now rewrite app_nil_r|exists 1%nat; reflexivity].
Qed.

(* ---- destroys is stable under a longer memory and a longer heap ---- *)
Lemma kill_app (a x : heap) b : (b < List.length a)%nat -> kill b (a ++ x) = kill b a ++ x.
Proof.
  intros Hb. unfold kill. destruct (nth_error a b) as [y|] eqn:E; [|apply nth_error_None in E; lia].
  destruct (set_nth_v_some a b y None E) as (a' & Ea). rewrite Ea.
  assert (G : forall (l : heap) n z l', set_nth_v n z l = Some l' -> set_nth_v n z (l ++ x) = Some (l' ++ x)).
  { induction l as [|c l IHl]; intros [|n] z l' H; cbn [set_nth_v] in *; try discriminate; [injection H as <-; reflexivity|].
    destruct (set_nth_v n z l) eqn:E2; [|discriminate]. injection H as <-. cbn [app set_nth_v]. rewrite (IHl n z l0 E2). reflexivity. }
  rewrite (G a b None a' Ea). reflexivity.
Qed.
Lemma kill_length b (a : heap) : List.length (kill b a) = List.length a.
Proof.
  unfold kill. destruct (set_nth_v b None a) eqn:E; [|reflexivity].
  revert b l E. induction a as [|c a IH]; intros [|b] l E; cbn [set_nth_v] in E; try discriminate; [injection E as <-; reflexivity|].
  destruct (set_nth_v b None a) eqn:E2; [|discriminate]. injection E as <-. cbn [List.length]. now rewrite (IH b l0 E2).
Qed.

Lemma destroys_grow m m2 h ob hk x : destroys m h ob hk -> zlen m <= zlen m2 -> destroys m2 (h ++ x) ob (hk ++ x).
Proof.
  intros [(db & ty & cells & data & H1 & H2 & H3 & H4 & H5 & H6 & H7 & ->)|(ty & cnt & dp & H1 & H2 & H3 & ->)] Hm; unfold obj_block in *.
  - assert (Lo : (ob < List.length h)%nat) by (apply nth_error_Some; rewrite H1; discriminate).
    assert (Ld : (db < List.length h)%nat) by (apply nth_error_Some; rewrite H5; discriminate).
    left. exists db, ty, cells, data. split; [unfold obj_block; rewrite nth_error_app1 by lia; exact H1|]. split; [exact H2|]. split; [exact H3|]. split; [exact H4|].
    split; [rewrite nth_error_app1 by lia; exact H5|]. split; [unfold elem_ptrs in *; eapply Forall_impl; [|exact H6]; cbv beta; intros c (p & -> & Hp); exists p; split; [reflexivity|lia]|].
    split; [exact H7|]. rewrite (kill_app h x db Ld). rewrite kill_app by (rewrite kill_length; lia). reflexivity.
  - assert (Lo : (ob < List.length h)%nat) by (apply nth_error_Some; rewrite H1; discriminate).
    right. exists ty, cnt, dp. split; [unfold obj_block; rewrite nth_error_app1 by lia; exact H1|]. split; [lia|]. split; [exact H3|]. rewrite kill_app by lia. reflexivity.
Qed.

(* ================================================================== sbdf_read_valuearray_int with a handle *)
Record rvl := { v_buf : val; v_e : val; v_err : val; v_ps : val; v_v : val; v_vt : val; v_a1 : val; v_a2 : val; v_a3 : val }.
Definition rvr (fv hv : val) (l : rvl) (sh bv : val) (k : Z) (sx : list Z) (h : heap) (m o : list Z) : state :=
  fr [("file", fv); ("handle", hv); ("buf", v_buf l); ("e", v_e l); ("err", v_err l); ("packed_size", v_ps l); ("v", v_v l); ("vt", v_vt l);
      ("$a1", v_a1 l); ("$a2", v_a2 l); ("$a3", v_a3 l); ("*handle", sh)]%string bv k sx h m o.
Definition rvl0 : rvl := Build_rvl VUndef VUndef VUndef VUndef VUndef VUndef VUndef VUndef VUndef.
Ltac unrv := unfold rvr, fr, rvl0; cbn [v_buf v_e v_err v_ps v_v v_vt v_a1 v_a2 v_a3 app].

Definition disp_of (b : stmt) : stmt := match b with SSeq _ (SSeq _ (SSeq _ (SSeq _ (SSeq _ (SSeq _ d))))) => d | _ => SSkip end.

(* a value array that sbdf_va_destroy can release: the hypotheses of va_destroy_source, and the heap it leaves *)
Definition va_rel (m : list Z) (h : heap) (vb : nat) (hf : heap) : Prop :=
  exists ty enc v1 o1 o2 h1 h2, va_block h vb ty enc v1 o1 o2 /\ destroys_opt m h o1 h1 /\ destroys_opt m h1 o2 h2 /\
    nth_error h1 vb = nth_error h vb /\ nth_error h2 vb = nth_error h vb /\ hf = kill vb h2.

Section RVI.
Variables (bv : val) (o : list Z) (rf rp : region) (fo po : Z).
Notation fv := (VPtr rf fo).
Notation hv := (VPtr rp po).

Lemma rvi_read_pre k e t s2 h m sh oo : Forall byte (e :: t :: s2) -> k <> 0 ->
  bsE prog_env (disp_of (fbody prog_sbdf_read_valuearray_int))
    (rvr fv hv (Build_rvl VUndef (VInt e) (VInt 0) VUndef VUndef (VInt t) VUndef VUndef VUndef) (VCell (List.length h) 0) bv (dec k) s2
         (h ++ [Some [VInt t; VInt e; VInt 0; VInt 0; VInt 0]]) m o) oo ->
  bsE prog_env (fbody prog_sbdf_read_valuearray_int) (rvr fv hv rvl0 sh bv k (e :: t :: s2) h m o) oo.
Proof.
  intros Hs Hk B. cbn [fbody prog_sbdf_read_valuearray_int disp_of] in *. revert B. unrv. intros B.
  inversion Hs as [|? ? He Hs1]; subst. inversion Hs1 as [|? ? Ht Hs2]; subst.
  pose proof (read_int8_bs2 bv k h m o fv (VPtr ROut 0) VUndef VUndef (e :: t :: s2) I I Hs) as R8. cbv iota in R8.
  pose proof (vt_read_bs2 bv k h m o fv (VPtr ROut 0) VUndef VUndef (t :: s2) I I Hs1) as VT. cbv iota in VT. destruct VT as (e' & VT).
  eapply bsE_seq; [eapply bsE_decl0; evw; reflexivity|]. eapply bsE_seq; [eapply bsE_decl0; evw; reflexivity|]. eapply bsE_seq; [eapply bsE_decl0; evw; reflexivity|].
  eapply bsE_seq; [eapply bsE_seq; [eapply bsE_call; [reflexivity|evw; reflexivity|reflexivity|exact R8|unfold rd8s, fr; evw; reflexivity]|eapply bsE_if; [evw; reflexivity|reflexivity|apply bsE_skip]]|].
  eapply bsE_seq; [eapply bsE_seq; [eapply bsE_call; [reflexivity|evw; reflexivity|reflexivity|exact VT|unfold vrs, fr; evw; reflexivity]|eapply bsE_if; [evw; reflexivity|reflexivity|apply bsE_skip]]|].
  eapply bsE_seq; [|exact B].
  eapply bsE_if; [evw; reflexivity|reflexivity|].
  eapply bsE_seq; [eapply bsE_expr; evw; chk7; evw; replace (k =? 0) with false by lia; evw; reflexivity|].
  eapply bsE_seq; [eapply bsE_if; [evw; reflexivity|reflexivity|apply bsE_skip]|].
  eapply bsE_seq; [eapply bsE_expr; evw; chk7; evw; erewrite cell_set_new; [|lia|reflexivity]; evw; reflexivity|].
  eapply bsE_expr. evw. chk7. evw. erewrite cell_set_new; [|lia|reflexivity]. evw. reflexivity.
Qed.

Lemma cell_set_mid (h : heap) blk rest i v blk' : 0 <= i -> set_nth_v (Z.to_nat i) v blk = Some blk' ->
  cell_set (h ++ Some blk :: rest) (List.length h) i v = Some (h ++ Some blk' :: rest).
Proof.
  intros Hi E. unfold cell_set. rewrite nth_error_app2 by lia. rewrite Nat.sub_diag. cbn [nth_error]. replace (0 <=? i) with true by lia. rewrite E. apply set_nth_v_app.
Qed.
Lemma cell_get_mid (h : heap) blk rest i : cell_get (h ++ Some blk :: rest) (List.length h) i = if 0 <=? i then nth_error blk (Z.to_nat i) else None.
Proof. unfold cell_get. rewrite nth_error_app2 by lia. rewrite Nat.sub_diag. reflexivity. Qed.

(* a plain array: the values through sbdf_obj_read_arr into object1 *)
Lemma rvi_read_plain k1 t s2 h m : Forall byte s2 ->
  let L := List.length h in
  exists st l' k' s' h' m',
    bsE prog_env (disp_of (fbody prog_sbdf_read_valuearray_int))
      (rvr fv hv (Build_rvl VUndef (VInt 1) (VInt 0) VUndef VUndef (VInt t) VUndef VUndef VUndef) (VCell L 0) bv k1 s2
           (h ++ [Some [VInt t; VInt 1; VInt 0; VInt 0; VInt 0]]) m o)
      (OReturn (VInt st) (rvr fv hv l' (VCell L 0) bv k' s' h' m' o)) /\ prefix_of m m' /\
    (k1 < 0 -> match Obj.obj_read_arr false None t s2 with Ok (_, sM) => st = SBDF_OK /\ s' = sM /\ k' = k1 | Err e => st = e end) /\
    ((st = SBDF_OK /\ Forall byte s' /\
        exists newb, h' = h ++ Some [VInt t; VInt 1; VInt 0; VCell (S L) 0; VInt 0] :: newb /\ (1 <= List.length newb)%nat /\
          forall hp : heap, List.length hp = L -> va_rel m' (hp ++ Some [VInt t; VInt 1; VInt 0; VCell (S L) 0; VInt 0] :: newb) L (hp ++ None :: nones (List.length newb)))
     \/ (st < 0 /\ exists j, h' = h ++ None :: nones j)) /\
    (st = SBDF_OK -> match Obj.obj_read_arr false None t s2 with Ok (_, sM) => s' = sM | Err _ => False end).
Proof.
  intros Hs2 L. set (h1 := h ++ [Some [VInt t; VInt 1; VInt 0; VInt 0; VInt 0]]).
  assert (HL1 : List.length h1 = S L) by (unfold h1; rewrite app_length; cbn; lia).
  destruct (obj_read_arr_any rf ROut fo 0 t bv k1 s2 h1 m o Hs2) as (st & cn & e & r & so' & k' & sx' & h' & m' & B & Pf & MT & Out & MT2).
  rewrite HL1 in Out.
  assert (Hh1 : h1 = h ++ [Some [VInt t; VInt 1; VInt 0; VInt 0; VInt 0]]) by reflexivity.
  destruct Out as [(-> & -> & Hb' & newb & -> & Hnb & D)|(Hneg & -> & j & ->)].
  - (* the values were read *)
    exists SBDF_OK. eexists (Build_rvl _ _ _ _ _ _ _ _ _). do 4 eexists. split; [|split; [exact Pf|split; [exact MT|split; [left; split; [reflexivity|split; [exact Hb'|exists newb; split; [reflexivity|split; [exact Hnb|]]]]|exact MT2]]]].
    2: { intros hp Hhp. set (pre2 := hp ++ [Some [VInt t; VInt 1; VInt 0; VCell (S L) 0; VInt 0]]).
         assert (Hp2 : List.length pre2 = S L) by (unfold pre2; rewrite app_length, Hhp; cbn; lia).
         assert (HX : hp ++ Some [VInt t; VInt 1; VInt 0; VCell (S L) 0; VInt 0] :: newb = pre2 ++ newb) by (unfold pre2; rewrite <- app_assoc; reflexivity).
         assert (NL : forall z : heap, nth_error (pre2 ++ z) L = Some (Some [VInt t; VInt 1; VInt 0; VCell (S L) 0; VInt 0])).
         { intros z. unfold pre2. rewrite <- app_assoc. cbn [app]. rewrite <- Hhp. rewrite nth_error_app2 by lia. rewrite Nat.sub_diag. reflexivity. }
         exists t, 1, 0, (VCell (S L) 0), (VInt 0), (pre2 ++ nones (List.length newb)), (pre2 ++ nones (List.length newb)).
         rewrite HX. split; [unfold va_block; apply NL|]. split; [right; exists (S L); split; [reflexivity|apply D; exact Hp2]|]. split; [left; split; reflexivity|].
         split; [rewrite !NL; reflexivity|]. split; [rewrite !NL; reflexivity|]. unfold pre2. rewrite <- app_assoc. cbn [app]. unfold kill. rewrite <- Hhp. rewrite set_nth_v_app. reflexivity. }
    cbn [fbody prog_sbdf_read_valuearray_int disp_of]. unrv. revert B. unfold ora, fr. cbn [app]. intros B.
    eapply bsE_seq; [|eapply bsE_return; evw; chk7; reflexivity].
    eapply bsE_if; [evw; chk7; reflexivity|reflexivity|].
    eapply bsE_seq.
    + eapply bsE_if; [evw; reflexivity|reflexivity|].
      eapply bsE_seq; [eapply bsE_expr; evw; chk7; evw; rewrite Hh1; change (h ++ [Some [VInt t; VInt 1; VInt 0; VInt 0; VInt 0]]) with (h ++ Some [VInt t; VInt 1; VInt 0; VInt 0; VInt 0] :: []);
                       fold L; rewrite cell_get_mid; evw; reflexivity|].
      eapply bsE_seq; [eapply bsE_call; [reflexivity|evw; reflexivity|reflexivity|exact B|evw; reflexivity]|].
      eapply bsE_expr. evw. chk7. evw. rewrite Hh1, <- app_assoc. cbn [app]. fold L. erewrite cell_set_mid; [|lia|reflexivity]. evw. reflexivity.
    + eapply bsE_if; [evw; reflexivity|reflexivity|apply bsE_skip].
  - (* the values could not be read: the handle is released again *)
    set (hX := h ++ Some [VInt t; VInt 1; VInt 0; VNull; VInt 0] :: nones j).
    pose proof (va_destroy_bs bv k' sx' m' o hX L t 1 0 VNull (VInt 0) hX hX
                  ltac:(unfold va_block, hX, L; rewrite nth_error_app2 by lia; rewrite Nat.sub_diag; reflexivity)
                  ltac:(left; split; reflexivity) ltac:(left; split; reflexivity) eq_refl eq_refl) as D.
    assert (HK : kill L hX = h ++ None :: nones j) by (unfold kill, hX, L; rewrite set_nth_v_app; reflexivity). rewrite HK in D.
    exists st. eexists (Build_rvl _ _ _ _ _ _ _ _ _). do 4 eexists. split; [|split; [exact Pf|split; [exact MT|split; [right; split; [exact Hneg|exists j; reflexivity]|exact MT2]]]].
    cbn [fbody prog_sbdf_read_valuearray_int disp_of]. unrv. revert B. unfold ora, fr. cbn [app]. intros B.
    eapply bsE_seq_ret.
    eapply bsE_if; [evw; chk7; reflexivity|reflexivity|].
    eapply bsE_seq.
    + eapply bsE_if; [evw; reflexivity|reflexivity|].
      eapply bsE_seq; [eapply bsE_expr; evw; chk7; evw; rewrite Hh1; change (h ++ [Some [VInt t; VInt 1; VInt 0; VInt 0; VInt 0]]) with (h ++ Some [VInt t; VInt 1; VInt 0; VInt 0; VInt 0] :: []);
                       fold L; rewrite cell_get_mid; evw; reflexivity|].
      eapply bsE_seq; [eapply bsE_call; [reflexivity|evw; reflexivity|reflexivity|exact B|evw; reflexivity]|].
      eapply bsE_expr. evw. chk7. evw. rewrite Hh1, <- app_assoc. cbn [app]. fold L. erewrite cell_set_mid; [|lia|reflexivity]. evw. fold hX. reflexivity.
    + eapply bsE_if; [evw; reflexivity|cbn [truth]; replace (st =? 0) with false by lia; reflexivity|].
      eapply bsE_seq; [eapply bsE_if; [evw; reflexivity|reflexivity|]; eapply bsE_call_void; [reflexivity|evw; reflexivity|reflexivity|exact D|unfold fr; evw; reflexivity]|].
      eapply bsE_return. evw. reflexivity.
Qed.

Lemma nones_app a b : nones a ++ nones b = nones (a + b).
Proof. unfold nones. now rewrite repeat_app. Qed.

(* a run-length array: the row count, the run lengths (bytes) into object1, the distinct values into object2 *)
Lemma rvi_read_rle k1 t s2 h m : Forall byte s2 ->
  let L := List.length h in
  exists st l' k' s' h' m',
    bsE prog_env (disp_of (fbody prog_sbdf_read_valuearray_int))
      (rvr fv hv (Build_rvl VUndef (VInt 2) (VInt 0) VUndef VUndef (VInt t) VUndef VUndef VUndef) (VCell L 0) bv k1 s2
           (h ++ [Some [VInt t; VInt 2; VInt 0; VInt 0; VInt 0]]) m o)
      (OReturn (VInt st) (rvr fv hv l' (VCell L 0) bv k' s' h' m' o)) /\ prefix_of m m' /\
    (k1 < 0 -> match (v <-r read_int32 false ;; if v <? 0 then rfail SBDF_ERROR_INVALID_SIZE else
                        _ <-r Obj.obj_read_arr false None SBDF_BYTETYPEID ;; _ <-r Obj.obj_read_arr false None t ;; rret tt) s2 with
               | Ok (_, sM) => st = SBDF_OK /\ s' = sM /\ k' = k1 | Err e => st = e end) /\
    ((st = SBDF_OK /\ Forall byte s' /\
        exists rows newb1 newb2, 0 <= rows /\ h' = h ++ Some [VInt t; VInt 2; VInt rows; VCell (S L) 0; VCell (S L + List.length newb1) 0] :: newb1 ++ newb2 /\
          (1 <= List.length newb1)%nat /\ (1 <= List.length newb2)%nat /\
          forall hp : heap, List.length hp = L ->
            va_rel m' (hp ++ Some [VInt t; VInt 2; VInt rows; VCell (S L) 0; VCell (S L + List.length newb1) 0] :: newb1 ++ newb2) L (hp ++ None :: nones (List.length newb1 + List.length newb2)))
     \/ (st < 0 /\ exists j, h' = h ++ None :: nones j)) /\
    (st = SBDF_OK -> match (v <-r read_int32 false ;; if v <? 0 then rfail SBDF_ERROR_INVALID_SIZE else
                        _ <-r Obj.obj_read_arr false None SBDF_BYTETYPEID ;; _ <-r Obj.obj_read_arr false None t ;; rret tt) s2 with
               | Ok (_, sM) => s' = sM | Err _ => False end).
Proof.
  intros Hs2 L.
  pose proof (read_int32_bs2 (h ++ [Some [VInt t; VInt 2; VInt 0; VInt 0; VInt 0]]) fv (VPtr ROut 0) VUndef bv k1 s2 m o I I Hs2) as R.
  assert (DH : forall kk sx0 mm (r : Z) (c3 c4 : val), as_ptr c3 = VNull -> as_ptr c4 = VNull -> forall j,
             bsE prog_env (fbody prog_sbdf_va_destroy) (fr [("handle"%string, VCell L 0)] bv kk sx0 (h ++ Some [VInt t; VInt 2; VInt r; c3; c4] :: nones j) mm o)
               (ONormal (fr [("handle"%string, VCell L 0)] bv kk sx0 (h ++ None :: nones j) mm o))).
  { intros kk sx0 mm r c3 c4 N3 N4 j. set (hX := h ++ Some [VInt t; VInt 2; VInt r; c3; c4] :: nones j).
    pose proof (va_destroy_bs bv kk sx0 mm o hX L t 2 r c3 c4 hX hX
                  ltac:(unfold va_block, hX, L; rewrite nth_error_app2 by lia; rewrite Nat.sub_diag; reflexivity)
                  ltac:(left; split; [exact N3|reflexivity]) ltac:(left; split; [exact N4|reflexivity]) eq_refl eq_refl) as D.
    assert (HK : kill L hX = h ++ None :: nones j) by (unfold kill, hX, L; rewrite set_nth_v_app; reflexivity). rewrite HK in D. exact D. }
  set (h1 := h ++ [Some [VInt t; VInt 2; VInt 0; VInt 0; VInt 0]]) in *.
  assert (Hh1 : h1 = h ++ Some [VInt t; VInt 2; VInt 0; VInt 0; VInt 0] :: nones 0) by reflexivity.
  destruct (read_int32 false s2) as [[rows s3]|e] eqn:ER.
  2: { (* the row count cannot be read *)
    destruct R as (c' & sR & R). pose proof (read_int32_err s2 e ER). subst e.
    pose proof (DH k1 sR m 0 (VInt 0) (VInt 0) eq_refl eq_refl 0%nat) as D.
    exists SBDF_ERROR_IO. eexists (Build_rvl _ _ _ _ _ _ _ _ _). do 4 eexists. split; [|split; [exists []; now rewrite app_nil_r|split; [intros _; unfold rd_bind; rewrite ER; reflexivity|split; [right; split; [reflexivity|exists 0%nat; reflexivity]|intros X; cbv in X; discriminate X]]]].
    cbn [fbody prog_sbdf_read_valuearray_int disp_of]. unrv.
    eapply bsE_seq_ret. eapply bsE_if; [evw; chk7; reflexivity|reflexivity|]. eapply bsE_if; [evw; chk7; reflexivity|reflexivity|].
    eapply bsE_seq; [eapply bsE_decl0; evw; reflexivity|].
    eapply bsE_seq; [eapply bsE_call; [reflexivity|evw; reflexivity|reflexivity|exact R|unfold ri2; evw; reflexivity]|].
    eapply bsE_seq_ret. eapply bsE_if; [evw; reflexivity|reflexivity|].
    eapply bsE_seq; [eapply bsE_if; [evw; reflexivity|reflexivity|]; eapply bsE_call_void; [reflexivity|evw; reflexivity|reflexivity|rewrite Hh1; exact D|unfold fr; evw; reflexivity]|].
    eapply bsE_return. evw. reflexivity. }
  destruct (read_int32_range s2 rows s3 Hs2 ER) as (Hrows & _). pose proof (read_int32_bytes s2 rows s3 Hs2 ER) as Hs3.
  assert (HEAD : forall oo X A0 E0, bsE prog_env X (rvr fv hv (Build_rvl VUndef (VInt 2) (VInt 0) VUndef (VInt rows) (VInt t) VUndef VUndef VUndef) (VCell L 0) bv k1 s3 h1 m o) oo ->
     bsE prog_env (SIf (EBin Eq (EVar "e") (EConst (1))) A0 (SIf (EBin Eq (EVar "e") (EConst (2)))
        (SSeq (SDecl "v" None) (SSeq (SCall (Some "err") "sbdf_read_int32" [(AVal (EVar "file")); (AAddr "v")])
        (SSeq (SIf (EVar "err") (SSeq (SIf (EVar "handle") (SCall None "sbdf_va_destroy" [(AVal (EVar "*handle"))]) SSkip) (SReturn (EVar "err"))) SSkip) X))) E0))%string
       (rvr fv hv (Build_rvl VUndef (VInt 2) (VInt 0) VUndef VUndef (VInt t) VUndef VUndef VUndef) (VCell L 0) bv k1 s2 h1 m o) oo).
  { intros oo X A0 E0 B. revert B. unrv. intros B.
    eapply bsE_if; [evw; chk7; reflexivity|reflexivity|]. eapply bsE_if; [evw; chk7; reflexivity|reflexivity|].
    eapply bsE_seq; [eapply bsE_decl0; evw; reflexivity|].
    eapply bsE_seq; [eapply bsE_call; [reflexivity|evw; reflexivity|reflexivity|exact R|unfold ri2; evw; reflexivity]|].
    eapply bsE_seq; [eapply bsE_if; [evw; reflexivity|reflexivity|apply bsE_skip]|]. exact B. }
  destruct (rows <? 0) eqn:Eneg.
  { (* a negative row count *)
    pose proof (DH k1 s3 m 0 (VInt 0) (VInt 0) eq_refl eq_refl 0%nat) as D.
    exists SBDF_ERROR_INVALID_SIZE. eexists (Build_rvl _ _ _ _ _ _ _ _ _). do 4 eexists. split; [|split; [exists []; now rewrite app_nil_r|split; [intros _; unfold rd_bind, rfail; rewrite ER, Eneg; reflexivity|split; [right; split; [reflexivity|exists 0%nat; reflexivity]|intros X; cbv in X; discriminate X]]]].
    cbn [fbody prog_sbdf_read_valuearray_int disp_of]. eapply bsE_seq_ret. apply HEAD. unrv.
    eapply bsE_seq_ret. eapply bsE_if; [evw; chk7; evw; rewrite Eneg; reflexivity|reflexivity|].
    eapply bsE_seq; [eapply bsE_if; [evw; reflexivity|reflexivity|]; eapply bsE_call_void; [reflexivity|evw; reflexivity|reflexivity|rewrite Hh1; exact D|unfold fr; evw; reflexivity]|].
    eapply bsE_return. evw. chk7. reflexivity. }
  (* the run lengths *)
  set (h2 := h ++ [Some [VInt t; VInt 2; VInt rows; VInt 0; VInt 0]]).
  assert (HL2 : List.length h2 = S L) by (unfold h2; rewrite app_length; cbn; lia).
  destruct (obj_read_arr_any rf ROut fo 0 SBDF_BYTETYPEID bv k1 s3 h2 m o Hs3) as (st1 & cn1 & e1 & r1 & so1 & k2 & s4 & h3 & m1 & B1 & Pf1 & MT1 & Out1 & P1).
  rewrite HL2 in Out1.
  assert (STEP1 : bsE prog_env
       (SIf (EVar "handle") (SSeq (SExpr (ECellStore (EVar "*handle") (EConst 2) (EVar "v"))) (SSeq (SExpr (EAssign "$a2" (ECellLoad (EVar "*handle") (EConst 3) true)))
            (SSeq (SCall (Some "err") "sbdf_obj_read_arr" [(AVal (EVar "file")); (AVal (EConst (254))); (AAddr "$a2")]) (SExpr (ECellStore (EVar "*handle") (EConst 3) (EVar "$a2"))))))
            (SCall (Some "err") "sbdf_obj_skip_arr" [(AVal (EVar "file")); (AVal (EConst (254)))]))%string
       (rvr fv hv (Build_rvl VUndef (VInt 2) (VInt 0) VUndef (VInt rows) (VInt t) VUndef VUndef VUndef) (VCell L 0) bv k1 s3 h1 m o)
       (ONormal (rvr fv hv (Build_rvl VUndef (VInt 2) (VInt st1) VUndef (VInt rows) (VInt t) VUndef so1 VUndef) (VCell L 0) bv k2 s4
                     (h ++ Some [VInt t; VInt 2; VInt rows; so1; VInt 0] :: skipn (S L) h3) m1 o)) /\ (exists tl, h3 = h2 ++ tl)).
  { assert (Htl : exists tl, h3 = h2 ++ tl) by (destruct Out1 as [(_ & _ & _ & newb & -> & _)|(_ & _ & j & ->)]; eexists; reflexivity).
    split; [|exact Htl]. destruct Htl as (tl & ->). assert (Sk : skipn (S L) (h2 ++ tl) = tl) by (rewrite <- HL2, skipn_app, Nat.sub_diag, skipn_all; reflexivity). rewrite Sk.
    assert (So1 : storable so1 = true) by (destruct Out1 as [(_ & -> & _)|(_ & -> & _)]; reflexivity).
    unrv. revert B1. unfold ora, fr. cbn [app]. intros B1.
    eapply bsE_if; [evw; reflexivity|reflexivity|].
    eapply bsE_seq; [eapply bsE_expr; evw; chk7; evw; unfold h1; erewrite cell_set_new; [|lia|reflexivity]; evw; reflexivity|].
    eapply bsE_seq; [eapply bsE_expr; evw; chk7; evw; change (h ++ [Some [VInt t; VInt 2; VInt rows; VInt 0; VInt 0]]) with (h ++ Some [VInt t; VInt 2; VInt rows; VInt 0; VInt 0] :: []);
                       fold L; rewrite cell_get_mid; evw; reflexivity|].
    eapply bsE_seq; [eapply bsE_call; [reflexivity|evw; chk7; reflexivity|reflexivity|exact B1|evw; destruct so1; try discriminate So1; evw; reflexivity]|].
    eapply bsE_expr. evw. chk7. evw. unfold h2. rewrite <- app_assoc. cbn [app]. fold L.
    destruct so1; try discriminate So1; evw; (erewrite cell_set_mid; [|lia|reflexivity]); evw; reflexivity. }
  destruct STEP1 as (STEP1 & (tl1 & Htl1)).
  assert (Sk1 : skipn (S L) h3 = tl1) by (rewrite Htl1, <- HL2, skipn_app, Nat.sub_diag, skipn_all; reflexivity). rewrite Sk1 in STEP1. clear Sk1.
  destruct Out1 as [(-> & -> & Hs4 & newb1 & Hh3 & Hn1 & D1)|(Hneg1 & -> & j1 & Hh3)].
  2: { (* the run lengths could not be read *)
    assert (tl1 = nones j1) by (rewrite Hh3 in Htl1; apply app_inv_head in Htl1; congruence). subst tl1.
    pose proof (DH k2 s4 m1 rows VNull (VInt 0) eq_refl eq_refl j1) as D.
    exists st1. eexists (Build_rvl _ _ _ _ _ _ _ _ _). do 4 eexists. split; [|split; [exact Pf1|split; [|split; [right; split; [exact Hneg1|exists j1; reflexivity]|intros X; unfold SBDF_OK in X; lia]]]].
    2: { intros Hk. specialize (MT1 Hk). unfold rd_bind, rfail. rewrite ER, Eneg. destruct (Obj.obj_read_arr false None SBDF_BYTETYPEID s3) as [[ob1 sM1]|eM1]; [destruct MT1 as (MT1 & _); unfold SBDF_OK in MT1; lia|exact MT1]. }
    cbn [fbody prog_sbdf_read_valuearray_int disp_of]. eapply bsE_seq_ret. apply HEAD.
    eapply bsE_seq; [unrv; eapply bsE_if; [evw; chk7; evw; rewrite Eneg; reflexivity|reflexivity|apply bsE_skip]|].
    eapply bsE_seq; [exact STEP1|]. unrv.
    eapply bsE_seq_ret. eapply bsE_if; [evw; reflexivity|cbn [truth]; replace (st1 =? 0) with false by lia; reflexivity|].
    eapply bsE_seq; [eapply bsE_if; [evw; reflexivity|reflexivity|]; eapply bsE_call_void; [reflexivity|evw; reflexivity|reflexivity|exact D|unfold fr; evw; reflexivity]|].
    eapply bsE_return. evw. reflexivity. }
  assert (tl1 = newb1) by (rewrite Hh3 in Htl1; apply app_inv_head in Htl1; congruence). subst tl1.
  (* the values *)
  set (n1 := List.length newb1) in *.
  set (hA := h ++ Some [VInt t; VInt 2; VInt rows; VCell (S L) 0; VInt 0] :: newb1) in *.
  assert (HLA : List.length hA = (S L + n1)%nat) by (unfold hA, n1, L; rewrite app_length; cbn [List.length]; lia).
  destruct (obj_read_arr_any rf ROut fo 0 t bv k2 s4 hA m1 o Hs4) as (st2 & cn2 & e2 & r2 & so2 & k3 & s5 & h4 & m2 & B2 & Pf2 & MT2 & Out2 & P2).
  rewrite HLA in Out2.
  assert (Pf12 : prefix_of m m2) by (destruct Pf1 as (x1 & ->); destruct Pf2 as (x2 & ->); exists (x1 ++ x2); now rewrite app_assoc).
  assert (Htl2 : exists tl, h4 = hA ++ tl) by (destruct Out2 as [(_ & _ & _ & newb & -> & _)|(_ & _ & j & ->)]; eexists; reflexivity).
  destruct Htl2 as (tl2 & Htl2).
  assert (So2 : storable so2 = true) by (destruct Out2 as [(_ & -> & _)|(_ & -> & _)]; reflexivity).
  assert (STEP2 : bsE prog_env
       (SIf (EVar "handle") (SSeq (SExpr (EAssign "$a3" (ECellLoad (EVar "*handle") (EConst 4) true)))
            (SSeq (SCall (Some "err") "sbdf_obj_read_arr" [(AVal (EVar "file")); (AVal (EVar "vt")); (AAddr "$a3")]) (SExpr (ECellStore (EVar "*handle") (EConst 4) (EVar "$a3")))))
            (SCall (Some "err") "sbdf_obj_skip_arr" [(AVal (EVar "file")); (AVal (EVar "vt"))]))%string
       (rvr fv hv (Build_rvl VUndef (VInt 2) (VInt SBDF_OK) VUndef (VInt rows) (VInt t) VUndef (VCell (S L) 0) VUndef) (VCell L 0) bv k2 s4 hA m1 o)
       (ONormal (rvr fv hv (Build_rvl VUndef (VInt 2) (VInt st2) VUndef (VInt rows) (VInt t) VUndef (VCell (S L) 0) so2) (VCell L 0) bv k3 s5
                     (h ++ Some [VInt t; VInt 2; VInt rows; VCell (S L) 0; so2] :: newb1 ++ tl2) m2 o))).
  { unrv. revert B2. unfold ora, fr. cbn [app]. rewrite Htl2. intros B2.
    eapply bsE_if; [evw; reflexivity|reflexivity|].
    eapply bsE_seq; [eapply bsE_expr; evw; chk7; evw; unfold hA; fold L; rewrite cell_get_mid; evw; reflexivity|].
    eapply bsE_seq; [eapply bsE_call; [reflexivity|evw; reflexivity|reflexivity|exact B2|evw; destruct so2; try discriminate So2; evw; reflexivity]|].
    eapply bsE_expr. evw. chk7. evw. unfold hA. rewrite <- app_assoc. cbn [app]. fold L.
    destruct so2; try discriminate So2; evw; (erewrite cell_set_mid; [|lia|reflexivity]); evw; reflexivity. }
  assert (MAIN : forall oo, bsE prog_env (SIf (EVar "err") (SSeq (SIf (EVar "handle") (SCall None "sbdf_va_destroy" [(AVal (EVar "*handle"))]) SSkip) (SReturn (EVar "err"))) SSkip)%string
                    (rvr fv hv (Build_rvl VUndef (VInt 2) (VInt st2) VUndef (VInt rows) (VInt t) VUndef (VCell (S L) 0) so2) (VCell L 0) bv k3 s5
                         (h ++ Some [VInt t; VInt 2; VInt rows; VCell (S L) 0; so2] :: newb1 ++ tl2) m2 o) oo ->
                 bsE prog_env (match disp_of (fbody prog_sbdf_read_valuearray_int) with SSeq a _ => a | _ => SSkip end)
                    (rvr fv hv (Build_rvl VUndef (VInt 2) (VInt 0) VUndef VUndef (VInt t) VUndef VUndef VUndef) (VCell L 0) bv k1 s2 h1 m o) oo).
  { intros oo B. cbn [fbody prog_sbdf_read_valuearray_int disp_of]. apply HEAD.
    eapply bsE_seq; [unrv; eapply bsE_if; [evw; chk7; evw; rewrite Eneg; reflexivity|reflexivity|apply bsE_skip]|].
    eapply bsE_seq; [exact STEP1|]. eapply bsE_seq; [unrv; eapply bsE_if; [evw; reflexivity|reflexivity|apply bsE_skip]|].
    eapply bsE_seq; [exact STEP2|]. exact B. }
  destruct Out2 as [(-> & -> & Hs5 & newb2 & Hh4 & Hn2 & D2)|(Hneg2 & -> & j2 & Hh4)].
  - (* both objects were read *)
    assert (tl2 = newb2) by (rewrite Hh4 in Htl2; apply app_inv_head in Htl2; congruence). subst tl2.
    exists SBDF_OK. eexists (Build_rvl _ _ _ _ _ _ _ _ _). do 4 eexists. split; [|split; [exact Pf12|split; [|split; [left|]]]].
    + cbn [fbody prog_sbdf_read_valuearray_int disp_of] in *. eapply bsE_seq; [apply MAIN; unrv; eapply bsE_if; [evw; reflexivity|reflexivity|apply bsE_skip]|].
      eapply bsE_return. evw. chk7. reflexivity.
    + intros Hk. specialize (MT1 Hk). unfold rd_bind, rfail, rret. rewrite ER, Eneg.
      destruct (Obj.obj_read_arr false None SBDF_BYTETYPEID s3) as [[ob1 sM1]|eM1]; [|exact MT1]. destruct MT1 as (_ & <- & ->). specialize (MT2 Hk).
      destruct (Obj.obj_read_arr false None t s4) as [[ob2 sM2]|eM2]; [|exact MT2]. destruct MT2 as (_ & <- & ->). repeat split; reflexivity.
    + split; [reflexivity|]. split; [exact Hs5|]. exists rows, newb1, newb2. split; [lia|]. split; [reflexivity|]. split; [exact Hn1|]. split; [exact Hn2|].
      intros hp Hhp.
      set (pre2 := hp ++ [Some [VInt t; VInt 2; VInt rows; VCell (S L) 0; VCell (S L + n1) 0]]).
      assert (Hp2 : List.length pre2 = S L) by (unfold pre2; rewrite app_length, Hhp; cbn; lia).
      assert (HX : hp ++ Some [VInt t; VInt 2; VInt rows; VCell (S L) 0; VCell (S L + n1) 0] :: newb1 ++ newb2 = (pre2 ++ newb1) ++ newb2) by (unfold pre2; rewrite <- !app_assoc; reflexivity).
      assert (NL : forall z : heap, nth_error (pre2 ++ z) L = Some (Some [VInt t; VInt 2; VInt rows; VCell (S L) 0; VCell (S L + n1) 0])).
      { intros z. unfold pre2. rewrite <- app_assoc. cbn [app]. rewrite <- Hhp. rewrite nth_error_app2 by lia. rewrite Nat.sub_diag. reflexivity. }
      set (pre3 := pre2 ++ nones n1).
      assert (Hp3 : List.length pre3 = (S L + n1)%nat) by (unfold pre3, nones; rewrite app_length, repeat_length; lia).
      exists t, 2, rows, (VCell (S L) 0), (VCell (S L + n1) 0), (pre3 ++ newb2), (pre3 ++ nones (List.length newb2)).
      fold n1. rewrite HX. split; [unfold va_block; rewrite <- app_assoc; apply NL|].
      split; [right; exists (S L); split; [reflexivity|unfold pre3; eapply destroys_grow; [apply D1; exact Hp2|destruct Pf2 as (x2 & ->); rewrite zlen_app; pose proof (zlen_nonneg x2); lia]]|].
      split; [right; exists (S L + n1)%nat; split; [reflexivity|apply D2; exact Hp3]|].
      split; [unfold pre3; rewrite <- !app_assoc; rewrite !NL; reflexivity|]. split; [unfold pre3; rewrite <- !app_assoc; rewrite !NL; reflexivity|].
      unfold pre3, pre2. rewrite <- !app_assoc. cbn [app]. unfold kill. rewrite <- Hhp. rewrite set_nth_v_app. rewrite nones_app. reflexivity.
    + intros _. unfold rd_bind, rfail, rret. rewrite ER, Eneg. specialize (P1 eq_refl).
      destruct (Obj.obj_read_arr false None SBDF_BYTETYPEID s3) as [[ob1 sM1]|eM1]; [|exact P1]. rewrite <- P1. specialize (P2 eq_refl).
      destruct (Obj.obj_read_arr false None t s4) as [[ob2 sM2]|eM2]; exact P2.
  - (* the values could not be read: object1 and the handle are released *)
    assert (tl2 = nones j2) by (rewrite Hh4 in Htl2; apply app_inv_head in Htl2; congruence). subst tl2.
    set (pre2 := h ++ [Some [VInt t; VInt 2; VInt rows; VCell (S L) 0; VNull]]).
    assert (Hp2 : List.length pre2 = S L) by (unfold pre2, L; rewrite app_length; cbn; lia).
    set (hX := h ++ Some [VInt t; VInt 2; VInt rows; VCell (S L) 0; VNull] :: newb1 ++ nones j2).
    assert (HX : hX = (pre2 ++ newb1) ++ nones j2) by (unfold hX, pre2; rewrite <- !app_assoc; reflexivity).
    set (hY := (pre2 ++ nones n1) ++ nones j2).
    assert (DX : destroys m2 hX (S L) hY).
    { rewrite HX. unfold hY. eapply destroys_grow; [apply D1; exact Hp2|destruct Pf2 as (x2 & ->); rewrite zlen_app; pose proof (zlen_nonneg x2); lia]. }
    assert (NL : forall z : heap, nth_error ((pre2 ++ z) ++ nones j2) L = Some (Some [VInt t; VInt 2; VInt rows; VCell (S L) 0; VNull])).
    { intros z. rewrite <- app_assoc. unfold pre2. rewrite <- app_assoc. cbn [app]. unfold L. rewrite nth_error_app2 by lia. rewrite Nat.sub_diag. reflexivity. }
    pose proof (va_destroy_bs bv k3 s5 m2 o hX L t 2 rows (VCell (S L) 0) VNull hY hY
                  ltac:(unfold va_block; rewrite HX; apply NL)
                  ltac:(right; exists (S L); split; [reflexivity|exact DX]) ltac:(left; split; reflexivity)
                  ltac:(rewrite HX; unfold hY; rewrite !NL; reflexivity) ltac:(rewrite HX; unfold hY; rewrite !NL; reflexivity)) as D.
    assert (HK : kill L hY = h ++ None :: nones (n1 + j2)).
    { unfold hY, pre2. rewrite <- !app_assoc. cbn [app]. unfold kill, L. rewrite set_nth_v_app. rewrite nones_app. reflexivity. }
    rewrite HK in D.
    exists st2. eexists (Build_rvl _ _ _ _ _ _ _ _ _). do 4 eexists. split; [|split; [exact Pf12|split; [|split; [right; split; [exact Hneg2|exists (n1 + j2)%nat; reflexivity]|intros X; unfold SBDF_OK in X; lia]]]].
    2: { intros Hk. specialize (MT1 Hk). unfold rd_bind, rfail, rret. rewrite ER, Eneg.
         destruct (Obj.obj_read_arr false None SBDF_BYTETYPEID s3) as [[ob1 sM1]|eM1] eqn:EM1; [|pose proof (neg_obj_read_arr _ _ _ EM1); unfold SBDF_OK in MT1; lia].
         destruct MT1 as (_ & <- & ->). specialize (MT2 Hk).
         destruct (Obj.obj_read_arr false None t s4) as [[ob2 sM2]|eM2]; [destruct MT2 as (MT2 & _); unfold SBDF_OK in MT2; lia|exact MT2]. }
    cbn [fbody prog_sbdf_read_valuearray_int disp_of] in *. eapply bsE_seq_ret. apply MAIN. unrv.
    eapply bsE_if; [evw; reflexivity|cbn [truth]; replace (st2 =? 0) with false by lia; reflexivity|].
    eapply bsE_seq; [eapply bsE_if; [evw; reflexivity|reflexivity|]; eapply bsE_call_void; [reflexivity|evw; reflexivity|reflexivity|exact D|unfold fr; evw; reflexivity]|].
    eapply bsE_return. evw. reflexivity.
Qed.
End RVI.

(* ================================================================== the whole call, and sbdf_va_read around it *)
Section VaRead.
Variables (bv : val) (o : list Z) (rf rp : region) (fo po : Z).
Notation fv := (VPtr rf fo).
Notation hv := (VPtr rp po).

(* an encoding byte that is none of the three: the handle is released again *)
Lemma rvi_read_unknown k1 e t s2 h m : 0 <= e <= 255 -> e <> 1 -> e <> 2 -> e <> 3 ->
  let L := List.length h in
  exists l', bsE prog_env (disp_of (fbody prog_sbdf_read_valuearray_int))
      (rvr fv hv (Build_rvl VUndef (VInt e) (VInt 0) VUndef VUndef (VInt t) VUndef VUndef VUndef) (VCell L 0) bv k1 s2
           (h ++ [Some [VInt t; VInt e; VInt 0; VInt 0; VInt 0]]) m o)
      (OReturn (VInt SBDF_ERROR_UNKNOWN_VALUEARRAY_ENCODING) (rvr fv hv l' (VCell L 0) bv k1 s2 (h ++ [None]) m o)).
Proof.
  intros He N1 N2 N3 L. set (hX := h ++ [Some [VInt t; VInt e; VInt 0; VInt 0; VInt 0]]).
  pose proof (va_destroy_bs bv k1 s2 m o hX L t e 0 (VInt 0) (VInt 0) hX hX
                ltac:(unfold va_block, hX, L; apply nth_error_app_new) ltac:(left; split; reflexivity) ltac:(left; split; reflexivity) eq_refl eq_refl) as D.
  unfold hX, L in D. rewrite kill_new in D.
  eexists (Build_rvl _ _ _ _ _ _ _ _ _). cbn [fbody prog_sbdf_read_valuearray_int disp_of]. unrv.
  eapply bsE_seq_ret.
  eapply bsE_if; [evw; chk7; reflexivity|cbn [truth b2z]; replace (e =? 1) with false by lia; reflexivity|].
  eapply bsE_if; [evw; chk7; reflexivity|cbn [truth b2z]; replace (e =? 2) with false by lia; reflexivity|].
  eapply bsE_if; [evw; chk7; reflexivity|cbn [truth b2z]; replace (e =? 3) with false by lia; reflexivity|].
  eapply bsE_seq; [eapply bsE_if; [evw; reflexivity|reflexivity|]; eapply bsE_call_void; [reflexivity|evw; reflexivity|reflexivity|exact D|unfold fr; evw; reflexivity]|].
  eapply bsE_return. evw. chk7. reflexivity.
Qed.

(* every stream whose encoding byte is not the bit-array one *)
Lemma rvi_read_bs k sx h m sh : Forall byte sx -> (forall t s2, sx <> 3 :: t :: s2) ->
  let L := List.length h in
  exists st l' sh' k' s' h' m',
    bsE prog_env (fbody prog_sbdf_read_valuearray_int) (rvr fv hv rvl0 sh bv k sx h m o) (OReturn (VInt st) (rvr fv hv l' sh' bv k' s' h' m' o)) /\ prefix_of m m' /\
    (k < 0 -> match Va.va_read false None sx with Ok (_, sM) => st = SBDF_OK /\ s' = sM | Err e => st = e end) /\
    ((st = SBDF_OK /\ sh' = VCell L 0 /\ Forall byte s' /\ exists blk newb, h' = h ++ Some blk :: newb /\
        forall hp : heap, List.length hp = L -> va_rel m' (hp ++ Some blk :: newb) L (hp ++ None :: nones (List.length newb))) \/ (st < 0 /\ exists j, h' = h ++ nones j)) /\
    (st = SBDF_OK -> match Va.va_read false None sx with Ok (_, sM) => s' = sM | Err _ => False end) /\
    (k < 0 -> st = SBDF_OK -> k' = k).
Proof.
  intros Hs H3 L. unfold Va.va_read, rd_bind, vt_read.
  destruct sx as [|e s1].
  { (* no encoding byte *)
    pose proof (read_int8_bs2 bv k h m o fv (VPtr ROut 0) VUndef VUndef [] I I Hs) as R8. cbv iota in R8.
    exists SBDF_ERROR_IO. eexists (Build_rvl _ _ _ _ _ _ _ _ _). do 5 eexists. split; [|split; [exists []; now rewrite app_nil_r|split; [intros _; reflexivity|split; [right; split; [reflexivity|exists 0%nat; cbn; now rewrite app_nil_r]|split; [intros X; cbv in X; discriminate X|intros _ X; cbv in X; discriminate X]]]]].
    cbn [fbody prog_sbdf_read_valuearray_int]. unrv.
    eapply bsE_seq; [eapply bsE_decl0; evw; reflexivity|]. eapply bsE_seq; [eapply bsE_decl0; evw; reflexivity|]. eapply bsE_seq; [eapply bsE_decl0; evw; reflexivity|].
    eapply bsE_seq_ret. eapply bsE_seq; [eapply bsE_call; [reflexivity|evw; reflexivity|reflexivity|exact R8|unfold rd8s, fr; evw; reflexivity]|].
    eapply bsE_if; [evw; reflexivity|reflexivity|]. eapply bsE_return. evw. reflexivity. }
  inversion Hs as [|? ? He Hs1]; subst. destruct s1 as [|t s2].
  { (* no type byte *)
    pose proof (read_int8_bs2 bv k h m o fv (VPtr ROut 0) VUndef VUndef [e] I I Hs) as R8. cbv iota in R8.
    pose proof (vt_read_bs2 bv k h m o fv (VPtr ROut 0) VUndef VUndef [] I I Hs1) as VT. cbv iota in VT. destruct VT as (e' & c' & VT).
    exists SBDF_ERROR_IO. eexists (Build_rvl _ _ _ _ _ _ _ _ _). do 5 eexists. split; [|split; [exists []; now rewrite app_nil_r|split; [intros _; reflexivity|split; [right; split; [reflexivity|exists 0%nat; cbn; now rewrite app_nil_r]|split; [intros X; cbv in X; discriminate X|intros _ X; cbv in X; discriminate X]]]]].
    cbn [fbody prog_sbdf_read_valuearray_int]. unrv.
    eapply bsE_seq; [eapply bsE_decl0; evw; reflexivity|]. eapply bsE_seq; [eapply bsE_decl0; evw; reflexivity|]. eapply bsE_seq; [eapply bsE_decl0; evw; reflexivity|].
    eapply bsE_seq; [eapply bsE_seq; [eapply bsE_call; [reflexivity|evw; reflexivity|reflexivity|exact R8|unfold rd8s, fr; evw; reflexivity]|eapply bsE_if; [evw; reflexivity|reflexivity|apply bsE_skip]]|].
    eapply bsE_seq_ret. eapply bsE_seq; [eapply bsE_call; [reflexivity|evw; reflexivity|reflexivity|exact VT|unfold vrs, fr; evw; reflexivity]|].
    eapply bsE_if; [evw; reflexivity|reflexivity|]. eapply bsE_return. evw. reflexivity. }
  inversion Hs1 as [|? ? Ht Hs2]; subst. cbn [read_int8].
  destruct (k =? 0) eqn:Ek0.
  { (* the handle cannot be allocated *)
    assert (k = 0) by lia. subst k.
    pose proof (read_int8_bs2 bv 0 h m o fv (VPtr ROut 0) VUndef VUndef (e :: t :: s2) I I Hs) as R8. cbv iota in R8.
    pose proof (vt_read_bs2 bv 0 h m o fv (VPtr ROut 0) VUndef VUndef (t :: s2) I I Hs1) as VT. cbv iota in VT. destruct VT as (e' & VT).
    exists SBDF_ERROR_OUT_OF_MEMORY. eexists (Build_rvl _ _ _ _ _ _ _ _ _). do 5 eexists. split; [|split; [exists []; now rewrite app_nil_r|split; [intros Hk; lia|split; [right; split; [reflexivity|exists 0%nat; cbn; now rewrite app_nil_r]|split; [intros X; cbv in X; discriminate X|intros _ X; cbv in X; discriminate X]]]]].
    cbn [fbody prog_sbdf_read_valuearray_int]. unrv.
    eapply bsE_seq; [eapply bsE_decl0; evw; reflexivity|]. eapply bsE_seq; [eapply bsE_decl0; evw; reflexivity|]. eapply bsE_seq; [eapply bsE_decl0; evw; reflexivity|].
    eapply bsE_seq; [eapply bsE_seq; [eapply bsE_call; [reflexivity|evw; reflexivity|reflexivity|exact R8|unfold rd8s, fr; evw; reflexivity]|eapply bsE_if; [evw; reflexivity|reflexivity|apply bsE_skip]]|].
    eapply bsE_seq; [eapply bsE_seq; [eapply bsE_call; [reflexivity|evw; reflexivity|reflexivity|exact VT|unfold vrs, fr; evw; reflexivity]|eapply bsE_if; [evw; reflexivity|reflexivity|apply bsE_skip]]|].
    eapply bsE_seq_ret. eapply bsE_if; [evw; reflexivity|reflexivity|].
    eapply bsE_seq; [eapply bsE_expr; evw; chk7; evw; reflexivity|].
    eapply bsE_seq_ret. eapply bsE_if; [evw; reflexivity|reflexivity|]. eapply bsE_return. evw. chk7. reflexivity. }
  assert (Hk : k <> 0) by lia.
  assert (Dk : k < 0 -> dec k = k) by (intros Hk0; unfold dec; replace (0 <? k) with false by lia; reflexivity).
  unfold SBDF_PLAINARRAYENCODINGTYPEID, SBDF_RUNLENGTHENCODINGTYPEID, SBDF_BITARRAYENCODINGTYPEID.
  destruct (e =? 1) eqn:E1.
  { assert (e = 1) by lia. subst e.
    destruct (rvi_read_plain bv o rf rp fo po (dec k) t s2 h m Hs2) as (st & l' & k' & s' & h' & m' & B & Pf & MT & Out & PP). fold L in B, Out.
    exists st, l', (VCell L 0), k', s', h', m'. split; [apply rvi_read_pre; [exact Hs|exact Hk|exact B]|]. split; [exact Pf|].
    assert (KK : k < 0 -> st = SBDF_OK -> k' = k).
    { intros Hk0 E. specialize (MT ltac:(rewrite (Dk Hk0); exact Hk0)). destruct (Obj.obj_read_arr false None t s2) as [[ob sM]|eM]; [destruct MT as (_ & _ & ->); apply Dk; exact Hk0|specialize (PP E); contradiction]. }
    split; [|split; [|split; [|exact KK]]].
    - intros Hk0. specialize (MT ltac:(rewrite (Dk Hk0); exact Hk0)). unfold rd_bind, rret.
      destruct (Obj.obj_read_arr false None t s2) as [[ob sM]|eM]; [destruct MT as (-> & -> & _); split; reflexivity|exact MT].
    - destruct Out as [(-> & Hb' & newb & -> & _ & VR)|(Hn & j & ->)]; [left; split; [reflexivity|split; [reflexivity|split; [exact Hb'|eexists; eexists; split; [reflexivity|exact VR]]]]|right; split; [exact Hn|exists (S j); reflexivity]].
    - intros X. specialize (PP X). unfold rd_bind, rret. destruct (Obj.obj_read_arr false None t s2) as [[ob sM]|eM]; exact PP. }
  destruct (e =? 2) eqn:E2.
  { assert (e = 2) by lia. subst e.
    destruct (rvi_read_rle bv o rf rp fo po (dec k) t s2 h m Hs2) as (st & l' & k' & s' & h' & m' & B & Pf & MT & Out & PP). fold L in B, Out.
    exists st, l', (VCell L 0), k', s', h', m'. split; [apply rvi_read_pre; [exact Hs|exact Hk|exact B]|]. split; [exact Pf|].
    assert (KK : k < 0 -> st = SBDF_OK -> k' = k).
    { intros Hk0 E. specialize (MT ltac:(rewrite (Dk Hk0); exact Hk0)). specialize (PP E). unfold rd_bind, rret, rfail in *.
      destruct (read_int32 false s2) as [[rows s3]|eR]; [|contradiction]. destruct (rows <? 0); [contradiction|].
      destruct (Obj.obj_read_arr false None SBDF_BYTETYPEID s3) as [[ob1 sM1]|eM1]; [|contradiction].
      destruct (Obj.obj_read_arr false None t sM1) as [[ob2 sM2]|eM2]; [destruct MT as (_ & _ & ->); apply Dk; exact Hk0|contradiction]. }
    split; [|split; [|split; [|exact KK]]].
    - intros Hk0. specialize (MT ltac:(rewrite (Dk Hk0); exact Hk0)). clear PP KK. unfold rd_bind, rret, rfail in *.
      destruct (read_int32 false s2) as [[rows s3]|eR]; [|exact MT]. destruct (rows <? 0); [exact MT|].
      destruct (Obj.obj_read_arr false None SBDF_BYTETYPEID s3) as [[ob1 sM1]|eM1]; [|exact MT].
      destruct (Obj.obj_read_arr false None t sM1) as [[ob2 sM2]|eM2]; [destruct MT as (-> & -> & _); split; reflexivity|exact MT].
    - destruct Out as [(-> & Hb' & rows & newb1 & newb2 & _ & -> & _ & _ & VR)|(Hn & j & ->)]; [|right; split; [exact Hn|exists (S j); reflexivity]].
      left. split; [reflexivity|]. split; [reflexivity|]. split; [exact Hb'|]. eexists; eexists. split; [reflexivity|]. rewrite app_length. exact VR.
    - intros X. specialize (PP X). clear MT KK. unfold rd_bind, rret, rfail in *.
      destruct (read_int32 false s2) as [[rows s3]|eR]; [|exact PP]. destruct (rows <? 0); [exact PP|].
      destruct (Obj.obj_read_arr false None SBDF_BYTETYPEID s3) as [[ob1 sM1]|eM1]; [|exact PP].
      destruct (Obj.obj_read_arr false None t sM1) as [[ob2 sM2]|eM2]; exact PP. }
  destruct (e =? 3) eqn:E3; [exfalso; assert (e = 3) by lia; subst e; exact (H3 t s2 eq_refl)|].
  unfold byte in He. destruct (rvi_read_unknown (dec k) e t s2 h m He ltac:(lia) ltac:(lia) ltac:(lia)) as (l' & B). fold L in B.
  exists SBDF_ERROR_UNKNOWN_VALUEARRAY_ENCODING, l', (VCell L 0), (dec k), s2, (h ++ [None]), m. split; [apply rvi_read_pre; [exact Hs|exact Hk|exact B]|].
  split; [exists []; now rewrite app_nil_r|]. split; [intros _; reflexivity|split; [right; split; [reflexivity|exists 1%nat; reflexivity]|split; [intros X; cbv in X; discriminate X|intros _ X; cbv in X; discriminate X]]].
Qed.
End VaRead.

(* ================================================================== sbdf_va_read *)
Definition vrd (fv hv e sh bv : val) (k : Z) (sx : list Z) (h : heap) (m o : list Z) : state :=
  fr [("file", fv); ("handle", hv); ("err", e); ("*handle", sh)]%string bv k sx h m o.

Theorem va_read_source rf rp fo po k sx m h : Forall byte sx -> (forall t s2, sx <> 3 :: t :: s2) ->
  exists f0, forall f, (f0 <= f)%nat -> exists st fin,
    callC prog_env f prog_sbdf_va_read [VPtr rf fo; VPtr rp po] m k sx h = OReturn (VInt st) fin /\
    prefix_of m (inb fin) /\
    (k < 0 -> match Va.va_read false None sx with
              | Ok (_, sM) => st = SBDF_OK /\ lookup strm_var (vars fin) = Some (VBytes sM)
              | Err e => st = e end) /\
    ((st = SBDF_OK /\ lookup "*handle" (vars fin) = Some (VCell (List.length h) 0) /\
        exists blk newb, lookup cells_var (vars fin) = Some (VHeap (h ++ Some blk :: newb)) /\ va_rel (inb fin) (h ++ Some blk :: newb) (List.length h) (h ++ None :: nones (List.length newb))) \/
     (st < 0 /\ lookup "*handle" (vars fin) = Some VNull /\ exists j, lookup cells_var (vars fin) = Some (VHeap (h ++ nones j)))) /\
    (* under ANY allocation schedule: a read that succeeds has consumed exactly what the model consumes *)
    (st = SBDF_OK -> match Va.va_read false None sx with Ok (_, sM) => lookup strm_var (vars fin) = Some (VBytes sM) | Err _ => False end).
Proof.
  intros Hs H3.
  destruct (rvi_read_bs (VInt 0) [] rf rp fo po k sx h m VNull Hs H3) as (st & l' & sh' & k' & s' & h' & m' & B & Pf & MT & Out & PP & _).
  destruct l'. revert B. unrv. intros B.
  destruct Out as [(-> & -> & _ & blk & newb & -> & VR)|(Hneg & j & ->)].
  - assert (BV : bsE prog_env (fbody prog_sbdf_va_read) (vrd (VPtr rf fo) (VPtr rp po) VUndef VUndef (VInt 0) k sx h m [])
                   (OReturn (VInt SBDF_OK) (vrd (VPtr rf fo) (VPtr rp po) (VInt SBDF_OK) (VCell (List.length h) 0) (VInt 0) k' s' (h ++ Some blk :: newb) m' []))).
    { cbn [fbody prog_sbdf_va_read]. unfold vrd, fr. cbn [app].
      eapply bsE_seq; [eapply bsE_decl0; evw; reflexivity|].
      eapply bsE_seq; [eapply bsE_if; [evw; reflexivity|reflexivity|apply bsE_skip]|].
      eapply bsE_seq; [eapply bsE_expr; evw; reflexivity|].
      eapply bsE_seq; [eapply bsE_call; [reflexivity|evw; reflexivity|reflexivity|exact B|evw; reflexivity]|].
      eapply bsE_seq; [eapply bsE_if; [evw; reflexivity|reflexivity|apply bsE_skip]|]. eapply bsE_return. evw. reflexivity. }
    destruct (bsE_sound _ _ _ _ BV) as (f0 & F). exists f0. intros f Hf. exists SBDF_OK. eexists. split; [apply F; exact Hf|]. split; [exact Pf|]. split.
    + intros Hk. specialize (MT Hk). destruct (Va.va_read false None sx) as [[va sM]|eM]; [destruct MT as (_ & ->); split; reflexivity|exact MT].
    + split; [left; split; [reflexivity|]; split; [reflexivity|]; exists blk, newb; split; [reflexivity|exact (VR h eq_refl)]|].
      intros X. specialize (PP X). destruct (Va.va_read false None sx) as [[va sM]|eM]; [rewrite PP; reflexivity|exact PP].
  - assert (BV : bsE prog_env (fbody prog_sbdf_va_read) (vrd (VPtr rf fo) (VPtr rp po) VUndef VUndef (VInt 0) k sx h m [])
                   (OReturn (VInt st) (vrd (VPtr rf fo) (VPtr rp po) (VInt st) VNull (VInt 0) k' s' (h ++ nones j) m' []))).
    { cbn [fbody prog_sbdf_va_read]. unfold vrd, fr. cbn [app].
      eapply bsE_seq; [eapply bsE_decl0; evw; reflexivity|].
      eapply bsE_seq; [eapply bsE_if; [evw; reflexivity|reflexivity|apply bsE_skip]|].
      eapply bsE_seq; [eapply bsE_expr; evw; reflexivity|].
      eapply bsE_seq; [eapply bsE_call; [reflexivity|evw; reflexivity|reflexivity|exact B|evw; reflexivity]|].
      eapply bsE_seq; [eapply bsE_if; [evw; reflexivity|cbn [truth]; replace (st =? 0) with false by lia; reflexivity|eapply bsE_expr; evw; reflexivity]|]. eapply bsE_return. evw. reflexivity. }
    destruct (bsE_sound _ _ _ _ BV) as (f0 & F). exists f0. intros f Hf. exists st. eexists. split; [apply F; exact Hf|]. split; [exact Pf|]. split.
    + intros Hk. specialize (MT Hk). destruct (Va.va_read false None sx) as [[va sM]|eM]; [destruct MT as (MT & _); unfold SBDF_OK in MT; lia|exact MT].
    + split; [right; split; [exact Hneg|]; split; [reflexivity|]; exists j; reflexivity|]. intros X. unfold SBDF_OK in X. lia.
Qed.

(* ================================================================== what was read can be released: once, completely
   (the call starts from the frame a caller gives it: the out-cell holds null, as every caller in the library has it) *)
Theorem obj_read_arr_then_destroy rf rp fo po v k sx h m : Forall byte sx ->
  exists f0, forall f, (f0 <= f)%nat -> exists st fin,
    execE prog_env f (fbody prog_sbdf_obj_read_arr) (ora (VPtr rf fo) v (VPtr rp po) VUndef VUndef VUndef VNull (VInt 0) k sx h m []) = OReturn (VInt st) fin /\
    (st = SBDF_OK ->
       lookup "*array" (vars fin) = Some (VCell (List.length h) 0) /\
       exists k' s' h' nb f1, lookup fail_var (vars fin) = Some (VInt k') /\ lookup strm_var (vars fin) = Some (VBytes s') /\ lookup cells_var (vars fin) = Some (VHeap h') /\
         (1 <= nb)%nat /\ List.length h' = (List.length h + nb)%nat /\
         forall g, (f1 <= g)%nat -> exists fin2,
           callC prog_env g prog_sbdf_obj_destroy [VCell (List.length h) 0] (inb fin) k' s' h' = ONormal fin2 /\
           inb fin2 = inb fin /\ lookup cells_var (vars fin2) = Some (VHeap (h ++ nones nb))).
Proof.
  intros Hs.
  destruct (obj_read_arr_any rf rp fo po v (VInt 0) k sx h m [] Hs) as (st & cn & e & r & so' & k' & sx' & h' & m' & B & Pf & MT & Out & _).
  destruct (bsE_sound _ _ _ _ B) as (f0 & F). exists f0. intros f Hf. exists st. eexists. split; [apply F; exact Hf|].
  intros E. destruct Out as [(_ & -> & _ & newb & -> & Hnb & D)|(Hn & _)]; [|unfold SBDF_OK in E; lia].
  split; [reflexivity|].
  destruct (obj_destroy_source k' sx' m' (h ++ newb) (List.length h) (h ++ nones (List.length newb)) (D h eq_refl)) as (f1 & F1).
  exists k', sx', (h ++ newb), (List.length newb), f1. split; [reflexivity|]. split; [reflexivity|]. split; [reflexivity|]. split; [exact Hnb|]. split; [apply app_length|].
  intros g Hg. destruct (F1 g Hg) as (fin2 & C2 & I2 & H2). exists fin2. split; [exact C2|]. split; [exact I2|exact H2].
Qed.

(* a value array that was read is released by one sbdf_va_destroy: handle and objects, once each *)
Theorem va_rel_destroy k sx m h vb hf : va_rel m h vb hf ->
  exists f0, forall f, (f0 <= f)%nat -> exists fin,
    callC prog_env f prog_sbdf_va_destroy [VCell vb 0] m k sx h = ONormal fin /\ inb fin = m /\ lookup cells_var (vars fin) = Some (VHeap hf).
Proof.
  intros (ty & enc & v1 & o1 & o2 & h1 & h2 & Hv & D1 & D2 & K1 & K2 & ->).
  exact (va_destroy_source k sx m h vb ty enc v1 o1 o2 h1 h2 Hv D1 D2 K1 K2).
Qed.

Theorem va_read_then_destroy rf rp fo po k sx m h : Forall byte sx -> (forall t s2, sx <> 3 :: t :: s2) ->
  exists f0, forall f, (f0 <= f)%nat -> exists st fin,
    callC prog_env f prog_sbdf_va_read [VPtr rf fo; VPtr rp po] m k sx h = OReturn (VInt st) fin /\
    (st = SBDF_OK ->
       lookup "*handle" (vars fin) = Some (VCell (List.length h) 0) /\
       exists h' nb, lookup cells_var (vars fin) = Some (VHeap h') /\ List.length h' = (List.length h + S nb)%nat /\
         forall k' s', exists f1, forall g, (f1 <= g)%nat -> exists fin2,
           callC prog_env g prog_sbdf_va_destroy [VCell (List.length h) 0] (inb fin) k' s' h' = ONormal fin2 /\
           inb fin2 = inb fin /\ lookup cells_var (vars fin2) = Some (VHeap (h ++ nones (S nb)))).
Proof.
  intros Hs H3. destruct (va_read_source rf rp fo po k sx m h Hs H3) as (f0 & F). exists f0. intros f Hf.
  destruct (F f Hf) as (st & fin & C & _ & _ & Out & _). exists st, fin. split; [exact C|]. intros E.
  destruct Out as [(_ & Hh & blk & newb & Hc & VR)|(Hn & _)]; [|unfold SBDF_OK in E; lia].
  split; [exact Hh|]. exists (h ++ Some blk :: newb), (List.length newb). split; [exact Hc|]. split; [rewrite app_length; cbn [List.length]; lia|].
  intros k' s'. destruct (va_rel_destroy k' s' (inb fin) _ _ _ VR) as (f1 & F1). exists f1. intros g Hg. destruct (F1 g Hg) as (fin2 & C2 & I2 & H2).
  exists fin2. split; [exact C2|]. split; [exact I2|]. rewrite H2. reflexivity.
Qed.
