(* ImpFactsSkipS.v - the skipping chain once more, on the frame that keeps the stream apart from the memory (pseudo-variable
   "$strm"; allocation oracle, cell heap and memory carried along untouched): sbdf_skip_objects, sbdf_obj_skip_arr,
   sbdf_obj_skip, sbdf_skip_string, sbdf_read_valuearray_int with a null handle, sbdf_va_skip, sbdf_cs_skip - what
   sbdf_ts_read runs for the columns a subset leaves out.  Ported from ImpFactsSkip*.v. *)
From Sbdf Require Import ImpCall Gen.Prog Gen.Consts Base Prim Obj BaseFacts LeafTie ImpBase ImpFactsCells ImpFactsInt32 ImpFactsRead ImpFactsFrame ImpFactsSkipObj ImpFactsSkipVa ImpFactsReadVa Va Slice SkipLaws ImpFactsCsRead.
From Coq Require Import ZifyBool.
Local Open Scope Z_scope.
Ltac Zify.zify_post_hook ::= Z.div_mod_to_equations.

Ltac evi := cbn [eval lookup update set_var String.eqb Ascii.eqb Bool.eqb vars inb outb truth cast binop_int binop_uint is_shift b2z fst snd negb budget_var fail_var strm_var cells_var stream_of set_stream leaf_call];
  change (0 =? 0) with true; change (1 =? 0) with false; cbn [negb b2z].
Ltac evl := evi.
Ltac evci := cbn [prog_env eval_args callee_init finish_call copy_in copy_out try_update update lookup combine map app String.append
                 String.eqb Ascii.eqb Bool.eqb fparams flocals fbody vars inb outb budget_var fail_var strm_var cells_var cell_token List.length Nat.eqb eval set_var cast
                 stream_of set_stream prog_sbdf_swap_le prog_sbdf_read_int32 prog_sbdf_skip_objects prog_sbdf_obj_skip_arr prog_sbdf_obj_skip prog_sbdf_skip_string].
Ltac evcs := evci.
Ltac no_err := eapply bsE_if; [evi; reflexivity | reflexivity | apply bsE_skip].
Ltac ret_err := eapply bsE_if; [evi; reflexivity | reflexivity | eapply bsE_return; evi; reflexivity].

Ltac evv := cbn [prog_env eval_args callee_init finish_call copy_in copy_out try_update update lookup combine map app String.append
                 String.eqb Ascii.eqb Bool.eqb fparams flocals vars inb outb budget_var fail_var strm_var cells_var cell_token List.length Nat.eqb eval set_var cast
                 truth binop_int b2z fst snd negb stream_of set_stream
                 prog_sbdf_read_int8 prog_sbdf_vt_read prog_sbdf_read_int32 prog_sbdf_obj_skip_arr prog_sbdf_read_valuearray_int prog_sbdf_va_skip].

Ltac evk := cbn [prog_env eval_args callee_init finish_call copy_in copy_out try_update update lookup combine map app String.append
                 String.eqb Ascii.eqb Bool.eqb fparams flocals vars inb outb budget_var fail_var strm_var cells_var cell_token List.length Nat.eqb eval set_var cast
                 truth binop_int b2z fst snd negb stream_of set_stream
                 prog_sbdf_sec_expect prog_sbdf_va_skip prog_sbdf_read_int32 prog_sbdf_skip_string prog_sbdf_cs_skip].

Section SkipS.
Variables (kk : Z) (hh : heap) (mm : list Z).

Definition soS (fr : region) (fo v c pk : Z) (e k z bv : val) (s o : list Z) : state :=
  {| vars := [("f", VPtr fr fo); ("v", VInt v); ("c", VInt c); ("packed_array", VInt pk); ("err", e); ("skip", k); ("sz", z); (budget_var, bv); (fail_var, VInt kk); (strm_var, VBytes s); (cells_var, VHeap hh)]%string; inb := mm; outb := o |}.

(* one length-prefixed element: the three statements that appear in the packed branch and in the loop *)
Definition one_stmtS : stmt :=
  (SSeq (SSeq (SCall (Some "err") "sbdf_read_int32" [(AVal (EVar "f")); (AAddr "skip")]) (SIf (EVar "err") (SReturn (EVar "err")) SSkip))
        (SSeq (SIf (EBin Lt (EVar "skip") (EConst (0))) (SReturn (EBin Sub (EConst 0) (EConst (21)))) SSkip)
              (SIf (ESeekCur (EVar "skip")) (SReturn (EBin Sub (EConst 0) (EConst (4)))) SSkip)))%string.

Lemma one_bsS fr fo v c pk e k z bv s o : Forall byte s ->
  match skip_one_unpacked false s with
  | Ok (_, s') => exists x, bsE prog_env one_stmtS (soS fr fo v c pk e k z bv s o) (ONormal (soS fr fo v c pk (VInt 0) (VInt x) z bv s' o)) /\ Forall byte s' /\ (List.length s' < List.length s)%nat
  | Err st => exists e' k' s', bsE prog_env one_stmtS (soS fr fo v c pk e k z bv s o) (OReturn (VInt st) (soS fr fo v c pk e' k' z bv s' o))
  end.
Proof.
  intros Hs. unfold skip_one_unpacked, rd_bind, rfail, fseek_cur, one_stmtS, soS.
  pose proof (read_int32_bs2 hh (VPtr fr fo) (VPtr ROut 0) k bv kk s mm o I I Hs) as R.
  destruct (read_int32 false s) as [[x s1]|st] eqn:ER.
  - destruct (read_int32_range s x s1 Hs ER) as (Hx & Hl). pose proof (read_int32_bytes s x s1 Hs ER) as Hb.
    destruct (x <? 0) eqn:Ex.
    + do 3 eexists.
      eapply bsE_seq; [eapply bsE_seq; [eapply bsE_call; [reflexivity|evci; reflexivity|reflexivity|exact R|unfold ri2; evci; reflexivity]|no_err]|].
      eapply bsE_seq_ret. eapply bsE_if; [evi; chk7; evi; rewrite Ex; reflexivity|reflexivity|]. eapply bsE_return. evi. chk7. reflexivity.
    + exists x. split.
      * eapply bsE_seq; [eapply bsE_seq; [eapply bsE_call; [reflexivity|evci; reflexivity|reflexivity|exact R|unfold ri2; evci; reflexivity]|no_err]|].
        eapply bsE_seq; [eapply bsE_if; [evi; chk7; evi; rewrite Ex; reflexivity|reflexivity|apply bsE_skip]|].
        eapply bsE_cast_o; [eapply bsE_if; [evi; replace (0 <=? x) with true by lia; reflexivity|reflexivity|apply bsE_skip]|].
        cbn [inb]. rewrite drop_z_skipn by lia. reflexivity.
      * rewrite drop_z_skipn by lia. split; [apply Forall_skipn_byte; exact Hb|]. rewrite skipn_length. lia.
  - destruct R as (c' & s1 & B). pose proof (read_int32_err s st ER). subst st.
    do 3 eexists. eapply bsE_seq_ret. eapply bsE_seq; [eapply bsE_call; [reflexivity|evci; reflexivity|reflexivity|exact B|unfold ri2; evci; reflexivity]|]. ret_err.
Qed.

(* the loop over the elements of an array that is not packed: while (c--) one element *)
Lemma skip_loopS fr fo v pk z bv o : forall fuel c s e k, Forall byte s -> 0 <= c <= int_max -> (List.length s <= List.length fuel)%nat ->
  match rrep fuel c (skip_one_unpacked false) s with
  | Ok (_, s') => exists e' k', bsE prog_env (SWhile (EPostDec "c") one_stmtS) (soS fr fo v c pk e k z bv s o) (ONormal (soS fr fo v (-1) pk e' k' z bv s' o))
  | Err st => exists c' e' k' s', bsE prog_env (SWhile (EPostDec "c") one_stmtS) (soS fr fo v c pk e k z bv s o) (OReturn (VInt st) (soS fr fo v c' pk e' k' z bv s' o))
  end.
Proof.
  induction fuel as [|b fuel IH]; intros c s e k Hs Hc Hl.
  - destruct s; [|cbn [List.length] in Hl; lia]. cbn [rrep]. destruct (c <=? 0) eqn:Ec.
    + assert (c = 0) by lia. subst c. do 2 eexists. eapply bsE_while_f; [unfold soS; evi; unfold decr; chk7; evi; reflexivity|reflexivity].
    + pose proof (one_bsS fr fo v (c - 1) pk e k z bv [] o Hs) as O. change (skip_one_unpacked false []) with (@Err (unit * ist) SBDF_ERROR_IO) in O.
      destruct O as (e' & k' & s' & B). do 4 eexists.
      eapply bsE_while_ret; [unfold soS; evi; unfold decr; chk7; evi; reflexivity|cbn [truth]; replace (c =? 0) with false by lia; reflexivity|exact B].
  - cbn [rrep]. destruct (c <=? 0) eqn:Ec.
    + assert (c = 0) by lia. subst c. do 2 eexists. eapply bsE_while_f; [unfold soS; evi; unfold decr; chk7; evi; reflexivity|reflexivity].
    + pose proof (one_bsS fr fo v (c - 1) pk e k z bv s o Hs) as O.
      destruct (skip_one_unpacked false s) as [[u s1]|st].
      * destruct O as (x & B & Hb & Hl1).
        specialize (IH (c - 1) s1 (VInt 0) (VInt x) Hb ltac:(lia) ltac:(cbn [List.length] in Hl; lia)).
        destruct (rrep fuel (c - 1) (skip_one_unpacked false) s1) as [[l s2]|st].
        -- destruct IH as (e' & k' & B2). do 2 eexists.
           eapply bsE_while_t; [unfold soS; evi; unfold decr; chk7; evi; reflexivity|cbn [truth]; replace (c =? 0) with false by lia; reflexivity|exact B|exact B2].
        -- destruct IH as (c' & e' & k' & s' & B2). do 4 eexists.
           eapply bsE_while_t; [unfold soS; evi; unfold decr; chk7; evi; reflexivity|cbn [truth]; replace (c =? 0) with false by lia; reflexivity|exact B|exact B2].
      * destruct O as (e' & k' & s' & B). do 4 eexists.
        eapply bsE_while_ret; [unfold soS; evi; unfold decr; chk7; evi; reflexivity|cbn [truth]; replace (c =? 0) with false by lia; reflexivity|exact B].
Qed.


(* sbdf_skip_objects: the model's skip_objects on every stream, for every type id, count and flag *)
Lemma skip_objects_bsS fr fo v c pk e k z bv s o : Forall byte s -> int_min <= c <= int_max ->
  match skip_objects false v c (negb (pk =? 0)) s with
  | Ok (_, s') => exists c' e' k' z', bsE prog_env (fbody prog_sbdf_skip_objects) (soS fr fo v c pk e k z bv s o) (OReturn (VInt SBDF_OK) (soS fr fo v c' pk e' k' z' bv s' o))
  | Err st => exists c' e' k' z' s', bsE prog_env (fbody prog_sbdf_skip_objects) (soS fr fo v c pk e k z bv s o) (OReturn (VInt st) (soS fr fo v c' pk e' k' z' bv s' o))
  end.
Proof.
  intros Hs Hc. unfold skip_objects. cbn [fbody prog_sbdf_skip_objects]. fold one_stmtS.
  assert (NF : forall X oo, bsE prog_env X (soS fr fo v c pk e k z bv s o) oo ->
                bsE prog_env (SSeq (SIf (ELNot (EVar "f")) (SReturn (EBin Sub (EConst 0) (EConst (1)))) SSkip) X) (soS fr fo v c pk e k z bv s o) oo).
  { intros X oo B. eapply bsE_seq; [eapply bsE_if; [unfold soS; evl; reflexivity|reflexivity|apply bsE_skip]|exact B]. }
  destruct (c <? 0) eqn:Ec.
  - do 5 eexists. apply NF. eapply bsE_seq_ret. eapply bsE_if; [unfold soS; evl; chk7; evl; rewrite Ec; reflexivity|reflexivity|].
    eapply bsE_return. unfold soS. evl. chk7. reflexivity.
  - assert (C0 : forall X oo, bsE prog_env X (soS fr fo v c pk e k z bv s o) oo ->
                bsE prog_env (SSeq (SIf (EBin Lt (EVar "c") (EConst (0))) (SReturn (EBin Sub (EConst 0) (EConst (21)))) SSkip) X) (soS fr fo v c pk e k z bv s o) oo).
    { intros X oo B. eapply bsE_seq; [eapply bsE_if; [unfold soS; evl; chk7; evl; rewrite Ec; reflexivity|reflexivity|apply bsE_skip]|exact B]. }
    pose proof (tie_is_arr v) as TA. destruct (is_arr v) eqn:EA.
    + destruct (pk =? 0) eqn:Ep; cbn [negb].
      * (* the loop *)
        unfold rd_bind, rrepeat, rret.
        pose proof (skip_loopS fr fo v pk z bv o s c s VUndef VUndef Hs ltac:(lia) ltac:(lia)) as L.
        destruct (rrep s c (skip_one_unpacked false) s) as [[l s2]|st].
        -- destruct L as (e' & k' & B). do 4 eexists. apply NF. apply C0.
           eapply bsE_seq; [|eapply bsE_return; unfold soS; evl; reflexivity].
           eapply bsE_if; [unfold soS; evl; unfold Leaf.gen_sbdf_ti_is_arr in *; rewrite TA; reflexivity|reflexivity|].
           eapply bsE_seq; [eapply bsE_decl0; unfold soS; evl; reflexivity|]. eapply bsE_seq; [eapply bsE_decl0; unfold soS; evl; reflexivity|].
           eapply bsE_if; [unfold soS; evl; reflexivity|cbn [truth]; rewrite Ep; reflexivity|exact B].
        -- destruct L as (c' & e' & k' & s' & B). do 5 eexists. apply NF. apply C0.
           eapply bsE_seq_ret.
           eapply bsE_if; [unfold soS; evl; rewrite TA; reflexivity|reflexivity|].
           eapply bsE_seq; [eapply bsE_decl0; unfold soS; evl; reflexivity|]. eapply bsE_seq; [eapply bsE_decl0; unfold soS; evl; reflexivity|].
           eapply bsE_if; [unfold soS; evl; reflexivity|cbn [truth]; rewrite Ep; reflexivity|exact B].
      * pose proof (one_bsS fr fo v c pk VUndef VUndef z bv s o Hs) as O.
        destruct (skip_one_unpacked false s) as [[u s1]|st].
        -- destruct O as (x & B & _). destruct u. do 4 eexists. apply NF. apply C0.
           eapply bsE_seq; [|eapply bsE_return; unfold soS; evl; reflexivity].
           eapply bsE_if; [unfold soS; evl; rewrite TA; reflexivity|reflexivity|].
           eapply bsE_seq; [eapply bsE_decl0; unfold soS; evl; reflexivity|]. eapply bsE_seq; [eapply bsE_decl0; unfold soS; evl; reflexivity|].
           eapply bsE_if; [unfold soS; evl; reflexivity|cbn [truth]; rewrite Ep; reflexivity|exact B].
        -- destruct O as (e' & k' & s' & B). do 5 eexists. apply NF. apply C0.
           eapply bsE_seq_ret.
           eapply bsE_if; [unfold soS; evl; rewrite TA; reflexivity|reflexivity|].
           eapply bsE_seq; [eapply bsE_decl0; unfold soS; evl; reflexivity|]. eapply bsE_seq; [eapply bsE_decl0; unfold soS; evl; reflexivity|].
           eapply bsE_if; [unfold soS; evl; reflexivity|cbn [truth]; rewrite Ep; reflexivity|exact B].
    + (* fixed-size elements: one seek over count * size *)
      pose proof (tie_packed_size v) as TP. cbv zeta.
      assert (SZ : -3 <= usize v <= 16). { unfold usize, SBDF_ERROR_UNKNOWN_TYPEID. repeat match goal with |- context [if ?b then _ else _] => destruct b end; lia. }
      destruct (usize v <? 0) eqn:E1; [|destruct (usize v =? 0) eqn:E2].
      * do 5 eexists. apply NF. apply C0. eapply bsE_seq_ret.
        eapply bsE_if; [unfold soS; evl; rewrite TA; reflexivity|reflexivity|].
        eapply bsE_seq; [eapply bsE_decl1; [unfold soS; evl; rewrite TP; reflexivity|evl; reflexivity]|].
        eapply bsE_seq_ret. eapply bsE_if; [evl; chk7; evl; rewrite E1; reflexivity|reflexivity|]. eapply bsE_return. evl. reflexivity.
      * do 5 eexists. apply NF. apply C0. eapply bsE_seq_ret.
        eapply bsE_if; [unfold soS; evl; rewrite TA; reflexivity|reflexivity|].
        eapply bsE_seq; [eapply bsE_decl1; [unfold soS; evl; rewrite TP; reflexivity|evl; reflexivity]|].
        eapply bsE_seq_ret. eapply bsE_if; [evl; chk7; evl; rewrite E1; reflexivity|reflexivity|].
        eapply bsE_if; [evl; chk7; evl; rewrite E2; reflexivity|reflexivity|]. eapply bsE_return. evl. chk7. reflexivity.
      * unfold fseek_cur. replace (c * usize v <? 0) with false by nia. do 4 eexists. apply NF. apply C0.
        eapply bsE_seq; [|eapply bsE_return; evl; reflexivity].
        eapply bsE_if; [unfold soS; evl; rewrite TA; reflexivity|reflexivity|].
        eapply bsE_seq; [eapply bsE_decl1; [unfold soS; evl; rewrite TP; reflexivity|evl; reflexivity]|].
        eapply bsE_seq; [eapply bsE_if; [evl; chk7; evl; rewrite E1; reflexivity|reflexivity|eapply bsE_if; [evl; chk7; evl; rewrite E2; reflexivity|reflexivity|apply bsE_skip]]|].
        eapply bsE_cast_o; [eapply bsE_if; [evl; unfold Imp.in_int; replace ((int_min <=? c) && (c <=? int_max)) with true by lia;
             replace ((int_min <=? usize v) && (usize v <=? int_max)) with true by (unfold int_min, int_max; lia); cbn [andb];
             replace (0 <=? c * usize v) with true by nia; reflexivity|reflexivity|apply bsE_skip]|].
        cbn [inb]. rewrite drop_z_skipn by nia. reflexivity.
Qed.


Definition osaS (fr : region) (fo vt : Z) (cn e r bv : val) (s o : list Z) : state :=
  {| vars := [("f", VPtr fr fo); ("vt", VInt vt); ("count", cn); ("err", e); ("$ret", r); (budget_var, bv); (fail_var, VInt kk); (strm_var, VBytes s); (cells_var, VHeap hh)]%string; inb := mm; outb := o |}.

(* sbdf_obj_skip_arr: the count, then the packed elements *)
Lemma obj_skip_arr_bsS fr fo vt cn e r bv s o : Forall byte s ->
  match obj_skip_arr false vt s with
  | Ok (_, s') => exists cn' e' r', bsE prog_env (fbody prog_sbdf_obj_skip_arr) (osaS fr fo vt cn e r bv s o) (OReturn (VInt SBDF_OK) (osaS fr fo vt cn' e' r' bv s' o))
  | Err st => exists cn' e' r' s', bsE prog_env (fbody prog_sbdf_obj_skip_arr) (osaS fr fo vt cn e r bv s o) (OReturn (VInt st) (osaS fr fo vt cn' e' r' bv s' o))
  end.
Proof.
  intros Hs. unfold obj_skip_arr, rd_bind. cbn [fbody prog_sbdf_obj_skip_arr]. unfold osaS.
  pose proof (read_int32_bs2 hh (VPtr fr fo) (VPtr ROut 0) VUndef bv kk s mm o I I Hs) as R.
  destruct (read_int32 false s) as [[x s1]|st] eqn:ER.
  - destruct (read_int32_range s x s1 Hs ER) as (Hx & _). pose proof (read_int32_bytes s x s1 Hs ER) as Hb.
    pose proof (skip_objects_bsS fr fo vt x 1 VUndef VUndef VUndef bv s1 o Hb Hx) as SO. change (negb (1 =? 0)) with true in SO.
    destruct (skip_objects false vt x true s1) as [[u s2]|st].
    + destruct SO as (c' & e' & k' & z' & B). do 3 eexists.
      eapply bsE_seq; [eapply bsE_seq; [eapply bsE_decl0; evi; reflexivity|eapply bsE_seq; [eapply bsE_decl0; evi; reflexivity|
        eapply bsE_call; [reflexivity|evcs; reflexivity|reflexivity|exact R|unfold ri2; evcs; reflexivity]]]|].
      eapply bsE_seq; [no_err|].
      eapply bsE_seq; [eapply bsE_call; [reflexivity|evcs; reflexivity|reflexivity|exact B|unfold soS; evcs; reflexivity]|].
      eapply bsE_return. evi. reflexivity.
    + destruct SO as (c' & e' & k' & z' & s' & B). do 4 eexists.
      eapply bsE_seq; [eapply bsE_seq; [eapply bsE_decl0; evi; reflexivity|eapply bsE_seq; [eapply bsE_decl0; evi; reflexivity|
        eapply bsE_call; [reflexivity|evcs; reflexivity|reflexivity|exact R|unfold ri2; evcs; reflexivity]]]|].
      eapply bsE_seq; [no_err|].
      eapply bsE_seq; [eapply bsE_call; [reflexivity|evcs; reflexivity|reflexivity|exact B|unfold soS; evcs; reflexivity]|].
      eapply bsE_return. evi. reflexivity.
  - destruct R as (c' & s1 & B). pose proof (read_int32_err s st ER). subst st.
    do 4 eexists.
    eapply bsE_seq; [eapply bsE_seq; [eapply bsE_decl0; evi; reflexivity|eapply bsE_seq; [eapply bsE_decl0; evi; reflexivity|
        eapply bsE_call; [reflexivity|evcs; reflexivity|reflexivity|exact B|unfold ri2; evcs; reflexivity]]]|].
    eapply bsE_seq_ret. ret_err.
Qed.

Definition os1S (fr : region) (fo vt : Z) (r bv : val) (s o : list Z) : state :=
  {| vars := [("f", VPtr fr fo); ("vt", VInt vt); ("$ret", r); (budget_var, bv); (fail_var, VInt kk); (strm_var, VBytes s); (cells_var, VHeap hh)]%string; inb := mm; outb := o |}.

(* sbdf_obj_skip: one element that is not packed *)
Lemma obj_skip_bsS fr fo vt r bv s o : Forall byte s ->
  match obj_skip false vt s with
  | Ok (_, s') => exists r', bsE prog_env (fbody prog_sbdf_obj_skip) (os1S fr fo vt r bv s o) (OReturn (VInt SBDF_OK) (os1S fr fo vt r' bv s' o))
  | Err st => exists r' s', bsE prog_env (fbody prog_sbdf_obj_skip) (os1S fr fo vt r bv s o) (OReturn (VInt st) (os1S fr fo vt r' bv s' o))
  end.
Proof.
  intros Hs. unfold obj_skip. cbn [fbody prog_sbdf_obj_skip]. unfold os1S.
  pose proof (skip_objects_bsS fr fo vt 1 0 VUndef VUndef VUndef bv s o Hs ltac:(unfold int_min, int_max; lia)) as SO. change (negb (0 =? 0)) with false in SO.
  destruct (skip_objects false vt 1 false s) as [[u s2]|st].
  - destruct SO as (c' & e' & k' & z' & B). eexists.
    eapply bsE_seq; [eapply bsE_call; [reflexivity|evcs; reflexivity|reflexivity|exact B|unfold soS; evcs; reflexivity]|].
    eapply bsE_return. evi. reflexivity.
  - destruct SO as (c' & e' & k' & z' & s' & B). do 2 eexists.
    eapply bsE_seq; [eapply bsE_call; [reflexivity|evcs; reflexivity|reflexivity|exact B|unfold soS; evcs; reflexivity]|].
    eapply bsE_return. evi. reflexivity.
Qed.

(* a failed skip reports a negative status (the callers test it with "if (err)") *)

(* ---- sbdf_skip_string ---- *)
Definition skS (fr : region) (fo : Z) (e l bv : val) (s o : list Z) : state :=
  {| vars := [("f"%string, VPtr fr fo); ("error"%string, e); ("l"%string, l); (budget_var, bv); (fail_var, VInt kk); (strm_var, VBytes s); (cells_var, VHeap hh)]; inb := mm; outb := o |}.



Lemma skip_string_bsS fr fo e l bv s o : Forall byte s ->
  match skip_string false s with
  | Ok (_, s') => exists e' l', bsE prog_env (fbody prog_sbdf_skip_string) (skS fr fo e l bv s o) (OReturn (VInt SBDF_OK) (skS fr fo e' l' bv s' o))
  | Err st => exists e' l' s', bsE prog_env (fbody prog_sbdf_skip_string) (skS fr fo e l bv s o) (OReturn (VInt st) (skS fr fo e' l' bv s' o))
  end.
Proof.
  intros Hs. unfold skip_string, rd_bind, rfail, fseek_cur. cbn [fbody prog_sbdf_skip_string]. unfold skS.
  pose proof (read_int32_bs2 hh (VPtr fr fo) (VPtr ROut 0) VUndef bv kk s mm o I I Hs) as R.
  pose proof (read_int32_model s) as M.
  destruct (read_int32 false s) as [[x s1]|st] eqn:ER.
  - assert (Hx : int_min <= x <= int_max).
    { destruct s as [|b0 [|b1 [|b2 [|b3 r]]]]; try discriminate. inversion M. subst.
      apply de32_range; [|reflexivity]. inversion Hs as [|? ? G0 Q0]. inversion Q0 as [|? ? G1 Q1]. inversion Q1 as [|? ? G2 Q2]. inversion Q2 as [|? ? G3 Q3].
      subst. constructor; [exact G0|]. constructor; [exact G1|]. constructor; [exact G2|]. constructor; [exact G3|constructor]. }
    destruct (x <? 0) eqn:Ex.
    + do 3 eexists. eapply bsE_seq; [eapply bsE_seq; [eapply bsE_decl0; evi; reflexivity|eapply bsE_decl0; evi; reflexivity]|].
      eapply bsE_seq; [eapply bsE_seq; [eapply bsE_call; [reflexivity|evci; reflexivity|reflexivity|exact R|unfold ri2; evci; reflexivity]|no_err]|].
      eapply bsE_seq_ret. eapply bsE_if; [evi; chk7; evi; rewrite Ex; reflexivity|reflexivity|]. eapply bsE_return. evi. chk7. reflexivity.
    + do 2 eexists. eapply bsE_seq; [eapply bsE_seq; [eapply bsE_decl0; evi; reflexivity|eapply bsE_decl0; evi; reflexivity]|].
      eapply bsE_seq; [eapply bsE_seq; [eapply bsE_call; [reflexivity|evci; reflexivity|reflexivity|exact R|unfold ri2; evci; reflexivity]|no_err]|].
      eapply bsE_seq; [eapply bsE_if; [evi; chk7; evi; rewrite Ex; reflexivity|reflexivity|apply bsE_skip]|].
      eapply bsE_seq; [eapply bsE_if; [evi; replace (0 <=? x) with true by lia; reflexivity|reflexivity|apply bsE_skip]|].
      eapply bsE_cast_o; [eapply bsE_return; evi; chk7; reflexivity|]. cbn [inb]. rewrite drop_z_skipn by lia. reflexivity.
  - destruct R as (c' & s1 & B). pose proof (read_int32_err s st ER). subst st.
    do 3 eexists. eapply bsE_seq; [eapply bsE_seq; [eapply bsE_decl0; evi; reflexivity|eapply bsE_decl0; evi; reflexivity]|].
    eapply bsE_seq_ret. eapply bsE_seq; [eapply bsE_call; [reflexivity|evci; reflexivity|reflexivity|exact B|unfold ri2; evci; reflexivity]|]. ret_err.
Qed.








(* ---- sbdf_read_valuearray_int with a null handle, sbdf_va_skip ---- *)
Record rvlS := { l_bufS : val; l_eS : val; l_errS : val; l_psS : val; l_vS : val; l_vtS : val }.
Definition rvS (fr : region) (fo : Z) (l : rvlS) (sh bv : val) (s o : list Z) : state :=
  {| vars := [("file", VPtr fr fo); ("handle", VNull); ("buf", l_bufS l); ("e", l_eS l); ("err", l_errS l); ("packed_size", l_psS l); ("v", l_vS l); ("vt", l_vtS l);
              ("$a1", VUndef); ("$a2", VUndef); ("$a3", VUndef); ("*handle", sh); (budget_var, bv); (fail_var, VInt kk); (strm_var, VBytes s); (cells_var, VHeap hh)]%string; inb := mm; outb := o |}.

Definition mkS (b e r p v t : val) : rvlS := Build_rvlS b e r p v t.

(* the function after its two header reads and the allocation it makes for a handle *)
Definition disp_ofS (b : stmt) : stmt := match b with SSeq _ (SSeq _ (SSeq _ (SSeq _ (SSeq _ (SSeq _ d))))) => d | _ => SSkip end.

Lemma rvi_prefixS fr fo l sh bv e t s2 o oo : Forall byte (e :: t :: s2) ->
  bsE prog_env (disp_ofS (fbody prog_sbdf_read_valuearray_int)) (rvS fr fo (mkS (l_bufS l) (VInt e) (VInt 0) (l_psS l) (l_vS l) (VInt t)) sh bv s2 o) oo ->
  bsE prog_env (fbody prog_sbdf_read_valuearray_int) (rvS fr fo l sh bv (e :: t :: s2) o) oo.
Proof.
  intros Hs B. destruct l as [b0 e0 r0 p0 v0 t0]. cbn [fbody prog_sbdf_read_valuearray_int disp_ofS] in *. unfold rvS, mkS in *. cbn [l_bufS l_eS l_errS l_psS l_vS l_vtS] in *.
  destruct (byte_tail _ _ Hs) as (He & Hs1).
  pose proof (read_int8_bs2 bv kk hh mm o (VPtr fr fo) (VPtr ROut 0) VUndef VUndef (e :: t :: s2) I I Hs) as R8. cbv iota in R8.
  pose proof (read_int8_bs2 bv kk hh mm o (VPtr fr fo) (VPtr ROut 0) VUndef VUndef (t :: s2) I I Hs1) as R8b. cbv iota in R8b.
  pose proof (vt_read_bs2 bv kk hh mm o (VPtr fr fo) (VPtr ROut 0) VUndef VUndef (t :: s2) I I Hs1) as VT. cbv iota in VT. destruct VT as (e' & VT).
  eapply bsE_seq; [eapply bsE_decl0; evv; reflexivity|]. eapply bsE_seq; [eapply bsE_decl0; evv; reflexivity|]. eapply bsE_seq; [eapply bsE_decl0; evv; reflexivity|].
  eapply bsE_seq; [eapply bsE_seq; [eapply bsE_call; [reflexivity|evv; reflexivity|reflexivity|exact R8|unfold rd8s, ImpFactsCells.fr; evv; reflexivity]|no_err]|].
  eapply bsE_seq; [eapply bsE_seq; [eapply bsE_call; [reflexivity|evv; reflexivity|reflexivity|exact VT|unfold vrs, ImpFactsCells.fr; evv; reflexivity]|no_err]|].
  eapply bsE_seq; [eapply bsE_if; [evv; reflexivity|reflexivity|apply bsE_skip]|]. exact B.
Qed.

Ltac nohandleS := eapply bsE_if; [evv; reflexivity|reflexivity|].
Ltac unrvS := cbn [fbody prog_sbdf_read_valuearray_int disp_ofS]; unfold rvS, mkS; cbn [l_bufS l_eS l_errS l_psS l_vS l_vtS].

(* plain arrays *)
Ltac iferrS H := eapply bsE_if; [evv; reflexivity|cbn [truth]; replace (_ =? 0) with false by (pose proof H; lia); reflexivity|].
Ltac callskipS A := eapply bsE_call; [reflexivity|evv; reflexivity|reflexivity|exact A|unfold osaS; evv; reflexivity].
Ltac callriS R := eapply bsE_call; [reflexivity|evv; reflexivity|reflexivity|exact R|unfold ri2; evv; reflexivity].

(* plain arrays *)
Lemma disp_plainS fr fo b p v sh bv t s o : Forall byte s ->
  match obj_skip_arr false t s with
  | Ok (_, s') => exists l', bsE prog_env (disp_ofS (fbody prog_sbdf_read_valuearray_int)) (rvS fr fo (mkS b (VInt 1) (VInt 0) p v (VInt t)) sh bv s o) (OReturn (VInt SBDF_OK) (rvS fr fo l' sh bv s' o))
  | Err st => exists l' s', bsE prog_env (disp_ofS (fbody prog_sbdf_read_valuearray_int)) (rvS fr fo (mkS b (VInt 1) (VInt 0) p v (VInt t)) sh bv s o) (OReturn (VInt st) (rvS fr fo l' sh bv s' o))
  end.
Proof.
  intros Hs. pose proof (obj_skip_arr_bsS fr fo t VUndef VUndef VUndef bv s o Hs) as A.
  destruct (obj_skip_arr false t s) as [[u s']|st] eqn:E.
  - destruct A as (c' & e' & r' & A). eexists (mkS _ _ _ _ _ _). unrvS.
    eapply bsE_seq; [|eapply bsE_return; evv; reflexivity].
    eapply bsE_if; [evv; reflexivity|reflexivity|].
    eapply bsE_seq; [nohandleS; callskipS A|].
    eapply bsE_if; [evv; reflexivity|reflexivity|apply bsE_skip].
  - destruct A as (c' & e' & r' & s' & A). pose proof (obj_skip_arr_neg t s st E) as N. eexists (mkS _ _ _ _ _ _), _. unrvS.
    eapply bsE_seq_ret. eapply bsE_if; [evv; reflexivity|reflexivity|].
    eapply bsE_seq; [nohandleS; callskipS A|].
    iferrS N. eapply bsE_seq; [nohandleS; apply bsE_skip|]. eapply bsE_return. evv. reflexivity.
Qed.

(* run-length arrays: the row count, the run lengths (a byte array), the values *)
Lemma disp_rleS fr fo b p v sh bv t s o : Forall byte s ->
  match (x <-r read_int32 false ;; if x <? 0 then rfail SBDF_ERROR_INVALID_SIZE else obj_skip_arr false SBDF_BYTETYPEID ;;r obj_skip_arr false t) s with
  | Ok (_, s') => exists l', bsE prog_env (disp_ofS (fbody prog_sbdf_read_valuearray_int)) (rvS fr fo (mkS b (VInt 2) (VInt 0) p v (VInt t)) sh bv s o) (OReturn (VInt SBDF_OK) (rvS fr fo l' sh bv s' o))
  | Err st => exists l' s', bsE prog_env (disp_ofS (fbody prog_sbdf_read_valuearray_int)) (rvS fr fo (mkS b (VInt 2) (VInt 0) p v (VInt t)) sh bv s o) (OReturn (VInt st) (rvS fr fo l' sh bv s' o))
  end.
Proof.
  intros Hs. unfold rd_bind, rfail.
  pose proof (read_int32_bs2 hh (VPtr fr fo) (VPtr ROut 0) VUndef bv kk s mm o I I Hs) as R.
  destruct (read_int32 false s) as [[x s1]|st] eqn:ER.
  - destruct (read_int32_range s x s1 Hs ER) as (Hx & _). pose proof (read_int32_bytes s x s1 Hs ER) as Hb.
    destruct (x <? 0) eqn:Ex.
    + eexists (mkS _ _ _ _ _ _), _. unrvS.
      eapply bsE_seq_ret. eapply bsE_if; [evv; reflexivity|reflexivity|]. eapply bsE_if; [evv; reflexivity|reflexivity|].
      eapply bsE_seq; [eapply bsE_decl0; evv; reflexivity|]. eapply bsE_seq; [callriS R|].
      eapply bsE_seq; [eapply bsE_if; [evv; reflexivity|reflexivity|apply bsE_skip]|].
      eapply bsE_seq_ret. eapply bsE_if; [evv; chk7; evv; rewrite Ex; reflexivity|reflexivity|].
      eapply bsE_seq; [nohandleS; apply bsE_skip|]. eapply bsE_return. evv. chk7. reflexivity.
    + pose proof (obj_skip_arr_bsS fr fo SBDF_BYTETYPEID VUndef VUndef VUndef bv s1 o Hb) as A1.
      destruct (obj_skip_arr false SBDF_BYTETYPEID s1) as [[u s2]|st] eqn:E1.
      * destruct A1 as (c1 & e1 & r1 & A1).
        pose proof (obj_skip_arr_bytes _ s1 u s2 Hb E1) as Hb2.
        pose proof (obj_skip_arr_bsS fr fo t VUndef VUndef VUndef bv s2 o Hb2) as A2.
        destruct (obj_skip_arr false t s2) as [[u2 s3]|st] eqn:E2.
        -- destruct A2 as (c2 & e2 & r2 & A2). eexists (mkS _ _ _ _ _ _). unrvS.
           eapply bsE_seq; [|eapply bsE_return; evv; reflexivity].
           eapply bsE_if; [evv; reflexivity|reflexivity|]. eapply bsE_if; [evv; reflexivity|reflexivity|].
           eapply bsE_seq; [eapply bsE_decl0; evv; reflexivity|]. eapply bsE_seq; [callriS R|].
           eapply bsE_seq; [eapply bsE_if; [evv; reflexivity|reflexivity|apply bsE_skip]|].
           eapply bsE_seq; [eapply bsE_if; [evv; chk7; evv; rewrite Ex; reflexivity|reflexivity|apply bsE_skip]|].
           eapply bsE_seq; [nohandleS; callskipS A1|].
           eapply bsE_seq; [eapply bsE_if; [evv; reflexivity|reflexivity|apply bsE_skip]|].
           eapply bsE_seq; [nohandleS; callskipS A2|].
           eapply bsE_if; [evv; reflexivity|reflexivity|apply bsE_skip].
        -- destruct A2 as (c2 & e2 & r2 & s' & A2). pose proof (obj_skip_arr_neg t s2 st E2) as N. eexists (mkS _ _ _ _ _ _), _. unrvS.
           eapply bsE_seq_ret.
           eapply bsE_if; [evv; reflexivity|reflexivity|]. eapply bsE_if; [evv; reflexivity|reflexivity|].
           eapply bsE_seq; [eapply bsE_decl0; evv; reflexivity|]. eapply bsE_seq; [callriS R|].
           eapply bsE_seq; [eapply bsE_if; [evv; reflexivity|reflexivity|apply bsE_skip]|].
           eapply bsE_seq; [eapply bsE_if; [evv; chk7; evv; rewrite Ex; reflexivity|reflexivity|apply bsE_skip]|].
           eapply bsE_seq; [nohandleS; callskipS A1|].
           eapply bsE_seq; [eapply bsE_if; [evv; reflexivity|reflexivity|apply bsE_skip]|].
           eapply bsE_seq; [nohandleS; callskipS A2|].
           iferrS N. eapply bsE_seq; [nohandleS; apply bsE_skip|]. eapply bsE_return. evv. reflexivity.
      * destruct A1 as (c1 & e1 & r1 & s' & A1). pose proof (obj_skip_arr_neg _ s1 st E1) as N. eexists (mkS _ _ _ _ _ _), _. unrvS.
        eapply bsE_seq_ret.
        eapply bsE_if; [evv; reflexivity|reflexivity|]. eapply bsE_if; [evv; reflexivity|reflexivity|].
        eapply bsE_seq; [eapply bsE_decl0; evv; reflexivity|]. eapply bsE_seq; [callriS R|].
        eapply bsE_seq; [eapply bsE_if; [evv; reflexivity|reflexivity|apply bsE_skip]|].
        eapply bsE_seq; [eapply bsE_if; [evv; chk7; evv; rewrite Ex; reflexivity|reflexivity|apply bsE_skip]|].
        eapply bsE_seq; [nohandleS; callskipS A1|].
        eapply bsE_seq_ret. iferrS N. eapply bsE_seq; [nohandleS; apply bsE_skip|]. eapply bsE_return. evv. reflexivity.
  - destruct R as (c' & s1 & B). pose proof (read_int32_err s st ER). subst st.
    eexists (mkS _ _ _ _ _ _), _. unrvS.
    eapply bsE_seq_ret. eapply bsE_if; [evv; reflexivity|reflexivity|]. eapply bsE_if; [evv; reflexivity|reflexivity|].
    eapply bsE_seq; [eapply bsE_decl0; evv; reflexivity|]. eapply bsE_seq; [callriS B|].
    eapply bsE_seq_ret. eapply bsE_if; [evv; reflexivity|reflexivity|]. eapply bsE_seq; [nohandleS; apply bsE_skip|]. eapply bsE_return. evv. reflexivity.
Qed.

(* bit arrays: the row count, then (rows + 7) / 8 bytes *)
Lemma disp_bitS fr fo b p v sh bv t s o : Forall byte s ->
  match (x <-r read_int32 false ;; if x <? 0 then rfail SBDF_ERROR_INVALID_SIZE else fseek_cur (bit_packed_size x)) s with
  | Ok (_, s') => exists l', bsE prog_env (disp_ofS (fbody prog_sbdf_read_valuearray_int)) (rvS fr fo (mkS b (VInt 3) (VInt 0) p v (VInt t)) sh bv s o) (OReturn (VInt SBDF_OK) (rvS fr fo l' sh bv s' o))
  | Err st => exists l' s', bsE prog_env (disp_ofS (fbody prog_sbdf_read_valuearray_int)) (rvS fr fo (mkS b (VInt 3) (VInt 0) p v (VInt t)) sh bv s o) (OReturn (VInt st) (rvS fr fo l' sh bv s' o))
  end.
Proof.
  intros Hs. unfold rd_bind, rfail, fseek_cur, bit_packed_size.
  pose proof (read_int32_bs2 hh (VPtr fr fo) (VPtr ROut 0) VUndef bv kk s mm o I I Hs) as R.
  destruct (read_int32 false s) as [[x s1]|st] eqn:ER.
  - destruct (read_int32_range s x s1 Hs ER) as (Hx & _).
    destruct (x <? 0) eqn:Ex.
    + eexists (mkS _ _ _ _ _ _), _. unrvS.
      eapply bsE_seq_ret. eapply bsE_if; [evv; reflexivity|reflexivity|]. eapply bsE_if; [evv; reflexivity|reflexivity|]. eapply bsE_if; [evv; reflexivity|reflexivity|].
      eapply bsE_seq; [eapply bsE_decl0; evv; reflexivity|]. eapply bsE_seq; [eapply bsE_decl1; evv; reflexivity|]. eapply bsE_seq; [callriS R|].
      eapply bsE_seq; [eapply bsE_if; [evv; reflexivity|reflexivity|apply bsE_skip]|].
      eapply bsE_seq_ret. eapply bsE_if; [evv; chk7; evv; rewrite Ex; reflexivity|reflexivity|].
      eapply bsE_seq; [nohandleS; apply bsE_skip|]. eapply bsE_return. evv. chk7. reflexivity.
    + assert (Hq : Z.quot x 8 = x / 8) by (apply Z.quot_div_nonneg; lia).
      assert (Hr : Z.rem x 8 = x mod 8) by (apply Z.rem_mod_nonneg; lia).
      replace (x / 8 + (if x mod 8 =? 0 then 0 else 1) <? 0) with false by (destruct (x mod 8 =? 0); lia).
      assert (Hnn : forall y, b2z (negb (negb (b2z (negb (negb (y =? 0))) =? 0))) = (if y =? 0 then 0 else 1)) by (intros y; destruct (y =? 0); reflexivity).
      eexists (mkS _ _ _ _ _ _). unrvS. eapply bsE_cast_o.
      * eapply bsE_seq; [|eapply bsE_return; evv; reflexivity].
        eapply bsE_if; [evv; reflexivity|reflexivity|]. eapply bsE_if; [evv; reflexivity|reflexivity|]. eapply bsE_if; [evv; reflexivity|reflexivity|].
        eapply bsE_seq; [eapply bsE_decl0; evv; reflexivity|]. eapply bsE_seq; [eapply bsE_decl1; evv; reflexivity|]. eapply bsE_seq; [callriS R|].
        eapply bsE_seq; [eapply bsE_if; [evv; reflexivity|reflexivity|apply bsE_skip]|].
        eapply bsE_seq; [eapply bsE_if; [evv; chk7; evv; rewrite Ex; reflexivity|reflexivity|apply bsE_skip]|].
        eapply bsE_seq; [nohandleS; apply bsE_skip|].
        eapply bsE_seq; [eapply bsE_expr; evv; chk7; evv; change (8 =? 0) with false; cbv iota; rewrite Hq; chk7; evv; chk7; evv; change (8 =? 0) with false; cbv iota;
                         rewrite Hr; chk7; evv; rewrite Hnn; rewrite chk_ok by (destruct (x mod 8 =? 0); unfold int_min, int_max in *; lia); evv; reflexivity|].
        eapply bsE_seq; [nohandleS; eapply bsE_if; [evv; replace (0 <=? _) with true by (destruct (x mod 8 =? 0); lia); reflexivity|reflexivity|apply bsE_skip]|].
        eapply bsE_if; [evv; reflexivity|reflexivity|apply bsE_skip].
      * cbn [inb]. rewrite drop_z_skipn by (destruct (x mod 8 =? 0); lia). reflexivity.
  - destruct R as (c' & s1 & B). pose proof (read_int32_err s st ER). subst st.
    eexists (mkS _ _ _ _ _ _), _. unrvS.
    eapply bsE_seq_ret. eapply bsE_if; [evv; reflexivity|reflexivity|]. eapply bsE_if; [evv; reflexivity|reflexivity|]. eapply bsE_if; [evv; reflexivity|reflexivity|].
    eapply bsE_seq; [eapply bsE_decl0; evv; reflexivity|]. eapply bsE_seq; [eapply bsE_decl1; evv; reflexivity|]. eapply bsE_seq; [callriS B|].
    eapply bsE_seq_ret. eapply bsE_if; [evv; reflexivity|reflexivity|]. eapply bsE_seq; [nohandleS; apply bsE_skip|]. eapply bsE_return. evv. reflexivity.
Qed.

(* any other encoding byte *)
Lemma disp_unknownS fr fo b p v sh bv e t s o : 0 <= e <= 255 -> e <> 1 -> e <> 2 -> e <> 3 ->
  exists l', bsE prog_env (disp_ofS (fbody prog_sbdf_read_valuearray_int)) (rvS fr fo (mkS b (VInt e) (VInt 0) p v (VInt t)) sh bv s o)
     (OReturn (VInt SBDF_ERROR_UNKNOWN_VALUEARRAY_ENCODING) (rvS fr fo l' sh bv s o)).
Proof.
  intros He N1 N2 N3. eexists (mkS _ _ _ _ _ _). unrvS.
  eapply bsE_seq_ret.
  eapply bsE_if; [evv; chk7; reflexivity|cbn [truth b2z]; replace (e =? 1) with false by lia; reflexivity|].
  eapply bsE_if; [evv; chk7; reflexivity|cbn [truth b2z]; replace (e =? 2) with false by lia; reflexivity|].
  eapply bsE_if; [evv; chk7; reflexivity|cbn [truth b2z]; replace (e =? 3) with false by lia; reflexivity|].
  eapply bsE_seq; [nohandleS; apply bsE_skip|]. eapply bsE_return. evv. chk7. reflexivity.
Qed.

Lemma rvi_skip_bsS fr fo l sh bv s o : Forall byte s ->
  match va_skip false s with
  | Ok (_, s') => exists l', bsE prog_env (fbody prog_sbdf_read_valuearray_int) (rvS fr fo l sh bv s o) (OReturn (VInt SBDF_OK) (rvS fr fo l' sh bv s' o))
  | Err st => exists l' s', bsE prog_env (fbody prog_sbdf_read_valuearray_int) (rvS fr fo l sh bv s o) (OReturn (VInt st) (rvS fr fo l' sh bv s' o))
  end.
Proof.
  intros Hs. destruct l as [b0 e0 r0 p0 v0 t0]. unfold va_skip, rd_bind, vt_read. cbn [fbody prog_sbdf_read_valuearray_int]. unfold rvS. cbn [l_bufS l_eS l_errS l_psS l_vS l_vtS].
  pose proof (read_int8_bs2 bv kk hh mm o (VPtr fr fo) (VPtr ROut 0) VUndef VUndef s I I Hs) as R8.
  destruct s as [|e s1]; cbn [read_int8].
  { eexists (Build_rvlS _ _ _ _ _ _), _. cbn [l_bufS l_eS l_errS l_psS l_vS l_vtS].
    eapply bsE_seq; [eapply bsE_decl0; evv; reflexivity|]. eapply bsE_seq; [eapply bsE_decl0; evv; reflexivity|]. eapply bsE_seq; [eapply bsE_decl0; evv; reflexivity|].
    eapply bsE_seq_ret. eapply bsE_seq; [eapply bsE_call; [reflexivity|evv; reflexivity|reflexivity|exact R8|unfold rd8s, ImpFactsCells.fr; evv; reflexivity]|]. ret_err. }
  destruct (byte_tail _ _ Hs) as (He & Hs1). cbv iota in R8.
  destruct s1 as [|t s2]; cbn [read_int8].
  { pose proof (vt_read_bs2 bv kk hh mm o (VPtr fr fo) (VPtr ROut 0) VUndef VUndef [] I I Hs1) as VT. cbv iota in VT. destruct VT as (e' & c' & VT).
    eexists (Build_rvlS _ _ _ _ _ _), _. cbn [l_bufS l_eS l_errS l_psS l_vS l_vtS].
    eapply bsE_seq; [eapply bsE_decl0; evv; reflexivity|]. eapply bsE_seq; [eapply bsE_decl0; evv; reflexivity|]. eapply bsE_seq; [eapply bsE_decl0; evv; reflexivity|].
    eapply bsE_seq; [eapply bsE_seq; [eapply bsE_call; [reflexivity|evv; reflexivity|reflexivity|exact R8|unfold rd8s, ImpFactsCells.fr; evv; reflexivity]|no_err]|].
    eapply bsE_seq_ret. eapply bsE_seq; [eapply bsE_call; [reflexivity|evv; reflexivity|reflexivity|exact VT|unfold vrs, ImpFactsCells.fr; evv; reflexivity]|]. ret_err. }
  destruct (byte_tail _ _ Hs1) as (Ht & Hs2).
  pose proof (fun oo => rvi_prefixS fr fo (Build_rvlS b0 e0 r0 p0 v0 t0) sh bv e t s2 o oo Hs) as PRE.
  cbn [fbody prog_sbdf_read_valuearray_int] in PRE. unfold rvS in PRE. cbn [l_bufS l_eS l_errS l_psS l_vS l_vtS] in PRE.
  unfold SBDF_PLAINARRAYENCODINGTYPEID, SBDF_RUNLENGTHENCODINGTYPEID, SBDF_BITARRAYENCODINGTYPEID.
  destruct (e =? 1) eqn:E1.
  { assert (e = 1) by lia. subst e. pose proof (disp_plainS fr fo b0 p0 v0 sh bv t s2 o Hs2) as D.
    destruct (obj_skip_arr false t s2) as [[u s']|st].
    - destruct D as (l' & D). exists l'. apply PRE. exact D.
    - destruct D as (l' & s' & D). exists l', s'. apply PRE. exact D. }
  destruct (e =? 2) eqn:E2.
  { assert (e = 2) by lia. subst e. pose proof (disp_rleS fr fo b0 p0 v0 sh bv t s2 o Hs2) as D. unfold rd_bind in D.
    match type of D with match ?m with _ => _ end => destruct m as [[u s']|st] end.
    - destruct D as (l' & D). exists l'. apply PRE. exact D.
    - destruct D as (l' & s' & D). exists l', s'. apply PRE. exact D. }
  destruct (e =? 3) eqn:E3.
  { assert (e = 3) by lia. subst e. pose proof (disp_bitS fr fo b0 p0 v0 sh bv t s2 o Hs2) as D. unfold rd_bind in D.
    match type of D with match ?m with _ => _ end => destruct m as [[u s']|st] end.
    - destruct D as (l' & D). exists l'. apply PRE. exact D.
    - destruct D as (l' & s' & D). exists l', s'. apply PRE. exact D. }
  destruct (disp_unknownS fr fo b0 p0 v0 sh bv e t s2 o He ltac:(lia) ltac:(lia) ltac:(lia)) as (l' & D).
  unfold rfail. exists l', s2. apply PRE. exact D.
Qed.

Definition vsS (fr : region) (fo : Z) (r bv : val) (s o : list Z) : state :=
  {| vars := [("file", VPtr fr fo); ("$ret", r); (budget_var, bv); (fail_var, VInt kk); (strm_var, VBytes s); (cells_var, VHeap hh)]%string; inb := mm; outb := o |}.

(* sbdf_va_skip *)
Lemma va_skip_bsS fr fo r bv s o : Forall byte s ->
  match va_skip false s with
  | Ok (_, s') => exists r', bsE prog_env (fbody prog_sbdf_va_skip) (vsS fr fo r bv s o) (OReturn (VInt SBDF_OK) (vsS fr fo r' bv s' o))
  | Err st => exists r' s', bsE prog_env (fbody prog_sbdf_va_skip) (vsS fr fo r bv s o) (OReturn (VInt st) (vsS fr fo r' bv s' o))
  end.
Proof.
  intros Hs. cbn [fbody prog_sbdf_va_skip]. unfold vsS.
  pose proof (rvi_skip_bsS fr fo (Build_rvlS VUndef VUndef VUndef VUndef VUndef VUndef) VUndef bv s o Hs) as B.
  destruct (va_skip false s) as [[u s']|st].
  - destruct B as (l' & B). eexists.
    eapply bsE_seq; [eapply bsE_call; [reflexivity|evv; reflexivity|reflexivity|exact B|unfold rvS; evv; reflexivity]|]. eapply bsE_return. evv. reflexivity.
  - destruct B as (l' & s' & B). do 2 eexists.
    eapply bsE_seq; [eapply bsE_call; [reflexivity|evv; reflexivity|reflexivity|exact B|unfold rvS; evv; reflexivity]|]. eapply bsE_return. evv. reflexivity.
Qed.

(* ---- as top-level calls ---- *)

(* ---- sbdf_cs_skip ---- *)
Definition ckS (fr : region) (fo : Z) (e v bv : val) (s o : list Z) : state :=
  {| vars := [("f", VPtr fr fo); ("error", e); ("v", v); (budget_var, bv); (fail_var, VInt kk); (strm_var, VBytes s); (cells_var, VHeap hh)]%string; inb := mm; outb := o |}.

Definition prop_stmtS : stmt :=
  (SSeq (SSeq (SCall (Some "error") "sbdf_skip_string" [(AVal (EVar "f"))]) (SIf (EVar "error") (SReturn (EVar "error")) SSkip))
        (SSeq (SCall (Some "error") "sbdf_va_skip" [(AVal (EVar "f"))]) (SIf (EVar "error") (SReturn (EVar "error")) SSkip)))%string.

Ltac iferrK N := eapply bsE_if; [evk; reflexivity|cbn [truth]; replace (_ =? 0) with false by (pose proof N; lia); reflexivity|].

(* one property: its name, its array *)
Lemma prop_bsS fr fo e v bv s o : Forall byte s ->
  match skip_prop false s with
  | Ok (_, s') => bsE prog_env prop_stmtS (ckS fr fo e v bv s o) (ONormal (ckS fr fo (VInt 0) v bv s' o))
  | Err st => exists e' s', bsE prog_env prop_stmtS (ckS fr fo e v bv s o) (OReturn (VInt st) (ckS fr fo e' v bv s' o))
  end.
Proof.
  intros Hs. unfold skip_prop, rd_bind, prop_stmtS, ckS.
  pose proof (skip_string_bsS fr fo VUndef VUndef bv s o Hs) as S1.
  destruct (skip_string false s) as [[u s1]|st] eqn:E1.
  - destruct S1 as (e1 & l1 & S1). destruct (shr1_skip_string s u s1 Hs E1) as (Hb1 & _).
    pose proof (va_skip_bsS fr fo VUndef bv s1 o Hb1) as S2.
    destruct (va_skip false s1) as [[u2 s2]|st] eqn:E2.
    + destruct S2 as (r2 & S2).
      eapply bsE_seq; [eapply bsE_seq; [eapply bsE_call; [reflexivity|evk; reflexivity|reflexivity|exact S1|unfold skS; evk; reflexivity]|eapply bsE_if; [evk; reflexivity|reflexivity|apply bsE_skip]]|].
      eapply bsE_seq; [eapply bsE_call; [reflexivity|evk; reflexivity|reflexivity|exact S2|unfold vsS; evk; reflexivity]|eapply bsE_if; [evk; reflexivity|reflexivity|apply bsE_skip]].
    + destruct S2 as (r2 & s' & S2). pose proof (neg_va_skip s1 st E2) as N. do 2 eexists.
      eapply bsE_seq; [eapply bsE_seq; [eapply bsE_call; [reflexivity|evk; reflexivity|reflexivity|exact S1|unfold skS; evk; reflexivity]|eapply bsE_if; [evk; reflexivity|reflexivity|apply bsE_skip]]|].
      eapply bsE_seq; [eapply bsE_call; [reflexivity|evk; reflexivity|reflexivity|exact S2|unfold vsS; evk; reflexivity]|]. iferrK N. eapply bsE_return. evk. reflexivity.
  - destruct S1 as (e1 & l1 & s' & S1). pose proof (neg_skip_string s st E1) as N. do 2 eexists.
    eapply bsE_seq_ret. eapply bsE_seq; [eapply bsE_call; [reflexivity|evk; reflexivity|reflexivity|exact S1|unfold skS; evk; reflexivity]|]. iferrK N. eapply bsE_return. evk. reflexivity.
Qed.

(* the loop over the properties: while (v-- > 0) *)
Lemma props_loopS fr fo bv o : forall fuel n s e, Forall byte s -> 0 <= n <= int_max -> (List.length s <= List.length fuel)%nat ->
  match rrep fuel n (skip_prop false) s with
  | Ok (_, s') => exists e', bsE prog_env (SWhile (EBin Gt (EPostDec "v") (EConst 0)) prop_stmtS) (ckS fr fo e (VInt n) bv s o) (ONormal (ckS fr fo e' (VInt (-1)) bv s' o))
  | Err st => exists e' n' s', bsE prog_env (SWhile (EBin Gt (EPostDec "v") (EConst 0)) prop_stmtS) (ckS fr fo e (VInt n) bv s o) (OReturn (VInt st) (ckS fr fo e' (VInt n') bv s' o))
  end.
Proof.
  induction fuel as [|b fuel IH]; intros n s e Hs Hn Hl.
  - destruct s; [|cbn [List.length] in Hl; lia]. cbn [rrep]. destruct (n <=? 0) eqn:En.
    + assert (n = 0) by lia. subst n. eexists. eapply bsE_while_f; [unfold ckS; evk; unfold decr; chk7; evk; chk7; evk; reflexivity|reflexivity].
    + pose proof (prop_bsS fr fo e (VInt (n - 1)) bv [] o Hs) as P. change (skip_prop false []) with (@Err (unit * ist) SBDF_ERROR_IO) in P.
      destruct P as (e' & s' & B). do 3 eexists.
      eapply bsE_while_ret; [unfold ckS; evk; unfold decr; chk7; evk; chk7; evk; reflexivity|cbn [truth b2z]; replace (n >? 0) with true by lia; reflexivity|exact B].
  - cbn [rrep]. destruct (n <=? 0) eqn:En.
    + assert (n = 0) by lia. subst n. eexists. eapply bsE_while_f; [unfold ckS; evk; unfold decr; chk7; evk; chk7; evk; reflexivity|reflexivity].
    + pose proof (prop_bsS fr fo e (VInt (n - 1)) bv s o Hs) as P.
      destruct (skip_prop false s) as [[u s1]|st] eqn:E1.
      * destruct (shr1_skip_prop s u s1 Hs E1) as (Hb1 & Hl1).
        specialize (IH (n - 1) s1 (VInt 0) Hb1 ltac:(lia) ltac:(cbn [List.length] in Hl; lia)).
        destruct (rrep fuel (n - 1) (skip_prop false) s1) as [[l s2]|st].
        -- destruct IH as (e' & B2). eexists.
           eapply bsE_while_t; [unfold ckS; evk; unfold decr; chk7; evk; chk7; evk; reflexivity|cbn [truth b2z]; replace (n >? 0) with true by lia; reflexivity|exact P|exact B2].
        -- destruct IH as (e' & n' & s' & B2). do 3 eexists.
           eapply bsE_while_t; [unfold ckS; evk; unfold decr; chk7; evk; chk7; evk; reflexivity|cbn [truth b2z]; replace (n >? 0) with true by lia; reflexivity|exact P|exact B2].
      * destruct P as (e' & s' & B). do 3 eexists.
        eapply bsE_while_ret; [unfold ckS; evk; unfold decr; chk7; evk; chk7; evk; reflexivity|cbn [truth b2z]; replace (n >? 0) with true by lia; reflexivity|exact B].
Qed.

Lemma cs_skip_bsS fr fo e v bv s o : Forall byte s ->
  match cs_skip false s with
  | Ok (_, s') => exists e' v', bsE prog_env (fbody prog_sbdf_cs_skip) (ckS fr fo e v bv s o) (OReturn (VInt SBDF_OK) (ckS fr fo e' v' bv s' o))
  | Err st => exists e' v' s', bsE prog_env (fbody prog_sbdf_cs_skip) (ckS fr fo e v bv s o) (OReturn (VInt st) (ckS fr fo e' v' bv s' o))
  end.
Proof.
  intros Hs. unfold cs_skip, rd_bind. cbn [fbody prog_sbdf_cs_skip]. fold prop_stmtS. unfold ckS.
  pose proof (sec_expect_bs2 bv o (VPtr fr fo) SBDF_COLUMNSLICE_SECTIONID VUndef VUndef kk s hh mm I Hs ltac:(unfold SBDF_COLUMNSLICE_SECTIONID, int_min, int_max; lia)) as S0.
  destruct (sec_expect SBDF_COLUMNSLICE_SECTIONID s) as [[u0 s0]|st] eqn:E0.
  2: { destruct S0 as (e' & v' & s' & S0). pose proof (neg_sec_expect _ s st E0) as N. do 3 eexists.
       eapply bsE_seq; [eapply bsE_seq; [eapply bsE_decl0; evk; reflexivity|eapply bsE_decl0; evk; reflexivity]|].
       eapply bsE_seq_ret. eapply bsE_seq; [eapply bsE_call; [reflexivity|evk; reflexivity|reflexivity|exact S0|unfold se2, ImpFactsCells.fr; evk; reflexivity]|]. iferrK N. eapply bsE_return. evk. reflexivity. }
  destruct S0 as (e0' & v0' & S0). destruct (shr_sec_expect _ s u0 s0 Hs E0) as (Hb0 & _).
  pose proof (va_skip_bsS fr fo VUndef bv s0 o Hb0) as S1.
  destruct (va_skip false s0) as [[u1 s1]|st] eqn:E1.
  2: { destruct S1 as (r' & s' & S1). pose proof (neg_va_skip s0 st E1) as N. do 3 eexists.
       eapply bsE_seq; [eapply bsE_seq; [eapply bsE_decl0; evk; reflexivity|eapply bsE_decl0; evk; reflexivity]|].
       eapply bsE_seq; [eapply bsE_seq; [eapply bsE_call; [reflexivity|evk; reflexivity|reflexivity|exact S0|unfold se2, ImpFactsCells.fr; evk; reflexivity]|eapply bsE_if; [evk; reflexivity|reflexivity|apply bsE_skip]]|].
       eapply bsE_seq_ret. eapply bsE_seq; [eapply bsE_call; [reflexivity|evk; reflexivity|reflexivity|exact S1|unfold vsS; evk; reflexivity]|]. iferrK N. eapply bsE_return. evk. reflexivity. }
  destruct S1 as (r1 & S1). destruct (shr_va_skip s0 u1 s1 Hb0 E1) as (Hb1 & _).
  pose proof (read_int32_bs2 hh (VPtr fr fo) (VPtr ROut 0) VUndef bv kk s1 mm o I I Hb1) as R.
  destruct (read_int32 false s1) as [[n s2]|st] eqn:ER.
  2: { destruct R as (c' & s' & R). pose proof (neg_read_int32 s1 st ER) as N. do 3 eexists.
       eapply bsE_seq; [eapply bsE_seq; [eapply bsE_decl0; evk; reflexivity|eapply bsE_decl0; evk; reflexivity]|].
       eapply bsE_seq; [eapply bsE_seq; [eapply bsE_call; [reflexivity|evk; reflexivity|reflexivity|exact S0|unfold se2, ImpFactsCells.fr; evk; reflexivity]|eapply bsE_if; [evk; reflexivity|reflexivity|apply bsE_skip]]|].
       eapply bsE_seq; [eapply bsE_seq; [eapply bsE_call; [reflexivity|evk; reflexivity|reflexivity|exact S1|unfold vsS; evk; reflexivity]|eapply bsE_if; [evk; reflexivity|reflexivity|apply bsE_skip]]|].
       eapply bsE_seq_ret. eapply bsE_seq; [eapply bsE_call; [reflexivity|evk; reflexivity|reflexivity|exact R|unfold ri2; evk; reflexivity]|]. iferrK N. eapply bsE_return. evk. reflexivity. }
  destruct (shr1_read_int32 s1 n s2 Hb1 ER) as (Hb2 & _).
  assert (Hn : int_min <= n <= int_max).
  { pose proof (read_int32_model s1) as M. rewrite ER in M. destruct s1 as [|b0 [|b1 [|b2 [|b3 r]]]]; try discriminate. inversion M. subst.
    apply de32_range; [|reflexivity]. inversion Hb1 as [|? ? G0 Q0]. inversion Q0 as [|? ? G1 Q1]. inversion Q1 as [|? ? G2 Q2]. inversion Q2 as [|? ? G3 Q3].
    subst. constructor; [exact G0|]. constructor; [exact G1|]. constructor; [exact G2|]. constructor; [exact G3|constructor]. }
  assert (HEAD : forall X oo, bsE prog_env X (ckS fr fo (VInt 0) (VInt n) bv s2 o) oo ->
     bsE prog_env (SSeq (SSeq (SDecl "error" None) (SDecl "v" None))
       (SSeq (SSeq (SCall (Some "error"%string) "sbdf_sec_expect" [(AVal (EVar "f")); (AVal (EConst (4)))]) (SIf (EVar "error") (SReturn (EVar "error")) SSkip))
       (SSeq (SSeq (SCall (Some "error"%string) "sbdf_va_skip" [(AVal (EVar "f"))]) (SIf (EVar "error") (SReturn (EVar "error")) SSkip))
       (SSeq (SSeq (SCall (Some "error"%string) "sbdf_read_int32" [(AVal (EVar "f")); (AAddr "v")]) (SIf (EVar "error") (SReturn (EVar "error")) SSkip)) X))))
       {| vars := [("f"%string, VPtr fr fo); ("error"%string, e); ("v"%string, v); (budget_var, bv); (fail_var, VInt kk); (strm_var, VBytes s); (cells_var, VHeap hh)]; inb := mm; outb := o |} oo).
  { intros X oo B. unfold ckS in B.
    eapply bsE_seq; [eapply bsE_seq; [eapply bsE_decl0; evk; reflexivity|eapply bsE_decl0; evk; reflexivity]|].
    eapply bsE_seq; [eapply bsE_seq; [eapply bsE_call; [reflexivity|evk; reflexivity|reflexivity|exact S0|unfold se2, ImpFactsCells.fr; evk; reflexivity]|eapply bsE_if; [evk; reflexivity|reflexivity|apply bsE_skip]]|].
    eapply bsE_seq; [eapply bsE_seq; [eapply bsE_call; [reflexivity|evk; reflexivity|reflexivity|exact S1|unfold vsS; evk; reflexivity]|eapply bsE_if; [evk; reflexivity|reflexivity|apply bsE_skip]]|].
    eapply bsE_seq; [eapply bsE_seq; [eapply bsE_call; [reflexivity|evk; reflexivity|reflexivity|exact R|unfold ri2; evk; reflexivity]|eapply bsE_if; [evk; reflexivity|reflexivity|apply bsE_skip]]|].
    exact B. }
  destruct (n <? 0) eqn:En.
  { unfold rfail. do 3 eexists. apply HEAD. unfold ckS. eapply bsE_seq_ret. eapply bsE_if; [evk; chk7; evk; rewrite En; reflexivity|reflexivity|]. eapply bsE_return. evk. chk7. reflexivity. }
  unfold rrepeat, rret.
  pose proof (props_loopS fr fo bv o s2 n s2 (VInt 0) Hb2 ltac:(lia) ltac:(lia)) as L.
  destruct (rrep s2 n (skip_prop false) s2) as [[l s3]|st].
  - destruct L as (e' & L). do 2 eexists. apply HEAD. unfold ckS in *.
    eapply bsE_seq; [eapply bsE_if; [evk; chk7; evk; rewrite En; reflexivity|reflexivity|apply bsE_skip]|].
    eapply bsE_seq; [exact L|]. eapply bsE_return. evk. reflexivity.
  - destruct L as (e' & n' & s' & L). do 3 eexists. apply HEAD. unfold ckS in *.
    eapply bsE_seq; [eapply bsE_if; [evk; chk7; evk; rewrite En; reflexivity|reflexivity|apply bsE_skip]|].
    eapply bsE_seq_ret. exact L.
Qed.

(* ---- as top-level calls ---- *)

End SkipS.
