(* ImpFacts7W.v - sbdf_write_7bitpacked_int32 of src/internals.c from the source (the reader is in ImpFacts7.v). *)
From Sbdf Require Import Imp Gen.Prog Gen.Consts Base Prim BaseFacts ImpBase.
From Coq Require Import ZifyBool.
Local Open Scope Z_scope.
Ltac Zify.zify_post_hook ::= Z.div_mod_to_equations.

(* ================================================================== the writer *)
Definition wst (v x : Z) (u : Imp.val) (B : Z) (o : list Z) : state :=
  {| vars := [("f"%string, VNull); ("v"%string, VInt v); ("uch"%string, u); ("val"%string, VInt x); (budget_var, VInt B)]; inb := []; outb := o |}.


Lemma enc7_step f x : enc7_loop (S f) x = if 127 <? x then (x mod 128 + 128) :: enc7_loop f (x / 128) else [x].
Proof. reflexivity. Qed.

Lemma land127 x : 0 <= x -> Z.land x 127 = x mod 128.
Proof. intros H. change 127 with (Z.ones 7). rewrite Z.land_ones by lia. reflexivity. Qed.

Lemma write7_iter v x u B o : 0 <= x < u32 -> 0 <= B ->
  let byte := if 127 <? x then x mod 128 + 128 else x in
  bs (body_of (loop2 (fbody prog_sbdf_write_7bitpacked_int32))) (wst v x u B o)
     (if 0 <? B then (if 127 <? x then ONormal (wst v (x / 128) (VInt byte) (B - 1) (o ++ [byte]))
                      else OBreak (wst v x (VInt byte) (B - 1) (o ++ [byte])))
      else OReturn (VInt SBDF_ERROR_IO) (wst v x (VInt byte) B o)).
Proof.
  intros Hx HB byte. cbn [body_of loop2 fbody prog_sbdf_write_7bitpacked_int32].
  pose proof (land127 x ltac:(lia)) as L7.
  assert (Hm : 0 <= x mod 128 < 128) by lia.
  assert (Lor : Z.lor (x mod 128) 128 = x mod 128 + 128).
  { change 128 with (1 * 2 ^ 7) at 2 3. apply lor_disjoint_add; [change (2 ^ 7) with 128; lia|lia]. }
  assert (G : (x >? 127) = (127 <? x)) by lia.
  unfold wst.
  eapply bs_seq.
  { eapply bs_decl1; [evs7; rewrite (Z.mod_small 127 u32) by (unfold u32; lia);
      rewrite guard_ok by (unfold u32 in *; lia); ev7; rewrite L7, (Z.mod_small (x mod 128) 256) by lia; reflexivity|ev7; reflexivity]. }
  destruct (127 <? x) eqn:E.
  - eapply bs_seq.
    { eapply bs_if; [evs7; rewrite (Z.mod_small 127 u32) by (unfold u32; lia); rewrite guard_ok by (unfold u32 in *; lia); ev7; rewrite G; reflexivity|reflexivity|].
      eapply bs_expr. evs7. rewrite Lor, (Z.mod_small (x mod 128 + 128) 256) by lia. reflexivity. }
    destruct (0 <? B) eqn:EB.
    + eapply bs_seq; [eapply bs_if; [evs7; rewrite EB; ev7; reflexivity|reflexivity|apply bs_skip]|].
      eapply bs_if; [evs7; rewrite (Z.mod_small 127 u32) by (unfold u32; lia); rewrite guard_ok by (unfold u32 in *; lia); ev7; rewrite G; reflexivity|reflexivity|].
      eapply bs_expr. evs7. rewrite guard_ok by (unfold u32 in *; lia). rewrite shguard_ok by lia. ev7.
      rewrite Z.shiftr_div_pow2 by lia. change (2 ^ 7) with 128. unfold byte. rewrite (Z.mod_small (x mod 128 + 128) 256) by lia. reflexivity.
    + eapply bs_seq_ret. eapply bs_if; [evs7; rewrite EB; ev7; reflexivity|reflexivity|]. eapply bs_return. evs7. reflexivity.
  - eapply bs_seq.
    { eapply bs_if; [evs7; rewrite (Z.mod_small 127 u32) by (unfold u32; lia); rewrite guard_ok by (unfold u32 in *; lia); ev7; rewrite G; reflexivity|reflexivity|]. apply bs_skip. }
    assert (Ex : x mod 128 = x) by lia. rewrite Ex.
    destruct (0 <? B) eqn:EB.
    + eapply bs_seq; [eapply bs_if; [evs7; rewrite EB; ev7; reflexivity|reflexivity|apply bs_skip]|].
      eapply bs_seq_brk || idtac.
      eapply bs_if; [evs7; rewrite (Z.mod_small 127 u32) by (unfold u32; lia); rewrite guard_ok by (unfold u32 in *; lia); ev7; rewrite G; reflexivity|reflexivity|].
      unfold byte. rewrite (Z.mod_small x 256) by lia. apply bs_break.
    + eapply bs_seq_ret. eapply bs_if; [evs7; rewrite EB; ev7; reflexivity|reflexivity|]. eapply bs_return. evs7. reflexivity.
Qed.


Lemma wst_ext v x u B o v' x' u' B' o' : v = v' -> x = x' -> u = u' -> B = B' -> o = o' -> wst v x u B o = wst v' x' u' B' o'.
Proof. now intros -> -> -> -> ->. Qed.

Lemma write7_loop_prog n : forall v x u B o, 0 <= x < 2 ^ (7 * Z.of_nat (S n)) -> x < u32 -> 0 <= B ->
  let L := enc7_loop (S n) x in
  if zlen L <=? B
  then exists x' u', bs (loop2 (fbody prog_sbdf_write_7bitpacked_int32)) (wst v x u B o) (ONormal (wst v x' u' (B - zlen L) (o ++ L)))
  else exists st', bs (loop2 (fbody prog_sbdf_write_7bitpacked_int32)) (wst v x u B o) (OReturn (VInt SBDF_ERROR_IO) st') /\ outb st' = o ++ ztake B L.
Proof.
  induction n as [|n IH]; intros v x u B o Hx Hu HB; cbn zeta; rewrite enc7_step.
  all: pose proof (write7_iter v x u B o ltac:(lia) HB) as It; cbn zeta in It;
       cbn [body_of loop2 fbody prog_sbdf_write_7bitpacked_int32] in *.
  all: destruct (127 <? x) eqn:E.
  1: { exfalso. change (2 ^ (7 * Z.of_nat 1)) with 128 in Hx. lia. }
  1,3: change (zlen [x]) with 1; destruct (0 <? B) eqn:EB;
       [ replace (1 <=? B) with true by lia; eexists; eexists; eapply bs_while_brk; [ev7; reflexivity|reflexivity|exact It]
       | replace (1 <=? B) with false by lia; eexists; split; [eapply bs_while_ret; [ev7; reflexivity|reflexivity|exact It]|];
         cbn [outb wst]; assert (B = 0) by lia; subst B; cbn; now rewrite app_nil_r ].
  (* a continuation byte first *)
  set (b := x mod 128 + 128) in *. set (L' := enc7_loop (S n) (x / 128)) in *. rewrite zlen_cons.
  pose proof (zlen_nonneg L') as P0.
  destruct (0 <? B) eqn:EB.
  2: { replace (1 + zlen L' <=? B) with false by lia. eexists. split; [eapply bs_while_ret; [ev7; reflexivity|reflexivity|exact It]|].
       cbn [outb wst]. assert (B = 0) by lia. subst B. cbn. now rewrite app_nil_r. }
  assert (Hx' : 0 <= x / 128 < 2 ^ (7 * Z.of_nat (S n))).
  { replace (7 * Z.of_nat (S (S n))) with (7 * Z.of_nat (S n) + 7) in Hx by lia. rewrite Z.pow_add_r in Hx by lia. change (2 ^ 7) with 128 in Hx.
    split; [apply Z.div_pos; lia|]. apply Z.div_lt_upper_bound; lia. }
  pose proof (IH v (x / 128) (VInt b) (B - 1) (o ++ [b]) Hx' ltac:(unfold u32 in *; lia) ltac:(lia)) as Q. cbn zeta in Q. fold L' in Q.
  destruct (zlen L' <=? B - 1) eqn:EL.
  - replace (1 + zlen L' <=? B) with true by lia. destruct Q as (x' & u' & Bs). exists x', u'.
    eapply bs_while_t; [ev7; reflexivity|reflexivity|exact It|].
    eapply bs_cast; [exact Bs|reflexivity|]. apply (f_equal ONormal). apply wst_ext; try reflexivity; [lia|now rewrite <- app_assoc].
  - replace (1 + zlen L' <=? B) with false by lia. destruct Q as (st' & Bs & Eo). exists st'. split.
    + eapply bs_while_t; [ev7; reflexivity|reflexivity|exact It|exact Bs].
    + rewrite Eo, <- app_assoc. cbn [app]. now rewrite ztake_cons_pos by lia.
Qed.

Theorem write7_bs v B : int_min <= v <= int_max -> 0 <= B ->
  exists fin, bs (fbody prog_sbdf_write_7bitpacked_int32) (io_init prog_sbdf_write_7bitpacked_int32 [VNull; VInt v] [] B)
                 (OReturn (VInt (if zlen (enc7 v) <=? B then SBDF_OK else SBDF_ERROR_IO)) fin) /\
              outb fin = ztake B (enc7 v).
Proof.
  intros Hv HB. unfold enc7.
  assert (Hu : 0 <= to_u32 v < u32) by (unfold to_u32, u32; lia).
  pose proof (write7_loop_prog 4 v (to_u32 v) VUndef B [] ltac:(change (2 ^ (7 * Z.of_nat 5)) with 34359738368; unfold u32 in Hu; lia) ltac:(lia) HB) as L.
  cbn zeta in L. cbn [loop2 fbody prog_sbdf_write_7bitpacked_int32] in L.
  unfold io_init. cbn [fbody fparams flocals prog_sbdf_write_7bitpacked_int32 combine map app].
  destruct (zlen (enc7_loop 5 (to_u32 v)) <=? B) eqn:E.
  - destruct L as (x' & u' & Bs). eexists. split.
    + eapply bs_seq; [eapply bs_decl1; [evs7; reflexivity|ev7; reflexivity]|].
      eapply bs_seq; [exact Bs|]. eapply bs_return. unfold wst. evs7. reflexivity.
    + cbn [outb wst app]. rewrite ztake_all by lia. reflexivity.
  - destruct L as (st' & Bs & Eo). exists st'. split.
    + eapply bs_seq; [eapply bs_decl1; [evs7; reflexivity|ev7; reflexivity]|]. eapply bs_seq_ret. exact Bs.
    + rewrite Eo. reflexivity.
Qed.

(* ---- with the interpreter's fuel: for all large enough fuel the call returns exactly that ---- *)
Theorem write7_correct v B : int_min <= v <= int_max -> 0 <= B ->
  exists f0, forall f, (f0 <= f)%nat -> exists fin,
    call_io f prog_sbdf_write_7bitpacked_int32 [VNull; VInt v] [] B = OReturn (VInt (if zlen (enc7 v) <=? B then SBDF_OK else SBDF_ERROR_IO)) fin /\
    outb fin = ztake B (enc7 v).
Proof.
  intros Hv HB. destruct (write7_bs v B Hv HB) as (fin & Bs & Eo). destruct (bs_sound _ _ _ Bs) as (f0 & F).
  exists f0. intros f Hf. exists fin. split; [apply F; exact Hf|exact Eo].
Qed.
