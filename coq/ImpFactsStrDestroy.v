(* ImpFactsStrDestroy.v - sbdf_str_destroy (through sbdf_dispose_array) from the source, for frames that carry the cell heap. *)
From Sbdf Require Import ImpCall Gen.Prog Gen.Consts Base BaseFacts ImpBase ImpFactsCells.
From Coq Require Import ZifyBool.
Local Open Scope Z_scope.
Ltac Zify.zify_post_hook ::= Z.div_mod_to_equations.

Ltac evsd := cbn [prog_env eval_args callee_init finish_call copy_in copy_out try_update update lookup combine map app String.append
                 String.eqb Ascii.eqb Bool.eqb fparams flocals fbody vars inb outb budget_var fail_var strm_var cells_var cell_token List.length Nat.eqb eval set_var cast
                 prog_sbdf_dispose_array prog_sbdf_str_destroy truth binop_int b2z negb heap_of as_ptr storable fst snd];
  change (0 =? 0) with true; change (1 =? 0) with false; cbn [negb b2z].

Section StrDestroy.
Variables (bv : val) (k : Z) (sx : list Z) (m o : list Z).

Lemma str_destroy_fr h p : 4 <= p <= zlen m ->
  bsE prog_env (fbody prog_sbdf_str_destroy) (fr [("str"%string, VPtr RIn p)] bv k sx h m o) (ONormal (fr [("str"%string, VPtr RIn p)] bv k sx h m o)).
Proof.
  intros Hp. cbn [fbody prog_sbdf_str_destroy]. unfold fr.
  assert (DA : bsE prog_env (fbody prog_sbdf_dispose_array)
     {| vars := [("array"%string, VPtr RIn p); (budget_var, bv); (fail_var, VInt k); (strm_var, VBytes sx); (cells_var, VHeap h)]; inb := m; outb := o |}
     (ONormal {| vars := [("array"%string, VPtr RIn p); (budget_var, bv); (fail_var, VInt k); (strm_var, VBytes sx); (cells_var, VHeap h)]; inb := m; outb := o |})).
  { cbn [fbody prog_sbdf_dispose_array]. eapply bsE_if; [evsd; reflexivity|reflexivity|]. eapply bsE_expr. evsd. chk7. evsd. chk7. evsd. unfold ptr_add. cbn [inb]. rewrite zlen_length.
    replace ((0 <=? p + -4 * 1) && (p + -4 * 1 <=? zlen m)) with true by lia. cbn [inb]. rewrite zlen_length.
    replace ((0 <=? p + -4 * 1) && (p + -4 * 1 <=? zlen m)) with true by lia. reflexivity. }
  eapply bsE_call_void; [reflexivity|evsd; reflexivity|reflexivity|evsd; exact DA|evsd; reflexivity].
Qed.

(* sbdf_str_destroy(NULL): nothing happens *)
Lemma str_destroy_null h c : as_ptr c = VNull ->
  bsE prog_env (fbody prog_sbdf_str_destroy) (fr [("str"%string, as_ptr c)] bv k sx h m o) (ONormal (fr [("str"%string, as_ptr c)] bv k sx h m o)).
Proof.
  intros ->. cbn [fbody prog_sbdf_str_destroy]. unfold fr.
  assert (DA : bsE prog_env (fbody prog_sbdf_dispose_array)
     {| vars := [("array"%string, VNull); (budget_var, bv); (fail_var, VInt k); (strm_var, VBytes sx); (cells_var, VHeap h)]; inb := m; outb := o |}
     (ONormal {| vars := [("array"%string, VNull); (budget_var, bv); (fail_var, VInt k); (strm_var, VBytes sx); (cells_var, VHeap h)]; inb := m; outb := o |})).
  { cbn [fbody prog_sbdf_dispose_array]. eapply bsE_if; [evsd; reflexivity|reflexivity|apply bsE_skip]. }
  eapply bsE_call_void; [reflexivity|evsd; reflexivity|reflexivity|evsd; exact DA|evsd; reflexivity].
Qed.


End StrDestroy.
