(* ImpFactsCsAdd.v - sbdf_cs_add_property of src/columnslice.c from the source: refused when the row counts differ or the
   name is taken, else the name is copied and name and array go into the next slot of the two pointer arrays. *)
From Sbdf Require Import ImpCall Gen.Prog Gen.Consts Base Prim BaseFacts ImpBase ImpFactsCap ImpFactsCells ImpFactsSlice ImpFactsHeap ImpFactsHeap2 ImpFactsGrow.
From Coq Require Import ZifyBool.
Local Open Scope Z_scope.
Ltac Zify.zify_post_hook ::= Z.div_mod_to_equations.
Opaque array_capacity.

Ltac eva := cbn [prog_env eval_args callee_init finish_call copy_in copy_out try_update update lookup combine map app String.append
                 String.eqb Ascii.eqb Bool.eqb fparams flocals fbody vars inb outb budget_var fail_var strm_var cells_var cell_token List.length Nat.eqb eval set_var cast
                 prog_sbdf_cs_add_property prog_sbdf_cs_row_cnt prog_sbdf_va_row_cnt prog_sbdf_calculate_array_capacity prog_sbdf_str_create prog_sbdf_alloc
                 truth binop_int b2z negb heap_of as_ptr storable fst snd];
  change (0 =? 0) with true; change (1 =? 0) with false; cbn [negb b2z].

Ltac cellrw1 H := unfold cell_get, cell_set; rewrite H;
  change (0 + 0) with 0; change (0 + 1) with 1; change (0 + 2) with 2; change (0 + 3) with 3;
  cbn [Z.leb Z.compare Z.to_nat Pos.compare Pos.compare_cont];
  change (Pos.to_nat 1) with 1%nat; change (Pos.to_nat 2) with 2%nat; change (Pos.to_nat 3) with 3%nat;
  cbn [nth_error set_nth_v].

Definition loop_of (st : stmt) : stmt :=
  match st with SSeq _ (SSeq _ (SSeq _ (SSeq _ (SSeq (SSeq _ w) _)))) => w | _ => SSkip end.

Section CsAdd.
Variables (bv : val) (k : Z) (sx : list Z) (m o : list Z).

(* the frame of sbdf_cs_add_property *)
Definition af (cb : nat) (q : Z) (av cap e i nc nm c1 c2 c3 : val) (kk : Z) (h : heap) (mm : list Z) : state :=
  fr [("out"%string, VCell cb 0); ("name"%string, VPtr RIn q); ("values"%string, av); ("cap"%string, cap); ("error"%string, e); ("i"%string, i);
      ("new_cap"%string, nc); ("nm"%string, nm); ("$c1"%string, c1); ("$c2"%string, c2); ("$c3"%string, c3)] bv kk sx h mm o.

(* is the name taken?  the names in use are compared front to back *)
Lemma cs_add_clash_loop h cb values names props owned nb ncells q name av pn cap e nc nm c1 c2 c3 :
  cs_block h cb values (zlen pn) names props owned ->
  as_ptr names = VCell nb 0 -> nth_error h nb = Some (Some ncells) -> names_at m ncells pn -> cstr_at m q name -> zlen pn < int_max ->
  forall rest done, pn = done ++ rest ->
  exists iv, bsE prog_env (loop_of (fbody prog_sbdf_cs_add_property))
    (af cb q av cap e (VInt (zlen done)) nc nm c1 c2 c3 k h m)
    (match find_name name rest (zlen done) with
     | Some j => OReturn (VInt SBDF_ERROR_PROPERTY_ALREADY_EXISTS) (af cb q av cap e (VInt j) nc nm c1 c2 c3 k h m)
     | None => ONormal (af cb q av cap e iv nc nm c1 c2 c3 k h m)
     end) /\ (find_name name rest (zlen done) = None -> iv = VInt (zlen pn)).
Proof.
  intros Hc Hn Hnb Hna (Hq0 & Hq1) Hmax. unfold cs_block in Hc. unfold int_max in Hmax.
  induction rest as [|nm0 rest IH]; intros done Hpn; cbn [loop_of fbody prog_sbdf_cs_add_property]; unfold af, fr.
  - cbn [find_name]. rewrite app_nil_r in Hpn. subst done. exists (VInt (zlen pn)). split; [|reflexivity].
    eapply bsE_while_f; [eva; chk7; eva; cellrw1 Hc; eva; rewrite Z.ltb_irrefl; reflexivity|reflexivity].
  - cbn [find_name].
    assert (Hj : nth_error pn (List.length done) = Some nm0) by (rewrite Hpn, nth_error_app2 by lia; rewrite Nat.sub_diag; reflexivity).
    destruct (Hna _ _ Hj) as (np & Hnc & Hs0 & Hs1).
    assert (Hd : zlen done < zlen pn) by (rewrite Hpn, zlen_app; unfold zlen; cbn [List.length]; lia).
    pose proof (zlen_nonneg done) as Pd.
    assert (Hi : 0 <=? 0 + zlen done = true) by lia.
    assert (Hidx : Z.to_nat (0 + zlen done) = List.length done) by (unfold zlen; lia).
    destruct (list_eqb name nm0) eqn:E.
    + apply list_eqb_spec in E. subst nm0. exists VUndef. split; [|discriminate].
      eapply bsE_while_ret; [eva; chk7; eva; cellrw1 Hc; eva; replace (zlen done <? zlen pn) with true by lia; reflexivity|reflexivity|].
      eapply bsE_seq_ret. eapply bsE_if.
      { eva. chk7. eva. cellrw1 Hc. eva. rewrite Hn. eva. unfold cell_get. rewrite Hnb, Hi, Hidx, Hnc. eva. cbn [inb]. rewrite zlen_length.
        replace ((0 <=? q) && (q <=? zlen m) && (0 <=? np) && (np <=? zlen m)) with true by lia. rewrite Hq1, Hs1. reflexivity. }
      { cbn [truth]. replace (lexcmp_l name name) with 0 by (symmetry; now apply lexcmp_l_eq). reflexivity. }
      eapply bsE_return. eva. chk7. reflexivity.
    + assert (Hne : lexcmp_l name nm0 <> 0). { intros C. apply lexcmp_l_eq in C. subst nm0. assert (list_eqb name name = true) by now apply list_eqb_spec. congruence. }
      destruct (IH (done ++ [nm0])) as (iv & B & Hiv); [rewrite <- app_assoc; exact Hpn|].
      assert (Hz : zlen (done ++ [nm0]) = zlen done + 1) by (rewrite zlen_app; reflexivity). rewrite Hz in *.
      exists iv. split; [|exact Hiv]. cbn [loop_of fbody prog_sbdf_cs_add_property] in B. unfold af, fr in B. cbn [app] in B.
      destruct (find_name name rest (zlen done + 1)).
      all: (eapply bsE_while_t; [eva; chk7; eva; cellrw1 Hc; eva; replace (zlen done <? zlen pn) with true by lia; reflexivity|reflexivity| |exact B]);
        (eapply bsE_seq; [eapply bsE_if; [eva; chk7; eva; cellrw1 Hc; eva; rewrite Hn; eva; unfold cell_get; rewrite Hnb, Hi, Hidx, Hnc; eva; cbn [inb]; rewrite zlen_length;
              replace ((0 <=? q) && (q <=? zlen m) && (0 <=? np) && (np <=? zlen m)) with true by lia; rewrite Hq1, Hs1; reflexivity
            |cbn [truth]; destruct (lexcmp_l name nm0 =? 0) eqn:Z0; [lia|reflexivity]|apply bsE_skip]|]);
        eapply bsE_expr; eva; unfold incr; chk7; eva; reflexivity.
Qed.


Definition after_rows (st : stmt) : stmt :=
  match st with SSeq _ (SSeq _ (SSeq _ (SSeq _ r))) => r | _ => SSkip end.

(* the argument checks and the two row counts *)
Lemma cs_add_rows h cb values n names props owned vb ty1 enc1 v11 o11 o12 ob1 oty1 cnt1 data1 q ab ty2 enc2 v21 o21 o22 ob2 oty2 cnt2 data2
      cap0 e0 i0 nc0 nm0 c10 c20 c30 :
  cs_block h cb values n names props owned -> as_ptr values = VCell vb 0 ->
  va_block h vb ty1 enc1 v11 o11 o12 -> int_min <= enc1 <= int_max -> (enc1 = SBDF_PLAINARRAYENCODINGTYPEID -> as_ptr o11 = VCell ob1 0 /\ obj_block h ob1 oty1 cnt1 data1) ->
  va_block h ab ty2 enc2 v21 o21 o22 -> int_min <= enc2 <= int_max -> (enc2 = SBDF_PLAINARRAYENCODINGTYPEID -> as_ptr o21 = VCell ob2 0 /\ obj_block h ob2 oty2 cnt2 data2) ->
  int_min <= row_cnt_of enc1 v11 cnt1 <= int_max -> int_min <= row_cnt_of enc2 v21 cnt2 <= int_max ->
  let r1 := row_cnt_of enc1 v11 cnt1 in let r2 := row_cnt_of enc2 v21 cnt2 in
  (r1 <> r2 -> bsE prog_env (fbody prog_sbdf_cs_add_property) (af cb q (VCell ab 0) cap0 e0 i0 nc0 nm0 c10 c20 c30 k h m)
                 (OReturn (VInt SBDF_ERROR_ROW_COUNT_MISMATCH) (af cb q (VCell ab 0) VUndef VUndef VUndef nc0 VUndef (VInt r1) (VInt r2) c30 k h m))) /\
  (r1 = r2 -> forall oo, bsE prog_env (after_rows (fbody prog_sbdf_cs_add_property)) (af cb q (VCell ab 0) VUndef VUndef VUndef nc0 VUndef (VInt r1) (VInt r2) c30 k h m) oo ->
                 bsE prog_env (fbody prog_sbdf_cs_add_property) (af cb q (VCell ab 0) cap0 e0 i0 nc0 nm0 c10 c20 c30 k h m) oo).
Proof.
  intros Hc Hvals Hv1 He1 Hp1 Hv2 He2 Hp2 Hr1 Hr2 r1 r2.
  pose proof (cs_row_cnt_bs bv k sx m o h cb values n names props owned vb ty1 enc1 v11 o11 o12 ob1 oty1 cnt1 data1 VUndef Hc Hvals Hv1 He1 Hp1) as R1.
  pose proof (va_row_cnt_bs bv k sx m o h ab ty2 enc2 v21 o21 o22 ob2 oty2 cnt2 data2 Hv2 He2 Hp2) as R2.
  unfold fr in R1, R2. cbn [app] in R1, R2. fold r1 in R1, Hr1. fold r2 in R2, Hr2.
  assert (HEAD : forall X oo, 
     bsE prog_env X (af cb q (VCell ab 0) VUndef VUndef VUndef nc0 VUndef c10 c20 c30 k h m) oo ->
     bsE prog_env (SSeq (SSeq (SDecl "i" None) (SSeq (SDecl "cap" None) (SDecl "error" None))) (SSeq (SDecl "nm" None)
        (SSeq (SIf (ELOr (ELOr (ELNot (EVar "out")) (ELNot (EVar "name"))) (ELNot (EVar "values"))) (SReturn (EBin Sub (EConst 0) (EConst (1)))) SSkip) X)))
        (af cb q (VCell ab 0) cap0 e0 i0 nc0 nm0 c10 c20 c30 k h m) oo).
  { intros X oo B. unfold af, fr in *. cbn [app] in B.
    eapply bsE_seq; [eapply bsE_seq; [eapply bsE_decl0; eva; reflexivity|eapply bsE_seq; [eapply bsE_decl0; eva; reflexivity|eapply bsE_decl0; eva; reflexivity]]|].
    eapply bsE_seq; [eapply bsE_decl0; eva; reflexivity|].
    eapply bsE_seq; [eapply bsE_if; [eva; reflexivity|reflexivity|apply bsE_skip]|]. exact B. }
  split.
  - intros Hne. cbn [fbody prog_sbdf_cs_add_property]. apply HEAD. unfold af, fr. cbn [app].
    eapply bsE_seq_ret. eapply bsE_seq; [eapply bsE_call; [reflexivity|eva; reflexivity|reflexivity|eva; exact R1|eva; reflexivity]|].
    eapply bsE_seq; [eapply bsE_call; [reflexivity|eva; reflexivity|reflexivity|eva; exact R2|eva; reflexivity]|].
    eapply bsE_if; [eva; reflexivity|cbn [truth]; destruct (r1 =? r2) eqn:Z0; [lia|reflexivity]|]. eapply bsE_return. eva. chk7. reflexivity.
  - intros Heq oo B. cbn [fbody prog_sbdf_cs_add_property after_rows] in *. apply HEAD. unfold af, fr in *. cbn [app] in *.
    eapply bsE_seq; [|exact B].
    eapply bsE_seq; [eapply bsE_call; [reflexivity|eva; reflexivity|reflexivity|eva; exact R1|eva; reflexivity]|].
    eapply bsE_seq; [eapply bsE_call; [reflexivity|eva; reflexivity|reflexivity|eva; exact R2|eva; reflexivity]|].
    eapply bsE_if; [eva; reflexivity|cbn [truth]; rewrite Heq, Z.eqb_refl; reflexivity|apply bsE_skip].
Qed.


(* the name is taken *)
Lemma cs_add_tail_clash h cb values names props owned nb ncells q name av pn nc c1 c2 c3 j :
  cs_block h cb values (zlen pn) names props owned ->
  as_ptr names = VCell nb 0 -> nth_error h nb = Some (Some ncells) -> names_at m ncells pn -> cstr_at m q name -> zlen pn < int_max ->
  find_name name pn 0 = Some j ->
  bsE prog_env (after_rows (fbody prog_sbdf_cs_add_property)) (af cb q av VUndef VUndef VUndef nc VUndef c1 c2 c3 k h m)
    (OReturn (VInt SBDF_ERROR_PROPERTY_ALREADY_EXISTS) (af cb q av VUndef VUndef (VInt j) nc VUndef c1 c2 c3 k h m)).
Proof.
  intros Hc Hn Hnb Hna Hq Hmax Hf.
  destruct (cs_add_clash_loop h cb values names props owned nb ncells q name av pn VUndef VUndef nc VUndef c1 c2 c3 Hc Hn Hnb Hna Hq Hmax pn [] eq_refl) as (iv & B & _).
  change (zlen (@nil (list Z))) with 0 in B. rewrite Hf in B.
  cbn [after_rows loop_of fbody prog_sbdf_cs_add_property] in *. unfold af, fr in *. cbn [app] in B.
  eapply bsE_seq_ret. eapply bsE_seq; [eapply bsE_expr; eva; chk7; eva; reflexivity|exact B].
Qed.

(* the name is new and there is room in the two arrays *)
Lemma cs_add_tail_room h cb values names props owned nb ncells pb pcells pre bytes post av pn nc c1 c2 c3 oldn oldp h1 h2 h3 :
  let mm := pre ++ bytes ++ 0 :: post in m = mm ->
  cs_block h cb values (zlen pn) names props owned ->
  as_ptr names = VCell nb 0 -> nth_error h nb = Some (Some ncells) -> names_at m ncells pn -> zlen pn <= 715827881 ->
  Forall (fun b => b <> 0) bytes -> zlen bytes + 1 <= int_max ->
  find_name bytes pn 0 = None -> array_capacity (zlen pn) <> zlen pn ->
  as_ptr props = VCell pb 0 -> nth_error h pb = Some (Some pcells) ->
  nth_error ncells (Z.to_nat (zlen pn)) = Some oldn -> nth_error pcells (Z.to_nat (zlen pn)) = Some oldp -> (exists ab, av = VCell ab 0) -> cb <> nb ->
  (k <> 0 -> cell_set h nb (zlen pn) (VPtr RIn (zlen m + 4)) = Some h1 /\ cell_set h1 cb 1 (VInt (zlen pn + 1)) = Some h2 /\ cell_set h2 pb (zlen pn) av = Some h3) ->
  exists fin, bsE prog_env (after_rows (fbody prog_sbdf_cs_add_property)) (af cb (zlen pre) av VUndef VUndef VUndef nc VUndef c1 c2 c3 k h m)
    (OReturn (VInt (if k =? 0 then SBDF_ERROR_OUT_OF_MEMORY else SBDF_OK)) fin) /\
    inb fin = (if k =? 0 then m else str_mem m bytes []) /\ lookup cells_var (vars fin) = Some (VHeap (if k =? 0 then h else h3)).
Proof.
  intros mm Hm Hc Hn Hnb Hna Hmax Hnz Hbl Hf Hcap Hp Hpb Holdn Holdp (ab & ->) N1 Hafter.
  assert (Hq : cstr_at m (zlen pre) bytes).
  { rewrite Hm. unfold mm. pose proof (zlen_nonneg pre). pose proof (zlen_nonneg bytes). pose proof (zlen_nonneg post). split; [rewrite !zlen_app, zlen_cons; lia|].
    rewrite skipn_app_zlen. clear -Hnz. induction bytes as [|b bs IH]; cbn [app cstr_l]; [reflexivity|].
    inversion Hnz as [|? ? Hb Hr]. subst. destruct (b =? 0) eqn:E; [lia|]. now rewrite IH. }
  destruct (cs_add_clash_loop h cb values names props owned nb ncells (zlen pre) bytes (VCell ab 0) pn VUndef VUndef nc VUndef c1 c2 c3 Hc Hn Hnb Hna Hq ltac:(unfold int_max; lia) pn [] eq_refl) as (iv & B & Hiv).
  change (zlen (@nil (list Z))) with 0 in B, Hiv. rewrite Hf in B. rewrite (Hiv Hf) in B. clear Hiv.
  pose proof (str_create_bs sx h pre bytes post VUndef bv k o Hnz Hbl) as SC. cbv zeta in SC. fold mm in SC. rewrite <- Hm in SC. unfold sc1 in SC.
  pose proof (capacity_bs [(budget_var, bv); (fail_var, VInt k); (strm_var, VBytes sx); (cells_var, VHeap h)] m o (zlen pn) VUndef ltac:(pose proof (zlen_nonneg pn); unfold int_min; lia)) as CAP.
  unfold cap_st in CAP.
  unfold cs_block in Hc. pose proof (zlen_nonneg pn) as Pn.
  cbn [after_rows loop_of fbody prog_sbdf_cs_add_property] in *. unfold af, fr in *. cbn [app] in B.
  destruct (k =? 0) eqn:Ek.
  - clear Hafter. eexists. split.
    { eapply bsE_seq; [eapply bsE_seq; [eapply bsE_expr; eva; chk7; eva; reflexivity|exact B]|].
      eapply bsE_seq; [eapply bsE_call; [reflexivity|eva; chk7; eva; cellrw1 Hc; eva; reflexivity|reflexivity|eva; exact CAP|eva; reflexivity]|].
      eapply bsE_seq; [eapply bsE_if; [eva; chk7; eva; cellrw1 Hc; eva; replace (array_capacity (zlen pn) =? zlen pn) with false by (clear -Hcap; lia); reflexivity|reflexivity|apply bsE_skip]|].
      eapply bsE_seq; [eapply bsE_call; [reflexivity|eva; reflexivity|reflexivity|eva; exact SC|eva; reflexivity]|].
      eapply bsE_seq_ret. eapply bsE_if; [eva; reflexivity|reflexivity|]. eapply bsE_return. eva. chk7. reflexivity. }
    split; reflexivity.
  - assert (Hk0 : k <> 0) by (clear -Ek; lia). destruct (Hafter Hk0) as (E1 & E2 & E3). clear Hafter.
    assert (Hc1 : nth_error h1 cb = Some (Some [values; VInt (zlen pn); names; props; VInt owned])).
    { rewrite (cell_set_other h nb (zlen pn) _ h1 cb E1) by congruence. exact Hc. }
    eexists. split.
    { eapply bsE_seq; [eapply bsE_seq; [eapply bsE_expr; eva; chk7; eva; reflexivity|exact B]|].
      eapply bsE_seq; [eapply bsE_call; [reflexivity|eva; chk7; eva; cellrw1 Hc; eva; reflexivity|reflexivity|eva; exact CAP|eva; reflexivity]|].
      eapply bsE_seq; [eapply bsE_if; [eva; chk7; eva; cellrw1 Hc; eva; replace (array_capacity (zlen pn) =? zlen pn) with false by (clear -Hcap; lia); reflexivity|reflexivity|apply bsE_skip]|].
      eapply bsE_seq; [eapply bsE_call; [reflexivity|eva; reflexivity|reflexivity|eva; exact SC|eva; reflexivity]|].
      eapply bsE_seq; [eapply bsE_if; [eva; reflexivity|reflexivity|apply bsE_skip]|].
      eapply bsE_seq.
      { eapply bsE_expr. eva. chk7. eva. unfold cell_get at 1. rewrite Hc. cbn [Z.add Z.leb Z.compare Z.to_nat]. change (Pos.to_nat 2) with 2%nat. cbn [nth_error]. eva. rewrite Hn. eva.
        chk7. eva. unfold cell_get. rewrite Hc. cbn [Z.add Z.leb Z.compare Z.to_nat]. change (Pos.to_nat 1) with 1%nat. cbn [nth_error]. eva.
        replace (0 + zlen pn) with (zlen pn) by (clear; lia). rewrite E1. eva. reflexivity. }
      eapply bsE_seq.
      { eapply bsE_expr. eva. chk7. eva. unfold cell_get at 1. rewrite Hc1. cbn [Z.add Z.leb Z.compare Z.to_nat]. change (Pos.to_nat 3) with 3%nat. cbn [nth_error]. eva. rewrite Hp. eva.
        chk7. eva. unfold cell_get. rewrite Hc1. cbn [Z.add Z.leb Z.compare Z.to_nat]. change (Pos.to_nat 1) with 1%nat. cbn [nth_error]. chk7. replace (0 + 1) with 1 by (clear; lia). rewrite E2. eva.
        replace (0 + zlen pn) with (zlen pn) by (clear; lia). rewrite E3. eva. reflexivity. }
      eapply bsE_return. eva. chk7. reflexivity. }
    split; reflexivity.
Qed.

End CsAdd.

(* ---- as top-level calls ---- *)
Section Top.
Variables (k : Z) (sx : list Z) (m : list Z) (h : heap).
Variables (cb : nat) (values : val) (names props : val) (owned : Z) (vb : nat) (ty1 enc1 v11 : Z) (o11 o12 : val) (ob1 : nat) (oty1 cnt1 : Z) (data1 : val).
Variables (ab : nat) (ty2 enc2 v21 : Z) (o21 o22 : val) (ob2 : nat) (oty2 cnt2 : Z) (data2 : val) (pn : list (list Z)).
Hypothesis Hc : cs_block h cb values (zlen pn) names props owned.
Hypothesis Hvals : as_ptr values = VCell vb 0.
Hypothesis Hv1 : va_block h vb ty1 enc1 v11 o11 o12.
Hypothesis He1 : int_min <= enc1 <= int_max.
Hypothesis Hp1 : enc1 = SBDF_PLAINARRAYENCODINGTYPEID -> as_ptr o11 = VCell ob1 0 /\ obj_block h ob1 oty1 cnt1 data1.
Hypothesis Hv2 : va_block h ab ty2 enc2 v21 o21 o22.
Hypothesis He2 : int_min <= enc2 <= int_max.
Hypothesis Hp2 : enc2 = SBDF_PLAINARRAYENCODINGTYPEID -> as_ptr o21 = VCell ob2 0 /\ obj_block h ob2 oty2 cnt2 data2.
Hypothesis Hr1 : int_min <= row_cnt_of enc1 v11 cnt1 <= int_max.
Hypothesis Hr2 : int_min <= row_cnt_of enc2 v21 cnt2 <= int_max.

(* the rows of the new array must be the rows of the column *)
Theorem cs_add_mismatch_source q : row_cnt_of enc1 v11 cnt1 <> row_cnt_of enc2 v21 cnt2 ->
  exists f0, forall f, (f0 <= f)%nat -> exists fin,
    callC prog_env f prog_sbdf_cs_add_property [VCell cb 0; VPtr RIn q; VCell ab 0] m k sx h = OReturn (VInt SBDF_ERROR_ROW_COUNT_MISMATCH) fin /\
    inb fin = m /\ lookup cells_var (vars fin) = Some (VHeap h).
Proof.
  intros Hne.
  destruct (cs_add_rows (VInt 0) k sx m [] h cb values (zlen pn) names props owned vb ty1 enc1 v11 o11 o12 ob1 oty1 cnt1 data1 q ab ty2 enc2 v21 o21 o22 ob2 oty2 cnt2 data2
              VUndef VUndef VUndef VUndef VUndef VUndef VUndef VUndef Hc Hvals Hv1 He1 Hp1 Hv2 He2 Hp2 Hr1 Hr2) as (A & _).
  destruct (bsE_sound _ _ _ _ (A Hne)) as (f0 & F). exists f0. intros f Hf. eexists. split; [apply F; exact Hf|]. split; reflexivity.
Qed.

(* a name that is taken is refused, whatever comes after it in the list *)
Theorem cs_add_clash_source q name nb ncells j : row_cnt_of enc1 v11 cnt1 = row_cnt_of enc2 v21 cnt2 ->
  as_ptr names = VCell nb 0 -> nth_error h nb = Some (Some ncells) -> names_at m ncells pn -> cstr_at m q name -> zlen pn < int_max ->
  find_name name pn 0 = Some j ->
  exists f0, forall f, (f0 <= f)%nat -> exists fin,
    callC prog_env f prog_sbdf_cs_add_property [VCell cb 0; VPtr RIn q; VCell ab 0] m k sx h = OReturn (VInt SBDF_ERROR_PROPERTY_ALREADY_EXISTS) fin /\
    inb fin = m /\ lookup cells_var (vars fin) = Some (VHeap h).
Proof.
  intros Heq Hn Hnb Hna Hq Hmax Hf.
  destruct (cs_add_rows (VInt 0) k sx m [] h cb values (zlen pn) names props owned vb ty1 enc1 v11 o11 o12 ob1 oty1 cnt1 data1 q ab ty2 enc2 v21 o21 o22 ob2 oty2 cnt2 data2
              VUndef VUndef VUndef VUndef VUndef VUndef VUndef VUndef Hc Hvals Hv1 He1 Hp1 Hv2 He2 Hp2 Hr1 Hr2) as (_ & A).
  pose proof (A Heq _ (cs_add_tail_clash (VInt 0) k sx m [] h cb values names props owned nb ncells q name (VCell ab 0) pn VUndef _ _ VUndef j Hc Hn Hnb Hna Hq Hmax Hf)) as B.
  destruct (bsE_sound _ _ _ _ B) as (f0 & F). exists f0. intros f Hf'. eexists. split; [apply F; exact Hf'|]. split; reflexivity.
Qed.

(* a new name, and room in the arrays: the name is copied into the byte memory, name and array go into slot n, the count
   becomes n + 1; with a failing allocation nothing at all is changed *)
Theorem cs_add_room_source nb ncells pb pcells pre bytes post oldn oldp h1 h2 h3 : row_cnt_of enc1 v11 cnt1 = row_cnt_of enc2 v21 cnt2 ->
  m = pre ++ bytes ++ 0 :: post ->
  as_ptr names = VCell nb 0 -> nth_error h nb = Some (Some ncells) -> names_at m ncells pn -> zlen pn <= 715827881 ->
  Forall (fun b => b <> 0) bytes -> zlen bytes + 1 <= int_max ->
  find_name bytes pn 0 = None -> array_capacity (zlen pn) <> zlen pn ->
  as_ptr props = VCell pb 0 -> nth_error h pb = Some (Some pcells) ->
  nth_error ncells (Z.to_nat (zlen pn)) = Some oldn -> nth_error pcells (Z.to_nat (zlen pn)) = Some oldp -> cb <> nb ->
  (k <> 0 -> cell_set h nb (zlen pn) (VPtr RIn (zlen m + 4)) = Some h1 /\ cell_set h1 cb 1 (VInt (zlen pn + 1)) = Some h2 /\ cell_set h2 pb (zlen pn) (VCell ab 0) = Some h3) ->
  exists f0, forall f, (f0 <= f)%nat -> exists fin,
    callC prog_env f prog_sbdf_cs_add_property [VCell cb 0; VPtr RIn (zlen pre); VCell ab 0] m k sx h =
      OReturn (VInt (if k =? 0 then SBDF_ERROR_OUT_OF_MEMORY else SBDF_OK)) fin /\
    inb fin = (if k =? 0 then m else str_mem m bytes []) /\ lookup cells_var (vars fin) = Some (VHeap (if k =? 0 then h else h3)).
Proof.
  intros Heq Hm Hn Hnb Hna Hmax Hnz Hbl Hf Hcap Hp Hpb Holdn Holdp N1 Hafter.
  destruct (cs_add_rows (VInt 0) k sx m [] h cb values (zlen pn) names props owned vb ty1 enc1 v11 o11 o12 ob1 oty1 cnt1 data1 (zlen pre) ab ty2 enc2 v21 o21 o22 ob2 oty2 cnt2 data2
              VUndef VUndef VUndef VUndef VUndef VUndef VUndef VUndef Hc Hvals Hv1 He1 Hp1 Hv2 He2 Hp2 Hr1 Hr2) as (_ & A).
  destruct (cs_add_tail_room (VInt 0) k sx m [] h cb values names props owned nb ncells pb pcells pre bytes post (VCell ab 0) pn VUndef
              (VInt (row_cnt_of enc1 v11 cnt1)) (VInt (row_cnt_of enc2 v21 cnt2)) VUndef oldn oldp h1 h2 h3 Hm Hc Hn Hnb Hna Hmax Hnz Hbl Hf Hcap Hp Hpb Holdn Holdp (ex_intro _ ab eq_refl) N1 Hafter) as (fin & B & P1 & P2).
  destruct (bsE_sound _ _ _ _ (A Heq _ B)) as (f0 & F). exists f0. intros f Hf'. exists fin. split; [apply F; exact Hf'|]. split; assumption.
Qed.

End Top.
