(* ImpFactsCells.v - what the proofs about functions over structs and arrays of pointers share: the cell heap
   (pseudo-variable "$cells", Imp.v) holds one block per struct / pointer array; strings stay in the byte memory.
   The functions themselves: ImpFactsMd.v (metadata lists), ImpFactsSlice.v (value arrays, column slices),
   ImpFactsDestroy.v (sbdf_obj_destroy, sbdf_va_destroy), ImpFactsEq.v (sbdf_obj_eq). *)
From Sbdf Require Import ImpCall Gen.Prog Gen.Consts Base BaseFacts ImpBase.
From Coq Require Import ZifyBool.
Local Open Scope Z_scope.
Ltac Zify.zify_post_hook ::= Z.div_mod_to_equations.

Ltac evc := cbn [eval lookup update set_var String.eqb Ascii.eqb Bool.eqb vars inb outb truth cast binop_int b2z fst snd negb app
                 budget_var fail_var strm_var cells_var heap_of as_ptr storable];
  change (0 =? 0) with true; change (1 =? 0) with false; cbn [negb b2z].

Ltac cellrw H := unfold cell_get, cell_set; rewrite H;
  cbn [Z.add Z.leb Z.compare Z.to_nat Pos.compare Pos.compare_cont Pos.add Pos.succ];
  change (Pos.to_nat 1) with 1%nat; change (Pos.to_nat 2) with 2%nat; change (Pos.to_nat 3) with 3%nat; change (Pos.to_nat 4) with 4%nat;
  cbn [nth_error set_nth_v].

Definition heap := list (option (list val)).

(* a frame: the function's own variables, then the pseudo-variables of a call that works on structs *)
Definition fr (vs : list (string * val)) (bv : val) (k : Z) (sx : list Z) (h : heap) (m o : list Z) : state :=
  {| vars := vs ++ [(budget_var, bv); (fail_var, VInt k); (strm_var, VBytes sx); (cells_var, VHeap h)]; inb := m; outb := o |}.

(* a NUL-terminated string at offset p of the memory *)
Definition cstr_at (m : list Z) (p : Z) (s : list Z) : Prop := 0 <= p <= zlen m /\ cstr_l (skipn (Z.to_nat p) m) = Some s.

Lemma lexcmp_l_eq a : forall b, lexcmp_l a b = 0 <-> a = b.
Proof.
  induction a as [|x a IH]; intros [|y b]; cbn [lexcmp_l]; try (split; [discriminate|discriminate]); [split; reflexivity|].
  destruct (x <? y) eqn:E1; [split; [discriminate|intros [= -> _]; lia]|].
  destruct (y <? x) eqn:E2; [split; [discriminate|intros [= -> _]; lia]|].
  rewrite IH. assert (x = y) by lia. subst y. split; [intros ->; reflexivity|intros [= ->]; reflexivity].
Qed.

Fixpoint list_eqb (a b : list Z) : bool :=
  match a, b with [], [] => true | x :: a', y :: b' => (x =? y) && list_eqb a' b' | _, _ => false end.
Lemma list_eqb_spec a : forall b, list_eqb a b = true <-> a = b.
Proof.
  induction a as [|x a IH]; intros [|y b]; cbn [list_eqb]; try (split; discriminate); [split; reflexivity|].
  rewrite andb_true_iff, IH, Z.eqb_eq. split; [intros [-> ->]; reflexivity|intros [= -> ->]; split; reflexivity].
Qed.


(* a value array handle at block vb: value type, encoding, value1, object1, object2 *)
Definition va_block (h : heap) (vb : nat) (ty enc v1 : Z) (o1 o2 : val) : Prop :=
  nth_error h vb = Some (Some [VInt ty; VInt enc; VInt v1; o1; o2]).
(* an object header at block ob: value type, count, data pointer *)
Definition obj_block (h : heap) (ob : nat) (ty cnt : Z) (data : val) : Prop :=
  nth_error h ob = Some (Some [VInt ty; VInt cnt; data]).


(* releasing a block *)
Definition kill (b : nat) (h : heap) : heap := match set_nth_v b None h with Some h' => h' | None => h end.

Lemma set_nth_v_some {A} (l : list A) : forall b x y, nth_error l b = Some x -> exists l', set_nth_v b y l = Some l'.
Proof. induction l as [|z l IH]; intros [|b] x y H; cbn [nth_error] in H; try discriminate; cbn [set_nth_v]; [eexists; reflexivity|]. destruct (IH b x y H) as (l' & ->). eexists; reflexivity. Qed.
Lemma set_nth_v_same {A} (l : list A) : forall b y l', set_nth_v b y l = Some l' -> nth_error l' b = Some y.
Proof. induction l as [|z l IH]; intros [|b] y l' H; cbn [set_nth_v] in H; try discriminate; [injection H as <-; reflexivity|].
  destruct (set_nth_v b y l) eqn:E; [|discriminate]. injection H as <-. cbn [nth_error]. now apply IH. Qed.
Lemma set_nth_v_other {A} (l : list A) : forall b c y l', set_nth_v b y l = Some l' -> b <> c -> nth_error l' c = nth_error l c.
Proof. induction l as [|z l IH]; intros [|b] c y l' H Hn; cbn [set_nth_v] in H; try discriminate.
  - injection H as <-. destruct c; [congruence|reflexivity].
  - destruct (set_nth_v b y l) eqn:E; [|discriminate]. injection H as <-. destruct c; [reflexivity|]. cbn [nth_error]. apply (IH b c y); [exact E|congruence]. Qed.
Lemma set_nth_v_twice {A} (l : list A) : forall b y z l1, set_nth_v b y l = Some l1 -> set_nth_v b z l1 = set_nth_v b z l.
Proof. induction l as [|x l IH]; intros [|b] y z l1 H; cbn [set_nth_v] in H; try discriminate; [injection H as <-; reflexivity|].
  destruct (set_nth_v b y l) eqn:E; [|discriminate]. injection H as <-. cbn [set_nth_v]. now rewrite (IH b y z l0 E). Qed.

(* released blocks stay released, and releasing one block leaves the others alone *)
Lemma kill_other b c h : b <> c -> nth_error (kill b h) c = nth_error h c.
Proof. intros Hn. unfold kill. destruct (set_nth_v b None h) eqn:E; [|reflexivity]. apply (set_nth_v_other h b c None l E Hn). Qed.
Lemma kill_same b h x : nth_error h b = Some x -> nth_error (kill b h) b = Some None.
Proof. intros H. unfold kill. destruct (set_nth_v_some h b x None H) as (l & E). rewrite E. apply (set_nth_v_same h b None l E). Qed.



(* a column slice at block cb: values, property count, names array, properties array, owned flag *)
Definition cs_block (h : heap) (cb : nat) (values : val) (n : Z) (names props : val) (owned : Z) : Prop :=
  nth_error h cb = Some (Some [values; VInt n; names; props; VInt owned]).
(* a table slice at block tb: table metadata, number of columns, columns array, owned flag *)
Definition ts_block (h : heap) (tb : nat) (meta : val) (n : Z) (cols : val) (owned : Z) : Prop :=
  nth_error h tb = Some (Some [meta; VInt n; cols; VInt owned]).


Lemma cell_set_other h b i v h' c : cell_set h b i v = Some h' -> b <> c -> nth_error h' c = nth_error h c.
Proof.
  unfold cell_set. destruct (nth_error h b) as [[blk|]|]; try discriminate. destruct (0 <=? i); [|discriminate].
  destruct (set_nth_v (Z.to_nat i) v blk); [|discriminate]. intros E Hn. apply (set_nth_v_other h b c _ h' E Hn).
Qed.
