(* ImpFactsCells.v - functions over structs and arrays of pointers, from the source.  The cell heap
   (pseudo-variable "$cells", Imp.v) holds one block per struct / pointer array; strings stay in the
   byte memory.  First the metadata list (src/metadata.c): creation, freezing, counting, lookup by name. *)
From Sbdf Require Import ImpCall Gen.Prog Gen.Consts Base BaseFacts ImpFacts ImpFacts7 ImpFactsFrame ImpFactsCmp ImpFactsHeap ImpFactsRead.
From Coq Require Import ZifyBool.
Local Open Scope Z_scope.
Ltac Zify.zify_post_hook ::= Z.div_mod_to_equations.

Ltac evc := cbn [eval lookup update set_var String.eqb Ascii.eqb Bool.eqb vars inb outb truth cast binop_int b2z fst snd negb app
                 budget_var fail_var strm_var cells_var heap_of as_ptr storable];
  change (0 =? 0) with true; change (1 =? 0) with false; cbn [negb b2z].

Ltac cellrw H := unfold cell_get, cell_set; rewrite H;
  cbn [Z.add Z.leb Z.compare Z.to_nat Pos.compare Pos.compare_cont Pos.add Pos.succ];
  change (Pos.to_nat 1) with 1%nat; change (Pos.to_nat 2) with 2%nat; change (Pos.to_nat 3) with 3%nat; change (Pos.to_nat 4) with 4%nat;
  cbn [nth_error set_nth_v].

Definition heap := list (option (list val)).

(* a frame: the function's own variables, then the pseudo-variables of a call that works on structs *)
Definition fr (vs : list (string * val)) (bv : val) (k : Z) (sx : list Z) (h : heap) (m o : list Z) : state :=
  {| vars := vs ++ [(budget_var, bv); (fail_var, VInt k); (strm_var, VBytes sx); (cells_var, VHeap h)]; inb := m; outb := o |}.

(* a NUL-terminated string at offset p of the memory *)
Definition cstr_at (m : list Z) (p : Z) (s : list Z) : Prop := 0 <= p <= zlen m /\ cstr_l (skipn (Z.to_nat p) m) = Some s.

(* the entries of a metadata list starting at pointer p (already read at pointer type): their names *)
Fixpoint md_list (h : heap) (m : list Z) (p : val) (names : list (list Z)) : Prop :=
  match names with
  | [] => p = VNull
  | nm :: rest => exists b nx np vv dv, p = VCell b 0 /\ nth_error h b = Some (Some [nx; VPtr RIn np; vv; dv]) /\ cstr_at m np nm /\ md_list h m (as_ptr nx) rest
  end.

(* a metadata head at block hb: first entry, modifiable flag *)
Definition md_head (h : heap) (m : list Z) (hb : nat) (names : list (list Z)) (modifiable : Z) : Prop :=
  exists first, nth_error h hb = Some (Some [first; VInt modifiable]) /\ md_list h m (as_ptr first) names.

Section Md.
Variables (bv : val) (k : Z) (sx : list Z) (m o : list Z).

(* ---- sbdf_md_cnt ---- *)
Lemma md_cnt_loop h hd names : forall p r, md_list h m p names -> 0 <= r -> r + zlen names <= int_max ->
  bsE prog_env (SWhile (EVar "t") (SSeq (SExpr (EPreInc "result")) (SExpr (EAssign "t" (ECellLoad (EVar "t") (EConst 0) true)))))
    (fr [("head"%string, hd); ("result"%string, VInt r); ("t"%string, p)] bv k sx h m o)
    (ONormal (fr [("head"%string, hd); ("result"%string, VInt (r + zlen names)); ("t"%string, VNull)] bv k sx h m o)).
Proof.
  induction names as [|nm rest IH]; intros p r Hl Hr Hmax; unfold fr.
  - cbn [md_list] in Hl. subst p. change (zlen (@nil (list Z))) with 0. rewrite Z.add_0_r.
    eapply bsE_while_f; [evc; reflexivity|reflexivity].
  - cbn [md_list] in Hl. destruct Hl as (b & nx & np & vv & dv & -> & Hb & Hs & Hrest).
    assert (Hz : zlen (nm :: rest) = 1 + zlen rest) by (unfold zlen; cbn [List.length]; lia). rewrite Hz in *.
    pose proof (zlen_nonneg rest) as Pr. unfold int_max in *.
    eapply bsE_while_t; [evc; reflexivity|reflexivity| |].
    + eapply bsE_seq; [eapply bsE_expr; evc; unfold incr; chk7; evc; reflexivity|].
      eapply bsE_expr. evc. chk7. evc. cellrw Hb. evc. reflexivity.
    + replace (r + (1 + zlen rest)) with ((r + 1) + zlen rest) by lia. apply (IH (as_ptr nx) (r + 1) Hrest); lia.
Qed.


Lemma md_cnt_bs h hb names modif r0 t0 : md_head h m hb names modif -> zlen names <= int_max ->
  bsE prog_env (fbody prog_sbdf_md_cnt) (fr [("head"%string, VCell hb 0); ("result"%string, r0); ("t"%string, t0)] bv k sx h m o)
    (OReturn (VInt (zlen names)) (fr [("head"%string, VCell hb 0); ("result"%string, VInt (zlen names)); ("t"%string, VNull)] bv k sx h m o)).
Proof.
  intros (first & Hb & Hl) Hmax. cbn [fbody prog_sbdf_md_cnt]. unfold fr.
  eapply bsE_seq; [eapply bsE_decl0; evc; reflexivity|]. eapply bsE_seq; [eapply bsE_decl1; [evc; chk7; reflexivity|evc; reflexivity]|].
  eapply bsE_seq; [eapply bsE_if; [evc; reflexivity|reflexivity|apply bsE_skip]|].
  eapply bsE_seq.
  - eapply bsE_seq; [eapply bsE_expr; evc; chk7; evc; cellrw Hb; evc; reflexivity|].
    apply (md_cnt_loop h (VCell hb 0) names (as_ptr first) 0 Hl); lia.
  - eapply bsE_return. evc. reflexivity.
Qed.

(* ---- sbdf_md_exists ---- *)
Lemma lexcmp_l_eq a : forall b, lexcmp_l a b = 0 <-> a = b.
Proof.
  induction a as [|x a IH]; intros [|y b]; cbn [lexcmp_l]; try (split; [discriminate|discriminate]); [split; reflexivity|].
  destruct (x <? y) eqn:E1; [split; [discriminate|intros [= -> _]; lia]|].
  destruct (y <? x) eqn:E2; [split; [discriminate|intros [= -> _]; lia]|].
  rewrite IH. assert (x = y) by lia. subst y. split; [intros ->; reflexivity|intros [= ->]; reflexivity].
Qed.

Fixpoint list_eqb (a b : list Z) : bool :=
  match a, b with [], [] => true | x :: a', y :: b' => (x =? y) && list_eqb a' b' | _, _ => false end.
Lemma list_eqb_spec a : forall b, list_eqb a b = true <-> a = b.
Proof.
  induction a as [|x a IH]; intros [|y b]; cbn [list_eqb]; try (split; discriminate); [split; reflexivity|].
  rewrite andb_true_iff, IH, Z.eqb_eq. split; [intros [-> ->]; reflexivity|intros [= -> ->]; split; reflexivity].
Qed.

Lemma md_exists_loop h hd q name names : forall p, md_list h m p names -> cstr_at m q name ->
  exists tv, bsE prog_env (SWhile (EVar "t") (SSeq (SIf (ELNot (EStrcmp (EVar "name") (ECellLoad (EVar "t") (EConst 1) true))) (SReturn (EConst (1))) SSkip)
                                       (SExpr (EAssign "t" (ECellLoad (EVar "t") (EConst 0) true)))))
    (fr [("name"%string, VPtr RIn q); ("head"%string, hd); ("t"%string, p)] bv k sx h m o)
    (if existsb (list_eqb name) names
     then OReturn (VInt 1) (fr [("name"%string, VPtr RIn q); ("head"%string, hd); ("t"%string, tv)] bv k sx h m o)
     else ONormal (fr [("name"%string, VPtr RIn q); ("head"%string, hd); ("t"%string, tv)] bv k sx h m o)).
Proof.
  induction names as [|nm rest IH]; intros p Hl Hq; unfold fr.
  - cbn [md_list] in Hl. subst p. cbn [existsb]. exists VNull. eapply bsE_while_f; [evc; reflexivity|reflexivity].
  - cbn [md_list] in Hl. destruct Hl as (b & nx & np & vv & dv & -> & Hb & Hs & Hrest).
    destruct Hq as (Hq0 & Hq1). destruct Hs as (Hs0 & Hs1).
    assert (CMP : eval (ELNot (EStrcmp (EVar "name") (ECellLoad (EVar "t") (EConst 1) true)))
                    {| vars := [("name"%string, VPtr RIn q); ("head"%string, hd); ("t"%string, VCell b 0); (budget_var, bv); (fail_var, VInt k); (strm_var, VBytes sx); (cells_var, VHeap h)]; inb := m; outb := o |}
                  = Some (VInt (b2z (negb (negb (lexcmp_l name nm =? 0)))),
                          {| vars := [("name"%string, VPtr RIn q); ("head"%string, hd); ("t"%string, VCell b 0); (budget_var, bv); (fail_var, VInt k); (strm_var, VBytes sx); (cells_var, VHeap h)]; inb := m; outb := o |})).
    { evc. chk7. evc. cellrw Hb. evc. cbn [inb]. rewrite zlen_length.
      replace ((0 <=? q) && (q <=? zlen m) && (0 <=? np) && (np <=? zlen m)) with true by lia. rewrite Hq1, Hs1. reflexivity. }
    cbn [existsb]. destruct (list_eqb name nm) eqn:E.
    + apply list_eqb_spec in E. subst nm. cbn [orb]. exists (VCell b 0).
      eapply bsE_while_ret; [evc; reflexivity|reflexivity|].
      eapply bsE_seq_ret. eapply bsE_if; [cbn [app]; exact CMP| |].
      * replace (lexcmp_l name name) with 0 by (symmetry; now apply lexcmp_l_eq). reflexivity.
      * eapply bsE_return. evc. chk7. reflexivity.
    + cbn [orb]. destruct (IH (as_ptr nx) Hrest (conj Hq0 Hq1)) as (tv & B). exists tv.
      assert (Hne : lexcmp_l name nm <> 0). { intros C. apply lexcmp_l_eq in C. subst nm. assert (list_eqb name name = true) by now apply list_eqb_spec. congruence. }
      destruct (existsb (list_eqb name) rest).
      * eapply bsE_while_t; [evc; reflexivity|reflexivity| |exact B].
        eapply bsE_seq; [eapply bsE_if; [cbn [app]; exact CMP|destruct (lexcmp_l name nm =? 0) eqn:Z0; [lia|reflexivity]|apply bsE_skip]|].
        eapply bsE_expr. evc. chk7. evc. cellrw Hb. evc. reflexivity.
      * eapply bsE_while_t; [evc; reflexivity|reflexivity| |exact B].
        eapply bsE_seq; [eapply bsE_if; [cbn [app]; exact CMP|destruct (lexcmp_l name nm =? 0) eqn:Z0; [lia|reflexivity]|apply bsE_skip]|].
        eapply bsE_expr. evc. chk7. evc. cellrw Hb. evc. reflexivity.
Qed.

Lemma md_exists_bs h hb q name names modif t0 : md_head h m hb names modif -> cstr_at m q name ->
  exists tv, bsE prog_env (fbody prog_sbdf_md_exists) (fr [("name"%string, VPtr RIn q); ("head"%string, VCell hb 0); ("t"%string, t0)] bv k sx h m o)
    (OReturn (VInt (if existsb (list_eqb name) names then 1 else 0)) (fr [("name"%string, VPtr RIn q); ("head"%string, VCell hb 0); ("t"%string, tv)] bv k sx h m o)).
Proof.
  intros (first & Hb & Hl) Hq. cbn [fbody prog_sbdf_md_exists].
  destruct (md_exists_loop h (VCell hb 0) q name names (as_ptr first) Hl Hq) as (tv & B). exists tv. unfold fr in *.
  eapply bsE_seq; [eapply bsE_decl0; evc; reflexivity|].
  eapply bsE_seq; [eapply bsE_if; [evc; reflexivity|reflexivity|apply bsE_skip]|].
  destruct (existsb (list_eqb name) names).
  - eapply bsE_seq_ret. eapply bsE_seq; [eapply bsE_expr; evc; chk7; evc; cellrw Hb; evc; reflexivity|]. exact B.
  - eapply bsE_seq; [eapply bsE_seq; [eapply bsE_expr; evc; chk7; evc; cellrw Hb; evc; reflexivity|exact B]|].
    eapply bsE_return. evc. chk7. reflexivity.
Qed.

(* ---- sbdf_md_set_immutable: the flag cell of the head becomes 0, nothing else changes ---- *)
Lemma md_set_immutable_bs h hb first modif : nth_error h hb = Some (Some [first; VInt modif]) ->
  exists h', set_nth_v hb (Some [first; VInt 0]) h = Some h' /\
  bsE prog_env (fbody prog_sbdf_md_set_immutable) (fr [("metadata"%string, VCell hb 0)] bv k sx h m o)
    (OReturn (VInt SBDF_OK) (fr [("metadata"%string, VCell hb 0)] bv k sx h' m o)).
Proof.
  intros Hb. cbn [fbody prog_sbdf_md_set_immutable]. unfold fr.
  assert (E : exists h', set_nth_v hb (Some [first; VInt 0]) h = Some h').
  { clear -Hb. revert hb Hb. induction h as [|x h IH]; intros [|hb] Hb; cbn [nth_error] in Hb; try discriminate; cbn [set_nth_v]; [eexists; reflexivity|].
    destruct (IH hb Hb) as (h' & ->). eexists; reflexivity. }
  destruct E as (h' & E). exists h'. split; [exact E|].
  eapply bsE_seq; [eapply bsE_if; [evc; reflexivity|reflexivity|apply bsE_skip]|].
  eapply bsE_seq; [eapply bsE_expr; evc; chk7; evc; chk7; evc; cellrw Hb; rewrite E; evc; reflexivity|].
  eapply bsE_return. evc. chk7. reflexivity.
Qed.

(* ---- sbdf_md_create: a fresh head with no entries, modifiable; (the source reports a failed calloc as ARGUMENT_NULL) ---- *)
Lemma md_create_bs h outv t0 c0 : is_ptr outv ->
  bsE prog_env (fbody prog_sbdf_md_create) (fr [("out"%string, outv); ("t"%string, t0); ("*out"%string, c0)] bv k sx h m o)
    (if k =? 0 then OReturn (VInt SBDF_ERROR_ARGUMENT_NULL) (fr [("out"%string, outv); ("t"%string, VNull); ("*out"%string, c0)] bv (-1) sx h m o)
     else OReturn (VInt SBDF_OK) (fr [("out"%string, outv); ("t"%string, VCell (List.length h) 0); ("*out"%string, VCell (List.length h) 0)] bv (next_fail k) sx (h ++ [Some [VInt 0; VInt 1]]) m o)).
Proof.
  intros Ho. destruct outv as [| pr po | | | | |]; try contradiction. cbn [fbody prog_sbdf_md_create]. unfold fr.
  eapply bsE_seq; [eapply bsE_decl1; [evc; reflexivity|evc; reflexivity]|].
  eapply bsE_seq; [eapply bsE_if; [evc; reflexivity|reflexivity|apply bsE_skip]|].
  destruct (k =? 0) eqn:Ek.
  - eapply bsE_seq; [eapply bsE_expr; evc; chk7; evc; rewrite Ek; evc; reflexivity|].
    eapply bsE_seq_ret. eapply bsE_if; [evc; reflexivity|reflexivity|]. eapply bsE_return. evc. chk7. reflexivity.
  - eapply bsE_seq; [eapply bsE_expr; evc; chk7; evc; rewrite Ek; evc; reflexivity|].
    eapply bsE_seq; [eapply bsE_if; [evc; reflexivity|reflexivity|apply bsE_skip]|].
    assert (Hn : nth_error (h ++ [Some [VInt 0; VInt 0]]) (List.length h) = Some (Some [VInt 0; VInt 0])) by (rewrite nth_error_app2 by lia; rewrite Nat.sub_diag; reflexivity).
    assert (Hs : set_nth_v (List.length h) (Some [VInt 0; VInt 1]) (h ++ [Some [VInt 0; VInt 0]]) = Some (h ++ [Some [VInt 0; VInt 1]])).
    { clear. induction h as [|x h IH]; cbn [List.length app set_nth_v]; [reflexivity|]. now rewrite IH. }
    eapply bsE_seq; [eapply bsE_expr; evc; chk7; evc; chk7; evc; change (repeat (VInt 0) (Z.to_nat 2)) with [VInt 0; VInt 0]; cellrw Hn; rewrite Hs; evc; reflexivity|].
    eapply bsE_seq; [eapply bsE_expr; evc; reflexivity|]. eapply bsE_return. evc. chk7. unfold next_fail. reflexivity.
Qed.

End Md.

(* ---- the statements about top-level calls ---- *)
Theorem md_cnt_source k sx m h hb names modif : md_head h m hb names modif -> zlen names <= int_max ->
  exists f0, forall f, (f0 <= f)%nat -> exists fin,
    callC prog_env f prog_sbdf_md_cnt [VCell hb 0] m k sx h = OReturn (VInt (zlen names)) fin /\
    inb fin = m /\ lookup cells_var (vars fin) = Some (VHeap h).
Proof.
  intros H Hm. destruct (bsE_sound _ _ _ _ (md_cnt_bs (VInt 0) k sx m [] h hb names modif VUndef VUndef H Hm)) as (f0 & F).
  exists f0. intros f Hf. eexists. split; [apply F; exact Hf|]. split; reflexivity.
Qed.

Theorem md_exists_source k sx m h hb q name names modif : md_head h m hb names modif -> cstr_at m q name ->
  exists f0, forall f, (f0 <= f)%nat -> exists fin,
    callC prog_env f prog_sbdf_md_exists [VPtr RIn q; VCell hb 0] m k sx h = OReturn (VInt (if existsb (list_eqb name) names then 1 else 0)) fin /\
    inb fin = m /\ lookup cells_var (vars fin) = Some (VHeap h).
Proof.
  intros H Hq. destruct (md_exists_bs (VInt 0) k sx m [] h hb q name names modif VUndef H Hq) as (tv & B).
  destruct (bsE_sound _ _ _ _ B) as (f0 & F). exists f0. intros f Hf. eexists. split; [apply F; exact Hf|]. split; reflexivity.
Qed.

Theorem md_set_immutable_source k sx m h hb first modif : nth_error h hb = Some (Some [first; VInt modif]) ->
  exists h', set_nth_v hb (Some [first; VInt 0]) h = Some h' /\
  exists f0, forall f, (f0 <= f)%nat -> exists fin,
    callC prog_env f prog_sbdf_md_set_immutable [VCell hb 0] m k sx h = OReturn (VInt SBDF_OK) fin /\
    inb fin = m /\ lookup cells_var (vars fin) = Some (VHeap h').
Proof.
  intros Hb. destruct (md_set_immutable_bs (VInt 0) k sx m [] h hb first modif Hb) as (h' & E & B). exists h'. split; [exact E|].
  destruct (bsE_sound _ _ _ _ B) as (f0 & F). exists f0. intros f Hf. eexists. split; [apply F; exact Hf|]. split; reflexivity.
Qed.

Theorem md_create_source k sx m h :
  exists f0, forall f, (f0 <= f)%nat -> exists fin,
    callC prog_env f prog_sbdf_md_create [tok] m k sx h =
      OReturn (VInt (if k =? 0 then SBDF_ERROR_ARGUMENT_NULL else SBDF_OK)) fin /\
    inb fin = m /\
    (if k =? 0 then lookup cells_var (vars fin) = Some (VHeap h)
     else lookup cells_var (vars fin) = Some (VHeap (h ++ [Some [VInt 0; VInt 1]])) /\ lookup "*out" (vars fin) = Some (VCell (List.length h) 0) /\
          md_head (h ++ [Some [VInt 0; VInt 1]]) m (List.length h) [] 1).
Proof.
  pose proof (md_create_bs (VInt 0) k sx m [] h tok VUndef VUndef I) as B.
  destruct (k =? 0); destruct (bsE_sound _ _ _ _ B) as (f0 & F); exists f0; intros f Hf; eexists; (split; [apply F; exact Hf|]); (split; [reflexivity|]).
  - reflexivity.
  - split; [reflexivity|]. split; [reflexivity|]. exists (VInt 0). split; [|reflexivity]. rewrite nth_error_app2 by lia. rewrite Nat.sub_diag. reflexivity.
Qed.

(* ================================================================== value arrays and column slices *)
Ltac evcc := cbn [prog_env eval_args callee_init finish_call copy_in copy_out try_update update lookup combine map app String.append
                 String.eqb Ascii.eqb Bool.eqb fparams flocals fbody vars inb outb budget_var fail_var strm_var cells_var cell_token List.length Nat.eqb eval set_var cast
                 prog_sbdf_va_row_cnt prog_sbdf_cs_row_cnt prog_sbdf_obj_destroy prog_sbdf_dispose_array prog_sbdf_va_destroy
                 prog_sbdf_str_cmp prog_sbdf_ba_memcmp truth binop_int b2z negb heap_of as_ptr storable].

(* a value array handle at block vb: value type, encoding, value1, object1, object2 *)
Definition va_block (h : heap) (vb : nat) (ty enc v1 : Z) (o1 o2 : val) : Prop :=
  nth_error h vb = Some (Some [VInt ty; VInt enc; VInt v1; o1; o2]).
(* an object header at block ob: value type, count, data pointer *)
Definition obj_block (h : heap) (ob : nat) (ty cnt : Z) (data : val) : Prop :=
  nth_error h ob = Some (Some [VInt ty; VInt cnt; data]).

(* what sbdf_va_row_cnt answers *)
Definition row_cnt_of (enc v1 cnt : Z) : Z :=
  if enc =? SBDF_PLAINARRAYENCODINGTYPEID then cnt
  else if (enc =? SBDF_RUNLENGTHENCODINGTYPEID) || (enc =? SBDF_BITARRAYENCODINGTYPEID) then v1
  else SBDF_ERROR_UNKNOWN_VALUEARRAY_ENCODING.

Section Slices.
Variables (bv : val) (k : Z) (sx : list Z) (m o : list Z).

Lemma va_row_cnt_bs h vb ty enc v1 o1 o2 ob oty cnt data :
  va_block h vb ty enc v1 o1 o2 -> int_min <= enc <= int_max ->
  (enc = SBDF_PLAINARRAYENCODINGTYPEID -> as_ptr o1 = VCell ob 0 /\ obj_block h ob oty cnt data) ->
  bsE prog_env (fbody prog_sbdf_va_row_cnt) (fr [("in"%string, VCell vb 0)] bv k sx h m o)
    (OReturn (VInt (row_cnt_of enc v1 cnt)) (fr [("in"%string, VCell vb 0)] bv k sx h m o)).
Proof.
  intros Hv He Hp. unfold va_block in Hv. cbn [fbody prog_sbdf_va_row_cnt]. unfold fr, row_cnt_of.
  change SBDF_PLAINARRAYENCODINGTYPEID with 1 in *. change SBDF_RUNLENGTHENCODINGTYPEID with 2. change SBDF_BITARRAYENCODINGTYPEID with 3.
  eapply bsE_seq; [eapply bsE_if; [evc; reflexivity|reflexivity|apply bsE_skip]|].
  assert (L : forall c, 0 <= c <= 3 -> eval (EBin Eq (ECellLoad (EVar "in") (EConst 1) false) (EConst c))
      {| vars := [("in"%string, VCell vb 0); (budget_var, bv); (fail_var, VInt k); (strm_var, VBytes sx); (cells_var, VHeap h)]; inb := m; outb := o |}
      = Some (VInt (b2z (enc =? c)), {| vars := [("in"%string, VCell vb 0); (budget_var, bv); (fail_var, VInt k); (strm_var, VBytes sx); (cells_var, VHeap h)]; inb := m; outb := o |})).
  { intros c Hc. evc. chk7. evc. cellrw Hv. evc. chk7. reflexivity. }
  destruct (enc =? 1) eqn:E1.
  - destruct (Hp ltac:(lia)) as (Ho1 & Hob). unfold obj_block in Hob.
    eapply bsE_seq_ret. eapply bsE_if; [cbn [app]; rewrite L by lia; rewrite E1; reflexivity|reflexivity|].
    eapply bsE_return. evc. chk7. evc. cellrw Hv. evc. rewrite Ho1. chk7. evc. cellrw Hob. reflexivity.
  - destruct (enc =? 2) eqn:E2; [|destruct (enc =? 3) eqn:E3]; cbn [orb].
    + eapply bsE_seq_ret. eapply bsE_if; [cbn [app]; rewrite L by lia; rewrite E1; reflexivity|reflexivity|].
      eapply bsE_if; [rewrite L by lia; rewrite E2; reflexivity|reflexivity|]. eapply bsE_return. evc. chk7. evc. cellrw Hv. reflexivity.
    + eapply bsE_seq_ret. eapply bsE_if; [cbn [app]; rewrite L by lia; rewrite E1; reflexivity|reflexivity|].
      eapply bsE_if; [rewrite L by lia; rewrite E2; reflexivity|reflexivity|].
      eapply bsE_if; [rewrite L by lia; rewrite E3; reflexivity|reflexivity|]. eapply bsE_return. evc. chk7. evc. cellrw Hv. reflexivity.
    + eapply bsE_seq; [eapply bsE_if; [cbn [app]; rewrite L by lia; rewrite E1; reflexivity|reflexivity|]|].
      { eapply bsE_if; [rewrite L by lia; rewrite E2; reflexivity|reflexivity|].
        eapply bsE_if; [rewrite L by lia; rewrite E3; reflexivity|reflexivity|apply bsE_skip]. }
      eapply bsE_return. evc. chk7. reflexivity.
Qed.


(* a column slice at block cb: values, property count, names array, properties array, owned flag *)
Definition cs_block (h : heap) (cb : nat) (values : val) (n : Z) (names props : val) (owned : Z) : Prop :=
  nth_error h cb = Some (Some [values; VInt n; names; props; VInt owned]).

Lemma cs_row_cnt_bs h cb values n names props owned vb ty enc v1 o1 o2 ob oty cnt data r0 :
  cs_block h cb values n names props owned -> as_ptr values = VCell vb 0 ->
  va_block h vb ty enc v1 o1 o2 -> int_min <= enc <= int_max ->
  (enc = SBDF_PLAINARRAYENCODINGTYPEID -> as_ptr o1 = VCell ob 0 /\ obj_block h ob oty cnt data) ->
  bsE prog_env (fbody prog_sbdf_cs_row_cnt) (fr [("in"%string, VCell cb 0); ("$ret"%string, r0)] bv k sx h m o)
    (OReturn (VInt (row_cnt_of enc v1 cnt)) (fr [("in"%string, VCell cb 0); ("$ret"%string, VInt (row_cnt_of enc v1 cnt))] bv k sx h m o)).
Proof.
  intros Hc Hvals Hv He Hp. unfold cs_block in Hc. cbn [fbody prog_sbdf_cs_row_cnt]. unfold fr.
  pose proof (va_row_cnt_bs h vb ty enc v1 o1 o2 ob oty cnt data Hv He Hp) as B. unfold fr in B. cbn [app] in B.
  eapply bsE_seq; [eapply bsE_if; [evc; reflexivity|reflexivity|apply bsE_skip]|].
  eapply bsE_seq; [eapply bsE_call; [reflexivity|evcc; chk7; evcc; cellrw Hc; evcc; rewrite Hvals; reflexivity|reflexivity|evcc; exact B|evcc; reflexivity]|].
  eapply bsE_return. evc. reflexivity.
Qed.

(* ---- sbdf_cs_create: a fresh slice referring to the caller's value array, no properties, not owning ---- *)
Lemma cs_create_bs h outv values t0 c0 : is_ptr outv -> storable values = true -> values <> VUndef ->
  bsE prog_env (fbody prog_sbdf_cs_create) (fr [("out"%string, outv); ("values"%string, values); ("t"%string, t0); ("*out"%string, c0)] bv k sx h m o)
    (if k =? 0 then OReturn (VInt SBDF_ERROR_OUT_OF_MEMORY) (fr [("out"%string, outv); ("values"%string, values); ("t"%string, VNull); ("*out"%string, c0)] bv (-1) sx h m o)
     else OReturn (VInt SBDF_OK) (fr [("out"%string, outv); ("values"%string, values); ("t"%string, VCell (List.length h) 0); ("*out"%string, VCell (List.length h) 0)] bv (next_fail k) sx
                                     (h ++ [Some [values; VInt 0; VInt 0; VInt 0; VInt 0]]) m o)).
Proof.
  intros Ho Hst Hu. destruct outv as [| pr po | | | | |]; try contradiction. cbn [fbody prog_sbdf_cs_create]. unfold fr.
  assert (Hn : nth_error (h ++ [Some [VInt 0; VInt 0; VInt 0; VInt 0; VInt 0]]) (List.length h) = Some (Some [VInt 0; VInt 0; VInt 0; VInt 0; VInt 0])) by (rewrite nth_error_app2 by lia; rewrite Nat.sub_diag; reflexivity).
  assert (Hs : forall x y, set_nth_v (List.length h) (Some y) (h ++ [Some x]) = Some (h ++ [Some y])).
  { clear. intros x y. induction h as [|z h IH]; cbn [List.length app set_nth_v]; [reflexivity|]. now rewrite IH. }
  destruct values as [z|r q| | | |cb ci|]; try discriminate; try congruence.
  all: (eapply bsE_seq; [eapply bsE_decl1; [evc; reflexivity|evc; reflexivity]|]);
       (eapply bsE_seq; [eapply bsE_if; [evc; reflexivity|reflexivity|apply bsE_skip]|]);
       destruct (k =? 0) eqn:Ek;
       [ (eapply bsE_seq; [eapply bsE_expr; evc; chk7; evc; rewrite Ek; evc; reflexivity|]);
         eapply bsE_seq_ret; (eapply bsE_if; [evc; reflexivity|reflexivity|]); eapply bsE_return; evc; chk7; reflexivity
       | (eapply bsE_seq; [eapply bsE_expr; evc; chk7; evc; rewrite Ek; evc; reflexivity|]);
         (eapply bsE_seq; [eapply bsE_if; [evc; reflexivity|reflexivity|apply bsE_skip]|]);
         (eapply bsE_seq; [eapply bsE_expr; evc; chk7; evc;
              change (repeat (VInt 0) (Z.to_nat 5)) with [VInt 0; VInt 0; VInt 0; VInt 0; VInt 0]; cellrw Hn; rewrite Hs; evc; reflexivity|]);
         (eapply bsE_seq; [eapply bsE_expr; evc; reflexivity|]); eapply bsE_return; evc; chk7; unfold next_fail; reflexivity ].
Qed.


(* ---- sbdf_cs_get_property: the first property with that name ---- *)
Fixpoint find_name (name : list Z) (pn : list (list Z)) (i : Z) : option Z :=
  match pn with
  | [] => None
  | nm :: rest => if list_eqb name nm then Some i else find_name name rest (i + 1)
  end.

(* cell j of the names array points at the NUL-terminated j-th name *)
Definition names_at (m : list Z) (cells : list val) (pn : list (list Z)) : Prop :=
  forall j nm, nth_error pn j = Some nm -> exists np, nth_error cells j = Some (VPtr RIn np) /\ cstr_at m np nm.

Lemma cs_get_loop h cb values names props owned nb ncells pb pcells q name outv pn :
  cs_block h cb values (zlen pn) names props owned ->
  as_ptr names = VCell nb 0 -> nth_error h nb = Some (Some ncells) -> names_at m ncells pn ->
  as_ptr props = VCell pb 0 -> nth_error h pb = Some (Some pcells) -> (List.length pn <= List.length pcells)%nat ->
  cstr_at m q name -> zlen pn < int_max ->
  forall rest done c0, pn = done ++ rest ->
  exists iv cv, bsE prog_env
    (SWhile (EBin Lt (EVar "i") (ECellLoad (EVar "in") (EConst 1) false))
       (SSeq (SIf (ELNot (EStrcmp (EVar "name") (ECellLoad (ECellLoad (EVar "in") (EConst 2) true) (EVar "i") true)))
                  (SSeq (SExpr (EAssign "*out" (ECellLoad (ECellLoad (EVar "in") (EConst 3) true) (EVar "i") true))) (SReturn (EConst (0)))) SSkip)
             (SExpr (EPreInc "i"))))
    (fr [("in"%string, VCell cb 0); ("name"%string, VPtr RIn q); ("out"%string, outv); ("i"%string, VInt (zlen done)); ("*out"%string, c0)] bv k sx h m o)
    (match find_name name rest (zlen done) with
     | Some j => OReturn (VInt 0) (fr [("in"%string, VCell cb 0); ("name"%string, VPtr RIn q); ("out"%string, outv); ("i"%string, VInt j);
                                       ("*out"%string, as_ptr (nth (Z.to_nat j) pcells VUndef))] bv k sx h m o)
     | None => ONormal (fr [("in"%string, VCell cb 0); ("name"%string, VPtr RIn q); ("out"%string, outv); ("i"%string, iv); ("*out"%string, cv)] bv k sx h m o)
     end) /\ (find_name name rest (zlen done) = None -> cv = c0).
Proof.
  intros Hc Hn Hnb Hna Hp Hpb Hlen (Hq0 & Hq1) Hmax. unfold cs_block in Hc. unfold int_max in Hmax.
  induction rest as [|nm rest IH]; intros done c0 Hpn; unfold fr.
  - cbn [find_name]. rewrite app_nil_r in Hpn. subst done. exists (VInt (zlen pn)), c0. split; [|reflexivity].
    eapply bsE_while_f; [evc; chk7; evc; cellrw Hc; evc; rewrite Z.ltb_irrefl; reflexivity|reflexivity].
  - cbn [find_name].
    assert (Hj : nth_error pn (List.length done) = Some nm) by (rewrite Hpn, nth_error_app2 by lia; rewrite Nat.sub_diag; reflexivity).
    destruct (Hna _ _ Hj) as (np & Hnc & Hs0 & Hs1).
    assert (Hd : zlen done < zlen pn) by (rewrite Hpn, zlen_app; unfold zlen; cbn [List.length]; lia).
    pose proof (zlen_nonneg done) as Pd.
    assert (Hi : 0 <=? 0 + zlen done = true) by lia.
    assert (Hidx : Z.to_nat (0 + zlen done) = List.length done) by (unfold zlen; lia).
    assert (COND : eval (EBin Lt (EVar "i") (ECellLoad (EVar "in") (EConst 1) false))
         {| vars := [("in"%string, VCell cb 0); ("name"%string, VPtr RIn q); ("out"%string, outv); ("i"%string, VInt (zlen done)); ("*out"%string, c0);
                     (budget_var, bv); (fail_var, VInt k); (strm_var, VBytes sx); (cells_var, VHeap h)]; inb := m; outb := o |}
         = Some (VInt 1, {| vars := [("in"%string, VCell cb 0); ("name"%string, VPtr RIn q); ("out"%string, outv); ("i"%string, VInt (zlen done)); ("*out"%string, c0);
                     (budget_var, bv); (fail_var, VInt k); (strm_var, VBytes sx); (cells_var, VHeap h)]; inb := m; outb := o |})).
    { evc. chk7. evc. cellrw Hc. evc. replace (zlen done <? zlen pn) with true by lia. reflexivity. }
    assert (CMP : eval (ELNot (EStrcmp (EVar "name") (ECellLoad (ECellLoad (EVar "in") (EConst 2) true) (EVar "i") true)))
         {| vars := [("in"%string, VCell cb 0); ("name"%string, VPtr RIn q); ("out"%string, outv); ("i"%string, VInt (zlen done)); ("*out"%string, c0);
                     (budget_var, bv); (fail_var, VInt k); (strm_var, VBytes sx); (cells_var, VHeap h)]; inb := m; outb := o |}
         = Some (VInt (b2z (negb (negb (lexcmp_l name nm =? 0)))),
                 {| vars := [("in"%string, VCell cb 0); ("name"%string, VPtr RIn q); ("out"%string, outv); ("i"%string, VInt (zlen done)); ("*out"%string, c0);
                     (budget_var, bv); (fail_var, VInt k); (strm_var, VBytes sx); (cells_var, VHeap h)]; inb := m; outb := o |})).
    { evc. chk7. evc. cellrw Hc. evc. rewrite Hn. evc. unfold cell_get. rewrite Hnb, Hi, Hidx, Hnc. evc. cbn [inb]. rewrite zlen_length.
      replace ((0 <=? q) && (q <=? zlen m) && (0 <=? np) && (np <=? zlen m)) with true by lia. rewrite Hq1, Hs1. reflexivity. }
    destruct (list_eqb name nm) eqn:E.
    + apply list_eqb_spec in E. subst nm. exists VUndef, VUndef. split; [|discriminate].
      assert (Hpc : exists pvv, nth_error pcells (List.length done) = Some pvv).
      { destruct (nth_error pcells (List.length done)) eqn:X; [eexists; reflexivity|]. apply nth_error_None in X. assert (List.length done < List.length pn)%nat by (apply nth_error_Some; congruence). lia. }
      destruct Hpc as (pvv & Hpc).
      eapply bsE_while_ret; [exact COND|reflexivity|].
      eapply bsE_seq_ret. eapply bsE_if; [exact CMP| |].
      * replace (lexcmp_l name name) with 0 by (symmetry; now apply lexcmp_l_eq). reflexivity.
      * eapply bsE_seq; [eapply bsE_expr; evc; chk7; evc; cellrw Hc; evc; rewrite Hp; evc; unfold cell_get; rewrite Hpb, Hi, Hidx, Hpc; evc; reflexivity|].
        eapply bsE_return. evc. chk7. replace (Z.to_nat (zlen done)) with (List.length done) by (unfold zlen; lia).
        rewrite (nth_error_nth _ _ VUndef Hpc). reflexivity.
    + assert (Hne : lexcmp_l name nm <> 0). { intros C. apply lexcmp_l_eq in C. subst nm. assert (list_eqb name name = true) by now apply list_eqb_spec. congruence. }
      destruct (IH (done ++ [nm]) c0) as (iv & cv & B & Hcv); [rewrite <- app_assoc; exact Hpn|].
      assert (Hz : zlen (done ++ [nm]) = zlen done + 1) by (rewrite zlen_app; reflexivity). rewrite Hz in *.
      exists iv, cv. split; [|exact Hcv].
      assert (STEP : bsE prog_env (SSeq (SIf (ELNot (EStrcmp (EVar "name") (ECellLoad (ECellLoad (EVar "in") (EConst 2) true) (EVar "i") true)))
                  (SSeq (SExpr (EAssign "*out" (ECellLoad (ECellLoad (EVar "in") (EConst 3) true) (EVar "i") true))) (SReturn (EConst (0)))) SSkip)
             (SExpr (EPreInc "i")))
         {| vars := [("in"%string, VCell cb 0); ("name"%string, VPtr RIn q); ("out"%string, outv); ("i"%string, VInt (zlen done)); ("*out"%string, c0);
                     (budget_var, bv); (fail_var, VInt k); (strm_var, VBytes sx); (cells_var, VHeap h)]; inb := m; outb := o |}
         (ONormal (fr [("in"%string, VCell cb 0); ("name"%string, VPtr RIn q); ("out"%string, outv); ("i"%string, VInt (zlen done + 1)); ("*out"%string, c0)] bv k sx h m o))).
      { eapply bsE_seq; [eapply bsE_if; [exact CMP|destruct (lexcmp_l name nm =? 0) eqn:Z0; [lia|reflexivity]|apply bsE_skip]|].
        eapply bsE_expr. evc. unfold incr. chk7. evc. reflexivity. }
      destruct (find_name name rest (zlen done + 1)); (eapply bsE_while_t; [exact COND|reflexivity|exact STEP|exact B]).
Qed.


Lemma cs_get_property_bs h cb values names props owned nb ncells pb pcells q name outv pn i0 c0 : is_ptr outv ->
  cs_block h cb values (zlen pn) names props owned ->
  as_ptr names = VCell nb 0 -> nth_error h nb = Some (Some ncells) -> names_at m ncells pn ->
  as_ptr props = VCell pb 0 -> nth_error h pb = Some (Some pcells) -> (List.length pn <= List.length pcells)%nat ->
  cstr_at m q name -> zlen pn < int_max ->
  exists iv cv, bsE prog_env (fbody prog_sbdf_cs_get_property)
    (fr [("in"%string, VCell cb 0); ("name"%string, VPtr RIn q); ("out"%string, outv); ("i"%string, i0); ("*out"%string, c0)] bv k sx h m o)
    (match find_name name pn 0 with
     | Some j => OReturn (VInt SBDF_OK) (fr [("in"%string, VCell cb 0); ("name"%string, VPtr RIn q); ("out"%string, outv); ("i"%string, VInt j);
                                       ("*out"%string, as_ptr (nth (Z.to_nat j) pcells VUndef))] bv k sx h m o)
     | None => OReturn (VInt SBDF_ERROR_PROPERTY_NOT_FOUND) (fr [("in"%string, VCell cb 0); ("name"%string, VPtr RIn q); ("out"%string, outv); ("i"%string, iv); ("*out"%string, cv)] bv k sx h m o)
     end) /\ (find_name name pn 0 = None -> cv = c0).
Proof.
  intros Ho Hc Hn Hnb Hna Hp Hpb Hlen Hq Hmax. destruct outv as [| pr po | | | | |]; try contradiction.
  destruct (cs_get_loop h cb values names props owned nb ncells pb pcells q name (VPtr pr po) pn Hc Hn Hnb Hna Hp Hpb Hlen Hq Hmax pn [] c0 eq_refl) as (iv & cv & B & Hcv).
  change (zlen (@nil (list Z))) with 0 in *. exists iv, cv. split; [|exact Hcv].
  cbn [fbody prog_sbdf_cs_get_property]. unfold fr in *.
  eapply bsE_seq; [eapply bsE_decl0; evc; reflexivity|].
  eapply bsE_seq; [eapply bsE_if; [evc; reflexivity|reflexivity|apply bsE_skip]|].
  destruct (find_name name pn 0).
  - eapply bsE_seq_ret. eapply bsE_seq; [eapply bsE_expr; evc; chk7; evc; reflexivity|]. exact B.
  - eapply bsE_seq; [eapply bsE_seq; [eapply bsE_expr; evc; chk7; evc; reflexivity|exact B]|].
    eapply bsE_return. evc. chk7. reflexivity.
Qed.

End Slices.

Theorem va_row_cnt_source k sx m h vb ty enc v1 o1 o2 ob oty cnt data :
  va_block h vb ty enc v1 o1 o2 -> int_min <= enc <= int_max ->
  (enc = SBDF_PLAINARRAYENCODINGTYPEID -> as_ptr o1 = VCell ob 0 /\ obj_block h ob oty cnt data) ->
  exists f0, forall f, (f0 <= f)%nat -> exists fin,
    callC prog_env f prog_sbdf_va_row_cnt [VCell vb 0] m k sx h = OReturn (VInt (row_cnt_of enc v1 cnt)) fin /\
    inb fin = m /\ lookup cells_var (vars fin) = Some (VHeap h).
Proof.
  intros Hv He Hp. destruct (bsE_sound _ _ _ _ (va_row_cnt_bs (VInt 0) k sx m [] h vb ty enc v1 o1 o2 ob oty cnt data Hv He Hp)) as (f0 & F).
  exists f0. intros f Hf. eexists. split; [apply F; exact Hf|]. split; reflexivity.
Qed.

Theorem cs_row_cnt_source k sx m h cb values n names props owned vb ty enc v1 o1 o2 ob oty cnt data :
  cs_block h cb values n names props owned -> as_ptr values = VCell vb 0 ->
  va_block h vb ty enc v1 o1 o2 -> int_min <= enc <= int_max ->
  (enc = SBDF_PLAINARRAYENCODINGTYPEID -> as_ptr o1 = VCell ob 0 /\ obj_block h ob oty cnt data) ->
  exists f0, forall f, (f0 <= f)%nat -> exists fin,
    callC prog_env f prog_sbdf_cs_row_cnt [VCell cb 0] m k sx h = OReturn (VInt (row_cnt_of enc v1 cnt)) fin /\
    inb fin = m /\ lookup cells_var (vars fin) = Some (VHeap h).
Proof.
  intros Hc Hvals Hv He Hp.
  destruct (bsE_sound _ _ _ _ (cs_row_cnt_bs (VInt 0) k sx m [] h cb values n names props owned vb ty enc v1 o1 o2 ob oty cnt data VUndef Hc Hvals Hv He Hp)) as (f0 & F).
  exists f0. intros f Hf. eexists. split; [apply F; exact Hf|]. split; reflexivity.
Qed.

Theorem cs_create_source k sx m h vb :
  exists f0, forall f, (f0 <= f)%nat -> exists fin,
    callC prog_env f prog_sbdf_cs_create [tok; VCell vb 0] m k sx h =
      OReturn (VInt (if k =? 0 then SBDF_ERROR_OUT_OF_MEMORY else SBDF_OK)) fin /\ inb fin = m /\
    (if k =? 0 then lookup cells_var (vars fin) = Some (VHeap h)
     else lookup cells_var (vars fin) = Some (VHeap (h ++ [Some [VCell vb 0; VInt 0; VInt 0; VInt 0; VInt 0]])) /\
          lookup "*out" (vars fin) = Some (VCell (List.length h) 0)).
Proof.
  pose proof (cs_create_bs (VInt 0) k sx m [] h tok (VCell vb 0) VUndef VUndef I eq_refl ltac:(discriminate)) as B.
  destruct (k =? 0); destruct (bsE_sound _ _ _ _ B) as (f0 & F); exists f0; intros f Hf; eexists; (split; [apply F; exact Hf|]); (split; [reflexivity|]).
  - reflexivity.
  - split; reflexivity.
Qed.

Theorem cs_get_property_source k sx m h cb values names props owned nb ncells pb pcells q name pn :
  cs_block h cb values (zlen pn) names props owned ->
  as_ptr names = VCell nb 0 -> nth_error h nb = Some (Some ncells) -> names_at m ncells pn ->
  as_ptr props = VCell pb 0 -> nth_error h pb = Some (Some pcells) -> (List.length pn <= List.length pcells)%nat ->
  cstr_at m q name -> zlen pn < int_max ->
  exists f0, forall f, (f0 <= f)%nat -> exists fin,
    callC prog_env f prog_sbdf_cs_get_property [VCell cb 0; VPtr RIn q; tok] m k sx h =
      OReturn (VInt (match find_name name pn 0 with Some _ => SBDF_OK | None => SBDF_ERROR_PROPERTY_NOT_FOUND end)) fin /\
    inb fin = m /\ lookup cells_var (vars fin) = Some (VHeap h) /\
    lookup "*out" (vars fin) = Some (match find_name name pn 0 with Some j => as_ptr (nth (Z.to_nat j) pcells VUndef) | None => VUndef end).
Proof.
  intros Hc Hn Hnb Hna Hp Hpb Hlen Hq Hmax.
  destruct (cs_get_property_bs (VInt 0) k sx m [] h cb values names props owned nb ncells pb pcells q name tok pn VUndef VUndef I Hc Hn Hnb Hna Hp Hpb Hlen Hq Hmax) as (iv & cv & B & Hcv).
  destruct (find_name name pn 0) eqn:Ef; destruct (bsE_sound _ _ _ _ B) as (f0 & F); exists f0; intros f Hf; eexists; (split; [apply F; exact Hf|]); (split; [reflexivity|]); (split; [reflexivity|]).
  - reflexivity.
  - cbn [fr vars app lookup String.eqb Ascii.eqb Bool.eqb]. rewrite (Hcv eq_refl). reflexivity.
Qed.

(* ================================================================== sbdf_obj_destroy *)
(* an object in the two heaps: header block ob; for string / binary types the data block db holds one
   pointer per element into the byte memory (each at least 4 bytes in: the length header sits in
   front); for the other types the data pointer points into the byte memory *)
Definition elem_ptrs (m : list Z) (cells : list val) : Prop :=
  Forall (fun c => exists p, c = VPtr RIn p /\ 4 <= p <= zlen m) cells.

Section Destroy.
Variables (bv : val) (k : Z) (sx : list Z) (m o : list Z).

Lemma dispose_array_bs2 h p : 4 <= p <= zlen m ->
  bsE prog_env (fbody prog_sbdf_dispose_array) (fr [("array"%string, VPtr RIn p)] bv k sx h m o) (ONormal (fr [("array"%string, VPtr RIn p)] bv k sx h m o)).
Proof.
  intros Hp. cbn [fbody prog_sbdf_dispose_array]. unfold fr.
  eapply bsE_if; [evc; reflexivity|reflexivity|]. eapply bsE_expr. evc. chk7. evc. chk7. evc. unfold ptr_add. cbn [inb]. rewrite zlen_length.
  replace ((0 <=? p + -4 * 1) && (p + -4 * 1 <=? zlen m)) with true by lia. cbn [inb]. rewrite zlen_length.
  replace ((0 <=? p + -4 * 1) && (p + -4 * 1 <=? zlen m)) with true by lia. reflexivity.
Qed.

(* the element loop: i counts down from count-1, ptr walks up the data block; every element is handed to sbdf_dispose_array once *)
Lemma obj_destroy_loop h ob db cells : nth_error h db = Some (Some cells) -> elem_ptrs m cells ->
  forall rest done, cells = done ++ rest -> zlen cells <= int_max ->
  bsE prog_env
    (SWhile (EBin Ge (EVar "i") (EConst (0)))
       (SSeq (SIf (ECellLoad (EVar "ptr") (EConst 0) true) (SCall None "sbdf_dispose_array" [(AVal (ECellLoad (ECellStep "ptr" (1) true) (EConst 0) true))]) SSkip)
             (SExpr (EPreDec "i"))))
    (fr [("object"%string, VCell ob 0); ("i"%string, VInt (zlen rest - 1)); ("ptr"%string, VCell db (zlen done))] bv k sx h m o)
    (ONormal (fr [("object"%string, VCell ob 0); ("i"%string, VInt (-1)); ("ptr"%string, VCell db (zlen cells))] bv k sx h m o)).
Proof.
  intros Hdb Hel. induction rest as [|c rest IH]; intros done Hc Hmax; unfold fr.
  - rewrite app_nil_r in Hc. subst done. change (zlen (@nil val) - 1) with (-1).
    eapply bsE_while_f; [evc; chk7; evc; reflexivity|reflexivity].
  - assert (Hin : In c cells) by (rewrite Hc; apply in_or_app; right; left; reflexivity).
    unfold elem_ptrs in Hel. rewrite Forall_forall in Hel. destruct (Hel c Hin) as (p & -> & Hp).
    pose proof (zlen_nonneg rest) as Pr. pose proof (zlen_nonneg done) as Pd.
    assert (Hz : zlen (VPtr RIn p :: rest) = 1 + zlen rest) by (unfold zlen; cbn [List.length]; lia). rewrite Hz.
    assert (Hzc : zlen cells = zlen done + 1 + zlen rest) by (rewrite Hc, zlen_app, Hz; lia).
    assert (Hnth : nth_error cells (Z.to_nat (zlen done)) = Some (VPtr RIn p)).
    { rewrite Hc. replace (Z.to_nat (zlen done)) with (List.length done) by (unfold zlen; lia). rewrite nth_error_app2 by lia. rewrite Nat.sub_diag. reflexivity. }
    unfold int_max in Hmax.
    eapply bsE_while_t; [evc; chk7; evc; replace (1 + zlen rest - 1 >=? 0) with true by lia; reflexivity|reflexivity| |].
    + eapply bsE_seq.
      * eapply bsE_if; [evc; chk7; evc; unfold cell_get; rewrite Hdb; replace (0 <=? zlen done + 0) with true by lia; replace (zlen done + 0) with (zlen done) by lia; rewrite Hnth; evc; reflexivity|reflexivity|].
        eapply bsE_call_void; [reflexivity
          |evcc; rewrite Hdb; rewrite zlen_length; replace ((0 <=? zlen done + 1) && (zlen done + 1 <=? zlen cells)) with true by lia; evcc; chk7; evcc;
           unfold cell_get; rewrite Hdb; replace (0 <=? zlen done + 0) with true by lia; replace (zlen done + 0) with (zlen done) by lia; rewrite Hnth; evcc; reflexivity
          |reflexivity|apply (dispose_array_bs2 h p Hp)|unfold fr; evcc; reflexivity].
      * eapply bsE_expr. evc. unfold decr. chk7. evc. reflexivity.
    + replace (1 + zlen rest - 1 - 1) with (zlen rest - 1) by lia.
      replace (zlen done + 1) with (zlen (done ++ [VPtr RIn p])) by (rewrite zlen_app; reflexivity).
      apply IH; [rewrite <- app_assoc; exact Hc|exact Hmax].
Qed.


(* releasing a block *)
Definition kill (b : nat) (h : heap) : heap := match set_nth_v b None h with Some h' => h' | None => h end.

Lemma set_nth_v_some {A} (l : list A) : forall b x y, nth_error l b = Some x -> exists l', set_nth_v b y l = Some l'.
Proof. induction l as [|z l IH]; intros [|b] x y H; cbn [nth_error] in H; try discriminate; cbn [set_nth_v]; [eexists; reflexivity|]. destruct (IH b x y H) as (l' & ->). eexists; reflexivity. Qed.
Lemma set_nth_v_same {A} (l : list A) : forall b y l', set_nth_v b y l = Some l' -> nth_error l' b = Some y.
Proof. induction l as [|z l IH]; intros [|b] y l' H; cbn [set_nth_v] in H; try discriminate; [injection H as <-; reflexivity|].
  destruct (set_nth_v b y l) eqn:E; [|discriminate]. injection H as <-. cbn [nth_error]. now apply IH. Qed.
Lemma set_nth_v_other {A} (l : list A) : forall b c y l', set_nth_v b y l = Some l' -> b <> c -> nth_error l' c = nth_error l c.
Proof. induction l as [|z l IH]; intros [|b] c y l' H Hn; cbn [set_nth_v] in H; try discriminate.
  - injection H as <-. destruct c; [congruence|reflexivity].
  - destruct (set_nth_v b y l) eqn:E; [|discriminate]. injection H as <-. destruct c; [reflexivity|]. cbn [nth_error]. apply (IH b c y); [exact E|congruence]. Qed.
Lemma set_nth_v_twice {A} (l : list A) : forall b y z l1, set_nth_v b y l = Some l1 -> set_nth_v b z l1 = set_nth_v b z l.
Proof. induction l as [|x l IH]; intros [|b] y z l1 H; cbn [set_nth_v] in H; try discriminate; [injection H as <-; reflexivity|].
  destruct (set_nth_v b y l) eqn:E; [|discriminate]. injection H as <-. cbn [set_nth_v]. now rewrite (IH b y z l0 E). Qed.

(* string / binary objects: every element, the pointer array and the header are released, each once *)
Lemma obj_destroy_arr_bs h ob db ty cells data i0 p0 : obj_block h ob ty (zlen cells) data -> as_ptr data = VCell db 0 -> ob <> db ->
  Leaf.gen_sbdf_ti_is_arr ty <> 0 -> nth_error h db = Some (Some cells) -> elem_ptrs m cells -> zlen cells <= int_max ->
  exists iv pv, bsE prog_env (fbody prog_sbdf_obj_destroy) (fr [("object"%string, VCell ob 0); ("i"%string, i0); ("ptr"%string, p0)] bv k sx h m o)
    (ONormal (fr [("object"%string, VCell ob 0); ("i"%string, iv); ("ptr"%string, pv)] bv k sx (kill ob (kill db h)) m o)).
Proof.
  intros Hob Hd Hne Harr Hdb Hel Hmax. unfold obj_block in Hob. cbn [fbody prog_sbdf_obj_destroy]. unfold fr.
  pose proof (obj_destroy_loop h ob db cells Hdb Hel cells [] eq_refl Hmax) as LOOP. change (zlen (@nil val)) with 0 in LOOP. unfold fr in LOOP. cbn [app] in LOOP.
  destruct (set_nth_v_some h db (Some cells) None Hdb) as (h1 & E1).
  assert (Hob1 : nth_error h1 ob = Some (Some [VInt ty; VInt (zlen cells); data])) by (rewrite (set_nth_v_other h db ob None h1 E1) by congruence; exact Hob).
  destruct (set_nth_v_some h1 ob _ (Some [VInt ty; VInt (zlen cells); VNull]) Hob1) as (h2 & E2).
  assert (Hob2 : nth_error h2 ob = Some (Some [VInt ty; VInt (zlen cells); VNull])) by (apply (set_nth_v_same h1 ob _ h2 E2)).
  destruct (set_nth_v_some h2 ob _ None Hob2) as (h3 & E3).
  assert (Hfin : kill ob (kill db h) = h3).
  { unfold kill. rewrite E1. rewrite <- (set_nth_v_twice h1 ob (Some [VInt ty; VInt (zlen cells); VNull]) None h2 E2). rewrite E3. reflexivity. }
  rewrite Hfin. unfold int_max in Hmax. pose proof (zlen_nonneg cells) as Pc.
  exists (VInt (-1)), (VCell db (zlen cells)).
  eapply bsE_if; [evc; reflexivity|reflexivity|].
  eapply bsE_seq.
  - eapply bsE_if; [evc; chk7; evc; cellrw Hob; evc; rewrite Hd; reflexivity|reflexivity|].
    eapply bsE_seq.
    + eapply bsE_if; [evc; chk7; evc; cellrw Hob; evc; unfold leaf_call; cbn [String.eqb Ascii.eqb Bool.eqb]; reflexivity
                     |cbn [truth]; destruct (Leaf.gen_sbdf_ti_is_arr ty =? 0) eqn:Z0; [lia|reflexivity]|].
      eapply bsE_seq; [eapply bsE_decl1; [evc; chk7; evc; cellrw Hob; evc; rewrite Hd; reflexivity|evc; reflexivity]|].
      eapply bsE_seq; [eapply bsE_decl0; evc; reflexivity|].
      eapply bsE_seq; [eapply bsE_expr; evc; chk7; evc; cellrw Hob; evc; chk7; evc; reflexivity|].
      exact LOOP.
    + eapply bsE_seq.
      * eapply bsE_expr. evc. chk7. evc. cellrw Hob. evc. rewrite Hd. evc. rewrite Hdb. evc. rewrite E1. evc. reflexivity.
      * eapply bsE_expr. evc. chk7. evc. cellrw Hob1. rewrite E2. evc. reflexivity.
  - eapply bsE_expr. evc. rewrite Hob2. evc. rewrite E3. evc. reflexivity.
Qed.

(* the other types: the data block lives in the byte memory; the header is released *)
Lemma obj_destroy_fixed_bs h ob ty cnt data dp i0 p0 : obj_block h ob ty cnt data -> data = VPtr RIn dp -> 0 <= dp <= zlen m ->
  Leaf.gen_sbdf_ti_is_arr ty = 0 ->
  bsE prog_env (fbody prog_sbdf_obj_destroy) (fr [("object"%string, VCell ob 0); ("i"%string, i0); ("ptr"%string, p0)] bv k sx h m o)
    (ONormal (fr [("object"%string, VCell ob 0); ("i"%string, i0); ("ptr"%string, p0)] bv k sx (kill ob h) m o)).
Proof.
  intros Hob -> Hdp Harr. unfold obj_block in Hob. cbn [fbody prog_sbdf_obj_destroy]. unfold fr.
  destruct (set_nth_v_some h ob _ (Some [VInt ty; VInt cnt; VNull]) Hob) as (h2 & E2).
  assert (Hob2 : nth_error h2 ob = Some (Some [VInt ty; VInt cnt; VNull])) by (apply (set_nth_v_same h ob _ h2 E2)).
  destruct (set_nth_v_some h2 ob _ None Hob2) as (h3 & E3).
  assert (Hfin : kill ob h = h3) by (unfold kill; rewrite <- (set_nth_v_twice h ob (Some [VInt ty; VInt cnt; VNull]) None h2 E2); rewrite E3; reflexivity).
  rewrite Hfin.
  eapply bsE_if; [evc; reflexivity|reflexivity|].
  eapply bsE_seq.
  - eapply bsE_if; [evc; chk7; evc; cellrw Hob; evc; reflexivity|reflexivity|].
    eapply bsE_seq.
    + eapply bsE_if; [evc; chk7; evc; cellrw Hob; evc; unfold leaf_call; cbn [String.eqb Ascii.eqb Bool.eqb]; reflexivity
                     |cbn [truth]; rewrite Harr; reflexivity|apply bsE_skip].
    + eapply bsE_seq.
      * eapply bsE_expr. evc. chk7. evc. cellrw Hob. evc. cbn [inb]. rewrite zlen_length. replace ((0 <=? dp) && (dp <=? zlen m)) with true by lia. reflexivity.
      * eapply bsE_expr. evc. chk7. evc. cellrw Hob. rewrite E2. evc. reflexivity.
  - eapply bsE_expr. evc. rewrite Hob2. evc. rewrite E3. evc. reflexivity.
Qed.

End Destroy.

(* what one sbdf_obj_destroy does to the cell heap *)
Definition destroys (m : list Z) (h : heap) (ob : nat) (h' : heap) : Prop :=
  (exists db ty cells data, obj_block h ob ty (zlen cells) data /\ as_ptr data = VCell db 0 /\ ob <> db /\ Leaf.gen_sbdf_ti_is_arr ty <> 0 /\
      nth_error h db = Some (Some cells) /\ elem_ptrs m cells /\ zlen cells <= int_max /\ h' = kill ob (kill db h)) \/
  (exists ty cnt dp, obj_block h ob ty cnt (VPtr RIn dp) /\ 0 <= dp <= zlen m /\ Leaf.gen_sbdf_ti_is_arr ty = 0 /\ h' = kill ob h).

Lemma obj_destroy_bs bv k sx m o h ob h' : destroys m h ob h' ->
  exists iv pv, bsE prog_env (fbody prog_sbdf_obj_destroy) (fr [("object"%string, VCell ob 0); ("i"%string, VUndef); ("ptr"%string, VUndef)] bv k sx h m o)
    (ONormal (fr [("object"%string, VCell ob 0); ("i"%string, iv); ("ptr"%string, pv)] bv k sx h' m o)).
Proof.
  intros [(db & ty & cells & data & H1 & H2 & H3 & H4 & H5 & H6 & H7 & ->)|(ty & cnt & dp & H1 & H2 & H3 & ->)].
  - apply (obj_destroy_arr_bs bv k sx m o h ob db ty cells data VUndef VUndef H1 H2 H3 H4 H5 H6 H7).
  - exists VUndef, VUndef. apply (obj_destroy_fixed_bs bv k sx m o h ob ty cnt (VPtr RIn dp) dp VUndef VUndef H1 eq_refl H2 H3).
Qed.

Theorem obj_destroy_source k sx m h ob h' : destroys m h ob h' ->
  exists f0, forall f, (f0 <= f)%nat -> exists fin,
    callC prog_env f prog_sbdf_obj_destroy [VCell ob 0] m k sx h = ONormal fin /\ inb fin = m /\ lookup cells_var (vars fin) = Some (VHeap h').
Proof.
  intros D. destruct (obj_destroy_bs (VInt 0) k sx m [] h ob h' D) as (iv & pv & B).
  destruct (bsE_sound _ _ _ _ B) as (f0 & F). exists f0. intros f Hf. eexists. split; [apply F; exact Hf|]. split; reflexivity.
Qed.

(* released blocks stay released, and releasing one block leaves the others alone *)
Lemma kill_other b c h : b <> c -> nth_error (kill b h) c = nth_error h c.
Proof. intros Hn. unfold kill. destruct (set_nth_v b None h) eqn:E; [|reflexivity]. apply (set_nth_v_other h b c None l E Hn). Qed.
Lemma kill_same b h x : nth_error h b = Some x -> nth_error (kill b h) b = Some None.
Proof. intros H. unfold kill. destruct (set_nth_v_some h b x None H) as (l & E). rewrite E. apply (set_nth_v_same h b None l E). Qed.

(* after the call the header is a released block: a second sbdf_obj_destroy (or any access) faults in this semantics *)
Lemma destroys_released m h ob h' : destroys m h ob h' -> nth_error h' ob = Some None.
Proof.
  intros [(db & ty & cells & data & H1 & H2 & H3 & H4 & H5 & H6 & H7 & ->)|(ty & cnt & dp & H1 & H2 & H3 & ->)]; unfold obj_block in H1.
  - apply (kill_same ob (kill db h) (Some [VInt ty; VInt (zlen cells); data])). rewrite kill_other by congruence. exact H1.
  - apply (kill_same ob h _ H1).
Qed.

(* ================================================================== sbdf_va_destroy *)
(* one optional sub-object: absent (null) - nothing happens; present - sbdf_obj_destroy's effect *)
Definition destroys_opt (m : list Z) (h : heap) (ov : val) (h' : heap) : Prop :=
  (as_ptr ov = VNull /\ h' = h) \/ (exists ob, as_ptr ov = VCell ob 0 /\ destroys m h ob h').

Lemma va_destroy_bs bv k sx m o h vb ty enc v1 o1 o2 h1 h2 :
  va_block h vb ty enc v1 o1 o2 -> destroys_opt m h o1 h1 -> destroys_opt m h1 o2 h2 ->
  nth_error h1 vb = nth_error h vb -> nth_error h2 vb = nth_error h vb ->
  bsE prog_env (fbody prog_sbdf_va_destroy) (fr [("handle"%string, VCell vb 0)] bv k sx h m o)
    (ONormal (fr [("handle"%string, VCell vb 0)] bv k sx (kill vb h2) m o)).
Proof.
  intros Hv D1 D2 K1 K2. unfold va_block in Hv. cbn [fbody prog_sbdf_va_destroy]. unfold fr.
  assert (Hv1 : nth_error h1 vb = Some (Some [VInt ty; VInt enc; VInt v1; o1; o2])) by (rewrite K1; exact Hv).
  assert (Hv2 : nth_error h2 vb = Some (Some [VInt ty; VInt enc; VInt v1; o1; o2])) by (rewrite K2; exact Hv).
  destruct (set_nth_v_some h2 vb _ None Hv2) as (h3 & E3).
  assert (Hfin : kill vb h2 = h3) by (unfold kill; rewrite E3; reflexivity). rewrite Hfin.
  eapply bsE_if; [evc; reflexivity|reflexivity|].
  eapply bsE_seq.
  { destruct D1 as [(N1 & ->)|(ob1 & P1 & D1)].
    - eapply bsE_if; [evc; chk7; evc; cellrw Hv; evc; rewrite N1; reflexivity|reflexivity|apply bsE_skip].
    - destruct (obj_destroy_bs bv k sx m o h ob1 h1 D1) as (iv & pv & B). unfold fr in B. cbn [app] in B.
      eapply bsE_if; [evc; chk7; evc; cellrw Hv; evc; rewrite P1; reflexivity|reflexivity|].
      eapply bsE_call_void; [reflexivity|evcc; chk7; evcc; cellrw Hv; evcc; rewrite P1; reflexivity|reflexivity|evcc; exact B|evcc; reflexivity]. }
  eapply bsE_seq.
  { destruct D2 as [(N2 & ->)|(ob2 & P2 & D2)].
    - eapply bsE_if; [evc; chk7; evc; cellrw Hv1; evc; rewrite N2; reflexivity|reflexivity|apply bsE_skip].
    - destruct (obj_destroy_bs bv k sx m o h1 ob2 h2 D2) as (iv & pv & B). unfold fr in B. cbn [app] in B.
      eapply bsE_if; [evc; chk7; evc; cellrw Hv1; evc; rewrite P2; reflexivity|reflexivity|].
      eapply bsE_call_void; [reflexivity|evcc; chk7; evcc; cellrw Hv1; evcc; rewrite P2; reflexivity|reflexivity|evcc; exact B|evcc; reflexivity]. }
  eapply bsE_expr. evc. rewrite Hv2. evc. rewrite E3. evc. reflexivity.
Qed.

Theorem va_destroy_source k sx m h vb ty enc v1 o1 o2 h1 h2 :
  va_block h vb ty enc v1 o1 o2 -> destroys_opt m h o1 h1 -> destroys_opt m h1 o2 h2 ->
  nth_error h1 vb = nth_error h vb -> nth_error h2 vb = nth_error h vb ->
  exists f0, forall f, (f0 <= f)%nat -> exists fin,
    callC prog_env f prog_sbdf_va_destroy [VCell vb 0] m k sx h = ONormal fin /\ inb fin = m /\ lookup cells_var (vars fin) = Some (VHeap (kill vb h2)).
Proof.
  intros Hv D1 D2 K1 K2. destruct (bsE_sound _ _ _ _ (va_destroy_bs (VInt 0) k sx m [] h vb ty enc v1 o1 o2 h1 h2 Hv D1 D2 K1 K2)) as (f0 & F).
  exists f0. intros f Hf. eexists. split; [apply F; exact Hf|]. split; reflexivity.
Qed.
