(* ImpFactsRead.v - sbdf_read_string of src/internals.c from the source: a stream (the pseudo-variable
   "$strm") read INTO freshly allocated memory.  sbdf_read_int32 is re-proved for frames whose stream
   is separate from the memory. *)
From Sbdf Require Import ImpCall Gen.Prog Gen.Consts Base Prim BaseFacts PrimFacts ImpBase ImpFactsSwapNoop ImpFactsInt32 ImpFactsHeap.
From Coq Require Import ZifyBool.
Local Open Scope Z_scope.
Ltac Zify.zify_post_hook ::= Z.div_mod_to_equations.

Ltac evr := cbn [eval lookup update set_var String.eqb Ascii.eqb Bool.eqb vars inb outb truth cast binop_int binop_uint is_shift b2z fst snd negb
                 budget_var fail_var strm_var cells_var stream_of set_stream];
  change (0 =? 0) with true; change (1 =? 0) with false; cbn [negb b2z].
Ltac evcr := cbn [prog_env eval_args callee_init finish_call copy_in copy_out try_update update lookup combine map app String.append
                 String.eqb Ascii.eqb Bool.eqb fparams flocals fbody vars inb outb budget_var fail_var strm_var cells_var cell_token List.length Nat.eqb eval set_var cast
                 prog_sbdf_swap_le prog_sbdf_read_int32 prog_sbdf_read_string prog_sbdf_str_create_len prog_sbdf_str_destroy prog_sbdf_dispose_array
                 truth binop_int b2z negb stream_of set_stream].

Section WithCells.
(* the cell heap (structs) is carried along untouched *)
Variable hc : list (option (list val)).

Definition ri2 (fv pv cell bv : val) (k : Z) (sx m o : list Z) : state :=
  {| vars := [("f"%string, fv); ("v"%string, pv); ("*v"%string, cell); (budget_var, bv); (fail_var, VInt k); (strm_var, VBytes sx); (cells_var, VHeap hc)]; inb := m; outb := o |}.


Lemma read_int32_bs2 fv pv cell bv k sx m o : is_ptr fv -> is_ptr pv -> Forall byte sx ->
  match read_int32 false sx with
  | Ok (x, s') => bsE prog_env (fbody prog_sbdf_read_int32) (ri2 fv pv cell bv k sx m o) (OReturn (VInt SBDF_OK) (ri2 fv pv (VInt x) bv k s' m o))
  | Err st => exists c' s', bsE prog_env (fbody prog_sbdf_read_int32) (ri2 fv pv cell bv k sx m o) (OReturn (VInt st) (ri2 fv pv c' bv k s' m o))
  end.
Proof.
  intros Hf Hp Hs. rewrite read_int32_model. cbn [fbody prog_sbdf_read_int32]. unfold ri2.
  destruct fv as [| fr fo | | | | |]; try contradiction. destruct pv as [| pr po | | | | |]; try contradiction.
  destruct sx as [|b0 [|b1 [|b2 [|b3 r]]]].
  1-4: do 2 eexists; (eapply bsE_seq; [eapply bsE_if; [evr; reflexivity|reflexivity|apply bsE_skip]|]);
       eapply bsE_seq_ret; (eapply bsE_if; [evr; reflexivity|reflexivity|]); eapply bsE_return; evr; chk7; evr; reflexivity.
  assert (Hb : byte b0 /\ byte b1 /\ byte b2 /\ byte b3).
  { inversion Hs as [|? ? G0 Q0]. inversion Q0 as [|? ? G1 Q1]. inversion Q1 as [|? ? G2 Q2]. inversion Q2 as [|? ? G3 Q3]. auto. }
  destruct Hb as (G0 & G1 & G2 & G3). unfold byte in *.
  assert (Ev : (b0 + 256 * b1 + 65536 * b2 + 16777216 * b3 + 2147483648) mod u32 - 2147483648 = de32 [b0; b1; b2; b3]).
  { unfold de32, to_i32, u32. cbn [le_dec]. destruct (b0 + 256 * (b1 + 256 * (b2 + 256 * (b3 + 256 * 0))) <? 2147483648) eqn:E; lia. }
  eapply bsE_seq; [eapply bsE_if; [evr; reflexivity|reflexivity|apply bsE_skip]|].
  eapply bsE_seq; [eapply bsE_if; [evr; reflexivity|reflexivity|apply bsE_skip]|].
  eapply bsE_seq; [eapply swap_noop_call; [evcr; chk7; reflexivity|reflexivity|evcr; reflexivity]|].
  eapply bsE_return. evr. chk7. rewrite Ev. reflexivity.
Qed.

(* ================================================================== sbdf_read_string *)
Definition rs (fv sv e l t c1 cs bv : val) (k : Z) (sx m o : list Z) : state :=
  {| vars := [("f"%string, fv); ("s"%string, sv); ("error"%string, e); ("l"%string, l); ("t"%string, t); ("$c1"%string, c1); ("*s"%string, cs);
              (budget_var, bv); (fail_var, VInt k); (strm_var, VBytes sx); (cells_var, VHeap hc)]; inb := m; outb := o |}.

Lemma read_string_bs_hdr fv sv e l t c1 cs bv k sx m o : is_ptr fv -> is_ptr sv -> Forall byte sx ->
  forall st, read_int32 false sx = Err st ->
  exists fin, bsE prog_env (fbody prog_sbdf_read_string) (rs fv sv e l t c1 cs bv k sx m o) (OReturn (VInt st) fin) /\ inb fin = m.
Proof.
  intros Hf Hp Hs st Hr. cbn [fbody prog_sbdf_read_string]. unfold rs.
  assert (Est : st = SBDF_ERROR_IO).
  { rewrite read_int32_model in Hr. destruct sx as [|b0 [|b1 [|b2 [|b3 r]]]]; congruence. }
  destruct fv as [| fr fo | | | | |]; try contradiction. destruct sv as [| pr po | | | | |]; try contradiction.
  pose proof (read_int32_bs2 (VPtr fr fo) cell_token VUndef bv k sx m o I I Hs) as RI. rewrite Hr in RI. destruct RI as (c' & s' & RI).
  eexists. split.
  - eapply bsE_seq; [eapply bsE_decl0; evr; reflexivity|]. eapply bsE_seq; [eapply bsE_decl0; evr; reflexivity|]. eapply bsE_seq; [eapply bsE_decl0; evr; reflexivity|].
    eapply bsE_seq; [eapply bsE_if; [evr; reflexivity|reflexivity|apply bsE_skip]|].
    eapply bsE_seq_ret. eapply bsE_seq.
    + eapply bsE_call; [reflexivity|evcr; reflexivity|reflexivity|exact RI|unfold ri2; evcr; reflexivity].
    + subst st. eapply bsE_if; [evr; reflexivity|reflexivity|]. eapply bsE_return. evr. reflexivity.
  - reflexivity.
Qed.





Ltac pre RI :=
  (eapply bsE_seq; [eapply bsE_decl0; evr; reflexivity|]); (eapply bsE_seq; [eapply bsE_decl0; evr; reflexivity|]); (eapply bsE_seq; [eapply bsE_decl0; evr; reflexivity|]);
  (eapply bsE_seq; [eapply bsE_if; [evr; reflexivity|reflexivity|apply bsE_skip]|]);
  (eapply bsE_seq; [eapply bsE_seq; [eapply bsE_call; [reflexivity|evcr; reflexivity|reflexivity|exact RI|unfold ri2; evcr; reflexivity]
                                    |eapply bsE_if; [evr; reflexivity|reflexivity|apply bsE_skip]]|]).

Definition rd_ok (n : Z) (s' : list Z) : bool := n <=? zlen s'.

Lemma read_string_bs_body fv sv e l t c1 cs bv k sx m o n s' : is_ptr fv -> is_ptr sv -> Forall byte sx ->
  read_int32 false sx = Ok (n, s') -> n + 1 <= int_max ->
  exists fin, bsE prog_env (fbody prog_sbdf_read_string) (rs fv sv e l t c1 cs bv k sx m o)
    (OReturn (VInt (if n <? 0 then SBDF_ERROR_INVALID_SIZE else if k =? 0 then SBDF_ERROR_OUT_OF_MEMORY else if rd_ok n s' then SBDF_OK else SBDF_ERROR_IO)) fin) /\
    (if n <? 0 then inb fin = m /\ lookup strm_var (vars fin) = Some (VBytes s')
     else if k =? 0 then inb fin = m /\ lookup strm_var (vars fin) = Some (VBytes s')
     else if rd_ok n s' then inb fin = str_mem m (firstn (Z.to_nat n) s') [] /\ lookup "*s" (vars fin) = Some (VPtr RIn (zlen m + 4)) /\
                             lookup strm_var (vars fin) = Some (VBytes (skipn (Z.to_nat n) s'))
     else (exists blk, inb fin = m ++ blk) /\ lookup strm_var (vars fin) = Some (VBytes [])).
Proof.
  intros Hf Hp Hs Hr Hmax. cbn [fbody prog_sbdf_read_string]. unfold rs. unfold int_max in Hmax.
  destruct fv as [| fr fo | | | | |]; try contradiction. destruct sv as [| pr po | | | | |]; try contradiction.
  pose proof (read_int32_bs2 (VPtr fr fo) cell_token VUndef bv k sx m o I I Hs) as RI. rewrite Hr in RI.
  assert (Hn : int_min <= n <= int_max).
  { rewrite read_int32_model in Hr. destruct sx as [|b0 [|b1 [|b2 [|b3 r]]]]; try discriminate. injection Hr as <- _.
    apply ImpBase.de32_range; [|reflexivity].
    inversion Hs as [|? ? G0 Q0]; inversion Q0 as [|? ? G1 Q1]; inversion Q1 as [|? ? G2 Q2]; inversion Q2 as [|? ? G3 Q3]. repeat (constructor; [assumption|]). constructor. }
  unfold int_min, int_max in Hn.
  destruct (n <? 0) eqn:En.
  - eexists. split.
    + pre RI. eapply bsE_seq_ret. eapply bsE_if; [evr; chk7; evr; rewrite En; reflexivity|reflexivity|]. eapply bsE_return. evr. chk7. reflexivity.
    + split; reflexivity.
  - assert (N0 : 0 <= n) by lia.
    pose proof (str_create_len_bs s' hc VNull n VUndef bv k m o (repeat junk (Z.to_nat n)) N0 ltac:(unfold int_max; lia) eq_refl) as CL.
    pose proof (zlen_nonneg m) as Pm. pose proof (zlen_nonneg s') as Ps.
    destruct (k =? 0) eqn:Ek.
    + eexists. split.
      * pre RI. eapply bsE_seq; [eapply bsE_if; [evr; chk7; evr; rewrite En; reflexivity|reflexivity|apply bsE_skip]|].
        eapply bsE_seq_ret. eapply bsE_seq; [eapply bsE_call; [reflexivity|evcr; reflexivity|reflexivity|exact CL|unfold cl; evcr; reflexivity]|].
        eapply bsE_if; [evr; reflexivity|reflexivity|]. eapply bsE_return. evr. chk7. reflexivity.
      * split; reflexivity.
    + set (mem1 := str_mem m (repeat junk (Z.to_nat n)) []) in *.
      assert (L1 : zlen mem1 = zlen m + 4 + n + 1).
      { unfold mem1, str_mem. rewrite !zlen_app, zlen_repeat by lia. change (zlen (le32 _)) with 4. change (zlen [0]) with 1. change (zlen []) with 0. lia. }
      set (got := firstn (Z.to_nat n) s').
      destruct (rd_ok n s') eqn:Eo; unfold rd_ok in Eo.
      * assert (Lg : Z.of_nat (Datatypes.length got) = n) by (unfold got; rewrite firstn_length; unfold zlen in *; lia).
        assert (MEM : upd_range (Z.to_nat (zlen m + 4)) got mem1 = str_mem m got []).
        { unfold mem1, str_mem. rewrite zlen_repeat by lia. replace (zlen got) with n by (unfold zlen; lia).
          replace (Z.to_nat (zlen m + 4)) with (List.length (m ++ le32 (n + 1))) by (rewrite app_length; unfold zlen; cbn [List.length le32]; lia).
          rewrite !(app_assoc m (le32 (n + 1))). apply upd_range_at. rewrite repeat_length. lia. }
        assert (MEM2 : upd_nth (Z.to_nat (zlen m + 4 + n)) 0 (str_mem m got []) = str_mem m got []).
        { unfold str_mem. replace (Z.to_nat (zlen m + 4 + n)) with (List.length (m ++ le32 (zlen got + 1) ++ got)) by (rewrite !app_length; unfold zlen in *; cbn [List.length le32]; lia).
          replace (m ++ le32 (zlen got + 1) ++ got ++ [0] ++ []) with ((m ++ le32 (zlen got + 1) ++ got) ++ 0 :: []) by (rewrite <- !app_assoc; reflexivity).
          apply upd_nth_at. }
        eexists. split.
        -- pre RI. eapply bsE_seq; [eapply bsE_if; [evr; chk7; evr; rewrite En; reflexivity|reflexivity|apply bsE_skip]|].
           eapply bsE_seq; [eapply bsE_seq; [eapply bsE_call; [reflexivity|evcr; reflexivity|reflexivity|exact CL|unfold cl; evcr; reflexivity]|
                                             eapply bsE_if; [evr; reflexivity|reflexivity|apply bsE_skip]]|].
           eapply bsE_seq. { eapply bsE_if. { evr. replace (0 <=? n) with true by lia. evr. change (Z.of_nat (Datatypes.length mem1)) with (zlen mem1). rewrite L1.
             replace ((0 <=? n) && (0 <=? zlen m + 4) && (zlen m + 4 + n <=? zlen m + 4 + n + 1)) with true by lia. evr. fold got. replace (0 <=? n) with true by lia. evr. reflexivity. }
             { cbn [truth]. rewrite Lg, Z.eqb_refl. reflexivity. } apply bsE_skip. }
           rewrite MEM.
           assert (L2 : zlen (str_mem m got []) = zlen m + 4 + n + 1).
           { unfold str_mem. rewrite !zlen_app. change (zlen (le32 _)) with 4. change (zlen [0]) with 1. change (zlen []) with 0. unfold zlen at 2. lia. }
           eapply bsE_seq. { eapply bsE_expr. evr. unfold ptr_add. cbn [inb]. rewrite zlen_length, L2.
             replace ((0 <=? zlen m + 4 + n) && (zlen m + 4 + n <=? zlen m + 4 + n + 1)) with true by lia. evr. chk7. evr.
             cbn [store inb vars outb]. rewrite zlen_length, L2. replace ((0 <=? zlen m + 4 + n) && (zlen m + 4 + n <? zlen m + 4 + n + 1)) with true by lia.
             change (((0 + 128) mod 256 - 128) mod 256) with 0. rewrite MEM2. reflexivity. }
           eapply bsE_seq. { eapply bsE_expr. evr. reflexivity. }
           eapply bsE_return. evr. chk7. reflexivity.
        -- cbn [inb vars lookup String.eqb Ascii.eqb Bool.eqb strm_var]. repeat split.
      * assert (Lg : Z.of_nat (Datatypes.length got) = zlen s') by (unfold got; rewrite firstn_length; unfold zlen in *; lia).
        assert (Sk : skipn (Z.to_nat n) s' = []) by (apply skipn_all2; unfold zlen in *; lia).
        set (mem2 := upd_range (Z.to_nat (zlen m + 4)) got mem1).
        assert (L2 : zlen mem2 = zlen m + 4 + n + 1) by (unfold mem2, zlen; rewrite upd_range_length; exact L1).
        pose proof (str_destroy_bs [] hc (zlen m + 4) bv (next_fail k) mem2 o ltac:(lia)) as DS.
        eexists. split.
        -- pre RI. eapply bsE_seq; [eapply bsE_if; [evr; chk7; evr; rewrite En; reflexivity|reflexivity|apply bsE_skip]|].
           eapply bsE_seq; [eapply bsE_seq; [eapply bsE_call; [reflexivity|evcr; reflexivity|reflexivity|exact CL|unfold cl; evcr; reflexivity]|
                                             eapply bsE_if; [evr; reflexivity|reflexivity|apply bsE_skip]]|].
           eapply bsE_seq_ret. eapply bsE_if.
           { evr. replace (0 <=? n) with true by lia. evr. change (Z.of_nat (Datatypes.length mem1)) with (zlen mem1). rewrite L1.
             replace ((0 <=? n) && (0 <=? zlen m + 4) && (zlen m + 4 + n <=? zlen m + 4 + n + 1)) with true by lia. evr. fold got. fold mem2. rewrite Sk.
             replace (0 <=? n) with true by lia. evr. reflexivity. }
           { cbn [truth]. rewrite Lg. replace (zlen s' =? n) with false by lia. reflexivity. }
           eapply bsE_seq; [eapply bsE_call_void; [reflexivity|evcr; reflexivity|reflexivity|exact DS|unfold ds; evcr; reflexivity]|].
           eapply bsE_return. evr. chk7. reflexivity.
        -- cbn [inb vars lookup String.eqb Ascii.eqb Bool.eqb strm_var]. split; [|reflexivity].
           unfold mem2, mem1, str_mem. replace (Z.to_nat (zlen m + 4)) with (List.length m + 4)%nat by (unfold zlen; lia).
           rewrite upd_range_app_r. eexists. reflexivity.
Qed.

Lemma read_string_bs_max fv sv e l t c1 cs bv k sx m o s' : is_ptr fv -> is_ptr sv -> Forall byte sx ->
  read_int32 false sx = Ok (int_max, s') ->
  exists fin, bsE prog_env (fbody prog_sbdf_read_string) (rs fv sv e l t c1 cs bv k sx m o) (OReturn (VInt SBDF_ERROR_OUT_OF_MEMORY) fin) /\ inb fin = m.
Proof.
  intros Hf Hp Hs Hr. cbn [fbody prog_sbdf_read_string]. unfold rs.
  destruct fv as [| fr fo | | | | |]; try contradiction. destruct sv as [| pr po | | | | |]; try contradiction.
  pose proof (read_int32_bs2 (VPtr fr fo) cell_token VUndef bv k sx m o I I Hs) as RI. rewrite Hr in RI.
  pose proof (str_create_len_refused s' hc VNull int_max VUndef bv k m o (or_intror eq_refl)) as CL.
  eexists. split.
  - pre RI. eapply bsE_seq; [eapply bsE_if; [evr; chk7; evr; reflexivity|reflexivity|apply bsE_skip]|].
    eapply bsE_seq_ret. eapply bsE_seq; [eapply bsE_call; [reflexivity|evcr; reflexivity|reflexivity|exact CL|unfold cl; evcr; reflexivity]|].
    eapply bsE_if; [evr; reflexivity|reflexivity|]. eapply bsE_return. evr. chk7. reflexivity.
  - reflexivity.
Qed.

Lemma read_string_fr_hdr fv sv e l t c1 cs bv k sx m o : is_ptr fv -> is_ptr sv -> Forall byte sx ->
  forall st, read_int32 false sx = Err st ->
  exists e' l' t' c1' s', bsE prog_env (fbody prog_sbdf_read_string) (rs fv sv e l t c1 cs bv k sx m o) (OReturn (VInt st) (rs fv sv e' l' t' c1' cs bv k s' m o)).
Proof.
  intros Hf Hp Hs st Hr. cbn [fbody prog_sbdf_read_string]. unfold rs.
  assert (Est : st = SBDF_ERROR_IO).
  { rewrite read_int32_model in Hr. destruct sx as [|b0 [|b1 [|b2 [|b3 r]]]]; congruence. }
  destruct fv as [| fr fo | | | | |]; try contradiction. destruct sv as [| pr po | | | | |]; try contradiction.
  pose proof (read_int32_bs2 (VPtr fr fo) cell_token VUndef bv k sx m o I I Hs) as RI. rewrite Hr in RI. destruct RI as (c' & s' & RI).
  do 5 eexists.
  - eapply bsE_seq; [eapply bsE_decl0; evr; reflexivity|]. eapply bsE_seq; [eapply bsE_decl0; evr; reflexivity|]. eapply bsE_seq; [eapply bsE_decl0; evr; reflexivity|].
    eapply bsE_seq; [eapply bsE_if; [evr; reflexivity|reflexivity|apply bsE_skip]|].
    eapply bsE_seq_ret. eapply bsE_seq.
    + eapply bsE_call; [reflexivity|evcr; reflexivity|reflexivity|exact RI|unfold ri2; evcr; reflexivity].
    + subst st. eapply bsE_if; [evr; reflexivity|reflexivity|]. eapply bsE_return. evr. reflexivity.
Qed.

Lemma read_string_fr_max fv sv e l t c1 cs bv k sx m o s' : is_ptr fv -> is_ptr sv -> Forall byte sx ->
  read_int32 false sx = Ok (int_max, s') ->
  exists e' l' t' c1', bsE prog_env (fbody prog_sbdf_read_string) (rs fv sv e l t c1 cs bv k sx m o) (OReturn (VInt SBDF_ERROR_OUT_OF_MEMORY) (rs fv sv e' l' t' c1' cs bv k s' m o)).
Proof.
  intros Hf Hp Hs Hr. cbn [fbody prog_sbdf_read_string]. unfold rs.
  destruct fv as [| fr fo | | | | |]; try contradiction. destruct sv as [| pr po | | | | |]; try contradiction.
  pose proof (read_int32_bs2 (VPtr fr fo) cell_token VUndef bv k sx m o I I Hs) as RI. rewrite Hr in RI.
  pose proof (str_create_len_refused s' hc VNull int_max VUndef bv k m o (or_intror eq_refl)) as CL.
  do 4 eexists.
  - pre RI. eapply bsE_seq; [eapply bsE_if; [evr; chk7; evr; reflexivity|reflexivity|apply bsE_skip]|].
    eapply bsE_seq_ret. eapply bsE_seq; [eapply bsE_call; [reflexivity|evcr; reflexivity|reflexivity|exact CL|unfold cl; evcr; reflexivity]|].
    eapply bsE_if; [evr; reflexivity|reflexivity|]. eapply bsE_return. evr. chk7. reflexivity.
Qed.


Lemma read_string_fr_body fv sv e l t c1 cs bv k sx m o n s' : is_ptr fv -> is_ptr sv -> Forall byte sx ->
  read_int32 false sx = Ok (n, s') -> n + 1 <= int_max ->
  let got := firstn (Z.to_nat n) s' in
  exists e' l' t' c1', bsE prog_env (fbody prog_sbdf_read_string) (rs fv sv e l t c1 cs bv k sx m o)
    (OReturn (VInt (if n <? 0 then SBDF_ERROR_INVALID_SIZE else if k =? 0 then SBDF_ERROR_OUT_OF_MEMORY else if rd_ok n s' then SBDF_OK else SBDF_ERROR_IO))
       (rs fv sv e' l' t' c1'
           (if n <? 0 then cs else if k =? 0 then cs else if rd_ok n s' then VPtr RIn (zlen m + 4) else cs) bv
           (if n <? 0 then k else if k =? 0 then -1 else next_fail k)
           (if n <? 0 then s' else if k =? 0 then s' else if rd_ok n s' then skipn (Z.to_nat n) s' else [])
           (if n <? 0 then m else if k =? 0 then m else if rd_ok n s' then str_mem m got [] else upd_range (Z.to_nat (zlen m + 4)) got (str_mem m (repeat junk (Z.to_nat n)) [])) o)).
Proof.
  intros Hf Hp Hs Hr Hmax got0. subst got0. cbn [fbody prog_sbdf_read_string]. unfold rs. unfold int_max in Hmax.
  destruct fv as [| fr fo | | | | |]; try contradiction. destruct sv as [| pr po | | | | |]; try contradiction.
  pose proof (read_int32_bs2 (VPtr fr fo) cell_token VUndef bv k sx m o I I Hs) as RI. rewrite Hr in RI.
  assert (Hn : int_min <= n <= int_max).
  { rewrite read_int32_model in Hr. destruct sx as [|b0 [|b1 [|b2 [|b3 r]]]]; try discriminate. injection Hr as <- _.
    apply ImpBase.de32_range; [|reflexivity].
    inversion Hs as [|? ? G0 Q0]; inversion Q0 as [|? ? G1 Q1]; inversion Q1 as [|? ? G2 Q2]; inversion Q2 as [|? ? G3 Q3]. repeat (constructor; [assumption|]). constructor. }
  unfold int_min, int_max in Hn.
  destruct (n <? 0) eqn:En.
  - do 4 eexists. pre RI. eapply bsE_seq_ret. eapply bsE_if; [evr; chk7; evr; rewrite En; reflexivity|reflexivity|]. eapply bsE_return. evr. chk7. reflexivity.
  - assert (N0 : 0 <= n) by lia.
    pose proof (str_create_len_bs s' hc VNull n VUndef bv k m o (repeat junk (Z.to_nat n)) N0 ltac:(unfold int_max; lia) eq_refl) as CL.
    pose proof (zlen_nonneg m) as Pm. pose proof (zlen_nonneg s') as Ps.
    destruct (k =? 0) eqn:Ek.
    + do 4 eexists.
        pre RI. eapply bsE_seq; [eapply bsE_if; [evr; chk7; evr; rewrite En; reflexivity|reflexivity|apply bsE_skip]|].
        eapply bsE_seq_ret. eapply bsE_seq; [eapply bsE_call; [reflexivity|evcr; reflexivity|reflexivity|exact CL|unfold cl; evcr; reflexivity]|].
        eapply bsE_if; [evr; reflexivity|reflexivity|]. eapply bsE_return. evr. chk7. reflexivity.
    + set (mem1 := str_mem m (repeat junk (Z.to_nat n)) []) in *.
      assert (L1 : zlen mem1 = zlen m + 4 + n + 1).
      { unfold mem1, str_mem. rewrite !zlen_app, zlen_repeat by lia. change (zlen (le32 _)) with 4. change (zlen [0]) with 1. change (zlen []) with 0. lia. }
      set (got := firstn (Z.to_nat n) s').
      destruct (rd_ok n s') eqn:Eo; unfold rd_ok in Eo.
      * assert (Lg : Z.of_nat (Datatypes.length got) = n) by (unfold got; rewrite firstn_length; unfold zlen in *; lia).
        assert (MEM : upd_range (Z.to_nat (zlen m + 4)) got mem1 = str_mem m got []).
        { unfold mem1, str_mem. rewrite zlen_repeat by lia. replace (zlen got) with n by (unfold zlen; lia).
          replace (Z.to_nat (zlen m + 4)) with (List.length (m ++ le32 (n + 1))) by (rewrite app_length; unfold zlen; cbn [List.length le32]; lia).
          rewrite !(app_assoc m (le32 (n + 1))). apply upd_range_at. rewrite repeat_length. lia. }
        assert (MEM2 : upd_nth (Z.to_nat (zlen m + 4 + n)) 0 (str_mem m got []) = str_mem m got []).
        { unfold str_mem. replace (Z.to_nat (zlen m + 4 + n)) with (List.length (m ++ le32 (zlen got + 1) ++ got)) by (rewrite !app_length; unfold zlen in *; cbn [List.length le32]; lia).
          replace (m ++ le32 (zlen got + 1) ++ got ++ [0] ++ []) with ((m ++ le32 (zlen got + 1) ++ got) ++ 0 :: []) by (rewrite <- !app_assoc; reflexivity).
          apply upd_nth_at. }
        do 4 eexists.
        ++ pre RI. eapply bsE_seq; [eapply bsE_if; [evr; chk7; evr; rewrite En; reflexivity|reflexivity|apply bsE_skip]|].
           eapply bsE_seq; [eapply bsE_seq; [eapply bsE_call; [reflexivity|evcr; reflexivity|reflexivity|exact CL|unfold cl; evcr; reflexivity]|
                                             eapply bsE_if; [evr; reflexivity|reflexivity|apply bsE_skip]]|].
           eapply bsE_seq. { eapply bsE_if. { evr. replace (0 <=? n) with true by lia. evr. change (Z.of_nat (Datatypes.length mem1)) with (zlen mem1). rewrite L1.
             replace ((0 <=? n) && (0 <=? zlen m + 4) && (zlen m + 4 + n <=? zlen m + 4 + n + 1)) with true by lia. evr. fold got. replace (0 <=? n) with true by lia. evr. reflexivity. }
             { cbn [truth]. rewrite Lg, Z.eqb_refl. reflexivity. } apply bsE_skip. }
           rewrite MEM.
           assert (L2 : zlen (str_mem m got []) = zlen m + 4 + n + 1).
           { unfold str_mem. rewrite !zlen_app. change (zlen (le32 _)) with 4. change (zlen [0]) with 1. change (zlen []) with 0. unfold zlen at 2. lia. }
           eapply bsE_seq. { eapply bsE_expr. evr. unfold ptr_add. cbn [inb]. rewrite zlen_length, L2.
             replace ((0 <=? zlen m + 4 + n) && (zlen m + 4 + n <=? zlen m + 4 + n + 1)) with true by lia. evr. chk7. evr.
             cbn [store inb vars outb]. rewrite zlen_length, L2. replace ((0 <=? zlen m + 4 + n) && (zlen m + 4 + n <? zlen m + 4 + n + 1)) with true by lia.
             change (((0 + 128) mod 256 - 128) mod 256) with 0. rewrite MEM2. reflexivity. }
           eapply bsE_seq. { eapply bsE_expr. evr. reflexivity. }
           eapply bsE_return. evr. chk7. reflexivity.
      * assert (Lg : Z.of_nat (Datatypes.length got) = zlen s') by (unfold got; rewrite firstn_length; unfold zlen in *; lia).
        assert (Sk : skipn (Z.to_nat n) s' = []) by (apply skipn_all2; unfold zlen in *; lia).
        set (mem2 := upd_range (Z.to_nat (zlen m + 4)) got mem1).
        assert (L2 : zlen mem2 = zlen m + 4 + n + 1) by (unfold mem2, zlen; rewrite upd_range_length; exact L1).
        pose proof (str_destroy_bs [] hc (zlen m + 4) bv (next_fail k) mem2 o ltac:(lia)) as DS.
        do 4 eexists.
        ++ pre RI. eapply bsE_seq; [eapply bsE_if; [evr; chk7; evr; rewrite En; reflexivity|reflexivity|apply bsE_skip]|].
           eapply bsE_seq; [eapply bsE_seq; [eapply bsE_call; [reflexivity|evcr; reflexivity|reflexivity|exact CL|unfold cl; evcr; reflexivity]|
                                             eapply bsE_if; [evr; reflexivity|reflexivity|apply bsE_skip]]|].
           eapply bsE_seq_ret. eapply bsE_if.
           { evr. replace (0 <=? n) with true by lia. evr. change (Z.of_nat (Datatypes.length mem1)) with (zlen mem1). rewrite L1.
             replace ((0 <=? n) && (0 <=? zlen m + 4) && (zlen m + 4 + n <=? zlen m + 4 + n + 1)) with true by lia. evr. fold got. fold mem2. rewrite Sk.
             replace (0 <=? n) with true by lia. evr. reflexivity. }
           { cbn [truth]. rewrite Lg. replace (zlen s' =? n) with false by lia. reflexivity. }
           eapply bsE_seq; [eapply bsE_call_void; [reflexivity|evcr; reflexivity|reflexivity|exact DS|unfold ds; evcr; reflexivity]|].
           eapply bsE_return. evr. chk7. reflexivity.
Qed.


(* sbdf_read_string as a callee: the frame it leaves, for every stream, memory and allocation schedule *)
Lemma read_string_call fv sv cs bv k sx m o : is_ptr fv -> is_ptr sv -> Forall byte sx ->
  exists st e' l' t' c1' cs' k' s' m',
    bsE prog_env (fbody prog_sbdf_read_string) (rs fv sv VUndef VUndef VUndef VUndef cs bv k sx m o) (OReturn (VInt st) (rs fv sv e' l' t' c1' cs' bv k' s' m' o)) /\
    (exists x, m' = m ++ x) /\
    ((st = SBDF_OK /\ cs' = VPtr RIn (zlen m + 4) /\ zlen m + 4 <= zlen m' /\ Forall byte s') \/ (st < 0 /\ cs' = cs)) /\
    (st = SBDF_OK -> match read_string false None sx with Ok (_, rest) => s' = rest | Err _ => False end) /\
    (k < 0 -> match read_string false None sx with Ok _ => st = SBDF_OK | Err e => st = e end) /\
    (k < 0 -> st = SBDF_OK -> k' = k).
Proof.
  intros Hf Hp Hs. unfold read_string, rd_bind.
  destruct (read_int32 false sx) as [[n s1]|e] eqn:Hr.
  2: { destruct (read_string_fr_hdr fv sv VUndef VUndef VUndef VUndef cs bv k sx m o Hf Hp Hs e Hr) as (e' & l' & t' & c1' & s' & B).
       assert (Est : e = SBDF_ERROR_IO) by (rewrite read_int32_model in Hr; destruct sx as [|b0 [|b1 [|b2 [|b3 r]]]]; congruence). subst e.
       exists SBDF_ERROR_IO, e', l', t', c1', cs, k, s', m. split; [exact B|]. split; [exists []; now rewrite app_nil_r|].
       split; [right; split; reflexivity|]. split; [intros X; cbv in X; discriminate X|split; [intros _; reflexivity|intros _ X; cbv in X; discriminate X]]. }
  assert (Hn : int_min <= n <= int_max).
  { rewrite read_int32_model in Hr. destruct sx as [|b0 [|b1 [|b2 [|b3 r]]]]; try discriminate. injection Hr as <- _.
    apply ImpBase.de32_range; [|reflexivity].
    inversion Hs as [|? ? G0 Q0]; inversion Q0 as [|? ? G1 Q1]; inversion Q1 as [|? ? G2 Q2]; inversion Q2 as [|? ? G3 Q3]. repeat (constructor; [assumption|]). constructor. }
  assert (Hs1 : Forall byte s1).
  { rewrite read_int32_model in Hr. destruct sx as [|b0 [|b1 [|b2 [|b3 r]]]]; try discriminate. injection Hr as _ <-.
    inversion Hs as [|? ? G0 Q0]; inversion Q0 as [|? ? G1 Q1]; inversion Q1 as [|? ? G2 Q2]; inversion Q2 as [|? ? G3 Q3]. exact Q3. }
  destruct (Z.eq_dec n int_max) as [->|Hne].
  { destruct (read_string_fr_max fv sv VUndef VUndef VUndef VUndef cs bv k sx m o s1 Hf Hp Hs Hr) as (e' & l' & t' & c1' & B).
    exists SBDF_ERROR_OUT_OF_MEMORY, e', l', t', c1', cs, k, s1, m. split; [exact B|]. split; [exists []; now rewrite app_nil_r|].
    split; [right; split; reflexivity|]. split; [intros X; cbv in X; discriminate X|split; [intros _|intros _ X; cbv in X; discriminate X]].
    change (int_max <? 0) with false. change (int_max =? INT_MAX) with true. reflexivity. }
  assert (Hmax : n + 1 <= int_max) by lia.
  destruct (read_string_fr_body fv sv VUndef VUndef VUndef VUndef cs bv k sx m o n s1 Hf Hp Hs Hr Hmax) as (e' & l' & t' & c1' & B).
  unfold int_min, int_max in Hn, Hmax, Hne. pose proof (zlen_nonneg s1) as Ps. pose proof (zlen_nonneg m) as Pm.
  do 9 eexists. split; [exact B|].
  destruct (n <? 0) eqn:En.
  { split; [exists []; now rewrite app_nil_r|]. split; [right; split; reflexivity|]. split; [intros X; cbv in X; discriminate X|split; [intros _; reflexivity|intros _ X; cbv in X; discriminate X]]. }
  replace (n =? INT_MAX) with false by (unfold INT_MAX; lia). unfold ralloc, alloc_ok.
  destruct (k =? 0) eqn:Ek.
  { split; [exists []; now rewrite app_nil_r|]. split; [right; split; reflexivity|]. split; [intros X; cbv in X; discriminate X|split; [intros X; lia|intros X; lia]]. }
  unfold rd_ok. destruct (n <=? zlen s1) eqn:Eo.
  - assert (Hsplit : s1 = firstn (Z.to_nat n) s1 ++ skipn (Z.to_nat n) s1) by (symmetry; apply firstn_skipn).
    assert (Hl : zlen (firstn (Z.to_nat n) s1) = n) by (unfold zlen in *; rewrite firstn_length; lia).
    assert (FR : fread_bytes n s1 = Ok (firstn (Z.to_nat n) s1, skipn (Z.to_nat n) s1)).
    { pose proof (fread_bytes_exact (firstn (Z.to_nat n) s1) (skipn (Z.to_nat n) s1)) as X. rewrite Hl, <- Hsplit in X. exact X. }
    rewrite FR.
    split; [unfold str_mem; eexists; reflexivity|].
    split; [left; split; [reflexivity|split; [reflexivity|split; [unfold str_mem; rewrite !zlen_app; change (zlen (le32 _)) with 4; pose proof (zlen_nonneg (firstn (Z.to_nat n) s1)); change (zlen [0]) with 1; change (zlen []) with 0; lia|]]]|].
    { rewrite Hsplit in Hs1. apply Forall_app in Hs1. exact (proj2 Hs1). }
    split; [intros _; reflexivity|split; [intros _; reflexivity|intros Hk0 _; unfold next_fail; replace (0 <? k) with false by lia; reflexivity]].
  - assert (FR : exists e2, fread_bytes n s1 = Err e2 /\ e2 = SBDF_ERROR_IO).
    { unfold fread_bytes. replace (n <? 0) with false by lia. rewrite take_z_short by lia. eexists. split; reflexivity. }
    destruct FR as (e2 & FR & ->). rewrite FR.
    split; [unfold str_mem; replace (Z.to_nat (zlen m + 4)) with (List.length m + 4)%nat by (unfold zlen; lia); rewrite upd_range_app_r; eexists; reflexivity|].
    split; [right; split; reflexivity|]. split; [intros X; cbv in X; discriminate X|split; [intros _; reflexivity|intros _ X; cbv in X; discriminate X]].
Qed.

Theorem read_string_source sx m k : Forall byte sx ->
  exists f0, forall f, (f0 <= f)%nat -> exists fin st,
    callC prog_env f prog_sbdf_read_string [tok; tok] m k sx hc = OReturn (VInt st) fin /\
    match read_string false None sx with
    | Ok (bytes, rest) =>
        if k =? 0 then st = SBDF_ERROR_OUT_OF_MEMORY /\ inb fin = m
        else st = SBDF_OK /\ inb fin = str_mem m bytes [] /\ lookup "*s" (vars fin) = Some (VPtr RIn (zlen m + 4)) /\
             lookup strm_var (vars fin) = Some (VBytes rest)
    | Err e => (st = e \/ (k = 0 /\ st = SBDF_ERROR_OUT_OF_MEMORY)) /\ exists blk, inb fin = m ++ blk
    end.
Proof.
  intros Hs. unfold read_string, rd_bind.
  destruct (read_int32 false sx) as [[n s']|e] eqn:Hr.
  - assert (Hn : int_min <= n <= int_max).
    { rewrite read_int32_model in Hr. destruct sx as [|b0 [|b1 [|b2 [|b3 r]]]]; try discriminate. injection Hr as <- _.
      apply ImpBase.de32_range; [|reflexivity].
      inversion Hs as [|? ? G0 Q0]; inversion Q0 as [|? ? G1 Q1]; inversion Q1 as [|? ? G2 Q2]; inversion Q2 as [|? ? G3 Q3]. repeat (constructor; [assumption|]). constructor. }
    destruct (Z.eq_dec n int_max) as [->|Hne].
    + destruct (read_string_bs_max tok tok VUndef VUndef VUndef VUndef VUndef (VInt 0) k sx m [] s' I I Hs Hr) as (fin & B & P).
      destruct (bsE_sound _ _ _ _ B) as (f0 & F). exists f0. intros f Hf. exists fin. eexists. split; [apply F; exact Hf|].
      change (int_max <? 0) with false. change (int_max =? INT_MAX) with true. unfold rfail. split; [left; reflexivity|]. exists []. rewrite app_nil_r. exact P.
    + assert (Hmax : n + 1 <= int_max) by lia.
      destruct (read_string_bs_body tok tok VUndef VUndef VUndef VUndef VUndef (VInt 0) k sx m [] n s' I I Hs Hr Hmax) as (fin & B & P).
      destruct (bsE_sound _ _ _ _ B) as (f0 & F). exists f0. intros f Hf. exists fin. eexists. split; [apply F; exact Hf|].
      unfold int_max in Hmax, Hne. destruct (n <? 0) eqn:En.
      * unfold rfail. destruct P as (P1 & _). split; [left; reflexivity|]. exists []. rewrite app_nil_r. exact P1.
      * replace (n =? INT_MAX) with false by (unfold INT_MAX; lia). unfold ralloc, alloc_ok.
        pose proof (zlen_nonneg s') as Ps.
        unfold rd_ok in *. destruct (n <=? zlen s') eqn:Eo.
        -- assert (Hsplit : s' = firstn (Z.to_nat n) s' ++ skipn (Z.to_nat n) s') by (symmetry; apply firstn_skipn).
           assert (Hl : zlen (firstn (Z.to_nat n) s') = n) by (unfold zlen in *; rewrite firstn_length; lia).
           assert (FR : fread_bytes n s' = Ok (firstn (Z.to_nat n) s', skipn (Z.to_nat n) s')).
           { pose proof (fread_bytes_exact (firstn (Z.to_nat n) s') (skipn (Z.to_nat n) s')) as X. rewrite Hl, <- Hsplit in X. exact X. }
           rewrite FR.
           destruct (k =? 0); [destruct P as (P1 & _); split; [reflexivity|exact P1]|].
           destruct P as (P1 & P2 & P3). split; [reflexivity|]. split; [exact P1|]. split; [exact P2|exact P3].
        -- rewrite fread_bytes_short by lia. destruct (k =? 0) eqn:Ek.
           ++ destruct P as (P1 & _). split; [right; split; [lia|reflexivity]|]. exists []. rewrite app_nil_r. exact P1.
           ++ destruct P as (P1 & _). split; [left; reflexivity|exact P1].
  - destruct (read_string_bs_hdr tok tok VUndef VUndef VUndef VUndef VUndef (VInt 0) k sx m [] I I Hs e Hr) as (fin & B & P).
    destruct (bsE_sound _ _ _ _ B) as (f0 & F). exists f0. intros f Hf. exists fin. eexists. split; [apply F; exact Hf|].
    split; [left; reflexivity|]. exists []. rewrite app_nil_r. exact P.
Qed.

End WithCells.
