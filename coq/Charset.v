(* Charset.v — the two converters of sbdfstring.c on the bytes before the terminator; the value
   returned by the C functions is the length of the result plus one (the terminator). *)
From Sbdf Require Export Base.

Definition is_cont (b : Z) : bool := Z.land b 192 =? 128.

Fixpoint drop_cont (s : list Z) : list Z :=
  match s with
  | b :: r => if is_cont b then drop_cont r else s
  | [] => []
  end.

Definition REPLACEMENT : Z := 26.

Fixpoint u2i_loop (fuel : nat) (s : list Z) : list Z :=
  match fuel with
  | O => []
  | S f =>
    match s with
    | [] => []
    | ch :: r =>
      if ch <=? 127 then ch :: u2i_loop f r
      else if (192 <=? ch) && (ch <? 223) then
        let hi := Z.land ch 31 * 64 in
        match r with
        | nx :: r' =>
          if is_cont nx then
            let uch := hi + Z.land nx 63 in
            (if (uch <? 128) || (256 <=? uch) then REPLACEMENT else uch) :: u2i_loop f r'
          else REPLACEMENT :: u2i_loop f r
        | [] => [REPLACEMENT]
        end
      else REPLACEMENT :: u2i_loop f (drop_cont r)
    end
  end.
Definition utf8_to_iso (s : list Z) : list Z := u2i_loop (length s) s.

Fixpoint iso_to_utf8 (s : list Z) : list Z :=
  match s with
  | [] => []
  | ch :: r =>
    if ch <=? 127 then ch :: iso_to_utf8 r
    else Z.lor 192 (Z.shiftr ch 6) :: Z.lor 128 (Z.land ch 63) :: iso_to_utf8 r
  end.
