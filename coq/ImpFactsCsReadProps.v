(* ImpFactsCsReadProps.v - the property loop of sbdf_cs_read (a positive property count): the two pointer arrays through
   sbdf_alloc, cleared by memset, then per property a name (sbdf_read_string) and a value array (sbdf_va_read); a failure
   anywhere leaves through "goto end" and sbdf_cs_destroy releases what exists so far. *)
From Sbdf Require Import ImpCall Gen.Prog Gen.Consts Base Prim Obj Va BaseFacts LeafTie ImpBase ImpFactsCells ImpFactsCap ImpFactsGrow ImpFactsDestroy
  ImpFactsInt32 ImpFactsRead ImpFactsReadObj ImpFactsReadArr ImpFactsSkipObj SkipLaws ImpFactsFrame ImpFactsRelease ImpFactsReleaseAll ImpFactsReadVa ImpFactsCsRead.
From Coq Require Import ZifyBool.
Local Open Scope Z_scope.
Ltac Zify.zify_post_hook ::= Z.div_mod_to_equations.

(* ================================================================== the value arrays of the properties, one behind the other in the heap *)
Inductive vas (m : list Z) : nat -> list val -> heap -> Prop :=
| vas_nil b : vas m b [] []
| vas_cons b blk newb hs rest :
    (forall hp : heap, List.length hp = b -> va_rel m (hp ++ Some blk :: newb) b (hp ++ None :: nones (List.length newb))) ->
    vas m (b + S (List.length newb)) hs rest ->
    vas m b (VCell b 0 :: hs) (Some blk :: newb ++ rest).

Lemma vas_snoc m : forall b hs blocks, vas m b hs blocks -> forall blk newb,
  (forall hp : heap, List.length hp = (b + List.length blocks)%nat -> va_rel m (hp ++ Some blk :: newb) (b + List.length blocks) (hp ++ None :: nones (List.length newb))) ->
  vas m b (hs ++ [VCell (b + List.length blocks) 0]) (blocks ++ Some blk :: newb).
Proof.
  intros b hs blocks V. induction V as [b|b blk0 newb0 hs rest VR0 V IH]; intros blk newb VR.
  - cbn [app List.length] in *. rewrite Nat.add_0_r in *. replace (Some blk :: newb) with (Some blk :: newb ++ []) by (rewrite app_nil_r; reflexivity).
    apply vas_cons; [exact VR|apply vas_nil].
  - cbn [app]. rewrite <- app_assoc. apply vas_cons; [exact VR0|].
    replace (b + List.length (Some blk0 :: newb0 ++ rest))%nat with (b + S (List.length newb0) + List.length rest)%nat in * by (cbn [List.length]; rewrite app_length; lia).
    apply IH. exact VR.
Qed.

Lemma vas_mono m m2 : zlen m <= zlen m2 -> forall b hs blocks, vas m b hs blocks -> vas m2 b hs blocks.
Proof.
  intros Hm b hs blocks V. induction V as [b|b blk0 newb0 hs rest VR0 V IH]; [apply vas_nil|]. apply vas_cons; [|exact IH].
  intros hp Hhp. pose proof (va_rel_grow m m2 _ _ _ [] (VR0 hp Hhp) Hm) as G. rewrite !app_nil_r in G. exact G.
Qed.

Lemma vas_length m : forall b hs blocks, vas m b hs blocks -> (List.length hs <= List.length blocks)%nat.
Proof. intros b hs blocks V. induction V; cbn [List.length]; [lia|]. rewrite app_length. lia. Qed.

Lemma va_destroys_list_app m keep : forall a b h h1 h2, va_destroys_list m keep h a h1 -> va_destroys_list m keep h1 b h2 -> va_destroys_list m keep h (a ++ b) h2.
Proof.
  induction a as [|c a IH]; intros b h h1 h2 A B; cbn [va_destroys_list app] in *; [subst h1; exact B|].
  destruct A as (hx & D & K & A). exists hx. split; [exact D|]. split; [exact K|]. eapply IH; eassumption.
Qed.

Lemma va_destroys_list_nulls m keep h : forall l, Forall (fun c => as_ptr c = VNull) l -> va_destroys_list m keep h l h.
Proof.
  induction l as [|c l IH]; intros F; cbn [va_destroys_list]; [reflexivity|]. inversion F as [|? ? Hc Hl]. subst.
  exists h. split; [left; split; [exact Hc|reflexivity]|]. split; [intros; reflexivity|apply IH; exact Hl].
Qed.

(* releasing them one after the other: each goes through sbdf_va_destroy with the later ones still behind it *)
Lemma vas_destroys m : forall b hs blocks, vas m b hs blocks -> forall (hp x : heap) keep m2, List.length hp = b -> zlen m <= zlen m2 ->
  (forall c, In c keep -> (c < b)%nat) ->
  va_destroys_list m2 keep (hp ++ blocks ++ x) hs (hp ++ nones (List.length blocks) ++ x).
Proof.
  intros b hs blocks V. induction V as [b|b blk newb hs rest VR V IH]; intros hp x keep m2 Hhp Hm Hk; cbn [va_destroys_list].
  - reflexivity.
  - exists ((hp ++ None :: nones (List.length newb)) ++ rest ++ x). split; [|split].
    + right. exists b. split; [reflexivity|].
      pose proof (va_rel_grow m m2 _ _ _ (rest ++ x) (VR hp Hhp) Hm) as G.
      replace (hp ++ (Some blk :: newb ++ rest) ++ x) with ((hp ++ Some blk :: newb) ++ rest ++ x) by (rewrite <- !app_assoc; cbn [app]; rewrite <- !app_assoc; reflexivity).
      exact G.
    + intros c Hc. specialize (Hk c Hc). rewrite <- app_assoc. rewrite !nth_error_app1 by lia. reflexivity.
    + pose proof (IH (hp ++ None :: nones (List.length newb)) x keep m2 ltac:(rewrite app_length; cbn [List.length]; unfold nones; rewrite repeat_length; lia) Hm
                    ltac:(intros c Hc; specialize (Hk c Hc); lia)) as R.
      replace (hp ++ nones (List.length (Some blk :: newb ++ rest)) ++ x) with ((hp ++ None :: nones (List.length newb)) ++ nones (List.length rest) ++ x); [exact R|].
      cbn [List.length]. rewrite app_length. rewrite <- !app_assoc. cbn [app]. f_equal. 
      change (None :: nones (List.length newb) ++ nones (List.length rest) ++ x) with (nones (S (List.length newb)) ++ nones (List.length rest) ++ x).
      rewrite app_assoc, nones_app. reflexivity.
Qed.

Lemma cap_loop_upper size : 1 <= size -> forall f c, 0 <= c -> c <= 1 + (size - 1) * 3 / 2 -> cap_loop f c size <= 1 + (size - 1) * 3 / 2.
Proof.
  intros Hs. induction f as [|f IH]; intros c Hc Hb; cbn [cap_loop]; [exact Hb|].
  destruct (c <? size) eqn:E; [|exact Hb]. apply IH; [lia|].
  assert (c * 3 / 2 <= (size - 1) * 3 / 2) by (apply Z.div_le_mono; lia). lia.
Qed.

Lemma capacity_upper v : 1 <= v <= 134217727 -> v <= array_capacity v /\ array_capacity v * 8 <= int_max.
Proof.
  intros Hv. split; [apply cap_loop_enough; lia|]. unfold array_capacity.
  pose proof (cap_loop_upper v ltac:(lia) 64 0 ltac:(lia) ltac:(lia)) as U.
  assert ((v - 1) * 3 / 2 <= 201326589) by (apply Z.div_le_upper_bound; lia). unfold int_max. lia.
Qed.

(* ---- positions in a heap written as segments ---- *)
Lemma nth_at {A} (a : list A) x r : nth_error (a ++ x :: r) (List.length a) = Some x.
Proof. rewrite nth_error_app2 by lia. rewrite Nat.sub_diag. reflexivity. Qed.
Lemma nth_at' {A} (a : list A) x r n : n = List.length a -> nth_error (a ++ x :: r) n = Some x.
Proof. intros ->. apply nth_at. Qed.
Lemma kill_at (a : heap) x r n : n = List.length a -> kill n (a ++ x :: r) = a ++ None :: r.
Proof. intros ->. unfold kill. rewrite set_nth_v_app. reflexivity. Qed.
Lemma nth_same_tail {A} (a a' r : list A) n : List.length a = List.length a' -> (List.length a <= n)%nat -> nth_error (a ++ r) n = nth_error (a' ++ r) n.
Proof. intros E Hn. rewrite !nth_error_app2 by lia. rewrite E. reflexivity. Qed.
Lemma cell_set_at (a : heap) blk r n i v blk' : n = List.length a -> 0 <= i -> set_nth_v (Z.to_nat i) v blk = Some blk' ->
  cell_set (a ++ Some blk :: r) n i v = Some (a ++ Some blk' :: r).
Proof. intros -> Hi E. apply cell_set_mid; assumption. Qed.
Lemma cell_get_at (a : heap) blk r n i : n = List.length a -> 0 <= i -> cell_get (a ++ Some blk :: r) n i = nth_error blk (Z.to_nat i).
Proof. intros -> Hi. rewrite cell_get_mid. replace (0 <=? i) with true by lia. reflexivity. Qed.
Lemma nones_length n : List.length (nones n) = n.
Proof. apply repeat_length. Qed.


Lemma bsE_seq_assoc3 env a b c r s s1 oo : bsE env (SSeq a (SSeq b c)) s (ONormal s1) -> bsE env r s1 oo -> bsE env (SSeq a (SSeq b (SSeq c r))) s oo.
Proof.
  intros H1 H2. inversion H1; subst. match goal with H : bsE env (SSeq b c) _ (ONormal s1) |- _ => inversion H; subst end.
  eapply bsE_seq; [eassumption|]. eapply bsE_seq; [eassumption|]. eapply bsE_seq; eassumption.
Qed.

Section Props.
Variables (bv : val) (o : list Z) (rf rp : region) (fo po : Z).
Notation fv := (VPtr rf fo).
Notation ov := (VPtr rp po).

(* ================================================================== releasing a slice whose property arrays exist: values, the property arrays read so far
   (the rest of the array is still null), the names read so far, the two arrays, the struct *)
Lemma destroy_gen (h : heap) v blkV newbV m2 m' pu ps nu ns hs pn blocks j (x : heap) kk sxx :
  let L := List.length h in
  let nV := List.length newbV in
  let PB := (L + 2 + nV)%nat in
  let NB := S PB in
  let slice := [VCell (S L) 0; VInt v; VCell NB 0; VCell PB 0; VInt 1] in
  (forall hp : heap, List.length hp = S L -> va_rel m2 (hp ++ Some blkV :: newbV) (S L) (hp ++ None :: nones nV)) -> zlen m2 <= zlen m' ->
  0 <= v < int_max -> zlen pu = v -> zlen nu = v -> pu = hs ++ pn -> Forall (fun c => as_ptr c = VNull) pn ->
  vas m' (S NB) hs blocks -> ImpFactsRelease.elem_ptrs m' nu ->
  bsE prog_env (fbody prog_sbdf_cs_destroy)
    (fr [("cs"%string, VCell L 0); ("i"%string, VUndef)] bv kk sxx (h ++ Some slice :: (Some blkV :: newbV) ++ [Some (pu ++ ps); Some (nu ++ ns)] ++ blocks ++ nones j ++ x) m' o)
    (OReturn (VInt 0) (fr [("cs"%string, VCell L 0); ("i"%string, VUndef)] bv kk sxx (h ++ nones (S (S nV) + 2 + List.length blocks + j) ++ x) m' o)).
Proof.
  intros L nV PB NB slice VR Hm Hv Hpu Hnu Hsplit Hpn V Hel.
  set (T := blocks ++ nones j ++ x).
  set (hpY := h ++ [Some slice]).
  assert (HpY : List.length hpY = S L) by (unfold hpY; rewrite app_length; cbn; lia).
  set (H0 := h ++ Some slice :: (Some blkV :: newbV) ++ [Some (pu ++ ps); Some (nu ++ ns)] ++ T).
  set (VALD := None :: nones nV).
  set (h1 := h ++ Some slice :: VALD ++ [Some (pu ++ ps); Some (nu ++ ns)] ++ T).
  set (T2 := nones (List.length blocks) ++ nones j ++ x).
  set (h2 := h ++ Some slice :: VALD ++ [Some (pu ++ ps); Some (nu ++ ns)] ++ T2).
  set (slice0 := [VCell (S L) 0; VInt v; VCell NB 0; VCell PB 0; VInt 0]).
  set (h3 := h ++ Some slice0 :: VALD ++ [Some (pu ++ ps); Some (nu ++ ns)] ++ T2).
  assert (LV : List.length VALD = S nV) by (unfold VALD; cbn [List.length]; rewrite nones_length; reflexivity).
  (* positions *)
  assert (PBa : forall (s0 : list val) (val : heap) (t : heap), List.length val = S nV -> PB = List.length (h ++ Some s0 :: val)) by (intros; rewrite app_length; cbn [List.length]; unfold PB, L; lia).
  assert (NBa : forall (s0 : list val) (val : heap) x, List.length val = S nV -> NB = List.length ((h ++ Some s0 :: val) ++ [x])) by (intros; rewrite !app_length; cbn [List.length]; unfold NB, PB, L; lia).
  assert (SEG : forall (s0 : list val) (val t : heap) x y, h ++ Some s0 :: val ++ [x; y] ++ t = (h ++ Some s0 :: val) ++ x :: y :: t) by (intros; rewrite <- app_assoc; reflexivity).
  assert (SEG2 : forall (s0 : list val) (val t : heap) x y, h ++ Some s0 :: val ++ [x; y] ++ t = ((h ++ Some s0 :: val) ++ [x]) ++ y :: t) by (intros; rewrite <- !app_assoc; reflexivity).
  assert (LVV : List.length (Some blkV :: newbV) = S nV) by reflexivity.
  pose proof (cs_destroy_owned_bs bv kk sxx m' o H0 L (VCell (S L) 0) v (VCell NB 0) (VCell PB 0) 1 PB (pu ++ ps) pu ps h1 h2 h3 NB (nu ++ ns) nu VUndef) as D.
  assert (R : kill L (kill PB (kill NB h3)) = h ++ nones (S (S nV) + 2 + List.length blocks + j) ++ x).
  { unfold h3. rewrite (SEG2 slice0 VALD T2). rewrite (kill_at _ _ _ NB (NBa slice0 VALD _ LV)). rewrite <- app_assoc. cbn [app].
    rewrite (kill_at _ _ _ PB (PBa slice0 VALD [] LV)). rewrite <- app_assoc. cbn [app]. rewrite (kill_at h _ _ L eq_refl).
    f_equal. unfold VALD, T2. cbn [app].
    change (None :: None :: nones nV ++ None :: None :: nones (List.length blocks) ++ nones j ++ x) with (nones (S (S nV)) ++ nones 2 ++ nones (List.length blocks) ++ nones j ++ x).
    replace (nones (S (S nV) + 2 + List.length blocks + j)) with (nones (S (S nV)) ++ nones 2 ++ nones (List.length blocks) ++ nones j) by (rewrite !nones_app; f_equal; lia).
    rewrite <- !app_assoc. reflexivity. }
  rewrite R in D. apply D; clear D R.
  - discriminate.
  - unfold cs_block, H0. apply (nth_at' h _ _ L eq_refl).
  - lia.
  - right. exists (S L). split; [reflexivity|].
    pose proof (va_rel_grow m2 m' _ _ _ ([Some (pu ++ ps); Some (nu ++ ns)] ++ T) (VR hpY HpY) Hm) as G.
    unfold H0, h1, VALD. unfold hpY in G. rewrite <- !app_assoc in G. cbn [app] in G. cbn [app]. exact G.
  - intros b [<-|[<-|[]]].
    + unfold h1, H0. rewrite !(nth_at' h _ _ L eq_refl). reflexivity.
    + unfold h1, H0. rewrite (SEG slice VALD T), (SEG slice (Some blkV :: newbV) T). rewrite (nth_at' _ _ _ PB (PBa slice VALD [] LV)), (nth_at' _ _ _ PB (PBa slice _ [] LVV)). reflexivity.
  - reflexivity.
  - unfold H0. rewrite (SEG slice (Some blkV :: newbV) T). apply nth_at'. apply (PBa slice _ [] LVV).
  - reflexivity.
  - exact Hpu.
  - (* the property arrays, one after the other *)
    rewrite Hsplit. eapply va_destroys_list_app.
    + unfold h1. rewrite (SEG slice VALD T). unfold T.
      replace ((h ++ Some slice :: VALD) ++ Some (pu ++ ps) :: Some (nu ++ ns) :: blocks ++ nones j ++ x)
        with (((h ++ Some slice :: VALD) ++ [Some (pu ++ ps); Some (nu ++ ns)]) ++ blocks ++ nones j ++ x) by (rewrite <- !app_assoc; reflexivity).
      apply (vas_destroys m' (S NB) hs blocks V _ (nones j ++ x) [L; PB] m').
      * rewrite !app_length. cbn [List.length]. rewrite LV. unfold NB, PB, L. lia.
      * lia.
      * intros c [<-|[<-|[]]]; unfold NB, PB; lia.
    + replace (((h ++ Some slice :: VALD) ++ [Some (pu ++ ps); Some (nu ++ ns)]) ++ nones (List.length blocks) ++ nones j ++ x) with h2 by (unfold h2, T2; rewrite <- !app_assoc; reflexivity).
      apply va_destroys_list_nulls. exact Hpn.
  - unfold h2, h3. apply (cell_set_at h slice _ L 4 (VInt 0) slice0 eq_refl); [lia|reflexivity].
  - unfold cs_block, h3. rewrite Hnu. apply (nth_at' h _ _ L eq_refl).
  - reflexivity.
  - unfold h3. rewrite (SEG2 slice0 VALD T2). apply nth_at'. apply (NBa slice0 VALD _ LV).
  - exact Hel.
  - exists ns. reflexivity.
  - lia.
  - unfold h3. rewrite (SEG slice0 VALD T2). apply nth_at'. apply (PBa slice0 VALD [] LV).
  - unfold NB, PB. lia.
  - unfold PB. lia.
  - unfold NB. lia.
Qed.

(* ... and when only the property array exists yet (the names array could not be allocated): no names, no count *)
Lemma destroy_props_only (h : heap) blkV newbV m2 m' pc kk sxx :
  let L := List.length h in
  let nV := List.length newbV in
  let PB := (L + 2 + nV)%nat in
  let slice := [VCell (S L) 0; VInt 0; VInt 0; VCell PB 0; VInt 1] in
  (forall hp : heap, List.length hp = S L -> va_rel m2 (hp ++ Some blkV :: newbV) (S L) (hp ++ None :: nones nV)) -> zlen m2 <= zlen m' ->
  bsE prog_env (fbody prog_sbdf_cs_destroy)
    (fr [("cs"%string, VCell L 0); ("i"%string, VUndef)] bv kk sxx (h ++ Some slice :: (Some blkV :: newbV) ++ [Some pc]) m' o)
    (OReturn (VInt 0) (fr [("cs"%string, VCell L 0); ("i"%string, VUndef)] bv kk sxx (h ++ nones (S (S nV) + 1)) m' o)).
Proof.
  intros L nV PB slice VR Hm.
  set (hpY := h ++ [Some slice]).
  assert (HpY : List.length hpY = S L) by (unfold hpY; rewrite app_length; cbn; lia).
  set (H0 := h ++ Some slice :: (Some blkV :: newbV) ++ [Some pc]).
  set (VALD := None :: nones nV).
  set (h1 := h ++ Some slice :: VALD ++ [Some pc]).
  set (slice0 := [VCell (S L) 0; VInt 0; VInt 0; VCell PB 0; VInt 0]).
  set (h3 := h ++ Some slice0 :: VALD ++ [Some pc]).
  assert (LV : List.length VALD = S nV) by (unfold VALD; cbn [List.length]; rewrite nones_length; reflexivity).
  assert (PBa : forall (s0 : list val) (val : heap), List.length val = S nV -> PB = List.length (h ++ Some s0 :: val)) by (intros; rewrite app_length; cbn [List.length]; unfold PB, L; lia).
  assert (SEG : forall (s0 : list val) (val : heap) x, h ++ Some s0 :: val ++ [x] = (h ++ Some s0 :: val) ++ x :: []) by (intros; rewrite <- app_assoc; reflexivity).
  assert (D1 : va_destroys_opt m' H0 (VCell (S L) 0) h1).
  { right. exists (S L). split; [reflexivity|].
    pose proof (va_rel_grow m2 m' _ _ _ [Some pc] (VR hpY HpY) Hm) as G.
    unfold H0, h1, VALD. unfold hpY in G. rewrite <- !app_assoc in G. cbn [app] in G. cbn [app]. exact G. }
  pose proof (va_destroy_opt_bs bv kk sxx m' o H0 (VCell (S L) 0) h1 D1) as VD. unfold fr in VD. cbn [app as_ptr] in VD.
  assert (Hc : nth_error H0 L = Some (Some slice)) by (unfold H0; apply (nth_at' h _ _ L eq_refl)).
  assert (Hc1 : nth_error h1 L = Some (Some slice)) by (unfold h1; apply (nth_at' h _ _ L eq_refl)).
  assert (Hc3 : nth_error h3 L = Some (Some slice0)) by (unfold h3; apply (nth_at' h _ _ L eq_refl)).
  assert (E3 : cell_set h1 L 4 (VInt 0) = Some h3) by (unfold h1, h3; apply (cell_set_at h slice _ L 4 (VInt 0) slice0 eq_refl); [lia|reflexivity]).
  unfold slice in Hc, Hc1. unfold slice0 in Hc3.
  assert (Hp3 : nth_error h3 PB = Some (Some pc)) by (unfold h3; rewrite (SEG slice0 VALD); apply nth_at'; apply (PBa slice0 VALD LV)).
  set (h4 := h ++ Some slice0 :: VALD ++ [None]).
  assert (E4 : set_nth_v PB None h3 = Some h4).
  { unfold h3, h4. rewrite !(SEG slice0 VALD). rewrite (PBa slice0 VALD LV). apply set_nth_v_app. }
  assert (Hc4 : nth_error h4 L = Some (Some slice0)) by (unfold h4; apply (nth_at' h _ _ L eq_refl)).
  unfold slice0 in Hc4.
  set (h5 := h ++ None :: VALD ++ [None]).
  assert (E5 : set_nth_v L None h4 = Some h5) by (unfold h4, h5, L; apply set_nth_v_app).
  assert (R : h5 = h ++ nones (S (S nV) + 1)).
  { unfold h5, VALD. f_equal. change (None :: (None :: nones nV) ++ [None]) with (nones (S (S nV)) ++ nones 1). rewrite nones_app. reflexivity. }
  rewrite <- R.
  (* the inner call: a slice that owns nothing any more *)
  assert (CD : bsE prog_env (fbody prog_sbdf_cs_destroy)
                 {| vars := [("cs"%string, VCell L 0); ("i"%string, VUndef); (budget_var, bv); (fail_var, VInt kk); (strm_var, VBytes sxx); (cells_var, VHeap h3)]; inb := m'; outb := o |}
                 (ONormal {| vars := [("cs"%string, VCell L 0); ("i"%string, VUndef); (budget_var, bv); (fail_var, VInt kk); (strm_var, VBytes sxx); (cells_var, VHeap h5)]; inb := m'; outb := o |})).
  { cbn [fbody prog_sbdf_cs_destroy].
    eapply bsE_if; [eva; reflexivity|reflexivity|].
    eapply bsE_seq; [eapply bsE_decl0; eva; reflexivity|].
    eapply bsE_seq; [eapply bsE_if; [eva; chk7; eva; cellrw Hc3; eva; reflexivity|reflexivity|apply bsE_skip]|].
    eapply bsE_seq; [eapply bsE_if; [eva; chk7; eva; cellrw Hc3; eva; reflexivity|reflexivity|apply bsE_skip]|].
    eapply bsE_seq.
    { eapply bsE_if; [eva; chk7; eva; cellrw Hc3; eva; reflexivity|reflexivity|].
      eapply bsE_expr. eva. chk7. eva. cellrw Hc3. eva. rewrite Hp3. eva. rewrite E4. eva. reflexivity. }
    eapply bsE_expr. eva. rewrite Hc4. eva. rewrite E5. eva. reflexivity. }
  assert (ALL : bsE prog_env (fbody prog_sbdf_cs_destroy_all)
                  {| vars := [("cs"%string, VCell L 0); ("i"%string, VUndef); (budget_var, bv); (fail_var, VInt kk); (strm_var, VBytes sxx); (cells_var, VHeap H0)]; inb := m'; outb := o |}
                  (ONormal {| vars := [("cs"%string, VCell L 0); ("i"%string, VInt 0); (budget_var, bv); (fail_var, VInt kk); (strm_var, VBytes sxx); (cells_var, VHeap h5)]; inb := m'; outb := o |})).
  { cbn [fbody prog_sbdf_cs_destroy_all].
    eapply bsE_seq.
    - eapply bsE_if; [eva; reflexivity|reflexivity|].
      eapply bsE_seq; [eapply bsE_decl0; eva; reflexivity|].
      eapply bsE_seq; [eapply bsE_call_void; [reflexivity|eva; chk7; eva; cellrw Hc; eva; reflexivity|reflexivity|eva; exact VD|eva; reflexivity]|].
      eapply bsE_seq.
      + eapply bsE_if; [eva; chk7; eva; cellrw Hc1; eva; reflexivity|reflexivity|].
        eapply bsE_seq; [eapply bsE_expr; eva; chk7; eva; reflexivity|].
        eapply bsE_while_f; [eva; chk7; eva; cellrw Hc1; eva; reflexivity|reflexivity].
      + eapply bsE_expr. eva. chk7. eva. chk7. eva. replace (0 + 4) with 4 by lia. rewrite E3. eva. reflexivity.
    - eapply bsE_call_void; [reflexivity|eva; reflexivity|reflexivity|eva; exact CD|eva; reflexivity]. }
  cbn [fbody prog_sbdf_cs_destroy]. unfold fr. cbn [app].
  eapply bsE_if; [eva; reflexivity|reflexivity|].
  eapply bsE_seq; [eapply bsE_decl0; eva; reflexivity|].
  eapply bsE_seq_ret. eapply bsE_if; [eva; chk7; eva; cellrw Hc; eva; reflexivity|reflexivity|].
  eapply bsE_seq; [eapply bsE_call_void; [reflexivity|eva; reflexivity|reflexivity|eva; exact ALL|eva; reflexivity]|].
  eapply bsE_return. eva. chk7. reflexivity.
Qed.

(* ================================================================== the heap during the property loop, as segments *)
Section Loop.
Variables (so : val) (h : heap) (v : Z) (blkV : list val) (newbV : heap) (m2 : list Z).
Notation L := (List.length h).
Notation nV := (List.length newbV).
Notation PB := (L + 2 + nV)%nat.
Notation NB := (S (L + 2 + nV)).
Notation BASE := (S (S (L + 2 + nV))).
Notation cap := (array_capacity v).
Hypothesis VRV : forall hp : heap, List.length hp = S L -> va_rel m2 (hp ++ Some blkV :: newbV) (S L) (hp ++ None :: nones nV).
Hypothesis Hv : 0 < v <= 134217727.

Definition HP (sl pc nc : list val) (T : heap) : heap := h ++ Some sl :: Some blkV :: newbV ++ Some pc :: Some nc :: T.
Definition slc (cnt : Z) (names props : val) : list val := [VCell (S L) 0; VInt cnt; names; props; VInt 1].

Lemma HP_pre sl pc nc T : HP sl pc nc T = (h ++ Some sl :: Some blkV :: newbV) ++ Some pc :: Some nc :: T.
Proof. unfold HP. rewrite <- app_assoc. reflexivity. Qed.
Lemma HP_pre2 sl pc nc T : HP sl pc nc T = ((h ++ Some sl :: Some blkV :: newbV) ++ [Some pc]) ++ Some nc :: T.
Proof. unfold HP. rewrite <- !app_assoc. reflexivity. Qed.
Lemma len_pre sl : List.length (h ++ Some sl :: Some blkV :: newbV) = PB.
Proof. rewrite app_length. cbn [List.length]. lia. Qed.
Lemma len_pre2 sl pc : List.length ((h ++ Some sl :: Some blkV :: newbV) ++ [Some pc]) = NB.
Proof. rewrite app_length, len_pre. cbn [List.length]. lia. Qed.
Lemma HP_len sl pc nc T : List.length (HP sl pc nc T) = (BASE + List.length T)%nat.
Proof. rewrite HP_pre, app_length, len_pre. cbn [List.length]. lia. Qed.
Lemma HP_app sl pc nc T x : HP sl pc nc T ++ x = HP sl pc nc (T ++ x).
Proof. unfold HP. rewrite <- !app_assoc. cbn [app]. rewrite <- !app_assoc. reflexivity. Qed.

Lemma getL sl pc nc T j : 0 <= j -> cell_get (HP sl pc nc T) L j = nth_error sl (Z.to_nat j).
Proof. intros Hj. unfold HP. apply cell_get_at; [reflexivity|exact Hj]. Qed.
Lemma getP sl pc nc T j : 0 <= j -> cell_get (HP sl pc nc T) PB j = nth_error pc (Z.to_nat j).
Proof. intros Hj. rewrite HP_pre. apply cell_get_at; [symmetry; apply len_pre|exact Hj]. Qed.
Lemma getN sl pc nc T j : 0 <= j -> cell_get (HP sl pc nc T) NB j = nth_error nc (Z.to_nat j).
Proof. intros Hj. rewrite HP_pre2. apply cell_get_at; [symmetry; apply len_pre2|exact Hj]. Qed.
Lemma setL sl pc nc T j x sl' : 0 <= j -> set_nth_v (Z.to_nat j) x sl = Some sl' -> cell_set (HP sl pc nc T) L j x = Some (HP sl' pc nc T).
Proof. intros Hj E. unfold HP. apply cell_set_at; [reflexivity|exact Hj|exact E]. Qed.
Lemma setP sl pc nc T j x pc' : 0 <= j -> set_nth_v (Z.to_nat j) x pc = Some pc' -> cell_set (HP sl pc nc T) PB j x = Some (HP sl pc' nc T).
Proof. intros Hj E. rewrite !HP_pre. apply cell_set_at; [symmetry; apply len_pre|exact Hj|exact E]. Qed.
Lemma setN sl pc nc T j x nc' : 0 <= j -> set_nth_v (Z.to_nat j) x nc = Some nc' -> cell_set (HP sl pc nc T) NB j x = Some (HP sl pc nc' T).
Proof. intros Hj E. rewrite !HP_pre2. apply cell_set_at; [symmetry; apply len_pre2|exact Hj|exact E]. Qed.

Lemma nth_zeros (a : list val) n i : zlen a = i -> nth_error (a ++ zeros (S n)) (Z.to_nat i) = Some (VInt 0).
Proof. intros <-. unfold zlen. rewrite Nat2Z.id. rewrite nth_error_app2 by lia. rewrite Nat.sub_diag. reflexivity. Qed.
Lemma set_zeros (a : list val) n i x : zlen a = i -> set_nth_v (Z.to_nat i) x (a ++ zeros (S n)) = Some (a ++ x :: zeros n).
Proof. intros <-. unfold zlen. rewrite Nat2Z.id. apply set_nth_v_app. Qed.

Definition cs_loop : stmt :=
  match cs_props_seq with
  | SSeq (SIf _ (SSeq _ (SSeq _ (SSeq _ (SSeq _ (SSeq _ (SSeq _ (SSeq _ (SSeq _ (SSeq _ (SSeq w _)))))))))) _) _ => w
  | _ => SSkip
  end.

Ltac evl := cbn [prog_env eval_args callee_init finish_call copy_in copy_out try_update update lookup combine map app String.append
                 String.eqb Ascii.eqb Bool.eqb fparams flocals vars inb outb budget_var fail_var strm_var cells_var cell_token List.length Nat.eqb eval set_var cast
                 truth binop_int b2z negb heap_of as_ptr storable fst snd stream_of set_stream nth_error Z.to_nat
                 prog_sbdf_read_string prog_sbdf_va_read prog_sbdf_cs_read prog_sbdf_alloc prog_sbdf_calculate_array_capacity prog_sbdf_cs_destroy];
  change (0 =? 0) with true; change (1 =? 0) with false; cbn [negb b2z].

Ltac evl0 := cbn [prog_env eval_args callee_init finish_call copy_in copy_out try_update update lookup combine map app String.append
                 String.eqb Ascii.eqb Bool.eqb fparams flocals vars inb outb budget_var fail_var strm_var cells_var cell_token List.length Nat.eqb eval set_var cast
                 truth binop_int b2z negb heap_of as_ptr storable fst snd stream_of set_stream];
  change (0 =? 0) with true; change (1 =? 0) with false; cbn [negb b2z].

Definition lst (i st g : Z) (a2 a3 : val) (pc nc : list val) (T : heap) (k : Z) (s m : list Z) : state :=
  crf bv o fv ov (Build_crl (VInt cap) (VInt st) (VInt i) (VCell L 0) (VInt v) (VCell (S L) 0) a2 a3 (VInt g) so) k s (HP (slc v (VCell NB 0) (VCell PB 0)) pc nc T) m.
Ltac unl := unfold lst, crf, fr; cbn [c_cap c_err c_i c_t c_v c_a1 c_a2 c_a3 c_goto c_so app].

Lemma loop_bs : forall rem i hs qs blocks a2 a3 k s m,
  Z.of_nat rem = v - i -> 0 <= i -> zlen hs = i -> zlen qs = i ->
  vas m BASE hs blocks -> ImpFactsRelease.elem_ptrs m qs -> Forall byte s -> props_nobit rem s -> zlen m2 <= zlen m ->
  exists st g i' a2' a3' pu ps nu ns hs' pn blocks' j k' s' m',
    bsE prog_env cs_loop (lst i 0 0 a2 a3 (hs ++ zeros (Z.to_nat (cap - i))) (qs ++ zeros (Z.to_nat (cap - i))) blocks k s m)
      (ONormal (lst i' st g a2' a3' (pu ++ ps) (nu ++ ns) (blocks' ++ nones j) k' s' m')) /\
    prefix_of m m' /\ zlen pu = v /\ zlen nu = v /\ pu = hs' ++ pn /\ Forall (fun c => as_ptr c = VNull) pn /\
    vas m' BASE hs' blocks' /\ ImpFactsRelease.elem_ptrs m' nu /\
    ((g = 0 /\ st = 0 /\ j = 0%nat /\ props_end rem s = Some s' /\ Forall byte s') \/ (g = 1 /\ st < 0)) /\
    (k < 0 -> st = props_st rem s /\ (st = 0 -> k' = k)).
Proof.
  pose proof (capacity_upper v ltac:(lia)) as (Hc1 & Hc8).
  induction rem as [|rem IH]; intros i hs qs blocks a2 a3 k s m Hrem Hi Hhs Hqs V Hel Hs NBP Hm.
  - (* all properties read *)
    assert (Ei : i = v) by lia. rewrite Ei in *. clear Ei.
    exists 0, 0, v, a2, a3, hs, (zeros (Z.to_nat (cap - v))), qs, (zeros (Z.to_nat (cap - v))), hs, [], blocks, 0%nat, k, s, m.
    split; [|split; [exists []; now rewrite app_nil_r|split; [exact Hhs|split; [exact Hqs|split; [now rewrite app_nil_r|split; [constructor|split; [exact V|split; [exact Hel|split; [left; repeat split; try reflexivity; exact Hs|intros _; split; reflexivity]]]]]]]]].
    unfold cs_loop, cs_props_seq, cs_body. cbn [fbody prog_sbdf_cs_read]. unl. unfold nones. cbn [repeat]. rewrite app_nil_r.
    eapply bsE_while_f; [evl; chk7; evl; rewrite Z.ltb_irrefl; reflexivity|reflexivity].
  - assert (Hiv : i < v) by lia.
    assert (Hz : Z.to_nat (cap - i) = S (Z.to_nat (cap - (i + 1)))) by lia. rewrite Hz.
    set (n1 := Z.to_nat (cap - (i + 1))).
    set (sl := slc v (VCell NB 0) (VCell PB 0)).
    set (pc0 := hs ++ zeros (S n1)). set (nc0 := qs ++ zeros (S n1)).
    destruct (read_string_call (HP sl pc0 nc0 blocks) fv tok VNull bv k s m o I I Hs) as (st1 & e1 & l1 & t1 & c11 & cs1 & k1 & s1 & m1 & RS & (x1 & Hm1) & Out1 & PP1 & MT1 & KK1).
    assert (So1 : storable cs1 = true) by (destruct Out1 as [(_ & -> & _)|(_ & ->)]; reflexivity).
    assert (N3 : bsE prog_env (SSeq (SExpr (EAssign "$a2" (ECellLoad (ECellLoad (EVar "t") (EConst 2) true) (EVar "i") true))) (SSeq (SCall (Some "error") "sbdf_read_string" [(AVal (EVar "f")); (AAddr "$a2")]) (SExpr (ECellStore (ECellLoad (EVar "t") (EConst 2) true) (EVar "i") (EVar "$a2")))))%string
                   (lst i 0 0 a2 a3 pc0 nc0 blocks k s m) (ONormal (lst i st1 0 cs1 a3 pc0 (qs ++ cs1 :: zeros n1) blocks k1 s1 m1))).
    { revert RS. unfold rs. unl. fold sl. intros RS.
      eapply bsE_seq; [eapply bsE_expr; evl; chk7; evl; rewrite getL by lia; unfold sl, slc; change (Z.to_nat (0 + 2)) with 2%nat; evl; replace (0 + i) with i by lia; rewrite getN by lia; unfold nc0; rewrite (nth_zeros qs n1 i Hqs); evl; reflexivity|].
      eapply bsE_seq; [eapply bsE_call; [reflexivity|evl; reflexivity|reflexivity|exact RS|evl; reflexivity]|].
      eapply bsE_expr. evl. chk7. evl. rewrite getL by lia. unfold sl, slc. change (Z.to_nat (0 + 2)) with 2%nat. evl. replace (0 + i) with i by lia.
      destruct cs1; try discriminate So1; evl; (erewrite setN; [|lia|unfold nc0; apply (set_zeros qs n1 i _ Hqs)]); evl; reflexivity. }
    set (a := Z.to_nat (v - i - 1)). set (b := Z.to_nat (cap - v)).
    assert (Hn1 : n1 = (a + b)%nat) by (unfold n1, a, b; lia).
    assert (Zs : forall x y, zeros (x + y) = zeros x ++ zeros y) by (intros; unfold zeros; apply repeat_app).
    assert (ZN : forall x, Forall (fun c => as_ptr c = VNull) (zeros x)) by (intros x; unfold zeros; apply Forall_forall; intros c Hc; apply repeat_spec in Hc; subst c; reflexivity).
    assert (MONO : forall mm, zlen m <= zlen mm -> ImpFactsRelease.elem_ptrs mm qs).
    { intros mm Hmm. unfold ImpFactsRelease.elem_ptrs in *. eapply Forall_impl; [|exact Hel]. cbv beta. intros c [N|(p & -> & Hp)]; [left; exact N|right; exists p; split; [reflexivity|lia]]. }
    assert (Hmm1 : zlen m <= zlen m1) by (rewrite Hm1, zlen_app; pose proof (zlen_nonneg x1); lia).
    assert (COND : forall st' g' aa2 aa3 pc nc T kk ss mm, eval (EBin Lt (EVar "i") (EVar "v"))%string (lst i st' g' aa2 aa3 pc nc T kk ss mm) = Some (VInt 1, lst i st' g' aa2 aa3 pc nc T kk ss mm))
      by (intros; unl; evl; chk7; evl; replace (i <? v) with true by lia; reflexivity).
    destruct Out1 as [(-> & -> & Hlen1 & Hs1)|(Hneg1 & ->)].
    2: { (* the name cannot be read *)
      exists st1, 1, i, VNull, a3, (hs ++ zeros (S a)), (zeros b), (qs ++ VNull :: zeros a), (zeros b), hs, (zeros (S a)), blocks, 0%nat, k1, s1, m1.
      split; [|split; [exists x1; exact Hm1|split; [rewrite zlen_app, zlen_zeros; unfold a; lia|split; [rewrite zlen_app, zlen_cons, zlen_zeros; unfold a; lia|split; [reflexivity|split; [apply ZN|
               split; [apply (vas_mono m m1 Hmm1); exact V|split; [|split; [right; split; [reflexivity|exact Hneg1]|]]]]]]]]].
      2: { unfold ImpFactsRelease.elem_ptrs. apply Forall_app. split; [apply (MONO m1 Hmm1)|constructor; [left; reflexivity|eapply Forall_impl; [|apply ZN]; cbv beta; intros c N; left; exact N]]. }
      2: { intros Hk0. specialize (MT1 Hk0). cbn [props_st]. destruct (read_string false None s) as [[nm sR]|eR]; [unfold SBDF_OK in MT1; lia|]. split; [exact MT1|intros X; lia]. }
      unfold nones. cbn [repeat]. rewrite app_nil_r.
      replace ((hs ++ zeros (S a)) ++ zeros b) with pc0 by (unfold pc0; rewrite <- app_assoc, <- Zs; do 2 f_equal; lia).
      replace ((qs ++ VNull :: zeros a) ++ zeros b) with (qs ++ VNull :: zeros n1) by (rewrite <- app_assoc; cbn [app]; rewrite <- Zs, Hn1; reflexivity).
      unfold cs_loop, cs_props_seq, cs_body. cbn [fbody prog_sbdf_cs_read].
      eapply bsE_while_brk; [apply COND|reflexivity|].
      eapply bsE_seq_brk. eapply bsE_seq_brk. eapply bsE_seq; [exact N3|]. unl.
      eapply bsE_if; [evl; reflexivity|cbn [truth]; replace (st1 =? 0) with false by lia; reflexivity|].
      eapply bsE_seq; [eapply bsE_expr; evl; reflexivity|apply bsE_break]. }
    (* the name is there *)
    set (q := zlen m + 4) in *.
    set (nc1 := qs ++ VPtr RIn q :: zeros n1) in *.
    specialize (PP1 eq_refl).
    cbn [props_nobit props_end props_st] in NBP |- *.
    destruct (read_string false None s) as [[nm sR]|eR] eqn:ERS; [|contradiction]. subst sR.
    destruct NBP as (NB1 & NBP).
    destruct (va_read_bs bv o rf ROut fo 0 k1 s1 (HP sl pc0 nc1 blocks) m1 VNull Hs1 NB1) as (st2 & e2 & sh2 & k2 & s2 & h2 & m3 & BV & (x2 & Hm3) & Out2 & PP2 & MT2 & KK2).
    rewrite HP_len in Out2.
    assert (Hmm3 : zlen m1 <= zlen m3) by (rewrite Hm3, zlen_app; pose proof (zlen_nonneg x2); lia).
    assert (Htl : exists X, h2 = HP sl pc0 nc1 (blocks ++ X)) by (destruct Out2 as [(_ & _ & _ & blk' & newb' & -> & _)|(_ & _ & j & ->)]; eexists; apply HP_app).
    destruct Htl as (X & Htl).
    assert (So2 : storable sh2 = true) by (destruct Out2 as [(_ & -> & _)|(_ & -> & _)]; reflexivity).
    assert (P3 : bsE prog_env (SSeq (SExpr (EAssign "$a3" (ECellLoad (ECellLoad (EVar "t") (EConst 3) true) (EVar "i") true))) (SSeq (SCall (Some "error") "sbdf_va_read" [(AVal (EVar "f")); (AAddr "$a3")]) (SExpr (ECellStore (ECellLoad (EVar "t") (EConst 3) true) (EVar "i") (EVar "$a3")))))%string
                   (lst i 0 0 (VPtr RIn q) a3 pc0 nc1 blocks k1 s1 m1) (ONormal (lst i st2 0 (VPtr RIn q) sh2 (hs ++ sh2 :: zeros n1) nc1 (blocks ++ X) k2 s2 m3))).
    { revert BV. rewrite Htl. unfold vrd. unl. fold sl. intros BV.
      eapply bsE_seq; [eapply bsE_expr; evl; chk7; evl; rewrite getL by lia; unfold sl, slc; change (Z.to_nat (0 + 3)) with 3%nat; evl; replace (0 + i) with i by lia; rewrite getP by lia; unfold pc0; rewrite (nth_zeros hs n1 i Hhs); evl; reflexivity|].
      eapply bsE_seq; [eapply bsE_call; [reflexivity|evl; reflexivity|reflexivity|exact BV|evl; reflexivity]|].
      eapply bsE_expr. evl. chk7. evl. rewrite getL by lia. unfold sl, slc. change (Z.to_nat (0 + 3)) with 3%nat. evl. replace (0 + i) with i by lia.
      destruct sh2; try discriminate So2; evl; (erewrite setP; [|lia|unfold pc0; apply (set_zeros hs n1 i _ Hhs)]); evl; reflexivity. }
    assert (HPinj : forall T1 T2, HP sl pc0 nc1 T1 = HP sl pc0 nc1 T2 -> T1 = T2).
    { intros T1 T2 E. unfold HP in E. apply app_inv_head in E. inversion E as [E2]. apply app_inv_head in E2. congruence. }
    assert (Hq : 4 <= q <= zlen m3) by (unfold q; pose proof (zlen_nonneg m); lia).
    assert (Hmm3' : zlen m <= zlen m3) by lia.
    destruct Out2 as [(-> & -> & Hs2 & blk' & newb' & Hh2 & VR')|(Hneg2 & -> & j & Hh2)].
    2: { (* the property's values cannot be read *)
      assert (X = nones j) by (rewrite Htl, HP_app in Hh2; apply HPinj in Hh2; apply app_inv_head in Hh2; exact Hh2). subst X.
      exists st2, 1, i, (VPtr RIn q), VNull, (hs ++ VNull :: zeros a), (zeros b), ((qs ++ [VPtr RIn q]) ++ zeros a), (zeros b), hs, (VNull :: zeros a), blocks, j, k2, s2, m3.
      split; [|split; [exists (x1 ++ x2); rewrite Hm3, Hm1, app_assoc; reflexivity|split; [rewrite zlen_app, zlen_cons, zlen_zeros; unfold a; lia|split; [rewrite !zlen_app, zlen_zeros; change (zlen [VPtr RIn q]) with 1; unfold a; lia|
               split; [reflexivity|split; [constructor; [reflexivity|apply ZN]|split; [apply (vas_mono m m3 Hmm3'); exact V|split; [|split; [right; split; [reflexivity|exact Hneg2]|]]]]]]]]].
      2: { unfold ImpFactsRelease.elem_ptrs. apply Forall_app. split; [apply Forall_app; split; [apply (MONO m3 Hmm3')|constructor; [right; exists q; split; [reflexivity|exact Hq]|constructor]]|
             eapply Forall_impl; [|apply ZN]; cbv beta; intros c N; left; exact N]. }
      2: { intros Hk0. assert (Hk1 : k1 < 0) by (rewrite (KK1 Hk0 eq_refl); exact Hk0). specialize (MT2 Hk1). destruct (Va.va_read false None s1) as [[va2 sV]|eV]; [unfold SBDF_OK in MT2; lia|]. split; [exact MT2|intros X; lia]. }
      replace ((hs ++ VNull :: zeros a) ++ zeros b) with (hs ++ VNull :: zeros n1) by (rewrite <- app_assoc; cbn [app]; rewrite <- Zs, Hn1; reflexivity).
      replace (((qs ++ [VPtr RIn q]) ++ zeros a) ++ zeros b) with nc1 by (unfold nc1; rewrite <- !app_assoc; cbn [app]; rewrite <- Zs, Hn1; reflexivity).
      unfold cs_loop, cs_props_seq, cs_body. cbn [fbody prog_sbdf_cs_read].
      eapply bsE_while_brk; [apply COND|reflexivity|].
      eapply bsE_seq_brk. eapply bsE_seq; [eapply bsE_seq; [exact N3|unl; eapply bsE_if; [evl; reflexivity|reflexivity|apply bsE_skip]]|].
      eapply bsE_seq; [exact P3|]. unl.
      eapply bsE_if; [evl; reflexivity|cbn [truth]; replace (st2 =? 0) with false by lia; reflexivity|].
      eapply bsE_seq; [eapply bsE_expr; evl; reflexivity|apply bsE_break]. }
    (* the property is there: on to the next one *)
    assert (X = Some blk' :: newb') by (rewrite Htl, HP_app in Hh2; apply HPinj in Hh2; apply app_inv_head in Hh2; exact Hh2). subst X.
    specialize (PP2 eq_refl). destruct (Va.va_read false None s1) as [[va2 sV]|eV] eqn:EVA; [|contradiction]. subst sV.
    set (hb := VCell (BASE + List.length blocks) 0) in *.
    assert (V3 : vas m3 BASE (hs ++ [hb]) (blocks ++ Some blk' :: newb')) by (apply vas_snoc; [apply (vas_mono m m3 Hmm3'); exact V|exact VR']).
    assert (El3 : ImpFactsRelease.elem_ptrs m3 (qs ++ [VPtr RIn q])).
    { unfold ImpFactsRelease.elem_ptrs. apply Forall_app. split; [apply (MONO m3 Hmm3')|constructor; [right; exists q; split; [reflexivity|exact Hq]|constructor]]. }
    destruct (IH (i + 1) (hs ++ [hb]) (qs ++ [VPtr RIn q]) (blocks ++ Some blk' :: newb') (VPtr RIn q) hb k2 s2 m3 ltac:(lia) ltac:(lia)
                ltac:(rewrite zlen_app; change (zlen [hb]) with 1; lia) ltac:(rewrite zlen_app; change (zlen [VPtr RIn q]) with 1; lia) V3 El3 Hs2 NBP ltac:(lia))
      as (st & g & i' & a2' & a3' & pu & ps & nu & ns & hs' & pn & blocks' & j & k' & s' & m' & BL & (x3 & Hm') & R1 & R2 & R3 & R4 & R5 & R6 & R7 & R8).
    exists st, g, i', a2', a3', pu, ps, nu, ns, hs', pn, blocks', j, k', s', m'.
    split; [|split; [exists (x1 ++ x2 ++ x3); rewrite Hm', Hm3, Hm1, !app_assoc; reflexivity|repeat (split; [assumption|])]].
    2: { intros Hk0. assert (Hk1 : k1 = k) by (apply (KK1 Hk0 eq_refl)). assert (Hk2 : k2 = k) by (rewrite <- Hk1; apply KK2; [lia|reflexivity]). rewrite Hk2 in R8. exact (R8 Hk0). }
    rewrite <- !app_assoc in BL. cbn [app] in BL. fold n1 in BL.
    unfold cs_loop, cs_props_seq, cs_body in *. cbn [fbody prog_sbdf_cs_read] in *.
    eapply bsE_while_t; [apply COND|reflexivity| |exact BL].
    eapply bsE_seq; [eapply bsE_seq; [eapply bsE_seq; [exact N3|unl; eapply bsE_if; [evl; reflexivity|reflexivity|apply bsE_skip]]|
                                      eapply bsE_seq; [exact P3|unl; eapply bsE_if; [evl; reflexivity|reflexivity|apply bsE_skip]]]|].
    unl. eapply bsE_expr. evl. unfold incr. chk7. evl. reflexivity.
Qed.

(* ================================================================== behind a positive count: the arrays, the loop, the clean-up *)
Definition tl_ok (st : Z) (sB : state) (l' : crl) k' s' h' m' : Prop :=
  bsE prog_env cs_tail sB (OReturn (VInt st) (crf bv o fv ov l' k' s' h' m')).

Lemma tail_fail st g cp ii a2 a3 kk ss hh mm hf : st < 0 ->
  bsE prog_env (fbody prog_sbdf_cs_destroy) (fr [("cs"%string, VCell L 0); ("i"%string, VUndef)] bv kk ss hh mm o)
    (OReturn (VInt 0) (fr [("cs"%string, VCell L 0); ("i"%string, VUndef)] bv kk ss hf mm o)) ->
  bsE prog_env cs_tail (crf bv o fv ov (Build_crl cp (VInt st) ii (VCell L 0) (VInt v) (VCell (S L) 0) a2 a3 g so) kk ss hh mm)
    (OReturn (VInt st) (crf bv o fv ov (Build_crl cp (VInt st) ii (VCell L 0) (VInt v) (VCell (S L) 0) a2 a3 g so) kk ss hf mm)).
Proof.
  intros Hn D. unfold fr in D. cbn [app] in D. unfold cs_tail. cbn [fbody prog_sbdf_cs_read]. unfold crf, fr. cbn [c_cap c_err c_i c_t c_v c_a1 c_a2 c_a3 c_goto c_so app].
  eapply bsE_seq; [eapply bsE_if; [evl; reflexivity|cbn [truth]; replace (st =? 0) with false by lia; reflexivity|]; eapply bsE_call; [reflexivity|evl; reflexivity|reflexivity|evl; exact D|evl; reflexivity]|].
  eapply bsE_return. evl. reflexivity.
Qed.

Lemma props_main k2 s3 : Forall byte s3 -> props_nobit (Z.to_nat v) s3 ->
  exists st l' k' s' h' m',
    (exists sB, bsE prog_env cs_props_seq (s6 bv o rf rp fo po so h v k2 s3 blkV newbV m2) (OBreak sB) /\ tl_ok st sB l' k' s' h' m') /\
    prefix_of m2 m' /\
    ((st = SBDF_OK /\ c_so l' = VCell L 0 /\ releasable bv o h h' m' /\ props_end (Z.to_nat v) s3 = Some s' /\ Forall byte s' /\ v <= 134217727)
     \/ (st < 0 /\ c_so l' = so /\ exists j, h' = h ++ nones j)) /\
    (k2 < 0 -> st = props_st (Z.to_nat v) s3 /\ (st = SBDF_OK -> k' = k2)).
Proof.
  intros Hs3 NBP.
  pose proof (capacity_upper v ltac:(lia)) as (Hc1 & Hc8). unfold int_max in Hc8.
  set (c := Z.to_nat cap).
  assert (Hc : Z.of_nat c = cap) by (unfold c; lia).
  set (sl0 := [VCell (S L) 0; VInt 0; VInt 0; VInt 0; VInt 1]).
  set (hY := h ++ Some sl0 :: Some blkV :: newbV).
  assert (LY : List.length hY = PB) by (unfold hY; rewrite app_length; cbn [List.length]; lia).
  (* up to the first allocation *)
  assert (PRE1 : forall X oo, bsE prog_env X (crf bv o fv ov (Build_crl (VInt cap) (VInt SBDF_OK) VUndef (VCell L 0) (VInt v) (VCell (S L) 0) VUndef VUndef (VInt 0) so) k2 s3 hY m2) oo ->
     bsE prog_env (SSeq (SDecl "cap" None) (SSeq (SIf (EBin Gt (EVar "v") (EBin Div (EConst (2147483647)) (EBin Mul (EConst (2)) (ECast TInt (EConst 8))))) (SSeq (SExpr (EAssign "error" (EBin Sub (EConst 0) (EConst (2))))) SBreak) SSkip)
                        (SSeq (SCall (Some "cap") "sbdf_calculate_array_capacity" [(AVal (EVar "v"))]) X)))%string
       (s6 bv o rf rp fo po so h v k2 s3 blkV newbV m2) oo).
  { intros X oo B. revert B. unfold s6, crf, fr. cbn [c_cap c_err c_i c_t c_v c_a1 c_a2 c_a3 c_goto c_so app]. fold sl0. fold hY. intros B.
    eapply bsE_seq; [eapply bsE_decl0; evl; reflexivity|].
    eapply bsE_seq; [eapply bsE_if; [evl; chk7; evl; reflexivity|cbn [truth]; change (2147483647 ÷ (2 * ((8 + 2147483648) mod u32 - 2147483648))) with 134217727; replace (v >? 134217727) with false by lia; reflexivity|apply bsE_skip]|].
    eapply bsE_seq; [|exact B].
    eapply bsE_call; [reflexivity|evl; reflexivity|reflexivity|evl; apply (capacity_bs _ m2 o v VUndef ltac:(unfold int_min; lia))|unfold cap_st; evl; reflexivity]. }
  assert (Hz8 : cap * 8 / 8 = cap) by lia.
  destruct (alloc_fresh_bs bv k2 s3 m2 o hY L 3 (VInt 0) (cap * 8) VUndef
              ltac:(unfold hY; rewrite (cell_get_at h sl0 _ L 3 eq_refl) by lia; reflexivity) eq_refl ltac:(unfold int_max; lia) ltac:(lia)) as (h1' & E1 & A1).
  rewrite Hz8 in E1. fold c in E1.
  set (sl1 := [VCell (S L) 0; VInt 0; VInt 0; VCell PB 0; VInt 1]).
  set (H1 := fun (pc : list val) => h ++ Some sl1 :: Some blkV :: newbV ++ [Some pc]).
  assert (Eh1 : h1' = H1 (repeat VUndef c)).
  { rewrite LY in E1. unfold hY in E1. rewrite <- app_assoc in E1. cbn [app] in E1.
    rewrite (cell_set_at h sl0 _ L 3 (VCell PB 0) sl1 eq_refl ltac:(lia) eq_refl) in E1. injection E1 as <-. reflexivity. }
  subst h1'.
  assert (CALL1 : bsE prog_env (SCall (Some "error") "sbdf_alloc" [(AVal (EFieldAddr (EVar "t") (EConst 3))); (AVal (ECast TInt (EBin Mul (ECast TSizeT (EVar "cap")) (EConst 8))))])%string
             (crf bv o fv ov (Build_crl (VInt cap) (VInt SBDF_OK) VUndef (VCell L 0) (VInt v) (VCell (S L) 0) VUndef VUndef (VInt 0) so) k2 s3 hY m2)
             (ONormal (if k2 =? 0 then crf bv o fv ov (Build_crl (VInt cap) (VInt SBDF_ERROR_OUT_OF_MEMORY) VUndef (VCell L 0) (VInt v) (VCell (S L) 0) VUndef VUndef (VInt 0) so) (-1) s3 hY m2
                      else crf bv o fv ov (Build_crl (VInt cap) (VInt SBDF_OK) VUndef (VCell L 0) (VInt v) (VCell (S L) 0) VUndef VUndef (VInt 0) so) (next_fail k2) s3 (H1 (repeat VUndef c)) m2))).
  { assert (GY : cell_get hY L 3 = Some (VInt 0)) by (unfold hY; rewrite (cell_get_at h sl0 _ L 3 eq_refl) by lia; reflexivity).
    revert A1. unfold crf, fr. cbn [c_cap c_err c_i c_t c_v c_a1 c_a2 c_a3 c_goto c_so app]. intros A1.
    destruct (k2 =? 0); (eapply bsE_call; [reflexivity|evl; chk7; evl; change (0 + 3) with 3; rewrite GY; evl; replace (0 <=? cap) with true by lia; evl; chk7; evl; chk7; evl; reflexivity|reflexivity|exact A1|evl; reflexivity]). }
  destruct (k2 =? 0) eqn:Ek2.
  { (* the property array cannot be allocated *)
    pose proof (cs_destroy_read_bs bv o h blkV newbV m2 (-1) s3 VRV) as D. fold sl0 in D. fold hY in D.
    exists SBDF_ERROR_OUT_OF_MEMORY. eexists. exists (-1), s3. do 2 eexists. split; [|split; [|split; [|intros X; lia]]].
    - eexists. split.
      + unfold cs_props_seq, cs_body. cbn [fbody prog_sbdf_cs_read].
        eapply bsE_seq_brk. eapply bsE_if; [unfold s6, crf, fr; cbn [c_cap c_err c_i c_t c_v c_a1 c_a2 c_a3 c_goto c_so app]; evl; chk7; evl; reflexivity|cbn [truth]; replace (v >? 0) with true by lia; reflexivity|].
        apply PRE1. eapply bsE_seq_brk. eapply bsE_seq; [exact CALL1|].
        unfold crf, fr. cbn [c_cap c_err c_i c_t c_v c_a1 c_a2 c_a3 c_goto c_so app]. eapply bsE_if; [evl; reflexivity|reflexivity|apply bsE_break].
      + unfold tl_ok. fold (fr [("f", fv); ("out", ov); ("cap", VInt cap); ("error", VInt SBDF_ERROR_OUT_OF_MEMORY); ("i", VUndef); ("t", VCell L 0); ("v", VInt v); ("$a1", VCell (S L) 0); ("$a2", VUndef); ("$a3", VUndef); ("$goto", VInt 0); ("*out", so)]%string bv (-1) s3 hY m2 o).
        apply (tail_fail SBDF_ERROR_OUT_OF_MEMORY (VInt 0) (VInt cap) VUndef VUndef VUndef (-1) s3 hY m2 _ ltac:(reflexivity) D).
    - exists []. now rewrite app_nil_r.
    - right. split; [reflexivity|]. split; [reflexivity|]. eexists. reflexivity. }
  (* the property array is there: clear it *)
  set (kA := next_fail k2) in *.
  assert (LH1 : forall pc, List.length (H1 pc) = NB) by (intros; unfold H1; rewrite app_length; cbn [List.length]; rewrite app_length; cbn [List.length]; lia).
  assert (H1pre : forall pc, H1 pc = (h ++ Some sl1 :: Some blkV :: newbV) ++ Some pc :: []) by (intros; unfold H1; rewrite <- app_assoc; reflexivity).
  assert (G1L : forall pc j, 0 <= j -> cell_get (H1 pc) L j = nth_error sl1 (Z.to_nat j)) by (intros; unfold H1; apply cell_get_at; [reflexivity|assumption]).
  assert (N1P : forall pc, nth_error (H1 pc) PB = Some (Some pc)) by (intros; rewrite H1pre; apply nth_at'; symmetry; apply len_pre).
  assert (S1P : forall pc pc', set_nth_v PB (Some pc') (H1 pc) = Some (H1 pc')) by (intros; rewrite !H1pre; rewrite <- (len_pre sl1); apply set_nth_v_app).
  assert (RU : forall x, firstn (Z.to_nat 0) (repeat x c) ++ repeat (VInt 0) (Z.to_nat (cap * 8 / 8)) ++ skipn (Z.to_nat (0 + cap * 8 / 8)) (repeat x c) = zeros c).
  { intros x. rewrite Hz8. change (Z.to_nat 0) with 0%nat. cbn [firstn app]. replace (Z.to_nat (0 + cap)) with c by (unfold c; lia). fold c.
    rewrite skipn_all2 by (rewrite repeat_length; lia). rewrite app_nil_r. reflexivity. }
  assert (MS1 : bsE prog_env (SExpr (EMemsetCells (ECellLoad (EVar "t") (EConst 3) true) (EBin Mul (ECast TSizeT (EVar "cap")) (EConst 8))))%string
                  (crf bv o fv ov (Build_crl (VInt cap) (VInt SBDF_OK) VUndef (VCell L 0) (VInt v) (VCell (S L) 0) VUndef VUndef (VInt 0) so) kA s3 (H1 (repeat VUndef c)) m2)
                  (ONormal (crf bv o fv ov (Build_crl (VInt cap) (VInt SBDF_OK) VUndef (VCell L 0) (VInt v) (VCell (S L) 0) VUndef VUndef (VInt 0) so) kA s3 (H1 (zeros c)) m2))).
  { unfold crf, fr. cbn [c_cap c_err c_i c_t c_v c_a1 c_a2 c_a3 c_goto c_so app].
    eapply bsE_expr. evl. chk7. evl. rewrite G1L by lia. unfold sl1. change (Z.to_nat (0 + 3)) with 3%nat. evl. replace (0 <=? cap) with true by lia. evl. chk7. evl.
    rewrite N1P. rewrite repeat_length.
    replace ((0 <=? 0) && (0 <=? cap * 8) && (cap * 8 mod 8 =? 0) && (0 + cap * 8 / 8 <=? Z.of_nat c)) with true by lia.
    rewrite RU. rewrite S1P. evl. reflexivity. }
  (* the array of names *)
  destruct (alloc_fresh_bs bv kA s3 m2 o (H1 (zeros c)) L 2 (VInt 0) (cap * 8) VUndef
              ltac:(rewrite G1L by lia; reflexivity) eq_refl ltac:(unfold int_max; lia) ltac:(lia)) as (h2' & E2 & A2).
  rewrite Hz8 in E2. fold c in E2. rewrite LH1 in E2, A2.
  set (sl2 := slc 0 (VCell NB 0) (VCell PB 0)).
  assert (Eh2 : h2' = HP sl2 (zeros c) (repeat VUndef c) []).
  { unfold H1 in E2. rewrite <- app_assoc in E2. cbn [app] in E2. rewrite <- app_assoc in E2. cbn [app] in E2.
    rewrite (cell_set_at h sl1 _ L 2 (VCell NB 0) sl2 eq_refl ltac:(lia) eq_refl) in E2. injection E2 as <-. reflexivity. }
  subst h2'.
  assert (CALL2 : bsE prog_env (SCall (Some "error") "sbdf_alloc" [(AVal (EFieldAddr (EVar "t") (EConst 2))); (AVal (ECast TInt (EBin Mul (ECast TSizeT (EVar "cap")) (EConst 8))))])%string
             (crf bv o fv ov (Build_crl (VInt cap) (VInt SBDF_OK) VUndef (VCell L 0) (VInt v) (VCell (S L) 0) VUndef VUndef (VInt 0) so) kA s3 (H1 (zeros c)) m2)
             (ONormal (if kA =? 0 then crf bv o fv ov (Build_crl (VInt cap) (VInt SBDF_ERROR_OUT_OF_MEMORY) VUndef (VCell L 0) (VInt v) (VCell (S L) 0) VUndef VUndef (VInt 0) so) (-1) s3 (H1 (zeros c)) m2
                      else crf bv o fv ov (Build_crl (VInt cap) (VInt SBDF_OK) VUndef (VCell L 0) (VInt v) (VCell (S L) 0) VUndef VUndef (VInt 0) so) (next_fail kA) s3 (HP sl2 (zeros c) (repeat VUndef c) []) m2))).
  { assert (GY : cell_get (H1 (zeros c)) L 2 = Some (VInt 0)) by (rewrite G1L by lia; reflexivity).
    revert A2. unfold crf, fr. cbn [c_cap c_err c_i c_t c_v c_a1 c_a2 c_a3 c_goto c_so app]. intros A2.
    destruct (kA =? 0); (eapply bsE_call; [reflexivity|evl; chk7; evl; change (0 + 2) with 2; rewrite GY; evl; replace (0 <=? cap) with true by lia; evl; chk7; evl; chk7; evl; reflexivity|reflexivity|exact A2|evl; reflexivity]). }
  (* the common part of the derivation up to the second allocation *)
  destruct (kA =? 0) eqn:EkA.
  { (* the array of names cannot be allocated *)
    pose proof (destroy_props_only h blkV newbV m2 m2 (zeros c) (-1) s3 VRV ltac:(lia)) as D.
    exists SBDF_ERROR_OUT_OF_MEMORY. eexists. exists (-1), s3. do 2 eexists. split; [|split; [|split; [|intros X; unfold kA, next_fail in EkA; destruct (0 <? k2) eqn:E0; lia]]].
    - eexists. split.
      + unfold cs_props_seq, cs_body. cbn [fbody prog_sbdf_cs_read].
        eapply bsE_seq_brk. eapply bsE_if; [unfold s6, crf, fr; cbn [c_cap c_err c_i c_t c_v c_a1 c_a2 c_a3 c_goto c_so app]; evl; chk7; evl; reflexivity|cbn [truth]; replace (v >? 0) with true by lia; reflexivity|].
        apply PRE1. eapply bsE_seq; [eapply bsE_seq; [exact CALL1|unfold crf, fr; cbn [c_cap c_err c_i c_t c_v c_a1 c_a2 c_a3 c_goto c_so app]; eapply bsE_if; [evl; reflexivity|reflexivity|apply bsE_skip]]|].
        eapply bsE_seq; [exact MS1|]. eapply bsE_seq_brk. eapply bsE_seq; [exact CALL2|].
        unfold crf, fr. cbn [c_cap c_err c_i c_t c_v c_a1 c_a2 c_a3 c_goto c_so app]. eapply bsE_if; [evl; reflexivity|reflexivity|apply bsE_break].
      + unfold tl_ok. apply (tail_fail SBDF_ERROR_OUT_OF_MEMORY (VInt 0) (VInt cap) VUndef VUndef VUndef (-1) s3 (H1 (zeros c)) m2 _ ltac:(reflexivity) D).
    - exists []. now rewrite app_nil_r.
    - right. split; [reflexivity|]. split; [reflexivity|]. eexists. reflexivity. }
  (* both arrays are there *)
  set (kB := next_fail kA) in *.
  set (slv := slc v (VCell NB 0) (VCell PB 0)).
  assert (MS2 : bsE prog_env (SSeq (SExpr (EMemsetCells (ECellLoad (EVar "t") (EConst 2) true) (EBin Mul (ECast TSizeT (EVar "cap")) (EConst 8)))) (SSeq (SExpr (ECellStore (EVar "t") (EConst 1) (EVar "v"))) (SExpr (EAssign "i" (EConst (0))))))%string
                  (crf bv o fv ov (Build_crl (VInt cap) (VInt SBDF_OK) VUndef (VCell L 0) (VInt v) (VCell (S L) 0) VUndef VUndef (VInt 0) so) kB s3 (HP sl2 (zeros c) (repeat VUndef c) []) m2)
                  (ONormal (lst 0 0 0 VUndef VUndef (zeros c) (zeros c) [] kB s3 m2))).
  { unl. fold slv.
    eapply bsE_seq.
    { assert (NN : forall sl pc nc T, nth_error (HP sl pc nc T) NB = Some (Some nc)) by (intros; rewrite HP_pre2; apply nth_at'; symmetry; apply len_pre2).
      assert (SN : forall sl pc nc nc' T, set_nth_v NB (Some nc') (HP sl pc nc T) = Some (HP sl pc nc' T)) by (intros; rewrite !HP_pre2; rewrite <- (len_pre2 sl pc); apply set_nth_v_app).
      eapply bsE_expr. evl0. chk7. evl0. rewrite getL by lia. unfold sl2, slc. change (Z.to_nat (0 + 2)) with 2%nat. cbn [nth_error]. evl0. replace (0 <=? cap) with true by lia. evl0. chk7. evl0.
      rewrite NN. rewrite repeat_length.
      replace ((0 <=? 0) && (0 <=? cap * 8) && (cap * 8 mod 8 =? 0) && (0 + cap * 8 / 8 <=? Z.of_nat c)) with true by lia.
      rewrite RU. rewrite SN. evl0. reflexivity. }
    eapply bsE_seq.
    { eapply bsE_expr. evl. chk7. evl. chk7. change (0 + 1) with 1. erewrite setL; [|lia|unfold slc; reflexivity]. evl. reflexivity. }
    eapply bsE_expr. evl. chk7. reflexivity. }
  destruct (loop_bs (Z.to_nat v) 0 [] [] [] VUndef VUndef kB s3 m2 ltac:(lia) ltac:(lia) eq_refl eq_refl (vas_nil _ _) (Forall_nil _) Hs3 NBP ltac:(lia))
    as (st & g & i' & a2' & a3' & pu & ps & nu & ns & hs' & pn & blocks' & j & k' & s' & m' & BL & Pf & R1 & R2 & R3 & R4 & R5 & R6 & R7 & R8).
  cbn [app] in BL. replace (Z.to_nat (cap - 0)) with c in BL by (unfold c; lia).
  assert (BODY : bsE prog_env cs_props_seq (s6 bv o rf rp fo po so h v k2 s3 blkV newbV m2) (OBreak (lst i' st g a2' a3' (pu ++ ps) (nu ++ ns) (blocks' ++ nones j) k' s' m'))).
  { unfold cs_loop, cs_props_seq, cs_body in *. cbn [fbody prog_sbdf_cs_read] in *.
    destruct R7 as [(-> & -> & -> & PE & PBy)|(-> & Hneg)].
    - (* the loop ran through *)
      eapply bsE_seq; [|apply bsE_break].
      eapply bsE_if; [unfold s6, crf, fr; cbn [c_cap c_err c_i c_t c_v c_a1 c_a2 c_a3 c_goto c_so app]; evl; chk7; evl; reflexivity|cbn [truth]; replace (v >? 0) with true by lia; reflexivity|].
      apply PRE1. eapply bsE_seq; [eapply bsE_seq; [exact CALL1|unfold crf, fr; cbn [c_cap c_err c_i c_t c_v c_a1 c_a2 c_a3 c_goto c_so app]; eapply bsE_if; [evl; reflexivity|reflexivity|apply bsE_skip]]|].
      eapply bsE_seq; [exact MS1|]. eapply bsE_seq; [eapply bsE_seq; [exact CALL2|unfold crf, fr; cbn [c_cap c_err c_i c_t c_v c_a1 c_a2 c_a3 c_goto c_so app]; eapply bsE_if; [evl; reflexivity|reflexivity|apply bsE_skip]]|].
      eapply bsE_seq_assoc3; [exact MS2|]. eapply bsE_seq; [exact BL|].
      unl. eapply bsE_if; [evl; reflexivity|reflexivity|apply bsE_skip].
    - (* a property could not be read: goto end *)
      eapply bsE_seq_brk.
      eapply bsE_if; [unfold s6, crf, fr; cbn [c_cap c_err c_i c_t c_v c_a1 c_a2 c_a3 c_goto c_so app]; evl; chk7; evl; reflexivity|cbn [truth]; replace (v >? 0) with true by lia; reflexivity|].
      apply PRE1. eapply bsE_seq; [eapply bsE_seq; [exact CALL1|unfold crf, fr; cbn [c_cap c_err c_i c_t c_v c_a1 c_a2 c_a3 c_goto c_so app]; eapply bsE_if; [evl; reflexivity|reflexivity|apply bsE_skip]]|].
      eapply bsE_seq; [exact MS1|]. eapply bsE_seq; [eapply bsE_seq; [exact CALL2|unfold crf, fr; cbn [c_cap c_err c_i c_t c_v c_a1 c_a2 c_a3 c_goto c_so app]; eapply bsE_if; [evl; reflexivity|reflexivity|apply bsE_skip]]|].
      eapply bsE_seq_assoc3; [exact MS2|]. eapply bsE_seq; [exact BL|].
      unl. eapply bsE_if; [evl; reflexivity|reflexivity|apply bsE_break]. }
  assert (Hmm' : zlen m2 <= zlen m') by (destruct Pf as (x & ->); rewrite zlen_app; pose proof (zlen_nonneg x); lia).
  set (HNEW := Some slv :: Some blkV :: newbV ++ Some (pu ++ ps) :: Some (nu ++ ns) :: blocks' ++ nones j).
  assert (DGx : cs_sem bv o m' L HNEW).
  { intros pre x m3 kk sxx Hpre Hm3.
    assert (V3 : vas m3 BASE hs' blocks') by (apply (vas_mono m' m3 Hm3); exact R5).
    assert (E3 : ImpFactsRelease.elem_ptrs m3 nu).
    { unfold ImpFactsRelease.elem_ptrs in *. eapply Forall_impl; [|exact R6]. cbv beta. intros cc [N|(p & -> & Hp)]; [left; exact N|right; exists p; split; [reflexivity|lia]]. }
    pose proof (destroy_gen pre v blkV newbV m2 m3 pu ps nu ns hs' pn blocks' j x kk sxx) as D. rewrite !Hpre in D.
    specialize (D VRV ltac:(lia) ltac:(unfold int_max; lia) R1 R2 R3 R4 V3 E3).
    unfold HNEW. cbn [app List.length] in D |- *. rewrite <- !app_assoc. cbn [app].
    replace (List.length (newbV ++ Some (pu ++ ps) :: Some (nu ++ ns) :: blocks' ++ nones j)) with (nV + 2 + List.length blocks' + j)%nat
      by (rewrite app_length; cbn [List.length]; rewrite app_length, nones_length; lia).
    rewrite <- (app_assoc blocks'). replace (S (S (nV + 2 + List.length blocks' + j))) with (S (S nV) + 2 + List.length blocks' + j)%nat by lia. exact D. }
  assert (DG : forall kk sxx, bsE prog_env (fbody prog_sbdf_cs_destroy)
                 (fr [("cs"%string, VCell L 0); ("i"%string, VUndef)] bv kk sxx (HP slv (pu ++ ps) (nu ++ ns) (blocks' ++ nones j)) m' o)
                 (OReturn (VInt 0) (fr [("cs"%string, VCell L 0); ("i"%string, VUndef)] bv kk sxx (h ++ nones (List.length HNEW)) m' o))).
  { intros kk sxx. pose proof (DGx h [] m' kk sxx eq_refl ltac:(lia)) as D. rewrite !app_nil_r in D. exact D. }
  destruct R7 as [(-> & -> & -> & PE & PBy)|(-> & Hneg)].
  - (* every property was read: the slice is handed out *)
    exists SBDF_OK. eexists (Build_crl _ _ _ _ _ _ _ _ _ _). do 4 eexists. split; [|split; [exact Pf|split; [left|intros X; assert (EkB : kB = k2) by (unfold kB, kA, next_fail; destruct (0 <? k2) eqn:E0; [lia|]; rewrite E0; reflexivity); destruct (R8 ltac:(lia)) as (Q1 & Q2); split; [exact Q1|intros _; rewrite (Q2 eq_refl); exact EkB]]]].
    + eexists. split; [exact BODY|]. unfold tl_ok, cs_tail. cbn [fbody prog_sbdf_cs_read]. unl.
      eapply bsE_seq; [eapply bsE_if; [evl; reflexivity|reflexivity|]; eapply bsE_expr; evl; reflexivity|].
      eapply bsE_return. evl. reflexivity.
    + split; [reflexivity|]. split; [reflexivity|]. split; [|split; [exact PE|split; [exact PBy|lia]]].
      exists HNEW. split; [reflexivity|]. split; [unfold HNEW; cbn [List.length]; lia|exact DGx].
  - (* a property could not be read: everything is released *)
    exists st. eexists (Build_crl _ _ _ _ _ _ _ _ _ _). do 4 eexists. split; [|split; [exact Pf|split; [right|intros X; assert (EkB : kB = k2) by (unfold kB, kA, next_fail; destruct (0 <? k2) eqn:E0; [lia|]; rewrite E0; reflexivity); destruct (R8 ltac:(lia)) as (Q1 & Q2); split; [exact Q1|intros Y; unfold SBDF_OK in Y; lia]]]].
    + eexists. split; [exact BODY|]. unfold tl_ok.
      apply (tail_fail st (VInt 1) (VInt cap) (VInt i') a2' a3' k' s' _ m' _ Hneg (DG k' s')).
    + split; [exact Hneg|]. split; [reflexivity|]. eexists. reflexivity.
Qed.
End Loop.

(* a count that is too large for the arrays: refused before anything is allocated *)
Lemma props_big so (h : heap) v blkV newbV m2 k2 s3 :
  (forall hp : heap, List.length hp = S (List.length h) -> va_rel m2 (hp ++ Some blkV :: newbV) (S (List.length h)) (hp ++ None :: nones (List.length newbV))) ->
  134217727 < v <= int_max ->
  exists sB l' h', bsE prog_env cs_props_seq (s6 bv o rf rp fo po so h v k2 s3 blkV newbV m2) (OBreak sB) /\
    bsE prog_env cs_tail sB (OReturn (VInt SBDF_ERROR_OUT_OF_MEMORY) (crf bv o fv ov l' k2 s3 h' m2)) /\ c_so l' = so /\ exists j, h' = h ++ nones j.
Proof.
  intros VR Hv. unfold int_max in Hv.
  pose proof (cs_destroy_read_bs bv o h blkV newbV m2 k2 s3 VR) as D. unfold fr in D. cbn [app] in D.
  eexists. eexists (Build_crl _ _ _ _ _ _ _ _ _ _). eexists. split; [|split; [|split; [reflexivity|eexists; reflexivity]]].
  - unfold cs_props_seq, cs_body. cbn [fbody prog_sbdf_cs_read]. unfold s6, crf, fr. cbn [c_cap c_err c_i c_t c_v c_a1 c_a2 c_a3 c_goto c_so app].
    eapply bsE_seq_brk. eapply bsE_if; [evl; chk7; evl; reflexivity|cbn [truth]; replace (v >? 0) with true by lia; reflexivity|].
    eapply bsE_seq; [eapply bsE_decl0; evl; reflexivity|].
    eapply bsE_seq_brk. eapply bsE_if; [evl; chk7; evl; reflexivity|cbn [truth]; change (2147483647 ÷ (2 * ((8 + 2147483648) mod u32 - 2147483648))) with 134217727; replace (v >? 134217727) with true by lia; reflexivity|].
    eapply bsE_seq; [eapply bsE_expr; evl; chk7; evl; reflexivity|apply bsE_break].
  - unfold cs_tail. cbn [fbody prog_sbdf_cs_read].
    eapply bsE_seq; [eapply bsE_if; [evl; reflexivity|reflexivity|]; eapply bsE_call; [reflexivity|evl; reflexivity|reflexivity|evl; exact D|evl; reflexivity]|].
    eapply bsE_return. evl. reflexivity.
Qed.

(* ================================================================== the interface of ImpFactsCsRead.v is met *)
Theorem props_ok so h : props_spec bv o rf rp fo po so h.
Proof.
  intros k2 s3 m2 blk newb v VR Hv Hs3 NBP.
  destruct (Z_le_gt_dec v 134217727) as [Hsmall|Hbig].
  - destruct (props_main so h v blk newb m2 VR ltac:(lia) k2 s3 Hs3 NBP) as (st & l' & k' & s' & h' & m' & (sB & B1 & B2) & Pf & Out & PST).
    exists st, l', k', s', h', m'. split; [exists sB; split; [exact B1|exact B2]|]. split; [exact Pf|]. split; [exact Out|]. intros X. replace (134217727 <? v) with false by lia. exact (PST X).
  - destruct (props_big so h v blk newb m2 k2 s3 VR ltac:(lia)) as (sB & l' & h' & B1 & B2 & Ho & Hj).
    exists SBDF_ERROR_OUT_OF_MEMORY, l', k2, s3, h', m2. split; [exists sB; split; [exact B1|exact B2]|]. split; [exists []; now rewrite app_nil_r|].
    split; [right; split; [reflexivity|]; split; [exact Ho|exact Hj]|]. intros _. replace (134217727 <? v) with true by lia. split; [reflexivity|intros X; cbv in X; discriminate X].
Qed.
End Props.

(* ================================================================== sbdf_cs_read as a whole, as a top-level call *)
Theorem cs_read_full_source rf rp fo po k sx m h : Forall byte sx ->
  (forall s1, sec_expect SBDF_COLUMNSLICE_SECTIONID sx = Ok (tt, s1) -> forall t s2, s1 <> 3 :: t :: s2) ->
  (forall s1 va s2 v s3, sec_expect SBDF_COLUMNSLICE_SECTIONID sx = Ok (tt, s1) -> Va.va_read false None s1 = Ok (va, s2) -> read_int32 false s2 = Ok (v, s3) -> props_nobit (Z.to_nat v) s3) ->
  exists f0, forall f, (f0 <= f)%nat -> exists st fin,
    callC prog_env f prog_sbdf_cs_read [VPtr rf fo; VPtr rp po] m k sx h = OReturn (VInt st) fin /\ prefix_of m (inb fin) /\
    ((st = SBDF_OK /\ lookup "*out" (vars fin) = Some (VCell (List.length h) 0) /\
        (exists s1 va s2 v s3 s', sec_expect SBDF_COLUMNSLICE_SECTIONID sx = Ok (tt, s1) /\ Va.va_read false None s1 = Ok (va, s2) /\ read_int32 false s2 = Ok (v, s3) /\ 0 <= v <= 134217727 /\
                                  props_end (Z.to_nat v) s3 = Some s' /\ lookup strm_var (vars fin) = Some (VBytes s')) /\
        exists hnew, lookup cells_var (vars fin) = Some (VHeap (h ++ hnew)) /\ (1 <= List.length hnew)%nat /\
          (* one sbdf_cs_destroy releases everything the read allocated *)
          forall k' s', exists f1, forall g, (f1 <= g)%nat -> exists fin2,
            callC prog_env g prog_sbdf_cs_destroy [VCell (List.length h) 0] (inb fin) k' s' (h ++ hnew) = OReturn (VInt 0) fin2 /\
            inb fin2 = inb fin /\ lookup cells_var (vars fin2) = Some (VHeap (h ++ nones (List.length hnew))))
     \/ (st < 0 /\ lookup "*out" (vars fin) = Some VUndef /\ exists j, lookup cells_var (vars fin) = Some (VHeap (h ++ nones j)))) /\
    (* without allocation failures the status is the one the model's readers give *)
    (k < 0 -> st = cs_st sx).
Proof.
  intros Hs NB NBP.
  destruct (cs_read_gen (VInt 0) [] rf rp fo po VUndef k sx h m Hs NB NBP (props_ok (VInt 0) [] rf rp fo po VUndef h)) as (st & l' & k' & s' & h' & m' & B & Pf & Out & CST).
  destruct (bsE_sound _ _ _ _ B) as (f0 & F). exists f0. intros f Hf. exists st. eexists. split; [apply F; exact Hf|]. split; [exact Pf|]. split; [|exact (fun H => proj1 (CST H))].
  destruct l'. cbv [ImpFactsCsRead.c_so] in Out.
  destruct Out as [(-> & -> & (hnew & -> & Hn & D) & s1 & va & s2 & v & s3 & E1 & E2 & E3 & E4 & E5 & _)|(Hn & -> & j & ->)].
  - left. split; [reflexivity|]. split; [reflexivity|]. split; [exists s1, va, s2, v, s3, s'; repeat split; first [assumption|lia]|].
    exists hnew. split; [reflexivity|]. split; [exact Hn|].
    intros k2 s2'. pose proof (D h [] m' k2 s2' eq_refl (Z.le_refl _)) as D2. rewrite !app_nil_r in D2. destruct (bsE_sound _ _ _ _ D2) as (f1 & F1). exists f1. intros g Hg.
    eexists. split; [apply F1; exact Hg|]. split; reflexivity.
  - right. split; [exact Hn|]. split; [reflexivity|]. exists j. reflexivity.
Qed.
