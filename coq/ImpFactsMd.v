(* ImpFactsMd.v - the metadata list of src/metadata.c from the source: creation, freezing, counting, lookup by name. *)
From Sbdf Require Import ImpCall Gen.Prog Gen.Consts Base BaseFacts ImpBase ImpFactsCells.
From Coq Require Import ZifyBool.
Local Open Scope Z_scope.
Ltac Zify.zify_post_hook ::= Z.div_mod_to_equations.

(* the entries of a metadata list starting at pointer p (already read at pointer type): their names *)
Fixpoint md_list (h : heap) (m : list Z) (p : val) (names : list (list Z)) : Prop :=
  match names with
  | [] => p = VNull
  | nm :: rest => exists b nx np vv dv, p = VCell b 0 /\ nth_error h b = Some (Some [nx; VPtr RIn np; vv; dv]) /\ cstr_at m np nm /\ md_list h m (as_ptr nx) rest
  end.

(* a metadata head at block hb: first entry, modifiable flag *)
Definition md_head (h : heap) (m : list Z) (hb : nat) (names : list (list Z)) (modifiable : Z) : Prop :=
  exists first, nth_error h hb = Some (Some [first; VInt modifiable]) /\ md_list h m (as_ptr first) names.

Section Md.
Variables (bv : val) (k : Z) (sx : list Z) (m o : list Z).

(* ---- sbdf_md_cnt ---- *)
Lemma md_cnt_loop h hd names : forall p r, md_list h m p names -> 0 <= r -> r + zlen names <= int_max ->
  bsE prog_env (SWhile (EVar "t") (SSeq (SExpr (EPreInc "result")) (SExpr (EAssign "t" (ECellLoad (EVar "t") (EConst 0) true)))))
    (fr [("head"%string, hd); ("result"%string, VInt r); ("t"%string, p)] bv k sx h m o)
    (ONormal (fr [("head"%string, hd); ("result"%string, VInt (r + zlen names)); ("t"%string, VNull)] bv k sx h m o)).
Proof.
  induction names as [|nm rest IH]; intros p r Hl Hr Hmax; unfold fr.
  - cbn [md_list] in Hl. subst p. change (zlen (@nil (list Z))) with 0. rewrite Z.add_0_r.
    eapply bsE_while_f; [evc; reflexivity|reflexivity].
  - cbn [md_list] in Hl. destruct Hl as (b & nx & np & vv & dv & -> & Hb & Hs & Hrest).
    assert (Hz : zlen (nm :: rest) = 1 + zlen rest) by (unfold zlen; cbn [List.length]; lia). rewrite Hz in *.
    pose proof (zlen_nonneg rest) as Pr. unfold int_max in *.
    eapply bsE_while_t; [evc; reflexivity|reflexivity| |].
    + eapply bsE_seq; [eapply bsE_expr; evc; unfold incr; chk7; evc; reflexivity|].
      eapply bsE_expr. evc. chk7. evc. cellrw Hb. evc. reflexivity.
    + replace (r + (1 + zlen rest)) with ((r + 1) + zlen rest) by lia. apply (IH (as_ptr nx) (r + 1) Hrest); lia.
Qed.


Lemma md_cnt_bs h hb names modif r0 t0 : md_head h m hb names modif -> zlen names <= int_max ->
  bsE prog_env (fbody prog_sbdf_md_cnt) (fr [("head"%string, VCell hb 0); ("result"%string, r0); ("t"%string, t0)] bv k sx h m o)
    (OReturn (VInt (zlen names)) (fr [("head"%string, VCell hb 0); ("result"%string, VInt (zlen names)); ("t"%string, VNull)] bv k sx h m o)).
Proof.
  intros (first & Hb & Hl) Hmax. cbn [fbody prog_sbdf_md_cnt]. unfold fr.
  eapply bsE_seq; [eapply bsE_decl0; evc; reflexivity|]. eapply bsE_seq; [eapply bsE_decl1; [evc; chk7; reflexivity|evc; reflexivity]|].
  eapply bsE_seq; [eapply bsE_if; [evc; reflexivity|reflexivity|apply bsE_skip]|].
  eapply bsE_seq.
  - eapply bsE_seq; [eapply bsE_expr; evc; chk7; evc; cellrw Hb; evc; reflexivity|].
    apply (md_cnt_loop h (VCell hb 0) names (as_ptr first) 0 Hl); lia.
  - eapply bsE_return. evc. reflexivity.
Qed.

Lemma md_exists_loop h hd q name names : forall p, md_list h m p names -> cstr_at m q name ->
  exists tv, bsE prog_env (SWhile (EVar "t") (SSeq (SIf (ELNot (EStrcmp (EVar "name") (ECellLoad (EVar "t") (EConst 1) true))) (SReturn (EConst (1))) SSkip)
                                       (SExpr (EAssign "t" (ECellLoad (EVar "t") (EConst 0) true)))))
    (fr [("name"%string, VPtr RIn q); ("head"%string, hd); ("t"%string, p)] bv k sx h m o)
    (if existsb (list_eqb name) names
     then OReturn (VInt 1) (fr [("name"%string, VPtr RIn q); ("head"%string, hd); ("t"%string, tv)] bv k sx h m o)
     else ONormal (fr [("name"%string, VPtr RIn q); ("head"%string, hd); ("t"%string, tv)] bv k sx h m o)).
Proof.
  induction names as [|nm rest IH]; intros p Hl Hq; unfold fr.
  - cbn [md_list] in Hl. subst p. cbn [existsb]. exists VNull. eapply bsE_while_f; [evc; reflexivity|reflexivity].
  - cbn [md_list] in Hl. destruct Hl as (b & nx & np & vv & dv & -> & Hb & Hs & Hrest).
    destruct Hq as (Hq0 & Hq1). destruct Hs as (Hs0 & Hs1).
    assert (CMP : eval (ELNot (EStrcmp (EVar "name") (ECellLoad (EVar "t") (EConst 1) true)))
                    {| vars := [("name"%string, VPtr RIn q); ("head"%string, hd); ("t"%string, VCell b 0); (budget_var, bv); (fail_var, VInt k); (strm_var, VBytes sx); (cells_var, VHeap h)]; inb := m; outb := o |}
                  = Some (VInt (b2z (negb (negb (lexcmp_l name nm =? 0)))),
                          {| vars := [("name"%string, VPtr RIn q); ("head"%string, hd); ("t"%string, VCell b 0); (budget_var, bv); (fail_var, VInt k); (strm_var, VBytes sx); (cells_var, VHeap h)]; inb := m; outb := o |})).
    { evc. chk7. evc. cellrw Hb. evc. cbn [inb]. rewrite zlen_length.
      replace ((0 <=? q) && (q <=? zlen m) && (0 <=? np) && (np <=? zlen m)) with true by lia. rewrite Hq1, Hs1. reflexivity. }
    cbn [existsb]. destruct (list_eqb name nm) eqn:E.
    + apply list_eqb_spec in E. subst nm. cbn [orb]. exists (VCell b 0).
      eapply bsE_while_ret; [evc; reflexivity|reflexivity|].
      eapply bsE_seq_ret. eapply bsE_if; [cbn [app]; exact CMP| |].
      * replace (lexcmp_l name name) with 0 by (symmetry; now apply lexcmp_l_eq). reflexivity.
      * eapply bsE_return. evc. chk7. reflexivity.
    + cbn [orb]. destruct (IH (as_ptr nx) Hrest (conj Hq0 Hq1)) as (tv & B). exists tv.
      assert (Hne : lexcmp_l name nm <> 0). { intros C. apply lexcmp_l_eq in C. subst nm. assert (list_eqb name name = true) by now apply list_eqb_spec. congruence. }
      destruct (existsb (list_eqb name) rest).
      * eapply bsE_while_t; [evc; reflexivity|reflexivity| |exact B].
        eapply bsE_seq; [eapply bsE_if; [cbn [app]; exact CMP|destruct (lexcmp_l name nm =? 0) eqn:Z0; [lia|reflexivity]|apply bsE_skip]|].
        eapply bsE_expr. evc. chk7. evc. cellrw Hb. evc. reflexivity.
      * eapply bsE_while_t; [evc; reflexivity|reflexivity| |exact B].
        eapply bsE_seq; [eapply bsE_if; [cbn [app]; exact CMP|destruct (lexcmp_l name nm =? 0) eqn:Z0; [lia|reflexivity]|apply bsE_skip]|].
        eapply bsE_expr. evc. chk7. evc. cellrw Hb. evc. reflexivity.
Qed.

Lemma md_exists_bs h hb q name names modif t0 : md_head h m hb names modif -> cstr_at m q name ->
  exists tv, bsE prog_env (fbody prog_sbdf_md_exists) (fr [("name"%string, VPtr RIn q); ("head"%string, VCell hb 0); ("t"%string, t0)] bv k sx h m o)
    (OReturn (VInt (if existsb (list_eqb name) names then 1 else 0)) (fr [("name"%string, VPtr RIn q); ("head"%string, VCell hb 0); ("t"%string, tv)] bv k sx h m o)).
Proof.
  intros (first & Hb & Hl) Hq. cbn [fbody prog_sbdf_md_exists].
  destruct (md_exists_loop h (VCell hb 0) q name names (as_ptr first) Hl Hq) as (tv & B). exists tv. unfold fr in *.
  eapply bsE_seq; [eapply bsE_decl0; evc; reflexivity|].
  eapply bsE_seq; [eapply bsE_if; [evc; reflexivity|reflexivity|apply bsE_skip]|].
  destruct (existsb (list_eqb name) names).
  - eapply bsE_seq_ret. eapply bsE_seq; [eapply bsE_expr; evc; chk7; evc; cellrw Hb; evc; reflexivity|]. exact B.
  - eapply bsE_seq; [eapply bsE_seq; [eapply bsE_expr; evc; chk7; evc; cellrw Hb; evc; reflexivity|exact B]|].
    eapply bsE_return. evc. chk7. reflexivity.
Qed.

(* ---- sbdf_md_set_immutable: the flag cell of the head becomes 0, nothing else changes ---- *)
Lemma md_set_immutable_bs h hb first modif : nth_error h hb = Some (Some [first; VInt modif]) ->
  exists h', set_nth_v hb (Some [first; VInt 0]) h = Some h' /\
  bsE prog_env (fbody prog_sbdf_md_set_immutable) (fr [("metadata"%string, VCell hb 0)] bv k sx h m o)
    (OReturn (VInt SBDF_OK) (fr [("metadata"%string, VCell hb 0)] bv k sx h' m o)).
Proof.
  intros Hb. cbn [fbody prog_sbdf_md_set_immutable]. unfold fr.
  assert (E : exists h', set_nth_v hb (Some [first; VInt 0]) h = Some h').
  { clear -Hb. revert hb Hb. induction h as [|x h IH]; intros [|hb] Hb; cbn [nth_error] in Hb; try discriminate; cbn [set_nth_v]; [eexists; reflexivity|].
    destruct (IH hb Hb) as (h' & ->). eexists; reflexivity. }
  destruct E as (h' & E). exists h'. split; [exact E|].
  eapply bsE_seq; [eapply bsE_if; [evc; reflexivity|reflexivity|apply bsE_skip]|].
  eapply bsE_seq; [eapply bsE_expr; evc; chk7; evc; chk7; evc; cellrw Hb; rewrite E; evc; reflexivity|].
  eapply bsE_return. evc. chk7. reflexivity.
Qed.

(* ---- sbdf_md_create: a fresh head with no entries, modifiable; (the source reports a failed calloc as ARGUMENT_NULL) ---- *)
Lemma md_create_bs h outv t0 c0 : is_ptr outv ->
  bsE prog_env (fbody prog_sbdf_md_create) (fr [("out"%string, outv); ("t"%string, t0); ("*out"%string, c0)] bv k sx h m o)
    (if k =? 0 then OReturn (VInt SBDF_ERROR_ARGUMENT_NULL) (fr [("out"%string, outv); ("t"%string, VNull); ("*out"%string, c0)] bv (-1) sx h m o)
     else OReturn (VInt SBDF_OK) (fr [("out"%string, outv); ("t"%string, VCell (List.length h) 0); ("*out"%string, VCell (List.length h) 0)] bv (next_fail k) sx (h ++ [Some [VInt 0; VInt 1]]) m o)).
Proof.
  intros Ho. destruct outv as [| pr po | | | | |]; try contradiction. cbn [fbody prog_sbdf_md_create]. unfold fr.
  eapply bsE_seq; [eapply bsE_decl1; [evc; reflexivity|evc; reflexivity]|].
  eapply bsE_seq; [eapply bsE_if; [evc; reflexivity|reflexivity|apply bsE_skip]|].
  destruct (k =? 0) eqn:Ek.
  - eapply bsE_seq; [eapply bsE_expr; evc; chk7; evc; rewrite Ek; evc; reflexivity|].
    eapply bsE_seq_ret. eapply bsE_if; [evc; reflexivity|reflexivity|]. eapply bsE_return. evc. chk7. reflexivity.
  - eapply bsE_seq; [eapply bsE_expr; evc; chk7; evc; rewrite Ek; evc; reflexivity|].
    eapply bsE_seq; [eapply bsE_if; [evc; reflexivity|reflexivity|apply bsE_skip]|].
    assert (Hn : nth_error (h ++ [Some [VInt 0; VInt 0]]) (List.length h) = Some (Some [VInt 0; VInt 0])) by (rewrite nth_error_app2 by lia; rewrite Nat.sub_diag; reflexivity).
    assert (Hs : set_nth_v (List.length h) (Some [VInt 0; VInt 1]) (h ++ [Some [VInt 0; VInt 0]]) = Some (h ++ [Some [VInt 0; VInt 1]])).
    { clear. induction h as [|x h IH]; cbn [List.length app set_nth_v]; [reflexivity|]. now rewrite IH. }
    eapply bsE_seq; [eapply bsE_expr; evc; chk7; evc; chk7; evc; change (repeat (VInt 0) (Z.to_nat 2)) with [VInt 0; VInt 0]; cellrw Hn; rewrite Hs; evc; reflexivity|].
    eapply bsE_seq; [eapply bsE_expr; evc; reflexivity|]. eapply bsE_return. evc. chk7. unfold next_fail. reflexivity.
Qed.

End Md.

(* ---- the statements about top-level calls ---- *)
Theorem md_cnt_source k sx m h hb names modif : md_head h m hb names modif -> zlen names <= int_max ->
  exists f0, forall f, (f0 <= f)%nat -> exists fin,
    callC prog_env f prog_sbdf_md_cnt [VCell hb 0] m k sx h = OReturn (VInt (zlen names)) fin /\
    inb fin = m /\ lookup cells_var (vars fin) = Some (VHeap h).
Proof.
  intros H Hm. destruct (bsE_sound _ _ _ _ (md_cnt_bs (VInt 0) k sx m [] h hb names modif VUndef VUndef H Hm)) as (f0 & F).
  exists f0. intros f Hf. eexists. split; [apply F; exact Hf|]. split; reflexivity.
Qed.

Theorem md_exists_source k sx m h hb q name names modif : md_head h m hb names modif -> cstr_at m q name ->
  exists f0, forall f, (f0 <= f)%nat -> exists fin,
    callC prog_env f prog_sbdf_md_exists [VPtr RIn q; VCell hb 0] m k sx h = OReturn (VInt (if existsb (list_eqb name) names then 1 else 0)) fin /\
    inb fin = m /\ lookup cells_var (vars fin) = Some (VHeap h).
Proof.
  intros H Hq. destruct (md_exists_bs (VInt 0) k sx m [] h hb q name names modif VUndef H Hq) as (tv & B).
  destruct (bsE_sound _ _ _ _ B) as (f0 & F). exists f0. intros f Hf. eexists. split; [apply F; exact Hf|]. split; reflexivity.
Qed.

Theorem md_set_immutable_source k sx m h hb first modif : nth_error h hb = Some (Some [first; VInt modif]) ->
  exists h', set_nth_v hb (Some [first; VInt 0]) h = Some h' /\
  exists f0, forall f, (f0 <= f)%nat -> exists fin,
    callC prog_env f prog_sbdf_md_set_immutable [VCell hb 0] m k sx h = OReturn (VInt SBDF_OK) fin /\
    inb fin = m /\ lookup cells_var (vars fin) = Some (VHeap h').
Proof.
  intros Hb. destruct (md_set_immutable_bs (VInt 0) k sx m [] h hb first modif Hb) as (h' & E & B). exists h'. split; [exact E|].
  destruct (bsE_sound _ _ _ _ B) as (f0 & F). exists f0. intros f Hf. eexists. split; [apply F; exact Hf|]. split; reflexivity.
Qed.

Theorem md_create_source k sx m h :
  exists f0, forall f, (f0 <= f)%nat -> exists fin,
    callC prog_env f prog_sbdf_md_create [tok] m k sx h =
      OReturn (VInt (if k =? 0 then SBDF_ERROR_ARGUMENT_NULL else SBDF_OK)) fin /\
    inb fin = m /\
    (if k =? 0 then lookup cells_var (vars fin) = Some (VHeap h)
     else lookup cells_var (vars fin) = Some (VHeap (h ++ [Some [VInt 0; VInt 1]])) /\ lookup "*out" (vars fin) = Some (VCell (List.length h) 0) /\
          md_head (h ++ [Some [VInt 0; VInt 1]]) m (List.length h) [] 1).
Proof.
  pose proof (md_create_bs (VInt 0) k sx m [] h tok VUndef VUndef I) as B.
  destruct (k =? 0); destruct (bsE_sound _ _ _ _ B) as (f0 & F); exists f0; intros f Hf; eexists; (split; [apply F; exact Hf|]); (split; [reflexivity|]).
  - reflexivity.
  - split; [reflexivity|]. split; [reflexivity|]. exists (VInt 0). split; [|reflexivity]. rewrite nth_error_app2 by lia. rewrite Nat.sub_diag. reflexivity.
Qed.

