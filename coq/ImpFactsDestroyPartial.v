(* ImpFactsDestroyPartial.v - sbdf_obj_destroy on a string / binary object whose pointer array is filled only in front
   (what a reader that failed half-way hands to it): the filled elements are released once each, the empty slots are
   looked at and left alone, then the pointer array and the header are released. *)
From Sbdf Require Import ImpCall Gen.Prog Gen.Consts Base BaseFacts ImpBase ImpFactsCells ImpFactsDestroy.
From Coq Require Import ZifyBool.
Local Open Scope Z_scope.
Ltac Zify.zify_post_hook ::= Z.div_mod_to_equations.

Section Partial.
Variables (bv : val) (k : Z) (sx : list Z) (m o : list Z).

Definition loop_stmt : stmt :=
  (SWhile (EBin Ge (EVar "i") (EConst (0)))
     (SSeq (SIf (ECellLoad (EVar "ptr") (EConst 0) true) (SCall None "sbdf_dispose_array" [(AVal (ECellLoad (ECellStep "ptr" (1) true) (EConst 0) true))]) SSkip)
           (SExpr (EPreDec "i"))))%string.

(* the empty slots: the pointer stays where it is, the counter runs down *)
Lemma destroy_nulls h ob db cells filled nulls : nth_error h db = Some (Some cells) -> cells = filled ++ nulls -> Forall (fun c => c = VInt 0 \/ c = VNull) nulls ->
  zlen cells <= int_max ->
  forall n : nat, Z.of_nat n <= zlen nulls ->
  bsE prog_env loop_stmt
    (fr [("object"%string, VCell ob 0); ("i"%string, VInt (Z.of_nat n - 1)); ("ptr"%string, VCell db (zlen filled))] bv k sx h m o)
    (ONormal (fr [("object"%string, VCell ob 0); ("i"%string, VInt (-1)); ("ptr"%string, VCell db (zlen filled))] bv k sx h m o)).
Proof.
  intros Hdb Hc Hn Hmax. unfold loop_stmt. pose proof (zlen_nonneg filled) as Pf. unfold int_max in Hmax.
  assert (Hlen : zlen cells = zlen filled + zlen nulls) by (rewrite Hc, zlen_app; reflexivity).
  induction n as [|n IH]; intros Hj; unfold fr.
  - change (Z.of_nat 0 - 1) with (-1). eapply bsE_while_f; [evc; chk7; evc; reflexivity|reflexivity].
  - destruct nulls as [|c nulls']; [cbn in Hj; lia|]. inversion Hn as [|? ? Hc0 Hn'].
    assert (Hnth : nth_error cells (Z.to_nat (zlen filled)) = Some c).
    { rewrite Hc. replace (Z.to_nat (zlen filled)) with (List.length filled) by (unfold zlen; lia). rewrite nth_error_app2 by lia. rewrite Nat.sub_diag. reflexivity. }
    eapply bsE_while_t; [evc; chk7; evc; replace (Z.of_nat (S n) - 1 >=? 0) with true by lia; reflexivity|reflexivity| |].
    + eapply bsE_seq.
      * eapply bsE_if; [evc; chk7; evc; unfold cell_get; rewrite Hdb; replace (0 <=? zlen filled + 0) with true by lia; replace (zlen filled + 0) with (zlen filled) by lia; rewrite Hnth; destruct Hc0; subst c; evc; reflexivity|reflexivity|apply bsE_skip].
      * eapply bsE_expr. evc. unfold decr. chk7. evc. reflexivity.
    + replace (Z.of_nat (S n) - 1 - 1) with (Z.of_nat n - 1) by lia. apply IH. lia.
Qed.

(* the filled slots: each element handed to sbdf_dispose_array once, the pointer moving up; then the empty ones *)
Lemma destroy_filled h ob db cells nulls : nth_error h db = Some (Some cells) -> zlen cells <= int_max -> Forall (fun c => c = VInt 0 \/ c = VNull) nulls ->
  forall rest done, cells = (done ++ rest) ++ nulls -> elem_ptrs m rest ->
  bsE prog_env loop_stmt
    (fr [("object"%string, VCell ob 0); ("i"%string, VInt (zlen rest + zlen nulls - 1)); ("ptr"%string, VCell db (zlen done))] bv k sx h m o)
    (ONormal (fr [("object"%string, VCell ob 0); ("i"%string, VInt (-1)); ("ptr"%string, VCell db (zlen (done ++ rest)))] bv k sx h m o)).
Proof.
  intros Hdb Hmax Hnul. induction rest as [|c rest IH]; intros done Hc Hel.
  - rewrite app_nil_r in *. change (zlen (@nil val)) with 0. replace (0 + zlen nulls - 1) with (Z.of_nat (List.length nulls) - 1) by (unfold zlen; lia).
    apply (destroy_nulls h ob db cells done nulls Hdb Hc Hnul Hmax). unfold zlen. lia.
  - unfold elem_ptrs in Hel. inversion Hel as [|? ? (p & -> & Hp) Hel']. subst.
    pose proof (zlen_nonneg rest) as Pr. pose proof (zlen_nonneg done) as Pd. pose proof (zlen_nonneg nulls) as Pn.
    assert (Hz : zlen (VPtr RIn p :: rest) = 1 + zlen rest) by (unfold zlen; cbn [List.length]; lia). rewrite Hz.
    set (cells := (done ++ VPtr RIn p :: rest) ++ nulls) in *.
    assert (Hzc : zlen cells = zlen done + 1 + zlen rest + zlen nulls) by (unfold cells; rewrite !zlen_app, Hz; lia).
    assert (Hnth : nth_error cells (Z.to_nat (zlen done)) = Some (VPtr RIn p)).
    { unfold cells. rewrite <- app_assoc. replace (Z.to_nat (zlen done)) with (List.length done) by (unfold zlen; lia). rewrite nth_error_app2 by lia. rewrite Nat.sub_diag. reflexivity. }
    unfold int_max in Hmax. unfold loop_stmt, fr.
    eapply bsE_while_t; [evc; chk7; evc; replace (1 + zlen rest + zlen nulls - 1 >=? 0) with true by lia; reflexivity|reflexivity| |].
    + eapply bsE_seq.
      * eapply bsE_if; [evc; chk7; evc; unfold cell_get; rewrite Hdb; replace (0 <=? zlen done + 0) with true by lia; replace (zlen done + 0) with (zlen done) by lia; rewrite Hnth; evc; reflexivity|reflexivity|].
        eapply bsE_call_void; [reflexivity
          |evcc; rewrite Hdb; rewrite zlen_length; replace ((0 <=? zlen done + 1) && (zlen done + 1 <=? zlen cells)) with true by lia; evcc; chk7; evcc;
           unfold cell_get; rewrite Hdb; replace (0 <=? zlen done + 0) with true by lia; replace (zlen done + 0) with (zlen done) by lia; rewrite Hnth; evcc; reflexivity
          |reflexivity|apply (dispose_array_bs2 bv k sx m o h p Hp)|unfold fr; evcc; reflexivity].
      * eapply bsE_expr. evc. unfold decr. chk7. evc. reflexivity.
    + replace (1 + zlen rest + zlen nulls - 1 - 1) with (zlen rest + zlen nulls - 1) by lia.
      replace (zlen done + 1) with (zlen (done ++ [VPtr RIn p])) by (rewrite zlen_app; reflexivity).
      replace (done ++ VPtr RIn p :: rest) with ((done ++ [VPtr RIn p]) ++ rest) by (rewrite <- app_assoc; reflexivity).
      apply IH; [unfold cells; rewrite <- !app_assoc; reflexivity|exact Hel'].
Qed.

Lemma obj_destroy_partial_bs h ob db ty filled nulls data i0 p0 : obj_block h ob ty (zlen (filled ++ nulls)) data -> as_ptr data = VCell db 0 -> ob <> db ->
  Leaf.gen_sbdf_ti_is_arr ty <> 0 -> nth_error h db = Some (Some (filled ++ nulls)) -> elem_ptrs m filled -> Forall (fun c => c = VInt 0 \/ c = VNull) nulls ->
  zlen (filled ++ nulls) <= int_max ->
  exists iv pv, bsE prog_env (fbody prog_sbdf_obj_destroy) (fr [("object"%string, VCell ob 0); ("i"%string, i0); ("ptr"%string, p0)] bv k sx h m o)
    (ONormal (fr [("object"%string, VCell ob 0); ("i"%string, iv); ("ptr"%string, pv)] bv k sx (kill ob (kill db h)) m o)).
Proof.
  intros Hob Hd Hne Harr Hdb Hel Hnul Hmax. set (cells := filled ++ nulls) in *. unfold obj_block in Hob. cbn [fbody prog_sbdf_obj_destroy]. unfold fr.
  pose proof (destroy_filled h ob db cells nulls Hdb Hmax Hnul filled [] eq_refl Hel) as LOOP. change (zlen (@nil val)) with 0 in LOOP. unfold fr, loop_stmt in LOOP. cbn [app] in LOOP.
  replace (zlen filled + zlen nulls - 1) with (zlen cells - 1) in LOOP by (unfold cells; rewrite zlen_app; lia).
  destruct (set_nth_v_some h db (Some cells) None Hdb) as (h1 & E1).
  assert (Hob1 : nth_error h1 ob = Some (Some [VInt ty; VInt (zlen cells); data])) by (rewrite (set_nth_v_other h db ob None h1 E1) by congruence; exact Hob).
  destruct (set_nth_v_some h1 ob _ (Some [VInt ty; VInt (zlen cells); VNull]) Hob1) as (h2 & E2).
  assert (Hob2 : nth_error h2 ob = Some (Some [VInt ty; VInt (zlen cells); VNull])) by (apply (set_nth_v_same h1 ob _ h2 E2)).
  destruct (set_nth_v_some h2 ob _ None Hob2) as (h3 & E3).
  assert (Hfin : kill ob (kill db h) = h3).
  { unfold kill. rewrite E1. rewrite <- (set_nth_v_twice h1 ob (Some [VInt ty; VInt (zlen cells); VNull]) None h2 E2). rewrite E3. reflexivity. }
  rewrite Hfin. unfold int_max in Hmax. pose proof (zlen_nonneg cells) as Pc.
  exists (VInt (-1)), (VCell db (zlen filled)).
  eapply bsE_if; [evc; reflexivity|reflexivity|].
  eapply bsE_seq.
  - eapply bsE_if; [evc; chk7; evc; cellrw Hob; evc; rewrite Hd; reflexivity|reflexivity|].
    eapply bsE_seq.
    + eapply bsE_if; [evc; chk7; evc; cellrw Hob; evc; unfold leaf_call; cbn [String.eqb Ascii.eqb Bool.eqb]; reflexivity
                     |cbn [truth]; destruct (Leaf.gen_sbdf_ti_is_arr ty =? 0) eqn:Z0; [lia|reflexivity]|].
      eapply bsE_seq; [eapply bsE_decl1; [evc; chk7; evc; cellrw Hob; evc; rewrite Hd; reflexivity|evc; reflexivity]|].
      eapply bsE_seq; [eapply bsE_decl0; evc; reflexivity|].
      eapply bsE_seq; [eapply bsE_expr; evc; chk7; evc; cellrw Hob; evc; chk7; evc; reflexivity|].
      exact LOOP.
    + eapply bsE_seq.
      * eapply bsE_expr. evc. chk7. evc. cellrw Hob. evc. rewrite Hd. evc. rewrite Hdb. evc. rewrite E1. evc. reflexivity.
      * eapply bsE_expr. evc. chk7. evc. cellrw Hob1. rewrite E2. evc. reflexivity.
  - eapply bsE_expr. evc. rewrite Hob2. evc. rewrite E3. evc. reflexivity.
Qed.
End Partial.

(* as a top-level call *)
Theorem obj_destroy_partial_source k sx m h ob db ty filled nulls data : obj_block h ob ty (zlen (filled ++ nulls)) data -> as_ptr data = VCell db 0 -> ob <> db ->
  Leaf.gen_sbdf_ti_is_arr ty <> 0 -> nth_error h db = Some (Some (filled ++ nulls)) -> elem_ptrs m filled -> Forall (fun c => c = VInt 0 \/ c = VNull) nulls ->
  zlen (filled ++ nulls) <= int_max ->
  exists f0, forall f, (f0 <= f)%nat -> exists fin,
    callC prog_env f prog_sbdf_obj_destroy [VCell ob 0] m k sx h = ONormal fin /\ inb fin = m /\ lookup cells_var (vars fin) = Some (VHeap (kill ob (kill db h))).
Proof.
  intros H1 H2 H3 H4 H5 H6 H7 H8. destruct (obj_destroy_partial_bs (VInt 0) k sx m [] h ob db ty filled nulls data VUndef VUndef H1 H2 H3 H4 H5 H6 H7 H8) as (iv & pv & B).
  destruct (bsE_sound _ _ _ _ B) as (f0 & F). exists f0. intros f Hf. eexists. split; [apply F; exact Hf|]. split; reflexivity.
Qed.
