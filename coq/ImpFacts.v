(* ImpFacts.v — the programs of Gen/Prog.v (translated from src/sbdfstring.c on every run) compute
   the functional model of Charset.v: for every input string, with and without an output buffer. *)
From Sbdf Require Import Imp Gen.Prog Charset BaseFacts CharsetFacts ImpBase.
From Coq Require Import ZifyBool.
Local Open Scope Z_scope.
Ltac Zify.zify_post_hook ::= Z.div_mod_to_equations.







Definition ov (w : bool) (j : Z) : val := if w then VPtr ROut j else VNull.
Definition app_w (w : bool) (o x : list Z) : list Z := if w then o ++ x else o.

Lemma app_w_assoc w o x y : app_w w (app_w w o x) y = app_w w o (x ++ y).
Proof. destruct w; cbn; [now rewrite app_assoc|reflexivity]. Qed.

Lemma truth_ov w j : truth (ov w j) = Some w.
Proof. now destruct w. Qed.




Lemma shiftr6 ch : 0 <= ch <= 255 -> 0 <= Z.shiftr ch 6 <= 3.
Proof. intros H. rewrite Z.shiftr_div_pow2 by lia. change (2 ^ 6) with 64. lia. Qed.

Lemma land63 ch : 0 <= ch <= 255 -> 0 <= Z.land ch 63 <= 63.
Proof.
  intros H. assert (E : Z.land ch 63 = ch mod 64) by (change 63 with (Z.ones 6); rewrite Z.land_ones by lia; reflexivity).
  rewrite E. lia.
Qed.


Ltac ev := cbn [eval lookup update set_var String.eqb Ascii.eqb Bool.eqb vars inb outb truth cast load store incr binop_int b2z fst snd ov].

(* ================================================================== iso-8859-1 -> utf-8 *)

Definition st4 (i : Z) (o : val) (c : val) (r : Z) (inp outp : list Z) : state :=
  {| vars := [("inp"%string, VPtr RIn i); ("out"%string, o); ("ch"%string, c); ("result"%string, VInt r)]; inb := inp; outb := outp |}.

Definition i2u_cond : expr := EAssign "ch" (ECast TUChar (EDeref (EPostInc "inp"))).

(* fetching the next input byte: ch = *inp++ *)
Lemma fetch4 pre b rest o c r outp : 0 <= b <= 255 ->
  eval i2u_cond (st4 (zlen pre) o c r (pre ++ b :: rest) outp)
  = Some (VInt b, st4 (zlen pre + 1) o (VInt b) r (pre ++ b :: rest) outp).
Proof.
  intros Hb. unfold i2u_cond, st4. ev. rewrite zlen_length, zlen_app, zlen_cons.
  pose proof (zlen_nonneg pre). pose proof (zlen_nonneg rest).
  replace (zlen pre <? zlen pre + (1 + zlen rest)) with true by lia. ev.
  rewrite zlen_length, zlen_app, zlen_cons.
  replace ((0 <=? zlen pre) && (zlen pre <? zlen pre + (1 + zlen rest))) with true by lia.
  rewrite nth_app_mid. ev. rewrite signed_unsigned by lia. reflexivity.
Qed.


Ltac evs := ev; chks; ev; chks; ev; chks; ev.
(* one store through out: *out++ = e, the buffer written sequentially *)
Ltac store_tac :=
  eapply bs_expr; evs; cbn [app_w app]; rewrite ?zlen_length, ?zlen_app, ?zlen_cons; change (zlen (@nil Z)) with 0;
  rewrite ?Z.add_0_r, Z.eqb_refl; ev; rewrite char_byte by lia; reflexivity.

Lemma st4_ext i o c r inp outp i' o' c' r' inp' outp' :
  i = i' -> o = o' -> c = c' -> r = r' -> inp = inp' -> outp = outp' -> st4 i o c r inp outp = st4 i' o' c' r' inp' outp'.
Proof. now intros -> -> -> -> -> ->. Qed.

Ltac st_eq :=
  try apply (f_equal ONormal); unfold ov, app_w; cbn [app]; rewrite ?zlen_app, ?zlen_cons; change (zlen (@nil Z)) with 0;
  rewrite <- ?app_assoc; cbn [app];
  apply st4_ext; [lia | first [reflexivity | f_equal; lia] | reflexivity | lia | reflexivity | reflexivity].

Lemma i2u_loop w t : forall pre o r c,
  Forall latin1 t -> 0 <= r -> r + zlen (iso_to_utf8 t) < int_max ->
  bs (loop3 (fbody prog_sbdf_convert_iso88591_to_utf8))
     (st4 (zlen pre) (ov w (zlen o)) c r (pre ++ t ++ [0]) (app_w w [] o))
     (ONormal (st4 (zlen pre + zlen t + 1) (ov w (zlen o + zlen (iso_to_utf8 t))) (VInt 0) (r + zlen (iso_to_utf8 t))
                   (pre ++ t ++ [0]) (app_w w [] (o ++ iso_to_utf8 t)))).
Proof.
  cbn [loop3 fbody prog_sbdf_convert_iso88591_to_utf8].
  destruct w.
  all: induction t as [|b t IH]; intros pre o r c Ht Hr Hmax.
  1,3: cbn [app iso_to_utf8]; rewrite app_nil_r; unfold zlen at 3 4 5; cbn [List.length Z.of_nat]; rewrite !Z.add_0_r;
       (eapply bs_while_f; [apply (fetch4 pre 0 [] _ c r); lia|reflexivity]).
  all: inversion Ht as [|? ? Hb Ht']; subst; unfold latin1 in Hb; cbn [app]; cbn [iso_to_utf8] in *;
       unfold int_max in *; pose proof (zlen_nonneg (iso_to_utf8 t)) as P0; destruct (b <=? 127) eqn:E.
  (* ascii *)
  1,3: rewrite zlen_cons in Hmax; eapply bs_while_t;
    [ apply (fetch4 pre b (t ++ [0])); lia
    | ev; replace (b =? 0) with false by lia; reflexivity
    | unfold st4; eapply bs_if; [ evs; rewrite E; reflexivity | reflexivity | ];
      eapply bs_seq;
       [ eapply bs_if; [ev; reflexivity|reflexivity|]; first [store_tac | apply bs_skip]
       | eapply bs_expr; evs; reflexivity ]
    | ].
  3,4: rewrite !zlen_cons in Hmax; destruct (step_facts b ltac:(lia)) as (_ & _ & _ & _ & _ & F6 & F7);
       pose proof (shiftr6 b ltac:(lia)) as S6; pose proof (land63 b ltac:(lia)) as L6;
       eapply bs_while_t;
    [ apply (fetch4 pre b (t ++ [0])); lia
    | ev; replace (b =? 0) with false by lia; reflexivity
    | unfold st4; eapply bs_if; [ evs; rewrite E; reflexivity | reflexivity | ];
      eapply bs_seq;
       [ eapply bs_if; [ev; reflexivity|reflexivity|];
         first [ eapply bs_seq;
                 [ eapply bs_expr; evs; replace ((0 <=? b) && (0 <=? 6) && (6 <? 32)) with true by lia; evs;
                   cbn [app_w app]; rewrite ?zlen_length, Z.eqb_refl; ev; rewrite char_byte by lia; reflexivity
                 | store_tac ]
               | apply bs_skip ]
       | eapply bs_expr; evs; reflexivity ]
    | ].
  all: pose proof (zlen_nonneg (iso_to_utf8 t)).
  1,2: eapply bs_cast; [apply (IH (pre ++ [b]) (o ++ [b]) (r + 1) (VInt b) Ht'); lia|st_eq|st_eq].
  1,2: eapply bs_cast; [apply (IH (pre ++ [b]) (o ++ [Z.lor 192 (Z.shiftr b 6); Z.lor 128 (Z.land b 63)]) (r + 2) (VInt b) Ht'); lia|st_eq|st_eq].
Qed.

(* the whole function: called on a NUL-terminated Latin-1 string, with an output buffer (w = true)
   or with a null output pointer (w = false, the length-only call) *)
Theorem i2u_bs w s : Forall latin1 s -> zlen (iso_to_utf8 s) + 1 <= int_max ->
  exists fin, bs (fbody prog_sbdf_convert_iso88591_to_utf8)
     {| vars := combine (fparams prog_sbdf_convert_iso88591_to_utf8) [VPtr RIn 0; ov w 0]
                ++ map (fun x => (x, VUndef)) (flocals prog_sbdf_convert_iso88591_to_utf8);
        inb := s ++ [0]; outb := [] |}
     (OReturn (VInt (zlen (iso_to_utf8 s) + 1)) fin) /\ outb fin = app_w w [] (iso_to_utf8 s ++ [0]).
Proof.
  intros Hs Hmax. pose proof (zlen_nonneg (iso_to_utf8 s)) as P0. unfold int_max in *.
  pose proof (i2u_loop w s [] [] 0 VUndef Hs ltac:(lia) ltac:(unfold int_max; lia)) as L.
  cbn [loop3 fbody prog_sbdf_convert_iso88591_to_utf8] in L. cbn [app] in L. change (zlen (@nil Z)) with 0 in L. rewrite !Z.add_0_l in L.
  cbn [fbody fparams flocals prog_sbdf_convert_iso88591_to_utf8 combine map app].
  destruct w; eexists; (split; [
    eapply bs_seq; [eapply bs_decl1; [evs; reflexivity|ev; reflexivity]|];
    eapply bs_seq; [eapply bs_decl0; ev; reflexivity|];
    eapply bs_seq; [exact L|];
    unfold st4; eapply bs_seq;
      [ eapply bs_if; [ev; reflexivity|reflexivity|]; first [store_tac | apply bs_skip] |];
    eapply bs_seq; [eapply bs_expr; evs; reflexivity|];
    eapply bs_return; evs; reflexivity
  | cbn [outb app_w app]; reflexivity ]).
Qed.

Theorem i2u_correct w s : Forall latin1 s -> zlen (iso_to_utf8 s) + 1 <= int_max ->
  exists f0, forall f, (f0 <= f)%nat ->
    exists fin, call f prog_sbdf_convert_iso88591_to_utf8 [VPtr RIn 0; ov w 0] (s ++ [0]) = OReturn (VInt (zlen (iso_to_utf8 s) + 1)) fin /\
                outb fin = app_w w [] (iso_to_utf8 s ++ [0]).
Proof.
  intros Hs Hmax. destruct (i2u_bs w s Hs Hmax) as (fin & B & O). destruct (bs_sound _ _ _ B) as (f0 & F).
  exists f0. intros f Hf. exists fin. split; [apply F; exact Hf|exact O].
Qed.


(* ================================================================== utf-8 -> iso-8859-1 *)

Definition st5 (i : Z) (o : val) (c : val) (r : Z) (u : val) (inp outp : list Z) : state :=
  {| vars := [("inp"%string, VPtr RIn i); ("out"%string, o); ("ch"%string, c); ("result"%string, VInt r); ("uch"%string, u)];
     inb := inp; outb := outp |}.

Lemma st5_ext i o c r u inp outp i' o' c' r' u' inp' outp' :
  i = i' -> o = o' -> c = c' -> r = r' -> u = u' -> inp = inp' -> outp = outp' ->
  st5 i o c r u inp outp = st5 i' o' c' r' u' inp' outp'.
Proof. now intros -> -> -> -> -> -> ->. Qed.

Definition byte_ok (b : Z) : bool :=
  (Z.land (sgn b) 192 =? Z.land b 192) && (0 <=? Z.land b 192) && (Z.land b 192 <=? 192) &&
  (0 <=? Z.land b 31) && (Z.land b 31 <=? 31) && (Z.shiftl (Z.land b 31) 6 =? Z.land b 31 * 64) &&
  (0 <=? Z.land b 63) && (Z.land b 63 <=? 63).

Lemma byte_ok_all : forallb byte_ok (map Z.of_nat (seq 0 256)) = true.
Proof. vm_compute. reflexivity. Qed.

Lemma byte_facts b : 0 <= b <= 255 ->
  Z.land (sgn b) 192 = Z.land b 192 /\ 0 <= Z.land b 192 <= 192 /\ 0 <= Z.land b 31 <= 31 /\
  Z.shiftl (Z.land b 31) 6 = Z.land b 31 * 64 /\ 0 <= Z.land b 63 <= 63.
Proof.
  intros H. pose proof byte_ok_all as A. rewrite forallb_forall in A.
  assert (S : byte_ok b = true) by (apply A; apply in_map_iff; exists (Z.to_nat b); split; [lia|apply in_seq; lia]).
  unfold byte_ok in S. repeat (apply andb_true_iff in S; destruct S as [S ?]). lia.
Qed.







(* evaluation without unfolding the memory accesses (load_mid / incr_mid are rewritten explicitly) *)
Ltac ev5 := cbn [eval lookup update set_var String.eqb Ascii.eqb Bool.eqb vars inb outb truth cast store binop_int b2z fst snd ov negb];
  change (0 =? 0) with true; change (1 =? 0) with false; cbn [negb b2z].
Ltac mem5 := rewrite ?incr_mid, ?load_mid, ?incr_mid1, ?load_mid1.
Ltac evm := ev5; mem5; chks; ev5; mem5; chks; ev5; mem5; chks; ev5.

(* ch = *inp++ *)
Lemma fetch5 pre b rest o c r u outp : 0 <= b <= 255 ->
  eval i2u_cond (st5 (zlen pre) o c r u (pre ++ b :: rest) outp)
  = Some (VInt b, st5 (zlen pre + 1) o (VInt b) r u (pre ++ b :: rest) outp).
Proof. intros Hb. unfold i2u_cond, st5. evm. rewrite sgn_mod by lia. reflexivity. Qed.


Fixpoint take_cont (s : list Z) : list Z :=
  match s with
  | b :: r => if is_cont b then b :: take_cont r else []
  | [] => []
  end.

Lemma take_drop s : s = take_cont s ++ drop_cont s.
Proof. induction s as [|b s IH]; cbn [take_cont drop_cont]; [reflexivity|]. destruct (is_cont b); [cbn [app]; now f_equal|reflexivity]. Qed.

Lemma take_cont_spec s : Forall latin1 s -> Forall (fun b => 0 <= b <= 255 /\ is_cont b = true) (take_cont s).
Proof.
  induction 1 as [|b s Hb Hs IH]; cbn [take_cont]; [constructor|]. destruct (is_cont b) eqn:E; [|constructor].
  constructor; [unfold latin1 in Hb; split; [lia|exact E]|exact IH].
Qed.

Lemma drop_cont_latin s : Forall latin1 s -> Forall latin1 (drop_cont s).
Proof. induction 1 as [|b s Hb Hs IH]; cbn [drop_cont]; [constructor|]. destruct (is_cont b); [exact IH|now constructor]. Qed.

Lemma drop_cont_next s : Forall latin1 s -> exists x tl, drop_cont s ++ [0] = x :: tl /\ is_cont x = false /\ 0 <= x <= 255.
Proof.
  induction 1 as [|b s Hb Hs IH]; cbn [drop_cont].
  - exists 0, []. split; [reflexivity|]. split; [reflexivity|lia].
  - destruct (is_cont b) eqn:E; [exact IH|]. exists b, (s ++ [0]). split; [reflexivity|]. split; [exact E|unfold latin1 in Hb; lia].
Qed.

Lemma length_drop_cont s : (List.length (drop_cont s) <= List.length s)%nat.
Proof. induction s as [|b s IH]; cbn [drop_cont]; [lia|]. destruct (is_cont b); cbn [List.length]; lia. Qed.

Definition inner_while (st : stmt) : stmt :=
  match loop3 st with SWhile _ (SIf _ _ (SIf _ _ (SSeq w _))) => w | _ => SSkip end.

(* the inner loop "while the byte under inp is a continuation byte, advance": skips exactly the continuation bytes under the cursor *)
Lemma skip_conts cs : Forall (fun b => 0 <= b <= 255 /\ is_cont b = true) cs ->
  forall pre x tl o c r u outp, is_cont x = false -> 0 <= x <= 255 ->
  bs (inner_while (fbody prog_sbdf_convert_utf8_to_iso88591))
     (st5 (zlen pre) o c r u (pre ++ cs ++ x :: tl) outp)
     (ONormal (st5 (zlen pre + zlen cs) o c r u (pre ++ cs ++ x :: tl) outp)).
Proof.
  cbn [inner_while loop3 fbody prog_sbdf_convert_utf8_to_iso88591].
  induction 1 as [|b cs (Hb & Cb) Hcs IH]; intros pre x tl o c r u outp Cx Hx.
  - cbn [app]. change (zlen (@nil Z)) with 0. rewrite Z.add_0_r.
    destruct (byte_facts x Hx) as (F1 & F2 & _). pose proof (sgn_range x Hx).
    eapply bs_while_f.
    + unfold st5. evm. rewrite F1. chks. ev5. reflexivity.
    + unfold is_cont in Cx. rewrite Cx. reflexivity.
  - cbn [app]. destruct (byte_facts b Hb) as (F1 & F2 & _). pose proof (sgn_range b Hb).
    eapply bs_while_t.
    + unfold st5. evm. rewrite F1. chks. ev5. reflexivity.
    + unfold is_cont in Cb. rewrite Cb. reflexivity.
    + eapply bs_expr. evm. reflexivity.
    + eapply bs_cast; [apply (IH (pre ++ [b]) x tl o c r u outp Cx Hx)| |].
      * apply st5_ext; try reflexivity; [rewrite zlen_app, zlen_cons; change (zlen (@nil Z)) with 0; lia|now rewrite <- app_assoc].
      * apply (f_equal ONormal). apply st5_ext; try reflexivity; [rewrite zlen_app, !zlen_cons; change (zlen (@nil Z)) with 0; lia|now rewrite <- app_assoc].
Qed.

Lemma u2i_loop_nil n : u2i_loop n [] = [].
Proof. destruct n; reflexivity. Qed.

Ltac st5_eq :=
  try apply (f_equal ONormal); unfold ov, app_w; cbn [app]; rewrite ?zlen_app, ?zlen_cons; change (zlen (@nil Z)) with 0;
  rewrite <- ?app_assoc; cbn [app];
  apply st5_ext; [lia | first [reflexivity | f_equal; lia] | reflexivity | lia | reflexivity | reflexivity | reflexivity].

Lemma u2i_loop_bs w : forall n t, (List.length t <= n)%nat -> forall pre o r c u,
  Forall latin1 t -> 0 <= r -> r + zlen (u2i_loop n t) < int_max ->
  exists u', bs (loop3 (fbody prog_sbdf_convert_utf8_to_iso88591))
     (st5 (zlen pre) (ov w (zlen o)) c r u (pre ++ t ++ [0]) (app_w w [] o))
     (ONormal (st5 (zlen pre + zlen t + 1) (ov w (zlen o + zlen (u2i_loop n t))) (VInt 0) (r + zlen (u2i_loop n t)) u'
                   (pre ++ t ++ [0]) (app_w w [] (o ++ u2i_loop n t)))).
Proof.
  cbn [loop3 fbody prog_sbdf_convert_utf8_to_iso88591].
  assert (Base : forall n pre o r c u, exists u',
    bs (loop3 (fbody prog_sbdf_convert_utf8_to_iso88591))
     (st5 (zlen pre) (ov w (zlen o)) c r u (pre ++ [] ++ [0]) (app_w w [] o))
     (ONormal (st5 (zlen pre + zlen (@nil Z) + 1) (ov w (zlen o + zlen (u2i_loop n []))) (VInt 0) (r + zlen (u2i_loop n [])) u'
                   (pre ++ [] ++ [0]) (app_w w [] (o ++ u2i_loop n []))))).
  { intros n pre o r c u. exists u. rewrite u2i_loop_nil. cbn [app loop3 fbody prog_sbdf_convert_utf8_to_iso88591].
    rewrite app_nil_r. change (zlen (@nil Z)) with 0. rewrite !Z.add_0_r.
    eapply bs_while_f; [apply (fetch5 pre 0 [] _ c r u); lia|reflexivity]. }
  cbn [loop3 fbody prog_sbdf_convert_utf8_to_iso88591] in Base.
  induction n as [|n IH]; intros t Hn pre o r c u Ht Hr Hmax.
  { destruct t; [apply Base|cbn in Hn; lia]. }
  destruct t as [|ch rest]; [apply Base|].
  inversion Ht as [|? ? Hc Hrest]. subst. unfold latin1 in Hc. cbn [List.length] in Hn.
  cbn [u2i_loop] in *. unfold int_max in *.
  destruct (ch <=? 127) eqn:E1.
  { (* ascii *)
    rewrite zlen_cons in Hmax. pose proof (zlen_nonneg (u2i_loop n rest)) as P0.
    destruct (IH rest ltac:(lia) (pre ++ [ch]) (o ++ [ch]) (r + 1) (VInt ch) u Hrest ltac:(lia) ltac:(lia)) as (u' & B).
    exists u'. cbn [app]. destruct w.
    all: eapply bs_while_t;
      [ apply (fetch5 pre ch (rest ++ [0])); lia
      | ev; replace (ch =? 0) with false by lia; reflexivity
      | unfold st5; eapply bs_if; [ evs; rewrite E1; reflexivity | reflexivity | ];
        eapply bs_seq;
         [ eapply bs_if; [ev; reflexivity|reflexivity|]; first [store_tac | apply bs_skip]
         | eapply bs_expr; evs; reflexivity ]
      | eapply bs_cast; [exact B|st5_eq|st5_eq] ]. }
  destruct ((192 <=? ch) && (ch <? 223)) eqn:E2.
  2: { (* neither ASCII nor a two-byte lead: one substitute, continuation bytes skipped *)
    rewrite zlen_cons in Hmax. pose proof (zlen_nonneg (u2i_loop n (drop_cont rest))) as P0.
    destruct (drop_cont_next rest Hrest) as (x & tl & Ex & Cx & Hx).
    pose proof (take_cont_spec rest Hrest) as Hcs. pose proof (length_drop_cont rest) as Hl.
    assert (Hlen : zlen rest = zlen (take_cont rest) + zlen (drop_cont rest)) by (rewrite (take_drop rest) at 1; apply zlen_app).
    assert (Er : rest ++ [0] = take_cont rest ++ x :: tl) by (rewrite (take_drop rest) at 1; rewrite <- app_assoc, Ex; reflexivity).
    destruct (IH (drop_cont rest) ltac:(lia) (pre ++ ch :: take_cont rest) (o ++ [REPLACEMENT]) (r + 1) (VInt ch) u
                 (drop_cont_latin rest Hrest) ltac:(lia) ltac:(lia)) as (u' & B).
    rewrite Ex in B. exists u'. cbn [app]. rewrite Er. destruct w.
    all: eapply bs_while_t;
      [ apply (fetch5 pre ch (take_cont rest ++ x :: tl)); lia
      | ev; replace (ch =? 0) with false by lia; reflexivity
      | unfold st5; eapply bs_if; [ evs; rewrite E1; reflexivity | reflexivity | ];
        destruct (ch >=? 192) eqn:G1; [destruct (ch <? 223) eqn:G2; [lia|]|];
        (eapply bs_if; [ evs; rewrite ?G1, ?G2; evs; rewrite ?G2; reflexivity | reflexivity | ]);
        (eapply bs_seq;
         [ eapply bs_cast; [eapply (skip_conts (take_cont rest) Hcs (pre ++ [ch]) x tl _ (VInt ch) r u); [exact Cx|exact Hx]|st5_eq|reflexivity]
         | unfold st5; eapply bs_seq;
           [ eapply bs_if; [ev; reflexivity|reflexivity|]; first [store_tac | apply bs_skip]
           | eapply bs_expr; evs; reflexivity ] ])
      | eapply bs_cast; [exact B|st5_eq|st5_eq] ]. }
  (* a two-byte lead *)
  set (hi := Z.land ch 31 * 64) in *.
  destruct (byte_facts ch ltac:(lia)) as (_ & _ & A31 & Ashl & _).
  assert (G1 : (ch >=? 192) = true) by lia. assert (G2 : (ch <? 223) = true) by lia.
  (* the byte after the lead is not a continuation byte (or the string ends): one substitute, that byte is looked at again *)
  assert (P1 : forall nx tl, rest ++ [0] = nx :: tl -> is_cont nx = false -> 0 <= nx <= 255 ->
     r + (1 + zlen (u2i_loop n rest)) < 2147483647 -> exists u',
     bs (loop3 (fbody prog_sbdf_convert_utf8_to_iso88591))
       (st5 (zlen pre) (ov w (zlen o)) c r u (pre ++ (ch :: rest) ++ [0]) (app_w w [] o))
       (ONormal (st5 (zlen pre + zlen (ch :: rest) + 1) (ov w (zlen o + zlen (REPLACEMENT :: u2i_loop n rest))) (VInt 0)
                     (r + zlen (REPLACEMENT :: u2i_loop n rest)) u' (pre ++ (ch :: rest) ++ [0]) (app_w w [] (o ++ REPLACEMENT :: u2i_loop n rest))))).
  { intros nx tl Er Cn Hnx Hm. pose proof (zlen_nonneg (u2i_loop n rest)) as P0.
    destruct (byte_facts nx Hnx) as (_ & N192 & _ & _ & N63).
    assert (Cn' : (Z.land nx 192 =? 128) = false) by exact Cn.
    destruct (IH rest ltac:(lia) (pre ++ [ch]) (o ++ [REPLACEMENT]) (r + 1) (VInt nx) (VInt (hi + Z.land nx 63)) Hrest ltac:(lia) ltac:(lia)) as (u' & B).
    exists u'. cbn [app loop3 fbody prog_sbdf_convert_utf8_to_iso88591]. rewrite Er. rewrite Er in B. destruct w.
    all: eapply bs_while_t;
      [ apply (fetch5 pre ch (nx :: tl)); lia
      | ev; replace (ch =? 0) with false by lia; reflexivity
      | unfold st5; eapply bs_if; [ evs; rewrite E1; reflexivity | reflexivity | ];
        (eapply bs_if; [ evs; rewrite ?G1, ?G2; evs; rewrite ?G2; reflexivity | reflexivity | ]);
        (eapply bs_seq; [eapply bs_decl1; [evm; replace ((0 <=? Z.land ch 31) && (0 <=? 6) && (6 <? 32)) with true by lia; rewrite Ashl; fold hi; chks; reflexivity|ev5; reflexivity]|]);
        (eapply bs_seq; [eapply bs_expr; evm; rewrite sgn_mod by lia; reflexivity|]);
        (eapply bs_seq; [eapply bs_if; [evm; rewrite Cn'; reflexivity|reflexivity|apply bs_skip]|]);
        (eapply bs_seq; [eapply bs_expr; evm; reflexivity|]);
        (eapply bs_seq;
          [ eapply bs_if; [evm; rewrite Cn'; evm; reflexivity|reflexivity|];
            eapply bs_if; [ev; reflexivity|reflexivity|]; first [store_tac | apply bs_skip]
          | eapply bs_expr; evs; reflexivity ])
      | eapply bs_cast; [exact B|st5_eq|st5_eq] ]. }
  cbn [loop3 fbody prog_sbdf_convert_utf8_to_iso88591] in P1.
  destruct rest as [|nx r'].
  { destruct (P1 0 []) as (u' & B); [reflexivity|reflexivity|lia|rewrite u2i_loop_nil; change (zlen [REPLACEMENT]) with 1 in Hmax; change (zlen (@nil Z)) with 0; lia|].
    rewrite u2i_loop_nil in B. exists u'. exact B. }
  inversion Hrest as [|? ? Hnx Hr']. subst. unfold latin1 in Hnx.
  destruct (is_cont nx) eqn:Cn.
  2: { apply (P1 nx (r' ++ [0])); [reflexivity|exact Cn|lia|]. rewrite zlen_cons in Hmax. exact Hmax. }
  clear P1.
  (* lead followed by a continuation byte: the character if it is in 0x80..0xff, one substitute otherwise *)
  set (U := hi + Z.land nx 63) in *.
  destruct (byte_facts nx ltac:(lia)) as (_ & N192 & _ & _ & N63).
  assert (Cn' : (Z.land nx 192 =? 128) = true) by exact Cn.
  set (X := if (U <? 128) || (256 <=? U) then REPLACEMENT else U) in *.
  rewrite zlen_cons in Hmax. pose proof (zlen_nonneg (u2i_loop n r')) as P0. cbn [List.length] in Hn.
  destruct (IH r' ltac:(lia) (pre ++ [ch; nx]) (o ++ [X]) (r + 1) (VInt nx) (VInt U) Hr' ltac:(lia) ltac:(lia)) as (u' & B).
  exists u'. cbn [app].
  assert (XE : X = if (U <? 128) || (U >=? 256) then 26 else U) by (unfold X, REPLACEMENT; now rewrite Z.geb_leb).
  clearbody X.
  destruct (U <? 128) eqn:L1; [|destruct (U >=? 256) eqn:L2].
  all: cbn [orb] in XE; subst X.
  all: try (pose proof L2 as L2'; rewrite Z.geb_leb in L2').
  all: destruct w.
  all: eapply bs_while_t;
      [ apply (fetch5 pre ch (nx :: r' ++ [0])); lia
      | ev; replace (ch =? 0) with false by lia; reflexivity
      | unfold st5; eapply bs_if; [ evs; rewrite E1; reflexivity | reflexivity | ];
        (eapply bs_if; [ evs; rewrite ?G1, ?G2; evs; rewrite ?G2; reflexivity | reflexivity | ]);
        (eapply bs_seq; [eapply bs_decl1; [evm; replace ((0 <=? Z.land ch 31) && (0 <=? 6) && (6 <? 32)) with true by lia; rewrite Ashl; fold hi; chks; reflexivity|ev5; reflexivity]|]);
        (eapply bs_seq; [eapply bs_expr; evm; rewrite sgn_mod by lia; reflexivity|]);
        (eapply bs_seq; [eapply bs_if; [evm; rewrite Cn'; reflexivity|reflexivity|eapply bs_expr; evm; reflexivity]|]);
        (eapply bs_seq; [eapply bs_expr; evm; fold U; reflexivity|]);
        (eapply bs_seq;
          [ eapply bs_if; [repeat (evm; rewrite ?Cn', ?L1, ?L2); reflexivity|reflexivity|];
            eapply bs_if; [ev; reflexivity|reflexivity|]; first [store_tac | apply bs_skip]
          | eapply bs_expr; evs; reflexivity ])
      | eapply bs_cast; [exact B|st5_eq|st5_eq] ].
Qed.

Theorem u2i_bs w s : Forall latin1 s -> zlen (utf8_to_iso s) + 1 <= int_max ->
  exists fin, bs (fbody prog_sbdf_convert_utf8_to_iso88591)
     {| vars := combine (fparams prog_sbdf_convert_utf8_to_iso88591) [VPtr RIn 0; ov w 0]
                ++ map (fun x => (x, VUndef)) (flocals prog_sbdf_convert_utf8_to_iso88591);
        inb := s ++ [0]; outb := [] |}
     (OReturn (VInt (zlen (utf8_to_iso s) + 1)) fin) /\ outb fin = app_w w [] (utf8_to_iso s ++ [0]).
Proof.
  intros Hs Hmax. unfold utf8_to_iso in *. pose proof (zlen_nonneg (u2i_loop (List.length s) s)) as P0. unfold int_max in *.
  destruct (u2i_loop_bs w (List.length s) s (le_n _) [] [] 0 VUndef VUndef Hs ltac:(lia) ltac:(unfold int_max; lia)) as (u' & L).
  cbn [loop3 fbody prog_sbdf_convert_utf8_to_iso88591] in L. cbn [app] in L. change (zlen (@nil Z)) with 0 in L. rewrite !Z.add_0_l in L.
  cbn [fbody fparams flocals prog_sbdf_convert_utf8_to_iso88591 combine map app].
  destruct w; eexists; (split; [
    eapply bs_seq; [eapply bs_decl1; [evs; reflexivity|ev; reflexivity]|];
    eapply bs_seq; [eapply bs_decl0; ev; reflexivity|];
    eapply bs_seq; [exact L|];
    unfold st5; eapply bs_seq;
      [ eapply bs_if; [ev; reflexivity|reflexivity|]; first [store_tac | apply bs_skip] |];
    eapply bs_seq; [eapply bs_expr; evs; reflexivity|];
    eapply bs_return; evs; reflexivity
  | cbn [outb app_w app]; reflexivity ]).
Qed.

Theorem u2i_correct w s : Forall latin1 s -> zlen (utf8_to_iso s) + 1 <= int_max ->
  exists f0, forall f, (f0 <= f)%nat ->
    exists fin, call f prog_sbdf_convert_utf8_to_iso88591 [VPtr RIn 0; ov w 0] (s ++ [0]) = OReturn (VInt (zlen (utf8_to_iso s) + 1)) fin /\
                outb fin = app_w w [] (utf8_to_iso s ++ [0]).
Proof.
  intros Hs Hmax. destruct (u2i_bs w s Hs Hmax) as (fin & B & O). destruct (bs_sound _ _ _ B) as (f0 & F).
  exists f0. intros f Hf. exists fin. split; [apply F; exact Hf|exact O].
Qed.
