(* ImpFactsSkipVa.v - skipping a value array from the source: sbdf_va_skip = sbdf_read_valuearray_int without a handle.
   The shared function is translated in part (what it does with a handle - allocation, reading into structs - is SFault
   in Gen/Prog.v); with a null handle none of that is reached, and the call equals the model's va_skip on every stream. *)
From Sbdf Require Import ImpCall Gen.Prog Gen.Consts Base Prim Obj Va BaseFacts ImpBase ImpFactsInt32 ImpFactsFrame ImpFactsSkipObj.
From Coq Require Import ZifyBool.
Local Open Scope Z_scope.
Ltac Zify.zify_post_hook ::= Z.div_mod_to_equations.

Ltac evv := cbn [prog_env eval_args callee_init finish_call copy_in copy_out try_update update lookup combine map app String.append
                 String.eqb Ascii.eqb Bool.eqb fparams flocals vars inb outb budget_var fail_var cell_token List.length Nat.eqb eval set_var cast
                 truth binop_int b2z fst snd negb
                 prog_sbdf_read_int8 prog_sbdf_vt_read prog_sbdf_read_int32 prog_sbdf_obj_skip_arr].

Record rvl := { l_buf : val; l_e : val; l_err : val; l_ps : val; l_v : val; l_vt : val }.
Definition rv (fr : region) (fo : Z) (l : rvl) (sh bv : val) (s o : list Z) : state :=
  {| vars := [("file", VPtr fr fo); ("handle", VNull); ("buf", l_buf l); ("e", l_e l); ("err", l_err l); ("packed_size", l_ps l); ("v", l_v l); ("vt", l_vt l);
              ("$a1", VUndef); ("$a2", VUndef); ("$a3", VUndef); ("*handle", sh); (budget_var, bv)]%string; inb := s; outb := o |}.

Lemma byte_tail b (s : list Z) : Forall byte (b :: s) -> 0 <= b <= 255 /\ Forall byte s.
Proof. intros H. inversion H as [|? ? Hb Ht]; subst. split; [exact Hb|exact Ht]. Qed.

Definition mk (b e r p v t : val) : rvl := Build_rvl b e r p v t.

(* the function after its two header reads and the allocation it makes for a handle *)
Definition disp_of (b : stmt) : stmt := match b with SSeq _ (SSeq _ (SSeq _ (SSeq _ (SSeq _ (SSeq _ d))))) => d | _ => SSkip end.

Lemma rvi_prefix fr fo l sh bv e t s2 o oo : Forall byte (e :: t :: s2) ->
  bsE prog_env (disp_of (fbody prog_sbdf_read_valuearray_int)) (rv fr fo (mk (l_buf l) (VInt e) (VInt 0) (l_ps l) (l_v l) (VInt t)) sh bv s2 o) oo ->
  bsE prog_env (fbody prog_sbdf_read_valuearray_int) (rv fr fo l sh bv (e :: t :: s2) o) oo.
Proof.
  intros Hs B. destruct l as [b0 e0 r0 p0 v0 t0]. cbn [fbody prog_sbdf_read_valuearray_int disp_of] in *. unfold rv, mk in *. cbn [l_buf l_e l_err l_ps l_v l_vt] in *.
  destruct (byte_tail _ _ Hs) as (He & Hs1).
  pose proof (read_int8_bs prog_env fr ROut fo 0 VUndef VUndef bv (e :: t :: s2) o Hs) as R8. cbv iota in R8.
  pose proof (read_int8_bs prog_env fr ROut fo 0 VUndef VUndef bv (t :: s2) o Hs1) as R8b. cbv iota in R8b.
  pose proof (vt_read_bs fr ROut fo 0 VUndef VUndef bv (t :: s2) o Hs1) as VT. unfold vt_read in VT. cbn [read_int8] in VT. destruct VT as (e' & VT).
  eapply bsE_seq; [eapply bsE_decl0; evv; reflexivity|]. eapply bsE_seq; [eapply bsE_decl0; evv; reflexivity|]. eapply bsE_seq; [eapply bsE_decl0; evv; reflexivity|].
  eapply bsE_seq; [eapply bsE_seq; [eapply bsE_call; [reflexivity|evv; reflexivity|reflexivity|exact R8|unfold rd8; evv; reflexivity]|no_err]|].
  eapply bsE_seq; [eapply bsE_seq; [eapply bsE_call; [reflexivity|evv; reflexivity|reflexivity|exact VT|unfold vr; evv; reflexivity]|no_err]|].
  eapply bsE_seq; [eapply bsE_if; [evv; reflexivity|reflexivity|apply bsE_skip]|]. exact B.
Qed.

Ltac nohandle := eapply bsE_if; [evv; reflexivity|reflexivity|].
Ltac unrv := cbn [fbody prog_sbdf_read_valuearray_int disp_of]; unfold rv, mk; cbn [l_buf l_e l_err l_ps l_v l_vt].

(* plain arrays *)
Ltac iferr H := eapply bsE_if; [evv; reflexivity|cbn [truth]; replace (_ =? 0) with false by (pose proof H; lia); reflexivity|].
Ltac callskip A := eapply bsE_call; [reflexivity|evv; reflexivity|reflexivity|exact A|unfold osa; evv; reflexivity].
Ltac callri R := eapply bsE_call; [reflexivity|evv; reflexivity|reflexivity|exact R|unfold ri; evv; reflexivity].

(* plain arrays *)
Lemma disp_plain fr fo b p v sh bv t s o : Forall byte s ->
  match obj_skip_arr false t s with
  | Ok (_, s') => exists l', bsE prog_env (disp_of (fbody prog_sbdf_read_valuearray_int)) (rv fr fo (mk b (VInt 1) (VInt 0) p v (VInt t)) sh bv s o) (OReturn (VInt SBDF_OK) (rv fr fo l' sh bv s' o))
  | Err st => exists l' s', bsE prog_env (disp_of (fbody prog_sbdf_read_valuearray_int)) (rv fr fo (mk b (VInt 1) (VInt 0) p v (VInt t)) sh bv s o) (OReturn (VInt st) (rv fr fo l' sh bv s' o))
  end.
Proof.
  intros Hs. pose proof (obj_skip_arr_bs fr fo t VUndef VUndef VUndef bv s o Hs) as A.
  destruct (obj_skip_arr false t s) as [[u s']|st] eqn:E.
  - destruct A as (c' & e' & r' & A). eexists (mk _ _ _ _ _ _). unrv.
    eapply bsE_seq; [|eapply bsE_return; evv; reflexivity].
    eapply bsE_if; [evv; reflexivity|reflexivity|].
    eapply bsE_seq; [nohandle; callskip A|].
    eapply bsE_if; [evv; reflexivity|reflexivity|apply bsE_skip].
  - destruct A as (c' & e' & r' & s' & A). pose proof (obj_skip_arr_neg t s st E) as N. eexists (mk _ _ _ _ _ _), _. unrv.
    eapply bsE_seq_ret. eapply bsE_if; [evv; reflexivity|reflexivity|].
    eapply bsE_seq; [nohandle; callskip A|].
    iferr N. eapply bsE_seq; [nohandle; apply bsE_skip|]. eapply bsE_return. evv. reflexivity.
Qed.

(* run-length arrays: the row count, the run lengths (a byte array), the values *)
Lemma disp_rle fr fo b p v sh bv t s o : Forall byte s ->
  match (x <-r read_int32 false ;; if x <? 0 then rfail SBDF_ERROR_INVALID_SIZE else obj_skip_arr false SBDF_BYTETYPEID ;;r obj_skip_arr false t) s with
  | Ok (_, s') => exists l', bsE prog_env (disp_of (fbody prog_sbdf_read_valuearray_int)) (rv fr fo (mk b (VInt 2) (VInt 0) p v (VInt t)) sh bv s o) (OReturn (VInt SBDF_OK) (rv fr fo l' sh bv s' o))
  | Err st => exists l' s', bsE prog_env (disp_of (fbody prog_sbdf_read_valuearray_int)) (rv fr fo (mk b (VInt 2) (VInt 0) p v (VInt t)) sh bv s o) (OReturn (VInt st) (rv fr fo l' sh bv s' o))
  end.
Proof.
  intros Hs. unfold rd_bind, rfail.
  pose proof (read_int32_bs fr ROut fo 0 VUndef bv s o Hs) as R.
  destruct (read_int32 false s) as [[x s1]|st] eqn:ER.
  - destruct (read_int32_range s x s1 Hs ER) as (Hx & _). pose proof (read_int32_bytes s x s1 Hs ER) as Hb.
    destruct (x <? 0) eqn:Ex.
    + eexists (mk _ _ _ _ _ _), _. unrv.
      eapply bsE_seq_ret. eapply bsE_if; [evv; reflexivity|reflexivity|]. eapply bsE_if; [evv; reflexivity|reflexivity|].
      eapply bsE_seq; [eapply bsE_decl0; evv; reflexivity|]. eapply bsE_seq; [callri R|].
      eapply bsE_seq; [eapply bsE_if; [evv; reflexivity|reflexivity|apply bsE_skip]|].
      eapply bsE_seq_ret. eapply bsE_if; [evv; chk7; evv; rewrite Ex; reflexivity|reflexivity|].
      eapply bsE_seq; [nohandle; apply bsE_skip|]. eapply bsE_return. evv. chk7. reflexivity.
    + pose proof (obj_skip_arr_bs fr fo SBDF_BYTETYPEID VUndef VUndef VUndef bv s1 o Hb) as A1.
      destruct (obj_skip_arr false SBDF_BYTETYPEID s1) as [[u s2]|st] eqn:E1.
      * destruct A1 as (c1 & e1 & r1 & A1).
        pose proof (obj_skip_arr_bytes _ s1 u s2 Hb E1) as Hb2.
        pose proof (obj_skip_arr_bs fr fo t VUndef VUndef VUndef bv s2 o Hb2) as A2.
        destruct (obj_skip_arr false t s2) as [[u2 s3]|st] eqn:E2.
        -- destruct A2 as (c2 & e2 & r2 & A2). eexists (mk _ _ _ _ _ _). unrv.
           eapply bsE_seq; [|eapply bsE_return; evv; reflexivity].
           eapply bsE_if; [evv; reflexivity|reflexivity|]. eapply bsE_if; [evv; reflexivity|reflexivity|].
           eapply bsE_seq; [eapply bsE_decl0; evv; reflexivity|]. eapply bsE_seq; [callri R|].
           eapply bsE_seq; [eapply bsE_if; [evv; reflexivity|reflexivity|apply bsE_skip]|].
           eapply bsE_seq; [eapply bsE_if; [evv; chk7; evv; rewrite Ex; reflexivity|reflexivity|apply bsE_skip]|].
           eapply bsE_seq; [nohandle; callskip A1|].
           eapply bsE_seq; [eapply bsE_if; [evv; reflexivity|reflexivity|apply bsE_skip]|].
           eapply bsE_seq; [nohandle; callskip A2|].
           eapply bsE_if; [evv; reflexivity|reflexivity|apply bsE_skip].
        -- destruct A2 as (c2 & e2 & r2 & s' & A2). pose proof (obj_skip_arr_neg t s2 st E2) as N. eexists (mk _ _ _ _ _ _), _. unrv.
           eapply bsE_seq_ret.
           eapply bsE_if; [evv; reflexivity|reflexivity|]. eapply bsE_if; [evv; reflexivity|reflexivity|].
           eapply bsE_seq; [eapply bsE_decl0; evv; reflexivity|]. eapply bsE_seq; [callri R|].
           eapply bsE_seq; [eapply bsE_if; [evv; reflexivity|reflexivity|apply bsE_skip]|].
           eapply bsE_seq; [eapply bsE_if; [evv; chk7; evv; rewrite Ex; reflexivity|reflexivity|apply bsE_skip]|].
           eapply bsE_seq; [nohandle; callskip A1|].
           eapply bsE_seq; [eapply bsE_if; [evv; reflexivity|reflexivity|apply bsE_skip]|].
           eapply bsE_seq; [nohandle; callskip A2|].
           iferr N. eapply bsE_seq; [nohandle; apply bsE_skip|]. eapply bsE_return. evv. reflexivity.
      * destruct A1 as (c1 & e1 & r1 & s' & A1). pose proof (obj_skip_arr_neg _ s1 st E1) as N. eexists (mk _ _ _ _ _ _), _. unrv.
        eapply bsE_seq_ret.
        eapply bsE_if; [evv; reflexivity|reflexivity|]. eapply bsE_if; [evv; reflexivity|reflexivity|].
        eapply bsE_seq; [eapply bsE_decl0; evv; reflexivity|]. eapply bsE_seq; [callri R|].
        eapply bsE_seq; [eapply bsE_if; [evv; reflexivity|reflexivity|apply bsE_skip]|].
        eapply bsE_seq; [eapply bsE_if; [evv; chk7; evv; rewrite Ex; reflexivity|reflexivity|apply bsE_skip]|].
        eapply bsE_seq; [nohandle; callskip A1|].
        eapply bsE_seq_ret. iferr N. eapply bsE_seq; [nohandle; apply bsE_skip|]. eapply bsE_return. evv. reflexivity.
  - destruct R as (c' & s1 & B). pose proof (read_int32_err s st ER). subst st.
    eexists (mk _ _ _ _ _ _), _. unrv.
    eapply bsE_seq_ret. eapply bsE_if; [evv; reflexivity|reflexivity|]. eapply bsE_if; [evv; reflexivity|reflexivity|].
    eapply bsE_seq; [eapply bsE_decl0; evv; reflexivity|]. eapply bsE_seq; [callri B|].
    eapply bsE_seq_ret. eapply bsE_if; [evv; reflexivity|reflexivity|]. eapply bsE_seq; [nohandle; apply bsE_skip|]. eapply bsE_return. evv. reflexivity.
Qed.

(* bit arrays: the row count, then (rows + 7) / 8 bytes *)
Lemma disp_bit fr fo b p v sh bv t s o : Forall byte s ->
  match (x <-r read_int32 false ;; if x <? 0 then rfail SBDF_ERROR_INVALID_SIZE else fseek_cur (bit_packed_size x)) s with
  | Ok (_, s') => exists l', bsE prog_env (disp_of (fbody prog_sbdf_read_valuearray_int)) (rv fr fo (mk b (VInt 3) (VInt 0) p v (VInt t)) sh bv s o) (OReturn (VInt SBDF_OK) (rv fr fo l' sh bv s' o))
  | Err st => exists l' s', bsE prog_env (disp_of (fbody prog_sbdf_read_valuearray_int)) (rv fr fo (mk b (VInt 3) (VInt 0) p v (VInt t)) sh bv s o) (OReturn (VInt st) (rv fr fo l' sh bv s' o))
  end.
Proof.
  intros Hs. unfold rd_bind, rfail, fseek_cur, bit_packed_size.
  pose proof (read_int32_bs fr ROut fo 0 VUndef bv s o Hs) as R.
  destruct (read_int32 false s) as [[x s1]|st] eqn:ER.
  - destruct (read_int32_range s x s1 Hs ER) as (Hx & _).
    destruct (x <? 0) eqn:Ex.
    + eexists (mk _ _ _ _ _ _), _. unrv.
      eapply bsE_seq_ret. eapply bsE_if; [evv; reflexivity|reflexivity|]. eapply bsE_if; [evv; reflexivity|reflexivity|]. eapply bsE_if; [evv; reflexivity|reflexivity|].
      eapply bsE_seq; [eapply bsE_decl0; evv; reflexivity|]. eapply bsE_seq; [eapply bsE_decl1; evv; reflexivity|]. eapply bsE_seq; [callri R|].
      eapply bsE_seq; [eapply bsE_if; [evv; reflexivity|reflexivity|apply bsE_skip]|].
      eapply bsE_seq_ret. eapply bsE_if; [evv; chk7; evv; rewrite Ex; reflexivity|reflexivity|].
      eapply bsE_seq; [nohandle; apply bsE_skip|]. eapply bsE_return. evv. chk7. reflexivity.
    + assert (Hq : Z.quot x 8 = x / 8) by (apply Z.quot_div_nonneg; lia).
      assert (Hr : Z.rem x 8 = x mod 8) by (apply Z.rem_mod_nonneg; lia).
      replace (x / 8 + (if x mod 8 =? 0 then 0 else 1) <? 0) with false by (destruct (x mod 8 =? 0); lia).
      assert (Hnn : forall y, b2z (negb (negb (b2z (negb (negb (y =? 0))) =? 0))) = (if y =? 0 then 0 else 1)) by (intros y; destruct (y =? 0); reflexivity).
      eexists (mk _ _ _ _ _ _). unrv. eapply bsE_cast_o.
      * eapply bsE_seq; [|eapply bsE_return; evv; reflexivity].
        eapply bsE_if; [evv; reflexivity|reflexivity|]. eapply bsE_if; [evv; reflexivity|reflexivity|]. eapply bsE_if; [evv; reflexivity|reflexivity|].
        eapply bsE_seq; [eapply bsE_decl0; evv; reflexivity|]. eapply bsE_seq; [eapply bsE_decl1; evv; reflexivity|]. eapply bsE_seq; [callri R|].
        eapply bsE_seq; [eapply bsE_if; [evv; reflexivity|reflexivity|apply bsE_skip]|].
        eapply bsE_seq; [eapply bsE_if; [evv; chk7; evv; rewrite Ex; reflexivity|reflexivity|apply bsE_skip]|].
        eapply bsE_seq; [nohandle; apply bsE_skip|].
        eapply bsE_seq; [eapply bsE_expr; evv; chk7; evv; change (8 =? 0) with false; cbv iota; rewrite Hq; chk7; evv; chk7; evv; change (8 =? 0) with false; cbv iota;
                         rewrite Hr; chk7; evv; rewrite Hnn; rewrite chk_ok by (destruct (x mod 8 =? 0); unfold int_min, int_max in *; lia); evv; reflexivity|].
        eapply bsE_seq; [nohandle; eapply bsE_if; [evv; replace (0 <=? _) with true by (destruct (x mod 8 =? 0); lia); reflexivity|reflexivity|apply bsE_skip]|].
        eapply bsE_if; [evv; reflexivity|reflexivity|apply bsE_skip].
      * cbn [inb]. rewrite drop_z_skipn by (destruct (x mod 8 =? 0); lia). reflexivity.
  - destruct R as (c' & s1 & B). pose proof (read_int32_err s st ER). subst st.
    eexists (mk _ _ _ _ _ _), _. unrv.
    eapply bsE_seq_ret. eapply bsE_if; [evv; reflexivity|reflexivity|]. eapply bsE_if; [evv; reflexivity|reflexivity|]. eapply bsE_if; [evv; reflexivity|reflexivity|].
    eapply bsE_seq; [eapply bsE_decl0; evv; reflexivity|]. eapply bsE_seq; [eapply bsE_decl1; evv; reflexivity|]. eapply bsE_seq; [callri B|].
    eapply bsE_seq_ret. eapply bsE_if; [evv; reflexivity|reflexivity|]. eapply bsE_seq; [nohandle; apply bsE_skip|]. eapply bsE_return. evv. reflexivity.
Qed.

(* any other encoding byte *)
Lemma disp_unknown fr fo b p v sh bv e t s o : 0 <= e <= 255 -> e <> 1 -> e <> 2 -> e <> 3 ->
  exists l', bsE prog_env (disp_of (fbody prog_sbdf_read_valuearray_int)) (rv fr fo (mk b (VInt e) (VInt 0) p v (VInt t)) sh bv s o)
     (OReturn (VInt SBDF_ERROR_UNKNOWN_VALUEARRAY_ENCODING) (rv fr fo l' sh bv s o)).
Proof.
  intros He N1 N2 N3. eexists (mk _ _ _ _ _ _). unrv.
  eapply bsE_seq_ret.
  eapply bsE_if; [evv; chk7; reflexivity|cbn [truth b2z]; replace (e =? 1) with false by lia; reflexivity|].
  eapply bsE_if; [evv; chk7; reflexivity|cbn [truth b2z]; replace (e =? 2) with false by lia; reflexivity|].
  eapply bsE_if; [evv; chk7; reflexivity|cbn [truth b2z]; replace (e =? 3) with false by lia; reflexivity|].
  eapply bsE_seq; [nohandle; apply bsE_skip|]. eapply bsE_return. evv. chk7. reflexivity.
Qed.

Lemma rvi_skip_bs fr fo l sh bv s o : Forall byte s ->
  match va_skip false s with
  | Ok (_, s') => exists l', bsE prog_env (fbody prog_sbdf_read_valuearray_int) (rv fr fo l sh bv s o) (OReturn (VInt SBDF_OK) (rv fr fo l' sh bv s' o))
  | Err st => exists l' s', bsE prog_env (fbody prog_sbdf_read_valuearray_int) (rv fr fo l sh bv s o) (OReturn (VInt st) (rv fr fo l' sh bv s' o))
  end.
Proof.
  intros Hs. destruct l as [b0 e0 r0 p0 v0 t0]. unfold va_skip, rd_bind, vt_read. cbn [fbody prog_sbdf_read_valuearray_int]. unfold rv. cbn [l_buf l_e l_err l_ps l_v l_vt].
  pose proof (read_int8_bs prog_env fr ROut fo 0 VUndef VUndef bv s o Hs) as R8.
  destruct s as [|e s1]; cbn [read_int8].
  { eexists (Build_rvl _ _ _ _ _ _), _. cbn [l_buf l_e l_err l_ps l_v l_vt].
    eapply bsE_seq; [eapply bsE_decl0; evv; reflexivity|]. eapply bsE_seq; [eapply bsE_decl0; evv; reflexivity|]. eapply bsE_seq; [eapply bsE_decl0; evv; reflexivity|].
    eapply bsE_seq_ret. eapply bsE_seq; [eapply bsE_call; [reflexivity|evv; reflexivity|reflexivity|exact R8|unfold rd8; evv; reflexivity]|]. ret_err. }
  destruct (byte_tail _ _ Hs) as (He & Hs1). cbv iota in R8.
  destruct s1 as [|t s2]; cbn [read_int8].
  { pose proof (vt_read_bs fr ROut fo 0 VUndef VUndef bv [] o Hs1) as VT. unfold vt_read in VT. cbn [read_int8] in VT. destruct VT as (e' & c' & VT).
    eexists (Build_rvl _ _ _ _ _ _), _. cbn [l_buf l_e l_err l_ps l_v l_vt].
    eapply bsE_seq; [eapply bsE_decl0; evv; reflexivity|]. eapply bsE_seq; [eapply bsE_decl0; evv; reflexivity|]. eapply bsE_seq; [eapply bsE_decl0; evv; reflexivity|].
    eapply bsE_seq; [eapply bsE_seq; [eapply bsE_call; [reflexivity|evv; reflexivity|reflexivity|exact R8|unfold rd8; evv; reflexivity]|no_err]|].
    eapply bsE_seq_ret. eapply bsE_seq; [eapply bsE_call; [reflexivity|evv; reflexivity|reflexivity|exact VT|unfold vr; evv; reflexivity]|]. ret_err. }
  destruct (byte_tail _ _ Hs1) as (Ht & Hs2).
  pose proof (fun oo => rvi_prefix fr fo (Build_rvl b0 e0 r0 p0 v0 t0) sh bv e t s2 o oo Hs) as PRE.
  cbn [fbody prog_sbdf_read_valuearray_int] in PRE. unfold rv in PRE. cbn [l_buf l_e l_err l_ps l_v l_vt] in PRE.
  unfold SBDF_PLAINARRAYENCODINGTYPEID, SBDF_RUNLENGTHENCODINGTYPEID, SBDF_BITARRAYENCODINGTYPEID.
  destruct (e =? 1) eqn:E1.
  { assert (e = 1) by lia. subst e. pose proof (disp_plain fr fo b0 p0 v0 sh bv t s2 o Hs2) as D.
    destruct (obj_skip_arr false t s2) as [[u s']|st].
    - destruct D as (l' & D). exists l'. apply PRE. exact D.
    - destruct D as (l' & s' & D). exists l', s'. apply PRE. exact D. }
  destruct (e =? 2) eqn:E2.
  { assert (e = 2) by lia. subst e. pose proof (disp_rle fr fo b0 p0 v0 sh bv t s2 o Hs2) as D. unfold rd_bind in D.
    match type of D with match ?m with _ => _ end => destruct m as [[u s']|st] end.
    - destruct D as (l' & D). exists l'. apply PRE. exact D.
    - destruct D as (l' & s' & D). exists l', s'. apply PRE. exact D. }
  destruct (e =? 3) eqn:E3.
  { assert (e = 3) by lia. subst e. pose proof (disp_bit fr fo b0 p0 v0 sh bv t s2 o Hs2) as D. unfold rd_bind in D.
    match type of D with match ?m with _ => _ end => destruct m as [[u s']|st] end.
    - destruct D as (l' & D). exists l'. apply PRE. exact D.
    - destruct D as (l' & s' & D). exists l', s'. apply PRE. exact D. }
  destruct (disp_unknown fr fo b0 p0 v0 sh bv e t s2 o He ltac:(lia) ltac:(lia) ltac:(lia)) as (l' & D).
  unfold rfail. exists l', s2. apply PRE. exact D.
Qed.

Definition vs (fr : region) (fo : Z) (r bv : val) (s o : list Z) : state :=
  {| vars := [("file", VPtr fr fo); ("$ret", r); (budget_var, bv)]%string; inb := s; outb := o |}.

(* sbdf_va_skip *)
Lemma va_skip_bs fr fo r bv s o : Forall byte s ->
  match va_skip false s with
  | Ok (_, s') => exists r', bsE prog_env (fbody prog_sbdf_va_skip) (vs fr fo r bv s o) (OReturn (VInt SBDF_OK) (vs fr fo r' bv s' o))
  | Err st => exists r' s', bsE prog_env (fbody prog_sbdf_va_skip) (vs fr fo r bv s o) (OReturn (VInt st) (vs fr fo r' bv s' o))
  end.
Proof.
  intros Hs. cbn [fbody prog_sbdf_va_skip]. unfold vs.
  pose proof (rvi_skip_bs fr fo (Build_rvl VUndef VUndef VUndef VUndef VUndef VUndef) VUndef bv s o Hs) as B.
  destruct (va_skip false s) as [[u s']|st].
  - destruct B as (l' & B). eexists.
    eapply bsE_seq; [eapply bsE_call; [reflexivity|evv; reflexivity|reflexivity|exact B|unfold rv; evv; reflexivity]|]. eapply bsE_return. evv. reflexivity.
  - destruct B as (l' & s' & B). do 2 eexists.
    eapply bsE_seq; [eapply bsE_call; [reflexivity|evv; reflexivity|reflexivity|exact B|unfold rv; evv; reflexivity]|]. eapply bsE_return. evv. reflexivity.
Qed.

(* ---- as top-level calls ---- *)
Theorem va_skip_source s B : Forall byte s ->
  exists f0, forall f, (f0 <= f)%nat ->
  match va_skip false s with
  | Ok (_, s') => exists fin, callE prog_env f prog_sbdf_va_skip [tok] s B = OReturn (VInt SBDF_OK) fin /\ inb fin = s' /\ outb fin = []
  | Err st => exists fin, callE prog_env f prog_sbdf_va_skip [tok] s B = OReturn (VInt st) fin /\ outb fin = []
  end.
Proof.
  intros Hs. pose proof (va_skip_bs ROut 0 VUndef (VInt B) s [] Hs) as H.
  destruct (va_skip false s) as [[x s']|st].
  - destruct H as (r' & Bs). destruct (bsE_sound _ _ _ _ Bs) as (f0 & F). exists f0. intros f Hf. eexists. split; [apply F; exact Hf|]. split; reflexivity.
  - destruct H as (r' & s1 & Bs). destruct (bsE_sound _ _ _ _ Bs) as (f0 & F). exists f0. intros f Hf. eexists. split; [apply F; exact Hf|]. reflexivity.
Qed.

(* the shared function called with a null handle, as sbdf_va_skip calls it *)
Theorem read_valuearray_int_skip_source s B : Forall byte s ->
  exists f0, forall f, (f0 <= f)%nat ->
  match va_skip false s with
  | Ok (_, s') => exists fin, callE prog_env f prog_sbdf_read_valuearray_int [tok; VNull] s B = OReturn (VInt SBDF_OK) fin /\ inb fin = s' /\ outb fin = []
  | Err st => exists fin, callE prog_env f prog_sbdf_read_valuearray_int [tok; VNull] s B = OReturn (VInt st) fin /\ outb fin = []
  end.
Proof.
  intros Hs. pose proof (rvi_skip_bs ROut 0 (Build_rvl VUndef VUndef VUndef VUndef VUndef VUndef) VUndef (VInt B) s [] Hs) as H.
  destruct (va_skip false s) as [[x s']|st].
  - destruct H as (l' & Bs). destruct (bsE_sound _ _ _ _ Bs) as (f0 & F). exists f0. intros f Hf. eexists. split; [apply F; exact Hf|]. split; reflexivity.
  - destruct H as (l' & s1 & Bs). destruct (bsE_sound _ _ _ _ Bs) as (f0 & F). exists f0. intros f Hf. eexists. split; [apply F; exact Hf|]. reflexivity.
Qed.
