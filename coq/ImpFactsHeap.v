(* ImpFactsHeap.v — creating, copying and releasing stored strings and byte arrays, from the source
   (src/internals.c, sbdfstring.c, bytearray.c translated into Gen/Prog.v on every run): malloc is a
   primitive with a failure oracle ("the k-th attempt returns NULL"), a fresh block sits at the end
   of the memory with unspecified content.  For every length, every content (embedded NULs included)
   and every oracle: the result is NULL and nothing changed, or a pointer to a fresh block that holds
   the length header, exactly the stated bytes and (strings) the terminator - what the comparison
   helpers and the writer then read (ImpFactsCmp.v, ImpFactsFrame.v). *)
From Sbdf Require Import ImpCall Gen.Prog Gen.Consts Base Prim BaseFacts ImpBase.
From Coq Require Import ZifyBool.
Local Open Scope Z_scope.
Ltac Zify.zify_post_hook ::= Z.div_mod_to_equations.





Ltac evh := cbn [eval lookup update set_var String.eqb Ascii.eqb Bool.eqb vars inb outb truth cast binop_int b2z fst snd negb budget_var fail_var strm_var cells_var];
  change (0 =? 0) with true; change (1 =? 0) with false; cbn [negb b2z].
Ltac evch := cbn [prog_env eval_args callee_init finish_call copy_in copy_out try_update update lookup combine map app String.append
                 String.eqb Ascii.eqb Bool.eqb fparams flocals fbody vars inb outb budget_var fail_var strm_var cells_var cell_token List.length Nat.eqb eval set_var cast
                 prog_sbdf_allocate_array prog_sbdf_dispose_array prog_sbdf_str_create_len
                 prog_sbdf_str_destroy
                 truth binop_int b2z negb];
  change (0 =? 0) with true; change (1 =? 0) with false; cbn [negb b2z].

Section WithStream.
(* the unread bytes of the input stream: none of the functions of this section touches it *)
Variable sx : list Z.
(* ... nor the cell heap (structs): it is carried along so that functions working on structs can call these *)
Variable hc : list (option (list val)).

(* ================================================================== sbdf_allocate_array *)
Definition aa (n : Z) (a bv : val) (k : Z) (m o : list Z) : state :=
  {| vars := [("length"%string, VInt n); ("alloc"%string, a); (budget_var, bv); (fail_var, VInt k); (strm_var, VBytes sx); (cells_var, VHeap hc)]; inb := m; outb := o |}.



Lemma allocate_array_bs n a bv k m o : 0 <= n -> n <= int_max ->
  bsE prog_env (fbody prog_sbdf_allocate_array) (aa n a bv k m o)
    (if k =? 0 then OReturn VNull (aa n VNull bv (-1) m o)
     else OReturn (VPtr RIn (zlen m + 4)) (aa n (VPtr RIn (zlen m + 4)) bv (next_fail k) (m ++ le32 n ++ repeat junk (Z.to_nat n)) o)).
Proof.
  intros Hn Hmax. cbn [fbody prog_sbdf_allocate_array]. unfold aa. unfold int_max in *.
  set (sz := ESizeAdd (ECast TSizeT (EVar "length")) (EConst 4)).
  pose proof (zlen_nonneg m) as Pm.
  assert (Hnew : m ++ repeat junk (Z.to_nat (n + 4)) = m ++ repeat junk (Z.to_nat 4) ++ repeat junk (Z.to_nat n)).
  { replace (n + 4) with (4 + n) by lia. rewrite repeat_app_z by lia. reflexivity. }
  assert (Hst : upd_range (Z.to_nat (zlen m)) [n mod u32 mod 256; n mod u32 / 256 mod 256; n mod u32 / 65536 mod 256; n mod u32 / 16777216 mod 256]
                  (m ++ repeat junk (Z.to_nat 4) ++ repeat junk (Z.to_nat n)) = m ++ le32 n ++ repeat junk (Z.to_nat n)).
  { unfold zlen. rewrite Nat2Z.id. rewrite upd_range_at by reflexivity. reflexivity. }
  assert (HM : eval (EMalloc sz) {| vars := [("length"%string, VInt n); ("alloc"%string, a); (budget_var, bv); (fail_var, VInt k); (strm_var, VBytes sx); (cells_var, VHeap hc)]; inb := m; outb := o |}
     = if k =? 0 then Some (VNull, {| vars := [("length"%string, VInt n); ("alloc"%string, a); (budget_var, bv); (fail_var, VInt (-1)); (strm_var, VBytes sx); (cells_var, VHeap hc)]; inb := m; outb := o |})
       else Some (VPtr RIn (zlen m), {| vars := [("length"%string, VInt n); ("alloc"%string, a); (budget_var, bv); (fail_var, VInt (next_fail k)); (strm_var, VBytes sx); (cells_var, VHeap hc)];
                                        inb := m ++ repeat junk (Z.to_nat (n + 4)); outb := o |})).
  { unfold sz. evh. replace (0 <=? n) with true by lia. evh. chk7. evh. replace ((0 <=? n) && (0 <=? 4)) with true by lia.
    rewrite (Z.mod_small (n + 4)) by lia. replace (0 <=? n + 4) with true by lia. evh.
    unfold next_fail. destruct (k =? 0) eqn:Ek; [reflexivity|]. destruct (0 <? k) eqn:Ekp; reflexivity. }
  destruct (k =? 0) eqn:Ek.
  - eapply bsE_seq; [eapply bsE_decl1; [exact HM|evh; reflexivity]|].
    eapply bsE_seq; [eapply bsE_if; [evh; reflexivity|reflexivity|apply bsE_skip]|]. eapply bsE_return. evh. reflexivity.
  - eapply bsE_seq; [eapply bsE_decl1; [exact HM|evh; reflexivity]|].
    eapply bsE_seq.
    + eapply bsE_if; [evh; reflexivity|reflexivity|]. eapply bsE_expr. evh. rewrite Hnew. rewrite zlen_length, !zlen_app, !zlen_repeat by lia.
      replace ((0 <=? zlen m + 4) && (zlen m + 4 <=? zlen m + (4 + n))) with true by lia. evh. chk7. evh.
      rewrite ?zlen_length, ?zlen_app, ?zlen_repeat by lia.
      replace ((0 <=? zlen m) && (zlen m + 4 <=? zlen m + (4 + n))) with true by lia. rewrite Hst. reflexivity.
    + eapply bsE_return. evh. reflexivity.
Qed.

(* ================================================================== sbdf_str_create_len *)
Definition cl (sv : val) (n : Z) (p bv : val) (k : Z) (m o : list Z) : state :=
  {| vars := [("str"%string, sv); ("length"%string, VInt n); ("ptr"%string, p); (budget_var, bv); (fail_var, VInt k); (strm_var, VBytes sx); (cells_var, VHeap hc)]; inb := m; outb := o |}.

(* the bytes a (possibly null) source pointer stands for *)
Definition src_ok (sv : val) (n : Z) (m : list Z) (payload : list Z) : Prop :=
  match sv with
  | VNull => payload = repeat junk (Z.to_nat n)
  | VPtr RIn q => 0 <= q /\ q + n <= zlen m /\ payload = firstn (Z.to_nat n) (skipn (Z.to_nat q) m)
  | _ => False
  end.


Lemma src_len sv n m payload : 0 <= n -> src_ok sv n m payload -> zlen payload = n.
Proof.
  intros Hn H. unfold src_ok in H. destruct sv as [z| [|] q | | |bs|cb ci|hh]; try contradiction.
  - destruct H as (Hq & Hb & ->). unfold zlen. rewrite firstn_length, skipn_length. unfold zlen in Hb. lia.
  - subst payload. now apply zlen_repeat.
Qed.

Lemma str_create_len_bs sv n p bv k m o payload : 0 <= n -> n + 1 <= int_max -> src_ok sv n m payload ->
  bsE prog_env (fbody prog_sbdf_str_create_len) (cl sv n p bv k m o)
    (if k =? 0 then OReturn VNull (cl sv n VNull bv (-1) m o)
     else OReturn (VPtr RIn (zlen m + 4)) (cl sv n (VPtr RIn (zlen m + 4)) bv (next_fail k) (str_mem m payload []) o)).
Proof.
  intros Hn Hmax Hsrc. cbn [fbody prog_sbdf_str_create_len]. unfold cl. unfold int_max in *.
  pose proof (src_len sv n m payload Hn Hsrc) as Hlen. pose proof (zlen_nonneg m) as Pm.
  assert (Hsv : exists t, truth sv = Some t /\ (t = false -> sv = VNull)).
  { destruct sv as [z| [|] q | | |bs|cb ci|hh]; try contradiction; [exists true|exists false]; split; try reflexivity; discriminate. }
  pose proof (allocate_array_bs (1 + n) VUndef bv k m o ltac:(lia) ltac:(unfold int_max; lia)) as AL.
  eapply bsE_seq; [eapply bsE_decl0; evh; reflexivity|].
  eapply bsE_seq.
  { eapply bsE_if; [destruct sv as [z| [|] q | | |bs|cb ci|hh]; try contradiction; evh; chk7; evh; replace (n <? 0) with false by lia; evh; chk7; evh; replace (n =? 2147483647) with false by lia; reflexivity|reflexivity|apply bsE_skip]. }
  destruct (k =? 0) eqn:Ek.
  - eapply bsE_seq.
    + eapply bsE_call; [reflexivity|destruct sv as [z| [|] q | | |bs|cb ci|hh]; try contradiction; evch; chk7; evch; chk7; reflexivity|reflexivity|exact AL|unfold aa; destruct sv as [z| [|] q | | |bs|cb ci|hh]; try contradiction; evch; reflexivity].
    + eapply bsE_seq; [eapply bsE_if; [evh; reflexivity|reflexivity|apply bsE_skip]|]. eapply bsE_return. evh. reflexivity.
  - (* the block is there: header written by sbdf_allocate_array, now the terminator and the bytes *)
    set (pfx := m ++ le32 (1 + n)).
    assert (Hpfx : zlen pfx = zlen m + 4) by (unfold pfx; rewrite zlen_app; reflexivity).
    assert (Hm1 : m ++ le32 (1 + n) ++ repeat junk (Z.to_nat (1 + n)) = (pfx ++ repeat junk (Z.to_nat n)) ++ [junk]).
    { unfold pfx. replace (1 + n) with (n + 1) at 2 by lia. rewrite repeat_app_z by lia. change (repeat junk (Z.to_nat 1)) with [junk]. now rewrite <- !app_assoc. }
    assert (Hl1 : zlen (m ++ le32 (1 + n) ++ repeat junk (Z.to_nat (1 + n))) = zlen m + 5 + n).
    { rewrite !zlen_app, zlen_repeat by lia. change (zlen (le32 (1 + n))) with 4. lia. }
    assert (Hmem : str_mem m payload [] = (pfx ++ payload) ++ [0]).
    { unfold str_mem, pfx. rewrite Hlen. replace (n + 1) with (1 + n) by lia. rewrite <- !app_assoc. reflexivity. }
    assert (Hterm : forall v, upd_nth (Z.to_nat (zlen m + 4 + n)) v ((pfx ++ repeat junk (Z.to_nat n)) ++ [junk]) = (pfx ++ repeat junk (Z.to_nat n)) ++ [v]).
    { intros v. replace (Z.to_nat (zlen m + 4 + n)) with (List.length (pfx ++ repeat junk (Z.to_nat n))).
      - apply (upd_nth_at (pfx ++ repeat junk (Z.to_nat n)) junk [] v).
      - rewrite app_length, repeat_length. unfold zlen in *. lia. }
    eapply bsE_seq.
    + eapply bsE_call; [reflexivity|destruct sv as [z| [|] q | | |bs|cb ci|hh]; try contradiction; evch; chk7; evch; chk7; reflexivity|reflexivity|exact AL|unfold aa; destruct sv as [z| [|] q | | |bs|cb ci|hh]; try contradiction; evch; reflexivity].
    + destruct sv as [z| [|] q | | |bs|cb ci|hh]; try contradiction.
      * (* a source: copy it *)
        destruct Hsrc as (Hq & Hb & Hp).
        eapply bsE_seq.
        -- eapply bsE_if; [evh; reflexivity|reflexivity|]. eapply bsE_seq.
           ++ eapply bsE_expr. evh. unfold ptr_add. cbn [inb]. rewrite zlen_length, Hl1.
              replace ((0 <=? zlen m + 4 + n) && (zlen m + 4 + n <=? zlen m + 5 + n)) with true by lia. evh. chk7. evh.
              cbn [store inb vars outb]. rewrite zlen_length, Hl1. replace ((0 <=? zlen m + 4 + n) && (zlen m + 4 + n <? zlen m + 5 + n)) with true by lia.
              rewrite Hm1, Hterm. change (((0 + 128) mod 256 - 128) mod 256) with 0. reflexivity.
           ++ eapply bsE_if; [evh; reflexivity|reflexivity|]. eapply bsE_expr. evh. replace (0 <=? n) with true by lia. evh.
              rewrite zlen_length. rewrite <- app_assoc. rewrite !zlen_app, zlen_repeat, Hpfx by lia. change (zlen [0]) with 1.
              replace ((0 <=? n) && (0 <=? zlen m + 4) && (zlen m + 4 + n <=? zlen m + 4 + (n + 1)) && (0 <=? q) && (q + n <=? zlen m + 4 + (n + 1)) && ((zlen m + 4 + n <=? q) || (q + n <=? zlen m + 4))) with true by lia.
              assert (Hsrc2 : firstn (Z.to_nat n) (skipn (Z.to_nat q) (pfx ++ repeat junk (Z.to_nat n) ++ [0])) = payload).
              { unfold pfx. rewrite <- app_assoc. rewrite (firstn_skipn_prefix m _ q n Hq Hn Hb). symmetry. exact Hp. }
              rewrite Hsrc2. replace (Z.to_nat (zlen m + 4)) with (List.length pfx) by (unfold zlen in *; lia).
              rewrite (upd_range_at payload pfx (repeat junk (Z.to_nat n)) [0]) by (rewrite repeat_length; unfold zlen in Hlen; lia). reflexivity.
        -- eapply bsE_cast_o; [eapply bsE_return; evh; reflexivity|]. rewrite Hmem, <- !app_assoc. reflexivity.
      * (* no source: the bytes stay unspecified *)
        unfold src_ok in Hsrc. subst payload.
        eapply bsE_seq.
        -- eapply bsE_if; [evh; reflexivity|reflexivity|]. eapply bsE_seq.
           ++ eapply bsE_expr. evh. unfold ptr_add. cbn [inb]. rewrite zlen_length, Hl1.
              replace ((0 <=? zlen m + 4 + n) && (zlen m + 4 + n <=? zlen m + 5 + n)) with true by lia. evh. chk7. evh.
              cbn [store inb vars outb]. rewrite zlen_length, Hl1. replace ((0 <=? zlen m + 4 + n) && (zlen m + 4 + n <? zlen m + 5 + n)) with true by lia.
              rewrite Hm1, Hterm. change (((0 + 128) mod 256 - 128) mod 256) with 0. reflexivity.
           ++ eapply bsE_if; [evh; reflexivity|reflexivity|apply bsE_skip].
        -- eapply bsE_cast_o; [eapply bsE_return; evh; reflexivity|]. rewrite Hmem. reflexivity.
Qed.

(* ================================================================== sbdf_str_create (strlen) and sbdf_str_copy *)
(* lengths the constructor refuses: negative, or INT_MAX (no room for the terminator) - NULL, nothing allocated *)
Lemma str_create_len_refused sv n p bv k m o : n < 0 \/ n = int_max ->
  bsE prog_env (fbody prog_sbdf_str_create_len) (cl sv n p bv k m o) (OReturn VNull (cl sv n VUndef bv k m o)).
Proof.
  intros Hn. cbn [fbody prog_sbdf_str_create_len]. unfold cl. unfold int_max in Hn.
  eapply bsE_seq; [eapply bsE_decl0; evh; reflexivity|]. eapply bsE_seq_ret.
  destruct (n <? 0) eqn:En.
  - eapply bsE_if; [evh; chk7; evh; rewrite En; evh; reflexivity|reflexivity|]. eapply bsE_return. evh. reflexivity.
  - eapply bsE_if; [evh; chk7; evh; rewrite En; evh; chk7; evh; replace (n =? 2147483647) with true by lia; evh; reflexivity|reflexivity|]. eapply bsE_return. evh. reflexivity.
Qed.










(* ================================================================== sbdf_ba_create *)


(* ================================================================== releasing: nothing is read or written *)
Definition da (p : Z) (bv : val) (k : Z) (m o : list Z) : state :=
  {| vars := [("array"%string, VPtr RIn p); (budget_var, bv); (fail_var, VInt k); (strm_var, VBytes sx); (cells_var, VHeap hc)]; inb := m; outb := o |}.

Lemma dispose_array_bs p bv k m o : 4 <= p <= zlen m ->
  bsE prog_env (fbody prog_sbdf_dispose_array) (da p bv k m o) (ONormal (da p bv k m o)).
Proof.
  intros Hp. cbn [fbody prog_sbdf_dispose_array]. unfold da.
  eapply bsE_if; [evh; reflexivity|reflexivity|]. eapply bsE_expr. evh. chk7. evh. chk7. evh. unfold ptr_add. cbn [inb]. rewrite zlen_length.
  replace ((0 <=? p + -4 * 1) && (p + -4 * 1 <=? zlen m)) with true by lia. cbn [inb]. rewrite zlen_length.
  replace ((0 <=? p + -4 * 1) && (p + -4 * 1 <=? zlen m)) with true by lia. reflexivity.
Qed.

(* ================================================================== as calls *)
Theorem str_create_len_source q n m k : 0 <= n -> n + 1 <= int_max -> 0 <= q -> q + n <= zlen m ->
  exists f0, forall f, (f0 <= f)%nat -> exists fin,
    callC prog_env f prog_sbdf_str_create_len [VPtr RIn q; VInt n] m k sx hc =
      OReturn (if k =? 0 then VNull else VPtr RIn (zlen m + 4)) fin /\
    inb fin = (if k =? 0 then m else str_mem m (firstn (Z.to_nat n) (skipn (Z.to_nat q) m)) []).
Proof.
  intros Hn Hmax Hq Hb.
  pose proof (str_create_len_bs (VPtr RIn q) n VUndef (VInt 0) k m [] _ Hn Hmax (conj Hq (conj Hb eq_refl))) as B.
  destruct (k =? 0); destruct (bsE_sound _ _ _ _ B) as (f0 & F); exists f0; intros f Hf; eexists; (split; [apply F; exact Hf|reflexivity]).
Qed.




Definition ds (p : Z) (bv : val) (k : Z) (m o : list Z) : state :=
  {| vars := [("str"%string, VPtr RIn p); (budget_var, bv); (fail_var, VInt k); (strm_var, VBytes sx); (cells_var, VHeap hc)]; inb := m; outb := o |}.

Lemma str_destroy_bs p bv k m o : 4 <= p <= zlen m ->
  bsE prog_env (fbody prog_sbdf_str_destroy) (ds p bv k m o) (ONormal (ds p bv k m o)).
Proof.
  intros Hp. cbn [fbody prog_sbdf_str_destroy]. unfold ds.
  eapply bsE_call_void; [reflexivity|evch; reflexivity|reflexivity|apply (dispose_array_bs p bv k m o Hp)|unfold da; evch; reflexivity].
Qed.



(* ================================================================== sbdf_copy_array *)



(* allocation failure (oracle 0: the first malloc of the call fails): every constructor returns NULL
   and leaves the memory exactly as it was *)

End WithStream.
