(* ImpFacts7S.v - the 7-bit packed-length reader once more, for callers that keep the stream apart from the memory
   (pseudo-variable "$strm"): the same loop proof over the larger frame, and the embedding of call-free derivations. *)
From Sbdf Require Import ImpCall Gen.Prog Gen.Consts Base Prim BaseFacts ImpBase ImpFacts7.
From Coq Require Import ZifyBool.
Local Open Scope Z_scope.
Ltac Zify.zify_post_hook ::= Z.div_mod_to_equations.

(* a derivation without calls is a derivation with them *)
Lemma bs_bsE env st s oc : bs st s oc -> bsE env st s oc.
Proof. induction 1; eauto using bsE. Qed.

Lemma read7_loop_shr f : forall r k s v s', Forall byte s -> read7_loop f r k s = Ok (v, s') -> Forall byte s' /\ (List.length s' < List.length s)%nat.
Proof.
  induction f as [|f IH]; intros r k s v s' Hs; cbn [read7_loop]; [discriminate|]. destruct s as [|b s0]; [discriminate|].
  inversion Hs as [|? ? Hb Hs0]; subst. cbv zeta. destruct (128 <=? b).
  - destruct (28 <? k + 7); [discriminate|]. intros E. destruct (IH _ _ _ _ _ Hs0 E) as (B & L). split; [exact B|cbn [List.length]; lia].
  - intros [= _ <-]. split; [exact Hs0|cbn [List.length]; lia].
Qed.
Lemma read7_loop_neg f : forall r k s e, read7_loop f r k s = Err e -> e < 0.
Proof.
  induction f as [|f IH]; intros r k s e; cbn [read7_loop]; [intros [= <-]; reflexivity|]. destruct s as [|b s0]; [intros [= <-]; reflexivity|].
  cbv zeta. destruct (128 <=? b); [|discriminate]. destruct (28 <? k + 7); [intros [= <-]; reflexivity|apply IH].
Qed.
Lemma to_i32_range r : 0 <= r < u32 -> int_min <= to_i32 r <= int_max.
Proof. unfold to_i32, u32, int_min, int_max. intros H. destruct (r <? 2147483648) eqn:E; lia. Qed.

Section S7.
Variables (fv pv bv : val) (kf : Z) (hc : list (option (list val))) (mem oo : list Z).
Definition rst (r k : Z) (u o : val) (B : Z) (s : list Z) : state :=
  {| vars := [("f"%string, fv); ("v"%string, pv); ("result"%string, VInt r); ("shl"%string, VInt k); ("uch"%string, u);
              ("*v"%string, o); (budget_var, bv); (fail_var, VInt kf); (strm_var, VBytes s); (cells_var, VHeap hc)]; inb := mem; outb := oo |}.

Lemma read7_step f r k b s : read7_loop (S f) r k (b :: s) =
  if 128 <=? b then (if 28 <? k + 7 then Err SBDF_ERROR_INVALID_SIZE else read7_loop f (r + to_u32 (b mod 128 * 2 ^ k)) (k + 7) s)
  else Ok (to_i32 (r + to_u32 (b mod 128 * 2 ^ k)), s).
Proof. reflexivity. Qed.

(* one iteration on a stream that has a next byte *)
Lemma read7_iter j r u o B b s : (j <= 4)%nat -> 0 <= r < 2 ^ (7 * Z.of_nat j) -> byte b ->
  let k := 7 * Z.of_nat j in
  let r' := r + to_u32 (b mod 128 * 2 ^ k) in
  bs (body_of (loop3 (fbody prog_sbdf_read_7bitpacked_int32))) (rst r k u o B (b :: s))
     (if 128 <=? b then (if 28 <? k + 7 then OReturn (VInt SBDF_ERROR_INVALID_SIZE) (rst r' (k + 7) (VInt b) o B s)
                         else ONormal (rst r' (k + 7) (VInt b) o B s))
      else OBreak (rst r' k (VInt b) o B s)).
Proof.
  intros Hj Hr Hb k r'. cbn [body_of loop3 fbody prog_sbdf_read_7bitpacked_int32].
  pose proof (pow7_bounds j Hj) as P. fold k in P, Hr. unfold byte in Hb. destruct (byte7 b Hb) as (B1 & B2 & Hb128).
  assert (Hk : 0 <= k <= 28) by (unfold k; lia).
  assert (E : to_u32 (b mod 128 * 2 ^ k) = (b mod 128 mod 2 ^ (32 - k)) * 2 ^ k).
  { unfold to_u32. replace 4294967296 with (2 ^ (32 - k) * 2 ^ k) by (rewrite <- Z.pow_add_r by lia; replace (32 - k + k) with 32 by lia; reflexivity).
    rewrite Z.mul_mod_distr_r by lia. reflexivity. }
  assert (P32 : 2 ^ (32 - k) * 2 ^ k = u32) by (rewrite <- Z.pow_add_r by lia; replace (32 - k + k) with 32 by lia; reflexivity).
  assert (Py : 0 < 2 ^ (32 - k)) by (apply Z.pow_pos_nonneg; lia).
  set (y := b mod 128 mod 2 ^ (32 - k)) in *.
  assert (Hy : 0 <= y <= 2 ^ (32 - k) - 1) by (unfold y; lia).
  assert (Hyk : 0 <= y * 2 ^ k <= u32 - 2 ^ k) by nia.
  assert (Er : Z.lor r (Z.shiftl (b mod 128) k mod u32) = r').
  { unfold r'. rewrite E. rewrite Z.shiftl_mul_pow2 by lia. change (b mod 128 * 2 ^ k mod u32) with (to_u32 (b mod 128 * 2 ^ k)). rewrite E.
    apply lor_disjoint_add; lia. }
  assert (Rr : 0 <= r' < u32) by (unfold r'; rewrite E; lia).
  eapply bs_seq; [eapply bs_decl0; unfold rst; ev7; reflexivity|].
  eapply bs_seq; [eapply bs_if; [ev7; reflexivity|reflexivity|apply bs_skip]|].
  eapply bs_seq.
  { eapply bs_expr. evs7. rewrite B1. rewrite (Z.mod_small (b mod 128) u32) by (unfold u32; lia).
    rewrite guard_ok by (unfold u32; lia). rewrite shguard_ok by lia. ev7.
    rewrite guard_ok by (rewrite ?Z.shiftl_mul_pow2 by lia; unfold u32 in *; lia). ev7. rewrite Er. reflexivity. }
  destruct (128 <=? b) eqn:Eb.
  - destruct (28 <? k + 7) eqn:Ek.
    + eapply bs_if; [evs7; rewrite B2; ev7; reflexivity|reflexivity|].
      eapply bs_seq; [eapply bs_expr; evs7; reflexivity|].
      eapply bs_if; [evs7; reflexivity|ev7; replace (k + 7 >? 28) with true by lia; reflexivity|].
      eapply bs_return. evs7. reflexivity.
    + eapply bs_if; [evs7; rewrite B2; ev7; reflexivity|reflexivity|].
      eapply bs_seq; [eapply bs_expr; evs7; reflexivity|].
      eapply bs_if; [evs7; reflexivity|ev7; replace (k + 7 >? 28) with false by lia; reflexivity|]. apply bs_skip.
  - eapply bs_if; [evs7; rewrite B2; ev7; reflexivity|reflexivity|]. apply bs_break.
Qed.

Lemma read7_loop_prog m : forall j r u o B s, (j + m = 4)%nat -> 0 <= r < 2 ^ (7 * Z.of_nat j) -> Forall byte s ->
  match read7_loop (6 - j) r (7 * Z.of_nat j) s with
  | Ok (v, s') => exists r' k' u', v = to_i32 r' /\ 0 <= r' < u32 /\
      bs (loop3 (fbody prog_sbdf_read_7bitpacked_int32)) (rst r (7 * Z.of_nat j) u o B s) (ONormal (rst r' k' u' o B s'))
  | Err e => exists r' k' u' s', bs (loop3 (fbody prog_sbdf_read_7bitpacked_int32)) (rst r (7 * Z.of_nat j) u o B s) (OReturn (VInt e) (rst r' k' u' o B s'))
  end.
Proof.
  induction m as [|m IH]; intros j r u o B s Hj Hr Hs.
  all: replace (6 - j)%nat with (S (5 - j))%nat by lia.
  all: destruct s as [|b s];
    [ cbn [read7_loop]; do 4 eexists; cbn [loop3 fbody prog_sbdf_read_7bitpacked_int32];
      eapply bs_while_ret; [ev7; reflexivity|reflexivity|];
      (eapply bs_seq; [eapply bs_decl0; unfold rst; ev7; reflexivity|]);
      eapply bs_seq_ret; (eapply bs_if; [ev7; reflexivity|reflexivity|]); eapply bs_return; evs7; reflexivity | ].
  all: inversion Hs as [|? ? Hb Hs']; subst; rewrite read7_step;
       pose proof (read7_iter j r u o B b s ltac:(lia) Hr Hb) as It; cbn zeta in It;
       pose proof (pow7_bounds j ltac:(lia)) as P;
       cbn [loop3 fbody prog_sbdf_read_7bitpacked_int32 body_of] in *.
  all: destruct (128 <=? b) eqn:Eb;
    [ | exists (r + to_u32 (b mod 128 * 2 ^ (7 * Z.of_nat j))), (7 * Z.of_nat j), (VInt b); split; [reflexivity|];
        split; [ apply r_next; unfold byte in *; lia | eapply bs_while_brk; [ev7; reflexivity|reflexivity|exact It] ] ].
  all: destruct (28 <? 7 * Z.of_nat j + 7) eqn:Ek;
    [ do 4 eexists; eapply bs_while_ret; [ev7; reflexivity|reflexivity|exact It] | ].
  - exfalso. assert (j = 4)%nat by lia. subst j. cbn in Ek. lia.
  - assert (Hk : 7 * Z.of_nat j <= 21) by lia. unfold byte in Hb.
    destruct (r_next r (7 * Z.of_nat j) b ltac:(lia) Hr Hb) as (R1 & R2). specialize (R2 Hk).
    set (r1 := r + to_u32 (b mod 128 * 2 ^ (7 * Z.of_nat j))) in *.
    replace (5 - j)%nat with (6 - S j)%nat by lia.
    replace (7 * Z.of_nat j + 7) with (7 * Z.of_nat (S j)) in * by lia.
    pose proof (IH (S j) r1 (VInt b) o B s ltac:(lia) ltac:(lia) Hs') as Q.
    cbn [loop3 fbody prog_sbdf_read_7bitpacked_int32] in Q.
    destruct (read7_loop (6 - S j) r1 (7 * Z.of_nat (S j)) s) as [[v s']|e].
    + destruct Q as (r' & k' & u' & Ev & Rr & Bs). exists r', k', u'. split; [exact Ev|]. split; [exact Rr|].
      eapply bs_while_t; [ev7; reflexivity|reflexivity|exact It|exact Bs].
    + destruct Q as (r2 & k2 & u2 & s2 & Bs). exists r2, k2, u2, s2. eapply bs_while_t; [ev7; reflexivity|reflexivity|exact It|exact Bs].
Qed.



(* the whole function on the larger frame *)
Lemma read7_bs2 r0 k0 u o s : Forall byte s ->
  match read_7bit s with
  | Ok (v, s') => exists r' k' u', bsE prog_env (fbody prog_sbdf_read_7bitpacked_int32)
        {| vars := [("f"%string, fv); ("v"%string, pv); ("result"%string, r0); ("shl"%string, k0); ("uch"%string, u); ("*v"%string, o);
                    (budget_var, bv); (fail_var, VInt kf); (strm_var, VBytes s); (cells_var, VHeap hc)]; inb := mem; outb := oo |}
        (OReturn (VInt SBDF_OK) (rst r' k' u' (VInt v) 0 s')) /\ int_min <= v <= int_max
  | Err e => exists r' k' u' s', bsE prog_env (fbody prog_sbdf_read_7bitpacked_int32)
        {| vars := [("f"%string, fv); ("v"%string, pv); ("result"%string, r0); ("shl"%string, k0); ("uch"%string, u); ("*v"%string, o);
                    (budget_var, bv); (fail_var, VInt kf); (strm_var, VBytes s); (cells_var, VHeap hc)]; inb := mem; outb := oo |}
        (OReturn (VInt e) (rst r' k' u' o 0 s'))
  end.
Proof.
  intros Hs. unfold read_7bit.
  pose proof (read7_loop_prog 4 0 0 u o 0 s eq_refl ltac:(cbn; lia) Hs) as L.
  change (6 - 0)%nat with 6%nat in L. change (7 * Z.of_nat 0) with 0 in L.
  cbn [loop3 fbody prog_sbdf_read_7bitpacked_int32] in L.
  cbn [fbody prog_sbdf_read_7bitpacked_int32].
  destruct (read7_loop 6 0 0 s) as [[v s']|e].
  - destruct L as (r' & k' & u' & Ev & Rr & Bs). exists r', k', u'. split; [|rewrite Ev; apply to_i32_range; exact Rr].
    eapply bsE_seq; [eapply bsE_decl1; [evs7; reflexivity|ev7; reflexivity]|].
    eapply bsE_seq; [eapply bsE_decl1; [evs7; reflexivity|ev7; reflexivity]|].
    eapply bsE_seq; [apply bs_bsE; exact Bs|].
    eapply bsE_seq; [eapply bsE_expr; unfold rst; evs7; reflexivity|].
    eapply bsE_cast_o; [eapply bsE_return; evs7; reflexivity|].
    unfold rst. rewrite Ev. replace ((r' + 2147483648) mod u32 - 2147483648) with (to_i32 r') by (unfold to_i32, u32 in *; destruct (r' <? 2147483648) eqn:E; lia). reflexivity.
  - destruct L as (r2 & k2 & u2 & s2 & Bs). exists r2, k2, u2, s2.
    eapply bsE_seq; [eapply bsE_decl1; [evs7; reflexivity|ev7; reflexivity]|].
    eapply bsE_seq; [eapply bsE_decl1; [evs7; reflexivity|ev7; reflexivity]|].
    eapply bsE_seq_ret. apply bs_bsE. exact Bs.
Qed.
End S7.
