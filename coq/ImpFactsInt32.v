(* ImpFactsInt32.v - sbdf_read_int32 / sbdf_write_int32 (default configuration, with their call of sbdf_swap) from the source. *)
From Sbdf Require Import ImpCall Gen.Prog Gen.Consts Base Prim BaseFacts ImpBase ImpFactsSwapNoop.
From Coq Require Import ZifyBool.
Local Open Scope Z_scope.
Ltac Zify.zify_post_hook ::= Z.div_mod_to_equations.

Ltac evci := cbn [prog_env eval_args callee_init finish_call copy_in copy_out try_update update lookup combine map app String.append
                 String.eqb Ascii.eqb Bool.eqb fparams flocals fbody vars inb outb budget_var fail_var cell_token List.length Nat.eqb eval set_var cast
                 prog_sbdf_swap_le prog_sbdf_read_int32].

(* ================================================================== 32-bit integers (default configuration) *)

Definition ri (fr pr : region) (fo po : Z) (cell bv : val) (s o : list Z) : state :=
  {| vars := [("f"%string, VPtr fr fo); ("v"%string, VPtr pr po); ("*v"%string, cell); (budget_var, bv)]; inb := s; outb := o |}.



Lemma read_int32_bs fr pr fo po cell bv s o : Forall byte s ->
  match read_int32 false s with
  | Ok (x, s') => bsE prog_env (fbody prog_sbdf_read_int32) (ri fr pr fo po cell bv s o) (OReturn (VInt SBDF_OK) (ri fr pr fo po (VInt x) bv s' o))
  | Err st => exists c' s', bsE prog_env (fbody prog_sbdf_read_int32) (ri fr pr fo po cell bv s o) (OReturn (VInt st) (ri fr pr fo po c' bv s' o))
  end.
Proof.
  intros Hs. rewrite read_int32_model. cbn [fbody prog_sbdf_read_int32]. unfold ri.
  destruct s as [|b0 [|b1 [|b2 [|b3 r]]]].
  1-4: do 2 eexists; (eapply bsE_seq; [eapply bsE_if; [evi; reflexivity|reflexivity|apply bsE_skip]|]);
       eapply bsE_seq_ret; (eapply bsE_if; [evi; reflexivity|reflexivity|]); eapply bsE_return; evi; chk7; evi; reflexivity.
  assert (Hb : byte b0 /\ byte b1 /\ byte b2 /\ byte b3).
  { inversion Hs as [|? ? G0 Q0]. inversion Q0 as [|? ? G1 Q1]. inversion Q1 as [|? ? G2 Q2]. inversion Q2 as [|? ? G3 Q3]. auto. }
  destruct Hb as (G0 & G1 & G2 & G3). unfold byte in *.
  assert (Ev : (b0 + 256 * b1 + 65536 * b2 + 16777216 * b3 + 2147483648) mod u32 - 2147483648 = de32 [b0; b1; b2; b3]).
  { unfold de32, to_i32, u32. cbn [le_dec]. destruct (b0 + 256 * (b1 + 256 * (b2 + 256 * (b3 + 256 * 0))) <? 2147483648) eqn:E; lia. }
  eapply bsE_seq; [eapply bsE_if; [evi; reflexivity|reflexivity|apply bsE_skip]|].
  eapply bsE_seq; [eapply bsE_if; [evi; reflexivity|reflexivity|apply bsE_skip]|].
  eapply bsE_seq; [eapply swap_noop_call; [evci; chk7; reflexivity|reflexivity|evci; reflexivity]|].
  eapply bsE_return. evi. chk7. rewrite Ev. reflexivity.
Qed.



Theorem read_int32_source s B : Forall byte s ->
  exists f0, forall f, (f0 <= f)%nat ->
  match read_int32 false s with
  | Ok (x, s') => exists fin, callE prog_env f prog_sbdf_read_int32 [tok; tok] s B = OReturn (VInt SBDF_OK) fin /\
                              lookup "*v" (vars fin) = Some (VInt x) /\ inb fin = s' /\ outb fin = []
  | Err st => exists fin, callE prog_env f prog_sbdf_read_int32 [tok; tok] s B = OReturn (VInt st) fin /\ outb fin = []
  end.
Proof.
  intros Hs. pose proof (read_int32_bs ROut ROut 0 0 VUndef (VInt B) s [] Hs) as H.
  destruct (read_int32 false s) as [[x s']|st].
  - destruct (bsE_sound _ _ _ _ H) as (f0 & F). exists f0. intros f Hf. eexists. split; [apply F; exact Hf|]. repeat split.
  - destruct H as (c' & s1 & Bs). destruct (bsE_sound _ _ _ _ Bs) as (f0 & F). exists f0. intros f Hf. eexists. split; [apply F; exact Hf|]. reflexivity.
Qed.



Lemma read_int32_err s st : read_int32 false s = Err st -> st = SBDF_ERROR_IO.
Proof. rewrite read_int32_model. destruct s as [|b0 [|b1 [|b2 [|b3 r]]]]; intros H; now inversion H. Qed.
