(* CsFacts.v — column and table slices keep their structural invariants (C11). *)
From Sbdf Require Import Slice BaseFacts MdFacts.
From Coq Require Import ZifyBool.

Section Cs.
Context {V : Type}.
Variable rows : V -> Z.

Definition cs_inv (c : cs V) : Prop :=
  NoDup (map (fun p => cstr (fst p)) (csprops c)) /\ Forall (fun p => rows (snd p) = rows (csvals c)) (csprops c).

Lemma cs_inv_create v : cs_inv (cs_create v).
Proof. split; constructor. Qed.

Lemma cs_find_none_iff name (c : cs V) : cs_find name c = None <-> ~ In (cstr name) (map (fun p => cstr (fst p)) (csprops c)).
Proof.
  unfold cs_find. rewrite find_first_none. split.
  - intros H Hin. apply in_map_iff in Hin. destruct Hin as (p & Ek & Hp). specialize (H p Hp).
    assert (name_eqb name (fst p) = true) by (apply name_eqb_true; congruence). congruence.
  - intros H p Hp. destruct (name_eqb name (fst p)) eqn:E; [|reflexivity]. exfalso. apply H.
    apply in_map_iff. exists p. split; [|exact Hp]. apply name_eqb_true in E. congruence.
Qed.

(* an addition is accepted exactly when the row counts agree and the name is new; then the
   property is appended (insertion order) under the C-string form of its name *)
Theorem cs_add_spec (c : cs V) name v :
  (rows (csvals c) = rows v -> cs_find name c = None ->
     cs_add_property rows c name v = Ok {| csvals := csvals c; csprops := csprops c ++ [(cstr name, v)]; csowned := csowned c |}) /\
  (rows (csvals c) <> rows v -> cs_add_property rows c name v = Err SBDF_ERROR_ROW_COUNT_MISMATCH) /\
  (rows (csvals c) = rows v -> cs_find name c <> None -> cs_add_property rows c name v = Err SBDF_ERROR_PROPERTY_ALREADY_EXISTS).
Proof.
  unfold cs_add_property. repeat split.
  - intros Hr F. rewrite Hr, Z.eqb_refl. cbn [negb]. now rewrite F.
  - intros Hr. destruct (rows (csvals c) =? rows v) eqn:E; [lia|reflexivity].
  - intros Hr F. rewrite Hr, Z.eqb_refl. cbn [negb]. destruct (cs_find name c); [reflexivity|contradiction].
Qed.

Theorem cs_add_preserves_inv (c c' : cs V) name v : cs_inv c -> cs_add_property rows c name v = Ok c' ->
  cs_inv c' /\ csvals c' = csvals c /\ csprops c' = csprops c ++ [(cstr name, v)].
Proof.
  intros (Hnd & Hr) E. unfold cs_add_property in E.
  destruct (rows (csvals c) =? rows v) eqn:R; [|discriminate]. cbn [negb] in E.
  destruct (cs_find name c) eqn:F; [discriminate|]. inversion E. subst c'. cbn [csvals csprops].
  split; [|split; reflexivity]. split; cbn [csprops csvals].
  - rewrite map_app. cbn [map fst]. rewrite cstr_idem. apply NoDup_app_single; [exact Hnd|]. now apply cs_find_none_iff.
  - apply Forall_app. split; [exact Hr|]. constructor; [cbn [snd]; lia|constructor].
Qed.

(* an accepted property is retrievable by its name as the very same payload *)
Theorem cs_get_after_add (c c' : cs V) name v : cs_add_property rows c name v = Ok c' -> cs_get_property c' name = Ok v.
Proof.
  intros E. unfold cs_add_property in E.
  destruct (rows (csvals c) =? rows v); [|discriminate]. cbn [negb] in E.
  destruct (cs_find name c) eqn:F; [discriminate|]. inversion E. subst c'.
  unfold cs_get_property, cs_find. cbn [csprops]. unfold cs_find in F.
  rewrite (find_first_app_last _ _ (cstr name, v) F); [reflexivity|].
  cbn [fst]. rewrite name_eqb_cstr_r. apply name_eqb_refl.
Qed.

(* earlier properties stay retrievable, unchanged *)
Theorem cs_get_other_after_add (c c' : cs V) name v other : cs_add_property rows c name v = Ok c' ->
  name_eqb other name = false -> cs_get_property c' other = cs_get_property c other.
Proof.
  intros E Hne. unfold cs_add_property in E.
  destruct (rows (csvals c) =? rows v); [|discriminate]. cbn [negb] in E.
  destruct (cs_find name c); [discriminate|]. inversion E. subst c'.
  unfold cs_get_property, cs_find. cbn [csprops].
  assert (G : find_first (fun p => name_eqb other (fst p)) (csprops c ++ [(cstr name, v)])
              = find_first (fun p => name_eqb other (fst p)) (csprops c)).
  { clear - Hne. generalize (csprops c). intros l. induction l as [|p l IH]; cbn [app find_first].
    - cbn [fst]. rewrite name_eqb_cstr_r, Hne. reflexivity.
    - destruct (name_eqb other (fst p)); [reflexivity|exact IH]. }
  now rewrite G.
Qed.

Theorem cs_get_absent (c : cs V) name : cs_find name c = None -> cs_get_property c name = Err SBDF_ERROR_PROPERTY_NOT_FOUND.
Proof. intros F. unfold cs_get_property. now rewrite F. Qed.

End Cs.

(* a table slice lists exactly the column slices added to it, in order *)
Theorem ts_add_lists_columns {C} (cols : list C) :
  tscols (fold_left (fun t c => ts_add c t) cols ts_create) = map Some cols.
Proof.
  assert (G : forall (t : ts C), tscols (fold_left (fun t c => ts_add c t) cols t) = tscols t ++ map Some cols).
  { induction cols as [|c cols IH]; intros t; cbn [fold_left map]; [now rewrite app_nil_r|].
    rewrite IH. unfold ts_add. cbn [tscols]. now rewrite <- app_assoc. }
  rewrite G. reflexivity.
Qed.

(* a slice obtained from a stream has exactly as many columns as the metadata it was read against,
   for every input and every subset *)
Lemma read_cols_length swp cap n : forall subset s l s', read_cols swp cap n subset s = Ok (l, s') -> length l = n.
Proof.
  induction n as [|n IH]; intros subset s l s' H; cbn [read_cols] in H.
  - inversion H. reflexivity.
  - unfold rd_bind, rret in H.
    destruct (match subset with None => true | Some l0 => negb (hd 0 l0 =? 0) end).
    + destruct (cs_read swp cap s) as [[c s1]|]; [|discriminate].
      destruct (read_cols swp cap n (option_map (@tl Z) subset) s1) as [[rest s2]|] eqn:E; [|discriminate].
      inversion H. subst. cbn [length]. f_equal. eapply IH. exact E.
    + destruct (cs_skip swp s) as [[u s1]|]; [|discriminate].
      destruct (read_cols swp cap n (option_map (@tl Z) subset) s1) as [[rest s2]|] eqn:E; [|discriminate].
      inversion H. subst. cbn [length]. f_equal. eapply IH. exact E.
Qed.

Theorem ts_read_column_count swp cap ncols subset s t s' :
  ts_read swp cap ncols subset s = Ok (t, s') -> zlen (tscols t) = ncols /\ tsowned t = true.
Proof.
  unfold ts_read, rd_bind, rret, rfail. intros H.
  destruct (sec_read s) as [[v s1]|]; [|discriminate].
  destruct (v =? SBDF_TABLEEND_SECTIONID); [discriminate|].
  destruct (negb (v =? SBDF_TABLESLICE_SECTIONID)); [discriminate|].
  destruct (read_int32 swp s1) as [[cc s2]|]; [|discriminate].
  destruct (cc <? 0) eqn:C0; [discriminate|].
  destruct (negb (cc =? ncols)) eqn:C1; [discriminate|].
  destruct (ralloc cap (array_capacity cc * 8) s2) as [[u s3]|]; [|discriminate].
  destruct (read_cols swp cap (Z.to_nat cc) subset s3) as [[cols s4]|] eqn:E; [|discriminate].
  inversion H. subst. cbn [tscols tsowned]. split; [|reflexivity].
  apply read_cols_length in E. unfold zlen. rewrite E. apply negb_false_iff in C1. lia.
Qed.
