(* MdFacts.v — metadata collections are insertion-ordered maps with a one-way freeze (C10). *)
From Sbdf Require Import Md Tm BaseFacts VaFacts.
From Coq Require Import ZifyBool.

(* ---- names ---- *)
Lemma name_eqb_refl a : name_eqb a a = true.
Proof. unfold name_eqb. apply bytes_eqb_refl. Qed.

Lemma name_eqb_sym a b : name_eqb a b = name_eqb b a.
Proof.
  unfold name_eqb. destruct (bytes_eqb (cstr a) (cstr b)) eqn:E.
  - apply bytes_eqb_eq in E. rewrite E. symmetry. apply bytes_eqb_refl.
  - symmetry. apply bytes_eqb_neq. apply bytes_eqb_neq in E. congruence.
Qed.

Lemma name_eqb_true a b : name_eqb a b = true <-> cstr a = cstr b.
Proof. unfold name_eqb. apply bytes_eqb_eq. Qed.

Lemma name_eqb_cstr_l a b : name_eqb (cstr a) b = name_eqb a b.
Proof. unfold name_eqb. now rewrite cstr_idem. Qed.

Lemma name_eqb_cstr_r a b : name_eqb a (cstr b) = name_eqb a b.
Proof. unfold name_eqb. now rewrite cstr_idem. Qed.

Definition key (e : mdent) : list Z := cstr (ename e).

(* ---- the invariant: names unique (as C strings), values singletons with a default of the same type ---- *)
Definition ent_ok (e : mdent) : Prop :=
  match evalue e with
  | Some v => obj_ok v /\ ocount v = 1 /\
              match edflt e with Some d => obj_ok d /\ ocount d = 1 /\ oty d = oty v | None => True end
  | None => False
  end.

Definition md_inv (m : md) : Prop := NoDup (map key (ments m)) /\ Forall ent_ok (ments m).

Lemma md_inv_create : md_inv md_create.
Proof. split; constructor. Qed.

(* ---- find ---- *)
Lemma find_first_none {A} (p : A -> bool) l : find_first p l = None <-> forall x, In x l -> p x = false.
Proof.
  induction l as [|y l IH]; cbn [find_first]; [split; [intros _ x []|reflexivity]|].
  destruct (p y) eqn:E.
  - split; [discriminate|]. intros H. specialize (H y (or_introl eq_refl)). congruence.
  - rewrite IH. split; intros H x; [intros [<-|Hx]; [exact E|now apply H]|intros Hx; apply H; now right].
Qed.

Lemma find_first_some {A} (p : A -> bool) l x : find_first p l = Some x -> In x l /\ p x = true.
Proof.
  induction l as [|y l IH]; cbn [find_first]; [discriminate|].
  destruct (p y) eqn:E; [intros H; inversion H; subst; split; [now left|exact E]|].
  intros H. destruct (IH H). split; [now right|assumption].
Qed.

Lemma find_first_app_last {A} (p : A -> bool) l x : find_first p l = None -> p x = true -> find_first p (l ++ [x]) = Some x.
Proof.
  induction l as [|y l IH]; cbn [app find_first]; intros F Hx; [now rewrite Hx|].
  destruct (p y); [discriminate|]. now apply IH.
Qed.

Lemma md_find_none_iff name m : md_find name m = None <-> ~ In (cstr name) (map key (ments m)).
Proof.
  unfold md_find. rewrite find_first_none. split.
  - intros H Hin. apply in_map_iff in Hin. destruct Hin as (e & Ek & He). specialize (H e He).
    unfold key in Ek. assert (name_eqb name (ename e) = true) by (apply name_eqb_true; congruence). congruence.
  - intros H e He. destruct (name_eqb name (ename e)) eqn:E; [|reflexivity]. exfalso. apply H.
    apply in_map_iff. exists e. split; [|exact He]. unfold key. apply name_eqb_true in E. congruence.
Qed.

(* ---- freeze ---- *)
Theorem md_add_frozen name v d m : mmod m = false -> md_add name v d m = Err SBDF_ERROR_METADATA_READONLY.
Proof. intros H. unfold md_add. now rewrite H. Qed.

Theorem md_remove_frozen name m : mmod m = false -> md_remove name m = Err SBDF_ERROR_METADATA_READONLY.
Proof. intros H. unfold md_remove. now rewrite H. Qed.

Theorem md_copy_frozen src dst : mmod dst = false -> md_copy src dst = (SBDF_ERROR_METADATA_READONLY, dst).
Proof. intros H. unfold md_copy. now rewrite H. Qed.

Theorem md_add_str_frozen name v d m : mmod m = false -> md_add_str name v d m = Err SBDF_ERROR_METADATA_READONLY.
Proof. intros H. unfold md_add_str. now apply md_add_frozen. Qed.

Theorem md_add_int_frozen name v d m : mmod m = false -> md_add_int name v d m = Err SBDF_ERROR_METADATA_READONLY.
Proof. intros H. unfold md_add_int. now apply md_add_frozen. Qed.

Theorem md_freeze_is_one_way m : mmod (md_set_immutable m) = false /\ ments (md_set_immutable m) = ments m.
Proof. split; reflexivity. Qed.

(* every mutator keeps a frozen collection frozen: there is no way back *)
Theorem md_frozen_forever_add name v d m m' : mmod m = false -> md_add name v d m = Ok m' -> False.
Proof. intros H E. rewrite md_add_frozen in E by exact H. discriminate. Qed.

(* ---- add ---- *)
Definition add_args_ok (v : obj) (d : option obj) : Prop :=
  obj_ok v /\ ocount v = 1 /\ match d with Some d => obj_ok d /\ ocount d = 1 /\ oty d = oty v | None => True end.

Theorem md_add_spec name v d m : mmod m = true -> add_args_ok v d ->
  (md_find name m = None ->
     md_add name v d m = Ok {| ments := ments m ++ [{| ename := cstr name; evalue := Some v; edflt := d |}]; mmod := true |}) /\
  (md_find name m <> None -> md_add name v d m = Err SBDF_ERROR_METADATA_ALREADY_EXISTS).
Proof.
  intros Hm (Hv & Hc & Hd). unfold md_add. rewrite Hm. cbn [negb].
  assert (T : match d with Some d0 => negb (oty v - oty d0 =? 0) | None => false end = false).
  { destruct d as [d0|]; [|reflexivity]. destruct Hd as (_ & _ & E). rewrite E, Z.sub_diag. reflexivity. }
  rewrite T.
  assert (S1 : negb (ocount v =? 1) || match d with Some d0 => negb (ocount d0 =? 1) | None => false end = false).
  { rewrite Hc. cbn. destruct d as [d0|]; [|reflexivity]. destruct Hd as (_ & E & _). now rewrite E. }
  rewrite S1. split; intros F.
  - rewrite F. rewrite (obj_copy_ok v Hv). cbn [rbind].
    destruct d as [d0|]; cbn [rbind]; [destruct Hd as (Hd0 & _ & _); rewrite (obj_copy_ok d0 Hd0); cbn [rbind]|]; reflexivity.
  - destruct (md_find name m); [reflexivity|contradiction].
Qed.

(* the refusals that do not depend on the content *)
Theorem md_add_type_mismatch name v d0 m : mmod m = true -> oty v <> oty d0 ->
  md_add name v (Some d0) m = Err SBDF_ERROR_VALUETYPES_MUST_BE_EQUAL.
Proof.
  intros Hm H. unfold md_add. rewrite Hm. cbn [negb].
  destruct (oty v - oty d0 =? 0) eqn:E; [lia|reflexivity].
Qed.

Theorem md_add_not_singleton name v m : mmod m = true -> ocount v <> 1 ->
  md_add name v None m = Err SBDF_ERROR_ARRAY_LENGTH_MUST_BE_1.
Proof.
  intros Hm H. unfold md_add. rewrite Hm. cbn [negb]. destruct (ocount v =? 1) eqn:E; [lia|reflexivity].
Qed.

Theorem md_add_preserves_inv name v d m m' : md_inv m -> md_add name v d m = Ok m' -> md_inv m' /\ mmod m' = true.
Proof.
  intros (Hnd & Hok) E. unfold md_add in E.
  destruct (mmod m) eqn:Hm; [|discriminate]. cbn [negb] in E.
  destruct (match d with Some d0 => negb (oty v - oty d0 =? 0) | None => false end) eqn:T; [discriminate|].
  destruct (negb (ocount v =? 1) || match d with Some d0 => negb (ocount d0 =? 1) | None => false end) eqn:S1; [discriminate|].
  destruct (md_find name m) eqn:F; [discriminate|].
  destruct (obj_copy v) as [v'|] eqn:Cv; [|discriminate]. cbn [rbind] in E.
  assert (Hv : obj_ok v /\ v' = v).
  { unfold obj_copy in Cv. unfold obj_ok. destruct (is_arr (oty v)) eqn:A; [inversion Cv; subst v'; auto|].
    destruct (usize (oty v) <? 0) eqn:C1; [discriminate|]. destruct (usize (oty v) =? 0) eqn:C2; [discriminate|].
    inversion Cv. subst v'. split; [right; lia|reflexivity]. }
  destruct Hv as (Hv & ->).
  apply orb_false_iff in S1. destruct S1 as (S1 & S2). apply negb_false_iff in S1.
  assert (Hd : match d with Some d0 => obj_ok d0 /\ ocount d0 = 1 /\ oty d0 = oty v | None => True end /\
               exists d', (match d with Some d0 => (c <-e obj_copy d0 ;; Ok (Some c)) | None => Ok None end) = Ok d' /\ d' = d).
  { destruct d as [d0|]; [|split; [exact I|exists None; auto]].
    apply negb_false_iff in T. apply negb_false_iff in S2.
    destruct (obj_copy d0) as [d'|] eqn:Cd; [|cbn in E; discriminate].
    unfold obj_copy in Cd. assert (obj_ok d0 /\ d' = d0).
    { unfold obj_ok. destruct (is_arr (oty d0)) eqn:A; [inversion Cd; subst d'; auto|].
      destruct (usize (oty d0) <? 0) eqn:C1; [discriminate|]. destruct (usize (oty d0) =? 0) eqn:C2; [discriminate|].
      inversion Cd. subst d'. split; [right; lia|reflexivity]. }
    destruct H as (Hd0 & ->). split; [split; [exact Hd0|split; lia]|]. exists (Some d0). auto. }
  destruct Hd as (Hd & d' & Ed & ->). rewrite Ed in E. cbn [rbind] in E. inversion E. subst m'. clear E.
  split; [|reflexivity]. split; cbn [ments].
  - rewrite map_app. cbn [map]. unfold key at 2. cbn [ename]. rewrite cstr_idem.
    apply NoDup_app_single; [exact Hnd|]. now apply md_find_none_iff.
  - apply Forall_app. split; [exact Hok|]. constructor; [|constructor]. unfold ent_ok. cbn [evalue edflt].
    split; [exact Hv|]. split; [lia|]. destruct d as [d0|]; [|exact I]. exact Hd.
Qed.

(* ---- lookups ---- *)
Theorem md_get_after_add name v d m m' : md_inv m -> md_add name v d m = Ok m' -> md_get name m' = Ok v.
Proof.
  intros Hi E. destruct (md_add_preserves_inv _ _ _ _ _ Hi E) as ((Hnd' & Hok') & _).
  unfold md_add in E.
  destruct (mmod m) eqn:Hm; [|discriminate]. cbn [negb] in E.
  destruct (match d with Some d0 => negb (oty v - oty d0 =? 0) | None => false end); [discriminate|].
  destruct (negb (ocount v =? 1) || match d with Some d0 => negb (ocount d0 =? 1) | None => false end); [discriminate|].
  destruct (md_find name m) eqn:F; [discriminate|].
  destruct (obj_copy v) as [v'|] eqn:Cv; [|discriminate]. cbn [rbind] in E.
  destruct (match d with Some d0 => (c <-e obj_copy d0 ;; Ok (Some c)) | None => Ok None end) as [d'|]; [|discriminate].
  cbn [rbind] in E. inversion E. subst m'. clear E.
  unfold md_get, md_find. cbn [ments].
  assert (G : find_first (fun e => name_eqb name (ename e)) (ments m ++ [{| ename := cstr name; evalue := Some v'; edflt := d' |}])
              = Some {| ename := cstr name; evalue := Some v'; edflt := d' |}).
  { apply find_first_app_last; [exact F|]. cbn [ename]. rewrite name_eqb_cstr_r. apply name_eqb_refl. }
  rewrite G. cbn [evalue obj_copy_opt].
  unfold obj_copy in Cv. destruct (is_arr (oty v)) eqn:A.
  - inversion Cv. subst v'. unfold obj_copy. now rewrite A.
  - destruct (usize (oty v) <? 0) eqn:C1; [discriminate|]. destruct (usize (oty v) =? 0) eqn:C2; [discriminate|].
    inversion Cv. subst v'. unfold obj_copy. now rewrite A, C1, C2.
Qed.

Theorem md_get_absent name m : md_find name m = None -> md_get name m = Err SBDF_ERROR_METADATA_NOT_FOUND /\ md_exists name m = 0.
Proof. intros F. unfold md_get, md_exists. now rewrite F. Qed.

Theorem md_cnt_is_length m : md_cnt m = zlen (ments m).
Proof. reflexivity. Qed.

(* ---- remove ---- *)
Lemma remove_first_absent name l : (forall e, In e l -> name_eqb name (ename e) = false) -> remove_first name l = l.
Proof.
  induction l as [|e l IH]; intros H; cbn [remove_first]; [reflexivity|].
  rewrite (H e (or_introl eq_refl)). f_equal. apply IH. intros x Hx. apply H. now right.
Qed.

Lemma remove_first_keys name l : NoDup (map key l) ->
  forall e, In e (remove_first name l) -> In e l /\ name_eqb name (ename e) = false.
Proof.
  induction l as [|x l IH]; intros Hnd e He; cbn [remove_first] in He; [contradiction|].
  cbn [map] in Hnd. inversion Hnd as [|k ks Hnin Hnd']. subst.
  destruct (name_eqb name (ename x)) eqn:E.
  - split; [now right|]. destruct (name_eqb name (ename e)) eqn:E2; [|reflexivity]. exfalso. apply Hnin.
    apply name_eqb_true in E. apply name_eqb_true in E2. apply in_map_iff. exists e. unfold key. split; [congruence|exact He].
  - destruct He as [<-|He]; [split; [now left|exact E]|]. destruct (IH Hnd' e He). split; [now right|assumption].
Qed.

Theorem md_remove_spec name m : mmod m = true -> md_inv m ->
  exists m', md_remove name m = Ok m' /\ md_inv m' /\ mmod m' = true /\ md_find name m' = None /\
             (forall other, name_eqb name other = false -> md_find other m' = md_find other m) /\
             md_remove name m' = Ok m'.          (* idempotent *)
Proof.
  intros Hm (Hnd & Hok). unfold md_remove. rewrite Hm. cbn [negb]. eexists. split; [reflexivity|].
  assert (Sub : forall e, In e (remove_first name (ments m)) -> In e (ments m) /\ name_eqb name (ename e) = false)
    by (apply remove_first_keys; exact Hnd).
  assert (Hnd' : NoDup (map key (remove_first name (ments m)))).
  { clear Sub Hok. induction (ments m) as [|x l IH]; cbn [remove_first]; [constructor|].
    cbn [map] in Hnd. inversion Hnd as [|k ks Hnin Hnd']. subst.
    destruct (name_eqb name (ename x)); [exact Hnd'|]. cbn [map]. constructor; [|now apply IH].
    intros Hin. apply Hnin. apply in_map_iff in Hin. destruct Hin as (e & Ek & He). apply in_map_iff. exists e. split; [exact Ek|].
    clear - He. induction l as [|y l IH]; cbn [remove_first] in He; [contradiction|].
    destruct (name_eqb name (ename y)); [now right|]. destruct He as [<-|He]; [now left|right; now apply IH]. }
  split; [|split; [reflexivity|]].
  - split; [exact Hnd'|]. cbn [ments]. apply Forall_forall. intros e He. rewrite Forall_forall in Hok. apply Hok. now apply Sub.
  - assert (F : md_find name {| ments := remove_first name (ments m); mmod := true |} = None).
    { unfold md_find. cbn [ments]. apply find_first_none. intros e He. now apply Sub. }
    split; [exact F|]. split.
    + intros other Hne. unfold md_find. cbn [ments]. clear - Hne.
      induction (ments m) as [|x l IH]; cbn [remove_first find_first]; [reflexivity|].
      destruct (name_eqb name (ename x)) eqn:E.
      * destruct (name_eqb other (ename x)) eqn:E2; [|reflexivity]. exfalso.
        apply name_eqb_true in E. apply name_eqb_true in E2.
        assert (name_eqb name other = true) by (apply name_eqb_true; congruence). congruence.
      * cbn [find_first]. destruct (name_eqb other (ename x)); [reflexivity|exact IH].
    + cbn [mmod negb ments]. f_equal. f_equal. apply remove_first_absent. intros e He. now apply Sub.
Qed.

(* ---- copy: all source entries or none ---- *)
Theorem md_copy_all_or_none src dst :
  let '(st, dst') := md_copy src dst in
  dst' = dst \/
  (st = SBDF_OK /\ exists new, ments dst' = ments dst ++ new /\ length new = length (ments src) /\ mmod dst' = mmod dst).
Proof.
  unfold md_copy. destruct (negb (mmod dst)); [now left|].
  destruct (existsb _ (ments src)); [now left|].
  destruct (copy_ents (ments src)) as [new [st|]] eqn:E; [now left|].
  right. split; [reflexivity|]. exists new. cbn [ments mmod]. split; [reflexivity|split; [|reflexivity]].
  revert new E. induction (ments src) as [|e l IH]; intros new E; cbn [copy_ents] in E; [inversion E; reflexivity|].
  destruct (obj_copy_opt (evalue e)); [|discriminate].
  destruct (match edflt e with Some d => (c <-e obj_copy d ;; Ok (Some c)) | None => Ok None end); [|discriminate].
  destruct (copy_ents l) as [done st1] eqn:El. inversion E. subst. cbn [length]. f_equal. now apply IH.
Qed.

(* a name clash or a frozen destination is refused with the matching status *)
Theorem md_copy_clash src dst : mmod dst = true ->
  existsb (fun e => existsb (fun d => name_eqb (ename e) (ename d)) (ments dst)) (ments src) = true ->
  md_copy src dst = (SBDF_ERROR_METADATA_ALREADY_EXISTS, dst).
Proof. intros Hm H. unfold md_copy. rewrite Hm, H. reflexivity. Qed.

(* ---- metadata held by a table-metadata object is frozen (built or read) ---- *)
Theorem tm_create_frozen table_md t : tm_create table_md = Ok t -> mmod (tmeta t) = false /\ tcols t = [].
Proof.
  unfold tm_create. destruct (md_copy table_md md_create) as [st m]. destruct (st =? SBDF_OK); [|discriminate].
  intros H. inversion H. split; reflexivity.
Qed.

Theorem tm_add_frozen col t t' : mmod (tmeta t) = false -> Forall (fun c => mmod c = false) (tcols t) ->
  tm_add col t = Ok t' -> mmod (tmeta t') = false /\ Forall (fun c => mmod c = false) (tcols t') /\ length (tcols t') = S (length (tcols t)).
Proof.
  intros Ht Hc. unfold tm_add. destruct (md_copy col md_create) as [st m]. destruct (st =? SBDF_OK); [|discriminate].
  intros H. inversion H. cbn [tmeta tcols]. split; [exact Ht|]. split.
  - apply Forall_app. split; [exact Hc|]. constructor; [reflexivity|constructor].
  - rewrite app_length. cbn. lia.
Qed.

Theorem tm_read_frozen swp cap s t s' : tm_read swp cap s = Ok (t, s') ->
  mmod (tmeta t) = false /\ Forall (fun c => mmod c = false) (tcols t).
Proof.
  unfold tm_read, rd_bind, rret, rfail. intros H.
  repeat match type of H with
  | match ?x with _ => _ end = _ => let E := fresh "E" in destruct x eqn:E; try discriminate
  | (if ?c then _ else _) _ = _ => destruct c; try discriminate
  | (if ?c then _ else _) = _ => destruct c; try discriminate
  | (let '(_, _) := ?x in _) = _ => destruct x
  end.
  inversion H. subst. cbn [tmeta tcols mmod]. split; [reflexivity|].
  apply Forall_forall. intros c Hc. apply in_map_iff in Hc. destruct Hc as (c0 & <- & _). reflexivity.
Qed.
