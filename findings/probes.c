/* Demonstrations of the defects found on the pinned tree (649388f).  Each probe exits 0 when
   the property holds and non-zero (or is killed by ASan/UBSan) when it does not.
   build: clang -g -O1 -w -fsanitize=address,undefined -fno-sanitize-recover=all \
          -I/repo/include -I/repo/src /repo/src/*.c probes.c -o probes ;  ./probes D1 ... */
#define _GNU_SOURCE
#include <stdio.h>
#include <stdlib.h>
#include <string.h>
#include <unistd.h>
#include <sys/mman.h>
#include "all.h"
#include "all_io.h"
#include "internals.h"

static FILE* mem(const unsigned char* b, size_t n)
{
	int fd = memfd_create("p", 0);
	FILE* f;
	if (n && write(fd, b, n) != (ssize_t)n) abort();
	lseek(fd, 0, SEEK_SET);
	f = fdopen(fd, "r+b");
	return f;
}

static int D1(void)
{   /* C15: obj_eq on different strings */
	sbdf_object *a, *b; const char* s1 = "abc"; const char* s2 = "abd";
	sbdf_obj_create(sbdf_vt_string(), &s1, 0, &a);
	sbdf_obj_create(sbdf_vt_string(), &s2, 0, &b);
	int r = sbdf_obj_eq(a, b);
	printf("obj_eq(\"abc\",\"abd\") = %d\n", r);
	return r != 0;
}

static int D2(void)
{   /* C02: RLE of an empty array */
	sbdf_object* o; sbdf_valuearray* va; sbdf_object* back; int dummy = 0; int e;
	sbdf_obj_create_arr(sbdf_vt_int(), 0, &dummy, 0, &o);
	e = sbdf_va_create_rle(o, &va);
	printf("va_create_rle(empty) = %d\n", e);
	if (e) return 1;
	printf("row_cnt = %d\n", sbdf_va_row_cnt(va));
	e = sbdf_va_get_values(va, &back);
	printf("get_values = %d count=%d\n", e, e ? -1 : back->count);
	return e || back->count != 0;
}

static int D3(void)
{   /* C07: skip of an RLE array must end where the read ends */
	sbdf_object* o; sbdf_valuearray* va; int data[3] = {7,7,8}; long p1, p2; FILE* f; sbdf_valuearray* r;
	unsigned char buf[256]; size_t n;
	sbdf_obj_create_arr(sbdf_vt_int(), 3, data, 0, &o);
	sbdf_va_create_rle(o, &va);
	f = mem(0, 0); sbdf_va_write(va, f); fflush(f); n = ftell(f); rewind(f);
	if (fread(buf, 1, n, f) != n) abort();
	memset(buf + n, 0xAA, 64);
	f = mem(buf, n + 64); sbdf_va_read(f, &r); p1 = ftell(f);
	f = mem(buf, n + 64); int e = sbdf_va_skip(f); p2 = ftell(f);
	printf("len=%zu read ends %ld, skip (status %d) ends %ld\n", n, p1, e, p2);
	return p1 != p2;
}

static int D4(void)
{   /* C16: over-long 7-bit group sequence */
	unsigned char b[] = {0x80,0x80,0x80,0x80,0x80,0x01}; int v = 0;
	FILE* f = mem(b, sizeof b);
	int e = sbdf_read_7bitpacked_int32(f, &v);
	printf("read7(80 80 80 80 80 01) = %d v=%d\n", e, v);
	return e == 0;
}

static int D5(void)
{   /* C05: column slice whose value array is truncated after its header */
	unsigned char b[] = {0xdf,0x5b,0x04, 0x01,0x02, 0x05,0,0,0, 1,0,0,0};
	sbdf_columnslice* cs = 0; FILE* f = mem(b, sizeof b);
	int e = sbdf_cs_read(f, &cs);
	printf("cs_read(truncated) = %d\n", e);
	return e == 0;
}

static int D5b(void)
{   /* C02/C05: unknown encoding leaves an allocated array behind */
	unsigned char b[] = {0x09,0x02, 0,0,0,0};
	sbdf_valuearray* va = 0; FILE* f = mem(b, sizeof b);
	int e = sbdf_va_read(f, &va);
	printf("va_read(enc 9) = %d handle=%s\n", e, va ? "set" : "null");
	return va != 0;
}

static int D6(void)
{   /* C19: lead byte directly before the terminator */
	char* s = malloc(2); int n;
	s[0] = (char)0xC3; s[1] = 0;
	n = sbdf_convert_utf8_to_iso88591(s, 0);
	printf("utf8->iso size of \"\\xC3\" = %d\n", n);
	return 0;
}

static int D7(void)
{   /* C05/C09: RLE row count inconsistent with the runs */
	unsigned char b[] = {0x02,0x02, 1,0,0,0,  1,0,0,0, 0x09,  1,0,0,0, 5,0,0,0};
	sbdf_valuearray* va = 0; sbdf_object* o = 0; FILE* f = mem(b, sizeof b);
	int e = sbdf_va_read(f, &va);
	printf("va_read = %d\n", e);
	if (e) return 0;
	e = sbdf_va_get_values(va, &o);
	printf("get_values(row count 1, one run of 10) = %d\n", e);
	return e == 0;
}

static int D8(void)
{   /* C11/C12: adding a property to a reader-built slice */
	unsigned char b[] = {0xdf,0x5b,0x04, 0x01,0x02, 1,0,0,0, 5,0,0,0,
		3,0,0,0,
		1,0,0,0,'a', 0x01,0x02, 1,0,0,0, 1,0,0,0,
		1,0,0,0,'b', 0x01,0x02, 1,0,0,0, 1,0,0,0,
		1,0,0,0,'c', 0x01,0x02, 1,0,0,0, 1,0,0,0};
	sbdf_columnslice* cs = 0; FILE* f = mem(b, sizeof b); sbdf_object* o; sbdf_valuearray* va; int one = 1;
	int e = sbdf_cs_read(f, &cs);
	printf("cs_read = %d\n", e);
	if (e) return 1;
	sbdf_obj_create_arr(sbdf_vt_int(), 1, &one, 0, &o); sbdf_va_create_plain(o, &va);
	e = sbdf_cs_add_property(cs, "d", va);
	printf("add_property(4th) = %d\n", e);
	return 0;
}

static int D9(void)
{   /* C05: negative byte-size header makes a skip seek backwards */
	unsigned char b[] = {0,0,0,0,0,0,0,0, 0x01,0x0a, 2,0,0,0, 0xf6,0xff,0xff,0xff};
	FILE* f = mem(b, sizeof b); int e;
	fseek(f, 8, SEEK_SET);
	e = sbdf_va_skip(f);
	printf("va_skip(byte size -10) = %d, position %ld\n", e, ftell(f));
	return e == 0;
}

static int D9b(void)
{   /* C05: property count whose byte size wraps */
	unsigned char b[200]; size_t n = 0; int i;
	unsigned char h[] = {0xdf,0x5b,0x04, 0x01,0x02, 1,0,0,0, 5,0,0,0,  1,0,0,0x20};
	memcpy(b, h, sizeof h); n = sizeof h;
	for (i = 0; i < 4; ++i) { unsigned char p[] = {1,0,0,0,'a', 0x01,0x02, 1,0,0,0, 1,0,0,0}; memcpy(b+n, p, sizeof p); n += sizeof p; }
	sbdf_columnslice* cs = 0; FILE* f = mem(b, n);
	int e = sbdf_cs_read(f, &cs);
	printf("cs_read(prop count 2^29+1) = %d\n", e);
	return e == 0;
}

static ssize_t cw(void* c, const char* b, size_t n) { long* left = c; size_t k = n < (size_t)*left ? n : (size_t)*left; *left -= k; return k; }
static int D10(void)
{   /* C13: write failure inside the column values of the table metadata: leak (LSan) */
	sbdf_metadata_head *tmd, *cmd; sbdf_tablemetadata* tm; long left = 50; FILE* f; int e;
	cookie_io_functions_t io = {0, cw, 0, 0};
	sbdf_md_create(&tmd); sbdf_tm_create(tmd, &tm);
	sbdf_md_create(&cmd); sbdf_cm_set_values("col", sbdf_vt_int(), cmd); sbdf_tm_add(cmd, tm);
	f = fopencookie(&left, "w", io); setvbuf(f, 0, _IONBF, 0);
	e = sbdf_tm_write(f, tm);
	printf("tm_write(budget 50) = %d\n", e);
	sbdf_tm_destroy(tm); sbdf_md_destroy(tmd); sbdf_md_destroy(cmd); fclose(f);
	return e == 0;
}

static int D12(void)
{   /* C05/C08: table-level entry without a value */
	unsigned char b[] = {0xdf,0x5b,0x02, 1,0,0,0, 1,0,0,0,'x', 0x02, 0, 0,  0,0,0,0, 0,0,0,0};
	sbdf_tablemetadata* tm = 0; FILE* f = mem(b, sizeof b); FILE* o = mem(0, 0);
	int e = sbdf_tm_read(f, &tm);
	printf("tm_read = %d\n", e);
	if (e) return 0;
	{ sbdf_object* v = (sbdf_object*)(size_t)0x10; e = sbdf_md_get("x", tm->table_metadata, &v);
	  printf("md_get = %d out %s\n", e, v == (sbdf_object*)(size_t)0x10 ? "untouched" : "set");
	  if (e == 0 && v == (sbdf_object*)(size_t)0x10) return 1; }
	e = sbdf_tm_write(o, tm);
	printf("tm_write = %d\n", e);
	return 0;
}

static int D13(void)
{   /* C19: overlong forms and a swallowed ASCII byte */
	char out[8]; int n, bad = 0;
	n = sbdf_convert_utf8_to_iso88591("\xC0\x80", out); printf("C0 80 -> size %d first %02x\n", n, (unsigned char)out[0]); bad |= (unsigned char)out[0] != 0x1a;
	n = sbdf_convert_utf8_to_iso88591("\xC3" "A", out); printf("C3 41 -> size %d %02x %02x\n", n, (unsigned char)out[0], (unsigned char)out[1]); bad |= n != 3;
	return bad;
}

int main(int argc, char** argv)
{
	struct { const char* n; int (*f)(void); } t[] = {{"D1",D1},{"D2",D2},{"D3",D3},{"D4",D4},{"D5",D5},{"D5b",D5b},{"D6",D6},{"D7",D7},{"D8",D8},{"D9",D9},{"D9b",D9b},{"D10",D10},{"D12",D12},{"D13",D13}};
	int i; 
	for (i = 0; i < (int)(sizeof t / sizeof t[0]); ++i) if (argc > 1 && !strcmp(argv[1], t[i].n)) { int r = t[i].f(); printf("%s: %s\n", t[i].n, r ? "PROPERTY VIOLATED" : "ok"); return r; }
	fprintf(stderr, "usage: probes Dn\n"); return 2;
}
