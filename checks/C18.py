"""C18 - independent objects can be used from concurrent threads."""
import os, json, re
import vlib
from vlib import Case

LEVEL = "proof"
RULE = ("(i) the generic interleaving theorem and (ii) 'every use of every file-scope or function-static object is a read', re-checked "
        "against the uses that tools/srcfacts.py regenerates from /repo/src on every run; as the sampled part, k threads run "
        "independent generated workloads (build, encode with every encoding, write, read, decode, charset conversion, destroy) under "
        "ThreadSanitizer, threads first, then the same workloads sequentially, digests compared; evaluations = workloads run "
        "concurrently; distinct = workload seeds")
TRUSTED = ["tools/srcfacts.py use classifier (anything it cannot prove read-only counts as a write)", "ThreadSanitizer for the sampled schedules",
           "thread safety of malloc/free and of FILE locking inside libc is outside"]
ASSUMES = ["threads share no object, stream or buffer of their own making"]


def cases(rng, tier):
    return []


def extra(ctx):
    viol, corr = [], []
    cov = {"evaluations": 0, "samples": [], "distinct": []}
    facts = json.load(open(os.path.join(vlib.CACHE, "facts.json")))
    cov["static_objects"] = sorted(facts["globals"])
    cov["static_uses"] = sorted(set("%s in %s: %s" % (u[0], u[1], u[2]) for u in facts["uses"]))
    hpath, err = vlib.build_harness("tsan")
    if not hpath:
        corr.append({"case": None, "fails": ["thread harness does not build: " + err[-400:]], "diffs": []}); return viol, corr, cov
    rounds = {"quick": 6, "thorough": 60}[ctx["tier"]] if ctx["tier"] in ("quick", "thorough") else 6
    k, n = 8, 25
    for r in range(rounds):
        seed = ctx["seed"] * 1000 + r
        env = dict(vlib.ENV, TSAN_OPTIONS="halt_on_error=1:exitcode=66:report_signal_unsafe=0")
        p = vlib.sh([hpath, str(k), str(n), str(seed)], env=env, timeout=900)
        cov["evaluations"] += k * n
        cov["distinct"] += ["w%d" % (seed + i * 1000 + j) for i in range(k) for j in range(n)]
        out = p.stdout + p.stderr
        if p.returncode != 0:
            m = re.search(r"WARNING: ThreadSanitizer: ([^\n]*)\n((?:.*\n){0,12})", out)
            what = ("ThreadSanitizer: " + m.group(1) + " | " + " ".join(m.group(2).split())[:500]) if m else out[-600:]
            mm = re.findall(r"MISMATCH[^\n]*", out)
            c = Case("threads-seed-%d" % seed, ["# %s %d %d %d" % (hpath, k, n, seed)])
            viol.append({"case": c, "fails": ["%d threads x %d workloads, seed %d: %s %s" % (k, n, seed, what, "; ".join(mm[:3]))], "diffs": [], "cobs": None, "mobs": None})
            break
    cov["samples"].append({"threads": k, "workloads_per_thread": n, "first_seed": ctx["seed"] * 1000})
    if not ctx["proofs"]["ok"] and not viol:
        bad = [u for u in facts["uses"] if u[2] not in ("read", "decay-const-arg", "by-value-arg")]
        corr.append({"case": None, "fails": ["a static object is used other than read-only: " + json.dumps(bad)[:800]], "diffs": []})
    return viol, corr, cov
