"""C07 - skipping and column-subset reads are equivalent to full reads."""
import itertools
from vlib import Case, hx, ALLTYPES, STRING, BINARY, BOOL, rand_array
from checks import sbdfgen as G
from checks.tablecases import parse_session, find_seq

LEVEL = "proof"
RULE = ("one case = a well-formed value array / column slice (any layout, any type, followed by arbitrary trailing bytes) read and "
        "skipped from the same position, or a table read with all columns, with every subset (all 2^n for n<=5, random beyond) and "
        "with sbdf_ts_skip; positions, statuses and the selected columns are compared; non-trivial = the section has a non-empty "
        "array or the subset drops at least one column; distinct = script hash")
TRUSTED = ["L1 model coq/*.v", "checks/sbdfgen.py reference encoder"]
ASSUMES = ["the stream is a regular file (ftell/fseek semantics)"]


def va_case(cid, rng, ty, elems, layout, level, be=False):
    e = G.Enc(be)
    if level == "va":
        e.va(ty, elems, layout)
    else:
        e.sec(4); e.va(ty, elems, layout)
        props = []
        for pn in rng.sample([b"IsInvalid", b"ErrorCode", b"", b"p2"], rng.choice([0, 1, 2, 3])):
            pty = rng.choice([BOOL, STRING, 2, BINARY]); pel = rand_array(rng, pty, len(elems))
            props.append((pn, pty, pel, G.random_layout(rng, pty, pel)))
        e.i32(len(props))
        for (pn, pty, pel, lay) in props:
            e.string(pn); e.va(pty, pel, lay)
    body = bytes(e.b)
    trailing = bytes(rng.getrandbits(8) for _ in range(rng.choice([0, 1, 4, 9, 30])))
    data = body + trailing
    rd, sk = ("rva 1 1", "skva 2") if level == "va" else ("rcs 1 1", "skcs 2")
    lines = ["in 1 %s" % hx(data), rd, "pos 1", "in 2 %s" % hx(data), sk, "pos 2"]

    def oracle(c):
        f = []
        if c.val(2) != "0": f.append("full read of a well-formed %s failed: %s" % (level, c.val(2)))
        if c.val(5) != c.val(2): f.append("skip returned %s, full read %s" % (c.val(5), c.val(2)))
        if c.val(3) != str(len(body)): f.append("read ended at %s, the section has %d bytes" % (c.val(3), len(body)))
        if c.val(6) != c.val(3): f.append("skip ended at %s, full read at %s" % (c.val(6), c.val(3)))
        return f
    return Case(cid, lines, oracle=oracle, nontrivial=len(elems) > 0,
                meta={"dist": {"level": level, "type": ty, "layout": layout[0], "len": min(len(elems), 300) // 50 * 50}})


def cases(rng, tier, be=False):
    idx = 0
    n = {"quick": 700, "thorough": 15000, "search": 500}[tier] // (4 if be else 1)
    sizes = [0, 0, 1, 2, 7, 8, 9, 16, 17, 255, 256, 257, 300]
    for i in range(n):
        ty = rng.choice(ALLTYPES)
        cnt = rng.choice(sizes + [rng.randint(0, 40)] * 4)
        if ty in (STRING, BINARY) and cnt > 60: cnt = rng.randint(0, 60)
        elems = rand_array(rng, ty, cnt)
        idx += 1
        yield va_case("%sv%d" % ("be-" if be else "", idx), rng, ty, elems, G.random_layout(rng, ty, elems), rng.choice(["va", "va", "cs"]), be)
    ntab = {"quick": 40, "thorough": 600, "search": 25}[tier] // (3 if be else 1)
    for i in range(ntab):
        ncols = rng.choice([1, 2, 3, 4, 5, 6, 7])
        t = G.rand_table(rng, ncols=ncols, nslices=rng.choice([1, 2]), maxrows=20)
        layouts = {}
        for si, sl in enumerate(t["slices"]):
            for ci, col in enumerate(sl):
                layouts[(si, ci, -1)] = G.random_layout(rng, t["cols"][ci]["ty"], col["vals"])
                for pi, (pn, pty, elems, pk) in enumerate(col["props"]):
                    layouts[(si, ci, pi)] = G.random_layout(rng, pty, elems)
        data = bytes(G.encode_table(t, layouts=layouts, be=be).b)
        subsets = ["".join(s) for s in itertools.product("01", repeat=ncols)] if ncols <= (5 if tier != "search" else 3) else \
            ["".join(rng.choice("01") for _ in range(ncols)) for _ in range(12)] + ["0" * ncols, "1" * ncols]
        lines = ["in 1 %s" % hx(data), "session 1 *"]
        for k, s in enumerate(subsets):
            lines += ["in %d %s" % (k + 2, hx(data)), "session %d %s" % (k + 2, s)]
        lines += ["in %d %s" % (len(subsets) + 2, hx(data)), "session %d skip" % (len(subsets) + 2)]

        def oracle(c, t=t, subsets=subsets, layouts=layouts, n=len(data)):
            f = []
            full = parse_session(c.val(2))
            if full["end"] != -1000 or full["pos"] != n:
                return ["full read of a well-formed stream: end=%s pos=%s (len %d)" % (full["end"], full["pos"], n)]
            for k, s in enumerate(subsets):
                d = parse_session(c.val(2 * k + 4))
                if d["end"] != -1000 or d["n"] != full["n"]:
                    f.append("subset %s: session ended with %s after %s slices (full read: end-of-table after %s)" % (s, d["end"], d["n"], full["n"])); continue
                if d["pos"] != full["pos"]:
                    f.append("subset %s ended at %s, the full read at %s" % (s, d["pos"], full["pos"]))
                exp = [G.dec_ts_str(t, si, s, layouts) for si in range(len(t["slices"]))]
                ok, part = find_seq(d["line"], exp)
                if not ok: f.append("subset %s: selected columns differ from the full read or unselected ones are present" % s)
            d = parse_session(c.val(2 * len(subsets) + 4))
            if d["end"] != -1000 or d["n"] != full["n"] or d["pos"] != full["pos"]:
                f.append("sbdf_ts_skip: end=%s n=%s pos=%s, full read: end=-1000 n=%s pos=%s" % (d["end"], d["n"], d["pos"], full["n"], full["pos"]))
            return f[:5]
        idx += 1
        yield Case("%st%d" % ("be-" if be else "", idx), lines, oracle=oracle, meta={"dist": {"level": "table", "cols": ncols, "subsets": len(subsets)}})
    if not be:
        yield from big_cases(rng, tier)


def big_cases(rng, tier):
    """the same sections at the start of a stream of more than 2 GiB (sparse): sizes and offsets beyond INT_MAX"""
    for i in range({"quick": 12, "thorough": 100, "search": 6}[tier]):
        ty = rng.choice(ALLTYPES); cnt = rng.choice([1, 3, 9, 20])
        elems = rand_array(rng, ty, cnt)
        c = va_case("big-v%d" % i, rng, ty, elems, G.random_layout(rng, ty, elems), rng.choice(["va", "cs"]))
        c.lines = [l.replace("in ", "inbig ", 1) if l.startswith("in ") else l for l in c.lines]
        c.compare = False
        yield c
    for i in range({"quick": 4, "thorough": 30, "search": 2}[tier]):
        ncols = rng.choice([2, 3, 4])
        t = G.rand_table(rng, ncols=ncols, nslices=1, maxrows=8)
        data = bytes(G.encode_table(t).b)
        subs = ["1" * ncols, "0" * ncols, "".join(rng.choice("01") for _ in range(ncols))]
        lines = ["inbig 1 %s" % hx(data), "session 1 *"]
        for k, sub in enumerate(subs):
            lines += ["inbig %d %s" % (k + 2, hx(data)), "session %d %s" % (k + 2, sub)]
        lines += ["inbig 9 %s" % hx(data), "session 9 skip"]

        def oracle(c, subs=subs, n=len(data)):
            f = []
            full = parse_session(c.val(2))
            if full["end"] != -1000 or full["pos"] != n: return ["full read at the start of a >2 GiB stream: end=%s pos=%s" % (full["end"], full["pos"])]
            for k, sub in enumerate(subs):
                d = parse_session(c.val(2 * k + 4))
                if d["end"] != -1000 or d["pos"] != full["pos"]: f.append("subset %s in a >2 GiB stream: end=%s pos=%s, full read: end=-1000 pos=%s" % (sub, d["end"], d["pos"], full["pos"]))
            d = parse_session(c.val(2 * len(subs) + 4))
            if d["end"] != -1000 or d["pos"] != full["pos"]: f.append("sbdf_ts_skip in a >2 GiB stream: end=%s pos=%s" % (d["end"], d["pos"]))
            return f
        yield Case("big-t%d" % i, lines, oracle=oracle, compare=False, meta={"dist": {"level": "table-2GiB"}})


def be_cases(rng, tier):
    return cases(rng, tier, be=True)


def extra(ctx):
    """the translated programs cited by the C07_source_* theorems, run inside Coq on the streams the C functions get (checks/impdiff.py)"""
    import random
    from checks import impdiff
    n = {"quick": 150, "thorough": 1500, "search": 60}.get(ctx["tier"], 150)
    diffs, cov = impdiff.run(ctx, random.Random(ctx["seed"] * 7717 + 11), n)
    n2 = {"quick": 80, "thorough": 800, "search": 30}.get(ctx["tier"], 80)
    diffs2, cov2 = impdiff.run_ts(ctx, random.Random(ctx["seed"] * 9173 + 3), n2)
    diffs = list(diffs) + list(diffs2)
    corr = [{"case": None, "fails": ["translated program and compiled function differ: " + d], "diffs": []} for d in diffs[:5]]
    cov = dict(cov); cov.update(cov2); cov["evaluations"] = cov.get("imp_runs", 0) + cov.get("imp_ts_runs", 0)
    return [], corr, cov
