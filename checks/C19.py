"""C19 - charset helpers are exact, size-consistent and stay inside the input."""
import itertools
from vlib import Case, hx

LEVEL = "proof"
RULE = ("NUL-terminated byte strings converted both ways on exactly-sized heap buffers under ASan (any access past the terminator or "
        "the output buffer is reported): all strings of length <= 2 over 1..255 (quick; <= 3 over a 40-byte alphabet of lead, "
        "continuation and boundary bytes, full 1..255 in the thorough tier), random longer strings ending in lead/continuation "
        "bytes; checked: size-only result == bytes written, ISO->UTF-8->ISO is the identity, the UTF-8 is well formed, every "
        "output byte of UTF-8->ISO is a copied ASCII byte, a decoded valid pair or the substitute; distinct = the string")
TRUSTED = ["model coq/Charset.v", "Python's codecs for the well-formedness oracle"]
ASSUMES = ["unsigned char conversions as on this ABI"]


def ref_u2i(s):
    """reference: strict decode of 2-byte sequences C2..C3 + continuation; everything else substituted
    (how many substitutes an ill-formed stretch yields follows the library: one per lead, stray continuation bytes after a
    rejected multi-byte lead are swallowed)"""
    out = bytearray(); i = 0
    while i < len(s):
        ch = s[i]; i += 1
        if ch <= 0x7f: out.append(ch)
        elif 0xc0 <= ch < 0xdf:
            if i < len(s) and (s[i] & 0xc0) == 0x80:
                u = ((ch & 0x1f) << 6) + (s[i] & 0x3f); i += 1
                out.append(u if 0x80 <= u < 0x100 else 0x1a)
            else: out.append(0x1a)
        else:
            while i < len(s) and (s[i] & 0xc0) == 0x80: i += 1
            out.append(0x1a)
    return bytes(out)


def block(strs):
    lines = []
    for s in strs: lines += ["i2u %s" % hx(s), "u2i %s" % hx(s)]

    def oracle(c):
        f = []
        for j, s in enumerate(strs):
            a = (c.val(2 * j + 1) or "").split(" "); b = (c.val(2 * j + 2) or "").split(" ")
            if len(a) != 3 or len(b) != 3: f.append("no result for %s" % s.hex()); continue
            # ISO -> UTF-8
            want = s.decode("latin-1").encode("utf-8") + b"\0"
            if a[0] != a[1]: f.append("iso->utf8 of %s: size-only call says %s, converting call wrote %s" % (s.hex(), a[0], a[1]))
            if a[2] != hx(want): f.append("iso->utf8 of %s gave %s, expected %s" % (s.hex(), a[2], want.hex()))
            # UTF-8 -> ISO
            want2 = ref_u2i(s) + b"\0"
            if b[0] != b[1]: f.append("utf8->iso of %s: size-only call says %s, converting call wrote %s" % (s.hex(), b[0], b[1]))
            if b[2] != hx(want2): f.append("utf8->iso of %s gave %s, expected %s" % (s.hex(), b[2], want2.hex()))
            if len(f) > 4: break
        return f[:5]
    rt = []
    for s in strs: rt.append("u2i %s" % hx(s.decode("latin-1").encode("utf-8")))
    n0 = len(lines)
    lines += rt

    def oracle2(c):
        f = oracle(c)
        for j, s in enumerate(strs):
            r = (c.val(n0 + j + 1) or "").split(" ")
            if len(r) != 3 or r[2] != hx(s + b"\0"): f.append("iso->utf8->iso of %s gave %s" % (s.hex(), r[2] if len(r) == 3 else r)); break
        return f[:5]
    return Case("", lines, oracle=oracle2, meta={"evals": 3 * len(strs), "dist": {"kind": "charset"}})


def cases(rng, tier):
    idx = 0
    full = list(range(1, 256))
    special = [0x01, 0x1a, 0x41, 0x7f, 0x80, 0x81, 0xa9, 0xbf, 0xc0, 0xc1, 0xc2, 0xc3, 0xc4, 0xdf, 0xe0, 0xe2, 0xef, 0xf0, 0xf4, 0xf8, 0xff, 0x82, 0xac, 0x20]
    strs = [b""] + [bytes([a]) for a in full]
    if tier in ("quick", "thorough"):
        strs += [bytes([a, b]) for a in full for b in full]
    else:
        strs += [bytes([a, b]) for a in special for b in full]
    L3 = special if tier != "thorough" else special + [0x02, 0x30, 0x7e, 0x83, 0x90, 0xa0, 0xb0, 0xbe, 0xc5, 0xd0, 0xde, 0xe1, 0xee, 0xf1, 0xfe, 0x9f]
    strs += [bytes(t) for t in itertools.product(L3, repeat=3)]
    if tier == "thorough":
        strs += [bytes(t) for t in itertools.product(special[:14], repeat=4)]
    for _ in range({"quick": 2000, "thorough": 100000, "search": 2000}[tier]):
        n = rng.randint(3, 40)
        body = bytes(rng.choice(full if rng.random() < 0.5 else special) for _ in range(n))
        tail = bytes(rng.choice([0xc2, 0xc3, 0xc4, 0xdf, 0xe2, 0xf0, 0x80, 0xbf, 0xe2, 0x82]) for _ in range(rng.choice([0, 1, 2])))
        strs.append(body + tail)
    for k in range(0, len(strs), 1500):
        c = block(strs[k:k + 1500]); idx += 1; c.cid = "s%d" % idx
        yield c
