"""C20 - the library is passive: no process exit, no std-stream or environment access."""
import os, json, subprocess, random
import vlib
from vlib import Case, hx
from checks import sbdfgen as G
from checks.tablecases import roundtrip_case
from checks import C05

LEVEL = "proof"
RULE = ("decided for the whole library from its call graph, regenerated from /repo/src by tools/srcfacts.py (clang AST) on every run: "
        "the Coq theorems of Props/C20.v are re-checked against the regenerated facts; the extractor is cross-checked against nm -u "
        "of a plain -O2 build; a batch of round-trip and hostile-input sessions is executed as a sanity run (and, when a forbidden "
        "symbol appears, with that symbol wrapped so that reaching it ends the process: the witness search)")
TRUSTED = ["tools/srcfacts.py and clang 14's AST (cross-checked with nm -u of gcc -O2 objects)",
           "preprocessor branches not compiled on this platform (_MSC_VER, SUNOS) are not seen", "libc's own functions are assumed passive"]
ASSUMES = ["the build configuration of this platform"]

RUNTIME_SYMS = {"_GLOBAL_OFFSET_TABLE_", "__stack_chk_fail", "__stack_chk_guard", "__memcpy_chk", "__memset_chk", "__memmove_chk", "__strlen_chk"}


def generic_cases(rng, n):
    for i in range(n):
        if i % 2 == 0:
            yield roundtrip_case("t%d" % i, G.rand_table(rng, maxrows=20, conflict=(i % 6 == 0)), rng)
        else:
            t = G.rand_table(rng, maxrows=10)
            e = G.encode_table(t)
            data, _ = C05.mutate(rng, bytes(e.b), [f for f in e.fields if f[0] not in ("bytes", "elem", "bits", "run")])
            yield Case("m%d" % i, ["in 1 %s" % hx(data), "session 1 *"])


def cases(rng, tier):
    # sanity run: exercises the entry points; the decision itself is the theorem over the call graph
    for c in generic_cases(rng, {"quick": 60, "thorough": 600, "search": 0}[tier]):
        c.oracle = None
        yield c


def extra(ctx):
    repo = os.environ.get("SBDF_REPO", "/repo")
    facts = json.load(open(os.path.join(vlib.CACHE, "facts.json")))
    viol, corr = [], []
    cov = {"evaluations": 0, "samples": []}
    # 1. cross-check the extractor with nm -u of a plain build
    d = os.path.join(vlib.CACHE, "plain-%d" % os.getpid())
    os.makedirs(d, exist_ok=True)
    und = set(); ok = True
    for f in sorted(os.listdir(os.path.join(repo, "src"))):
        if not f.endswith(".c"): continue
        o = os.path.join(d, f[:-2] + ".o")
        r = vlib.sh(["gcc", "-O2", "-DNDEBUG", "-fPIC", "-w", "-I", repo + "/include", "-I", repo + "/src", "-c", os.path.join(repo, "src", f), "-o", o])
        if r.returncode != 0: ok = False; continue
        for l in vlib.sh(["nm", "-u", o]).stdout.splitlines():
            s = l.split()[-1] if l.split() else ""
            if s: und.add(s.split("@")[0])
    vlib.sh(["rm", "-rf", d])
    defined = set(facts["funs"])
    ast_ext = set(facts["externals"])
    missed = sorted(s for s in und if s not in defined and s not in ast_ext and s not in RUNTIME_SYMS)
    cov["nm_undefined_symbols"] = sorted(und - defined)
    cov["ast_externals"] = sorted(ast_ext)
    cov["evaluations"] += len(und)
    cov["samples"].append({"externals": sorted(ast_ext), "functions": len(defined)})
    if missed:
        corr.append({"case": None, "fails": ["the fact extractor missed symbols that the compiled objects import: %s" % missed], "diffs": []})
    # 2. witness search when the theorems no longer check
    if not ctx["proofs"]["ok"]:
        passive = set("malloc calloc realloc free memcpy memmove memset memcmp memchr strlen strnlen strcmp strncmp strchr strrchr strcpy strncpy fread fwrite fseek ftell fflush qsort bsearch".split())
        forbidden = sorted((ast_ext | set(missed)) - passive)
        paths = []
        for sym in forbidden:
            callers = sorted(f for f, v in facts["funs"].items() if sym in v["callees"] or sym in v["addr_taken"])
            paths.append({"symbol": sym, "called_from": [{"function": c, "file": facts["funs"][c]["file"], "line": facts["funs"][c]["line"]} for c in callers]})
        info = {"forbidden_symbols": forbidden, "call_sites": paths,
                "std_object_refs": facts["std_refs"], "stream_calls_not_on_a_parameter": [s for s in facts["stream_calls"] if not s[2]],
                "indirect_calls": {f: v["indirect"] for f, v in facts["funs"].items() if v["indirect"]}}
        wrappable = [s for s in forbidden if s.isidentifier()]
        found = None
        for variant in ("wrap", "wrapbe"):          # the default and the big-endian configuration
            if not wrappable or found: break
            env = dict(vlib.ENV, WRAP=" ".join(wrappable))
            r = vlib.sh([os.path.join(vlib.V, "tools", "build_harness.sh"), variant], env=env, timeout=600)
            hpath = r.stdout.strip().splitlines()[-1] if r.stdout.strip() else ""
            if os.path.exists(hpath):
                rng = random.Random(ctx["seed"] * 31 + 5)
                cs = list(generic_cases(rng, 300 if ctx["tier"] == "quick" else 3000))
                for c5 in C05.cases(rng, "search"):
                    c5.oracle = None; cs.append(c5)
                    if len(cs) > (900 if ctx["tier"] == "quick" else 6000): break
                # several environments: the forbidden call may be gated
                for envname in ("", "SBDF_DEBUG", "DEBUG", "SBDF_TRACE", "SBDF_VERBOSE"):
                    if envname: vlib.ENV[envname] = "1"
                    res = vlib.run_cases(cs, hpath, None)
                    if envname: vlib.ENV.pop(envname, None)
                    for c in cs:
                        ob = res.get(c.cid)
                        if ob and ob[0].crash and "status=97" in ob[0].crash:
                            found = (c, ob[0], envname + (" in the big-endian configuration (-D__sparc)" if variant == "wrapbe" else "")); break
                    if found: break
                cov["evaluations"] += len(cs)
        if found:
            c, ob, envname = found
            viol.append({"case": c, "fails": ["the library called a function outside its passive interface (%s) on this input%s; call sites: %s" %
                                              (", ".join(forbidden), (" with %s" % envname) if envname else "", json.dumps(paths)[:600])], "diffs": [], "cobs": ob, "mobs": None})
        else:
            corr.append({"case": None, "fails": ["C20 theorems no longer check: " + json.dumps(info)[:1500]], "diffs": []})
    return viol, corr, cov
