"""C13 - write failures are never swallowed."""
from vlib import Case, hx, ALLTYPES, rand_array, obj_line
from checks import sbdfgen as G

LEVEL = "proof"
LEAKS_MATTER = True
RULE = ("one case = one table (or one object / value array / column slice) written to a stream that refuses bytes from offset k on, "
        "for a block of consecutive k; every k in 0..len-1 is covered for every generated table; checked per k: the call in "
        "progress and every later call that needs a byte returns non-OK, the accepted bytes are exactly the first k bytes of the "
        "unrestricted output, nothing crashes, nothing stays allocated; distinct = (table, k)")
TRUSTED = ["L1 model coq/*.v", "fopencookie stream with _IONBF standing for a device that fills up"]
ASSUMES = ["the stream accepts a prefix of a write that does not fit (unbuffered device semantics)"]


def classify_diff(case, diffs):
    return "correspondence"


def table_budget_case(cid, t, ref, ks):
    L, tmh, slices = G.table_script(t)
    nb = len(L)
    blocks = []
    for j, k in enumerate(ks):
        o = 10 + j
        start = len(L) + 1
        L += ["out %d %d" % (o, k), "wfh %d" % o, "wtm %d %d" % (o, tmh)] + ["wts %d %d" % (o, s) for s in slices] + ["wend %d" % o, "bytes %d" % o]
        blocks.append((k, start, len(L)))
    refhex = hx(ref)

    def oracle(c):
        f = []
        for i in range(1, nb + 1):
            v = c.val(i)
            if v is None or v.split(" ")[0] != "0": return ["construction failed at step %d: %s" % (i, v)]
        for (k, start, end) in blocks:
            sts = [c.val(i) for i in range(start + 1, end)]
            b = c.val(end) or ""
            n, _, h = b.partition(" ")
            if h == "-": h = ""
            if h != refhex[:2 * k] and not (k == 0 and h == ""):
                f.append("budget %d: the stream accepted %s bytes that are not the first %d bytes of the output" % (k, n, k))
            if all(s == "0" for s in sts):
                f.append("budget %d of %d: every writing call returned OK although the stream refused data" % (k, len(ref)))
                continue
            # after the first failure every later call that needs at least one byte must fail too
            bad = False
            for s in sts:
                if bad and s == "0": f.append("budget %d: a call after the failing one returned OK" % k); break
                if s != "0": bad = True
            if len(f) > 4: break
        return f[:5]
    return Case(cid, L, oracle=oracle, meta={"evals": len(ks), "dist": {"kind": "table", "len": len(ref) // 200 * 200}})


def small_case(cid, rng, kind):
    """single writer entry points: object (packed / unpacked), value array, column slice"""
    ty = rng.choice(ALLTYPES)
    n = 1 if kind == "wobj" else rng.choice([0, 1, 2, 3, 9, 20])
    elems = rand_array(rng, ty, n)
    if ty in (10, 12) and rng.random() < 0.5 and elems:
        elems[-1] = b""                       # an empty last element: its length prefix is the last thing written
    e = G.Enc()
    L = [obj_line(1, ty, elems)]
    if kind == "wobj":
        e.obj1(ty, elems[0]); wr = "wobj %d 1"
    elif kind == "wobja":
        e.arr(ty, elems); wr = "wobja %d 1"
    else:
        k = rng.choice([G.PLAIN, G.RLE, G.DFLT])
        L.append("va 1 %d 1" % k)
        if kind == "wva":
            e.va(ty, elems, G.canonical_layout(ty, elems, k)); wr = "wva %d 1"
        else:
            L.append("csnew 1 1")
            pty = rng.choice([10, 1, 2]); pel = rand_array(rng, pty, n)
            if pty == 10 and pel: pel[-1] = b""
            L += [obj_line(2, pty, pel), "va 2 -2 2", "csadd 1 70 2"]
            e.sec(4); e.va(ty, elems, G.canonical_layout(ty, elems, k)); e.i32(1); e.string(b"p"); e.va(pty, pel, ("plain",)); wr = "wcs %d 1"
    ref = bytes(e.b)
    nb = len(L)
    blocks = []
    for k in range(len(ref)):
        o = 10 + k
        if o >= 4000: break
        L += ["out %d %d" % (o, k), wr % o, "bytes %d" % o]
        blocks.append((k, len(L) - 1, len(L)))
    refhex = hx(ref)

    def oracle(c):
        f = []
        for (k, ist, ib) in blocks:
            if c.val(ist) == "0":
                f.append("%s with budget %d of %d returned OK although the stream refused data" % (kind, k, len(ref)))
            h = (c.val(ib) or "").partition(" ")[2]
            if h == "-": h = ""
            if h != refhex[:2 * k]: f.append("%s budget %d: accepted bytes are not the first %d bytes of the output" % (kind, k, k))
        return f[:5]
    return Case(cid, L, oracle=oracle, meta={"evals": len(blocks), "dist": {"kind": kind, "type": ty}})


def cases(rng, tier):
    ntab = {"quick": 10, "thorough": 120, "search": 6}[tier]
    idx = 0
    for i in range(ntab):
        t = G.rand_table(rng, ncols=rng.choice([0, 1, 2, 3, 4]), nslices=rng.choice([0, 1, 2]), maxrows=10)
        # make the tail interesting: last column's last metadata value / last property may be an empty string
        if t["cols"] and rng.random() < 0.5:
            t["cols"][-1]["extra"].append((b"Tail", 10, b"", None))
        ref = bytes(G.encode_table(t).b)
        if len(ref) > 3500: continue
        ks = list(range(len(ref)))
        for j in range(0, len(ks), 100):
            idx += 1
            yield table_budget_case("b%d" % idx, t, ref, ks[j:j + 100])
    nsmall = {"quick": 60, "thorough": 1500, "search": 40}[tier]
    for i in range(nsmall):
        idx += 1
        yield small_case("w%d" % idx, rng, rng.choice(["wobj", "wobja", "wva", "wcs"]))


def extra(ctx):
    """the translated byte-level writers cited by the C13 source theorems, run inside Coq under the byte budgets the C functions get (checks/impdiff.py)"""
    import random
    from checks import impdiff
    n = {"quick": 200, "thorough": 2000, "search": 60}.get(ctx["tier"], 200)
    diffs, cov = impdiff.run_writers(ctx, random.Random(ctx["seed"] * 4099 + 5), n)
    corr = [{"case": None, "fails": ["translated writer and compiled function differ: " + d], "diffs": []} for d in diffs[:5]]
    cov = dict(cov); cov["evaluations"] = cov.get("imp_writer_runs", 0)
    return [], corr, cov
