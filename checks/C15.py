"""C15 - equality and ordering helpers agree with content."""
import itertools
from vlib import Case, hx, ALLTYPES, STRING, BINARY, FIXED, rand_array, rand_elem, obj_line, obj_dump

LEVEL = "proof"
RULE = ("object pairs/triples from a pool (all types and counts, equal-length elements that differ, prefixes, empty elements, empty "
        "arrays, copies) compared with sbdf_obj_eq in both orders; all byte strings of length <= 3 over {00,01,41,7f,80,ff} compared "
        "pairwise with sbdf_str_cmp and sbdf_ba_memcmp; create/copy round trips of strings and byte arrays with embedded NULs; "
        "non-trivial = pairs of distinct values; distinct = script hash")
TRUSTED = ["L1 model coq/Obj.v, coq/Base.v (lex_cmp)"]
ASSUMES = ["memcmp orders unsigned bytes"]


def py_cmp(a, b):
    return (a > b) - (a < b)


def cases(rng, tier):
    idx = 0
    # object pools
    npools = {"quick": 40, "thorough": 600, "search": 25}[tier]
    for p in range(npools):
        ty = rng.choice(ALLTYPES)
        pool = []
        base = rand_array(rng, ty, rng.choice([0, 1, 2, 3, 5]), rng.choice(["small", "random"]))
        pool.append((ty, base))
        pool.append((ty, list(base)))                       # equal content, different object
        if base:
            e = bytearray(base[-1])
            if e:
                e[-1] ^= 1; pool.append((ty, base[:-1] + [bytes(e)]))          # last byte of last element differs
                e2 = bytearray(base[0])
                if e2: e2[0] ^= 0x80; pool.append((ty, [bytes(e2)] + base[1:]))
            if ty in (STRING, BINARY):
                pool.append((ty, base[:-1] + [base[-1] + b"\0"]))                # proper prefix
                pool.append((ty, base[:-1] + [base[-1] + b"x"]))
                pool.append((ty, base[:-1] + [base[-1][:-1]]))
                if len(base) >= 2 or rng.random() < 0.5:
                    # element-wise prefixes whose length differences cancel: same total size, same concatenation
                    x = base[0]; t = rng.choice([b"\0", b"\0\0", b"b", rand_elem(rng, BINARY) or b"z"])
                    pool.append((ty, [x + t, x] + base[2:]))
                    pool.append((ty, [x, x + t] + base[2:]))
                    pool.append((ty, [x + t[:1], x] + base[2:]))
            pool.append((ty, base[:-1]))                                         # fewer elements
            pool.append((ty, base + [base[0]]))
        other = STRING if ty == BINARY else BINARY if ty == STRING else rng.choice([t for t in FIXED if FIXED[t] == FIXED.get(ty, 0) and t != ty] or [ty])
        pool.append((other, base if other != ty else list(base)))               # same bytes, different type
        lines = [obj_line(i + 1, t, el) for i, (t, el) in enumerate(pool)]
        n = len(pool)
        lines.append("ocopy %d 1" % (n + 1)); pool.append(pool[0]); n += 1
        pairs = [(i, j) for i in range(n) for j in range(n)]
        dstart = len(lines)
        lines += ["odump %d" % (i + 1) for i in range(n)]     # what create / copy kept: stated lengths, all bytes
        start = len(lines)
        lines += ["oeq %d %d" % (i + 1, j + 1) for (i, j) in pairs]

        def oracle(c, pool=pool, pairs=pairs, start=start, dstart=dstart):
            f = []
            for i, (t, el) in enumerate(pool):
                want = obj_dump(t, el)
                if c.val(dstart + i + 1) != want:
                    f.append("object %d created from %s reads back as %s" % (i + 1, want[:80], (c.val(dstart + i + 1) or "")[:80]))
            for k, (i, j) in enumerate(pairs):
                want = "1" if (pool[i][0] == pool[j][0] and pool[i][1] == pool[j][1]) else "0"
                got = c.val(start + k + 1)
                if got != want:
                    f.append("obj_eq(%s, %s) = %s, content says %s" % ((pool[i][0], [x.hex() for x in pool[i][1]][:4]), (pool[j][0], [x.hex() for x in pool[j][1]][:4]), got, want))
            return f[:4]
        idx += 1
        yield Case("o%d" % idx, lines, oracle=oracle, meta={"evals": len(pairs), "dist": {"kind": "obj_eq", "type": ty}})
    # values that are equal as numbers and differ as bits (signed zeros, NaNs of either sign and payload): equality is by content
    for ty, twins in ((4, ["00000000", "00000080", "0000c07f", "0100c07f", "0000c0ff", "0000803f"]),
                      (5, ["0000000000000000", "0000000000000080", "000000000000f87f", "010000000000f87f", "000000000000f8ff", "000000000000f03f"])):
        pool = [(ty, [bytes.fromhex(x)]) for x in twins] + [(ty, [bytes.fromhex(twins[0]), bytes.fromhex(twins[1])]), (ty, [bytes.fromhex(twins[1]), bytes.fromhex(twins[0])])]
        lines = [obj_line(i + 1, t, el) for i, (t, el) in enumerate(pool)]
        n = len(pool)
        pairs = [(i, j) for i in range(n) for j in range(n)]
        start = len(lines)
        lines += ["oeq %d %d" % (i + 1, j + 1) for (i, j) in pairs]

        def oracle(c, pool=pool, pairs=pairs, start=start):
            f = []
            for k, (i, j) in enumerate(pairs):
                want = "1" if pool[i][1] == pool[j][1] else "0"
                got = c.val(start + k + 1)
                if got != want:
                    f.append("obj_eq(%s, %s) = %s, content says %s" % ((pool[i][0], [x.hex() for x in pool[i][1]]), (pool[j][0], [x.hex() for x in pool[j][1]]), got, want))
            return f[:4]
        idx += 1
        yield Case("ft%d" % idx, lines, oracle=oracle, meta={"evals": len(pairs), "dist": {"kind": "obj_eq", "type": ty, "twins": "float"}})
    # comparison helpers: exhaustive small scope
    alpha = [0, 1, 0x41, 0x7f, 0x80, 0xff]
    maxlen = {"quick": 2, "thorough": 3, "search": 2}[tier]
    strs = [bytes(s) for ln in range(maxlen + 1) for s in itertools.product(alpha, repeat=ln)]
    pairs = [(a, b) for a in strs for b in strs]
    rng.shuffle(pairs)
    if tier == "thorough": pairs = pairs[:60000]
    for k in range(0, len(pairs), 400):
        chunk = pairs[k:k + 400]
        lines = []
        for (a, b) in chunk:
            lines += ["scmp %s %s" % (hx(a), hx(b)), "bcmp %s %s" % (hx(a), hx(b))]

        def oracle(c, chunk=chunk):
            f = []
            for j, (a, b) in enumerate(chunk):
                want = str(py_cmp(a, b))
                if c.val(2 * j + 1) != want: f.append("str_cmp(%s,%s) has sign %s, lexicographic order says %s" % (a.hex(), b.hex(), c.val(2 * j + 1), want))
                if c.val(2 * j + 2) != want: f.append("ba_memcmp(%s,%s) has sign %s, lexicographic order says %s" % (a.hex(), b.hex(), c.val(2 * j + 2), want))
            return f[:4]
        idx += 1
        yield Case("c%d" % idx, lines, oracle=oracle, meta={"evals": 2 * len(chunk), "dist": {"kind": "cmp"}})
    # random long comparisons and create/copy round trips
    nr = {"quick": 300, "thorough": 6000, "search": 200}[tier]
    lines = []; exp = []
    for i in range(nr):
        a = rand_elem(rng, STRING); b = a + rand_elem(rng, STRING) if rng.random() < 0.4 else rand_elem(rng, STRING)
        if rng.random() < 0.2: b = a
        lines.append("scmp %s %s" % (hx(a), hx(b))); exp.append(str(py_cmp(a, b)))
        lines.append("bcmp %s %s" % (hx(b), hx(a))); exp.append(str(py_cmp(b, a)))
        s = rand_elem(rng, BINARY)
        lines.append("strrt %s" % hx(s)); exp.append("%d %s 0 %d %s 0" % (len(s), hx(s), len(s), hx(s)))
        lines.append("bart %s" % hx(s)); exp.append("%d %s" % (len(s), hx(s)))

    def oracle(c):
        f = []
        for i, e in enumerate(exp):
            if c.val(i + 1) != e: f.append("%s gave '%s', expected '%s'" % (lines[i][:60], (c.val(i + 1) or "")[:60], e[:60]))
        return f[:4]
    yield Case("rt", lines, oracle=oracle, meta={"evals": len(lines), "dist": {"kind": "roundtrip"}})
