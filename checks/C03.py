"""C03 - writer emits the canonical SBDF 1.0 byte stream."""
import os, glob
from vlib import Case, hx
from checks import sbdfgen as G
from checks.tablecases import roundtrip_case, shift_handles, parse_session

LEVEL = "proof"
RULE = ("one case = one logical table written by the library; its bytes are compared with the extracted Coq model's bytes (whose "
        "equality with the pure encoder enc_* is a theorem) and with the independent encoder of checks/sbdfgen.py; every third case "
        "is built and written twice with unrelated heap/API activity in between (history independence); the 66 sample files are "
        "re-generated: read, re-written, compared byte for byte; non-trivial = at least one column or a sample file")
TRUSTED = ["L1 model coq/*.v", "checks/sbdfgen.py reference encoder (validated against the sample files through the library's reader)"]
ASSUMES = ["the 66 Spotfire-produced sample files stand for what Spotfire accepts"]


def classify_diff(case, diffs):
    # a difference in the bytes written is a violation of this property, not only of the tie
    return "violation" if any(d[1] in ("bytes", "session") for d in diffs) else "correspondence"


def cases(rng, tier):
    n = {"quick": 200, "thorough": 5000, "search": 250}[tier]
    for i in range(n):
        t = G.rand_table(rng, maxrows={"quick": 60, "thorough": 400, "search": 40}[tier])
        if i % 3:
            yield roundtrip_case("t%d" % i, t, rng)
            continue
        L, tmh, slices = G.table_script(t)
        W = G.write_script(tmh, slices)
        first = L + W
        second = shift_handles(first, 1500)
        lines = first + ["noise %d" % rng.randint(1, 1 << 30)] + second
        i1, i2 = len(first), len(lines)
        ref = hx(bytes(G.encode_table(t).b))

        def oracle(c, i1=i1, i2=i2, ref=ref):
            a, b = c.val(i1), c.val(i2)
            f = []
            if a is None or b is None or a != b:
                f.append("the same table written twice (with unrelated activity in between) gave different bytes")
            if a is not None and a.partition(" ")[2] != ref:
                f.append("bytes differ from the reference encoder")
            return f
        yield Case("h%d" % i, lines, oracle=oracle, meta={"dist": {"kind": "history"}})
        if t["slices"] and t["cols"]:
            # an allocation failure while the table is built is part of the history too: whenever every call still
            # reports success, what is written must be the canonical stream of the table that was asked for
            vas = [j for j, l in enumerate(first) if l.startswith("va ")]
            for j in rng.sample(vas, min(len(vas), 3)):
                k = rng.choice([1, 2, 3, 4, 6, 9])
                fl = ["strict"] + first[:j] + ["allocfail %d" % k] + first[j:] + ["epilogue"]
                nfl = len(fl)

                def oracle_f(c, nfl=nfl, ref=ref, k=k, what=first[j]):
                    b = None
                    for ln in range(2, nfl):
                        if ln not in c.lines: return []                      # the script stopped at a failing call
                        op_, pay_ = c.lines[ln]
                        if op_ == "bytes": b = pay_; continue
                        if op_ == "allocfail": continue
                        if pay_.split(" ")[0] not in ("0", ""): return []   # a call reported the failure
                    if b is not None and b.partition(" ")[2] != ref:
                        return ["allocation %d after '%s' began failed, every call reported success, and the bytes written are not the canonical stream of the requested table" % (k, what[:40])]
                    return []
                yield Case("a%d/%d.%d" % (i, j, k), fl, oracle=oracle_f, compare=False, meta={"dist": {"kind": "alloc-failure-history"}})
    # the sample files: the reader's view re-written must reproduce the file
    files = sorted(glob.glob(os.path.join(os.environ.get("SBDF_REPO", "/repo"), "tests", "samples", "*.sbdf")))
    limit = {"quick": 200000, "thorough": 2000000, "search": 0}[tier]
    for p in files:
        data = open(p, "rb").read()
        if len(data) > limit:
            continue
        L = ["in 1 %s" % hx(data), "session 1 *"]

        def oracle(c, data=data, p=p):
            d = parse_session(c.val(2))
            if d["fh"] != 0 or d["tm"] != 0 or d["end"] != -1000:
                return ["sample %s does not read: fh=%s tm=%s end=%s" % (os.path.basename(p), d["fh"], d["tm"], d["end"])]
            if d["rw"] is None or d["rw"][0] != 0 or d["rw"][1] != hx(data):
                return ["sample %s is not reproduced byte for byte when re-written" % os.path.basename(p)]
            return []
        yield Case("sample/" + os.path.basename(p), L, oracle=oracle, meta={"dist": {"kind": "sample"}})
