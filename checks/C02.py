"""C02 - every value-array encoding is lossless and reports the right row count."""
import itertools
from vlib import Case, FIXED, ALLTYPES, STRING, BINARY, BOOL, rand_array, rand_elem, obj_line, obj_dump, hx

LEVEL = "proof"
RULE = ("one case = one or more (type, array, encoding) triples built through sbdf_obj_create_arr / sbdf_va_create*, "
        "decoded, written, read back and decoded again; non-trivial = the array is non-empty or the case is an "
        "unknown-encoding refusal; distinct = script hash")
TRUSTED = ["L1 model coq/Va.v, coq/Obj.v (hand-written, tied by correspondence)"]
ASSUMES = ["allocation never fails (cap = None in the theorems)", "element counts and byte sizes below 2^31"]

ENC = {-2: "plain", -3: "rle", -4: "bit", -1: "dflt", 1: "plain", 2: "rle", 3: "bit"}


def nonzero(ty, e):
    return True if ty in (STRING, BINARY) else any(b != 0 for b in e)


def expected_decode(ty, elems, k):
    kind = ENC[k]
    if kind == "bit" or (kind == "dflt" and ty == BOOL):
        return obj_dump(BOOL, [b"\x01" if nonzero(ty, e) else b"\x00" for e in elems])
    return obj_dump(ty, elems)


def block(base, ty, elems, k, trailing=b"", piped=False):
    """script lines (using handles base..base+2) and an oracle over case-local line numbers"""
    o1, o2, o3, v1, v2, s = base, base + 1, base + 2, base, base + 1, base
    L = [obj_line(o1, ty, elems),
         "va %d %d %d" % (v1, k, o1),
         "varows %d" % v1,
         "vaget %d %d" % (o2, v1),
         "odump %d" % o2,
         "vadump %d" % v1,
         "out %d" % s,
         "wva %d %d" % (s, v1),
         ("%sinapp %d %d %s" % ("p" if piped else "", s, s, hx(trailing))) if trailing else "%sinw %d %d" % ("p" if piped else "", s, s),
         "rva %d %d" % (s, v2),
         "vadump %d" % v2,
         "varows %d" % v2,
         "vaget %d %d" % (o3, v2),
         "odump %d" % o3,
         "pos %d" % s,
         "bytes %d" % s]
    exp = expected_decode(ty, elems, k)
    n = len(elems)

    def oracle(c, off):
        f = []
        g = lambda i: c.val(off + i)
        if g(1) != "0": return ["va_create(%s) failed with %s" % (ENC[k], g(1))]
        if g(2) != str(n): f.append("row count %s, expected %d" % (g(2), n))
        if g(3) != "0" or g(4) != exp: f.append("decoded values differ from the original: got %s %s expected %s" % (g(3), (g(4) or "")[:120], exp[:120]))
        if g(7) != "0": f.append("va_write failed: %s" % g(7))
        if g(9) != "0": f.append("va_read of the written array failed: %s" % g(9))
        if g(10) != g(5): f.append("array read back differs from the one written")
        if g(11) != str(n): f.append("row count after read %s, expected %d" % (g(11), n))
        if g(12) != "0" or g(13) != exp: f.append("values decoded after write/read differ from the original")
        wl = (g(15) or "0 ").split(" ")[0]
        if g(14) != wl: f.append("read ended at %s, the writer produced %s bytes" % (g(14), wl))
        return f
    return L, oracle


def make_case(cid, blocks, meta):
    lines, oracles = [], []
    for (ty, elems, k, trailing) in blocks:
        off = len(lines) + 1
        L, orc = block(1 + 3 * len(oracles), ty, elems, k, trailing, piped=meta.get("dist", {}).get("piped", False))
        lines += L; oracles.append((orc, off))

    def oracle(c):
        out = []
        for orc, off in oracles:
            out += orc(c, off)
        return out
    nontriv = any(len(b[1]) > 0 for b in blocks)
    return Case(cid, lines, oracle=oracle, nontrivial=nontriv, meta=meta)


def refusal_case(cid, k, ty, elems):
    lines = [obj_line(1, ty, elems), "va 1 %d 1" % k, "in 1 %02x%02x0000000000000000" % (k & 255, ty), "rva 1 2", "skva 1"]

    def oracle(c):
        f = []
        if c.val(2) != "-5": f.append("unknown encoding %d accepted by va_create: %s" % (k, c.val(2)))
        if c.ann.get(2) != "out=null": f.append("va_create(%d) left its out-argument %s" % (k, c.ann.get(2)))
        if c.val(4) != "-5": f.append("unknown encoding %d accepted by va_read: %s" % (k & 255, c.val(4)))
        if c.ann.get(4) != "out=null": f.append("va_read left its out-argument %s" % c.ann.get(4))
        return f
    return Case(cid, lines, oracle=oracle, meta={"dist": {"kind": "refusal"}})


def cases(rng, tier):
    n_random = {"quick": 500, "thorough": 12000, "search": 800}[tier]
    idx = 0
    # boundary shapes first
    sizes = [0, 1, 2, 7, 8, 9, 15, 16, 17, 255, 256, 257, 511, 512, 513, 600]
    for ty in ALLTYPES + [254]:
        for k in (-2, -3, -4, -1, 2):
            n = rng.choice(sizes); style = rng.choice(["runs", "equal", "alt", "random", "small"])
            elems = rand_array(rng, ty if ty != 254 else 254, n, style) if ty != 254 else [bytes([rng.choice([0, 1, 255])]) for _ in range(n)]
            idx += 1
            yield make_case("b%d" % idx, [(ty, elems, k, rng.choice([b"", b"\xaa\xbb", b"\x02\x02"]))],
                            {"dist": {"type": ty, "enc": ENC[k], "len": n, "style": style, "piped": idx % 3 == 0}})   # every third array is read back from a stream that cannot seek
    for n in sizes:
        for k in (-3, -4, -2):
            ty = rng.choice(ALLTYPES)
            elems = rand_array(rng, ty, n, "equal" if n in (255, 256, 257, 512, 513) else None)
            idx += 1
            yield make_case("s%d" % idx, [(ty, elems, k, b"")], {"dist": {"type": ty, "enc": ENC[k], "len": n}})
    # the quantifier text: prefix-sharing strings, embedded NULs, +-0.0, NaN payloads
    specials = [
        (STRING, [b"ab", b"abc", b"ab", b"ab\0", b"ab\0", b"a"]), (BINARY, [b"a\0b", b"a\0b", b"a\0c", b"", b""]),
        (STRING, [b"", b"", b"\0", b""]),
        (5, [bytes(8), bytes(7) + b"\x80", bytes(8), bytes(8)]),
        (5, [bytes.fromhex("010000000000f87f"), bytes.fromhex("020000000000f87f"), bytes.fromhex("020000000000f87f")]),
        (4, [bytes.fromhex("0000c07f"), bytes.fromhex("0100c07f"), bytes.fromhex("00000080"), bytes(4)]),
        (13, [bytes(16), bytes(15) + b"\x01", bytes(16)]),
        (BOOL, [b"\x02", b"\x00", b"\xff", b"\x01", b"\x00", b"\x00", b"\x00", b"\x80", b"\x01"]),
    ]
    for ty, elems in specials:
        for k in (-2, -3, -4, -1):
            idx += 1
            yield make_case("q%d" % idx, [(ty, elems, k, b"")], {"dist": {"type": ty, "enc": ENC[k], "len": len(elems), "style": "special"}})
    # refusals
    for k in (0, 4, 5, 9, 100, 255, 256):
        idx += 1
        yield refusal_case("r%d" % idx, k, rng.choice(ALLTYPES), [])
    # exhaustive small scopes: all arrays of length <= L over a 3-symbol alphabet, every encoding
    L = {"quick": 5, "thorough": 7, "search": 4}[tier]
    reps = {"quick": [INT_, STRING, BOOL, 13], "thorough": ALLTYPES, "search": [rng.choice(ALLTYPES)]}[tier]
    for ty in reps:
        alpha = {STRING: [b"a", b"ab", b""], BINARY: [b"\0", b"\0\0", b"a"], BOOL: [b"\0", b"\1", b"\2"]}.get(ty)
        if alpha is None:
            sz = FIXED[ty]; alpha = [bytes(sz), bytes([1]) + bytes(sz - 1), bytes(sz - 1) + bytes([128])]
        pend = []
        for ln in range(L + 1):
            for combo in itertools.product(alpha, repeat=ln):
                for k in (-2, -3, -4):
                    pend.append((ty, list(combo), k, b""))
                    if len(pend) == 24:
                        idx += 1; yield make_case("x%d" % idx, pend, {"dist": {"type": ty, "kind": "exhaustive"}}); pend = []
        if pend:
            idx += 1; yield make_case("x%d" % idx, pend, {"dist": {"type": ty, "kind": "exhaustive"}})
    # random
    for _ in range(n_random):
        ty = rng.choice(ALLTYPES); k = rng.choice([-2, -3, -4, -1, 1, 2, 3])
        n = rng.choice([rng.randint(0, 20), rng.randint(0, 20), rng.randint(21, 300), rng.choice(sizes)])
        if ty in (STRING, BINARY) and n > 300: n = 300
        style = rng.choice(["runs", "equal", "alt", "random", "small"])
        elems = rand_array(rng, ty, n, style)
        idx += 1
        yield make_case("g%d" % idx, [(ty, elems, k, rng.choice([b"", b"", b"\x01\x02\x03"]))],
                        {"dist": {"type": ty, "enc": ENC[k], "lenbucket": min(n, 600) // 100 * 100, "style": style}})


INT_ = 2
