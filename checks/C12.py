"""C12 - inputs are copied, outputs are independent, everything is released exactly once."""
from vlib import Case, hx, ALLTYPES, STRING, BINARY, BOOL, rand_array, rand_elem, obj_line, name_hex
from checks import sbdfgen as G

LEVEL = "proof"
LEAKS_MATTER = True
RULE = ("one case = one history over objects, value arrays, metadata, table metadata, column and table slices (caller-built and "
        "reader-built): construct, overwrite the bytes of the source ('scribble'), release the source, read a getter's result, "
        "overwrite and release it, failed operations in between, and finally release every handle once; after every step the "
        "containers are dumped: any change shows as a difference from the model (whose values are immutable), any invalid access "
        "or double free is an ASan report, any block left is counted by the allocator ledger; distinct = script hash")
TRUSTED = ["L2 ledger model coq/Mem.v for objects and plain value arrays (tied by allocation and live-block counts per call)", "L1 model coq/*.v (immutable values: a copy cannot be affected by its source)", "ASan + the harness's allocator ledger"]
ASSUMES = ["borrowed value arrays / column slices outlive the slices that reference them (the documented contract)"]


def classify_diff(case, diffs):
    return "violation"


def t_values(rng, L, h):
    ty = rng.choice(ALLTYPES); n = rng.choice([0, 1, 3, 9, 20])
    k = rng.choice([-1, -2, -3, -4])
    o, v, g = h, h, h + 1
    L += [obj_line(o, ty, rand_array(rng, ty, n)), "va %d %d %d" % (v, k, o), "vadump %d" % v, "scribble %d" % o, "vadump %d" % v]
    if rng.random() < 0.7: L += ["odel %d" % o, "vadump %d" % v]
    L += ["vaget %d %d" % (g, v), "odump %d" % g, "scribble %d" % g, "vadump %d" % v, "vaget %d %d" % (g + 1, v), "odump %d" % (g + 1)]
    if rng.random() < 0.5: L += ["odel %d" % g]
    if rng.random() < 0.5: L += ["vadel %d" % v, "odump %d" % (g + 1)]
    return h + 4


def t_metadata(rng, L, h):
    ty = rng.choice(ALLTYPES)
    v, d, m, g, t = h, h + 1, h, h + 2, h
    L += [obj_line(v, ty, [rand_elem(rng, ty)]), obj_line(d, ty, [rand_elem(rng, ty)]), "mdnew %d" % m,
          "mdadd %d %s %d %s" % (m, name_hex(b"k1"), v, rng.choice([str(d), "~"])), "mdaddstr %d %s 76616c %s" % (m, name_hex(b"k2"), rng.choice(["~", "64"])),
          "mddump %d" % m, "scribble %d" % v, "scribble %d" % d, "mddump %d" % m, "odel %d" % v, "odel %d" % d, "mddump %d" % m,
          "mdget %d %d %s" % (g, m, name_hex(b"k1")), "scribble %d" % g, "mddump %d" % m, "mddflt %d %d %s" % (g + 1, m, name_hex(b"k1")),
          "mdget %d %d %s" % (g + 2, m, name_hex(b"k1")), "odump %d" % (g + 2),
          "mdadd %d %s %d ~" % (m, name_hex(b"k1"), g + 2),          # duplicate: rejected
          "tmnew %d %d" % (t, m), "tmdump %d" % t, "mdrm %d %s" % (m, name_hex(b"k2")), "mdaddint %d %s 1 2" % (m, name_hex(b"k3")), "tmdump %d" % t]
    m2 = h + 1
    L += ["mdnew %d" % m2, "cmset %d %s %d" % (m2, name_hex(b"col"), ty), "tmadd %d %d" % (t, m2), "tmdump %d" % t, "cmname %d" % m2, "cmtype %d" % m2,
          "mdaddint %d %s 3 4" % (m2, name_hex(b"later")), "tmdump %d" % t]
    if rng.random() < 0.5: L += ["mddel %d" % m, "mddel %d" % m2, "tmdump %d" % t]
    L += ["tmmd %d %d 0" % (h + 5, t), "mdcopy %d %d" % (h + 5, h + 5), "mddump %d" % (h + 5)]
    if rng.random() < 0.5: L += ["tmdel %d" % t]
    return h + 8


def t_frozen_add(rng, L, h):
    """column addition copies its input also when the input is already immutable (frozen by the caller, or a head
    that lives inside another table metadata): releasing the input afterwards must not touch the result"""
    ty = rng.choice(ALLTYPES)
    m, tmd, t, t2, al = h, h + 1, h, h + 1, h + 2
    L += ["mdnew %d" % m, "cmset %d %s %d" % (m, name_hex(b"frozen"), ty), "mdaddint %d %s 1 2" % (m, name_hex(b"x")), "mdfreeze %d" % m,
          "mdnew %d" % tmd, "mdaddstr %d %s 76 ~" % (tmd, name_hex(b"t")), "tmnew %d %d" % (t, tmd),
          "tmadd %d %d" % (t, m), "tmdump %d" % t, "mddel %d" % m, "tmdump %d" % t,
          "tmmd %d %d 0" % (al, t), "cmname %d" % al, "mddump %d" % al,
          "tmnew %d %d" % (t2, tmd), "tmadd %d %d" % (t2, al), "tmdump %d" % t2]
    if rng.random() < 0.7:
        L += ["tmdel %d" % t, "tmdump %d" % t2, "tmmd %d %d 0" % (al + 1, t2), "cmname %d" % (al + 1), "cmtype %d" % (al + 1)]
    if rng.random() < 0.5: L += ["tmdel %d" % t2]
    return h + 5


def t_slices(rng, L, h):
    """caller-built slices do not own their arrays; reader-built ones do"""
    ty = rng.choice(ALLTYPES); rows = rng.choice([0, 1, 4, 9])
    L += [obj_line(h, ty, rand_array(rng, ty, rows)), "va %d %d %d" % (h, rng.choice([-1, -2, -3]), h),
          obj_line(h + 1, BOOL, rand_array(rng, BOOL, rows)), "va %d -1 %d" % (h + 1, h + 1),
          obj_line(h + 2, STRING, rand_array(rng, STRING, rows + 1)), "va %d -2 %d" % (h + 2, h + 2),
          "csnew %d %d" % (h, h), "csadd %d %s %d" % (h, name_hex(b"IsInvalid"), h + 1),
          "csadd %d %s %d" % (h, name_hex(b"bad"), h + 2),                # row count mismatch: rejected, array stays with the caller
          "csadd %d %s %d" % (h, name_hex(b"IsInvalid"), h + 1),          # duplicate: rejected
          "csdump %d" % h, "vadump %d" % (h + 2),
          "mdnew %d" % h, "tmnew %d %d" % (h, h), "mdnew %d" % (h + 1), "cmset %d 63 %d" % (h + 1, ty), "tmadd %d %d" % (h, h + 1),
          "tsnew %d %d" % (h, h), "tsadd %d %d" % (h, h), "tsdump %d" % h,
          "out %d" % h, "wfh %d" % h, "wtm %d %d" % (h, h), "wts %d %d" % (h, h), "wend %d" % h,
          "inw %d %d" % (h, h), "rfh %d" % h, "rtm %d %d" % (h, h + 1), "rts %d %d %d" % (h, h + 1, h + 1), "tsdump %d" % (h + 1)]
    # release in one of several legal orders
    order = rng.choice(["slice-first", "arrays-last", "reader-only"])
    if order == "slice-first":
        L += ["tsdel %d" % h, "csdump %d" % h, "csdel %d" % h, "vadump %d" % h, "vadump %d" % (h + 1), "vadel %d" % h, "vadel %d" % (h + 1), "vadel %d" % (h + 2)]
    elif order == "arrays-last":
        L += ["csdel %d" % h, "tsdel %d" % h, "vadump %d" % h]
    # the reader-built slice owns everything it references
    L += ["tscol %d %d 0" % (h + 3, h + 1), "csvals %d %d" % (h + 3, h + 3), "vaget %d %d" % (h + 3, h + 3), "scribble %d" % (h + 3), "tsdump %d" % (h + 1),
          "csget %d %d %s" % (h + 4, h + 3, name_hex(b"IsInvalid"))]
    if rng.random() < 0.5:
        # a caller-built column slice appended to the reader-built (owning) table slice: the slice takes the column-slice
        # struct with it, the caller's value arrays stay the caller's
        L += [obj_line(h + 5, ty, rand_array(rng, ty, rows)), "va %d %d %d" % (h + 5, rng.choice([-1, -2, -3]), h + 5),
              obj_line(h + 6, BOOL, rand_array(rng, BOOL, rows)), "va %d -1 %d" % (h + 6, h + 6),
              "csnew %d %d" % (h + 5, h + 5), "csadd %d %s %d" % (h + 5, name_hex(b"IsInvalid"), h + 6),
              "tsadd %d %d" % (h + 1, h + 5), "tsdump %d" % (h + 1), "tsdel %d" % (h + 1), "csforget %d" % (h + 5),
              "vadump %d" % (h + 5), "vadump %d" % (h + 6), "vadel %d" % (h + 5), "vadel %d" % (h + 6)]
    elif rng.random() < 0.7: L += ["tsdel %d" % (h + 1)]
    # a failed read leaves nothing behind
    L += ["intrunc %d %d %d" % (h + 1, h, rng.randint(20, 60)), "session %d *" % (h + 1)]
    return h + 8


def t_failed_read(rng, L, h):
    """a read that fails part-way through a slice must release the columns it had already read"""
    t = G.rand_table(rng, ncols=rng.choice([2, 3, 4]), nslices=rng.choice([1, 2]), maxrows=6)
    e = G.encode_table(t)
    data = bytes(e.b)
    first_slice = [f for f in e.fields if f[0] == "slicecols"][0][1]
    for _ in range(3):
        n = rng.randint(first_slice, len(data) - 1)
        L += ["in %d %s" % (h, hx(data[:n])), "session %d %s" % (h, rng.choice(["*", "*", "".join(rng.choice("01") for _ in t["cols"])]))]
        h += 1
    return h


def ledger_case(cid, rng, with_failures):
    """objects and plain value arrays under the L2 ledger model (coq/Mem.v): statuses, allocation
    attempts and live-block counts of every call are compared with the model's"""
    L = ["ledger"]
    objs, vas = [], []
    plain = set()
    nh = [0]
    def h():
        nh[0] += 1; return nh[0]
    for _ in range(rng.choice([4, 8, 15, 30])):
        k = rng.random()
        if with_failures and rng.random() < 0.35:
            L.append("allocfail %d" % rng.choice([0, 0, 1, 2, 3, 5, 8]))
        if k < 0.3 or not objs:
            ty = rng.choice(ALLTYPES); n = rng.choice([0, 1, 2, 5, 9]); o = h()
            L.append(obj_line(o, ty, rand_array(rng, ty, n))); objs.append(o)
        elif k < 0.45:
            o = h(); L.append("ocopy %d %d" % (o, rng.choice(objs))); objs.append(o)
        elif k < 0.65:
            v = h(); enc = rng.choice([-2, -2, -4])          # plain, or bit-packed (both are in the ledger model)
            L.append("va %d %d %d" % (v, enc, rng.choice(objs))); vas.append(v)
            if enc == -2: plain.add(v)
        elif k < 0.8 and [x for x in vas if x in plain]:
            o = h(); L.append("vaget %d %d" % (o, rng.choice([x for x in vas if x in plain]))); objs.append(o)
        elif k < 0.9 and len(objs) > 1:
            o = objs.pop(rng.randrange(len(objs))); L.append("odel %d" % o)
        elif vas:
            v = vas.pop(rng.randrange(len(vas))); L.append("vadel %d" % v)
        L += ["nallocs", "nlive"]
    for o in objs: L.append("odel %d" % o)
    for v in vas: L.append("vadel %d" % v)
    L.append("nlive")
    n = len(L)

    def oracle(c):
        return [] if c.val(n) == "0" else ["%s block(s) left after every object and array was destroyed once" % c.val(n)]
    return Case(cid, L, oracle=oracle, meta={"dist": {"kind": "ledger", "failures": with_failures}})


def failed_constructor_cases(rng, tier):
    """a value-array constructor that fails at its k-th allocation frees nothing twice and keeps nothing: every k, every
    encoding, string / binary / fixed-size elements (the sanitizer and the allocator ledger are the oracle)"""
    reps = {"quick": 1, "thorough": 6, "search": 1}[tier]
    for rep in range(reps):
        for ty in (STRING, BINARY, 2, BOOL):
            n = rng.choice([1, 2, 4, 7])
            elems = rand_array(rng, ty, n, "runs" if rep % 2 else "random")
            for enc in (-2, -3, -4):
                for k in range(1, 26 if ty in (STRING, BINARY) else 9):
                    L = [obj_line(1, ty, elems), "allocfail %d" % k, "va 2 %d 1" % enc, "odump 1", "vadump 2", "vaget 3 2", "odump 3"]
                    yield Case("fc-%d-%d-%d-%d" % (rep, ty, enc, k), L, compare=False, meta={"dist": {"kind": "failed-constructor", "enc": enc}})


def absent_element_cases(rng, tier):
    """an element pointer that is null: whatever the constructor answers, the object it hands out (if any) must be
    copyable, comparable, writable and released completely by one destroy (sanitizer + allocator ledger decide)"""
    idx = 0
    for ty in (STRING, BINARY):
        for op in (("obj", "objs") if ty == STRING else ("obj",)):
            for n, pos in ((1, 0), (2, 0), (3, 1), (3, 2), (4, 1)):
                elems = rand_array(rng, ty, n, "random")
                toks = [hx(e) for e in elems]; toks[pos] = "~"
                L = ["%s 1 %d %d %s" % (op, ty, n, " ".join(toks)), "ocopy 2 1", "oeq 1 2", "va 3 -2 1", "vaget 4 3", "out 1", "wobja 1 1",
                     "odel 4", "vadel 3", "odel 2", "odel 1"]

                def oracle(c):
                    v = (c.val(1) or "").split(" ")
                    if v[0] == "0":
                        # accepted: then everything downstream has to cope (crashes and leaks are reported by the engine)
                        if c.val(2) != "0": return ["an object with an absent element was created but cannot be copied (status %s)" % c.val(2)]
                        if c.val(3) != "1": return ["an object with an absent element differs from its copy"]
                    elif len(v) > 1 and v[1] != "null":
                        return ["the constructor refused an absent element but left something in its output argument"]
                    return []
                idx += 1
                yield Case("ae%d" % idx, L, oracle=oracle, compare=False, meta={"dist": {"kind": "absent-element", "type": ty}})


def failed_metadata_read_cases(rng, tier):
    """a read of the metadata section that fails anywhere - at every cut position, and at every presence flag set to 2 - must
    release what it had built exactly once (entries with and without values and defaults, of string, int and binary type)"""
    reps = {"quick": 2, "thorough": 12, "search": 1}[tier]
    idx = 0
    for rep in range(reps):
        tys = [STRING, 2, BINARY] if rep == 0 else [rng.choice(ALLTYPES) for _ in range(3)]
        tmeta = []
        for j, ty in enumerate(tys):
            tmeta.append((b"entry%d" % j, ty, rand_elem(rng, ty), rand_elem(rng, ty) if j != 1 else None))
        tmeta.append((b"novalue", rng.choice(ALLTYPES), None, None))
        t = G.rand_table(rng, ncols=2, nslices=1, maxrows=3)
        t["tmeta"] = tmeta
        e = G.encode_table(t)
        data = bytes(e.b)
        first_slice = [f for f in e.fields if f[0] == "slicecols"][0][1]
        end = max(first_slice - 4, 6)
        cuts = list(range(5, end))
        for lo in range(0, len(cuts), 12):
            L = []; h = 1
            for n in cuts[lo:lo + 12]:
                L += ["in %d %s" % (h, hx(data[:n])), "session %d *" % h]; h += 1
            idx += 1
            yield Case("fm%d" % idx, L, compare=False, meta={"dist": {"kind": "failed-metadata-read", "what": "cut"}})
        flags = [f for f in e.fields if f[0] in ("tflag", "dflag", "cflag")]
        for lo in range(0, len(flags), 8):
            L = []; h = 1
            for (fk, off, fw, note) in flags[lo:lo + 8]:
                b = bytearray(data); b[off] = 2
                L += ["in %d %s" % (h, hx(bytes(b))), "session %d *" % h]; h += 1
            idx += 1
            yield Case("fm%d" % idx, L, compare=False, meta={"dist": {"kind": "failed-metadata-read", "what": "flag"}})


def cases(rng, tier):
    yield from failed_constructor_cases(rng, tier)
    yield from absent_element_cases(rng, tier)
    yield from failed_metadata_read_cases(rng, tier)
    n = {"quick": 300, "thorough": 6000, "search": 200}[tier]
    for i in range(n // 3):
        yield ledger_case("l%d" % i, rng, False)
    for i in range(n):
        L = []; h = 1
        for _ in range(rng.choice([1, 2, 3])):
            h = rng.choice([t_values, t_metadata, t_slices, t_failed_read, t_frozen_add])(rng, L, h)
        yield Case("h%d" % i, L, meta={"dist": {"steps": len(L) // 20 * 20}})
