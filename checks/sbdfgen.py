"""sbdfgen.py - logical tables, API scripts that build them, and an independent SBDF 1.0 encoder
(written from the grammar in DESIGN.md section 1, not from the C writer) with a field map.
The encoder serves as input generator (foreign layouts, corruptions) and as a second reference for
the writer's bytes; the Coq-side reference is the pure encoder enc_* of the *Facts.v files."""
import struct
from vlib import ALLTYPES, STRING, BINARY, BOOL, INT, FIXED, rand_elem, rand_array, obj_line, obj_dump, hx, name_hex

PLAIN, RLE, BIT, DFLT = -2, -3, -4, -1
ENCNAME = {PLAIN: "plain", RLE: "rle", BIT: "bit", DFLT: "dflt"}


def nonzero(ty, e):
    return True if ty in (STRING, BINARY) else any(b != 0 for b in e)


def eff_enc(ty, k):
    if k == DFLT:
        return BIT if ty == BOOL else PLAIN
    return k


def decoded(ty, elems, k):
    """(type, elems) that va_get_values delivers"""
    if eff_enc(ty, k) == BIT:
        return BOOL, [b"\x01" if nonzero(ty, e) else b"\x00" for e in elems]
    return ty, list(elems)


# ----------------------------------------------------------------------------- random logical tables
NAMES = [b"Alpha", b"Beta", b"Gamma", b"Unit", b"x", b"Description", b"K\xc3\xa9y", b"n" * 40, b"Format", b"Z9",
         b"unit", b"UNIT", b"X", b"alpha", b"Unit "]        # names that differ only in case or by a trailing blank are different names


def rand_md_value(rng, ty):
    return rand_elem(rng, ty)


def rand_table(rng, ncols=None, nslices=None, maxrows=40, conflict=False, types=None):
    ncols = rng.choice([0, 1, 1, 2, 3, 4, 6]) if ncols is None else ncols
    nslices = rng.choice([0, 1, 1, 2, 3]) if nslices is None else nslices
    t = {"tmeta": [], "cols": [], "slices": []}
    for nm in rng.sample(NAMES, rng.choice([0, 1, 2, 3])):
        ty = rng.choice(ALLTYPES)
        t["tmeta"].append((nm, ty, rand_md_value(rng, ty), rand_md_value(rng, ty) if rng.random() < 0.4 else None))
    shared = {}   # extra column metadata name -> (type, default) so that columns agree
    for c in range(ncols):
        ty = rng.choice(types or ALLTYPES)
        col = {"name": b"col%d" % c if rng.random() < 0.8 else rng.choice([b"", b"a b", b"\xe9t\xe9"]), "ty": ty, "extra": []}
        for nm in rng.sample(NAMES, rng.choice([0, 0, 1, 2, 3])):
            if nm not in shared:
                ety = rng.choice(ALLTYPES)
                shared[nm] = (ety, rand_md_value(rng, ety) if rng.random() < 0.5 else None)
            ety, dflt = shared[nm]
            col["extra"].append((nm, ety, rand_md_value(rng, ety), dflt))
        rng.shuffle(col["extra"])
        t["cols"].append(col)
    if conflict and ncols >= 2:
        # same name in two columns with a different type or a different default
        nm = b"Clash"
        ety = rng.choice(ALLTYPES)
        kind = rng.choice(["type", "dflt", "dflt-none", "dflt-len"])
        a, b = rng.sample(range(ncols), 2)
        d1 = rand_md_value(rng, ety)
        if kind == "type":
            ety2 = rng.choice([x for x in ALLTYPES if x != ety]); e2 = (nm, ety2, rand_md_value(rng, ety2), None); d1 = None
        elif kind == "dflt":
            d2 = bytes([d1[0] ^ 1]) + d1[1:] if d1 else b"x"
            e2 = (nm, ety, rand_md_value(rng, ety), d2)
        elif kind == "dflt-none":
            e2 = (nm, ety, rand_md_value(rng, ety), None)
        else:
            ety = STRING; d1 = b"abc"; e2 = (nm, ety, b"v", b"abd" if rng.random() < 0.5 else b"abcd")
        t["cols"][a]["extra"].append((nm, ety, rand_md_value(rng, ety), d1))
        t["cols"][b]["extra"].append(e2)
        t["conflict"] = kind
    for s in range(nslices):
        rows = rng.choice([0, 1, 2, 7, 8, 9, rng.randint(0, maxrows), rng.randint(0, maxrows)])
        sl = []
        for c in range(ncols):
            ty = t["cols"][c]["ty"]
            k = rng.choice([PLAIN, RLE, DFLT, DFLT, BIT if ty == BOOL else RLE])
            col = {"vals": rand_array(rng, ty, rows), "enc": k, "props": []}
            for pn in rng.sample([b"IsInvalid", b"ErrorCode", b"HasReplacedValue", b"p", b""], rng.choice([0, 0, 1, 2])):
                pty = BOOL if pn in (b"IsInvalid", b"HasReplacedValue") else rng.choice([STRING, INT, BINARY, 5])
                pk = rng.choice([PLAIN, RLE, DFLT, BIT if pty == BOOL else DFLT])
                col["props"].append((pn, pty, rand_array(rng, pty, rows), pk))
            sl.append(col)
        t["slices"].append(sl)
    return t


def big_table(rng, tys, rows):
    """one slice of plain fixed-size columns whose payloads exceed 64 KiB / 65536 values (distinct values: a piece
    that lands at the wrong offset or is converted twice cannot go unnoticed)"""
    t = {"tmeta": [], "cols": [], "slices": []}
    sl = []
    for c, ty in enumerate(tys):
        t["cols"].append({"name": b"big%d" % c, "ty": ty, "extra": []})
        w = FIXED[ty]
        vals = [((i * 2654435761 + c * 97 + 12345) % (1 << (8 * w))).to_bytes(w, "little") for i in range(rows)]
        if ty == BOOL: vals = [bytes([v[0] & 1]) for v in vals]
        sl.append({"vals": vals, "enc": PLAIN, "props": []})
    t["slices"].append(sl)
    return t


def table_script(t, tmh=1):
    """API script that builds the table: returns (lines, table-metadata handle, [slice handles])."""
    L = []
    nobj = [100]; nva = [100]; nmd = [10]; ncs = [10]

    def new(counter):
        counter[0] += 1
        return counter[0]
    L.append("mdnew 1")
    for (nm, ty, val, dflt) in t["tmeta"]:
        o = new(nobj); L.append(obj_line(o, ty, [val]))
        d = "~"
        if dflt is not None:
            d = new(nobj); L.append(obj_line(d, ty, [dflt]))
        L.append("mdadd 1 %s %d %s" % (name_hex(nm), o, d))
    L.append("tmnew %d 1" % tmh)
    for col in t["cols"]:
        m = new(nmd)
        L.append("mdnew %d" % m)
        L.append("cmset %d %s %d" % (m, name_hex(col["name"]), col["ty"]))
        for (nm, ty, val, dflt) in col["extra"]:
            o = new(nobj); L.append(obj_line(o, ty, [val]))
            d = "~"
            if dflt is not None:
                d = new(nobj); L.append(obj_line(d, ty, [dflt]))
            L.append("mdadd %d %s %d %s" % (m, name_hex(nm), o, d))
        L.append("tmadd %d %d" % (tmh, m))
    slices = []
    for si, sl in enumerate(t["slices"]):
        sh = 1 + si
        L.append("tsnew %d %d" % (sh, tmh))
        for ci, col in enumerate(sl):
            o = new(nobj); v = new(nva); c = new(ncs)
            L.append(obj_line(o, t["cols"][ci]["ty"], col["vals"]))
            L.append("va %d %d %d" % (v, col["enc"], o))
            L.append("csnew %d %d" % (c, v))
            for (pn, pty, elems, pk) in col["props"]:
                po = new(nobj); pv = new(nva)
                L.append(obj_line(po, pty, elems))
                L.append("va %d %d %d" % (pv, pk, po))
                L.append("csadd %d %s %d" % (c, name_hex(pn), pv))
            L.append("tsadd %d %d" % (sh, c))
        slices.append(sh)
    return L, tmh, slices


def write_script(tmh, slices, out=1, budget=None):
    L = ["out %d%s" % (out, "" if budget is None else " %d" % budget), "wfh %d" % out, "wtm %d %d" % (out, tmh)]
    L += ["wts %d %d" % (out, s) for s in slices]
    L += ["wend %d" % out, "bytes %d" % out]
    return L


# ----------------------------------------------------------------------------- expected decoded dumps
def dec_va_str(ty, elems, k):
    dty, del_ = decoded(ty, elems, k)
    return "%d:0:%s" % (len(elems), obj_dump(dty, del_))


def _k_of(layouts, key, k):
    """the encoding that decides the decoded form: the layout's when one is given"""
    if layouts and key in layouts:
        return BIT if layouts[key][0] == "bit" else PLAIN
    return k


def dec_cs_str(ty, col, present=True, layouts=None, si=0, ci=0):
    if not present:
        return "absent"
    s = "CSD(rows=%d %s" % (len(col["vals"]), dec_va_str(ty, col["vals"], _k_of(layouts, (si, ci, -1), col["enc"])))
    for pi, (pn, pty, elems, pk) in enumerate(col["props"]):
        s += " %s=0:%s" % (hx(pn), dec_va_str(pty, elems, _k_of(layouts, (si, ci, pi), pk)))
    return s + ")"


def dec_ts_str(t, si, subset=None, layouts=None):
    sl = t["slices"][si]
    return "TSD(" + " ".join(dec_cs_str(t["cols"][ci]["ty"], col, subset is None or (ci < len(subset) and subset[ci] != "0"), layouts, si, ci)
                             for ci, col in enumerate(sl)) + ")"


# ----------------------------------------------------------------------------- reference encoder
def enc7(n):
    out = bytearray()
    n &= 0xffffffff
    while True:
        if n > 0x7f:
            out.append((n & 0x7f) | 0x80); n >>= 7
        else:
            out.append(n); break
    return bytes(out)


class Enc:
    """byte buffer with a field map: (kind, offset, width, note)"""
    def __init__(self, be=False):
        self.b = bytearray(); self.fields = []; self.be = be

    def f(self, kind, data, note=""):
        self.fields.append((kind, len(self.b), len(data), note)); self.b += data

    def i32(self, v, kind="count", note=""):
        self.f(kind, struct.pack(">i" if self.be else "<i", v), note)

    def u8(self, v, kind, note=""):
        self.f(kind, bytes([v & 255]), note)

    def raw(self, data, kind="bytes", note=""):
        self.f(kind, bytes(data), note)

    def num(self, e):
        """one fixed-size element: numeric, mirrored in the big-endian configuration"""
        self.f("elem", bytes(reversed(e)) if self.be else bytes(e))

    def sec(self, sid, note=""):
        self.u8(0xdf, "marker0", note); self.u8(0x5b, "marker1", note); self.u8(sid, "section", note)

    def string(self, s, note=""):
        self.i32(len(s), "strlen", note); self.raw(s, "bytes", note)

    def obj1(self, ty, e, note=""):
        if ty in (STRING, BINARY):
            self.i32(len(e), "objlen", note); self.raw(e, "bytes", note)
        else:
            self.num(e)

    def arr(self, ty, elems, note=""):
        self.i32(len(elems), "arrcount", note)
        if ty in (STRING, BINARY):
            self.i32(sum(len(enc7(len(e))) + len(e) for e in elems), "bytesize", note)
            for e in elems:
                self.f("len7", enc7(len(e)), note); self.raw(e, "bytes", note)
        else:
            for e in elems:
                self.num(e)

    def va(self, ty, elems, layout, note=""):
        """layout: ("plain",) | ("rle", [run lengths]) | ("bit",)"""
        kind = layout[0]
        self.u8({"plain": 1, "rle": 2, "bit": 3, "rawrle": 2}[kind], "encoding", note)
        self.u8(BOOL if kind == "bit" else ty, "vatype", note + " " + kind)
        if kind == "plain":
            self.arr(ty, elems, note)
        elif kind == "rawrle":
            # ("rawrle", row count, run bytes, values): no consistency between the three (hostile input)
            _, rowcount, runbytes, vals = layout
            self.i32(rowcount, "rowcount", note + " rle")
            self.i32(len(runbytes), "arrcount", note)
            for r in runbytes: self.f("run", bytes([r & 255]))
            self.arr(ty, vals, note)
        elif kind == "rle":
            runs = layout[1]
            self.i32(len(elems), "rowcount", note + " rle")
            self.i32(len(runs), "arrcount", note)
            for r in runs: self.f("run", bytes([r - 1]))
            vals = []; i = 0
            for r in runs: vals.append(elems[i]); i += r
            self.arr(ty, vals, note)
        else:
            self.i32(len(elems), "rowcount", note + " bit")
            bits = [1 if nonzero(ty, e) else 0 for e in elems]
            out = bytearray()
            for i in range(0, len(bits), 8):
                chunk = bits[i:i + 8]; v = 0
                for bt in chunk: v = (v << 1) | bt
                v <<= 8 - len(chunk); out.append(v)
            self.raw(out, "bits", note)


def canonical_runs(elems):
    runs = []
    i = 0
    while i < len(elems):
        j = i
        while j < len(elems) and elems[j] == elems[i] and j - i < 256: j += 1
        runs.append(j - i); i = j
    return runs


def canonical_layout(ty, elems, k):
    k = eff_enc(ty, k)
    if k == PLAIN: return ("plain",)
    if k == BIT: return ("bit",)
    return ("rle", canonical_runs(elems))


def random_layout(rng, ty, elems):
    """any valid encoding of the same values (C04): non-maximal runs, RLE booleans, plain booleans"""
    choices = ["plain", "rle", "rle"] + (["bit"] if ty == BOOL else [])
    kind = rng.choice(choices)
    if kind != "rle":
        return (kind,)
    runs = []
    for r in canonical_runs(elems):
        while r > 0:
            k = rng.choice([r, r, 1, rng.randint(1, r), min(r, 256)])
            runs.append(k); r -= k
    return ("rle", runs)


def encode_table(t, layouts=None, be=False, name_order=None, unused=(), with_end=True, dup_names=()):
    """Reference encoding of a whole file.  layouts[(slice, col, prop or -1)] overrides the
    canonical layout; name_order permutes the column-metadata name list; unused adds names no
    column uses.  Returns the Enc (bytes in .b, field map in .fields)."""
    e = Enc(be)
    e.sec(1, "fileheader"); e.u8(1, "version"); e.u8(0, "version")
    e.sec(2, "tablemeta")
    e.i32(len(t["tmeta"]), "entrycount")
    for (nm, ty, val, dflt) in t["tmeta"]:
        e.string(nm, "tmeta-name"); e.u8(ty, "mdtype", "tmeta")
        if val is None: e.u8(0, "tflag", "value")
        else: e.u8(1, "tflag", "value"); e.obj1(ty, val, "tmeta-value")
        if dflt is None: e.u8(0, "tflag", "default")
        else: e.u8(1, "tflag", "default"); e.obj1(ty, dflt, "tmeta-default")
    cols = t["cols"]
    e.i32(len(cols), "colcount")
    # column metadata folded into one name list in first-appearance order
    names = []
    seen = set()
    percol = []
    for col in cols:
        ents = [(b"Name", STRING, col["name"], None), (b"DataType", BINARY, bytes([col["ty"]]), None)] + list(col["extra"])
        percol.append(ents)
        for (nm, ty, val, dflt) in ents:
            if nm not in seen:
                seen.add(nm); names.append((nm, ty, dflt))
    for u in unused:
        names.append(u)
    twins = {}                               # index of a duplicate entry -> index of the original
    for k in dup_names:                      # a foreign writer listing a name twice (same type; same default, or one with and one without)
        if not names: break
        if isinstance(k, tuple): k, mode, newd = k
        else: mode, newd = "same", None
        j = k % len(names)
        nm_, ty_, d_ = names[j]
        if mode == "flip": d_ = None if d_ is not None else newd(ty_)
        twins[len(names)] = j
        names.append((nm_, ty_, d_))
    if name_order:
        names = [names[i] for i in name_order]
    e.i32(len(names), "namecount")
    for (nm, ty, dflt) in names:
        e.string(nm, "cmeta-name"); e.u8(ty, "mdtype", "cmeta")
        if dflt is None: e.u8(0, "dflag")
        else: e.u8(1, "dflag"); e.obj1(ty, dflt, "cmeta-default")
    split = bool(twins) and any(isinstance(k, tuple) for k in dup_names)
    pos = {j: i for i, j in enumerate(name_order)} if name_order else None
    for ci, ents in enumerate(percol):
        d = {nm: (ty, val) for (nm, ty, val, dflt) in ents}
        for j, (nm, ty, dflt) in enumerate(names):
            use = nm in d
            if use and split and not name_order:
                # "flip" duplicates: even columns carry the value under the original entry, odd ones under its twin
                if j in twins: use = ci % 2 == 1
                elif j in twins.values(): use = ci % 2 == 0
            if use: e.u8(1, "cflag"); e.obj1(ty, d[nm][1], "cmeta-value")
            else: e.u8(0, "cflag")
    for si, sl in enumerate(t["slices"]):
        e.sec(3, "slice"); e.i32(len(sl), "slicecols")
        for ci, col in enumerate(sl):
            ty = cols[ci]["ty"]
            e.sec(4, "colslice")
            lay = (layouts or {}).get((si, ci, -1)) or canonical_layout(ty, col["vals"], col["enc"])
            e.va(ty, col["vals"], lay, "values")
            e.i32(len(col["props"]), "propcount")
            for pi, (pn, pty, elems, pk) in enumerate(col["props"]):
                e.string(pn, "prop-name")
                lay = (layouts or {}).get((si, ci, pi)) or canonical_layout(pty, elems, pk)
                e.va(pty, elems, lay, "prop")
    if with_end:
        e.sec(5, "end")
    return e


def expected_meta(t):
    """tmdump of the table as the reader delivers it (column metadata in file-wide name order)"""
    def od(ty, v): return "null" if v is None else obj_dump(ty, [v])
    s = "TM [mod=0" + "".join(" (%s %s %s)" % (hx(nm), od(ty, val), od(ty, dflt)) for (nm, ty, val, dflt) in t["tmeta"]) + "]"
    s += " cols=%d" % len(t["cols"])
    names = []; seen = set(); percol = []
    for col in t["cols"]:
        ents = [(b"Name", STRING, col["name"], None), (b"DataType", BINARY, bytes([col["ty"]]), None)] + list(col["extra"])
        percol.append(ents)
        for (nm, ty, val, dflt) in ents:
            if nm not in seen: seen.add(nm); names.append(nm)
    for ents in percol:
        d = {nm: (ty, val, dflt) for (nm, ty, val, dflt) in ents}
        s += " [mod=0" + "".join(" (%s %s %s)" % (hx(nm), od(d[nm][0], d[nm][1]), od(d[nm][0], d[nm][2])) for nm in names if nm in d) + "]"
    return s
