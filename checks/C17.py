"""C17 - files are byte-order independent (big-endian configuration on this little-endian host)."""
from vlib import Case, hx
from checks import sbdfgen as G
from checks.tablecases import roundtrip_case, parse_session, find_seq

LEVEL = "proof"
VARIANT = "be"          # the library compiled with -D__sparc: sbdf_swap reverses
SWP = True
RULE = ("the C01/C04 tables run on the library built in its big-endian configuration (-D__sparc on this host): the bytes written "
        "must be the field-wise mirror of the little-endian stream (every count, length, byte-size header and fixed-size element "
        "byte-reversed, strings, binaries, packed lengths, bit arrays, run lengths, ids and flags untouched) as produced by the "
        "reference encoder in mirror mode and by the model with swp = true, and mirror streams must read back to the same logical "
        "content; non-trivial = at least one column; distinct = script hash")
TRUSTED = ["L1 model coq/*.v with swp = true", "checks/sbdfgen.py in mirror mode"]
ASSUMES = ["a real big-endian host stores numbers byte-reversed (modelled, not verified)"]


def classify_diff(case, diffs):
    return "violation" if any(d[1] in ("bytes", "session") for d in diffs) else "correspondence"


def cases(rng, tier):
    n = {"quick": 200, "thorough": 4000, "search": 150}[tier]
    # fixed-size columns larger than 64 KiB: every element converted exactly once, wherever a reader might cut
    from checks.C04 import big_case
    shapes = [([2, 4], 20000), ([5, 13], 8193)] if tier != "thorough" else [([2, 4], 20000), ([5, 13], 8193), ([3, 8], 30000), ([13], 4097), ([2], 70001), ([6, 7, 9], 12345)]
    for k, (tys, rows) in enumerate(shapes):
        yield big_case("big%d" % k, G.big_table(rng, tys, rows), be=True)
    for i in range(n):
        t = G.rand_table(rng, maxrows={"quick": 40, "thorough": 300, "search": 30}[tier])
        if i % 2 == 0:
            c = roundtrip_case("t%d" % i, t, rng, be=True)
            # additionally compare the written bytes with the mirror of the reference stream
            ref = hx(bytes(G.encode_table(t, be=True).b))
            i_bytes = next(k + 1 for k, l in enumerate(c.lines) if l.startswith("bytes "))
            base = c.oracle

            def oracle(cobs, base=base, ref=ref, i_bytes=i_bytes):
                f = list(base(cobs) or [])
                got = (cobs.val(i_bytes) or "").partition(" ")[2]
                if got != ref: f.append("bytes written in the big-endian configuration are not the field-wise mirror of the little-endian stream")
                return f
            c.oracle = oracle
            yield c
            if i % 4 == 0 and t["slices"]:
                # a write that fails part-way must not leave the caller's objects converted: write again and compare
                L, tmh, slices = G.table_script(t)
                nb = len(L)
                total = len(ref) // 2
                for j, k in enumerate(sorted(set(rng.randint(0, max(0, total - 1)) for _ in range(4)))):
                    L += ["out %d %d" % (20 + j, k), "wfh %d" % (20 + j), "wtm %d %d" % (20 + j, tmh)] + ["wts %d %d" % (20 + j, s_) for s_ in slices] + ["wend %d" % (20 + j)]
                L += G.write_script(tmh, slices, out=9)
                L += ["tsdec %d" % s_ for s_ in slices]
                nL = len(L) - len(slices)

                def oracle2(cobs, ref=ref, nL=nL):
                    got = (cobs.val(nL) or "").partition(" ")[2]
                    if got != ref: return ["after failed writes the same table is written differently (objects were left byte-swapped)"]
                    return []
                yield Case("w%d" % i, L, oracle=oracle2, meta={"dist": {"kind": "failed-write-then-retry"}})
        else:
            layouts = {}
            for si, sl in enumerate(t["slices"]):
                for ci, col in enumerate(sl):
                    layouts[(si, ci, -1)] = G.random_layout(rng, t["cols"][ci]["ty"], col["vals"])
                    for pi, (pn, pty, elems, pk) in enumerate(col["props"]):
                        layouts[(si, ci, pi)] = G.random_layout(rng, pty, elems)
            data = bytes(G.encode_table(t, layouts=layouts, be=True).b)
            exp_dec = [G.dec_ts_str(t, si, None, layouts) for si in range(len(t["slices"]))]
            exp_meta = G.expected_meta(t)

            def oracle(c, exp_dec=exp_dec, exp_meta=exp_meta, t=t, n=len(data)):
                d = parse_session(c.val(2)); f = []
                if d["fh"] != 0 or d["tm"] != 0: return ["mirror stream refused: fh=%s tm=%s" % (d["fh"], d["tm"])]
                if (" tm=0 " + exp_meta + " ") not in d["line"] + " ": f.append("metadata read from the mirror stream differs")
                ok, part = find_seq(d["line"], exp_dec)
                if not ok: f.append("slice content read from the mirror stream differs")
                if d["end"] != -1000 or d["pos"] != n: f.append("mirror stream: end=%s pos=%s (len %d)" % (d["end"], d["pos"], n))
                return f
            yield Case("m%d" % i, ["in 1 %s" % hx(data), "session 1 *"], oracle=oracle, nontrivial=len(t["cols"]) > 0)
