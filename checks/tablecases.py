"""tablecases.py - cases built around whole tables, shared by C01 C03 C04 C06 C07 C08 C09 C13 C17."""
import re
from vlib import Case, hx, obj_dump, STRING, BINARY, BOOL, ALLTYPES, FIXED
from checks import sbdfgen as G


def shift_handles(lines, off):
    """the same script on other handles (history independence: C03)"""
    out = []
    for l in lines:
        t = l.split(" ")
        op = t[0]
        # positions of handle arguments per op
        hp = {"obj": [1], "objs": [1], "va": [1, 3], "mdnew": [1], "mdadd": [1, 3, 4], "tmnew": [1, 2], "cmset": [1], "tmadd": [1, 2],
              "tsnew": [1, 2], "csnew": [1, 2], "csadd": [1, 3], "tsadd": [1, 2], "out": [1], "wfh": [1], "wtm": [1, 2], "wts": [1, 2],
              "wend": [1], "bytes": [1]}.get(op, [])
        for p in hp:
            if p < len(t) and t[p] != "~":
                t[p] = str(int(t[p]) + off)
        out.append(" ".join(t))
    return out


def find_seq(line, parts):
    """every part occurs in the line, in order"""
    pos = 0
    for p in parts:
        k = line.find(p, pos)
        if k < 0:
            return False, p
        pos = k + len(p)
    return True, None


SESS_RE = re.compile(r"^fh=(-?\d+)(?::(\d+)\.(\d+))?(?: tm=(-?\d+))?")


def parse_session(line):
    """{'fh':..,'tm':..,'end':..,'n':..,'pos':..,'rw':(status,hex),'line':..}"""
    d = {"line": line, "fh": None, "tm": None, "end": None, "n": None, "pos": None, "rw": None}
    if line is None:
        return d
    m = SESS_RE.match(line)
    if m:
        d["fh"] = int(m.group(1)); d["tm"] = int(m.group(4)) if m.group(4) is not None else None
    m = re.search(r" end=(-?\d+) n=(\d+)(?: pos=(\d+))?", line)
    if m:
        d["end"] = int(m.group(1)); d["n"] = int(m.group(2)); d["pos"] = int(m.group(3)) if m.group(3) else None
    m = re.search(r" rw=(-?\d+):(\S+)", line)
    if m:
        d["rw"] = (int(m.group(1)), m.group(2))
    return d


def first_error(d):
    for k in ("fh", "tm", "end"):
        if d[k] is not None and d[k] != 0:
            return k, d[k]
    return None, None


def roundtrip_case(cid, t, rng, subset=None, be=False):
    """C01/C08/C03: build through the API, write, read back in one session, re-write."""
    L, tmh, slices = G.table_script(t)
    nbuild = len(L)
    W = G.write_script(tmh, slices)
    L = L + W
    i_wtm = nbuild + 3
    i_bytes = len(L)
    L += ["inw 2 1", "session 2 %s" % (subset or "*")]
    i_sess = len(L)
    ref = bytes(G.encode_table(t, be=be).b) if not t.get("conflict") else None
    exp_meta = G.expected_meta(t)
    exp_dec = [G.dec_ts_str(t, si, subset) for si in range(len(t["slices"]))]
    conflict = t.get("conflict")

    def oracle(c):
        f = []
        for i in range(1, nbuild + 1):
            op, val = c.lines.get(i, (None, None))
            if val is None or val.split(" ")[0] != "0":
                f.append("construction step %d (%s) failed: %s" % (i, op, val)); return f
        if conflict:
            if c.val(i_wtm) == "0":
                f.append("conflicting column metadata (%s) was written without an error" % conflict)
                d = parse_session(c.val(i_sess))
                if d["tm"] == 0 and exp_meta not in (d["line"] or ""):
                    f.append("... and the file reads back with different metadata")
            elif c.val(i_wtm) != "-9":
                f.append("conflicting column metadata reported as %s, expected INCORRECT_METADATA" % c.val(i_wtm))
            return f
        for i in range(nbuild + 2, i_bytes):
            if c.val(i) != "0":
                f.append("write step %d (%s) returned %s" % (i, c.lines.get(i, ("?",))[0], c.val(i))); return f
        b = c.val(i_bytes) or ""
        blen, _, bhex = b.partition(" ")
        d = parse_session(c.val(i_sess))
        if d["fh"] != 0 or d["tm"] != 0:
            f.append("reading the written file failed: fh=%s tm=%s" % (d["fh"], d["tm"])); return f
        if (" tm=0 " + exp_meta + " ") not in d["line"] + " ":
            f.append("table / column metadata read back differs from what was built")
        ok, part = find_seq(d["line"], exp_dec)
        if not ok:
            f.append("slice content read back differs from what was written (first missing: %s)" % part[:160])
        if d["n"] != len(t["slices"]):
            f.append("%s slices read, %d written" % (d["n"], len(t["slices"])))
        if d["end"] != -1000:
            f.append("session ended with %s, expected end-of-table" % d["end"])
        elif d["pos"] is not None and str(d["pos"]) != blen:
            f.append("end-of-table reported at %s, the file has %s bytes" % (d["pos"], blen))
        if subset is None and d["rw"] is not None and (d["rw"][0] != 0 or d["rw"][1] != bhex):
            f.append("re-writing what was read gave status %d and %s bytes" % (d["rw"][0], "different" if d["rw"][1] != bhex else "the same"))
        if ref is not None and bhex != hx(ref) and not be:
            f.append("bytes differ from the reference encoder at offset %d" % next((i for i in range(min(len(ref), len(bhex) // 2)) if bhex[2 * i:2 * i + 2] != "%02x" % ref[i]), min(len(ref), len(bhex) // 2)))
        return f
    meta = {"dist": {"cols": len(t["cols"]), "slices": len(t["slices"]), "conflict": conflict or "no"}}
    return Case(cid, L, oracle=oracle, nontrivial=(len(t["cols"]) > 0), meta=meta)


def stream_case(cid, data, mode="*", oracle=None, meta=None, nontrivial=True):
    L = ["in 1 %s" % hx(data), "session 1 %s" % mode]
    return Case(cid, L, oracle=oracle, meta=meta or {}, nontrivial=nontrivial)
