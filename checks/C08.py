"""C08 - re-serialising what was read reproduces the file byte for byte."""
import re
from vlib import Case, hx
from checks import sbdfgen as G
from checks.tablecases import roundtrip_case, parse_session
from checks import C05

LEVEL = "proof"
RULE = ("(a) library-written tables: written, read, re-written, bytes compared (session rw); (b) tables written with default "
        "encodings: every column and property decoded and re-encoded with the default encoding, a new slice built and written, bytes "
        "compared; (c) foreign streams (reference encoder with random layouts, permuted name lists, and mutated files the reader "
        "accepts): what was read is re-written; either that fails with an error status or the output reads back to the same "
        "logical content (column metadata as a name-keyed set); non-trivial = at least one column; distinct = script hash")
TRUSTED = ["L1 model coq/*.v", "checks/sbdfgen.py"]
ASSUMES = []


def classify_diff(case, diffs):
    return "correspondence"


filter_diffs = C05.filter_diffs


def dflt_reencode_case(cid, t):
    """(b) decode and re-encode with the default encoding"""
    for sl in t["slices"]:
        for col in sl:
            col["enc"] = G.DFLT
            col["props"] = [(pn, pty, el, G.DFLT) for (pn, pty, el, pk) in col["props"]]
    L, tmh, slices = G.table_script(t)
    L += G.write_script(tmh, slices)
    i_bytes = len(L)
    L += ["inw 2 1", "rfh 2", "rtm 2 50"]
    new_slices = []
    h = 300
    for si, sl in enumerate(t["slices"]):
        rs = 60 + si; ns = 80 + si
        L += ["rts 2 %d 50" % rs, "tsnew %d 50" % ns]
        for ci, col in enumerate(sl):
            h += 10
            L += ["tscol %d %d %d" % (h, rs, ci), "csvals %d %d" % (h, h), "vaget %d %d" % (h, h), "va %d -1 %d" % (h + 1, h), "csnew %d %d" % (h + 1, h + 1)]
            for pi, (pn, pty, el, pk) in enumerate(col["props"]):
                q = h + 2 + 2 * pi
                L += ["csget %d %d %s" % (q, h, hx(pn)), "vaget %d %d" % (q, q), "va %d -1 %d" % (q + 1, q), "csadd %d %s %d" % (h + 1, hx(pn), q + 1)]
            L.append("tsadd %d %d" % (ns, h + 1))
        new_slices.append(ns)
    L += ["out 3", "wfh 3", "wtm 3 50"] + ["wts 3 %d" % s for s in new_slices] + ["wend 3", "bytes 3"]
    n = len(L)

    def oracle(c):
        a, b = c.val(i_bytes), c.val(n)
        if a is None or b is None or a != b:
            return ["decoding every column and re-encoding it with the default encoding did not reproduce the file (%s vs %s bytes)" % ((a or "?").split(" ")[0], (b or "?").split(" ")[0])]
        return []
    return Case(cid, L, oracle=oracle, nontrivial=len(t["cols"]) > 0, meta={"dist": {"kind": "dflt-reencode"}})


def norm_line(line):
    """logical content of a session line: metadata entries per column as sorted sets, decoded slices"""
    if line is None: return None
    m = re.search(r" tm=0 (TM .*?)(?: c0=| TS\(| end=)", line)
    tm = m.group(1) if m else ""
    heads = re.findall(r"\[mod=\d((?: \([^()]*\))*)\]", tm)
    cols = [tuple(sorted(re.findall(r"\(([^()]*)\)", h))) for h in heads]
    tsd = re.findall(r"TSD\(.*?\)(?= TS\(| end=)", line)
    d = parse_session(line)
    return (tuple(cols[:1]), tuple(cols[1:]), tuple(tsd), d["end"], d["n"])


def cases(rng, tier):
    n = {"quick": 120, "thorough": 3000, "search": 100}[tier]
    for i in range(n):
        t = G.rand_table(rng, maxrows=30)
        if i % 3 == 0:
            yield dflt_reencode_case("d%d" % i, G.rand_table(rng, maxrows=30))
        else:
            yield roundtrip_case("t%d" % i, t, rng)
    # (c) foreign streams: phase 1 reads and re-writes, phase 2 (followup) reads the re-written stream
    nf = {"quick": 250, "thorough": 6000, "search": 200}[tier]
    pool = []
    for i in range(nf):
        t = G.rand_table(rng, maxrows=20)
        layouts = {}
        for si, sl in enumerate(t["slices"]):
            for ci, col in enumerate(sl):
                layouts[(si, ci, -1)] = G.random_layout(rng, t["cols"][ci]["ty"], col["vals"])
                for pi, (pn, pty, elems, pk) in enumerate(col["props"]):
                    layouts[(si, ci, pi)] = G.random_layout(rng, pty, elems)
        if rng.random() < 0.25:
            from vlib import ALLTYPES, rand_elem
            ty_ = rng.choice(ALLTYPES)
            t["tmeta"].insert(rng.randint(0, len(t["tmeta"])), (b"NoValue", ty_, None, rand_elem(rng, ty_) if rng.random() < 0.5 else None))
        names = set()
        for col in t["cols"]:
            names.update([b"Name", b"DataType"] + [e[0] for e in col["extra"]])
        order = list(range(len(names))); rng.shuffle(order)
        dups = [rng.randint(0, 7) for _ in range(rng.choice([1, 1, 2]))] if rng.random() < 0.12 else []
        if rng.random() < 0.1 and len(t["cols"]) >= 2:
            from vlib import rand_elem as _re
            dups = [(rng.randint(0, 7), "flip", lambda ty_: _re(rng, ty_))]     # the same name once with and once without a default, used by different columns
        e = G.encode_table(t, layouts=layouts, name_order=order if (rng.random() < 0.5 and not dups) else None, dup_names=dups)
        data = bytes(e.b)
        fields = [f for f in e.fields if f[0] not in ("bytes", "elem", "bits", "run")]
        if rng.random() < 0.6:
            data, _ = C05.mutate(rng, data, fields)
        yield Case("f%d" % i, ["in 1 %s" % hx(data), "session 1 *"], oracle=C05.oracle_session, meta={"foreign": True, "dist": {"kind": "foreign"}})


def be_cases(rng, tier):
    """library-written tables re-written in the big-endian configuration (decimals and every other fixed-size type included)"""
    for i in range({"quick": 60, "thorough": 1500, "search": 40}[tier]):
        yield roundtrip_case("be-t%d" % i, G.rand_table(rng, maxrows=20), rng, be=True)


def followup(cases_, results, rng, tier):
    out = []
    for c in cases_:
        if not c.meta.get("foreign"): continue
        r = results.get(c.cid)
        if r is None: continue
        line = r[0].val(2)
        d = parse_session(line)
        if d["tm"] != 0 or d["rw"] is None or d["rw"][0] != 0 or d["end"] != -1000:
            continue        # not accepted as a whole table, or the re-write failed with an error status: allowed
        first = norm_line(line)
        rw = d["rw"][1]

        def oracle(c2, first=first):
            second = norm_line(c2.val(2))
            if second != first:
                return ["a stream the reader accepted was re-written without error, but the output reads back to different logical content"]
            d2 = parse_session(c2.val(2))
            if d2["rw"] is None or d2["rw"][0] != 0 or d2["rw"][1] != parse_session(c2.lines[1][1] if False else c2.val(2))["rw"][1]:
                return []
            return []
        out.append(Case(c.cid + "/rw", ["in 1 %s" % rw, "session 1 *"], oracle=oracle, meta={"dist": {"kind": "foreign-reread"}}))
    return out
