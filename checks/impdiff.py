"""impdiff - the deep embedding against the compiled library: the programs that tools/c2imp.py generates (coq/Gen/Prog.v) are run
by the interpreter of coq/ImpCall.v inside Coq (vm_compute) on the same byte streams as the C functions they were translated
from, and status and stream position are compared.  This tests the trusted translator and the semantics of coq/Imp.v, not a
property of the library: a difference is reported as a broken correspondence of the property that cites these programs."""
import os, re, subprocess, tempfile, shutil
import vlib
from vlib import Case, hx, ALLTYPES, STRING, BINARY, BOOL, rand_array
from checks import sbdfgen as G

FUEL = 1500


def streams(rng, n):
    """(type, bytes, level): a value array (va), a column slice (cs) or a packed object array (oa) - complete, cut anywhere, or followed by
    more bytes; each level is given only to the functions that read that level (a count read from the wrong place would be huge)"""
    out = []
    for i in range(n):
        ty = rng.choice(ALLTYPES)
        cnt = rng.choice([0, 1, 2, 3, 5, 8, 9, 17])
        elems = rand_array(rng, ty, cnt)
        if ty in (STRING, BINARY): elems = [e[:12] for e in elems]
        e = G.Enc(False)
        level = rng.choice(["va", "va", "cs", "oa", "oa", "str", "num"])
        if level == "str":
            e.string(bytes(rng.getrandbits(8) for _ in range(rng.choice([0, 1, 5, 40]))))
        elif level == "num":
            # an int / a packed length: any four or five bytes (a length of up to 2^28 is read, nothing is allocated)
            e.raw(bytes(rng.choice([0, 1, 0x7f, 0x80, 0xff, rng.getrandbits(8)]) for _ in range(rng.choice([1, 4, 5, 6]))), "bytes")
        elif level == "va":
            e.va(ty, elems, G.random_layout(rng, ty, elems))
        elif level == "oa":
            e.arr(ty, elems)
        else:
            e.sec(4); e.va(ty, elems, G.random_layout(rng, ty, elems))
            props = [(pn, pty) for pn, pty in rng.sample([(b"IsInvalid", BOOL), (b"ErrorCode", STRING), (b"p", 2)], rng.choice([0, 1, 2]))]
            e.i32(len(props))
            for pn, pty in props:
                pel = rand_array(rng, pty, cnt)
                if pty == STRING: pel = [x[:8] for x in pel]
                e.string(pn); e.va(pty, pel, G.random_layout(rng, pty, pel))
        body = bytes(e.b)
        kind = rng.choice(["full", "full", "cut", "cut", "trail"])
        if kind == "cut": data = body[:rng.randint(0, len(body))]
        elif kind == "trail": data = body + bytes(rng.getrandbits(8) for _ in range(rng.choice([1, 3, 7])))
        else: data = body
        if len(data) <= 400: out.append((ty, data, level, kind))
    return out


# harness op, stream mode of the translated program, program, takes the element type, level it is run on
OPS = [("skva", "E", "prog_sbdf_va_skip", False, "va"), ("rva", "C", "prog_sbdf_va_read", False, "va"), ("skcs", "E", "prog_sbdf_cs_skip", False, "cs"), ("rcs", "C", "prog_sbdf_cs_read", False, "cs"),
       ("skobja", "E", "prog_sbdf_obj_skip_arr", True, "oa"), ("robja", "C", "prog_sbdf_obj_read_arr", True, "oa"),
       ("skstr", "E", "prog_sbdf_skip_string", False, "str"), ("rstr", "C", "prog_sbdf_read_string", False, "str"),
       ("ri32", "E2", "prog_sbdf_read_int32", False, "num"), ("r7", "E2", "prog_sbdf_read_7bitpacked_int32", False, "num")]


def run(ctx, rng, n):
    """-> (list of difference descriptions, coverage dict)"""
    ss = streams(rng, n)
    cases = []; plan = []
    for i, (ty, data, level, kind) in enumerate(ss):
        lines = []; ops = [(o, -1) for o in OPS if o[4] == level]
        if kind == "full" and i % 2 == 0:
            # the readers once more under an allocation schedule: attempt number j fails
            ops += [(o, j) for o in OPS if o[4] == level and o[1] == "C" for j in ((0, 1, 2, 3, 4, 5, 7, 9, 12) if o[0] == "rcs" else (0, 1, 2, 3))]
        for k, ((op, mode, prog, typed, _), fail) in enumerate(ops):
            h = k + 1
            lines.append("in %d %s" % (h, hx(data)))
            pre = "allocfail %d" % fail if fail >= 0 else "nallocs"
            lines.append(pre)
            if op in ("rva", "rcs"): lines.append("%s %d %d" % (op, h, 20 + h))
            elif op == "robja": lines.append("robja %d %d %d" % (h, 10 + h, ty))
            elif typed: lines.append("%s %d %d" % (op, h, ty))
            else: lines.append("%s %d" % (op, h))
            lines.append("pos %d" % h)
            plan.append((i, k, op, mode, prog, typed, fail))
        cases.append(Case("e%d" % i, lines, compare=False))
    res = vlib.run_cases(cases, ctx["harness"], None)
    coq = os.path.join(vlib.V, "coq")
    d = tempfile.mkdtemp(prefix="impdiff-", dir=vlib.CACHE)
    evals = []
    for (i, k, op, mode, prog, typed, fail) in plan:
        ty, data = ss[i][0], ss[i][1]
        sl = "[%s]" % "; ".join(str(b) for b in data)
        if mode == "E2":
            evals.append("outE (callE prog_env %d %s [tok; tok] %s 0)" % (FUEL, prog, sl))
        elif mode == "E":
            args = "[tok; VInt %d]" % ty if typed else "[tok]"
            evals.append("outE (callE prog_env %d %s %s %s 0)" % (FUEL, prog, args, sl))
        else:
            args = "[tok; VInt %d; tok]" % ty if typed else "[tok; tok]"
            evals.append("outC (callC prog_env %d %s %s [] (%d) %s [])" % (FUEL, prog, args, fail, sl))
    src = """From Sbdf Require Import ImpCall Gen.Prog ImpBase.
From Coq Require Import List ZArith. Import ListNotations.
Local Open Scope Z_scope.
Definition outE (o : outcome) : Z * Z := match o with OReturn (VInt st) fin => (st, Z.of_nat (List.length (inb fin))) | OFault => (1000, 0) | OFuel => (2000, 0) | _ => (3000, 0) end.
Definition outC (o : outcome) : Z * Z := match o with OReturn (VInt st) fin => (st, match Imp.lookup strm_var (vars fin) with Some (VBytes l) => Z.of_nat (List.length l) | _ => -1 end) | OFault => (1000, 0) | OFuel => (2000, 0) | _ => (3000, 0) end.
Eval vm_compute in [%s].
""" % ";\n  ".join(evals)
    open(os.path.join(d, "Cases.v"), "w").write(src)
    with vlib.Lock():
        ok, log = vlib.coq_make(["ImpCall.vo", "Gen/Prog.vo", "ImpBase.vo"])
    try:
        r = subprocess.run(["timeout", "600", "coqc", "-Q", coq, "Sbdf", "Cases.v"], cwd=d, capture_output=True, text=True, timeout=700)
    finally:
        shutil.rmtree(d, ignore_errors=True)
    diffs = []
    cov = {"imp_streams": len(ss), "imp_runs": len(plan), "imp_compared": 0, "imp_not_comparable": 0}
    if r.returncode != 0:
        return ["the generated programs could not be run in Coq (exit %d): %s" % (r.returncode, (r.stdout + r.stderr)[-400:])], cov
    pairs = re.findall(r"\((-?\d+),(-?\d+)\)", re.sub(r"\s|%Z", "", r.stdout))
    if len(pairs) != len(plan):
        return ["unexpected output of the Coq run (%d results for %d runs)" % (len(pairs), len(plan))], cov
    for (i, k, op, mode, prog, typed, fail), (st, rem) in zip(plan, pairs):
        st, rem = int(st), int(rem)
        ty, data = ss[i][0], ss[i][1]
        c, _ = res.get("e%d" % i, (None, None))
        if c is None or c.crash:
            diffs.append("stream %s: the C side crashed: %s" % (hx(data)[:60], c.crash if c else "no output")); continue
        cst = c.val(4 * k + 3); cpos = c.val(4 * k + 4)
        if cst is None or cpos is None: continue
        cst = int(cst.split()[0]); cpos = int(cpos)
        if st in (1000, 2000):      # SFault (the bit-array branch of the reader) / out of fuel: nothing to compare
            cov["imp_not_comparable"] += 1; continue
        cov["imp_compared"] += 1
        if fail >= 0: cov["imp_alloc_schedules"] = cov.get("imp_alloc_schedules", 0) + 1
        if st != cst:
            diffs.append("%s on %s (type %d%s): C status %d, translated program %d" % (op, hx(data)[:80], ty, ", allocation %d fails" % fail if fail >= 0 else "", cst, st)); continue
        ipos = len(data) - rem
        if cst == 0 and (cpos != ipos) and not (cpos > len(data) and rem == 0):
            diffs.append("%s on %s (type %d): C position %d, translated program %d" % (op, hx(data)[:80], ty, cpos, ipos))
    return diffs, cov


WRITERS = [("wsec", "prog_sbdf_sec_write", [1, 2, 3, 4, 5, 0, 255, 256, -1]), ("wi32", "prog_sbdf_write_int32", [0, 1, -1, 255, 256, 65536, 2147483647, -2147483648, 305419896]),
           ("w7", "prog_sbdf_write_7bitpacked_int32", [0, 1, 127, 128, 16383, 16384, 2097151, 2097152, 268435455, 268435456, 2147483647]),
           ("wvt", "prog_sbdf_vt_write", [1, 2, 10, 12, 254, 0]), ("wi8", "prog_sbdf_write_int8", [0, 1, 127, 128, 255]), ("wend", "prog_sbdf_ts_write_end", [None])]


def run_writers(ctx, rng, n):
    """the byte-level writers under every byte budget: status and the bytes that went out"""
    plan = []; cases = []
    for i in range(n):
        op, prog, vals = rng.choice(WRITERS)
        v = rng.choice(vals)
        if op in ("wi32", "w7") and rng.random() < 0.4: v = rng.randint(0, 2 ** 31 - 1) if op == "w7" else rng.randint(-2 ** 31, 2 ** 31 - 1)
        B = rng.choice([0, 1, 2, 3, 4, 5, 6, 100])
        lines = ["out 1 %d" % B, ("%s 1" % op) if v is None else "%s 1 %d" % (op, v), "bytes 1"]
        cases.append(Case("w%d" % i, lines, compare=False)); plan.append((op, prog, v, B))
    res = vlib.run_cases(cases, ctx["harness"], None)
    coq = os.path.join(vlib.V, "coq")
    d = tempfile.mkdtemp(prefix="impdiffw-", dir=vlib.CACHE)
    evals = []
    for (op, prog, v, B) in plan:
        args = "[tok]" if v is None else "[tok; VInt (%d)]" % v
        evals.append("outW (callE prog_env 200 %s %s [] %d)" % (prog, args, B))
    src = """From Sbdf Require Import ImpCall Gen.Prog ImpBase.
From Coq Require Import List ZArith. Import ListNotations.
Local Open Scope Z_scope.
Definition outW (o : outcome) : Z * list Z := match o with OReturn (VInt st) fin => (st, outb fin) | OFault => (1000, []) | OFuel => (2000, []) | _ => (3000, []) end.
Eval vm_compute in [%s].
""" % ";\n  ".join(evals)
    open(os.path.join(d, "Cases.v"), "w").write(src)
    with vlib.Lock():
        ok, log = vlib.coq_make(["ImpCall.vo", "Gen/Prog.vo", "ImpBase.vo"])
    try:
        r = subprocess.run(["timeout", "600", "coqc", "-Q", coq, "Sbdf", "Cases.v"], cwd=d, capture_output=True, text=True, timeout=700)
    finally:
        shutil.rmtree(d, ignore_errors=True)
    cov = {"imp_writer_runs": len(plan), "imp_writer_compared": 0}
    if r.returncode != 0:
        return ["the generated writers could not be run in Coq (exit %d): %s" % (r.returncode, (r.stdout + r.stderr)[-400:])], cov
    items = re.findall(r"\((-?\d+),\[([0-9;]*)\]\)", re.sub(r"\s|%Z", "", r.stdout))
    if len(items) != len(plan):
        return ["unexpected output of the Coq run of the writers (%d results for %d runs)" % (len(items), len(plan))], cov
    diffs = []
    for i, ((op, prog, v, B), (st, bl)) in enumerate(zip(plan, items)):
        c, _ = res.get("w%d" % i, (None, None))
        if c is None or c.crash: diffs.append("%s %s: the C side crashed" % (op, v)); continue
        cst = int(c.val(2).split()[0]); cb = (c.val(3) or "0 ").split(" ")
        cbytes = cb[1] if len(cb) > 1 else ""
        if cbytes == "-": cbytes = ""
        ib = "".join("%02x" % int(x) for x in bl.split(";") if x != "")
        if int(st) in (1000, 2000): continue
        cov["imp_writer_compared"] += 1
        if int(st) != cst or ib != cbytes:
            diffs.append("%s %s with budget %d: C status %d bytes %s, translated program status %s bytes %s" % (op, v, B, cst, cbytes, st, ib))
    return diffs, cov


def run_ts(ctx, rng, n):
    """sbdf_ts_read (translated: flag array subset[i], t->columns + i as an out-cell, sbdf_cs_skip / sbdf_cs_read / sbdf_ts_destroy as
    callees) against the compiled function: table slices of 0..3 columns, with and without a column subset, complete or cut, under
    allocation schedules - status and stream position"""
    from vlib import name_hex
    cases = []; plan = []
    for i in range(n):
        ncols = rng.choice([0, 1, 2, 3])
        e = G.Enc(False)
        e.sec(rng.choice([3, 3, 3, 3, 5, 4])); e.i32(rng.choice([ncols, ncols, ncols, ncols, ncols + 1, -1]))
        tys = []
        for c in range(ncols):
            ty = rng.choice([t for t in ALLTYPES])
            cnt = rng.choice([0, 1, 2, 5])
            elems = rand_array(rng, ty, cnt)
            if ty in (STRING, BINARY): elems = [x[:6] for x in elems]
            lay = G.random_layout(rng, ty, elems)
            e.sec(4); e.va(ty, elems, lay)
            props = rng.sample([(b"IsInvalid", BOOL), (b"p", 2)], rng.choice([0, 0, 1]))
            e.i32(len(props))
            for pn, pty in props:
                pel = rand_array(rng, pty, cnt)
                e.string(pn); e.va(pty, pel, G.random_layout(rng, pty, pel))
            tys.append(ty)
        body = bytes(e.b)
        kind = rng.choice(["full", "full", "full", "cut", "trail"])
        if kind == "cut": data = body[:rng.randint(0, len(body))]
        elif kind == "trail": data = body + bytes([rng.getrandbits(8)])
        else: data = body
        if len(data) > 400: continue
        sub = rng.choice(["*", "*", "".join(rng.choice("01") for _ in range(ncols)) or "*", "skip"])
        fail = rng.choice([-1, -1, 0, 1, 2, 3, 4, 6, 9])
        lines = ["mdnew 1", "tmnew 1 1"]
        for c in range(ncols):
            lines += ["mdnew %d" % (c + 2), "cmset %d %s %d" % (c + 2, name_hex(b"c%d" % c), tys[c]), "tmadd 1 %d" % (c + 2)]
        lines += ["in 1 %s" % hx(data), ("allocfail %d" % fail) if fail >= 0 else "nallocs", ("skts 1 1" if sub == "skip" else "rts 1 31 1 %s" % sub), "pos 1"]
        cases.append(Case("t%d" % len(plan), lines, compare=False)); plan.append((ncols, data, sub, fail, len(lines)))
    res = vlib.run_cases(cases, ctx["harness"], None)
    coq = os.path.join(vlib.V, "coq")
    d = tempfile.mkdtemp(prefix="impdiffts-", dir=vlib.CACHE)
    evals = []
    for (ncols, data, sub, fail, nl) in plan:
        sl = "[%s]" % "; ".join(str(b) for b in data)
        if sub == "skip":
            evals.append("outC (callC prog_env %d prog_sbdf_ts_skip [tok; VCell 0 0] [] (%d) %s [Some [VNull; VInt %d; VNull]])" % (FUEL, fail, sl, ncols)); continue
        mem = [] if sub == "*" else [int(ch != "0") for ch in sub] + [0]
        subv = "VNull" if sub == "*" else "VPtr RIn 0"
        evals.append("outC (callC prog_env %d prog_sbdf_ts_read [tok; VCell 0 0; %s; tok] [%s] (%d) %s [Some [VNull; VInt %d; VNull]])"
                     % (FUEL, subv, "; ".join(str(x) for x in mem), fail, sl, ncols))
    src = """From Sbdf Require Import ImpCall Gen.Prog ImpBase.
From Coq Require Import List ZArith. Import ListNotations.
Local Open Scope Z_scope.
Definition outC (o : outcome) : Z * Z := match o with OReturn (VInt st) fin => (st, match Imp.lookup strm_var (vars fin) with Some (VBytes l) => Z.of_nat (List.length l) | _ => -1 end) | OFault => (1000, 0) | OFuel => (2000, 0) | _ => (3000, 0) end.
Eval vm_compute in [%s].
""" % ";\n  ".join(evals)
    open(os.path.join(d, "Cases.v"), "w").write(src)
    with vlib.Lock():
        ok, log = vlib.coq_make(["ImpCall.vo", "Gen/Prog.vo", "ImpBase.vo"])
    try:
        r = subprocess.run(["timeout", "600", "coqc", "-Q", coq, "Sbdf", "Cases.v"], cwd=d, capture_output=True, text=True, timeout=700)
    finally:
        shutil.rmtree(d, ignore_errors=True)
    cov = {"imp_ts_runs": len(plan), "imp_ts_compared": 0, "imp_ts_not_comparable": 0}
    if r.returncode != 0:
        return ["the generated sbdf_ts_read could not be run in Coq (exit %d): %s" % (r.returncode, (r.stdout + r.stderr)[-400:])], cov
    pairs = re.findall(r"\((-?\d+),(-?\d+)\)", re.sub(r"\s|%Z", "", r.stdout))
    if len(pairs) != len(plan):
        return ["unexpected output of the Coq run of sbdf_ts_read (%d results for %d runs)" % (len(pairs), len(plan))], cov
    diffs = []
    for idx, ((ncols, data, sub, fail, nl), (st, rem)) in enumerate(zip(plan, pairs)):
        st, rem = int(st), int(rem)
        c, _ = res.get("t%d" % idx, (None, None))
        if c is None or c.crash:
            diffs.append("ts_read on %s: the C side crashed" % hx(data)[:60]); continue
        cst = c.val(nl - 1); cpos = c.val(nl)
        if cst is None or cpos is None: continue
        cst = int(cst.split()[0]); cpos = int(cpos)
        if st in (1000, 2000): cov["imp_ts_not_comparable"] += 1; continue
        cov["imp_ts_compared"] += 1
        if st != cst:
            diffs.append("sbdf_ts_read on %s (subset %s%s): C status %d, translated program %d" % (hx(data)[:80], sub, ", allocation %d fails" % fail if fail >= 0 else "", cst, st)); continue
        ipos = len(data) - rem
        if cst == 0 and cpos != ipos and not (cpos > len(data) and rem == 0):
            diffs.append("sbdf_ts_read on %s (subset %s): C position %d, translated program %d" % (hx(data)[:80], sub, cpos, ipos))
    return diffs, cov
