"""C05 - hostile or corrupt input never breaks memory safety."""
import os, glob, struct
from vlib import Case, hx
from checks import sbdfgen as G
from checks.tablecases import parse_session

LEVEL = "proof"
LEAKS_MATTER = True
RULE = ("one case = one byte string read in a complete session (header, table metadata, every accessor, slices with all columns / a "
        "subset / sbdf_ts_skip, decode of every array, re-write, destruction) on the ASan+UBSan build with the allocator ledger: "
        "field-aware mutations of valid files (every count / length / type / flag / marker field replaced by boundary values), "
        "truncations, splices of two files, duplicated and deleted ranges, unstructured bytes; checked: no sanitizer report, "
        "nothing left allocated, only documented statuses, no output argument set by a failed call, same observations as the model; "
        "non-trivial = the byte string differs from a valid file; distinct = script hash")
TRUSTED = ["L1 model coq/*.v with the allocation cap (cap = Some 2^26) for the status comparison", "ASan/UBSan and the harness's allocator ledger speak for the C pointer arithmetic"]
ASSUMES = ["allocations above 64 MiB fail (harness allocator), smaller ones succeed"]

DOCUMENTED = set(range(-21, 1)) | {-1000}
BOUNDARY32 = [-1, 0, 1, 2, 127, 128, 255, 256, 65535, 65536, (1 << 24), (1 << 26) + 1, (1 << 27) + 1, (1 << 28) + 1, (1 << 29) + 1, (1 << 30), 2147483647, -2147483648, -2, 7, 8, 9, 16777215]


def classify_diff(case, diffs):
    return "correspondence"


def filter_diffs(case, diffs, cobs, mobs):
    # allocations above the cap are refused on the C side at sites the model does not track (decode buffers)
    if cobs.end and cobs.end.get("refused"):
        return []
    return diffs


def oracle_session(c, line_no=2):
    f = []
    d = parse_session(c.val(line_no))
    for k in ("fh", "tm", "end"):
        if d[k] is not None and d[k] not in DOCUMENTED:
            f.append("undocumented status %d from the %s stage" % (d[k], k))
    if "out=set" in c.ann.get(line_no, ""):
        f.append("a failed read left its output argument set")
    return f


def mutate(rng, data, fields):
    kind = rng.random()
    b = bytearray(data)
    if kind < 0.55 and fields:
        for _ in range(rng.choice([1, 1, 1, 2, 3])):
            (fk, off, w, note) = rng.choice(fields)
            if w == 4: b[off:off + 4] = struct.pack("<i", rng.choice(BOUNDARY32))
            elif w == 1: b[off] = rng.choice([0, 1, 2, 3, 4, 5, 10, 11, 12, 13, 14, 0x7f, 0x80, 0xfe, 0xff, b[off] ^ 1, b[off] ^ 0x80])
            else: b[off:off + w] = bytes(rng.getrandbits(8) for _ in range(w))
        return bytes(b), "field"
    if kind < 0.7:
        n = rng.randint(0, len(b)); return bytes(b[:n]), "truncate"
    if kind < 0.8:
        i = rng.randint(0, len(b)); j = min(len(b), i + rng.choice([1, 2, 4, 8, 30])); return bytes(b[:i] + b[j:]), "delete"
    if kind < 0.9:
        i = rng.randint(0, len(b)); j = min(len(b), i + rng.choice([1, 4, 16, 60])); return bytes(b[:j] + b[i:j] + b[j:]), "duplicate"
    for _ in range(rng.choice([1, 2, 5, 20])):
        if b: b[rng.randrange(len(b))] = rng.getrandbits(8)
    return bytes(b), "bytes"


def cases(rng, tier):
    n = {"quick": 1500, "thorough": 60000, "search": 1500}[tier]
    pool = []
    for i in range({"quick": 40, "thorough": 400, "search": 30}[tier]):
        t = G.rand_table(rng, maxrows=12)
        layouts = {}
        for si, sl in enumerate(t["slices"]):
            for ci, col in enumerate(sl):
                layouts[(si, ci, -1)] = G.random_layout(rng, t["cols"][ci]["ty"], col["vals"])
                for pi, (pn, pty, elems, pk) in enumerate(col["props"]):
                    layouts[(si, ci, pi)] = G.random_layout(rng, pty, elems)
        e = G.encode_table(t, layouts=layouts)
        if len(e.b) <= 4000: pool.append((bytes(e.b), [f for f in e.fields if f[0] not in ("bytes", "elem", "bits", "run")], len(t["cols"])))
    files = sorted(glob.glob(os.path.join(os.environ.get("SBDF_REPO", "/repo"), "tests", "samples", "*.sbdf")), key=os.path.getsize)[:12]
    for p in files:
        data = open(p, "rb").read()
        if len(data) <= 8000: pool.append((data, [], 3))
    # structured hostile run-length arrays: runs / values / row count inconsistent in every direction
    from vlib import ALLTYPES, rand_array
    for i in range({"quick": 150, "thorough": 3000, "search": 100}[tier]):
        ty = rng.choice(ALLTYPES)
        nv = rng.choice([0, 1, 2, 3, 5]); nr = rng.choice([nv, nv, nv + 1, nv + 3, max(0, nv - 1), 0])
        runs = [rng.choice([0, 0, 1, 2, 255]) for _ in range(nr)]
        total = sum(r + 1 for r in runs)
        rowcount = rng.choice([total, total, total, total + 1, max(0, total - 1), 0, total + 256])
        vals = rand_array(rng, ty, nv)
        t = {"tmeta": [], "cols": [{"name": b"c", "ty": ty, "extra": []}], "slices": [[{"vals": [], "enc": G.PLAIN, "props": []}]]}
        e = G.encode_table(t, layouts={(0, 0, -1): ("rawrle", rowcount, runs, vals)})
        yield Case("r%d" % i, ["in 1 %s" % hx(bytes(e.b)), "session 1 *"], oracle=oracle_session,
                   meta={"dist": {"mutation": "rle-structure", "runs_vs_values": "more" if nr > nv else "fewer" if nr < nv else "equal",
                                  "rows_vs_runs": "equal" if rowcount == total else "differ"}})
    # element counts whose byte size wraps 32 bits for the element width (2^32 / 4, / 8, / 16, and a little more): a size
    # computed in unsigned int comes out tiny while the count stays huge
    from vlib import FIXED
    wrap_cases = 0
    for ty in (2, 4, 3, 5, 13, 6):
        w = FIXED[ty]
        for extra in (0, 1, 3):
            cnt = (1 << 32) // w + extra
            if cnt >= 1 << 31: continue
            nrows = rng.choice([1, 3, 40])
            t = {"tmeta": [], "cols": [{"name": b"c", "ty": ty, "extra": []}], "slices": [[{"vals": rand_array(rng, ty, nrows, "random"), "enc": G.PLAIN, "props": []}]]}
            e = G.encode_table(t)
            data = bytearray(e.b)
            offs = [f for f in e.fields if f[0] == "arrcount" and f[1] > 20]
            if not offs: continue
            (fk, off, fw, note) = offs[-1]
            data[off:off + 4] = struct.pack("<i", cnt)
            wrap_cases += 1
            yield Case("w%d" % wrap_cases, ["in 1 %s" % hx(bytes(data)), "session 1 *"], oracle=oracle_session, meta={"dist": {"mutation": "count-wraps-32-bit-size"}})
    # bit-packed arrays whose type byte is not the boolean type (a writer never produces that, a stream can say it): what
    # is decoded from the bits is one byte per row whatever the byte says
    bt_cases = 0
    for ty in ALLTYPES:
        for nrows, where in ((3, "col"), (9, "col"), (70, "col"), (5, "prop")):
            colty = ty if where == "col" else rng.choice(ALLTYPES)
            bools = rand_array(rng, G.BOOL, nrows)
            if where == "col":
                t = {"tmeta": [], "cols": [{"name": b"c", "ty": G.BOOL, "extra": []}], "slices": [[{"vals": bools, "enc": G.BIT, "props": []}]]}
            else:
                t = {"tmeta": [], "cols": [{"name": b"c", "ty": colty, "extra": []}],
                     "slices": [[{"vals": rand_array(rng, colty, nrows), "enc": G.PLAIN, "props": [(b"IsInvalid", G.BOOL, bools, G.BIT)]}]]}
            e = G.encode_table(t)
            data = bytearray(e.b)
            offs = [f for f in e.fields if f[0] == "vatype" and f[3].endswith("bit")]
            if not offs: continue
            (fk, off, fw, note) = offs[-1]
            data[off] = ty
            bt_cases += 1
            yield Case("bt%d" % bt_cases, ["in 1 %s" % hx(bytes(data)), "session 1 *"], oracle=oracle_session, meta={"dist": {"mutation": "bit-array-type-byte", "where": where}})
    # column slices whose property list names a property twice (the API refuses that, a stream can say it)
    for i in range({"quick": 40, "thorough": 800, "search": 30}[tier]):
        t = G.rand_table(rng, ncols=rng.choice([1, 2, 3]), nslices=rng.choice([1, 2]), maxrows=6)
        for sl in t["slices"]:
            col = rng.choice(sl)
            rows = len(col["vals"])
            pty = rng.choice([G.BOOL, 2, G.STRING])
            nm = rng.choice([b"IsInvalid", b"ErrorCode", b"p", b""])
            col["props"] = [p for p in col["props"] if p[0] != nm]
            for _ in range(rng.choice([2, 2, 3])):
                col["props"].insert(rng.randint(0, len(col["props"])), (nm, pty, rand_array(rng, pty, rows), rng.choice([G.PLAIN, G.RLE, G.DFLT])))
        e = G.encode_table(t)
        mode = rng.choice(["*", "*", "skip", "".join(rng.choice("01") for _ in t["cols"])])
        yield Case("d%d" % i, ["in 1 %s" % hx(bytes(e.b)), "session 1 %s" % mode], oracle=oracle_session, meta={"dist": {"mutation": "duplicate-property-name"}})
    # table-level metadata entries without a value (has-value flag 0), alone and next to ordinary ones
    for i in range({"quick": 60, "thorough": 1000, "search": 40}[tier]):
        t = G.rand_table(rng, maxrows=5)
        from vlib import rand_elem
        for j in range(rng.choice([1, 2])):
            ty = rng.choice(ALLTYPES)
            t["tmeta"].insert(rng.randint(0, len(t["tmeta"])), (b"NoValue%d" % j, ty, None, rand_elem(rng, ty) if rng.random() < 0.5 else None))
        e = G.encode_table(t)
        yield Case("v%d" % i, ["in 1 %s" % hx(bytes(e.b)), "session 1 *"], oracle=oracle_session, meta={"dist": {"mutation": "valueless-entry"}})
    for i in range(n):
        data, fields, ncols = rng.choice(pool)
        if rng.random() < 0.06:
            m = bytes(rng.getrandbits(8) for _ in range(rng.choice([0, 1, 3, 5, 16, 64, 300]))); kind = "random"
            if rng.random() < 0.5: m = b"\xdf\x5b\x01\x01\x00\xdf\x5b\x02" + m
        elif rng.random() < 0.08:
            other = rng.choice(pool)[0]; i1 = rng.randint(0, len(data)); i2 = rng.randint(0, len(other)); m = data[:i1] + other[i2:]; kind = "splice"
        else:
            m, kind = mutate(rng, data, fields)
        mode = rng.choice(["*", "*", "skip", "".join(rng.choice("01") for _ in range(max(ncols, 1)))])
        yield Case("m%d" % i, ["in 1 %s" % hx(m), "session 1 %s" % mode], oracle=oracle_session, nontrivial=(m != data),
                   meta={"dist": {"mutation": kind, "mode": "all" if mode == "*" else "skip" if mode == "skip" else "subset"}})
