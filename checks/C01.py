"""C01 - write-then-read round trip preserves the whole table."""
from vlib import Case
from checks import sbdfgen as G
from checks.tablecases import roundtrip_case

LEVEL = "proof"
RULE = ("one case = one logical table built through the public API (sbdf_md_*, sbdf_cm_set_values, sbdf_tm_*, sbdf_obj_create_arr, "
        "sbdf_va_create*, sbdf_cs_*, sbdf_ts_*), written (header, metadata, slices, end) and read back in a full session; "
        "non-trivial = at least one column; distinct = script hash")
TRUSTED = ["L1 model coq/*.v (hand-written, tied by correspondence)", "checks/sbdfgen.py (logical tables and expected decoded content)"]
ASSUMES = ["allocation never fails", "counts and byte sizes below 2^31", "every slice has as many columns as the metadata"]


# same-named column metadata whose defaults are equal as numbers and differ as bits: the writer must refuse them like any other
# differing defaults (signed zeros; NaNs that differ in sign or payload), float and double
FLOAT_TWINS = [(4, bytes.fromhex("00000000"), bytes.fromhex("00000080")), (4, bytes.fromhex("0000c07f"), bytes.fromhex("0100c07f")),
               (4, bytes.fromhex("0000c07f"), bytes.fromhex("0000c0ff")),
               (5, bytes.fromhex("0000000000000000"), bytes.fromhex("0000000000000080")),
               (5, bytes.fromhex("000000000000f87f"), bytes.fromhex("010000000000f87f")), (5, bytes.fromhex("000000000000f87f"), bytes.fromhex("000000000000f8ff"))]


def cases(rng, tier):
    n = {"quick": 260, "thorough": 6000, "search": 300}[tier]
    maxrows = {"quick": 60, "thorough": 600, "search": 40}[tier]
    for j, (ety, d1, d2) in enumerate(FLOAT_TWINS):
        t = G.rand_table(rng, ncols=rng.choice([2, 3]), nslices=1, maxrows=4)
        a, b = rng.sample(range(len(t["cols"])), 2)
        t["cols"][a]["extra"].append((b"Clash", ety, d1, d1))
        t["cols"][b]["extra"].append((b"Clash", ety, d2, d2))
        t["conflict"] = "dflt-float"
        yield roundtrip_case("ft%d" % j, t, rng)
    for i in range(n):
        k = rng.random()
        if k < 0.15:
            t = G.rand_table(rng, ncols=rng.choice([2, 3, 4]), conflict=True, maxrows=8)
        elif k < 0.25:
            t = G.rand_table(rng, ncols=rng.choice([1, 2]), nslices=1, maxrows=rng.choice([255, 256, 257, 512, 513, 600]))
        else:
            t = G.rand_table(rng, maxrows=maxrows)
        yield roundtrip_case("t%d" % i, t, rng)


def be_cases(rng, tier):
    """the same round trips in the library's big-endian configuration - where fixed-size values are converted on the way
    out - including a write that fails part-way followed by a second write of the same table (what was built must still
    read back as built)"""
    from checks import C17
    n = {"quick": 60, "thorough": 1200, "search": 40}[tier]
    for i, c in enumerate(C17.cases(rng, tier)):
        if i >= n: break
        yield c
