"""C10 - metadata collections behave as an insertion-ordered map with a one-way freeze."""
import itertools
from vlib import Case, hx, ALLTYPES, rand_elem, obj_line, name_hex
from checks import sbdfgen as G

LEVEL = "proof"
RULE = ("one case = one sequence of create / add (generic, string, integer) / remove / get / get-default / exists / count / copy "
        "(also onto itself) / freeze operations over 3 collections, 4 names and a pool of values (singletons of several types, a "
        "two-element array, defaults of the same and of another type), every result and the full content (in order) observed after "
        "each mutator; all sequences to depth 4 over a reduced alphabet are enumerated (quick), random sequences up to 120 "
        "operations; metadata held by a table-metadata object (built or read) is probed with every mutator; "
        "non-trivial = at least 3 operations including a mutator; distinct = script hash")
TRUSTED = ["L1 model coq/Md.v, proved to refine the abstract insertion-ordered map (coq/MdFacts.v)"]
ASSUMES = ["names are C strings (no embedded NUL) at the API"]


def classify_diff(case, diffs):
    return "violation"


def filter_diffs(case, diffs, cobs, mobs):
    # which of several applicable argument errors is reported first is not fixed by the property
    soft = {"-12", "-6", "-8"}
    return [d for d in diffs if not (d[2] in soft and d[3] in soft)]


NAMES = [b"a", b"b", b"Name", b"long name with spaces"]


def value_pool(rng):
    pool = [(2, [b"\x01\0\0\0"]), (2, [b"\x02\0\0\0"]), (10, [b"x"]), (10, [b""]), (12, [b"\0\1"]), (5, [bytes(8)]),
            (2, [b"\x01\0\0\0", b"\x02\0\0\0"]), (10, []), (13, [bytes(16)])]
    for _ in range(3):
        ty = rng.choice(ALLTYPES); pool.append((ty, [rand_elem(rng, ty)]))
    return pool


def op_lines(rng, op, mds, nobj, pool_handles):
    m = rng.choice(mds); nm = name_hex(rng.choice(NAMES))
    if op == "add":
        v = rng.choice(pool_handles); d = rng.choice(pool_handles + ["~", "~", "~"])
        return ["mdadd %d %s %s %s" % (m, nm, v, d)]
    if op == "addstr":
        return ["mdaddstr %d %s %s %s" % (m, nm, hx(rng.choice([b"v", b"", b"value 2"])), rng.choice(["~", hx(b"d"), "-"]))]
    if op == "addint":
        return ["mdaddint %d %s %d %d" % (m, nm, rng.choice([0, 1, -1, 70000]), rng.choice([0, 5]))]
    if op == "rm": return ["mdrm %d %s" % (m, nm)]
    if op == "get": nobj[0] += 1; return ["mdget %d %d %s" % (nobj[0], m, nm)]
    if op == "dflt": nobj[0] += 1; return ["mddflt %d %d %s" % (nobj[0], m, nm)]
    if op == "exists": return ["mdexists %d %s" % (m, nm)]
    if op == "cnt": return ["mdcnt %d" % m]
    if op == "copy":
        src = rng.choice(mds); return ["mdcopy %d %d" % (src, m), "mddump %d" % m]
    if op == "freeze": return ["mdfreeze %d" % m]
    return []


MUT = {"add", "addstr", "addint", "rm", "copy", "freeze"}


def history_case(cid, rng, nops, ops=None):
    mds = [1, 2, 3]
    L = ["mdnew 1", "mdnew 2", "mdnew 3"]
    pool = value_pool(rng); handles = []
    for i, (ty, el) in enumerate(pool):
        L.append(obj_line(50 + i, ty, el)); handles.append(str(50 + i))
    nobj = [200]
    kinds = ["add"] * 4 + ["addstr", "addint", "rm", "rm", "get", "get", "dflt", "exists", "cnt", "copy", "copy", "freeze"]
    nmut = 0
    seq = ops if ops is not None else [rng.choice(kinds) for _ in range(nops)]
    for op in seq:
        if op == "freeze" and ops is None and rng.random() < 0.6: op = "cnt"
        L += op_lines(rng, op, mds, nobj, handles)
        if op in MUT:
            nmut += 1
            L.append("mddump %d" % rng.choice(mds))
    for m in mds: L.append("mddump %d" % m)
    return Case(cid, L, nontrivial=(len(seq) >= 3 and nmut >= 1), meta={"dist": {"ops": min(len(seq), 120) // 20 * 20}})


def frozen_case(cid, rng, via, bare=None):
    """metadata held by a table-metadata object, built through the API or returned by the reader, is frozen"""
    t = G.rand_table(rng, ncols=rng.choice([1, 2, 3]), nslices=0)
    if not t["tmeta"]: t["tmeta"].append((b"a", 2, b"\1\0\0\0", None))
    L, tmh, _ = G.table_script(t)
    if bare is not None:
        # no column, or columns without any metadata entry: the file-wide name list is empty
        t = {"tmeta": [(b"a", 2, b"\1\0\0\0", b"\2\0\0\0")], "cols": [{}] * bare}
        L = ["mdnew 1", "mdaddint 1 %s 1 2" % name_hex(b"a"), "tmnew 1 1"]
        for k in range(bare):
            L += ["mdnew %d" % (5 + k), "tmadd 1 %d" % (5 + k)]
        tmh = 1
    if via == "read":
        L += ["out 1", "wfh 1", "wtm 1 %d" % tmh, "inw 1 1", "rfh 1", "rtm 1 2"]
        tmh = 2
    probes = []
    L.append(obj_line(90, 2, [b"\x07\0\0\0"]))
    for idx in [-1] + list(range(len(t["cols"]))):
        a = 20 + idx + 1
        L.append("tmmd %d %d %d" % (a, tmh, idx))
        before = len(L) + 1
        L.append("mddump %d" % a)
        for ln in ["mdadd %d %s 90 ~" % (a, name_hex(b"fresh")), "mdaddstr %d %s 76 ~" % (a, name_hex(b"fresh2")), "mdaddint %d %s 1 2" % (a, name_hex(b"fresh3")),
                   "mdrm %d %s" % (a, name_hex(b"Name")), "mdrm %d %s" % (a, name_hex(b"a")), "mdrm %d %s" % (a, name_hex(b"absent")), "mdcopy 1 %d" % a]:
            L.append(ln); probes.append(len(L))
        L.append("mddump %d" % a)
        probes.append((before, len(L)))

    def oracle(c):
        f = []
        for p in probes:
            if isinstance(p, tuple):
                if c.val(p[0]) != c.val(p[1]): f.append("metadata held by the table metadata changed under a mutator")
                if "[mod=0" not in (c.val(p[0]) or ""): f.append("metadata held by the table metadata (%s) is not frozen" % via)
            elif c.val(p) != "-10":
                f.append("mutator '%s' on frozen metadata returned %s, expected read-only" % (c.lines[p][0], c.val(p)))
        return f[:4]
    return Case(cid, L, oracle=oracle, meta={"dist": {"kind": "frozen-" + via}})


def copy_failure_cases(rng, tier):
    """copy is all or nothing also when it runs out of memory half way: the destination either has every source entry
    appended (status OK) or is exactly as before (any other status)"""
    from vlib import ALLTYPES
    for rep in range({"quick": 2, "thorough": 12, "search": 1}[tier]):
        nsrc = rng.choice([2, 3, 4]); ndst = rng.choice([0, 1, 2])
        L = ["mdnew 1", "mdnew 2"]
        for i in range(nsrc):
            ty = rng.choice(ALLTYPES)
            L += [obj_line(10 + i, ty, [rand_elem(rng, ty)]), obj_line(30 + i, ty, [rand_elem(rng, ty)]),
                  "mdadd 1 %s %d %s" % (name_hex(b"s%d" % i), 10 + i, rng.choice(["~", str(30 + i)]))]
        for i in range(ndst):
            L += ["mdaddint 2 %s %d %d" % (name_hex(b"d%d" % i), i, i + 1)]
        L += ["mddump 2"]
        i_before = len(L)
        for k in range(0, 8 * nsrc + 2):
            lines = L + ["allocfail %d" % k, "mdcopy 1 2", "mddump 2", "mdcnt 2"]
            i_copy = i_before + 2

            def oracle(c, i_before=i_before, i_copy=i_copy, nsrc=nsrc, ndst=ndst, k=k):
                st = c.val(i_copy); after = c.val(i_copy + 1); cnt = c.val(i_copy + 2)
                if st == "0":
                    return [] if cnt == str(nsrc + ndst) else ["copy returned OK but the destination has %s entries, expected %d" % (cnt, nsrc + ndst)]
                if after != c.val(i_before):
                    return ["copy failed with %s at allocation %d and left the destination changed (%s entries, had %d)" % (st, k, cnt, ndst)]
                return []
            yield Case("cf%d-%d" % (rep, k), lines, oracle=oracle, compare=False, meta={"dist": {"kind": "copy-allocation-failure"}})


def cases(rng, tier):
    idx = 0
    yield from copy_failure_cases(rng, tier)
    depth = {"quick": 4, "thorough": 5, "search": 3}[tier]
    alpha = ["add", "rm", "copy", "freeze", "get", "addstr"]
    seqs = list(itertools.product(alpha, repeat=depth))
    if tier == "quick": seqs = seqs[::2]
    for s in seqs:
        idx += 1
        yield history_case("e%d" % idx, rng, depth, ops=list(s))
    for i in range({"quick": 250, "thorough": 5000, "search": 200}[tier]):
        idx += 1
        yield history_case("h%d" % idx, rng, rng.choice([5, 10, 20, 40, 120]))
    for i in range({"quick": 30, "thorough": 300, "search": 10}[tier]):
        idx += 1
        yield frozen_case("f%d" % idx, rng, rng.choice(["build", "read"]))
    for bare in (0, 1, 2):
        for via in ("build", "read"):
            idx += 1
            yield frozen_case("f%d" % idx, rng, via, bare=bare)
