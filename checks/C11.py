"""C11 - column and table slices keep their structural invariants."""
from vlib import Case, hx, ALLTYPES, rand_array, obj_line, name_hex
from checks import sbdfgen as G
from checks.tablecases import parse_session

LEVEL = "proof"
RULE = ("one case = a column slice with a sequence of property additions (matching / mismatching row counts, fresh / duplicate "
        "names incl. duplicates of the 1st, 2nd and later properties, every encoding), each followed by lookups of every name "
        "(identity of the returned array), the row count and a dump; table slices listing the added column slices; slice streams "
        "whose column count equals / differs from the metadata (0, n-1, n+1, negative); distinct = script hash")
TRUSTED = ["L1 model coq/Slice.v"]
ASSUMES = []


def classify_diff(case, diffs):
    return "violation"


def cs_history(cid, rng, nadds):
    ty = rng.choice(ALLTYPES); rows = rng.choice([0, 1, 3, 9])
    L = [obj_line(1, ty, rand_array(rng, ty, rows)), "va 1 %d 1" % rng.choice([-1, -2, -3]), "csnew 1 1"]
    names = [b"IsInvalid", b"ErrorCode", b"p", b"", b"q q"]
    added = []          # (name, va handle) accepted, in order
    checks = []
    vah = 1; oh = 1
    for i in range(nadds):
        nm = rng.choice(names)
        r = rows if rng.random() < 0.7 else rng.choice([rows + 1, max(0, rows - 1), 0, rows + 8])
        pty = rng.choice(ALLTYPES); vah += 1; oh += 1
        L.append(obj_line(oh, pty, rand_array(rng, pty, r)))
        L.append("va %d %d %d" % (vah, rng.choice([-1, -2, -3, -4]), oh))
        L.append("csadd 1 %s %d" % (name_hex(nm), vah)); iadd = len(L)
        dup = any(a[0] == nm for a in added)
        exp = "-17" if r != rows else "-14" if dup else "0"
        if exp == "0": added.append((nm, vah))
        L.append("csrows 1"); irows = len(L)
        gets = []
        for n2 in names:
            L.append("csget %d 1 %s" % (300 + len(L), name_hex(n2)))
            hit = [a for a in added if a[0] == n2]
            gets.append((len(L), "0 same=%d" % hit[0][1] if hit else "-15"))
        L.append("csdump 1")
        checks.append((iadd, exp, irows, list(gets), len(added)))
    L += ["tsnew 1 999", "tsadd 1 1", "csnew 2 1", "tsadd 1 2", "tsdump 1", "out 1", "wcs 1 1", "bytes 1"]
    n = len(L)

    def oracle(c):
        f = []
        for (iadd, exp, irows, gets, nacc) in checks:
            if c.val(iadd) != exp: f.append("add_property returned %s, expected %s" % (c.val(iadd), exp))
            if c.val(irows) != str(rows): f.append("row count of the slice is %s, expected %d" % (c.val(irows), rows))
            for (ln, e) in gets:
                if c.val(ln) != e: f.append("get_property gave '%s', expected '%s'" % (c.val(ln), e))
            if len(f) > 3: break
        d = c.val(n - 3) or ""
        if not d.startswith("TS(own=0 cols=2 "): f.append("table slice does not list exactly the two column slices added: %s" % d[:60])
        return f[:4]
    return Case(cid, L, oracle=oracle, meta={"dist": {"adds": nadds, "rows": rows}})


def add_fails_case(cid, rng, pre, k):
    """an addition rejected because the k-th allocation inside it fails: slice unchanged, array stays with the caller"""
    ty = rng.choice(ALLTYPES); rows = rng.choice([0, 1, 3])
    L = [obj_line(1, ty, rand_array(rng, ty, rows)), "va 1 -1 1", "csnew 1 1"]
    names = [b"a", b"bb", b"IsInvalid", b"ccc", b"d"]
    for j in range(pre + 1):
        pty = rng.choice(ALLTYPES)
        L += [obj_line(2 + j, pty, rand_array(rng, pty, rows)), "va %d %d %d" % (2 + j, rng.choice([-1, -2, -3]), 2 + j)]
        if j < pre: L.append("csadd 1 %s %d" % (name_hex(names[j]), 2 + j))
    L.append("csdump 1"); ib = len(L)
    L.append("vadump %d" % (2 + pre)); iv = len(L)
    L += ["allocfail %d" % k, "csadd 1 %s %d" % (name_hex(names[pre]), 2 + pre)]; ia = len(L)
    L.append("csdump 1"); ic = len(L)
    L.append("csget 400 1 %s" % name_hex(names[pre])); ig = len(L)
    L.append("csrows 1"); ir = len(L)
    L.append("vadump %d" % (2 + pre)); iv2 = len(L)
    L += ["csadd 1 %s %d" % (name_hex(names[pre]), 2 + pre)]; ia2 = len(L)     # the caller still owns the array: adding it again works

    def oracle(c):
        st = c.val(ia)
        if st == "0":
            return [] if c.val(ig) == "0 same=%d" % (2 + pre) else ["accepted property is not retrievable"]
        f = []
        if c.val(ic) != c.val(ib): f.append("a rejected addition (status %s, allocation %d failed) changed the slice: %s -> %s" % (st, k, (c.val(ib) or "")[:50], (c.val(ic) or "")[:50]))
        if c.val(ig) != "-15": f.append("a rejected addition left the name retrievable: %s" % c.val(ig))
        if c.val(ir) != str(rows): f.append("row count changed by a rejected addition")
        if c.val(iv2) != c.val(iv): f.append("the rejected array is no longer intact with the caller")
        if c.val(ia2) != "0": f.append("adding the same array again after the rejection returned %s" % c.val(ia2))
        return f
    return Case(cid, L, oracle=oracle, compare=False, meta={"dist": {"kind": "add-fails", "pre": pre, "k": k}})


def count_case(cid, rng):
    t = G.rand_table(rng, ncols=rng.choice([0, 1, 2, 3, 4]), nslices=1, maxrows=4)
    n = len(t["cols"])
    e = G.encode_table(t)
    data = bytes(e.b)
    off = [f for f in e.fields if f[0] == "slicecols"][0][1]
    import struct
    L = []; exp = []
    for v in [n, 0, n + 1, n - 1, n + 2, 255, -1, 2147483647]:
        mutated = data[:off] + struct.pack("<i", v) + data[off + 4:]
        L += ["in 1 %s" % hx(mutated), "session 1 *"]
        exp.append((v, 0 if v == n else -21 if v < 0 else -19))

    # the same (matching) stream read with column subsets, de-selected columns at the front / in the middle / at the end
    subs = []
    if n:
        subs = sorted(set(["1" * j + "0" * (n - j) for j in range(n + 1)] + ["".join(rng.choice("01") for _ in range(n)) for _ in range(3)]))
        for sub in subs:
            L += ["in 1 %s" % hx(data), "session 1 %s" % sub]
    nexp = len(exp)

    def oracle(c):
        f = []
        for j, sub in enumerate(subs):
            d = parse_session(c.val(2 * (nexp + j) + 2))
            if d["end"] != -1000 or ("TS(own=1 cols=%d " % n) not in (d["line"] or "") + " ":
                f.append("slice read with subset %s does not have the metadata's %d columns: %s" % (sub, n, (d["line"] or "")[:120]))
        for j, (v, e_) in enumerate(exp):
            d = parse_session(c.val(2 * j + 2))
            if e_ == 0:
                if d["end"] != -1000 or ("TS(own=1 cols=%d" % n) not in (d["line"] or ""): f.append("slice with the metadata's column count (%d) not read: end=%s" % (n, d["end"]))
            elif d["end"] != e_ or d["n"] != 0:
                f.append("slice declaring %d columns against metadata with %d: end=%s n=%s, expected %d and no slice" % (v, n, d["end"], d["n"], e_))
        return f[:4]
    return Case(cid, L, oracle=oracle, meta={"dist": {"kind": "colcount", "cols": n}})


def read_then_add_case(cid, rng, n):
    """a slice handed out by the reader keeps the invariants the mutators rely on: a column slice can be appended to it"""
    t = G.rand_table(rng, ncols=n, nslices=1, maxrows=3)
    data = bytes(G.encode_table(t).b)
    ty = rng.choice(ALLTYPES)
    L = ["in 1 %s" % hx(data), "rfh 1", "rtm 1 50", "rts 1 50 50", "tsdump 50",
         obj_line(1, ty, rand_array(rng, ty, 2)), "va 1 -1 1", "csnew 1 1", "tsadd 50 1", "tsdump 50",
         "csnew 2 1", "tsadd 50 2", "tsdump 50", "csforget 1", "csforget 2"]

    def oracle(c):
        f = []
        if c.val(4) != "0": return ["reading the slice failed: %s" % c.val(4)]
        for ln, want in ((9, n + 1), (12, n + 2)):
            if c.val(ln) != "0": f.append("sbdf_ts_add on a slice built by the reader returned %s" % c.val(ln))
            elif ("cols=%d " % want) not in (c.val(ln + 1) or "") + " ": f.append("after the addition the slice does not list %d columns: %s" % (want, (c.val(ln + 1) or "")[:60]))
        return f
    return Case(cid, L, oracle=oracle, compare=False, meta={"dist": {"kind": "read-then-add", "cols": n}})


def cases(rng, tier):
    idx = 0
    for n in ([1, 2, 3, 4, 5, 6, 7, 8, 11, 12] if tier != "search" else [3, 5]):
        idx += 1
        yield read_then_add_case("ra%d" % idx, rng, n)
    for i in range({"quick": 300, "thorough": 6000, "search": 200}[tier]):
        idx += 1
        yield cs_history("a%d" % idx, rng, rng.choice([1, 2, 3, 4, 6, 10]))
    for i in range({"quick": 60, "thorough": 800, "search": 30}[tier]):
        idx += 1
        yield count_case("n%d" % idx, rng)
    for rep in range({"quick": 1, "thorough": 20, "search": 1}[tier]):
        for pre in range(0, 5):
            for k in range(1, 5):
                idx += 1
                yield add_fails_case("af%d" % idx, rng, pre, k)
