"""C11 - column and table slices keep their structural invariants."""
from vlib import Case, hx, ALLTYPES, rand_array, obj_line, name_hex
from checks import sbdfgen as G
from checks.tablecases import parse_session

LEVEL = "proof"
RULE = ("one case = a column slice with a sequence of property additions (matching / mismatching row counts, fresh / duplicate "
        "names incl. duplicates of the 1st, 2nd and later properties, every encoding), each followed by lookups of every name "
        "(identity of the returned array), the row count and a dump; table slices listing the added column slices; slice streams "
        "whose column count equals / differs from the metadata (0, n-1, n+1, negative); distinct = script hash")
TRUSTED = ["L1 model coq/Slice.v"]
ASSUMES = []


def classify_diff(case, diffs):
    return "violation"


def cs_history(cid, rng, nadds):
    ty = rng.choice(ALLTYPES); rows = rng.choice([0, 1, 3, 9])
    L = [obj_line(1, ty, rand_array(rng, ty, rows)), "va 1 %d 1" % rng.choice([-1, -2, -3]), "csnew 1 1"]
    names = [b"IsInvalid", b"ErrorCode", b"p", b"", b"q q"]
    added = []          # (name, va handle) accepted, in order
    checks = []
    vah = 1; oh = 1
    for i in range(nadds):
        nm = rng.choice(names)
        r = rows if rng.random() < 0.7 else rng.choice([rows + 1, max(0, rows - 1), 0, rows + 8])
        pty = rng.choice(ALLTYPES); vah += 1; oh += 1
        L.append(obj_line(oh, pty, rand_array(rng, pty, r)))
        L.append("va %d %d %d" % (vah, rng.choice([-1, -2, -3, -4]), oh))
        L.append("csadd 1 %s %d" % (name_hex(nm), vah)); iadd = len(L)
        dup = any(a[0] == nm for a in added)
        exp = "-17" if r != rows else "-14" if dup else "0"
        if exp == "0": added.append((nm, vah))
        L.append("csrows 1"); irows = len(L)
        gets = []
        for n2 in names:
            L.append("csget %d 1 %s" % (300 + len(L), name_hex(n2)))
            hit = [a for a in added if a[0] == n2]
            gets.append((len(L), "0 same=%d" % hit[0][1] if hit else "-15"))
        L.append("csdump 1")
        checks.append((iadd, exp, irows, list(gets), len(added)))
    L += ["tsnew 1 999", "tsadd 1 1", "csnew 2 1", "tsadd 1 2", "tsdump 1", "out 1", "wcs 1 1", "bytes 1"]
    n = len(L)

    def oracle(c):
        f = []
        for (iadd, exp, irows, gets, nacc) in checks:
            if c.val(iadd) != exp: f.append("add_property returned %s, expected %s" % (c.val(iadd), exp))
            if c.val(irows) != str(rows): f.append("row count of the slice is %s, expected %d" % (c.val(irows), rows))
            for (ln, e) in gets:
                if c.val(ln) != e: f.append("get_property gave '%s', expected '%s'" % (c.val(ln), e))
            if len(f) > 3: break
        d = c.val(n - 3) or ""
        if not d.startswith("TS(own=0 cols=2 "): f.append("table slice does not list exactly the two column slices added: %s" % d[:60])
        return f[:4]
    return Case(cid, L, oracle=oracle, meta={"dist": {"adds": nadds, "rows": rows}})


def count_case(cid, rng):
    t = G.rand_table(rng, ncols=rng.choice([0, 1, 2, 3, 4]), nslices=1, maxrows=4)
    n = len(t["cols"])
    e = G.encode_table(t)
    data = bytes(e.b)
    off = [f for f in e.fields if f[0] == "slicecols"][0][1]
    import struct
    L = []; exp = []
    for v in [n, 0, n + 1, n - 1, n + 2, 255, -1, 2147483647]:
        mutated = data[:off] + struct.pack("<i", v) + data[off + 4:]
        L += ["in 1 %s" % hx(mutated), "session 1 *"]
        exp.append((v, 0 if v == n else -21 if v < 0 else -19))

    def oracle(c):
        f = []
        for j, (v, e_) in enumerate(exp):
            d = parse_session(c.val(2 * j + 2))
            if e_ == 0:
                if d["end"] != -1000 or ("TS(own=1 cols=%d" % n) not in (d["line"] or ""): f.append("slice with the metadata's column count (%d) not read: end=%s" % (n, d["end"]))
            elif d["end"] != e_ or d["n"] != 0:
                f.append("slice declaring %d columns against metadata with %d: end=%s n=%s, expected %d and no slice" % (v, n, d["end"], d["n"], e_))
        return f[:4]
    return Case(cid, L, oracle=oracle, meta={"dist": {"kind": "colcount", "cols": n}})


def cases(rng, tier):
    idx = 0
    for i in range({"quick": 300, "thorough": 6000, "search": 200}[tier]):
        idx += 1
        yield cs_history("a%d" % idx, rng, rng.choice([1, 2, 3, 4, 6, 10]))
    for i in range({"quick": 60, "thorough": 800, "search": 30}[tier]):
        idx += 1
        yield count_case("n%d" % idx, rng)
