"""C16 - packed length encoding and fixed-width integers are exact for every value."""
import struct
from vlib import Case, hx

LEVEL = "proof"
RULE = ("values n written with the 7-bit group writer and read back, their length compared with sbdf_get_7bitpacked_len, their shape "
        "checked (LSB group first, continuation bit on all but the last byte): all n < 2^12, every 2^k-2..2^k+2, around every "
        "group boundary, and a random sample (quick); 32-bit integers: boundaries and random; over-long sequences; a string of "
        "length 16384/2097152-class skipped through its byte-size header; non-trivial = all; distinct = the value")
TRUSTED = ["L1 model coq/Prim.v (enc7, read7_loop, len7, le32/de32) in arithmetic form; the bit-level form is tied by the correspondence check"]
ASSUMES = ["int is 32-bit two's complement"]


def enc7(n):
    out = bytearray(); n &= 0xffffffff
    while True:
        if n > 0x7f: out.append((n & 0x7f) | 0x80); n >>= 7
        else: out.append(n); break
    return bytes(out)


def len7(n):
    return 1 if n < 128 else 2 if n < 16384 else 3 if n < 2097152 else 4 if n < 268435456 else 5


def cases(rng, tier):
    vals = set(range(0, {"quick": 4096, "thorough": 1 << 17, "search": 512}[tier]))
    for k in range(1, 32):
        for d in (-2, -1, 0, 1, 2):
            v = (1 << k) + d
            if 0 <= v < (1 << 31): vals.add(v)
    for b in (7, 14, 21, 28):
        for d in range(-130, 131):
            v = (1 << b) + d
            if 0 <= v < (1 << 31): vals.add(v)
    vals.add((1 << 31) - 1)
    for _ in range({"quick": 3000, "thorough": 300000, "search": 2000}[tier]):
        vals.add(rng.getrandbits(rng.choice([8, 15, 22, 29, 31])))
    vals = sorted(vals)
    idx = 0
    for k in range(0, len(vals), 500):
        chunk = vals[k:k + 500]
        lines = ["out 1"]
        for v in chunk: lines.append("w7 1 %d" % v)
        lines.append("bytes 1")
        lines.append("inw 1 1")
        for v in chunk: lines.append("r7 1")
        for v in chunk: lines.append("len7 %d" % v)
        n = len(chunk)

        def oracle(c, chunk=chunk, n=n):
            f = []
            ref = b"".join(enc7(v) for v in chunk)
            got = (c.val(n + 2) or "").partition(" ")[2]
            if got != hx(ref):
                # find the first value whose encoding differs
                f.append("7-bit writer output differs from the group encoding (LSB group first, continuation bit on all but the last byte)")
            for j, v in enumerate(chunk):
                r = c.val(n + 4 + j)
                if r != "0 %d" % v: f.append("length %d read back as '%s'" % (v, r)); break
            for j, v in enumerate(chunk):
                r = c.val(2 * n + 4 + j)
                if r != str(len(enc7(v))): f.append("sbdf_get_7bitpacked_len(%d) = %s but the writer emits %d byte(s)" % (v, r, len(enc7(v)))); break
            return f
        idx += 1
        yield Case("p%d" % idx, lines, oracle=oracle, meta={"evals": 3 * n, "dist": {"kind": "7bit"}})
    # 32-bit integers
    ints = set([0, 1, -1, 127, 128, 255, 256, 65535, 65536, 2147483647, -2147483648, 16777216, -16777216, 0x01020304, -0x01020304])
    for k in range(31):
        ints.update([(1 << k), -(1 << k), (1 << k) - 1, -(1 << k) - 1 if k < 31 else 0])
    for _ in range({"quick": 2000, "thorough": 200000, "search": 1000}[tier]): ints.add(rng.getrandbits(32) - (1 << 31))
    ints = sorted(v for v in ints if -2147483648 <= v <= 2147483647)
    for k in range(0, len(ints), 500):
        chunk = ints[k:k + 500]
        lines = ["out 1"] + ["wi32 1 %d" % v for v in chunk] + ["bytes 1", "inw 1 1"] + ["ri32 1" for v in chunk]
        n = len(chunk)

        def oracle(c, chunk=chunk, n=n):
            f = []
            ref = b"".join(struct.pack("<i", v) for v in chunk)
            if (c.val(n + 2) or "").partition(" ")[2] != hx(ref): f.append("32-bit integers are not written as four little-endian bytes")
            for j, v in enumerate(chunk):
                if c.val(n + 4 + j) != "0 %d" % v: f.append("integer %d read back as '%s'" % (v, c.val(n + 4 + j))); break
            return f
        idx += 1
        yield Case("i%d" % idx, lines, oracle=oracle, meta={"evals": 2 * n, "dist": {"kind": "int32"}})
    # over-long group sequences are refused; five-byte forms with the top bits
    over = [bytes([0x80] * 5 + [1]), bytes([0xff] * 5 + [0x7f]), bytes([0x80] * 6 + [0]), bytes([0x81, 0x82, 0x83, 0x84, 0x85, 0x06]), bytes([0x80] * 9 + [1])]
    lines = []
    for o in over: lines += ["in 1 %s" % hx(o + b"\x01\x02"), "r7 1"]
    fine = [(bytes([0xff, 0xff, 0xff, 0xff, 0x07]), 2147483647), (bytes([0x80, 0x80, 0x80, 0x80, 0x00]), 0), (bytes([0x80, 0x00]), 0), (bytes([0xff, 0xff, 0xff, 0xff, 0x0f]), -1)]
    for o, v in fine: lines += ["in 1 %s" % hx(o + b"\x09"), "r7 1", "pos 1"]

    def oracle(c):
        f = []
        for j in range(len(over)):
            r = c.val(2 * j + 2)
            if r is None or r.startswith("0"): f.append("over-long sequence %s accepted: %s" % (over[j].hex(), r))
        base = 2 * len(over)
        for j, (o, v) in enumerate(fine):
            if c.val(base + 3 * j + 2) != "0 %d" % v: f.append("sequence %s read as '%s', expected %d" % (o.hex(), c.val(base + 3 * j + 2), v))
            if c.val(base + 3 * j + 3) != str(len(o)): f.append("sequence %s: reader consumed %s bytes" % (o.hex(), c.val(base + 3 * j + 3)))
        return f
    yield Case("overlong", lines, oracle=oracle, meta={"dist": {"kind": "overlong"}})
    # byte-size header vs skip for strings whose lengths sit on the group boundaries
    for ln in ([127, 128, 16383, 16384, 16385] if tier != "thorough" else [127, 128, 129, 16383, 16384, 16385, 2097151, 2097152, 2097153]):
        s = bytes([0x61 + (i % 7) for i in range(ln)])
        lines = ["obj 1 10 2 %s %s" % (hx(s), hx(b"xy")), "out 1", "wobja 1 1", "wi32 1 305419896", "bytes 1", "inw 1 1", "skobja 1 10", "pos 1", "ri32 1",
                 "inw 2 1", "robja 2 2 10", "pos 2"]

        def oracle(c, ln=ln):
            f = []
            total = 4 + 4 + len(enc7(ln)) + ln + 1 + 2
            if c.val(3) != "0": return ["write failed"]
            if c.val(8) != str(total): f.append("skip of a packed array with a %d-byte string ended at %s, the array occupies %d bytes" % (ln, c.val(8), total))
            if c.val(9) != "0 305419896": f.append("integer after the skipped array read as %s" % c.val(9))
            if c.val(12) != str(total): f.append("read of the array ended at %s, expected %d" % (c.val(12), total))
            return f
        idx += 1
        yield Case("hdr%d" % ln, lines, oracle=oracle, meta={"dist": {"kind": "header", "len": ln}})
