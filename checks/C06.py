"""C06 - a truncated file never reads as a complete table."""
import os, glob
from vlib import Case, hx
from checks import sbdfgen as G
from checks.tablecases import parse_session, first_error, find_seq

LEVEL = "proof"
RULE = ("one evaluation = one strict prefix of a valid file (library-written layout from the reference encoder, random foreign "
        "layouts, sample files) read in a full session, with all columns or a column subset; every offset 0..len-1 for the "
        "generated files of this run, a boundary window for sample files; non-trivial = the file has at least one slice; "
        "distinct = (file, offset, subset)")
TRUSTED = ["L1 model coq/*.v", "checks/sbdfgen.py reference encoder"]
ASSUMES = ["fseek beyond the end of a regular file succeeds (a skipped column may end beyond EOF; the next read fails)"]


def prefix_block(data, n, mode, t, layouts=None):
    lines = ["in %d %s" % (1, hx(data[:n])), "session 1 %s" % mode]
    return lines


def make_case(cid, data, offsets, mode, t, layouts=None, full_decs=None):
    lines = []
    for n in offsets:
        lines += ["in 1 %s" % hx(data[:n]), "session 1 %s" % mode]
    subset = None if mode == "*" else mode
    exp = full_decs

    def oracle(c):
        f = []
        for k, n in enumerate(offsets):
            d = parse_session(c.val(2 * k + 2))
            which, e = first_error(d)
            if d["end"] == -1000 or (d["fh"] == 0 and d["tm"] == 0 and d["end"] == 0):
                f.append("prefix of %d/%d bytes reached end-of-table" % (n, len(data))); continue
            if which is None:
                f.append("prefix of %d/%d bytes: no error reported (%s)" % (n, len(data), (d["line"] or "")[:80])); continue
            if e == -1000:
                f.append("prefix of %d/%d bytes reported end-of-table" % (n, len(data)))
            if exp is not None and d["n"]:
                if d["n"] > len(exp):
                    f.append("prefix of %d bytes delivered %d slices, the file has %d" % (n, d["n"], len(exp)))
                else:
                    ok, part = find_seq(d["line"], exp[:d["n"]])
                    if not ok: f.append("prefix of %d/%d bytes delivered a slice that differs from the full file's" % (n, len(data)))
        return f[:5]
    return Case(cid, lines, oracle=oracle, nontrivial=(t is None or len(t["slices"]) > 0),
                meta={"dist": {"mode": "all" if mode == "*" else "subset", "len": len(data) // 200 * 200}})


def cases(rng, tier):
    ntab = {"quick": 12, "thorough": 150, "search": 6}[tier]
    idx = 0
    for i in range(ntab):
        t = G.rand_table(rng, ncols=rng.choice([1, 2, 3, 4]), nslices=rng.choice([1, 2, 3]), maxrows={"quick": 12, "thorough": 60, "search": 8}[tier])
        if i % 4 == 0 and t["cols"]:
            # the slice ends inside a bulk read: the last column carries a property whose array is a plain / run-length
            # array of fixed-size elements (a short fread there has nothing after it that would fail)
            from vlib import rand_array, INT
            PLAIN, RLE = G.PLAIN, G.RLE
            for sl in t["slices"]:
                rows = max(len(sl[-1]["vals"]), 0)
                if rows < 3:
                    continue
                pty = rng.choice([INT, 4, 5, 2])
                sl[-1]["props"] = [p for p in sl[-1]["props"] if p[0] != b"ErrorCode"] + [(b"ErrorCode", pty, rand_array(rng, pty, rows, "random"), rng.choice([PLAIN, RLE]))]
        if i % 4 == 2 and t["cols"]:
            # ... or inside the packed bits of a bit array: the last property of the last column is a bit-packed boolean array
            from vlib import rand_array, BOOL
            for sl in t["slices"]:
                rows = len(sl[-1]["vals"])
                if rows < 1:
                    continue
                sl[-1]["props"] = [p for p in sl[-1]["props"] if p[0] != b"IsInvalid"] + [(b"IsInvalid", BOOL, rand_array(rng, BOOL, rows, "random"), G.BIT)]
        layouts = None
        if i % 2:
            layouts = {}
            for si, sl in enumerate(t["slices"]):
                for ci, col in enumerate(sl):
                    layouts[(si, ci, -1)] = G.random_layout(rng, t["cols"][ci]["ty"], col["vals"])
                    for pi, (pn, pty, elems, pk) in enumerate(col["props"]):
                        layouts[(si, ci, pi)] = G.random_layout(rng, pty, elems)
        data = bytes(G.encode_table(t, layouts=layouts).b)
        if len(data) > (3000 if tier != "thorough" else 6000):
            continue
        ncols = len(t["cols"])
        modes = ["*"]
        if ncols:
            modes.append("".join(rng.choice("01") for _ in range(ncols)))
            if tier == "thorough": modes.append("0" * ncols)
        for mode in modes:
            decs = [G.dec_ts_str(t, si, None if mode == "*" else mode, layouts) for si in range(len(t["slices"]))]
            offs = list(range(len(data)))
            for k in range(0, len(offs), 64):
                idx += 1
                yield make_case("p%d" % idx, data, offs[k:k + 64], mode, t, layouts, decs)
    # sample files: a window around every 4 KiB boundary and the last 300 offsets (quick), stride otherwise
    files = sorted(glob.glob(os.path.join(os.environ.get("SBDF_REPO", "/repo"), "tests", "samples", "*.sbdf")), key=os.path.getsize)
    nf = {"quick": 10, "thorough": 40, "search": 0}[tier]
    for p in files[:nf]:
        data = open(p, "rb").read()
        if len(data) > 20000: continue
        offs = sorted(set(list(range(0, min(len(data), 120))) + list(range(max(0, len(data) - 160), len(data))) + list(range(0, len(data), 97 if tier == "quick" else 7))))
        for k in range(0, len(offs), 32):
            idx += 1
            yield make_case("s%d" % idx, data, offs[k:k + 32], "*", None)
