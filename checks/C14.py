"""C14 - allocation failure is reported, not crashed on."""
import re
from vlib import Case, hx, ALLTYPES, STRING, BOOL, rand_array, rand_elem, obj_line, name_hex
from checks import sbdfgen as G

LEVEL = "proof"
LEAKS_MATTER = True
RULE = ("phase 1 runs each API scenario (build, encode, write, read, decode, copy, lookup) once and counts its allocation attempts "
        "N; phase 2 re-runs it once per k < N with the k-th attempt returning NULL (ASan+UBSan build, allocator redirected). "
        "Checked per (scenario, k): no sanitizer report, the call during which the failure hit returns non-OK, nothing stays "
        "allocated after releasing what was built, containers mutated by the failing call are as before the call, objects built "
        "earlier dump as in phase 1; distinct = (scenario, k)")
TRUSTED = ["L2 ledger model coq/Mem.v (objects, plain value arrays): theorems for every failure oracle; the other API calls are covered by the fault enumeration only", "harness allocator redirection (-Dmalloc=vf_malloc ...): every allocation of the library goes through it"]
ASSUMES = ["one allocation failure per run", "allocation order is deterministic"]

DUMP_AFTER = {"mdadd": ("mddump", 1), "mdaddstr": ("mddump", 1), "mdaddint": ("mddump", 1), "cmset": ("mddump", 1), "mdcopy": ("mddump", 2),
              "mdnew": ("mddump", 1), "tmnew": ("tmdump", 1), "tmadd": ("tmdump", 1), "csnew": ("csdump", 1), "csadd": ("csdump", 1),
              "tsnew": ("tsdump", 1), "tsadd": ("tsdump", 1), "va": ("vadump", 1), "obj": ("odump", 1), "ocopy": ("odump", 1),
              "vaget": ("odump", 1), "mdget": ("odump", 1), "rtm": ("tmdump", 2), "rts": ("tsdump", 2), "rva": ("vadump", 2), "rcs": ("csdump", 2)}


STATUS_OPS = set("obj objs ocopy va vaget mdnew mdadd mdaddstr mdaddint mdrm mdget mddflt mdcopy mdfreeze cmset cmname cmtype tmnew tmadd csnew csadd csget tsnew tsadd wfh wtm wts wend wcs wva wobj wobja wstr wi32 wi8 w7 wsec wvt rfh rtm rts skts rcs skcs rva skva robj robja skobj skobja rstr skstr ri32 ri8 r7 rsec rvt".split())


def scenario(rng, force=None):
    kind = force[0] if force else rng.choice(["table", "table", "values", "metadata"])
    L = []
    if kind == "table":
        t = G.rand_table(rng, ncols=rng.choice([1, 2, 3]), nslices=rng.choice([1, 2]), maxrows=5)
        S, tmh, slices = G.table_script(t)
        L += S + ["out 1", "wfh 1", "wtm 1 %d" % tmh] + ["wts 1 %d" % s for s in slices] + ["wend 1", "inw 1 1", "rfh 1", "rtm 1 50", "rts 1 50 50"]
        if t["cols"]:
            L += ["tscol 60 50 0", "csvals 70 60", "vaget 80 70", "tmmd 90 50 0", "cmname 90", "cmtype 90", "mdget 81 90 %s" % name_hex(b"Name")]
            L += ["rts 1 51 50 %s" % "".join(rng.choice("01") for _ in t["cols"]), "skts 1 50"]
    elif kind == "values":
        ty = rng.choice(ALLTYPES); n = rng.choice([0, 1, 3, 9, 300])
        if force: ty, n = force[1], force[2]
        L += [obj_line(1, ty, rand_array(rng, ty, n)), "ocopy 2 1"]
        for j, k in enumerate([-2, -3, -4, -1]):
            L += ["va %d %d 1" % (j + 1, k), "vaget %d %d" % (j + 10, j + 1), "out %d" % (j + 1), "wva %d %d" % (j + 1, j + 1), "inw %d %d" % (j + 1, j + 1), "rva %d %d" % (j + 1, j + 20), "vaget %d %d" % (j + 30, j + 20)]
        L += ["csnew 1 1", "csadd 1 70 2", "csadd 1 7071 3", "csadd 1 72 4", "out 9", "wcs 9 1", "inw 9 9", "rcs 9 2", "inw 10 9", "skcs 10"]
    else:
        L += ["mdnew 1", "mdnew 2"]
        for i in range(rng.choice([1, 3, 5])):
            ty = rng.choice(ALLTYPES)
            L += [obj_line(10 + i, ty, [rand_elem(rng, ty)]), obj_line(30 + i, ty, [rand_elem(rng, ty)]),
                  "mdadd 1 %s %d %s" % (name_hex(b"n%d" % i), 10 + i, rng.choice(["~", str(30 + i)]))]
        L += ["mdaddstr 2 6b 76 64", "mdaddint 2 6b32 1 2", "mdcopy 1 2", "mdget 50 2 %s" % name_hex(b"n0"), "mddflt 51 2 %s" % name_hex(b"n0"),
              "tmnew 1 2", "mdnew 3", "cmset 3 63 2", "tmadd 1 3", "mdnew 4", "cmset 4 6332 10", "mdcopy 1 4", "tmadd 1 4", "tmadd 1 3", "tmadd 1 4", "tmadd 1 3",
              "out 1", "wtm 1 1", "inw 1 1", "rtm 1 2", "tmmd 9 2 1", "cmname 9", "cmtype 9"]
    # observations after every constructor / mutator
    out = []
    for l in L:
        out.append(l)
        t = l.split(" ")
        if t[0] in DUMP_AFTER:
            dop, pos = DUMP_AFTER[t[0]]
            out.append("%s %s" % (dop, t[pos]))
    return out, kind


def handle_key(line):
    t = line.split(" ")
    return (t[0], t[1])


def phase2_case(cid, S, k, base):
    """base: phase-1 observations (local line -> payload) of the scenario S"""
    lines = ["strict", "allocfail %d" % k] + S + ["epilogue"]
    dumps = []     # (dump line text) for every distinct dumped handle, in order of first appearance
    seen = set()
    for l in S:
        if l.split(" ")[0].endswith("dump") and l not in seen:
            seen.add(l); dumps.append(l)
    e0 = len(lines)
    lines += dumps

    def oracle(c):
        f = []
        # where did it stop?  (line numbers: 2 header lines, then S)
        stop = None
        for i in range(3, 3 + len(S)):
            if i not in c.lines: stop = i - 1; break
            op_, pay_ = c.lines[i]
            if op_ in STATUS_OPS and pay_.split(" ")[0] not in ("0", ""):
                stop = i; break
        if stop is None:
            # nothing failed: the allocation failure was swallowed (or never reached)
            return ["allocation %d failed but every call of the scenario returned OK" % k]
        op, payload = c.lines[stop]
        fail_idx = stop - 3            # index into S of the failing call
        if payload.split(" ")[0] == "0":
            f.append("the scenario stopped at a call that returned OK (%s)" % op)
        if stop in c.ann and "out=set" in c.ann[stop]:
            f.append("the failing call (%s) left something in its output argument" % op)
        # state of every dumped handle before the failing call, from phase 1
        last = {}
        for i, l in enumerate(S[:fail_idx]):
            if l in seen: last[l] = base.get(i + 1)
        for j, d in enumerate(dumps):
            got = c.val(e0 + 1 + j)
            if d in last:
                if got != last[d]: f.append("after the failed %s (allocation %d) '%s' differs from its state before the call" % (op, k, d))
            elif got not in ("null", "absent", None):
                f.append("'%s' exists although the call creating it never succeeded" % d)
        return f[:4]
    return Case(cid, lines, oracle=oracle, compare=False, meta={"dist": {"phase": 2}})


def cases(rng, tier):
    from checks.C12 import ledger_case
    for i in range({"quick": 150, "thorough": 3000, "search": 80}[tier]):
        c = ledger_case("l%d" % i, rng, True)
        c.oracle = None           # with injected failures handles may be null: only the comparison with the ledger model counts
        yield c
    n = {"quick": 14, "thorough": 200, "search": 8}[tier]
    from vlib import BINARY
    forced = [("values", STRING, 3), ("values", BINARY, 9), ("values", BOOL, 9), ("values", 2, 3)]    # every element kind, several rows, each run
    for i in range(n):
        S, kind = scenario(rng, forced[i] if i < len(forced) else None)
        lines = ["allocs"] + S + ["allocs"]
        yield Case("s%d" % i, lines, compare=False, nontrivial=True, meta={"scenario": S, "dist": {"phase": 1, "kind": kind}})


def classify_diff(case, diffs):
    return "violation"


def followup(cases_, results, rng, tier):
    out = []
    for c in cases_:
        S = c.meta.get("scenario")
        r = results.get(c.cid)
        if not S or r is None: continue
        cobs = r[0]
        a0, a1 = cobs.ann.get(1), cobs.ann.get(len(S) + 2)
        if a0 is None or a1 is None: continue
        n = int(a1) - int(a0)
        base = {i: cobs.val(i + 1) for i in range(1, len(S) + 1)}
        ks = range(n) if tier != "search" else rng.sample(range(n), min(n, 40))
        for k in ks:
            out.append(phase2_case("%s/k%d" % (c.cid, k), S, k, base))
    return out
