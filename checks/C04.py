"""C04 - reader decodes every well-formed SBDF 1.0 stream (layouts the library's writer never emits)."""
from vlib import Case, hx, ALLTYPES, STRING, BINARY, rand_elem
from checks import sbdfgen as G
from checks.tablecases import parse_session, find_seq

LEVEL = "proof"
RULE = ("one case = one logical table encoded by the independent encoder of checks/sbdfgen.py under a random valid layout "
        "(non-maximal and exactly-256 runs, RLE/plain/bit booleans, RLE strings and binaries, permuted name list, unused names) "
        "and read in a full session; non-trivial = at least one column with at least one row; distinct = script hash")
TRUSTED = ["L1 model coq/*.v", "checks/sbdfgen.py reference encoder"]
ASSUMES = ["allocation never fails"]


def classify_diff(case, diffs):
    return "correspondence"


def expected_meta_order(t, order_names):
    from vlib import obj_dump
    def od(ty, v): return "null" if v is None else obj_dump(ty, [v])
    s = "TM [mod=0" + "".join(" (%s %s %s)" % (hx(nm), od(ty, val), od(ty, dflt)) for (nm, ty, val, dflt) in t["tmeta"]) + "]"
    s += " cols=%d" % len(t["cols"])
    for col in t["cols"]:
        ents = [(b"Name", STRING, col["name"], None), (b"DataType", BINARY, bytes([col["ty"]]), None)] + list(col["extra"])
        d = {nm: (ty, val, dflt) for (nm, ty, val, dflt) in ents}
        s += " [mod=0" + "".join(" (%s %s %s)" % (hx(nm), od(d[nm][0], d[nm][1]), od(d[nm][0], d[nm][2])) for nm in order_names if nm in d) + "]"
    return s


def big_case(cid, t, be=False):
    """a stream whose fixed-size columns are larger than any buffer a reader might chunk by"""
    data = bytes(G.encode_table(t, be=be).b)
    exp_dec = [G.dec_ts_str(t, si, None) for si in range(len(t["slices"]))]

    def oracle(c, exp_dec=exp_dec, t=t, n=len(data)):
        d = parse_session(c.val(2)); f = []
        if d["fh"] != 0 or d["tm"] != 0: return ["well-formed stream refused: fh=%s tm=%s" % (d["fh"], d["tm"])]
        ok, part = find_seq(d["line"], exp_dec)
        if not ok: f.append("decoded content of a large fixed-size column differs from what was encoded")
        if d["n"] != len(t["slices"]) or d["end"] != -1000 or d["pos"] != n:
            f.append("large table: end=%s n=%s pos=%s (expected end-of-table after %d slices at %d)" % (d["end"], d["n"], d["pos"], len(t["slices"]), n))
        return f
    return Case(cid, ["in 1 %s" % hx(data), "session 1 *"], oracle=oracle,
                meta={"dist": {"kind": "large", "rows": len(t["slices"][0][0]["vals"]), "types": [c["ty"] for c in t["cols"]]}})


def big_cases(rng, tier):
    shapes = [([2], 70001), ([5, 13], 9000)] if tier != "thorough" else [([2], 70001), ([5, 13], 9000), ([3, 4], 66000), ([2, 8], 131073), ([13], 4097), ([1, 2], 65537)]
    for k, (tys, rows) in enumerate(shapes):
        yield big_case("big%d" % k, G.big_table(rng, tys, rows))


def cases(rng, tier):
    n = {"quick": 300, "thorough": 8000, "search": 300}[tier]
    for c in big_cases(rng, tier): yield c
    for i in range(n):
        k = rng.random()
        if k < 0.2:
            t = G.rand_table(rng, ncols=rng.choice([1, 2, 3]), nslices=rng.choice([1, 2]), maxrows=rng.choice([256, 257, 512, 600, 700]))
        else:
            t = G.rand_table(rng, maxrows={"quick": 80, "thorough": 500, "search": 50}[tier])
        layouts = {}
        for si, sl in enumerate(t["slices"]):
            for ci, col in enumerate(sl):
                layouts[(si, ci, -1)] = G.random_layout(rng, t["cols"][ci]["ty"], col["vals"])
                for pi, (pn, pty, elems, pk) in enumerate(col["props"]):
                    layouts[(si, ci, pi)] = G.random_layout(rng, pty, elems)
        # name list: first-appearance order, permuted, with unused names
        names = []; seen = set()
        for col in t["cols"]:
            for nm in [b"Name", b"DataType"] + [e[0] for e in col["extra"]]:
                if nm not in seen: seen.add(nm); names.append(nm)
        unused = []
        if rng.random() < 0.4:
            for u in range(rng.choice([1, 2])):
                uty = rng.choice(ALLTYPES)
                unused.append((b"Unused%d" % u, uty, rand_elem(rng, uty) if rng.random() < 0.5 else None))
        total = len(names) + len(unused)
        order = list(range(total))
        if rng.random() < 0.5: rng.shuffle(order)
        allnames = names + [u[0] for u in unused]
        order_names = [allnames[j] for j in order]
        e = G.encode_table(t, layouts=layouts, name_order=order, unused=unused)
        data = bytes(e.b)
        exp_meta = expected_meta_order(t, order_names)
        exp_dec = [G.dec_ts_str(t, si, None, layouts) for si in range(len(t["slices"]))]

        def oracle(c, exp_meta=exp_meta, exp_dec=exp_dec, t=t, n=len(data)):
            d = parse_session(c.val(2)); f = []
            if d["fh"] != 0 or d["tm"] != 0:
                return ["well-formed stream refused: fh=%s tm=%s" % (d["fh"], d["tm"])]
            if (" tm=0 " + exp_meta + " ") not in d["line"] + " ":
                f.append("metadata exposed by the reader differs from what was encoded")
            ok, part = find_seq(d["line"], exp_dec)
            if not ok: f.append("decoded slice content differs from what was encoded (first missing: %s)" % part[:160])
            if d["n"] != len(t["slices"]) or d["end"] != -1000:
                f.append("session ended with %s after %s slices (expected end-of-table after %d)" % (d["end"], d["n"], len(t["slices"])))
            elif d["pos"] != n:
                f.append("end-of-table reported at %s, the stream has %d bytes" % (d["pos"], n))
            for ci, col in enumerate(t["cols"]):
                if ci < 64 and (" c%d=0:%s:0:%d" % (ci, hx(col["name"].split(b"\0")[0]), col["ty"])) not in d["line"]:
                    f.append("column %d name/type accessors differ" % ci)
            return f
        rows = sum(len(col["vals"]) for sl in t["slices"] for col in sl)
        # every third stream is not seekable (a pipe): a full read needs nothing but fread
        piped = i % 3 == 2
        if i % 4 == 1:
            # the skipping reader is a reader too: it must step over every slice and report end-of-table at the end marker
            def oracle_skip(c, t=t, n=len(data)):
                d = parse_session(c.val(2))
                if d["fh"] != 0 or d["tm"] != 0: return ["well-formed stream refused: fh=%s tm=%s" % (d["fh"], d["tm"])]
                if d["n"] != len(t["slices"]) or d["end"] != -1000 or d["pos"] != n:
                    return ["sbdf_ts_skip over the table: end=%s after %s slices at %s (expected end-of-table after %d slices at %d)" % (d["end"], d["n"], d["pos"], len(t["slices"]), n)]
                return []
            yield Case("k%d" % i, ["in 1 %s" % hx(data), "session 1 skip"], oracle=oracle_skip, meta={"dist": {"kind": "skip-session"}})
        yield Case("f%d" % i, ["%s 1 %s" % ("inpipe" if piped else "in", hx(data)), "session 1 *"], oracle=oracle, nontrivial=rows > 0,
                   meta={"dist": {"cols": len(t["cols"]), "slices": len(t["slices"]), "unused": len(unused), "permuted": order != list(range(total)), "piped": piped}})
